import BezierVerif.Lemmas.RoundingMore
import BezierVerif.Lemmas.RoundingTriPy
import Mathlib.Algebra.Order.Field.Rat
import Mathlib.Algebra.Order.Ring.Rat

/-!
# C09 (rounding) — triangle specialisation / subdivision *in rounded arithmetic*

`Model.F90.triSpecializeRow` (the rounds `de_casteljau_one_round` run on the two alternating
workspaces), the generic branch of `subdivide_nodes` built on it, and the table branch of
`subdivide_nodes` for degree 1–4 (`rowMul row (tables d qt)`, Python tables resp. Fortran closed
forms given as matrices) are instantiated, unchanged, at `Fl F fl`.

Hypotheses: the standard model `|fl x - x| ≤ u |x|`; control values and weight triples are numbers
of the arithmetic; for subdivision the constant `½` is exact, `DyadicExact fl 1` (`fl 2 = 2`,
`fl (1/2) = 1/2`); for the table branch the table entries are numbers of the arithmetic.

Scale: the same routine run on the absolute values with the absolute weights – for
specialisation this is the absolute blossom (`C09.specialize_is_blossom` applied to the absolute
data), i.e. `harness/props/c09.py: abs_blossom_scale`.

The Python variant (`Model.Py.triSpecializeRow`: dictionary keyed by ascending tuples, products with
the matrices `make_transform`) is covered under two further hypotheses that binary64 satisfies:
the rounding is idempotent (`fl (fl x) = fl x`, `fl 0 = 0`) and the weights are numbers of the
arithmetic (`fl w = w`).  Then each matrix product *is* one round, bit for bit
(`TriPy.rowMulCols_makeTransform_fl`), and the same bound follows.

Proven exponents: specialisation and generic subdivision (Fortran workspace path and Python
dictionary path) `3d`; table branch `N + 1`, `N = (d+1)(d+2)/2 ≤ 15`.  Comparator constant of the
script: `4(3d+6)`.
-/

set_option linter.unusedSectionVars false
set_option linter.unusedVariables false

namespace BezierVerif.C09

open Finset Model BezierVerif BezierVerif.Tri

variable {F : Type} [Field F] [LinearOrder F] [IsStrictOrderedRing F]

/-- **`specialize_triangle` (Fortran workspaces) in rounded arithmetic**, every degree, every
    weight triples: three roundings per round, `3d` in all -/
theorem specialize_rounding_f90 (fl : F → F) (u : F) (hu : 0 ≤ u) (hfl : ∀ x, |fl x - x| ≤ u * |x|)
    (d : ℕ) (row : List F) (wa wb wc : Bary F) (i : ℕ) :
    |(seq (F90.triSpecializeRow d (row.map Fl.mk) (mkBary fl wa) (mkBary fl wb) (mkBary fl wc)) i).val
        - seq (F90.triSpecializeRow d row wa wb wc) i|
      ≤ ((1+u)^(3*d) - 1)
          * seq (F90.triSpecializeRow d (row.map (|·|)) (absBary wa) (absBary wb) (absBary wc)) i :=
  (f90_triSpecialize_near ⟨hu, hfl⟩ d row wa wb wc).bound ⟨hu, hfl⟩ i

/-- the exact value is dominated by the scale -/
theorem specialize_abs_le (d : ℕ) (row : List F) (wa wb wc : Bary F) (i : ℕ) :
    |seq (F90.triSpecializeRow d row wa wb wc) i|
      ≤ seq (F90.triSpecializeRow d (row.map (|·|)) (absBary wa) (absBary wb) (absBary wc)) i :=
  ((f90_triSpecialize_near (fl := id) (u := 0) ⟨le_rfl, by intro x; simp⟩ d row wa wb wc).seq
    ⟨le_rfl, by intro x; simp⟩ i).2

/-- **generic branch of `subdivide_nodes` (Fortran)**, each of the four pieces -/
theorem subdivide_generic_rounding_f90 (fl : F → F) (u : F) (hu : 0 ≤ u)
    (hfl : ∀ x, |fl x - x| ≤ u * |x|) (hD : DyadicExact fl 1) (d : ℕ) (row : List F) (qt : Quarter)
    (i : ℕ) :
    |(seq (F90.triSubdivideGenericRow (subWeights (K := Fl F fl)) d (row.map Fl.mk) qt) i).val
        - seq (F90.triSubdivideGenericRow subWeights d row qt) i|
      ≤ ((1+u)^(3*d) - 1) * seq (F90.triSubdivideGenericRow subWeights d (row.map (|·|)) qt) i :=
  (f90_triSubdivideGeneric_near ⟨hu, hfl⟩ hD d row qt).bound ⟨hu, hfl⟩ i

/-- **table branch (degree 1–4), any exactly represented matrix**: each output is a dot product of
    `N` terms, `N + 1` roundings, relative to `Σ_r |v_r| |M_rc|` -/
theorem subdivide_tables_rounding (fl : F → F) (u : F) (hu : 0 ≤ u) (hfl : ∀ x, |fl x - x| ≤ u * |x|)
    (M : List (List F)) (row : List F) (i : ℕ) :
    |(seq (rowMul (row.map (Fl.mk (fl := fl))) (M.map (List.map Fl.mk))) i).val - seq (rowMul row M) i|
      ≤ ((1+u)^(row.length + 1) - 1) * seq (rowMul (row.map (|·|)) (M.map (List.map (|·|)))) i :=
  ((NearL.rowMul ⟨hu, hfl⟩ (NearL.map_mk ⟨hu, hfl⟩ 0 row) (NearM.map_mk ⟨hu, hfl⟩ 0 M)).cast
    (by omega)).bound ⟨hu, hfl⟩ i

/-- `subdivide_nodes` (Python) dispatches to the table branch for degree 1–4 in the arithmetic as
    in exact arithmetic (the dispatch only looks at the degree) -/
theorem subdivide_nodes_py_fl (fl : F → F) (tables : ℕ → Quarter → List (List F))
    (W : SubWeights (Fl F fl)) (d : ℕ) (hd : 1 ≤ d ∧ d ≤ 4) (row : List F) (qt : Quarter) :
    Py.triSubdivideNodesRow (fun d q => (tables d q).map (List.map (Fl.mk (fl := fl)))) W d
        (row.map Fl.mk) qt
      = .ok (rowMul (row.map Fl.mk) ((tables d qt).map (List.map Fl.mk))) := by
  unfold Py.triSubdivideNodesRow
  rw [if_pos hd]

/-- the same for the Fortran closed forms, and the generic branch otherwise -/
theorem subdivide_nodes_f90_fl (fl : F → F) (forms : ℕ → Quarter → List (List F))
    (W : SubWeights (Fl F fl)) (d : ℕ) (row : List F) (qt : Quarter) :
    F90.triSubdivideNodesRow (fun d q => (forms d q).map (List.map (Fl.mk (fl := fl)))) W d
        (row.map Fl.mk) qt
      = if 1 ≤ d ∧ d ≤ 4 then rowMul (row.map Fl.mk) ((forms d qt).map (List.map Fl.mk))
        else F90.triSubdivideGenericRow W d (row.map Fl.mk) qt := rfl

/-- when the table is the model-derived operator matrix (`Tables/C09a`, `Tables/C09b`) the scale of
    the table branch is the absolute blossom, too -/
theorem subdivide_tables_scale (d : ℕ) (row : List F) (h : row.length = numNodes d) (qt : Quarter) :
    rowMul (row.map (|·|)) ((triSubdivMat (subWeights (K := F)) d qt).map (List.map (|·|)))
      = F90.triSubdivideGenericRow subWeights d (row.map (|·|)) qt := by
  rw [triSubdivMat_abs, rowMul_triSubdivMat _ _ _ (by simpa using h)]

/-! ### the Python variant -/

/-- **`specialize_triangle` (Python) in rounded arithmetic**: the call returns, and every entry is
    within `((1+u)^(3d) - 1) ·` absolute blossom of the exact result (the exact results of the two
    variants agree, `C09.specialize_variants_agree`) -/
theorem specialize_rounding_py (fl : F → F) (u : F) (hu : 0 ≤ u) (hfl : ∀ x, |fl x - x| ≤ u * |x|)
    (hidem : ∀ x, fl (fl x) = fl x) (d : ℕ) (hd : 1 ≤ d) (row : List F) (h : row.length = numNodes d)
    (wa wb wc : Bary F) (ha : TriPy.BaryFix fl wa) (hb : TriPy.BaryFix fl wb) (hc : TriPy.BaryFix fl wc) :
    ∃ out, Py.triSpecializeRow d (row.map Fl.mk) (mkBary fl wa) (mkBary fl wb) (mkBary fl wc) = .ok out ∧
      ∀ i, |(seq out i).val - seq (F90.triSpecializeRow d row wa wb wc) i|
        ≤ ((1+u)^(3*d) - 1)
            * seq (F90.triSpecializeRow d (row.map (|·|)) (absBary wa) (absBary wb) (absBary wc)) i := by
  have S : StdModel fl u := ⟨hu, hfl⟩
  have h0 : fl 0 = 0 := by have := hfl 0; simpa using this
  obtain ⟨out, e, H⟩ := TriPy.py_triSpecialize_near S ⟨hidem, h0⟩ d hd row h wa wb wc ha hb hc
  exact ⟨out, e, fun i => H.bound S i⟩

/-- **generic branch of `subdivide_nodes` (Python)**, each of the four pieces -/
theorem subdivide_generic_rounding_py (fl : F → F) (u : F) (hu : 0 ≤ u)
    (hfl : ∀ x, |fl x - x| ≤ u * |x|) (hidem : ∀ x, fl (fl x) = fl x) (hD : DyadicExact fl 1) (d : ℕ)
    (hd : 1 ≤ d) (row : List F) (h : row.length = numNodes d) (qt : Quarter) :
    ∃ out, Py.triSubdivideGenericRow (subWeights (K := Fl F fl)) d (row.map Fl.mk) qt = .ok out ∧
      ∀ i, |(seq out i).val - seq (F90.triSubdivideGenericRow subWeights d row qt) i|
        ≤ ((1+u)^(3*d) - 1) * seq (F90.triSubdivideGenericRow subWeights d (row.map (|·|)) qt) i := by
  have S : StdModel fl u := ⟨hu, hfl⟩
  have h0 : fl 0 = 0 := by have := hfl 0; simpa using this
  obtain ⟨out, e, H⟩ := TriPy.py_triSubdivideGeneric_near S ⟨hidem, h0⟩ hD d hd row h qt
  exact ⟨out, e, fun i => H.bound S i⟩

/-- `subdivide_nodes` (Python) dispatches to the generic branch outside degree 1–4 -/
theorem subdivide_nodes_py_generic_fl (fl : F → F) (tables : ℕ → Quarter → List (List (Fl F fl)))
    (W : SubWeights (Fl F fl)) (d : ℕ) (hd : ¬ (1 ≤ d ∧ d ≤ 4)) (row : List (Fl F fl)) (qt : Quarter) :
    Py.triSubdivideNodesRow tables W d row qt = Py.triSubdivideGenericRow W d row qt := by
  unfold Py.triSubdivideNodesRow
  rw [if_neg hd]

/-- comparator form for the Python variant -/
theorem specialize_comparator_py (fl : F → F) (u : F) (hu : 0 ≤ u) (hfl : ∀ x, |fl x - x| ≤ u * |x|)
    (hu53 : u ≤ 1 / 2^53) (hidem : ∀ x, fl (fl x) = fl x) (d : ℕ) (hd : 1 ≤ d) (hd' : d ≤ 2^38)
    (row : List F) (h : row.length = numNodes d)
    (wa wb wc : Bary F) (ha : TriPy.BaryFix fl wa) (hb : TriPy.BaryFix fl wb) (hc : TriPy.BaryFix fl wc) :
    ∃ out, Py.triSpecializeRow d (row.map Fl.mk) (mkBary fl wa) (mkBary fl wb) (mkBary fl wc) = .ok out ∧
      ∀ i, |(seq out i).val - seq (F90.triSpecializeRow d row wa wb wc) i|
        ≤ (4 * (3 * (d : F) + 6)) * u
            * seq (F90.triSpecializeRow d (row.map (|·|)) (absBary wa) (absBary wb) (absBary wc)) i := by
  have S : StdModel fl u := ⟨hu, hfl⟩
  have h0 : fl 0 = 0 := by have := hfl 0; simpa using this
  obtain ⟨out, e, H⟩ := TriPy.py_triSpecialize_near S ⟨hidem, h0⟩ d hd row h wa wb wc ha hb hc
  have hk : ((3 * d : ℕ) : F) * u ≤ 1 / 100 :=
    ku_small u hu hu53 _ (by have : (2:ℕ)^40 = 4 * 2^38 := by norm_num
                             omega)
  have hd0 : (0 : F) ≤ (d : F) := Nat.cast_nonneg _
  exact ⟨out, e, fun i => (H.seq S i).comparator_le S hk _ (by push_cast; linarith)⟩

/-! ### comparator forms: the constant `4(3d+6)` of `c09.py` (`u ≤ 2⁻⁵³`) -/

/-- Fortran workspace path (specialisation, generic subdivision): `1.01·3d ≤ 4(3d+6)`, every
    `d ≤ 2^38` -/
theorem specialize_comparator_f90 (fl : F → F) (u : F) (hu : 0 ≤ u) (hfl : ∀ x, |fl x - x| ≤ u * |x|)
    (hu53 : u ≤ 1 / 2^53) (d : ℕ) (hd : d ≤ 2^38) (row : List F) (wa wb wc : Bary F) (i : ℕ) :
    |(seq (F90.triSpecializeRow d (row.map Fl.mk) (mkBary fl wa) (mkBary fl wb) (mkBary fl wc)) i).val
        - seq (F90.triSpecializeRow d row wa wb wc) i|
      ≤ (4 * (3 * (d : F) + 6)) * u
          * seq (F90.triSpecializeRow d (row.map (|·|)) (absBary wa) (absBary wb) (absBary wc)) i := by
  have S : StdModel fl u := ⟨hu, hfl⟩
  have hk : ((3 * d : ℕ) : F) * u ≤ 1 / 100 :=
    ku_small u hu hu53 _ (by have : (2:ℕ)^40 = 4 * 2^38 := by norm_num
                             omega)
  have hd0 : (0 : F) ≤ (d : F) := Nat.cast_nonneg _
  exact ((f90_triSpecialize_near S d row wa wb wc).seq S i).comparator_le S hk _ (by push_cast; linarith)

theorem subdivide_generic_comparator_f90 (fl : F → F) (u : F) (hu : 0 ≤ u)
    (hfl : ∀ x, |fl x - x| ≤ u * |x|) (hu53 : u ≤ 1 / 2^53) (hD : DyadicExact fl 1) (d : ℕ)
    (hd : d ≤ 2^38) (row : List F) (qt : Quarter) (i : ℕ) :
    |(seq (F90.triSubdivideGenericRow (subWeights (K := Fl F fl)) d (row.map Fl.mk) qt) i).val
        - seq (F90.triSubdivideGenericRow subWeights d row qt) i|
      ≤ (4 * (3 * (d : F) + 6)) * u * seq (F90.triSubdivideGenericRow subWeights d (row.map (|·|)) qt) i := by
  have S : StdModel fl u := ⟨hu, hfl⟩
  have hk : ((3 * d : ℕ) : F) * u ≤ 1 / 100 :=
    ku_small u hu hu53 _ (by have : (2:ℕ)^40 = 4 * 2^38 := by norm_num
                             omega)
  have hd0 : (0 : F) ≤ (d : F) := Nat.cast_nonneg _
  exact ((f90_triSubdivideGeneric_near S hD d row qt).seq S i).comparator_le S hk _
    (by push_cast; linarith)

/-- table branch, degree 1–4 (`N + 1 = 4, 7, 11, 16`): `1.01 (N+1) ≤ 4(3d+6) = 36, 48, 60, 72` -/
theorem subdivide_tables_comparator (fl : F → F) (u : F) (hu : 0 ≤ u) (hfl : ∀ x, |fl x - x| ≤ u * |x|)
    (hu53 : u ≤ 1 / 2^53) (d : ℕ) (hd1 : 1 ≤ d) (hd4 : d ≤ 4) (M : List (List F)) (row : List F)
    (h : row.length = numNodes d) (i : ℕ) :
    |(seq (rowMul (row.map (Fl.mk (fl := fl))) (M.map (List.map Fl.mk))) i).val - seq (rowMul row M) i|
      ≤ (4 * (3 * (d : F) + 6)) * u * seq (rowMul (row.map (|·|)) (M.map (List.map (|·|)))) i := by
  have S : StdModel fl u := ⟨hu, hfl⟩
  have hN := (NearL.rowMul S (NearL.map_mk S 0 row) (NearM.map_mk S 0 M)).seq S i
  have hlen : row.length ≤ 15 ∧ (101 / 100 * ((0 + 0 + 1 + row.length : ℕ) : F) ≤ 4 * (3 * (d : F) + 6)) := by
    rw [h]
    have : d = 1 ∨ d = 2 ∨ d = 3 ∨ d = 4 := by omega
    rcases this with rfl | rfl | rfl | rfl <;> (simp only [numNodes]; norm_num)
  have hk : ((0 + 0 + 1 + row.length : ℕ) : F) * u ≤ 1 / 100 :=
    ku_small u hu hu53 _ (by have := hlen.1
                             have : (16 : ℕ) ≤ 2^40 := by norm_num
                             omega)
  exact hN.comparator_le S hk _ hlen.2

/-! ### non-vacuity -/

example (d : ℕ) (row : List ℚ) (wa wb wc : Bary ℚ) (i : ℕ) :
    (seq (F90.triSpecializeRow d (row.map Fl.mk) (mkBary (id : ℚ → ℚ) wa) (mkBary id wb) (mkBary id wc)) i).val
      = seq (F90.triSpecializeRow d row wa wb wc) i := by
  have := specialize_rounding_f90 (F := ℚ) id 0 le_rfl (by intro x; simp) d row wa wb wc i
  simpa [sub_eq_zero] using this

/-- an inexact arithmetic (`fl x = x (1 + 2⁻¹⁰)`): the specialisation bound with `u = 2⁻¹⁰` -/
example (d : ℕ) (row : List ℚ) (wa wb wc : Bary ℚ) (i : ℕ) :
    |(seq (F90.triSpecializeRow d (row.map Fl.mk) (mkBary (fun x : ℚ => x * (1 + 1/1024)) wa)
          (mkBary _ wb) (mkBary _ wc)) i).val - seq (F90.triSpecializeRow d row wa wb wc) i|
      ≤ ((1 + 1/1024 : ℚ)^(3*d) - 1)
          * seq (F90.triSpecializeRow d (row.map (|·|)) (absBary wa) (absBary wb) (absBary wc)) i :=
  specialize_rounding_f90 (F := ℚ) (fun x => x * (1 + 1/1024)) (1/1024) (by norm_num)
    (by intro x
        have : x * (1 + 1/1024) - x = 1/1024 * x := by ring
        rw [this, abs_mul]; norm_num) d row wa wb wc i

/-- generic subdivision in the inexact arithmetic `flDy` (dyadic numbers exact, `u = 2⁻¹⁰`) -/
example (d : ℕ) (row : List ℚ) (qt : Quarter) (i : ℕ) :
    |(seq (F90.triSubdivideGenericRow (subWeights (K := Fl ℚ flDy)) d (row.map Fl.mk) qt) i).val
        - seq (F90.triSubdivideGenericRow subWeights d row qt) i|
      ≤ ((1 + 1/1024 : ℚ)^(3*d) - 1) * seq (F90.triSubdivideGenericRow subWeights d (row.map (|·|)) qt) i :=
  subdivide_generic_rounding_f90 flDy (1/1024) flDy_std.hu flDy_std.hfl (flDy_dyadic 1 (by norm_num))
    d row qt i

/-- the Python variant: exact arithmetic satisfies all hypotheses (idempotence, weights of the
    arithmetic), the call returns the exact result -/
example (d : ℕ) (hd : 1 ≤ d) (row : List ℚ) (h : row.length = numNodes d) (wa wb wc : Bary ℚ) :
    ∃ out, Py.triSpecializeRow d (row.map Fl.mk) (mkBary (id : ℚ → ℚ) wa) (mkBary id wb) (mkBary id wc)
        = .ok out ∧ ∀ i, (seq out i).val = seq (F90.triSpecializeRow d row wa wb wc) i := by
  obtain ⟨out, e, H⟩ := specialize_rounding_py (F := ℚ) id 0 le_rfl (by intro x; simp) (fun _ => rfl)
    d hd row h wa wb wc ⟨rfl, rfl, rfl⟩ ⟨rfl, rfl, rfl⟩ ⟨rfl, rfl, rfl⟩
  exact ⟨out, e, fun i => by simpa [sub_eq_zero] using H i⟩

/-- the Python generic subdivision in an idempotent *inexact* arithmetic (`TriPy.flFlush`: dyadic
    numbers kept, everything else flushed to zero, `u = 1`): all hypotheses are satisfiable together -/
example (d : ℕ) (hd : 1 ≤ d) (row : List ℚ) (h : row.length = numNodes d) (qt : Quarter) :
    ∃ out, Py.triSubdivideGenericRow (subWeights (K := Fl ℚ TriPy.flFlush)) d (row.map Fl.mk) qt = .ok out ∧
      ∀ i, |(seq out i).val - seq (F90.triSubdivideGenericRow subWeights d row qt) i|
        ≤ ((1 + 1 : ℚ)^(3*d) - 1) * seq (F90.triSubdivideGenericRow subWeights d (row.map (|·|)) qt) i :=
  subdivide_generic_rounding_py TriPy.flFlush 1 TriPy.flFlush_std.hu TriPy.flFlush_std.hfl
    TriPy.flFlush_idem.idem (TriPy.flFlush_dyadic 1 (by norm_num)) d hd row h qt

example : DyadicExact (id : ℚ → ℚ) 1 := fun _ _ _ _ => rfl

end BezierVerif.C09
