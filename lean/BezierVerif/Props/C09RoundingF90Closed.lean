import BezierVerif.Lemmas.RoundingTriClosed
import BezierVerif.Props.C09
import Mathlib.Algebra.Order.Field.Rat
import Mathlib.Algebra.Order.Ring.Rat

/-!
# C09 (rounding, Fortran closed forms) — `subdivide_nodes` of `triangle.f90`, degree 1–4, in the
# operation order of the source text

`Props/C09Rounding.lean` treats the table branch of degree 1–4 as a matrix product
(`rowMul row (forms d qt)`: a dot product of `N` terms per output, `N + 1` roundings), which is what
the Python tables do but not what the compiled Fortran does: the Fortran evaluates explicit
expressions `0.0625_dp * (nodes(:, 2) + 2 * nodes(:, 3) + …)`.  `Model.F90.subdivideClosed`
(`Model/TriangleF90Closed.lean`, generated from the Fortran text by
`harness/tools/gen_tri_closed.py`) transcribes these statements term by term; this file proves

* exact arithmetic (every field of characteristic 0, in particular `Rat` and every ordered field):
  the transcription equals `rowMul row (triSubdivMat subWeights d qt)`,
  hence the generic branch and `F90.triSubdivideNodesRow forms …` for every `forms` that are the
  operator matrices (hypothesis `hf` of `C09.subdivide_nodes_f90`, decided in `Tables/C09b`) — the
  variant is interchangeable in the C09 theorems;
* rounded arithmetic (any ordered field, standard model, `1/2 … 1/2^d` numbers of the arithmetic):
  every output is within `((1+u)^k_d - 1) · scale` of the exact one with
  `k_d = d(d+1)/2 + 1 = 2, 4, 7, 11` (the longest statement of the branch: a sum of `m` terms costs
  `m - 1` additions, an integer multiple one more on that term, the leading constant one more),
  against `N + 1 = 4, 7, 11, 16` of the matrix-product treatment; the scale is the same statements on
  the absolute values, which is the absolute blossom (all coefficients are non-negative);
* comparator form: `4(3d+6)·u·scale` for `u ≤ 2⁻⁵³`, the tolerance of `harness/props/c09.py`
  (`t_ = 4 * (3 * d + 6) * C.U * scale_row[col]`, scale `abs_blossom_scale`).

Spelling chosen in the model: integer multipliers `((m : Nat) : K)` (exact injection `NatCast`),
leading constants `1 / ((2^m : Nat) : K)` (one division of exact operands: exact under
`DyadicExact fl m`; degree `d` needs `m ≤ d`).  Outside degree 1–4, and for a row of the wrong
length, `F90.subdivideClosed` is the generic branch (total, no error value).
-/

set_option linter.unusedSectionVars false
set_option linter.unusedVariables false

namespace BezierVerif.C09

open Finset Model BezierVerif BezierVerif.TriClosed

/-! ### exact arithmetic: the closed forms as written are the operator matrices -/

/-- outside degree 1–4 the routine is the generic branch (any carrier, by definition) -/
theorem subdivide_closed_else_branch {K : Type} [Add K] [Sub K] [Mul K] [Div K] [Neg K] [OfNat K 0]
    [OfNat K 1] [NatCast K] (d : ℕ) (hd : ¬ (1 ≤ d ∧ d ≤ 4)) (row : List K) (qt : Quarter) :
    F90.subdivideClosed d row qt = F90.triSubdivideGenericRow subWeights d row qt := by
  match d, hd with
  | 0, _ => rfl
  | 1, hd => exact absurd ⟨by decide, by decide⟩ hd
  | 2, hd => exact absurd ⟨by decide, by decide⟩ hd
  | 3, hd => exact absurd ⟨by decide, by decide⟩ hd
  | 4, hd => exact absurd ⟨by decide, by decide⟩ hd
  | _ + 5, _ => rfl

section Exact
variable {K : Type} [Field K] [CharZero K]

/-- **degree 1–4, every field of characteristic 0**: the Fortran statements, evaluated in their
    order, are the product with the model-derived operator matrix -/
theorem subdivide_closed_eq_rowMul (d : ℕ) (hd1 : 1 ≤ d) (hd4 : d ≤ 4) (row : List K)
    (h : row.length = numNodes d) (qt : Quarter) :
    F90.subdivideClosed d row qt = rowMul row (triSubdivMat subWeights d qt) := by
  rw [← closedMat_cast_eq d hd1 hd4 qt]
  have : d = 1 ∨ d = 2 ∨ d = 3 ∨ d = 4 := by omega
  rcases this with rfl | rfl | rfl | rfl
  · exact closed_eq_rowMul_1 row h qt
  · exact closed_eq_rowMul_2 row h qt
  · exact closed_eq_rowMul_3 row h qt
  · exact closed_eq_rowMul_4 row h qt

/-- **every degree**: the variant with the closed forms as written returns the pieces of the
    generic branch -/
theorem subdivide_closed_eq_generic (d : ℕ) (row : List K) (h : row.length = numNodes d)
    (qt : Quarter) :
    F90.subdivideClosed d row qt = F90.triSubdivideGenericRow subWeights d row qt := by
  by_cases hd : 1 ≤ d ∧ d ≤ 4
  · rw [subdivide_closed_eq_rowMul d hd.1 hd.2 row h qt, tables_are_generic subWeights d row h qt]
  · exact subdivide_closed_else_branch d hd row qt

/-- it is interchangeable with `F90.triSubdivideNodesRow` (closed forms as linear maps) whenever the
    matrices `forms` are the operator matrices — the hypothesis `hf` of `C09.subdivide_nodes_f90`,
    discharged for the extracted Fortran data (over `Rat`) by `Tables/C09b` -/
theorem subdivide_closed_eq_nodes_f90 (forms : ℕ → Quarter → List (List K))
    (hf : ∀ d qt, 1 ≤ d → d ≤ 4 → forms d qt = triSubdivMat subWeights d qt)
    (d : ℕ) (row : List K) (h : row.length = numNodes d) (qt : Quarter) :
    F90.subdivideClosed d row qt = F90.triSubdivideNodesRow forms subWeights d row qt := by
  rw [subdivide_closed_eq_generic d row h qt, subdivide_nodes_f90 forms subWeights hf d row h qt]

end Exact

/-! ### rounded arithmetic -/

variable {F : Type} [Field F] [LinearOrder F] [IsStrictOrderedRing F]

/-- the scale of the rounding theorems below is the absolute blossom
    (`harness/props/c09.py: abs_blossom_scale`): the same statements on `|v_i|` (all coefficients
    are non-negative) are the generic pieces of the absolute net -/
theorem subdivide_closed_scale (d : ℕ) (row : List F) (h : row.length = numNodes d) (qt : Quarter) :
    F90.subdivideClosed d (row.map (|·|)) qt
      = F90.triSubdivideGenericRow subWeights d (row.map (|·|)) qt :=
  subdivide_closed_eq_generic d _ (by simpa using h) qt

/-- degree 1 (`0.5 * (a + b)`): 2 roundings -/
theorem subdivide_closed_near_deg1 (fl : F → F) (u : F) (hu : 0 ≤ u) (hfl : ∀ x, |fl x - x| ≤ u * |x|)
    (hD : DyadicExact fl 1) (row : List F) (h : row.length = numNodes 1) (qt : Quarter) :
    NearL fl u 2 (F90.subdivideClosed 1 (row.map (Fl.mk (fl := fl))) qt) (F90.subdivideClosed 1 row qt)
      (F90.subdivideClosed 1 (row.map (|·|)) qt) :=
  closed_near_1 ⟨hu, hfl⟩ hD row h qt

/-- degree 2 (longest: `0.25 * (a + 2 * b + c)`, `0.25 * (a + b + c + e)`): 4 roundings -/
theorem subdivide_closed_near_deg2 (fl : F → F) (u : F) (hu : 0 ≤ u) (hfl : ∀ x, |fl x - x| ≤ u * |x|)
    (hD : DyadicExact fl 2) (row : List F) (h : row.length = numNodes 2) (qt : Quarter) :
    NearL fl u 4 (F90.subdivideClosed 2 (row.map (Fl.mk (fl := fl))) qt) (F90.subdivideClosed 2 row qt)
      (F90.subdivideClosed 2 (row.map (|·|)) qt) :=
  closed_near_2 ⟨hu, hfl⟩ hD row h qt

/-- degree 3 (longest: 7 plain terms, or 6 terms the second of which is doubled): 7 roundings -/
theorem subdivide_closed_near_deg3 (fl : F → F) (u : F) (hu : 0 ≤ u) (hfl : ∀ x, |fl x - x| ≤ u * |x|)
    (hD : DyadicExact fl 3) (row : List F) (h : row.length = numNodes 3) (qt : Quarter) :
    NearL fl u 7 (F90.subdivideClosed 3 (row.map (Fl.mk (fl := fl))) qt) (F90.subdivideClosed 3 row qt)
      (F90.subdivideClosed 3 (row.map (|·|)) qt) :=
  closed_near_3 ⟨hu, hfl⟩ hD row h qt

/-- degree 4 (longest: `nodes_b(:, 11)`, 10 terms the second of which is doubled): 11 roundings -/
theorem subdivide_closed_near_deg4 (fl : F → F) (u : F) (hu : 0 ≤ u) (hfl : ∀ x, |fl x - x| ≤ u * |x|)
    (hD : DyadicExact fl 4) (row : List F) (h : row.length = numNodes 4) (qt : Quarter) :
    NearL fl u 11 (F90.subdivideClosed 4 (row.map (Fl.mk (fl := fl))) qt) (F90.subdivideClosed 4 row qt)
      (F90.subdivideClosed 4 (row.map (|·|)) qt) :=
  closed_near_4 ⟨hu, hfl⟩ hD row h qt

/-- **degree 1–4 uniformly**: exponent `k_d = d(d+1)/2 + 1` (`2, 4, 7, 11`), constants `1/2 … 1/2^d`
    numbers of the arithmetic -/
theorem subdivide_closed_near (fl : F → F) (u : F) (hu : 0 ≤ u) (hfl : ∀ x, |fl x - x| ≤ u * |x|)
    (d : ℕ) (hd1 : 1 ≤ d) (hd4 : d ≤ 4) (hD : DyadicExact fl d) (row : List F)
    (h : row.length = numNodes d) (qt : Quarter) :
    NearL fl u (d * (d + 1) / 2 + 1) (F90.subdivideClosed d (row.map (Fl.mk (fl := fl))) qt)
      (F90.subdivideClosed d row qt) (F90.subdivideClosed d (row.map (|·|)) qt) := by
  have : d = 1 ∨ d = 2 ∨ d = 3 ∨ d = 4 := by omega
  rcases this with rfl | rfl | rfl | rfl
  · exact subdivide_closed_near_deg1 fl u hu hfl hD row h qt
  · exact subdivide_closed_near_deg2 fl u hu hfl hD row h qt
  · exact subdivide_closed_near_deg3 fl u hu hfl hD row h qt
  · exact subdivide_closed_near_deg4 fl u hu hfl hD row h qt

/-- **entry-wise form**: every control value of every piece -/
theorem subdivide_closed_rounding (fl : F → F) (u : F) (hu : 0 ≤ u) (hfl : ∀ x, |fl x - x| ≤ u * |x|)
    (d : ℕ) (hd1 : 1 ≤ d) (hd4 : d ≤ 4) (hD : DyadicExact fl d) (row : List F)
    (h : row.length = numNodes d) (qt : Quarter) (i : ℕ) :
    |(seq (F90.subdivideClosed d (row.map (Fl.mk (fl := fl))) qt) i).val
        - seq (F90.subdivideClosed d row qt) i|
      ≤ ((1+u)^(d * (d + 1) / 2 + 1) - 1) * seq (F90.subdivideClosed d (row.map (|·|)) qt) i :=
  (subdivide_closed_near fl u hu hfl d hd1 hd4 hD row h qt).bound ⟨hu, hfl⟩ i

/-- the exact value is dominated by the scale -/
theorem subdivide_closed_abs_le (d : ℕ) (hd1 : 1 ≤ d) (hd4 : d ≤ 4) (row : List F)
    (h : row.length = numNodes d) (qt : Quarter) (i : ℕ) :
    |seq (F90.subdivideClosed d row qt) i| ≤ seq (F90.subdivideClosed d (row.map (|·|)) qt) i :=
  ((subdivide_closed_near (F := F) id 0 le_rfl (by intro x; simp) d hd1 hd4 (fun _ _ _ _ => rfl)
    row h qt).seq ⟨le_rfl, by intro x; simp⟩ i).2

/-- outside degree 1–4 the compiled routine runs the generic branch: exponent `3d`
    (`C09.subdivide_generic_rounding_f90`) -/
theorem subdivide_closed_rounding_else (fl : F → F) (u : F) (hu : 0 ≤ u)
    (hfl : ∀ x, |fl x - x| ≤ u * |x|) (hD : DyadicExact fl 1) (d : ℕ) (hd : ¬ (1 ≤ d ∧ d ≤ 4))
    (row : List F) (qt : Quarter) (i : ℕ) :
    |(seq (F90.subdivideClosed d (row.map (Fl.mk (fl := fl))) qt) i).val
        - seq (F90.subdivideClosed d row qt) i|
      ≤ ((1+u)^(3*d) - 1) * seq (F90.subdivideClosed d (row.map (|·|)) qt) i := by
  rw [subdivide_closed_else_branch d hd, subdivide_closed_else_branch d hd,
    subdivide_closed_else_branch d hd]
  exact (f90_triSubdivideGeneric_near ⟨hu, hfl⟩ hD d row qt).bound ⟨hu, hfl⟩ i

/-- **the statement against the specification of the script**: computed closed forms vs the exact
    generic pieces (the blossoms, `C09.specialize_is_blossom`), relative to the absolute blossom -/
theorem subdivide_closed_rounding_spec (fl : F → F) (u : F) (hu : 0 ≤ u) (hfl : ∀ x, |fl x - x| ≤ u * |x|)
    (d : ℕ) (hd1 : 1 ≤ d) (hd4 : d ≤ 4) (hD : DyadicExact fl d) (row : List F)
    (h : row.length = numNodes d) (qt : Quarter) (i : ℕ) :
    |(seq (F90.subdivideClosed d (row.map (Fl.mk (fl := fl))) qt) i).val
        - seq (F90.triSubdivideGenericRow subWeights d row qt) i|
      ≤ ((1+u)^(d * (d + 1) / 2 + 1) - 1)
          * seq (F90.triSubdivideGenericRow subWeights d (row.map (|·|)) qt) i := by
  rw [← subdivide_closed_eq_generic d row h qt, ← subdivide_closed_scale d row h qt]
  exact subdivide_closed_rounding fl u hu hfl d hd1 hd4 hD row h qt i

/-! ### comparator form: the constant `4(3d+6)` of `c09.py` (`u ≤ 2⁻⁵³`) -/

/-- `1.01·k_d = 2.02, 4.04, 7.07, 11.11 ≤ 4(3d+6) = 36, 48, 60, 72` -/
theorem subdivide_closed_comparator (fl : F → F) (u : F) (hu : 0 ≤ u) (hfl : ∀ x, |fl x - x| ≤ u * |x|)
    (hu53 : u ≤ 1 / 2^53) (d : ℕ) (hd1 : 1 ≤ d) (hd4 : d ≤ 4) (hD : DyadicExact fl d) (row : List F)
    (h : row.length = numNodes d) (qt : Quarter) (i : ℕ) :
    |(seq (F90.subdivideClosed d (row.map (Fl.mk (fl := fl))) qt) i).val
        - seq (F90.subdivideClosed d row qt) i|
      ≤ (4 * (3 * (d : F) + 6)) * u * seq (F90.subdivideClosed d (row.map (|·|)) qt) i := by
  have S : StdModel fl u := ⟨hu, hfl⟩
  have hN := (subdivide_closed_near fl u hu hfl d hd1 hd4 hD row h qt).seq S i
  have hk : d * (d + 1) / 2 + 1 ≤ 11 ∧
      (101 / 100 * ((d * (d + 1) / 2 + 1 : ℕ) : F) ≤ 4 * (3 * (d : F) + 6)) := by
    have : d = 1 ∨ d = 2 ∨ d = 3 ∨ d = 4 := by omega
    rcases this with rfl | rfl | rfl | rfl <;> norm_num
  exact hN.comparator_le S (ku_small u hu hu53 _ (le_trans hk.1 (by norm_num))) _ hk.2

/-- the same against the script's specification and scale -/
theorem subdivide_closed_comparator_spec (fl : F → F) (u : F) (hu : 0 ≤ u)
    (hfl : ∀ x, |fl x - x| ≤ u * |x|) (hu53 : u ≤ 1 / 2^53) (d : ℕ) (hd1 : 1 ≤ d) (hd4 : d ≤ 4)
    (hD : DyadicExact fl d) (row : List F) (h : row.length = numNodes d) (qt : Quarter) (i : ℕ) :
    |(seq (F90.subdivideClosed d (row.map (Fl.mk (fl := fl))) qt) i).val
        - seq (F90.triSubdivideGenericRow subWeights d row qt) i|
      ≤ (4 * (3 * (d : F) + 6)) * u
          * seq (F90.triSubdivideGenericRow subWeights d (row.map (|·|)) qt) i := by
  rw [← subdivide_closed_eq_generic d row h qt, ← subdivide_closed_scale d row h qt]
  exact subdivide_closed_comparator fl u hu hfl hu53 d hd1 hd4 hD row h qt i

/-! ### non-vacuity -/

/-- exact arithmetic (`fl = id`, `u = 0`) satisfies the hypotheses and the bound collapses to equality -/
example (d : ℕ) (hd1 : 1 ≤ d) (hd4 : d ≤ 4) (row : List ℚ) (h : row.length = numNodes d) (qt : Quarter)
    (i : ℕ) :
    (seq (F90.subdivideClosed d (row.map (Fl.mk (fl := (id : ℚ → ℚ)))) qt) i).val
      = seq (F90.subdivideClosed d row qt) i := by
  have := subdivide_closed_rounding (F := ℚ) id 0 le_rfl (by intro x; simp) d hd1 hd4
    (fun _ _ _ _ => rfl) row h qt i
  simpa [sub_eq_zero] using this

/-- the inexact arithmetic `flDy` (dyadic numbers exact, everything else multiplied by `1 + 2⁻¹⁰`)
    satisfies all hypotheses: degree 4, `u = 2⁻¹⁰` -/
example (row : List ℚ) (h : row.length = numNodes 4) (qt : Quarter) (i : ℕ) :
    |(seq (F90.subdivideClosed 4 (row.map (Fl.mk (fl := flDy))) qt) i).val
        - seq (F90.triSubdivideGenericRow subWeights 4 row qt) i|
      ≤ ((1 + 1/1024 : ℚ)^11 - 1) * seq (F90.triSubdivideGenericRow subWeights 4 (row.map (|·|)) qt) i :=
  subdivide_closed_rounding_spec flDy (1/1024) flDy_std.hu flDy_std.hfl 4 (by norm_num) (by norm_num)
    (flDy_dyadic 4 (by norm_num)) row h qt i

/-- `flDy` really rounds (so the previous example is not the exact case in disguise) -/
example : flDy (1/3) ≠ 1/3 := flDy_inexact

/-- the binary64 unit round-off satisfies the side condition of the comparator form -/
example (row : List ℚ) (h : row.length = numNodes 3) (qt : Quarter) (i : ℕ) :
    |(seq (F90.subdivideClosed 3 (row.map (Fl.mk (fl := (id : ℚ → ℚ)))) qt) i).val
        - seq (F90.triSubdivideGenericRow subWeights 3 row qt) i|
      ≤ (4 * (3 * ((3 : ℕ) : ℚ) + 6)) * (1 / 2^53)
          * seq (F90.triSubdivideGenericRow subWeights 3 (row.map (|·|)) qt) i :=
  subdivide_closed_comparator_spec id (1 / 2^53) (by positivity)
    (by intro x; simp only [id, sub_self, abs_zero]; positivity) le_rfl 3 (by norm_num) (by norm_num)
    (fun _ _ _ _ => rfl) row h qt i

/-- the exact-arithmetic statements at `Rat` (the arithmetic of `Tables/C09b` and of the script);
    the hypothesis `hf` is satisfiable -/
example (d : ℕ) (row : List ℚ) (h : row.length = numNodes d) (qt : Quarter) :
    F90.subdivideClosed d row qt
      = F90.triSubdivideNodesRow (fun d qt => triSubdivMat subWeights d qt) subWeights d row qt :=
  subdivide_closed_eq_nodes_f90 _ (fun _ _ _ _ => rfl) d row h qt

/-- kernel-evaluated instances: the closed forms as written and the generic workspace path return
    the same pieces on a concrete net (degree 2, 3, 4) -/
example : F90.subdivideClosed 2 [0, 1, 2, 3, 4, 5] .B
    = F90.triSubdivideGenericRow (subWeights (K := Rat)) 2 [0, 1, 2, 3, 4, 5] .B := by decide +kernel

example : F90.subdivideClosed 3 [7, -1, 2, 3, 4, 5, 0, 11, (1 : Rat)/3, 2] .C
    = F90.triSubdivideGenericRow (subWeights (K := Rat)) 3 [7, -1, 2, 3, 4, 5, 0, 11, (1 : Rat)/3, 2] .C := by
  decide +kernel

example : (List.map (fun qt => F90.subdivideClosed 4 [1, 2, 3, 4, 5, 6, 7, 8, 9, 10, 11, 12, 13, 14, 225] qt)
      [Quarter.A, .B, .C, .D])
    = List.map (fun qt => F90.triSubdivideGenericRow (subWeights (K := Rat)) 4
        [1, 2, 3, 4, 5, 6, 7, 8, 9, 10, 11, 12, 13, 14, 225] qt) [Quarter.A, .B, .C, .D] := by
  decide +kernel

/-- a wrong row length is not a closed-form case: the model stays total by the generic branch -/
example : F90.subdivideClosed 1 [(1 : Rat), 2] .A = F90.triSubdivideGenericRow subWeights 1 [1, 2] .A := rfl

end BezierVerif.C09
