import BezierVerif.Lemmas.Locate
import Mathlib.Algebra.Order.Field.Rat
import Mathlib.Algebra.Order.Ring.Rat

/-!
# C10 — `locate_point` (curve): located parameters lie in the domain, a point of the curve is
never filtered out, a point outside the control-point box yields `None`

Property theorems only; exact arithmetic over an ordered field.  `locatePoint subdiv thr rounds
capSq nodes point` is the model of `locate_point` (`Model/Locate.lean`), `subdiv` the subdivision
routine of either implementation.
-/

set_option linter.unusedSectionVars false
set_option linter.unusedVariables false

namespace BezierVerif.C10

open Model BezierVerif

variable {K : Type} [Field K] [LinearOrder K] [IsStrictOrderedRing K]

/-! ### the located parameter lies in the domain (the clamp) -/

theorem in_domain (subdiv : List (List K) → List (List K) × List (List K)) (thr rounds : ℕ)
    (capSq : K) (nodes : List (List K)) (point : List K) (s : K)
    (h : locatePoint subdiv thr rounds capSq nodes point = .found s) : 0 ≤ s ∧ s ≤ 1 := by
  unfold locatePoint at h
  simp only at h
  split at h
  · cases h
  · split at h
    · cases h
    · split at h
      · cases h; exact ⟨le_rfl, zero_le_one⟩
      · split at h
        · cases h; exact ⟨zero_le_one, le_rfl⟩
        · rename_i h0 h1
          cases h
          exact ⟨not_lt.mp h0, not_lt.mp h1⟩

/-! ### the box test -/

theorem containsRow_iff (row : List K) (p : K) :
    containsRow row p = true ↔ (∃ x ∈ row, x ≤ p) ∧ (∃ x ∈ row, p ≤ x) :=
  Locate.containsRow_iff row p

/-- min/max reading: `min row ≤ p ≤ max row` -/
theorem containsRow_iff_min_max (row : List K) (hne : row ≠ []) (p : K) :
    containsRow row p = true ↔
      ∃ lo ∈ row, ∃ hi ∈ row, (∀ x ∈ row, lo ≤ x) ∧ (∀ x ∈ row, x ≤ hi) ∧ lo ≤ p ∧ p ≤ hi :=
  Locate.containsRow_iff_min_max row hne p

/-- the rejection reading: all control values strictly on one side -/
theorem containsRow_eq_false_iff (row : List K) (p : K) :
    containsRow row p = false ↔ (∀ x ∈ row, p < x) ∨ (∀ x ∈ row, x < p) :=
  Locate.containsRow_eq_false_iff row p

theorem containsND_iff (nodes : List (List K)) (point : List K) :
    containsND nodes point = true ↔
      ∀ i, i < nodes.length → i < point.length →
        containsRow (nodes.getD i []) (point.getD i 0) = true :=
  Locate.containsND_iff nodes point

/-- a point of the curve is inside the closed control-point box: in exact arithmetic the filter
    never rejects it -/
theorem contains_safe (thr : ℕ) (nodes : List (List K)) (h : ∀ row ∈ nodes, 2 ≤ row.length)
    (s : K) (hs : 0 ≤ s ∧ s ≤ 1) : containsND nodes (evalPoint thr nodes s) = true :=
  Locate.containsND_evalPoint thr nodes h s hs.1 hs.2

/-! ### a point outside the box yields `None` -/

theorem off_box_none (subdiv : List (List K) → List (List K) × List (List K)) (thr rounds : ℕ)
    (capSq : K) (nodes : List (List K)) (point : List K) (hr : 1 ≤ rounds)
    (h : containsND nodes point = false) :
    locatePoint subdiv thr rounds capSq nodes point = .miss := by
  rw [Locate.locatePoint_eq_miss_iff]
  obtain ⟨r, rfl⟩ : ∃ r, rounds = r + 1 := ⟨rounds - 1, by omega⟩
  show iter (locateRound subdiv point) r (locateRound subdiv point [⟨0, 1, nodes⟩]) = []
  have e : locateRound subdiv point [⟨0, 1, nodes⟩] = [] := by
    simp [locateRound, h]
  rw [e, Locate.iter_locateRound_nil]

/-- … and `None` is returned exactly when no candidate survives -/
theorem miss_iff (subdiv : List (List K) → List (List K) × List (List K)) (thr rounds : ℕ)
    (capSq : K) (nodes : List (List K)) (point : List K) :
    locatePoint subdiv thr rounds capSq nodes point = .miss ↔
      iter (locateRound subdiv point) rounds [⟨0, 1, nodes⟩] = [] :=
  Locate.locatePoint_eq_miss_iff subdiv thr rounds capSq nodes point

/-! ### bookkeeping of the intervals -/

/-- after `r` rounds every candidate interval is a cell of the dyadic grid of width `2^-r` in
    `[0,1]` – for any subdivision routine and any point -/
theorem round_bookkeeping (subdiv : List (List K) → List (List K) × List (List K))
    (point : List K) (nodes : List (List K)) (r : ℕ) :
    ∀ c ∈ iter (locateRound subdiv point) r [⟨0, 1, nodes⟩],
      c.stop - c.start = (1 / 2) ^ r ∧ 0 ≤ c.start ∧ c.stop ≤ 1 :=
  Locate.candsAfter_grid subdiv point nodes r

/-- every candidate carries the control net of the original curve restricted to its interval
    (Python routine; any point) -/
theorem round_pieces (thr : ℕ) (point : List K) (nodes : List (List K))
    (h : ∀ row ∈ nodes, 2 ≤ row.length) (r : ℕ) :
    ∀ c ∈ iter (locateRound Py.subdivide point) r [⟨0, 1, nodes⟩],
      ∀ σ : K, evalPoint thr c.nodes σ = evalPoint thr nodes (c.start + σ * (c.stop - c.start)) :=
  fun c hc => (Locate.candsAfter_pieces thr _ (Locate.halving_py thr) point nodes h r c hc).repar

theorem round_pieces_f90 (thr : ℕ) (point : List K) (nodes : List (List K))
    (h : ∀ row ∈ nodes, 2 ≤ row.length) (r : ℕ) :
    ∀ c ∈ iter (locateRound F90.subdivide point) r [⟨0, 1, nodes⟩],
      ∀ σ : K, evalPoint thr c.nodes σ = evalPoint thr nodes (c.start + σ * (c.stop - c.start)) :=
  fun c hc => (Locate.candsAfter_pieces thr _ (Locate.halving_f90 thr) point nodes h r c hc).repar

/-! ### completeness of the filter (exact arithmetic) -/

/-- one round, any subdivision routine with the halving property: a candidate that is the piece of
    the curve over an interval containing `s` survives, and one of its halves again is such a piece -/
theorem locateRound_keeps (thr : ℕ) (subdiv : List (List K) → List (List K) × List (List K))
    (hsub : Locate.Halving thr subdiv) (nodes : List (List K)) (s : K)
    (cands : List (LocCand K)) (c : LocCand K) (hmem : c ∈ cands) (hc : Locate.IsPiece thr nodes c)
    (hw : c.start < c.stop) (h0 : c.start ≤ s) (h1 : s ≤ c.stop) :
    ∃ c' ∈ locateRound subdiv (evalPoint thr nodes s) cands,
      Locate.IsPiece thr nodes c' ∧ c'.start < c'.stop ∧ c'.start ≤ s ∧ s ≤ c'.stop ∧
        c'.stop - c'.start = (1 / 2) * (c.stop - c.start) :=
  Locate.locateRound_keeps thr subdiv hsub nodes s cands c hmem hc hw h0 h1

/-- locating `B(s)`, `s ∈ [0,1]`: after every round there is a candidate whose interval contains
    `s` and whose nodes are the original curve reparametrised over that interval -/
theorem filter_complete (thr : ℕ) (nodes : List (List K)) (h : ∀ row ∈ nodes, 2 ≤ row.length)
    (s : K) (hs : 0 ≤ s ∧ s ≤ 1) (r : ℕ) :
    ∃ c ∈ iter (locateRound Py.subdivide (evalPoint thr nodes s)) r [⟨0, 1, nodes⟩],
      c.start ≤ s ∧ s ≤ c.stop ∧ c.stop - c.start = (1 / 2) ^ r ∧
      ∀ σ : K, evalPoint thr c.nodes σ = evalPoint thr nodes (c.start + σ * (c.stop - c.start)) := by
  obtain ⟨c, hc, hp, -, h0, h1⟩ :=
    Locate.candsAfter_complete thr _ (Locate.halving_py thr) nodes h s hs.1 hs.2 r
  exact ⟨c, hc, h0, h1, (Locate.candsAfter_grid _ _ nodes r c hc).1, hp.repar⟩

theorem filter_complete_f90 (thr : ℕ) (nodes : List (List K)) (h : ∀ row ∈ nodes, 2 ≤ row.length)
    (s : K) (hs : 0 ≤ s ∧ s ≤ 1) (r : ℕ) :
    ∃ c ∈ iter (locateRound F90.subdivide (evalPoint thr nodes s)) r [⟨0, 1, nodes⟩],
      c.start ≤ s ∧ s ≤ c.stop ∧ c.stop - c.start = (1 / 2) ^ r ∧
      ∀ σ : K, evalPoint thr c.nodes σ = evalPoint thr nodes (c.start + σ * (c.stop - c.start)) := by
  obtain ⟨c, hc, hp, -, h0, h1⟩ :=
    Locate.candsAfter_complete thr _ (Locate.halving_f90 thr) nodes h s hs.1 hs.2 r
  exact ⟨c, hc, h0, h1, (Locate.candsAfter_grid _ _ nodes r c hc).1, hp.repar⟩

/-- hence a point of the curve is never reported as "not on the curve" -/
theorem on_curve_not_miss (thr rounds : ℕ) (capSq : K) (nodes : List (List K))
    (h : ∀ row ∈ nodes, 2 ≤ row.length) (s : K) (hs : 0 ≤ s ∧ s ≤ 1) :
    locatePoint Py.subdivide thr rounds capSq nodes (evalPoint thr nodes s) ≠ .miss := by
  intro hm
  rw [miss_iff] at hm
  obtain ⟨c, hc, -⟩ := filter_complete thr nodes h s hs rounds
  rw [hm] at hc; simp at hc

theorem on_curve_not_miss_f90 (thr rounds : ℕ) (capSq : K) (nodes : List (List K))
    (h : ∀ row ∈ nodes, 2 ≤ row.length) (s : K) (hs : 0 ≤ s ∧ s ≤ 1) :
    locatePoint F90.subdivide thr rounds capSq nodes (evalPoint thr nodes s) ≠ .miss := by
  intro hm
  rw [miss_iff] at hm
  obtain ⟨c, hc, -⟩ := filter_complete_f90 thr nodes h s hs rounds
  rw [hm] at hc; simp at hc

/-! ### accuracy of the estimate handed to the Newton step (exact arithmetic) -/

/-- locating `B(s)`, `s ∈ [0,1]`: whenever a parameter `t` is returned, it is one clamped Newton
    step from an estimate `m` (the mean of the interval end points) with
    `(m − s)² ≤ (number of end points) · LOCATE_STD_CAP²` -/
theorem estimate_accuracy (thr rounds : ℕ) (capSq : K) (nodes : List (List K))
    (h : ∀ row ∈ nodes, 2 ≤ row.length) (s : K) (hs : 0 ≤ s ∧ s ≤ 1) (t : K)
    (hf : locatePoint Py.subdivide thr rounds capSq nodes (evalPoint thr nodes s) = .found t) :
    ∃ m : K,
      (m - s) ^ 2 ≤ ((2 * (iter (locateRound Py.subdivide (evalPoint thr nodes s)) rounds
          [⟨0, 1, nodes⟩]).length : ℕ) : K) * capSq ∧
      t = max 0 (min 1 (newtonRefine thr nodes (evalPoint thr nodes s) m)) :=
  Locate.found_estimate thr _ (Locate.halving_py thr) rounds capSq nodes h s hs.1 hs.2 t hf

theorem estimate_accuracy_f90 (thr rounds : ℕ) (capSq : K) (nodes : List (List K))
    (h : ∀ row ∈ nodes, 2 ≤ row.length) (s : K) (hs : 0 ≤ s ∧ s ≤ 1) (t : K)
    (hf : locatePoint F90.subdivide thr rounds capSq nodes (evalPoint thr nodes s) = .found t) :
    ∃ m : K,
      (m - s) ^ 2 ≤ ((2 * (iter (locateRound F90.subdivide (evalPoint thr nodes s)) rounds
          [⟨0, 1, nodes⟩]).length : ℕ) : K) * capSq ∧
      t = max 0 (min 1 (newtonRefine thr nodes (evalPoint thr nodes s) m)) :=
  Locate.found_estimate thr _ (Locate.halving_f90 thr) rounds capSq nodes h s hs.1 hs.2 t hf

/-- the Newton step leaves an exact parameter where it is (any net, any `s`) -/
theorem newton_fixed (thr : ℕ) (nodes : List (List K)) (s : K) :
    newtonRefine thr nodes (evalPoint thr nodes s) s = s :=
  Locate.newtonRefine_fixed thr nodes s

/-! ### non-vacuity: a concrete planar quadratic over ℚ, the library's constants
(`thr = 55`, `rounds = MAX_LOCATE_SUBDIVISIONS + 1 = 21`, `capSq = (2^-20)²`) -/

/-- `B(1/2) = (5/4, 5/4)` is located at exactly `1/2`, Fortran and Python routine -/
example : (match locatePoint F90.subdivide 55 21 (1/2^40 : ℚ) [[0,1,3],[0,2,1]] [5/4,5/4] with
    | .found s => decide (s = 1/2) | _ => false) = true := by decide +kernel

example : (match locatePoint Py.subdivide 55 21 (1/2^40 : ℚ) [[0,1,3],[0,2,1]] [5/4,5/4] with
    | .found s => decide (s = 1/2) | _ => false) = true := by decide +kernel

/-- `B(1/3) = (7/9, 1)` (not a dyadic parameter) is located to better than `2^-40` -/
example : evalPoint 55 ([[0,1,3],[0,2,1]] : List (List ℚ)) (1/3) = [7/9, 1] := by decide +kernel

example : (match locatePoint F90.subdivide 55 21 (1/2^40 : ℚ) [[0,1,3],[0,2,1]] [7/9, 1] with
    | .found t => decide ((t - 1/3)^2 ≤ 1/2^80 ∧ t ≠ 1/3) | _ => false) = true := by decide +kernel

/-- the hypotheses of `filter_complete` / `on_curve_not_miss` are satisfiable -/
example : locatePoint F90.subdivide 55 21 (1/2^40 : ℚ) [[0,1,3],[0,2,1]]
    (evalPoint 55 [[0,1,3],[0,2,1]] (1/3)) ≠ .miss :=
  on_curve_not_miss_f90 55 21 _ _ (by decide) (1/3) (by norm_num)

/-- a point outside the control-point box: `None`, by the theorem and by evaluation -/
example : locatePoint F90.subdivide 55 21 (1/2^40 : ℚ) [[0,1,3],[0,2,1]] [4, 1] = .miss :=
  off_box_none _ 55 21 _ _ _ (by decide) (by decide +kernel)

example : (match locatePoint Py.subdivide 55 21 (1/2^40 : ℚ) [[0,1,3],[0,2,1]] [4, 1] with
    | .miss => true | _ => false) = true := by decide +kernel

/-- a point inside the box but off the curve is dropped in a later round -/
example : containsND ([[0,1,3],[0,2,1]] : List (List ℚ)) [1, 1/2] = true := by decide +kernel

example : (match locatePoint F90.subdivide 55 21 (1/2^40 : ℚ) [[0,1,3],[0,2,1]] [1, 1/2] with
    | .miss => true | _ => false) = true := by decide +kernel

/-- a point of a curve that passes through it twice (`x(s) = 2s(1-s) = 3/8` at `s = 1/4, 3/4`):
    the spread test fires, `ValueError` / `LOCATE_INVALID` -/
example : (match locatePoint F90.subdivide 55 21 (1/2^40 : ℚ) [[0,1,0],[0,0,0]] [3/8, 0] with
    | .invalid => true | _ => false) = true := by decide +kernel

end BezierVerif.C10
