import BezierVerif.Lemmas.LocateAccuracy
import BezierVerif.Props.C10Rounding
import Mathlib.Algebra.Order.Field.Rat
import Mathlib.Algebra.Order.Ring.Rat

/-!
# C10 (accuracy) — the quantitative round trip `locate(evaluate(s*)) ≈ s*` for curves

Exact arithmetic over an ordered field, about `Model.locatePoint` / `Model.newtonRefine` as they
are; then the rounding of the final Newton step (`C10.newton_step_rounding_sharp`) is added.

Notation: degree `n ≥ 1` (every row has `n + 1` nodes), `dim = nodes.length`,
`D₁ ≥ max|Δv|`, `D₂ ≥ max|Δ²v|` over all rows; `M₁ = n·D₁` (Lipschitz constant of the control
polygon, bounds `|B_r'|` on `[0,1]`), `c₂ = C(n,2)·D₂ = M₂/2` with `M₂ = n(n−1)·D₂` the
second-derivative bound of `C02.curve_taylor`; `den(s) = ⟨B'(s), B'(s)⟩ = newtonDen thr nodes s`.

* `newton_refine_quadratic` — one Newton step towards `p = B(s*)` from `s ∈ [0,1]`, `|s − s*| ≤ δ`,
  `0 < m₂ ≤ den(s)` (regularity *at the estimate only*):
  `|s_new − s*| ≤ K·δ²`, `K = dim · c₂ · M₁ / m₂ = dim · M₁ · M₂ / (2 m₂)`.
  `newton_refine_quadratic_speed`: with `g² ≤ den(s)`, `dim ≤ d²`: `K' = d · c₂ / g = d·M₂/(2g)`
  (Cauchy–Schwarz instead of the `ℓ¹` bound; no `M₁`) – the shape the script uses.
* `survivors_bounded` — the spread test bounds the number `N` of surviving candidates:
  `N · w² ≤ 4·cap²`, `w = 2^-rounds`; library constants: `N ≤ 16`.
* `locate_roundtrip_exact(_f90)` — `locatePoint … (B(s*)) = found t`  ⟹  `|t − s*| ≤ K · 2N·cap²`
  under regularity `m₂ ≤ den(σ)` for the `σ ∈ [0,1]` with `(σ − s*)² ≤ 2N·cap²`; injectivity of the
  curve is *not* needed as a hypothesis: a second pre-image makes the spread test fail (`invalid`),
  or enlarges `N`, which the bound shows.
  `locate_roundtrip_library(_f90)`: `rounds = 21`, `cap² = 2^-40`: `|t − s*| ≤ K · 2^-35`
  unconditionally in `N`; `locate_roundtrip_numeric`: `m₂ ≥ 1`, `dim·c₂·M₁ ≤ 2^5` ⟹ `≤ 2^-30`.
* `locate_roundtrip_exact_local(_f90)` — if every surviving candidate's midpoint is within `η` of
  `s*` (decidable on a concrete run): `|t − s*| ≤ K·η²`;
  `locate_roundtrip_contained(_f90)`: if every cell that passes the box test of the LAST round
  contains `s*` (the final candidates are the two untested halves of those cells) then
  `|m − s*| ≤ 2^-rounds` and `|t − s*| ≤ K·4^-rounds`, i.e. `K·2^-42` for the library's 21 rounds.
* `monotone_filter_sharp(_f90)` — for a net with a strictly increasing coordinate (the family of
  `harness/props/c10.py`: strictly increasing x control values) a cell passes the box test only if
  it contains `s*` (subdivision keeps the coordinate increasing, the end control values are the
  end points, the coordinate function is strictly increasing); hence
  `locate_roundtrip_monotone(_f90)`: `|t − s*| ≤ K·4^-rounds` with no hypothesis on the run.
* `locate_roundtrip_rounded` — the value computed by the rounded Newton step from the
  exact-arithmetic estimate, clamped: `|t̂ − s*| ≤ K·δ² + u·|m| + ((1+u)^(6n+8+dim) − 1)·(numAbs +
  |num|·denAbs/|den|)/mm`.  ASSUMPTION (stated, not proved): the bisection and the mean in binary64
  produce the estimate `m` of exact arithmetic and `m` is a number of the arithmetic; the effect of
  rounding inside the closed-box filter is finding F-F (a point of the curve may be dropped), which
  is outside this statement.  The located point is the exact `B(s*)`.
* `locate_roundtrip_script_tolerance` — `harness/props/c10.py` allows
  `tol = 4·M₂/|B'|·2^-42 + 2^-44/reg + 2^-46`, `reg = |B'|/max|v|`.  It is a consequence of the
  above under: (a) every surviving midpoint within `2^-20` of `s*` (locality; proved for the
  script's x-monotone family: `locate_roundtrip_script_tolerance_monotone`), `dim ≤ 4`;
  (b) `g ≤ |B'(m)|`, `reg = g/V`; (c) *no cancellation in the hodograph / Newton numerator*:
  `numAbs + |num|·denAbs/den ≤ 3·V·g` and `4((1+u)^(6n+5+dim) − 1)·denAbs ≤ den`;
  (d) `u ≤ 2^-53`, `6n + 8 + dim ≤ 126`.  Then the first term of `tol` covers the exact quadratic
  term (with a factor `2^3/d` to spare, since in fact `|m − s*| ≤ 2^-21`), the second the rounding of the step, the
  third the rounding of the estimate in the final addition.

NOT proved here: the behaviour of the binary64 bisection (F-F) — the estimate is the one of exact
arithmetic by assumption; the no-cancellation hypothesis is a hypothesis (it fails for hodographs
with heavy cancellation, where the script's `1/reg` term underestimates `habs/|B'|²`).
-/

set_option linter.unusedSectionVars false
set_option linter.unusedVariables false

namespace BezierVerif.C10

open Finset Model BezierVerif

variable {K : Type} [Field K] [LinearOrder K] [IsStrictOrderedRing K]

/-! ### 1. one Newton step converges quadratically -/

/-- **quadratic convergence of `newton_refine`** towards a point of the curve:
    `|s_new − s*| ≤ (dim · C(n,2)D₂ · nD₁ / m₂) · δ²` -/
theorem newton_refine_quadratic (thr n : ℕ) (hn : 1 ≤ n) (nodes : List (List K))
    (hN : ∀ row ∈ nodes, row.length = n + 1) (sstar s δ : K)
    (hstar : 0 ≤ sstar ∧ sstar ≤ 1) (hs : 0 ≤ s ∧ s ≤ 1) (hδ : |s - sstar| ≤ δ) (D1 D2 : K)
    (hD1 : ∀ row ∈ nodes, ∀ d ∈ diffs row, |d| ≤ D1)
    (hD2 : ∀ row ∈ nodes, ∀ d ∈ diffs (diffs row), |d| ≤ D2) (h1 : 0 ≤ D1) (h2 : 0 ≤ D2)
    (m2 : K) (hm : 0 < m2) (hden : m2 ≤ newtonDen thr nodes s) :
    |newtonRefine thr nodes (evalPoint thr nodes sstar) s - sstar|
      ≤ ((nodes.length : K) * (((n * (n - 1) / 2 : ℕ) : K) * D2) * ((n : K) * D1) / m2) * δ ^ 2 := by
  refine le_trans (LocateAcc.newton_quadratic_l1 thr n hn nodes hN sstar s hstar.1 hstar.2 hs.1 hs.2
    D1 D2 hD1 hD2 m2 hm hden) ?_
  apply mul_le_mul_of_nonneg_left _ (by positivity)
  rw [← sq_abs, abs_sub_comm]
  exact pow_le_pow_left₀ (abs_nonneg _) hδ 2

/-- Cauchy–Schwarz form, no first-derivative bound:
    `err² · |B'(s)|² ≤ dim · (C(n,2)D₂ · (s* − s)²)²` -/
theorem newton_refine_quadratic_sq (thr n : ℕ) (hn : 1 ≤ n) (nodes : List (List K))
    (hN : ∀ row ∈ nodes, row.length = n + 1) (sstar s : K)
    (hstar : 0 ≤ sstar ∧ sstar ≤ 1) (hs : 0 ≤ s ∧ s ≤ 1) (D2 : K)
    (hD2 : ∀ row ∈ nodes, ∀ d ∈ diffs (diffs row), |d| ≤ D2)
    (hpos : 0 < newtonDen thr nodes s) :
    (newtonRefine thr nodes (evalPoint thr nodes sstar) s - sstar) ^ 2 * newtonDen thr nodes s
      ≤ (nodes.length : K) * ((sstar - s) ^ 2 * (((n * (n - 1) / 2 : ℕ) : K) * D2)) ^ 2 :=
  LocateAcc.newton_quadratic_cs thr n hn nodes hN sstar s hstar.1 hstar.2 hs.1 hs.2 D2 hD2 hpos

/-- speed form: `0 < g`, `g² ≤ |B'(s)|²`, `dim ≤ d²`  ⟹  `|s_new − s*| ≤ (d·C(n,2)D₂/g)·δ²` -/
theorem newton_refine_quadratic_speed (thr n : ℕ) (hn : 1 ≤ n) (nodes : List (List K))
    (hN : ∀ row ∈ nodes, row.length = n + 1) (sstar s δ : K)
    (hstar : 0 ≤ sstar ∧ sstar ≤ 1) (hs : 0 ≤ s ∧ s ≤ 1) (hδ : |s - sstar| ≤ δ) (D2 : K)
    (hD2 : ∀ row ∈ nodes, ∀ d ∈ diffs (diffs row), |d| ≤ D2) (h2 : 0 ≤ D2)
    (g d : K) (hg : 0 < g) (hgd : g ^ 2 ≤ newtonDen thr nodes s) (hd : 0 ≤ d)
    (hdim : (nodes.length : K) ≤ d ^ 2) :
    |newtonRefine thr nodes (evalPoint thr nodes sstar) s - sstar|
      ≤ (d * (((n * (n - 1) / 2 : ℕ) : K) * D2) / g) * δ ^ 2 := by
  refine le_trans (LocateAcc.newton_quadratic_speed thr n hn nodes hN sstar s hstar.1 hstar.2
    hs.1 hs.2 D2 hD2 g d hg hgd hd hdim) ?_
  apply mul_le_mul_of_nonneg_left _ (by positivity)
  rw [← sq_abs, abs_sub_comm]
  exact pow_le_pow_left₀ (abs_nonneg _) hδ 2

/-! ### 2. the round trip in exact arithmetic -/

/-- the spread test bounds the number of surviving candidates (any routine, any point):
    `found t` ⟹ `N · (2^-rounds)² ≤ 4 · cap²` -/
theorem survivors_bounded (subdiv : List (List K) → List (List K) × List (List K))
    (thr rounds : ℕ) (capSq : K) (nodes : List (List K)) (point : List K) (t : K)
    (hf : locatePoint subdiv thr rounds capSq nodes point = .found t) :
    (((iter (locateRound subdiv point) rounds [⟨0, 1, nodes⟩]).length : ℕ) : K)
        * ((1 / 2) ^ rounds) ^ 2 ≤ 4 * capSq :=
  LocateAcc.count_bound subdiv point nodes rounds capSq
    (Locate.locatePoint_found subdiv thr rounds capSq nodes point t hf).2.1

/-- round trip, any subdivision routine with the halving property -/
theorem locate_roundtrip_exact_of_halving (thr : ℕ)
    (subdiv : List (List K) → List (List K) × List (List K)) (hsub : Locate.Halving thr subdiv)
    (rounds : ℕ) (capSq : K) (n : ℕ) (hn : 1 ≤ n) (nodes : List (List K))
    (hN : ∀ row ∈ nodes, row.length = n + 1) (sstar : K) (hstar : 0 ≤ sstar ∧ sstar ≤ 1) (t : K)
    (hf : locatePoint subdiv thr rounds capSq nodes (evalPoint thr nodes sstar) = .found t)
    (D1 D2 : K) (hD1 : ∀ row ∈ nodes, ∀ d ∈ diffs row, |d| ≤ D1)
    (hD2 : ∀ row ∈ nodes, ∀ d ∈ diffs (diffs row), |d| ≤ D2) (h1 : 0 ≤ D1) (h2 : 0 ≤ D2)
    (m2 : K) (hm : 0 < m2)
    (hreg : ∀ σ : K, 0 ≤ σ → σ ≤ 1 →
      (σ - sstar) ^ 2 ≤ ((2 * (iter (locateRound subdiv (evalPoint thr nodes sstar)) rounds
          [⟨0, 1, nodes⟩]).length : ℕ) : K) * capSq → m2 ≤ newtonDen thr nodes σ) :
    |t - sstar| ≤ ((nodes.length : K) * (((n * (n - 1) / 2 : ℕ) : K) * D2) * ((n : K) * D1) / m2)
      * (((2 * (iter (locateRound subdiv (evalPoint thr nodes sstar)) rounds
          [⟨0, 1, nodes⟩]).length : ℕ) : K) * capSq) := by
  obtain ⟨-, hm0, hm1, hnear, -, ht⟩ := LocateAcc.found_mean thr subdiv hsub rounds capSq nodes
    (fun row hrow => by have := hN row hrow; omega) sstar hstar.1 hstar.2 t hf
  rw [ht]
  refine le_trans (LocateAcc.clamp_near _ sstar hstar.1 hstar.2) ?_
  refine le_trans (LocateAcc.newton_quadratic_l1 thr n hn nodes hN sstar _ hstar.1 hstar.2 hm0 hm1
    D1 D2 hD1 hD2 m2 hm (hreg _ hm0 hm1 hnear)) ?_
  apply mul_le_mul_of_nonneg_left _ (by positivity)
  have e : (sstar - Locate.mean (Locate.candsAfter subdiv (evalPoint thr nodes sstar) nodes rounds)) ^ 2
      = (Locate.mean (Locate.candsAfter subdiv (evalPoint thr nodes sstar) nodes rounds) - sstar) ^ 2 := by
    ring
  rw [e]; exact hnear

/-- **round trip (Python routine)**: `locate_point(B(s*)) = t` ⟹ `|t − s*| ≤ K · 2N·cap²`,
    `K = dim·C(n,2)D₂·nD₁/m₂`, `N` the number of surviving candidates -/
theorem locate_roundtrip_exact (thr rounds : ℕ) (capSq : K) (n : ℕ) (hn : 1 ≤ n)
    (nodes : List (List K)) (hN : ∀ row ∈ nodes, row.length = n + 1) (sstar : K)
    (hstar : 0 ≤ sstar ∧ sstar ≤ 1) (t : K)
    (hf : locatePoint Py.subdivide thr rounds capSq nodes (evalPoint thr nodes sstar) = .found t)
    (D1 D2 : K) (hD1 : ∀ row ∈ nodes, ∀ d ∈ diffs row, |d| ≤ D1)
    (hD2 : ∀ row ∈ nodes, ∀ d ∈ diffs (diffs row), |d| ≤ D2) (h1 : 0 ≤ D1) (h2 : 0 ≤ D2)
    (m2 : K) (hm : 0 < m2)
    (hreg : ∀ σ : K, 0 ≤ σ → σ ≤ 1 →
      (σ - sstar) ^ 2 ≤ ((2 * (iter (locateRound Py.subdivide (evalPoint thr nodes sstar)) rounds
          [⟨0, 1, nodes⟩]).length : ℕ) : K) * capSq → m2 ≤ newtonDen thr nodes σ) :
    |t - sstar| ≤ ((nodes.length : K) * (((n * (n - 1) / 2 : ℕ) : K) * D2) * ((n : K) * D1) / m2)
      * (((2 * (iter (locateRound Py.subdivide (evalPoint thr nodes sstar)) rounds
          [⟨0, 1, nodes⟩]).length : ℕ) : K) * capSq) :=
  locate_roundtrip_exact_of_halving thr _ (Locate.halving_py thr) rounds capSq n hn nodes hN sstar
    hstar t hf D1 D2 hD1 hD2 h1 h2 m2 hm hreg

theorem locate_roundtrip_exact_f90 (thr rounds : ℕ) (capSq : K) (n : ℕ) (hn : 1 ≤ n)
    (nodes : List (List K)) (hN : ∀ row ∈ nodes, row.length = n + 1) (sstar : K)
    (hstar : 0 ≤ sstar ∧ sstar ≤ 1) (t : K)
    (hf : locatePoint F90.subdivide thr rounds capSq nodes (evalPoint thr nodes sstar) = .found t)
    (D1 D2 : K) (hD1 : ∀ row ∈ nodes, ∀ d ∈ diffs row, |d| ≤ D1)
    (hD2 : ∀ row ∈ nodes, ∀ d ∈ diffs (diffs row), |d| ≤ D2) (h1 : 0 ≤ D1) (h2 : 0 ≤ D2)
    (m2 : K) (hm : 0 < m2)
    (hreg : ∀ σ : K, 0 ≤ σ → σ ≤ 1 →
      (σ - sstar) ^ 2 ≤ ((2 * (iter (locateRound F90.subdivide (evalPoint thr nodes sstar)) rounds
          [⟨0, 1, nodes⟩]).length : ℕ) : K) * capSq → m2 ≤ newtonDen thr nodes σ) :
    |t - sstar| ≤ ((nodes.length : K) * (((n * (n - 1) / 2 : ℕ) : K) * D2) * ((n : K) * D1) / m2)
      * (((2 * (iter (locateRound F90.subdivide (evalPoint thr nodes sstar)) rounds
          [⟨0, 1, nodes⟩]).length : ℕ) : K) * capSq) :=
  locate_roundtrip_exact_of_halving thr _ (Locate.halving_f90 thr) rounds capSq n hn nodes hN sstar
    hstar t hf D1 D2 hD1 hD2 h1 h2 m2 hm hreg

/-- with the library's constants (`MAX_LOCATE_SUBDIVISIONS + 1 = 21` rounds,
    `LOCATE_STD_CAP² = 2^-40`) the spread test leaves at most 16 candidates, so
    `2N·cap² ≤ 2^-35` -/
theorem library_delta (subdiv : List (List K) → List (List K) × List (List K)) (thr : ℕ)
    (nodes : List (List K)) (point : List K) (t : K)
    (hf : locatePoint subdiv thr 21 (1 / 2 ^ 40) nodes point = .found t) :
    ((2 * (iter (locateRound subdiv point) 21 [⟨0, 1, nodes⟩]).length : ℕ) : K) * (1 / 2 ^ 40)
      ≤ 1 / 2 ^ 35 := by
  have h := survivors_bounded subdiv thr 21 (1 / 2 ^ 40) nodes point t hf
  push_cast
  have e : (((1:K) / 2) ^ 21) ^ 2 = 1 / 2 ^ 42 := by norm_num
  rw [e] at h
  have h16 : (((iter (locateRound subdiv point) 21 [⟨0, 1, nodes⟩]).length : ℕ) : K) ≤ 16 := by
    have : (((iter (locateRound subdiv point) 21 [⟨0, 1, nodes⟩]).length : ℕ) : K) * (1 / 2 ^ 42)
        ≤ 16 * (1 / 2 ^ 42) := by
      refine le_trans h ?_; norm_num
    exact le_of_mul_le_mul_right this (by positivity)
  calc (2 : K) * ((iter (locateRound subdiv point) 21 [⟨0, 1, nodes⟩]).length : K) * (1 / 2 ^ 40)
      ≤ 2 * 16 * (1 / 2 ^ 40) := by
        apply mul_le_mul_of_nonneg_right _ (by positivity)
        linarith
    _ = 1 / 2 ^ 35 := by norm_num

/-- **round trip with the library's constants**, unconditional in the number of candidates:
    regular within `2^-35` (squared distance) of `s*` ⟹ `|t − s*| ≤ K · 2^-35` -/
theorem locate_roundtrip_library_of_halving (thr : ℕ)
    (subdiv : List (List K) → List (List K) × List (List K)) (hsub : Locate.Halving thr subdiv)
    (n : ℕ) (hn : 1 ≤ n) (nodes : List (List K))
    (hN : ∀ row ∈ nodes, row.length = n + 1) (sstar : K) (hstar : 0 ≤ sstar ∧ sstar ≤ 1) (t : K)
    (hf : locatePoint subdiv thr 21 (1 / 2 ^ 40) nodes (evalPoint thr nodes sstar) = .found t)
    (D1 D2 : K) (hD1 : ∀ row ∈ nodes, ∀ d ∈ diffs row, |d| ≤ D1)
    (hD2 : ∀ row ∈ nodes, ∀ d ∈ diffs (diffs row), |d| ≤ D2) (h1 : 0 ≤ D1) (h2 : 0 ≤ D2)
    (m2 : K) (hm : 0 < m2)
    (hreg : ∀ σ : K, 0 ≤ σ → σ ≤ 1 → (σ - sstar) ^ 2 ≤ 1 / 2 ^ 35 → m2 ≤ newtonDen thr nodes σ) :
    |t - sstar| ≤ ((nodes.length : K) * (((n * (n - 1) / 2 : ℕ) : K) * D2) * ((n : K) * D1) / m2)
      * (1 / 2 ^ 35) := by
  have hδ := library_delta subdiv thr nodes (evalPoint thr nodes sstar) t hf
  refine le_trans (locate_roundtrip_exact_of_halving thr subdiv hsub 21 (1 / 2 ^ 40) n hn nodes hN
    sstar hstar t hf D1 D2 hD1 hD2 h1 h2 m2 hm
    (fun σ h0 h1' hσ => hreg σ h0 h1' (le_trans hσ hδ))) ?_
  exact mul_le_mul_of_nonneg_left hδ (by positivity)

theorem locate_roundtrip_library (thr n : ℕ) (hn : 1 ≤ n) (nodes : List (List K))
    (hN : ∀ row ∈ nodes, row.length = n + 1) (sstar : K) (hstar : 0 ≤ sstar ∧ sstar ≤ 1) (t : K)
    (hf : locatePoint Py.subdivide thr 21 (1 / 2 ^ 40) nodes (evalPoint thr nodes sstar) = .found t)
    (D1 D2 : K) (hD1 : ∀ row ∈ nodes, ∀ d ∈ diffs row, |d| ≤ D1)
    (hD2 : ∀ row ∈ nodes, ∀ d ∈ diffs (diffs row), |d| ≤ D2) (h1 : 0 ≤ D1) (h2 : 0 ≤ D2)
    (m2 : K) (hm : 0 < m2)
    (hreg : ∀ σ : K, 0 ≤ σ → σ ≤ 1 → (σ - sstar) ^ 2 ≤ 1 / 2 ^ 35 → m2 ≤ newtonDen thr nodes σ) :
    |t - sstar| ≤ ((nodes.length : K) * (((n * (n - 1) / 2 : ℕ) : K) * D2) * ((n : K) * D1) / m2)
      * (1 / 2 ^ 35) :=
  locate_roundtrip_library_of_halving thr _ (Locate.halving_py thr) n hn nodes hN sstar hstar t hf
    D1 D2 hD1 hD2 h1 h2 m2 hm hreg

theorem locate_roundtrip_library_f90 (thr n : ℕ) (hn : 1 ≤ n) (nodes : List (List K))
    (hN : ∀ row ∈ nodes, row.length = n + 1) (sstar : K) (hstar : 0 ≤ sstar ∧ sstar ≤ 1) (t : K)
    (hf : locatePoint F90.subdivide thr 21 (1 / 2 ^ 40) nodes (evalPoint thr nodes sstar) = .found t)
    (D1 D2 : K) (hD1 : ∀ row ∈ nodes, ∀ d ∈ diffs row, |d| ≤ D1)
    (hD2 : ∀ row ∈ nodes, ∀ d ∈ diffs (diffs row), |d| ≤ D2) (h1 : 0 ≤ D1) (h2 : 0 ≤ D2)
    (m2 : K) (hm : 0 < m2)
    (hreg : ∀ σ : K, 0 ≤ σ → σ ≤ 1 → (σ - sstar) ^ 2 ≤ 1 / 2 ^ 35 → m2 ≤ newtonDen thr nodes σ) :
    |t - sstar| ≤ ((nodes.length : K) * (((n * (n - 1) / 2 : ℕ) : K) * D2) * ((n : K) * D1) / m2)
      * (1 / 2 ^ 35) :=
  locate_roundtrip_library_of_halving thr _ (Locate.halving_f90 thr) n hn nodes hN sstar hstar t hf
    D1 D2 hD1 hD2 h1 h2 m2 hm hreg

/-- **numeric corollary**: `|B'|² ≥ 1` near `s*` and `dim · C(n,2)D₂ · nD₁ ≤ 2^5`
    (e.g. a planar curve with `M₂ = n(n−1)D₂ ≤ 8`, `M₁ = nD₁ ≤ 4`) ⟹ error `≤ 2^-30`;
    either subdivision routine -/
theorem locate_roundtrip_numeric (thr : ℕ)
    (subdiv : List (List K) → List (List K) × List (List K)) (hsub : Locate.Halving thr subdiv)
    (n : ℕ) (hn : 1 ≤ n) (nodes : List (List K))
    (hN : ∀ row ∈ nodes, row.length = n + 1) (sstar : K) (hstar : 0 ≤ sstar ∧ sstar ≤ 1) (t : K)
    (hf : locatePoint subdiv thr 21 (1 / 2 ^ 40) nodes (evalPoint thr nodes sstar) = .found t)
    (D1 D2 : K) (hD1 : ∀ row ∈ nodes, ∀ d ∈ diffs row, |d| ≤ D1)
    (hD2 : ∀ row ∈ nodes, ∀ d ∈ diffs (diffs row), |d| ≤ D2) (h1 : 0 ≤ D1) (h2 : 0 ≤ D2)
    (hK : (nodes.length : K) * (((n * (n - 1) / 2 : ℕ) : K) * D2) * ((n : K) * D1) ≤ 2 ^ 5)
    (hreg : ∀ σ : K, 0 ≤ σ → σ ≤ 1 → (σ - sstar) ^ 2 ≤ 1 / 2 ^ 35 → 1 ≤ newtonDen thr nodes σ) :
    |t - sstar| ≤ 1 / 2 ^ 30 := by
  have h := locate_roundtrip_library_of_halving thr subdiv hsub n hn nodes hN sstar hstar t hf
    D1 D2 hD1 hD2 h1 h2 1 one_pos hreg
  rw [div_one] at h
  refine le_trans h ?_
  calc _ ≤ (2:K) ^ 5 * (1 / 2 ^ 35) := mul_le_mul_of_nonneg_right hK (by positivity)
    _ = 1 / 2 ^ 30 := by norm_num

/-! ### 2'. the round trip when the surviving candidates are local -/

/-- if every surviving candidate's midpoint is within `η` of `s*`, the error is `≤ K·η²` -/
theorem locate_roundtrip_exact_local_of_halving (thr : ℕ)
    (subdiv : List (List K) → List (List K) × List (List K)) (hsub : Locate.Halving thr subdiv)
    (rounds : ℕ) (capSq : K) (n : ℕ) (hn : 1 ≤ n) (nodes : List (List K))
    (hN : ∀ row ∈ nodes, row.length = n + 1) (sstar : K) (hstar : 0 ≤ sstar ∧ sstar ≤ 1) (t : K)
    (hf : locatePoint subdiv thr rounds capSq nodes (evalPoint thr nodes sstar) = .found t)
    (η : K)
    (hloc : ∀ c ∈ iter (locateRound subdiv (evalPoint thr nodes sstar)) rounds [⟨0, 1, nodes⟩],
      |c.start + c.stop - 2 * sstar| ≤ 2 * η)
    (D1 D2 : K) (hD1 : ∀ row ∈ nodes, ∀ d ∈ diffs row, |d| ≤ D1)
    (hD2 : ∀ row ∈ nodes, ∀ d ∈ diffs (diffs row), |d| ≤ D2) (h1 : 0 ≤ D1) (h2 : 0 ≤ D2)
    (m2 : K) (hm : 0 < m2)
    (hreg : ∀ σ : K, 0 ≤ σ → σ ≤ 1 → |σ - sstar| ≤ η → m2 ≤ newtonDen thr nodes σ) :
    |t - sstar| ≤ ((nodes.length : K) * (((n * (n - 1) / 2 : ℕ) : K) * D2) * ((n : K) * D1) / m2)
      * η ^ 2 := by
  obtain ⟨hne, hm0, hm1, -, -, ht⟩ := LocateAcc.found_mean thr subdiv hsub rounds capSq nodes
    (fun row hrow => by have := hN row hrow; omega) sstar hstar.1 hstar.2 t hf
  have hnear := LocateAcc.mean_near_local _ hne sstar η hloc
  rw [ht]
  refine le_trans (LocateAcc.clamp_near _ sstar hstar.1 hstar.2) ?_
  exact newton_refine_quadratic thr n hn nodes hN sstar _ η hstar ⟨hm0, hm1⟩ hnear D1 D2 hD1 hD2
    h1 h2 m2 hm (hreg _ hm0 hm1 hnear)

/-- the estimate is within half a *parent* cell of `s*` as soon as every cell that passes the box
    test of the last round contains `s*` (the final candidates are the two halves of those cells,
    they are not tested again) -/
theorem estimate_contained (thr : ℕ)
    (subdiv : List (List K) → List (List K) × List (List K))
    (r : ℕ) (nodes : List (List K)) (point : List K) (sstar : K)
    (hne : iter (locateRound subdiv point) (r + 1) [⟨0, 1, nodes⟩] ≠ [])
    (hloc : ∀ c ∈ iter (locateRound subdiv point) r [⟨0, 1, nodes⟩],
      containsND c.nodes point = true → c.start ≤ sstar ∧ sstar ≤ c.stop) :
    |Locate.mean (iter (locateRound subdiv point) (r + 1) [⟨0, 1, nodes⟩]) - sstar|
      ≤ (1 / 2) ^ (r + 1) := by
  have e : iter (locateRound subdiv point) (r + 1) [⟨0, 1, nodes⟩]
      = locateRound subdiv point (iter (locateRound subdiv point) r [⟨0, 1, nodes⟩]) :=
    Locate.candsAfter_succ subdiv point nodes r
  rw [e] at hne ⊢
  obtain ⟨a, b⟩ := LocateAcc.mean_bounds_parents subdiv point _ hne
    (sstar - (1 / 2) ^ (r + 1)) (sstar + (1 / 2) ^ (r + 1)) (by
      intro c hc hb
      obtain ⟨h0, h1⟩ := hloc c hc hb
      have hw := (Locate.candsAfter_grid subdiv point nodes r c hc).1
      rw [pow_succ]
      constructor <;> linarith)
  rw [abs_le]; constructor <;> linarith

/-- every cell passing the last box test contains `s*` ⟹ `|m − s*| ≤ 2^-rounds`: error
    `≤ K · 4^-rounds` (`K · 2^-42` for the library's 21 rounds) -/
theorem locate_roundtrip_contained_of_halving (thr : ℕ)
    (subdiv : List (List K) → List (List K) × List (List K)) (hsub : Locate.Halving thr subdiv)
    (r : ℕ) (capSq : K) (n : ℕ) (hn : 1 ≤ n) (nodes : List (List K))
    (hN : ∀ row ∈ nodes, row.length = n + 1) (sstar : K) (hstar : 0 ≤ sstar ∧ sstar ≤ 1) (t : K)
    (hf : locatePoint subdiv thr (r + 1) capSq nodes (evalPoint thr nodes sstar) = .found t)
    (hloc : ∀ c ∈ iter (locateRound subdiv (evalPoint thr nodes sstar)) r [⟨0, 1, nodes⟩],
      containsND c.nodes (evalPoint thr nodes sstar) = true → c.start ≤ sstar ∧ sstar ≤ c.stop)
    (D1 D2 : K) (hD1 : ∀ row ∈ nodes, ∀ d ∈ diffs row, |d| ≤ D1)
    (hD2 : ∀ row ∈ nodes, ∀ d ∈ diffs (diffs row), |d| ≤ D2) (h1 : 0 ≤ D1) (h2 : 0 ≤ D2)
    (m2 : K) (hm : 0 < m2)
    (hreg : ∀ σ : K, 0 ≤ σ → σ ≤ 1 → |σ - sstar| ≤ (1 / 2) ^ (r + 1) →
      m2 ≤ newtonDen thr nodes σ) :
    |t - sstar| ≤ ((nodes.length : K) * (((n * (n - 1) / 2 : ℕ) : K) * D2) * ((n : K) * D1) / m2)
      * ((1 / 2) ^ (r + 1)) ^ 2 := by
  obtain ⟨hne, hm0, hm1, -, -, ht⟩ := LocateAcc.found_mean thr subdiv hsub (r + 1) capSq nodes
    (fun row hrow => by have := hN row hrow; omega) sstar hstar.1 hstar.2 t hf
  have hnear := estimate_contained thr subdiv r nodes _ sstar hne hloc
  rw [ht]
  refine le_trans (LocateAcc.clamp_near _ sstar hstar.1 hstar.2) ?_
  exact newton_refine_quadratic thr n hn nodes hN sstar _ _ hstar ⟨hm0, hm1⟩ hnear D1 D2 hD1 hD2
    h1 h2 m2 hm (hreg _ hm0 hm1 hnear)

theorem locate_roundtrip_contained (thr r : ℕ) (capSq : K) (n : ℕ) (hn : 1 ≤ n)
    (nodes : List (List K)) (hN : ∀ row ∈ nodes, row.length = n + 1) (sstar : K)
    (hstar : 0 ≤ sstar ∧ sstar ≤ 1) (t : K)
    (hf : locatePoint Py.subdivide thr (r + 1) capSq nodes (evalPoint thr nodes sstar) = .found t)
    (hloc : ∀ c ∈ iter (locateRound Py.subdivide (evalPoint thr nodes sstar)) r [⟨0, 1, nodes⟩],
      containsND c.nodes (evalPoint thr nodes sstar) = true → c.start ≤ sstar ∧ sstar ≤ c.stop)
    (D1 D2 : K) (hD1 : ∀ row ∈ nodes, ∀ d ∈ diffs row, |d| ≤ D1)
    (hD2 : ∀ row ∈ nodes, ∀ d ∈ diffs (diffs row), |d| ≤ D2) (h1 : 0 ≤ D1) (h2 : 0 ≤ D2)
    (m2 : K) (hm : 0 < m2)
    (hreg : ∀ σ : K, 0 ≤ σ → σ ≤ 1 → |σ - sstar| ≤ (1 / 2) ^ (r + 1) →
      m2 ≤ newtonDen thr nodes σ) :
    |t - sstar| ≤ ((nodes.length : K) * (((n * (n - 1) / 2 : ℕ) : K) * D2) * ((n : K) * D1) / m2)
      * ((1 / 2) ^ (r + 1)) ^ 2 :=
  locate_roundtrip_contained_of_halving thr _ (Locate.halving_py thr) r capSq n hn nodes hN
    sstar hstar t hf hloc D1 D2 hD1 hD2 h1 h2 m2 hm hreg

theorem locate_roundtrip_contained_f90 (thr r : ℕ) (capSq : K) (n : ℕ) (hn : 1 ≤ n)
    (nodes : List (List K)) (hN : ∀ row ∈ nodes, row.length = n + 1) (sstar : K)
    (hstar : 0 ≤ sstar ∧ sstar ≤ 1) (t : K)
    (hf : locatePoint F90.subdivide thr (r + 1) capSq nodes (evalPoint thr nodes sstar) = .found t)
    (hloc : ∀ c ∈ iter (locateRound F90.subdivide (evalPoint thr nodes sstar)) r [⟨0, 1, nodes⟩],
      containsND c.nodes (evalPoint thr nodes sstar) = true → c.start ≤ sstar ∧ sstar ≤ c.stop)
    (D1 D2 : K) (hD1 : ∀ row ∈ nodes, ∀ d ∈ diffs row, |d| ≤ D1)
    (hD2 : ∀ row ∈ nodes, ∀ d ∈ diffs (diffs row), |d| ≤ D2) (h1 : 0 ≤ D1) (h2 : 0 ≤ D2)
    (m2 : K) (hm : 0 < m2)
    (hreg : ∀ σ : K, 0 ≤ σ → σ ≤ 1 → |σ - sstar| ≤ (1 / 2) ^ (r + 1) →
      m2 ≤ newtonDen thr nodes σ) :
    |t - sstar| ≤ ((nodes.length : K) * (((n * (n - 1) / 2 : ℕ) : K) * D2) * ((n : K) * D1) / m2)
      * ((1 / 2) ^ (r + 1)) ^ 2 :=
  locate_roundtrip_contained_of_halving thr _ (Locate.halving_f90 thr) r capSq n hn nodes hN
    sstar hstar t hf hloc D1 D2 hD1 hD2 h1 h2 m2 hm hreg

/-! ### 3. adding the rounding of the final Newton step -/

/-- **round trip with the Newton step in rounded arithmetic** (standard model `|fl x − x| ≤ u|x|`).
    The bisection, the mean and the spread test are taken as in exact arithmetic (ASSUMPTION: see
    the header; finding F-F is about the filter in binary64), the estimate `m` and the point
    `B(s*)` are numbers of the arithmetic; the Newton step `newtonRefine` runs in `Fl K fl`, the
    clamp compares exactly.  Total error = exact quadratic term + rounding of the step. -/
theorem locate_roundtrip_rounded (fl : K → K) (u : K) (hu : 0 ≤ u) (hfl : ∀ x, |fl x - x| ≤ u * |x|)
    (thr : ℕ) (subdiv : List (List K) → List (List K) × List (List K))
    (hsub : Locate.Halving thr subdiv) (rounds : ℕ) (capSq : K) (n : ℕ) (hn : 1 ≤ n)
    (nodes : List (List K)) (hN : ∀ row ∈ nodes, row.length = n + 1)
    (hbinE : n + 1 ≤ thr → VSBinomExact fl n) (hbinH : 2 ≤ n → n ≤ thr → VSBinomExact fl (n - 1))
    (sstar : K) (hstar : 0 ≤ sstar ∧ sstar ≤ 1) (t : K)
    (hf : locatePoint subdiv thr rounds capSq nodes (evalPoint thr nodes sstar) = .found t)
    (D1 D2 : K) (hD1 : ∀ row ∈ nodes, ∀ d ∈ diffs row, |d| ≤ D1)
    (hD2 : ∀ row ∈ nodes, ∀ d ∈ diffs (diffs row), |d| ≤ D2) (h1 : 0 ≤ D1) (h2 : 0 ≤ D2)
    (m2 : K) (hm : 0 < m2)
    (hreg : ∀ σ : K, 0 ≤ σ → σ ≤ 1 →
      (σ - sstar) ^ 2 ≤ ((2 * (iter (locateRound subdiv (evalPoint thr nodes sstar)) rounds
          [⟨0, 1, nodes⟩]).length : ℕ) : K) * capSq → m2 ≤ newtonDen thr nodes σ)
    (mm : K) (hmm : 0 < mm)
    (hmy : mm ≤ |newtonDen thr nodes
          (Locate.mean (iter (locateRound subdiv (evalPoint thr nodes sstar)) rounds [⟨0, 1, nodes⟩]))|
        - ((1+u)^(6 * n + 5 + nodes.length) - 1) * newtonDenAbs thr nodes
          (Locate.mean (iter (locateRound subdiv (evalPoint thr nodes sstar)) rounds [⟨0, 1, nodes⟩]))) :
    |max 0 (min 1 (newtonRefine thr (nodes.map (List.map Fl.mk))
          ((evalPoint thr nodes sstar).map Fl.mk)
          (⟨Locate.mean (iter (locateRound subdiv (evalPoint thr nodes sstar)) rounds
              [⟨0, 1, nodes⟩])⟩ : Fl K fl)).val) - sstar|
      ≤ ((nodes.length : K) * (((n * (n - 1) / 2 : ℕ) : K) * D2) * ((n : K) * D1) / m2)
          * (((2 * (iter (locateRound subdiv (evalPoint thr nodes sstar)) rounds
              [⟨0, 1, nodes⟩]).length : ℕ) : K) * capSq)
        + (u + ((1+u)^(6 * n + 8 + nodes.length) - 1)
          * ((newtonNumAbs thr nodes (evalPoint thr nodes sstar)
                (Locate.mean (iter (locateRound subdiv (evalPoint thr nodes sstar)) rounds [⟨0, 1, nodes⟩]))
              + |newtonNum thr nodes (evalPoint thr nodes sstar)
                  (Locate.mean (iter (locateRound subdiv (evalPoint thr nodes sstar)) rounds [⟨0, 1, nodes⟩]))|
                * newtonDenAbs thr nodes
                  (Locate.mean (iter (locateRound subdiv (evalPoint thr nodes sstar)) rounds [⟨0, 1, nodes⟩]))
                / |newtonDen thr nodes
                  (Locate.mean (iter (locateRound subdiv (evalPoint thr nodes sstar)) rounds [⟨0, 1, nodes⟩]))|)
              / mm)) := by
  obtain ⟨-, hm0, hm1, hnear, -, ht⟩ := LocateAcc.found_mean thr subdiv hsub rounds capSq nodes
    (fun row hrow => by have := hN row hrow; omega) sstar hstar.1 hstar.2 t hf
  change 0 ≤ Locate.mean (iter (locateRound subdiv (evalPoint thr nodes sstar)) rounds [⟨0, 1, nodes⟩])
    at hm0
  set m := Locate.mean (iter (locateRound subdiv (evalPoint thr nodes sstar)) rounds [⟨0, 1, nodes⟩])
    with hmdef
  refine le_trans (LocateAcc.clamp_near _ sstar hstar.1 hstar.2) ?_
  have hround := newton_step_rounding_sharp fl u hu hfl thr n hn nodes hN hbinE hbinH
    (evalPoint thr nodes sstar) (by simp [evalPoint]) m mm hmm hmy
  have hexact : |newtonRefine thr nodes (evalPoint thr nodes sstar) m - sstar|
      ≤ ((nodes.length : K) * (((n * (n - 1) / 2 : ℕ) : K) * D2) * ((n : K) * D1) / m2)
          * (((2 * (iter (locateRound subdiv (evalPoint thr nodes sstar)) rounds
              [⟨0, 1, nodes⟩]).length : ℕ) : K) * capSq) := by
    refine le_trans (LocateAcc.newton_quadratic_l1 thr n hn nodes hN sstar m hstar.1 hstar.2 hm0 hm1
      D1 D2 hD1 hD2 m2 hm (hreg m hm0 hm1 hnear)) ?_
    apply mul_le_mul_of_nonneg_left _ (by positivity)
    have e : (sstar - m) ^ 2 = (m - sstar) ^ 2 := by ring
    rw [e]; exact hnear
  have hum : u * |m| ≤ u := by
    rw [abs_of_nonneg hm0]
    calc u * m ≤ u * 1 := mul_le_mul_of_nonneg_left hm1 hu
      _ = u := mul_one u
  have tri := abs_sub_le
    ((newtonRefine thr (nodes.map (List.map Fl.mk)) ((evalPoint thr nodes sstar).map Fl.mk)
      (⟨m⟩ : Fl K fl)).val) (newtonRefine thr nodes (evalPoint thr nodes sstar) m) sstar
  linarith

/-- **the tolerance of `harness/props/c10.py` as a consequence.**  `tol = 4·M₂/g · 2^-42 +
    2^-44/(g/V) + 2^-46` with `M₂ = n(n−1)D₂`, `g ≤ |B'(m)|` (speed at the estimate), `V` the size
    `max|v|` used by the script's `reg = |B'|/size`.  Hypotheses: locality of the survivors
    (`hloc`, `η = 2^-20`), `dim ≤ 4` (`d ≤ 2`), binary64 (`u ≤ 2^-53`), `6n+8+dim ≤ 126`, the
    denominator dominates its rounding error (`hcond`, as in `C10.newton_step_comparator`), and
    **no cancellation** in the numerator/hodograph: `numAbs + |num|·denAbs/den ≤ 3·V·g` (for a
    hodograph whose Bernstein terms do not cancel `numAbs ≈ 2V|B'|`, `|num| ≈ 0`). -/
theorem locate_roundtrip_script_tolerance (fl : K → K) (u : K) (hu : 0 ≤ u)
    (hfl : ∀ x, |fl x - x| ≤ u * |x|) (hu53 : u ≤ 1 / 2 ^ 53)
    (thr : ℕ) (subdiv : List (List K) → List (List K) × List (List K))
    (hsub : Locate.Halving thr subdiv) (rounds : ℕ) (capSq : K) (n : ℕ) (hn : 1 ≤ n)
    (nodes : List (List K)) (hN : ∀ row ∈ nodes, row.length = n + 1)
    (hk : 6 * n + 8 + nodes.length ≤ 126)
    (hbinE : n + 1 ≤ thr → VSBinomExact fl n) (hbinH : 2 ≤ n → n ≤ thr → VSBinomExact fl (n - 1))
    (sstar : K) (hstar : 0 ≤ sstar ∧ sstar ≤ 1) (t : K)
    (hf : locatePoint subdiv thr rounds capSq nodes (evalPoint thr nodes sstar) = .found t)
    (hloc : ∀ c ∈ iter (locateRound subdiv (evalPoint thr nodes sstar)) rounds [⟨0, 1, nodes⟩],
      |c.start + c.stop - 2 * sstar| ≤ 2 * (1 / 2 ^ 20))
    (D2 : K) (hD2 : ∀ row ∈ nodes, ∀ d ∈ diffs (diffs row), |d| ≤ D2) (h2 : 0 ≤ D2)
    (g V d : K) (hg : 0 < g) (hV : 0 < V) (hd0 : 0 ≤ d) (hd2 : d ≤ 2)
    (hdim : (nodes.length : K) ≤ d ^ 2)
    (hgd : g ^ 2 ≤ newtonDen thr nodes
      (Locate.mean (iter (locateRound subdiv (evalPoint thr nodes sstar)) rounds [⟨0, 1, nodes⟩])))
    (hcond : 4 * (((1+u)^(6 * n + 5 + nodes.length) - 1) * newtonDenAbs thr nodes
        (Locate.mean (iter (locateRound subdiv (evalPoint thr nodes sstar)) rounds [⟨0, 1, nodes⟩])))
      ≤ newtonDen thr nodes
        (Locate.mean (iter (locateRound subdiv (evalPoint thr nodes sstar)) rounds [⟨0, 1, nodes⟩])))
    (hnocancel : newtonNumAbs thr nodes (evalPoint thr nodes sstar)
          (Locate.mean (iter (locateRound subdiv (evalPoint thr nodes sstar)) rounds [⟨0, 1, nodes⟩]))
        + |newtonNum thr nodes (evalPoint thr nodes sstar)
            (Locate.mean (iter (locateRound subdiv (evalPoint thr nodes sstar)) rounds [⟨0, 1, nodes⟩]))|
          * newtonDenAbs thr nodes
            (Locate.mean (iter (locateRound subdiv (evalPoint thr nodes sstar)) rounds [⟨0, 1, nodes⟩]))
          / newtonDen thr nodes
            (Locate.mean (iter (locateRound subdiv (evalPoint thr nodes sstar)) rounds [⟨0, 1, nodes⟩]))
      ≤ 3 * V * g) :
    |max 0 (min 1 (newtonRefine thr (nodes.map (List.map Fl.mk))
          ((evalPoint thr nodes sstar).map Fl.mk)
          (⟨Locate.mean (iter (locateRound subdiv (evalPoint thr nodes sstar)) rounds
              [⟨0, 1, nodes⟩])⟩ : Fl K fl)).val) - sstar|
      ≤ 4 * (((n * (n - 1) : ℕ) : K) * D2) / g * (1 / 2 ^ 42) + (1 / 2 ^ 44) / (g / V) + 1 / 2 ^ 46 := by
  obtain ⟨hne, hm0, hm1, -, -, ht⟩ := LocateAcc.found_mean thr subdiv hsub rounds capSq nodes
    (fun row hrow => by have := hN row hrow; omega) sstar hstar.1 hstar.2 t hf
  have hnear := LocateAcc.mean_near_local _ hne sstar (1 / 2 ^ 20) hloc
  change 0 ≤ Locate.mean (iter (locateRound subdiv (evalPoint thr nodes sstar)) rounds [⟨0, 1, nodes⟩])
    at hm0
  change |Locate.mean (iter (locateRound subdiv (evalPoint thr nodes sstar)) rounds [⟨0, 1, nodes⟩])
    - sstar| ≤ 1 / 2 ^ 20 at hnear
  set m := Locate.mean (iter (locateRound subdiv (evalPoint thr nodes sstar)) rounds [⟨0, 1, nodes⟩])
    with hmdef
  set den := newtonDen thr nodes m with hden
  set X := newtonNumAbs thr nodes (evalPoint thr nodes sstar) m
      + |newtonNum thr nodes (evalPoint thr nodes sstar) m| * newtonDenAbs thr nodes m / den with hX
  have hdenpos : 0 < den := lt_of_lt_of_le (by positivity) hgd
  have habs : |den| = den := abs_of_pos hdenpos
  refine le_trans (LocateAcc.clamp_near _ sstar hstar.1 hstar.2) ?_
  -- rounding of the step, margin ¾·den
  have hmy : 3 / 4 * den ≤ |den| - ((1+u)^(6 * n + 5 + nodes.length) - 1) * newtonDenAbs thr nodes m := by
    rw [habs]; linarith
  have hround := newton_step_rounding_sharp fl u hu hfl thr n hn nodes hN hbinE hbinH
    (evalPoint thr nodes sstar) (by simp [evalPoint]) m (3 / 4 * den) (by positivity) hmy
  rw [habs] at hround
  -- exact part
  have hexact := newton_refine_quadratic_speed thr n hn nodes hN sstar m (1 / 2 ^ 20) hstar
    ⟨hm0, hm1⟩ hnear D2 hD2 h2 g d hg hgd hd0 hdim
  have hc2 : (((n * (n - 1) / 2 : ℕ) : K)) * 2 = ((n * (n - 1) : ℕ) : K) := by
    have : n * (n - 1) / 2 * 2 = n * (n - 1) :=
      Nat.div_mul_cancel (Nat.even_mul_pred_self n).two_dvd
    exact_mod_cast this
  have hexact' : (d * (((n * (n - 1) / 2 : ℕ) : K) * D2) / g) * (1 / 2 ^ 20) ^ 2
      ≤ 4 * (((n * (n - 1) : ℕ) : K) * D2) / g * (1 / 2 ^ 42) := by
    have hc0 : (0:K) ≤ ((n * (n - 1) / 2 : ℕ) : K) * D2 := by positivity
    have : (d * (((n * (n - 1) / 2 : ℕ) : K) * D2) / g) * (1 / 2 ^ 20) ^ 2
        ≤ (2 * (((n * (n - 1) / 2 : ℕ) : K) * D2) / g) * (1 / 2 ^ 20) ^ 2 := by
      apply mul_le_mul_of_nonneg_right _ (by positivity)
      apply div_le_div_of_nonneg_right _ hg.le
      exact mul_le_mul_of_nonneg_right hd2 hc0
    refine le_trans this (le_of_eq ?_)
    rw [← hc2]; field_simp; ring
  -- rounding part
  have hum : u * |m| ≤ 1 / 2 ^ 46 := by
    rw [abs_of_nonneg hm0]
    calc u * m ≤ u * 1 := mul_le_mul_of_nonneg_left hm1 hu
      _ = u := mul_one u
      _ ≤ 1 / 2 ^ 53 := hu53
      _ ≤ 1 / 2 ^ 46 := by norm_num
  have hkk : ((6 * n + 8 + nodes.length : ℕ) : K) ≤ 126 := by exact_mod_cast hk
  have hku : ((6 * n + 8 + nodes.length : ℕ) : K) * u ≤ 1 / 100 :=
    ku_small u hu hu53 _ (le_trans hk (by norm_num))
  have hE := pow_sub_one_le_comparator u hu (6 * n + 8 + nodes.length) hku
  have hE0 := pow_sub_one_nonneg u hu (6 * n + 8 + nodes.length)
  have hE' : (1+u)^(6 * n + 8 + nodes.length) - 1 ≤ 101 / 100 * (126 * (1 / 2 ^ 53)) := by
    refine le_trans hE ?_
    apply mul_le_mul_of_nonneg_left _ (by norm_num)
    exact mul_le_mul hkk hu53 hu (by norm_num)
  have hX0 : 0 ≤ X / (3 / 4 * den) := by
    have := (newtonAbs_nonneg (fl := fl) ⟨hu, hfl⟩ thr n hn nodes hN (evalPoint thr nodes sstar) m)
    have hx : 0 ≤ X := by
      rw [hX]
      have h3 : 0 ≤ |newtonNum thr nodes (evalPoint thr nodes sstar) m| * newtonDenAbs thr nodes m / den :=
        div_nonneg (mul_nonneg (abs_nonneg _) this.2.1) hdenpos.le
      linarith [this.1]
    positivity
  have hXb : X / (3 / 4 * den) ≤ 4 * V / g := by
    rw [div_le_div_iff₀ (by positivity) hg]
    calc X * g ≤ (3 * V * g) * g := mul_le_mul_of_nonneg_right hnocancel hg.le
      _ = 4 * V * (3 / 4 * g ^ 2) := by ring
      _ ≤ 4 * V * (3 / 4 * den) := by
          apply mul_le_mul_of_nonneg_left _ (by positivity)
          linarith
  have hrt : ((1+u)^(6 * n + 8 + nodes.length) - 1) * (X / (3 / 4 * den)) ≤ (1 / 2 ^ 44) / (g / V) := by
    calc ((1+u)^(6 * n + 8 + nodes.length) - 1) * (X / (3 / 4 * den))
        ≤ (101 / 100 * (126 * (1 / 2 ^ 53))) * (4 * V / g) :=
          mul_le_mul hE' hXb hX0 (by norm_num)
      _ ≤ (1 / 2 ^ 44) / (g / V) := by
          rw [div_div_eq_mul_div]
          have hVg : 0 ≤ V / g := by positivity
          have e1 : (101 / 100 * (126 * (1 / 2 ^ 53))) * (4 * V / g)
              = (101 / 100 * 126 * 4 / 2 ^ 53) * (V / g) := by ring
          have e2 : (1 / 2 ^ 44 : K) * V / g = (1 / 2 ^ 44) * (V / g) := by ring
          rw [e1, e2]
          apply mul_le_mul_of_nonneg_right _ hVg
          norm_num
  have tri := abs_sub_le
    ((newtonRefine thr (nodes.map (List.map Fl.mk)) ((evalPoint thr nodes sstar).map Fl.mk)
      (⟨m⟩ : Fl K fl)).val) (newtonRefine thr nodes (evalPoint thr nodes sstar) m) sstar
  linarith

/-! ### 4. the family of the script: a strictly increasing coordinate -/

/-- **sharp filter for nets with a strictly increasing coordinate `r0`** (the family of
    `harness/props/c10.py`: strictly increasing x control values): locating `B(s*)`, a cell passes
    the closed-box test only if it contains `s*` (any round; either routine) -/
theorem monotone_filter_sharp_of_halving (thr : ℕ)
    (subdiv : List (List K) → List (List K) × List (List K)) (hsub : Locate.Halving thr subdiv)
    (r0 : ℕ) (hinc : LocateAcc.IncPreserving r0 subdiv)
    (nodes : List (List K)) (h : ∀ row ∈ nodes, 2 ≤ row.length) (hr0 : r0 < nodes.length)
    (hmono : ∀ d ∈ diffs (nodes.getD r0 []), 0 < d)
    (sstar : K) (hstar : 0 ≤ sstar ∧ sstar ≤ 1) (r : ℕ) :
    ∀ c ∈ iter (locateRound subdiv (evalPoint thr nodes sstar)) r [⟨0, 1, nodes⟩],
      containsND c.nodes (evalPoint thr nodes sstar) = true → c.start ≤ sstar ∧ sstar ≤ c.stop := by
  have hrow := h _ (LocateAcc.getD_mem nodes r0 [] hr0)
  have hne : diffs (nodes.getD r0 []) ≠ [] := by
    intro e
    have := Lipschitz.diffs_length (nodes.getD r0 [])
    rw [e, List.length_nil] at this
    omega
  obtain ⟨μ, hμmem, hμ⟩ := Locate.exists_min _ hne
  exact LocateAcc.monotone_contained thr subdiv hsub r0 hinc nodes h hr0 μ (hmono μ hμmem) hμ
    sstar hstar.1 hstar.2 r

theorem monotone_filter_sharp (thr : ℕ) (r0 : ℕ)
    (nodes : List (List K)) (h : ∀ row ∈ nodes, 2 ≤ row.length) (hr0 : r0 < nodes.length)
    (hmono : ∀ d ∈ diffs (nodes.getD r0 []), 0 < d)
    (sstar : K) (hstar : 0 ≤ sstar ∧ sstar ≤ 1) (r : ℕ) :
    ∀ c ∈ iter (locateRound Py.subdivide (evalPoint thr nodes sstar)) r [⟨0, 1, nodes⟩],
      containsND c.nodes (evalPoint thr nodes sstar) = true → c.start ≤ sstar ∧ sstar ≤ c.stop :=
  monotone_filter_sharp_of_halving thr _ (Locate.halving_py thr) r0 (LocateAcc.incPreserving_py r0)
    nodes h hr0 hmono sstar hstar r

theorem monotone_filter_sharp_f90 (thr : ℕ) (r0 : ℕ)
    (nodes : List (List K)) (h : ∀ row ∈ nodes, 2 ≤ row.length) (hr0 : r0 < nodes.length)
    (hmono : ∀ d ∈ diffs (nodes.getD r0 []), 0 < d)
    (sstar : K) (hstar : 0 ≤ sstar ∧ sstar ≤ 1) (r : ℕ) :
    ∀ c ∈ iter (locateRound F90.subdivide (evalPoint thr nodes sstar)) r [⟨0, 1, nodes⟩],
      containsND c.nodes (evalPoint thr nodes sstar) = true → c.start ≤ sstar ∧ sstar ≤ c.stop :=
  monotone_filter_sharp_of_halving thr _ (Locate.halving_f90 thr) r0 (LocateAcc.incPreserving_f90 r0)
    nodes h hr0 hmono sstar hstar r

/-- hence at most the two halves of one or two cells survive, and every final midpoint is within
    `2^-r` (one parent width) of `s*` -/
theorem survivors_local (subdiv : List (List K) → List (List K) × List (List K))
    (r : ℕ) (nodes : List (List K)) (point : List K) (sstar : K)
    (hloc : ∀ c ∈ iter (locateRound subdiv point) r [⟨0, 1, nodes⟩],
      containsND c.nodes point = true → c.start ≤ sstar ∧ sstar ≤ c.stop) :
    ∀ c ∈ iter (locateRound subdiv point) (r + 1) [⟨0, 1, nodes⟩],
      |c.start + c.stop - 2 * sstar| ≤ 2 * (1 / 2) ^ r := by
  intro c' hc'
  have e : iter (locateRound subdiv point) (r + 1) [⟨0, 1, nodes⟩]
      = locateRound subdiv point (iter (locateRound subdiv point) r [⟨0, 1, nodes⟩]) :=
    Locate.candsAfter_succ subdiv point nodes r
  rw [e, Locate.mem_locateRound] at hc'
  obtain ⟨c, hc, hb, rfl | rfl⟩ := hc'
  · obtain ⟨h0, h1⟩ := hloc c hc hb
    have hw := (Locate.candsAfter_grid subdiv point nodes r c hc).1
    show |c.start + (1 / 2) * (c.start + c.stop) - 2 * sstar| ≤ _
    rw [abs_le]; constructor <;> linarith
  · obtain ⟨h0, h1⟩ := hloc c hc hb
    have hw := (Locate.candsAfter_grid subdiv point nodes r c hc).1
    show |(1 / 2) * (c.start + c.stop) + c.stop - 2 * sstar| ≤ _
    rw [abs_le]; constructor <;> linarith

/-- **round trip for nets with a strictly increasing coordinate** (Python routine):
    `|t − s*| ≤ K · 4^-rounds`, `K = dim·C(n,2)D₂·nD₁/m₂`; `K·2^-42` for the library's 21 rounds -/
theorem locate_roundtrip_monotone (thr r : ℕ) (capSq : K) (n : ℕ) (hn : 1 ≤ n)
    (nodes : List (List K)) (hN : ∀ row ∈ nodes, row.length = n + 1) (r0 : ℕ)
    (hr0 : r0 < nodes.length) (hmono : ∀ d ∈ diffs (nodes.getD r0 []), 0 < d) (sstar : K)
    (hstar : 0 ≤ sstar ∧ sstar ≤ 1) (t : K)
    (hf : locatePoint Py.subdivide thr (r + 1) capSq nodes (evalPoint thr nodes sstar) = .found t)
    (D1 D2 : K) (hD1 : ∀ row ∈ nodes, ∀ d ∈ diffs row, |d| ≤ D1)
    (hD2 : ∀ row ∈ nodes, ∀ d ∈ diffs (diffs row), |d| ≤ D2) (h1 : 0 ≤ D1) (h2 : 0 ≤ D2)
    (m2 : K) (hm : 0 < m2)
    (hreg : ∀ σ : K, 0 ≤ σ → σ ≤ 1 → |σ - sstar| ≤ (1 / 2) ^ (r + 1) →
      m2 ≤ newtonDen thr nodes σ) :
    |t - sstar| ≤ ((nodes.length : K) * (((n * (n - 1) / 2 : ℕ) : K) * D2) * ((n : K) * D1) / m2)
      * ((1 / 2) ^ (r + 1)) ^ 2 :=
  locate_roundtrip_contained thr r capSq n hn nodes hN sstar hstar t hf
    (monotone_filter_sharp thr r0 nodes (fun row hrow => by have := hN row hrow; omega) hr0 hmono
      sstar hstar r) D1 D2 hD1 hD2 h1 h2 m2 hm hreg

theorem locate_roundtrip_monotone_f90 (thr r : ℕ) (capSq : K) (n : ℕ) (hn : 1 ≤ n)
    (nodes : List (List K)) (hN : ∀ row ∈ nodes, row.length = n + 1) (r0 : ℕ)
    (hr0 : r0 < nodes.length) (hmono : ∀ d ∈ diffs (nodes.getD r0 []), 0 < d) (sstar : K)
    (hstar : 0 ≤ sstar ∧ sstar ≤ 1) (t : K)
    (hf : locatePoint F90.subdivide thr (r + 1) capSq nodes (evalPoint thr nodes sstar) = .found t)
    (D1 D2 : K) (hD1 : ∀ row ∈ nodes, ∀ d ∈ diffs row, |d| ≤ D1)
    (hD2 : ∀ row ∈ nodes, ∀ d ∈ diffs (diffs row), |d| ≤ D2) (h1 : 0 ≤ D1) (h2 : 0 ≤ D2)
    (m2 : K) (hm : 0 < m2)
    (hreg : ∀ σ : K, 0 ≤ σ → σ ≤ 1 → |σ - sstar| ≤ (1 / 2) ^ (r + 1) →
      m2 ≤ newtonDen thr nodes σ) :
    |t - sstar| ≤ ((nodes.length : K) * (((n * (n - 1) / 2 : ℕ) : K) * D2) * ((n : K) * D1) / m2)
      * ((1 / 2) ^ (r + 1)) ^ 2 :=
  locate_roundtrip_contained_f90 thr r capSq n hn nodes hN sstar hstar t hf
    (monotone_filter_sharp_f90 thr r0 nodes (fun row hrow => by have := hN row hrow; omega) hr0 hmono
      sstar hstar r) D1 D2 hD1 hD2 h1 h2 m2 hm hreg

/-- **the script's tolerance for the script's family** (21 rounds; any routine with the halving and
    the monotonicity-preserving property, in particular both of the library's): the locality
    hypothesis of `locate_roundtrip_script_tolerance` is discharged by `monotone_filter_sharp` -/
theorem locate_roundtrip_script_tolerance_monotone (fl : K → K) (u : K) (hu : 0 ≤ u)
    (hfl : ∀ x, |fl x - x| ≤ u * |x|) (hu53 : u ≤ 1 / 2 ^ 53)
    (thr : ℕ) (subdiv : List (List K) → List (List K) × List (List K))
    (hsub : Locate.Halving thr subdiv) (r0 : ℕ) (hinc : LocateAcc.IncPreserving r0 subdiv)
    (capSq : K) (n : ℕ) (hn : 1 ≤ n)
    (nodes : List (List K)) (hN : ∀ row ∈ nodes, row.length = n + 1)
    (hr0 : r0 < nodes.length) (hmono : ∀ d ∈ diffs (nodes.getD r0 []), 0 < d)
    (hk : 6 * n + 8 + nodes.length ≤ 126)
    (hbinE : n + 1 ≤ thr → VSBinomExact fl n) (hbinH : 2 ≤ n → n ≤ thr → VSBinomExact fl (n - 1))
    (sstar : K) (hstar : 0 ≤ sstar ∧ sstar ≤ 1) (t : K)
    (hf : locatePoint subdiv thr 21 capSq nodes (evalPoint thr nodes sstar) = .found t)
    (D2 : K) (hD2 : ∀ row ∈ nodes, ∀ d ∈ diffs (diffs row), |d| ≤ D2) (h2 : 0 ≤ D2)
    (g V d : K) (hg : 0 < g) (hV : 0 < V) (hd0 : 0 ≤ d) (hd2 : d ≤ 2)
    (hdim : (nodes.length : K) ≤ d ^ 2)
    (hgd : g ^ 2 ≤ newtonDen thr nodes
      (Locate.mean (iter (locateRound subdiv (evalPoint thr nodes sstar)) 21 [⟨0, 1, nodes⟩])))
    (hcond : 4 * (((1+u)^(6 * n + 5 + nodes.length) - 1) * newtonDenAbs thr nodes
        (Locate.mean (iter (locateRound subdiv (evalPoint thr nodes sstar)) 21 [⟨0, 1, nodes⟩])))
      ≤ newtonDen thr nodes
        (Locate.mean (iter (locateRound subdiv (evalPoint thr nodes sstar)) 21 [⟨0, 1, nodes⟩])))
    (hnocancel : newtonNumAbs thr nodes (evalPoint thr nodes sstar)
          (Locate.mean (iter (locateRound subdiv (evalPoint thr nodes sstar)) 21 [⟨0, 1, nodes⟩]))
        + |newtonNum thr nodes (evalPoint thr nodes sstar)
            (Locate.mean (iter (locateRound subdiv (evalPoint thr nodes sstar)) 21 [⟨0, 1, nodes⟩]))|
          * newtonDenAbs thr nodes
            (Locate.mean (iter (locateRound subdiv (evalPoint thr nodes sstar)) 21 [⟨0, 1, nodes⟩]))
          / newtonDen thr nodes
            (Locate.mean (iter (locateRound subdiv (evalPoint thr nodes sstar)) 21 [⟨0, 1, nodes⟩]))
      ≤ 3 * V * g) :
    |max 0 (min 1 (newtonRefine thr (nodes.map (List.map Fl.mk))
          ((evalPoint thr nodes sstar).map Fl.mk)
          (⟨Locate.mean (iter (locateRound subdiv (evalPoint thr nodes sstar)) 21
              [⟨0, 1, nodes⟩])⟩ : Fl K fl)).val) - sstar|
      ≤ 4 * (((n * (n - 1) : ℕ) : K) * D2) / g * (1 / 2 ^ 42) + (1 / 2 ^ 44) / (g / V) + 1 / 2 ^ 46 := by
  refine locate_roundtrip_script_tolerance fl u hu hfl hu53 thr subdiv hsub 21 capSq n hn nodes hN
    hk hbinE hbinH sstar hstar t hf ?_ D2 hD2 h2 g V d hg hV hd0 hd2 hdim hgd hcond hnocancel
  have hl := survivors_local subdiv 20 nodes (evalPoint thr nodes sstar) sstar
    (monotone_filter_sharp_of_halving thr subdiv hsub r0 hinc nodes
      (fun row hrow => by have := hN row hrow; omega) hr0 hmono sstar hstar 20)
  intro c hc
  refine le_trans (hl c hc) (le_of_eq ?_)
  norm_num

/-! ### 5. non-vacuity: concrete curves over ℚ, the library's constants
(`thr = 55`, `rounds = 21`, `cap² = 2^-40`) -/

/-- the parabola `(0,0),(1,2),(3,1)`: `|B'(σ)|² = (2+2σ)² + (4−6σ)² ≥ 4` on `[0,1]` -/
theorem parabola_den (σ : ℚ) : newtonDen 55 [[0,1,3],[0,2,1]] σ = (2 + 2*σ)^2 + (4 - 6*σ)^2 := by
  simp [newtonDen, hodograph, dot, Geo.hodographRow_eq, diffs, evalDC, dcRound]
  ring

/-- the cubic `(0,0),(1,2),(3,2),(7,0)`: `|B'(σ)|² = 9(1+σ)⁴ + (6−12σ)² ≥ 9` -/
theorem cubic_den (σ : ℚ) : newtonDen 55 [[0,1,3,7],[0,2,2,0]] σ = (3*(1+σ)^2)^2 + (6 - 12*σ)^2 := by
  simp [newtonDen, hodograph, dot, Geo.hodographRow_eq, diffs, evalDC, dcRound]
  ring

/-- one Newton step on the parabola from `s = 3/8` towards `B(1/3)`: `δ = 1/24`,
    `K = dim·c₂D₂·nD₁/m₂ = 2·3·4/4 = 6`, bound `6/576`; the actual error is smaller -/
example : |newtonRefine 55 ([[0,1,3],[0,2,1]] : List (List ℚ)) (evalPoint 55 [[0,1,3],[0,2,1]] (1/3)) (3/8)
    - 1/3| ≤ 6 * (1/24)^2 := by
  have h := newton_refine_quadratic 55 2 (by norm_num) ([[0,1,3],[0,2,1]] : List (List ℚ))
    (by intro row hrow; simp at hrow; rcases hrow with rfl | rfl <;> rfl) (1/3) (3/8) (1/24)
    (by norm_num) (by norm_num) (by norm_num [abs_le]) 2 3
    (by intro row hrow d hd; simp at hrow; rcases hrow with rfl | rfl <;> simp [diffs] at hd <;>
          rcases hd with rfl | rfl <;> norm_num [abs_le])
    (by intro row hrow d hd; simp at hrow; rcases hrow with rfl | rfl <;> simp [diffs] at hd <;>
          subst hd <;> norm_num [abs_le])
    (by norm_num) (by norm_num) 4 (by norm_num)
    (by rw [parabola_den]; nlinarith [sq_nonneg (4 - 6 * (3/8 : ℚ))])
  norm_num at h ⊢
  exact h

/-- (the actual error is `1/2448`, the bound `6/576 = 1/96`) -/
example : newtonRefine 55 ([[0,1,3],[0,2,1]] : List (List ℚ)) (evalPoint 55 [[0,1,3],[0,2,1]] (1/3)) (3/8)
    - 1/3 = -1/2448 := by decide +kernel

/-- the parabola, Fortran routine, library constants, `s* = 1/3`: every hypothesis of
    `locate_roundtrip_library_f90` holds (`D₁ = 2`, `D₂ = 3`, `m₂ = 4` on all of `[0,1]`), so any
    located parameter is within `6·2^-35` of `1/3` … -/
example (t : ℚ)
    (hf : locatePoint F90.subdivide 55 21 (1 / 2 ^ 40) ([[0,1,3],[0,2,1]] : List (List ℚ))
      (evalPoint 55 [[0,1,3],[0,2,1]] (1/3)) = .found t) : |t - 1/3| ≤ 6 * (1 / 2 ^ 35) := by
  have h := locate_roundtrip_library_f90 55 2 (by norm_num) ([[0,1,3],[0,2,1]] : List (List ℚ))
    (by intro row hrow; simp at hrow; rcases hrow with rfl | rfl <;> rfl) (1/3)
    (by norm_num) t hf 2 3
    (by intro row hrow d hd; simp at hrow; rcases hrow with rfl | rfl <;> simp [diffs] at hd <;>
          rcases hd with rfl | rfl <;> norm_num [abs_le])
    (by intro row hrow d hd; simp at hrow; rcases hrow with rfl | rfl <;> simp [diffs] at hd <;>
          subst hd <;> norm_num [abs_le])
    (by norm_num) (by norm_num) 4 (by norm_num)
    (by intro σ h0 h1 _; rw [parabola_den]; nlinarith [sq_nonneg (4 - 6 * σ)])
  norm_num at h ⊢
  exact h

/-- … and, because every cell that passes the 21st box test contains `1/3` (kernel evaluation of
    the 20 rounds), within `6·2^-42` -/
example (t : ℚ)
    (hf : locatePoint F90.subdivide 55 21 (1 / 2 ^ 40) ([[0,1,3],[0,2,1]] : List (List ℚ))
      (evalPoint 55 [[0,1,3],[0,2,1]] (1/3)) = .found t) : |t - 1/3| ≤ 6 * (1 / 2 ^ 42) := by
  have h := locate_roundtrip_contained_f90 55 20 (1 / 2 ^ 40) 2 (by norm_num)
    ([[0,1,3],[0,2,1]] : List (List ℚ))
    (by intro row hrow; simp at hrow; rcases hrow with rfl | rfl <;> rfl) (1/3)
    (by norm_num) t hf (by decide +kernel) 2 3
    (by intro row hrow d hd; simp at hrow; rcases hrow with rfl | rfl <;> simp [diffs] at hd <;>
          rcases hd with rfl | rfl <;> norm_num [abs_le])
    (by intro row hrow d hd; simp at hrow; rcases hrow with rfl | rfl <;> simp [diffs] at hd <;>
          subst hd <;> norm_num [abs_le])
    (by norm_num) (by norm_num) 4 (by norm_num)
    (by intro σ h0 h1 _; rw [parabola_den]; nlinarith [sq_nonneg (4 - 6 * σ)])
  norm_num at h ⊢
  exact h

/-- the same from the theorem about increasing coordinates (x control values `0 < 1 < 3`), no
    evaluation of the run needed -/
example (t : ℚ)
    (hf : locatePoint F90.subdivide 55 21 (1 / 2 ^ 40) ([[0,1,3],[0,2,1]] : List (List ℚ))
      (evalPoint 55 [[0,1,3],[0,2,1]] (1/3)) = .found t) : |t - 1/3| ≤ 6 * (1 / 2 ^ 42) := by
  have h := locate_roundtrip_monotone_f90 55 20 (1 / 2 ^ 40) 2 (by norm_num)
    ([[0,1,3],[0,2,1]] : List (List ℚ))
    (by intro row hrow; simp at hrow; rcases hrow with rfl | rfl <;> rfl) 0 (by decide)
    (by intro d hd; simp [diffs] at hd; rcases hd with rfl | rfl <;> norm_num) (1/3)
    (by norm_num) t hf 2 3
    (by intro row hrow d hd; simp at hrow; rcases hrow with rfl | rfl <;> simp [diffs] at hd <;>
          rcases hd with rfl | rfl <;> norm_num [abs_le])
    (by intro row hrow d hd; simp at hrow; rcases hrow with rfl | rfl <;> simp [diffs] at hd <;>
          subst hd <;> norm_num [abs_le])
    (by norm_num) (by norm_num) 4 (by norm_num)
    (by intro σ h0 h1 _; rw [parabola_den]; nlinarith [sq_nonneg (4 - 6 * σ)])
  norm_num at h ⊢
  exact h

/-- the run exists (`found`), two candidates survive, and the error of the model's result is
    in fact below `2^-40` -/
example : (match locatePoint F90.subdivide 55 21 (1/2^40 : ℚ) [[0,1,3],[0,2,1]]
      (evalPoint 55 [[0,1,3],[0,2,1]] (1/3)) with
    | .found t => decide (|t - 1/3| ≤ 6 * (1 / 2 ^ 42) ∧ t ≠ 1/3) | _ => false) = true := by
  decide +kernel

example : (iter (locateRound F90.subdivide (evalPoint 55 ([[0,1,3],[0,2,1]] : List (List ℚ)) (1/3))) 21
    [⟨0, 1, [[0,1,3],[0,2,1]]⟩]).length = 2 := by decide +kernel

/-- the cubic `(0,0),(1,2),(3,2),(7,0)`, Python routine, `s* = 1/3`:
    `D₁ = 4`, `D₂ = 2`, `c₂D₂ = 6`, `nD₁ = 12`, `m₂ = 9`, `K = 2·6·12/9 = 16`: error `≤ 16·2^-42` -/
example (t : ℚ)
    (hf : locatePoint Py.subdivide 55 21 (1 / 2 ^ 40) ([[0,1,3,7],[0,2,2,0]] : List (List ℚ))
      (evalPoint 55 [[0,1,3,7],[0,2,2,0]] (1/3)) = .found t) : |t - 1/3| ≤ 16 * (1 / 2 ^ 42) := by
  have h := locate_roundtrip_contained 55 20 (1 / 2 ^ 40) 3 (by norm_num)
    ([[0,1,3,7],[0,2,2,0]] : List (List ℚ))
    (by intro row hrow; simp at hrow; rcases hrow with rfl | rfl <;> rfl) (1/3)
    (by norm_num) t hf (by decide +kernel) 4 2
    (by intro row hrow d hd; simp at hrow; rcases hrow with rfl | rfl <;> simp [diffs] at hd <;>
          rcases hd with rfl | rfl | rfl <;> norm_num [abs_le])
    (by intro row hrow d hd; simp at hrow; rcases hrow with rfl | rfl <;> simp [diffs] at hd <;>
          rcases hd with rfl | rfl <;> norm_num [abs_le])
    (by norm_num) (by norm_num) 9 (by norm_num)
    (by intro σ h0 h1 _; rw [cubic_den]
        have : 1 ≤ (1 + σ) ^ 2 := by nlinarith
        nlinarith [sq_nonneg (6 - 12 * σ)])
  norm_num at h ⊢
  exact h

example : (match locatePoint Py.subdivide 55 21 (1/2^40 : ℚ) [[0,1,3,7],[0,2,2,0]]
      (evalPoint 55 [[0,1,3,7],[0,2,2,0]] (1/3)) with
    | .found t => decide (|t - 1/3| ≤ 16 * (1 / 2 ^ 42)) | _ => false) = true := by
  decide +kernel

/-- the numeric corollary on the parabola: `dim·c₂D₂·nD₁ = 24 ≤ 2^5`, `|B'|² ≥ 4 ≥ 1` ⟹ `≤ 2^-30` -/
example (t : ℚ)
    (hf : locatePoint F90.subdivide 55 21 (1 / 2 ^ 40) ([[0,1,3],[0,2,1]] : List (List ℚ))
      (evalPoint 55 [[0,1,3],[0,2,1]] (1/3)) = .found t) : |t - 1/3| ≤ 1 / 2 ^ 30 :=
  locate_roundtrip_numeric 55 _ (Locate.halving_f90 55) 2 (by norm_num)
    ([[0,1,3],[0,2,1]] : List (List ℚ))
    (by intro row hrow; simp at hrow; rcases hrow with rfl | rfl <;> rfl) (1/3)
    (by norm_num) t hf 2 3
    (by intro row hrow d hd; simp at hrow; rcases hrow with rfl | rfl <;> simp [diffs] at hd <;>
          rcases hd with rfl | rfl <;> norm_num [abs_le])
    (by intro row hrow d hd; simp at hrow; rcases hrow with rfl | rfl <;> simp [diffs] at hd <;>
          subst hd <;> norm_num [abs_le])
    (by norm_num) (by norm_num) (by norm_num)
    (by intro σ h0 h1 _; rw [parabola_den]; nlinarith [sq_nonneg (4 - 6 * σ)])

/-- the hypotheses of `locate_roundtrip_script_tolerance` hold together (parabola, `s* = 1/3`,
    Fortran routine; arithmetic `fl = id`, `u = 0`; `g = 3 ≤ |B'(m)| ≈ 3.33`, `V = 3 = max|v|`,
    `d = 3/2`; locality, the speed bound, the denominator condition and the no-cancellation
    condition `numAbs + |num|·denAbs/den ≈ 10.8 ≤ 27` by kernel evaluation at the model's
    estimate): the result of the model is within the script's tolerance
    `4·(2·3)/3·2^-42 + 2^-44/(3/3) + 2^-46` -/
example (t : ℚ)
    (hf : locatePoint F90.subdivide 55 21 (1 / 2 ^ 40) ([[0,1,3],[0,2,1]] : List (List ℚ))
      (evalPoint 55 [[0,1,3],[0,2,1]] (1/3)) = .found t) :
    |max 0 (min 1 (newtonRefine 55 (([[0,1,3],[0,2,1]] : List (List ℚ)).map (List.map Fl.mk))
          ((evalPoint 55 ([[0,1,3],[0,2,1]] : List (List ℚ)) (1/3)).map Fl.mk)
          (⟨Locate.mean (iter (locateRound F90.subdivide
              (evalPoint 55 ([[0,1,3],[0,2,1]] : List (List ℚ)) (1/3))) 21
              [⟨0, 1, [[0,1,3],[0,2,1]]⟩])⟩ : Fl ℚ id)).val) - 1/3|
      ≤ 4 * (((2 * (2 - 1) : ℕ) : ℚ) * 3) / 3 * (1 / 2 ^ 42) + (1 / 2 ^ 44) / (3 / 3) + 1 / 2 ^ 46 :=
  locate_roundtrip_script_tolerance (K := ℚ) id 0 le_rfl (by intro x; simp) (by norm_num)
    55 F90.subdivide (Locate.halving_f90 55) 21 (1 / 2 ^ 40) 2 (by norm_num)
    ([[0,1,3],[0,2,1]] : List (List ℚ))
    (by intro row hrow; simp at hrow; rcases hrow with rfl | rfl <;> rfl) (by decide)
    (fun _ _ _ => ⟨rfl, rfl⟩) (fun _ _ _ _ => ⟨rfl, rfl⟩) (1/3) (by norm_num) t hf
    (by decide +kernel) 3
    (by intro row hrow d hd; simp at hrow; rcases hrow with rfl | rfl <;> simp [diffs] at hd <;>
          subst hd <;> norm_num [abs_le])
    (by norm_num) 3 3 (3/2) (by norm_num) (by norm_num) (by norm_num) (by norm_num) (by norm_num)
    (by decide +kernel) (by decide +kernel) (by decide +kernel)

end BezierVerif.C10
