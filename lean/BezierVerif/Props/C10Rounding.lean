import BezierVerif.Lemmas.RoundingDeriv
import Mathlib.Algebra.Order.Field.Rat
import Mathlib.Algebra.Order.Ring.Rat

/-!
# C10 (rounding) — the Newton step of `locate_point` (curve) *in rounded arithmetic*

`Model.newtonRefine thr nodes point s = s + ⟨p − B(s), B'(s)⟩ / ⟨B'(s), B'(s)⟩` (Model/Curve; the
last stage of `Model.locatePoint`, Model/Locate; exact statement `C10.newton_fixed`,
`C11.newton_curve_step`) is instantiated, unchanged, at the number type `Fl F fl`
(Lemmas/Rounding): `evaluate_multi` at `(fl (1 - s), s)`, the subtraction from the point,
`evaluate_hodograph`, two dot products accumulated from `0`, the quotient, the final sum.

Hypotheses: the standard model `|fl x - x| ≤ u |x|`; control values, the point and the parameter
are numbers of the arithmetic; `0`, `1` and small integers exact; running binomials of the VS
branch exact (`VSBinomExact`); all rows have `n + 1 ≥ 2` nodes; and — stated explicitly — the
denominator `den = ⟨B'(s), B'(s)⟩` is bounded away from zero by more than its own rounding error:
`0 < m ≤ |den| − ((1+u)^(6n+5+dim) − 1)·denAbs`.

Notation (Lemmas/RoundingDeriv): `newtonNum = ⟨p − B(s), B'(s)⟩`, `newtonDen = ⟨B'(s), B'(s)⟩`
(exact model), `newtonNumAbs = Σ_r (|p_r| + Σ_j|term_j(B_r)|)·(n Σ_j|term_j(ΔB_r)|)`,
`newtonDenAbs = Σ_r (n Σ_j|term_j(ΔB_r)|)²` (the exact model on absolute values).

Proven: `|ŝ_new − s_new| ≤ u|s| + ((1+u)^(6n+8+dim) − 1)·(numAbs + |num|·denAbs/|den|)/m`; with
`m = ¾·den` the comparator form `≤ 4(3n+12)·u·(|s| + numAbs/den + |num|·denAbs/den²)`, which is
the tolerance `harness/props/c11.py` uses for `newton_refine`.  The round trip of
`harness/props/c10.py` allows `2⁻⁴⁴/reg + 2⁻⁴⁶` (`reg = |B'|/max|v|`) for the rounding of this
step: with `|p_r|, Σ|term(B_r)| ≤ max|v|` the proven bound is
`≤ u + 1.01(6n+8+dim)·u·(2·max|v|·Σ_r habs_r/|B'|²)(1 + o(1))`, i.e. it is below the script's
allowance whenever `Σ_r habs_r/|B'| ≤ 2⁸/(6n+8+dim)` (no cancellation in the hodograph) and
`6n+8+dim ≤ 126`; the script's formula has `1/|B'|` where the analysis has `habs/|B'|²`.
-/

set_option linter.unusedSectionVars false
set_option linter.unusedVariables false

namespace BezierVerif.C10

open Finset Model BezierVerif

variable {F : Type} [Field F] [LinearOrder F] [IsStrictOrderedRing F]

/-- the exact step in terms of numerator and denominator -/
theorem newton_step_eq (thr : ℕ) (nodes : List (List F)) (point : List F) (s : F) :
    newtonRefine thr nodes point s = s + newtonNum thr nodes point s / newtonDen thr nodes s := rfl

/-- **quotient of two computed numbers** (the general rule behind the Newton step): if
    `|x̂ − x| ≤ ((1+u)^j − 1)X`, `|ŷ − y| ≤ ((1+u)^k − 1)Y` and `0 < m ≤ |y| − ((1+u)^k − 1)Y` then
    `|fl (x̂/ŷ) − x/y| ≤ ((1+u)^(max (j+1) k) − 1)·(X + |x|·Y/|y|)/m` -/
theorem quotient_rounding (fl : F → F) (u : F) (hu : 0 ≤ u) (hfl : ∀ x, |fl x - x| ≤ u * |x|)
    (j k : ℕ) (xh yh : Fl F fl) (x X y Y m : F)
    (hx : |xh.val - x| ≤ ((1+u)^j - 1) * X) (hxm : |x| ≤ X)
    (hy : |yh.val - y| ≤ ((1+u)^k - 1) * Y) (hym : |y| ≤ Y) (hm : 0 < m)
    (hmy : m ≤ |y| - ((1+u)^k - 1) * Y) :
    |(xh / yh).val - x / y| ≤ ((1+u)^(max (j + 1) k) - 1) * ((X + |x| * Y / |y|) / m) :=
  (Near.div ⟨hu, hfl⟩ (⟨hx, hxm⟩ : Near fl u j xh x X) (⟨hy, hym⟩ : Near fl u k yh y Y) hm hmy).1

/-- **one Newton step `newton_refine` (curve) in rounded arithmetic**, degree `n ≥ 1`, dimension
    `dim = nodes.length`: `3n+2` roundings in `B(s)` and in `B'(s)`, one for `p − B(s)`,
    `dim + 1` per dot product, one for the quotient, one for the sum -/
theorem newton_step_rounding (fl : F → F) (u : F) (hu : 0 ≤ u) (hfl : ∀ x, |fl x - x| ≤ u * |x|)
    (thr n : ℕ) (hn : 1 ≤ n) (nodes : List (List F)) (hN : ∀ row ∈ nodes, row.length = n + 1)
    (hbinE : n + 1 ≤ thr → VSBinomExact fl n) (hbinH : 2 ≤ n → n ≤ thr → VSBinomExact fl (n - 1))
    (point : List F) (hp : point.length = nodes.length) (s m : F) (hm : 0 < m)
    (hmy : m ≤ |newtonDen thr nodes s|
        - ((1+u)^(6 * n + 5 + nodes.length) - 1) * newtonDenAbs thr nodes s) :
    |(newtonRefine thr (nodes.map (List.map Fl.mk)) (point.map Fl.mk) (⟨s⟩ : Fl F fl)).val
        - newtonRefine thr nodes point s|
      ≤ ((1+u)^(6 * n + 8 + nodes.length) - 1)
          * (|s| + (newtonNumAbs thr nodes point s
              + |newtonNum thr nodes point s| * newtonDenAbs thr nodes s / |newtonDen thr nodes s|) / m) :=
  (newtonRefine_near ⟨hu, hfl⟩ thr n hn nodes hN hbinE hbinH point hp s m hm hmy).1

/-- the same with the last addition separated: the starting parameter only sees one rounding -/
theorem newton_step_rounding_sharp (fl : F → F) (u : F) (hu : 0 ≤ u)
    (hfl : ∀ x, |fl x - x| ≤ u * |x|)
    (thr n : ℕ) (hn : 1 ≤ n) (nodes : List (List F)) (hN : ∀ row ∈ nodes, row.length = n + 1)
    (hbinE : n + 1 ≤ thr → VSBinomExact fl n) (hbinH : 2 ≤ n → n ≤ thr → VSBinomExact fl (n - 1))
    (point : List F) (hp : point.length = nodes.length) (s m : F) (hm : 0 < m)
    (hmy : m ≤ |newtonDen thr nodes s|
        - ((1+u)^(6 * n + 5 + nodes.length) - 1) * newtonDenAbs thr nodes s) :
    |(newtonRefine thr (nodes.map (List.map Fl.mk)) (point.map Fl.mk) (⟨s⟩ : Fl F fl)).val
        - newtonRefine thr nodes point s|
      ≤ u * |s| + ((1+u)^(6 * n + 8 + nodes.length) - 1)
          * ((newtonNumAbs thr nodes point s
              + |newtonNum thr nodes point s| * newtonDenAbs thr nodes s / |newtonDen thr nodes s|) / m) :=
  newtonRefine_sharp ⟨hu, hfl⟩ thr n hn nodes hN hbinE hbinH point hp s m hm hmy

/-- the ingredients: `B(s)` and `B'(s)` as the step computes them, every coordinate -/
theorem newton_ingredients_rounding (fl : F → F) (u : F) (hu : 0 ≤ u)
    (hfl : ∀ x, |fl x - x| ≤ u * |x|) (thr n : ℕ) (hn : 1 ≤ n) (nodes : List (List F))
    (hN : ∀ row ∈ nodes, row.length = n + 1) (hbinE : n + 1 ≤ thr → VSBinomExact fl n)
    (hbinH : 2 ≤ n → n ≤ thr → VSBinomExact fl (n - 1)) (s : F) (r : ℕ) :
    |(seq (evalPoint thr (nodes.map (List.map Fl.mk)) (⟨s⟩ : Fl F fl)) r).val
        - seq (evalPoint thr nodes s) r|
      ≤ ((1+u)^(3 * n + 2) - 1) * seq (absEvalPoint thr nodes s) r ∧
    |(seq (hodograph thr (nodes.map (List.map Fl.mk)) (⟨s⟩ : Fl F fl)) r).val
        - seq (hodograph thr nodes s) r|
      ≤ ((1+u)^(3 * n + 2) - 1) * seq (absHodograph thr nodes s) r :=
  ⟨(evalPoint_near ⟨hu, hfl⟩ thr n hn nodes hN hbinE s).bound ⟨hu, hfl⟩ r,
   (hodograph_near ⟨hu, hfl⟩ thr n hn nodes hN hbinH s).bound ⟨hu, hfl⟩ r⟩

/-- **comparator form** (`u ≤ 2⁻⁵³`, `n ≤ 2^30`, at most 16 coordinates): if `den = B'(s)·B'(s)`
    is positive and at least four times its own rounding error, then
    `|ŝ_new − s_new| ≤ 4(3n+12)·u·(|s| + numAbs/den + |num|·denAbs/den²)` -/
theorem newton_step_comparator (fl : F → F) (u : F) (hu : 0 ≤ u) (hfl : ∀ x, |fl x - x| ≤ u * |x|)
    (hu53 : u ≤ 1 / 2^53) (thr n : ℕ) (hn : 1 ≤ n) (hn' : n ≤ 2^30) (nodes : List (List F))
    (hdim : nodes.length ≤ 16) (hN : ∀ row ∈ nodes, row.length = n + 1)
    (hbinE : n + 1 ≤ thr → VSBinomExact fl n) (hbinH : 2 ≤ n → n ≤ thr → VSBinomExact fl (n - 1))
    (point : List F) (hp : point.length = nodes.length) (s : F) (hpos : 0 < newtonDen thr nodes s)
    (hcond : 4 * (((1+u)^(6 * n + 5 + nodes.length) - 1) * newtonDenAbs thr nodes s)
        ≤ newtonDen thr nodes s) :
    |(newtonRefine thr (nodes.map (List.map Fl.mk)) (point.map Fl.mk) (⟨s⟩ : Fl F fl)).val
        - newtonRefine thr nodes point s|
      ≤ (4 * (3 * (n : F) + 12)) * u
          * (|s| + newtonNumAbs thr nodes point s / newtonDen thr nodes s
              + |newtonNum thr nodes point s| * newtonDenAbs thr nodes s
                  / (newtonDen thr nodes s)^2) :=
  newtonRefine_comparator ⟨hu, hfl⟩ hu53 thr n hn hn' nodes hdim hN hbinE hbinH point hp s hpos hcond

/-- the condition on the denominator from a bound on its condition number: `denAbs ≤ 2^24·den`
    and `n ≤ 2^20` suffice in binary64 -/
theorem newton_den_condition (u : F) (hu : 0 ≤ u) (hu53 : u ≤ 1 / 2^53) (n dim : ℕ) (hn : n ≤ 2^20)
    (hdim : dim ≤ 16) (den denAbs : F) (hden : 0 ≤ den) (hc : denAbs ≤ 2^24 * den) (hA : 0 ≤ denAbs) :
    4 * (((1+u)^(6 * n + 5 + dim) - 1) * denAbs) ≤ den := by
  have hk : ((6 * n + 5 + dim : ℕ) : F) * u ≤ 1 / 100 :=
    ku_small u hu hu53 _ (by have : (2:ℕ)^40 = 2^20 * 2^20 := by norm_num
                             omega)
  have h1 := pow_sub_one_le_comparator u hu (6 * n + 5 + dim) hk
  have hkk : ((6 * n + 5 + dim : ℕ) : F) ≤ 2^23 := by
    have : 6 * n + 5 + dim ≤ 2^23 := by
      have : (2:ℕ)^23 = 8 * 2^20 := by norm_num
      omega
    exact_mod_cast this
  have h2 : ((6 * n + 5 + dim : ℕ) : F) * u ≤ 2^23 * (1 / 2^53) :=
    mul_le_mul hkk hu53 hu (by positivity)
  have h3 : (1+u)^(6 * n + 5 + dim) - 1 ≤ 101 / 100 * (2^23 * (1 / 2^53)) := by linarith
  have h0 := pow_sub_one_nonneg u hu (6 * n + 5 + dim)
  have h4 : ((1+u)^(6 * n + 5 + dim) - 1) * denAbs ≤ (101 / 100 * (2^23 * (1 / 2^53))) * (2^24 * den) :=
    mul_le_mul h3 hc hA (by positivity)
  have e : (101 / 100 * ((2:F)^23 * (1 / 2^53))) * (2^24 * den) = 101 / 6400 * den := by
    ring
  rw [e] at h4
  linarith

/-! ### non-vacuity -/

/-- exact arithmetic satisfies every hypothesis (with `m = |den|`, any non-singular step) and the
    rounded run *is* the exact Newton step -/
example (thr n : ℕ) (hn : 1 ≤ n) (nodes : List (List ℚ)) (hN : ∀ row ∈ nodes, row.length = n + 1)
    (point : List ℚ) (hp : point.length = nodes.length) (s : ℚ) (h0 : newtonDen thr nodes s ≠ 0) :
    (newtonRefine thr (nodes.map (List.map Fl.mk)) (point.map Fl.mk) (⟨s⟩ : Fl ℚ id)).val
      = newtonRefine thr nodes point s := by
  have := newton_step_rounding (F := ℚ) id 0 le_rfl (by intro x; simp) thr n hn nodes hN
    (fun _ _ _ => ⟨rfl, rfl⟩) (fun _ _ _ _ => ⟨rfl, rfl⟩) point hp s |newtonDen thr nodes s|
    (abs_pos.mpr h0) (by simp)
  simpa [sub_eq_zero] using this

/-- the inexact arithmetic `flDy` on `ℚ` (`u = 2⁻¹⁰`) on a concrete planar cubic: all hypotheses
    hold together (the margin `m = 8` is checked by kernel evaluation: `den = 7929/256`,
    `denAbs = 9225/256`, `(1+u)^25 − 1 < 1/40`) -/
example :
    |(newtonRefine 55 (([[0, 1, 3, 7], [0, 2, 2, 0]] : List (List ℚ)).map (List.map Fl.mk))
          (([2, 1] : List ℚ).map Fl.mk) (⟨1/4⟩ : Fl ℚ flDy)).val
        - newtonRefine 55 [[0, 1, 3, 7], [0, 2, 2, 0]] [2, 1] (1/4)|
      ≤ ((1 + 1/1024 : ℚ)^(6 * 3 + 8 + 2) - 1)
          * (|(1/4 : ℚ)| + (newtonNumAbs 55 [[0, 1, 3, 7], [0, 2, 2, 0]] [2, 1] (1/4)
              + |newtonNum 55 [[0, 1, 3, 7], [0, 2, 2, 0]] [2, 1] (1/4)|
                  * newtonDenAbs 55 [[0, 1, 3, 7], [0, 2, 2, 0]] (1/4)
                  / |newtonDen 55 [[0, 1, 3, 7], [0, 2, 2, 0]] (1/4)|) / 8) :=
  newton_step_rounding flDy (1/1024) flDy_std.hu flDy_std.hfl 55 3 (by norm_num)
    [[0, 1, 3, 7], [0, 2, 2, 0]] (by intro row hrow; simp at hrow; rcases hrow with rfl | rfl <;> rfl)
    (fun _ => flDy_vsBinomExact _) (fun _ _ => flDy_vsBinomExact _) [2, 1] rfl (1/4) 8
    (by norm_num) (by decide +kernel)

/-- … and the rounded step really differs from the exact one there (`2095/5286`) -/
example :
    (newtonRefine 55 (([[0, 1, 3, 7], [0, 2, 2, 0]] : List (List ℚ)).map (List.map Fl.mk))
        (([2, 1] : List ℚ).map Fl.mk) (⟨1/4⟩ : Fl ℚ flDy)).val
      ≠ newtonRefine 55 [[0, 1, 3, 7], [0, 2, 2, 0]] [2, 1] (1/4) := by decide +kernel

end BezierVerif.C10
