import BezierVerif.Lemmas.LocateTri
import Mathlib.Algebra.Order.Field.Rat
import Mathlib.Algebra.Order.Ring.Rat

/-!
# C10 (triangle part) — `locate_point` for triangles: a point of the surface is never filtered
out, a point outside the control-point box yields `None`, the `(3·centroid, width)` bookkeeping
encodes the sub-triangle whose restriction the candidate's nodes are, the estimate handed to Newton
lies in the open reference triangle, and the Newton step(s) leave an exact pre-image where it is

Property theorems only; exact arithmetic over an ordered field.  `Py.locatePointTri subdiv thr
rounds epsSq d nodes x y` / `F90.locatePointTri subdiv realBinom thr rounds epsSq d nodes x y` are
the models of `locate_point` of `triangle_intersection.py` / `.f90` (`Model/LocateTri.lean`);
`subdiv` is `Py.triSubdivideNodes tables subWeights d` resp. `F90.triSubdivideNodes forms
subWeights d`, where the hypothesis `tables/forms d qt = triSubdivMat subWeights d qt` for degree
1–4 is what `Tables/C09a`, `Tables/C09b` decide on the extracted data.

A candidate `c = (cx, cy, width, nodes)` stands for the affine image of the reference triangle under

    (σ, τ) ↦ ((cx − width)/3 + width·σ, (cy − width)/3 + width·τ)

(vertices at `(σ,τ) = (0,0), (1,0), (0,1)`; their mean is `(cx/3, cy/3)`); `width < 0` is the middle
quarter, turned by a half turn.
-/

set_option linter.unusedSectionVars false
set_option linter.unusedVariables false

namespace BezierVerif.C10

open Model BezierVerif BezierVerif.Tri

variable {K : Type} [Field K] [LinearOrder K] [IsStrictOrderedRing K]

/-- the root candidate of the search -/
abbrev triRoot (nodes : List (List K)) : TriCand K := { cx := 1, cy := 1, width := 1, nodes := nodes }

/-! ### the convex-hull property and the box test (triangle analogue of `C01.in_box`, `contains_safe`) -/

/-- weights in the simplex: the value of `evaluate_barycentric` lies between any bounds of the
    control values -/
theorem tri_in_box (thr d : ℕ) (row : List K) (h : row.length = numNodes d) (w : Bary K) (lo hi : K)
    (h1 : 0 ≤ w.l1) (h2 : 0 ≤ w.l2) (h3 : 0 ≤ w.l3) (hs : w.l1 + w.l2 + w.l3 = 1)
    (hlo : ∀ x ∈ row, lo ≤ x) (hhi : ∀ x ∈ row, x ≤ hi) :
    lo ≤ Py.evalBarycentricRow thr d row w ∧ Py.evalBarycentricRow thr d row w ≤ hi := by
  rw [C05.eval_eq_bernstein thr d row h w]
  exact LocateTri.triBern_bounds d row h _ _ _ lo hi h1 h2 h3 hs hlo hhi

/-- a point of the surface over the closed reference triangle is inside the closed control-point
    box: in exact arithmetic the filter never rejects it -/
theorem tri_contains_safe (thr d : ℕ) (nodes : List (List K)) (h : ∀ row ∈ nodes, row.length = numNodes d)
    (s t : K) (hst : 0 ≤ s ∧ 0 ≤ t ∧ s + t ≤ 1) :
    containsND nodes (Py.evalBarycentric thr d nodes (cartesian s t)) = true := by
  rw [LocateTri.evalBarycentric_eq_surf thr d nodes h]
  exact LocateTri.containsND_surf d nodes h s t hst

/-! ### the two candidate loops -/

/-- the Fortran loop (two alternating buffers, early return when a round leaves no candidate)
    computes what the Python loop computes: any subdivision routine, any point, any candidates -/
theorem tri_rounds_f90_eq_py (subdiv : List (List K) → Except Err (TriFour K)) (point : List K)
    (r : ℕ) (cands : List (TriCand K)) :
    F90.triLocateRounds subdiv point r cands = Py.triLocateRounds subdiv point r cands :=
  LocateTri.f90_rounds_eq_py subdiv point r cands

/-! ### `None` -/

/-- `None` is returned exactly when no candidate survives the rounds -/
theorem tri_miss_iff (subdiv : List (List K) → Except Err (TriFour K)) (thr rounds : ℕ) (epsSq : K)
    (d : ℕ) (nodes : List (List K)) (x y : K) :
    Py.locatePointTri subdiv thr rounds epsSq d nodes x y = .ok none ↔
      Py.triLocateRounds subdiv [x, y] rounds [triRoot nodes] = .ok [] := by
  unfold Py.locatePointTri
  cases hr : Py.triLocateRounds subdiv [x, y] rounds [triRoot nodes] with
  | error e => simp
  | ok cands =>
    simp only [LocateTri.finish_none_iff, Except.ok.injEq]

theorem tri_miss_iff_f90 (subdiv : List (List K) → Except Err (TriFour K)) (realBinom : Bool)
    (thr rounds : ℕ) (epsSq : K) (d : ℕ) (nodes : List (List K)) (x y : K) :
    F90.locatePointTri subdiv realBinom thr rounds epsSq d nodes x y = .ok none ↔
      Py.triLocateRounds subdiv [x, y] rounds [triRoot nodes] = .ok [] := by
  unfold F90.locatePointTri
  rw [tri_rounds_f90_eq_py]
  cases hr : Py.triLocateRounds subdiv [x, y] rounds [triRoot nodes] with
  | error e => simp
  | ok cands =>
    simp only [LocateTri.finish_none_iff, Except.ok.injEq]

/-- a point outside the control-point box of the triangle yields `None` (no subdivision is
    performed: any routine) -/
theorem tri_off_box_none (subdiv : List (List K) → Except Err (TriFour K)) (thr rounds : ℕ) (epsSq : K)
    (d : ℕ) (nodes : List (List K)) (x y : K) (hr : 1 ≤ rounds)
    (h : containsND nodes [x, y] = false) :
    Py.locatePointTri subdiv thr rounds epsSq d nodes x y = .ok none := by
  rw [tri_miss_iff]
  obtain ⟨r, rfl⟩ : ∃ r, rounds = r + 1 := ⟨rounds - 1, by omega⟩
  simp only [Py.triLocateRounds, triLocateRound, triRoot, h, Bool.false_eq_true, if_false]
  exact LocateTri.py_rounds_nil subdiv [x, y] r

theorem tri_off_box_none_f90 (subdiv : List (List K) → Except Err (TriFour K)) (realBinom : Bool)
    (thr rounds : ℕ) (epsSq : K) (d : ℕ) (nodes : List (List K)) (x y : K) (hr : 1 ≤ rounds)
    (h : containsND nodes [x, y] = false) :
    F90.locatePointTri subdiv realBinom thr rounds epsSq d nodes x y = .ok none := by
  rw [tri_miss_iff_f90]
  obtain ⟨r, rfl⟩ : ∃ r, rounds = r + 1 := ⟨rounds - 1, by omega⟩
  simp only [Py.triLocateRounds, triLocateRound, triRoot, h, Bool.false_eq_true, if_false]
  exact LocateTri.py_rounds_nil subdiv [x, y] r

/-! ### the bookkeeping of `update_locate_candidates` / `split_candidate` -/

/-- the four tuples, spelled out (`half_width = 0.5 * width`; B carries `-half_width`) -/
theorem tri_split_tuples (c : TriCand K) (four : TriFour K) :
    triSplitCand c four =
      [⟨c.cx - 1/2 * c.width, c.cy - 1/2 * c.width, 1/2 * c.width, four.a⟩,
       ⟨c.cx, c.cy, -(1/2 * c.width), four.b⟩,
       ⟨c.cx + c.width, c.cy - 1/2 * c.width, 1/2 * c.width, four.c⟩,
       ⟨c.cx - 1/2 * c.width, c.cy + c.width, 1/2 * c.width, four.d⟩] := by
  unfold triSplitCand
  simp only [LocateTri.half_eq]

/-- **the affine maps compose as the subdivision does**: with `φ_c(σ,τ) = ((cx−w)/3 + wσ,
    (cy−w)/3 + wτ)`, the tuples of the children satisfy `φ_A(σ,τ) = φ_c(σ/2, τ/2)`,
    `φ_B(σ,τ) = φ_c((1−σ)/2, (1−τ)/2)` (negative width), `φ_C(σ,τ) = φ_c((1+σ)/2, τ/2)`,
    `φ_D(σ,τ) = φ_c(σ/2, (1+τ)/2)` – for either sign of `w` -/
theorem tri_split_affine (cx cy w σ τ : K) :
    -- A = (cx − w/2, cy − w/2, w/2)
    (((cx - 1/2 * w) - 1/2 * w) / 3 + 1/2 * w * σ = (cx - w) / 3 + w * (σ / 2) ∧
     ((cy - 1/2 * w) - 1/2 * w) / 3 + 1/2 * w * τ = (cy - w) / 3 + w * (τ / 2)) ∧
    -- B = (cx, cy, −w/2)
    ((cx - -(1/2 * w)) / 3 + -(1/2 * w) * σ = (cx - w) / 3 + w * ((1 - σ) / 2) ∧
     (cy - -(1/2 * w)) / 3 + -(1/2 * w) * τ = (cy - w) / 3 + w * ((1 - τ) / 2)) ∧
    -- C = (cx + w, cy − w/2, w/2)
    (((cx + w) - 1/2 * w) / 3 + 1/2 * w * σ = (cx - w) / 3 + w * ((1 + σ) / 2) ∧
     ((cy - 1/2 * w) - 1/2 * w) / 3 + 1/2 * w * τ = (cy - w) / 3 + w * (τ / 2)) ∧
    -- D = (cx − w/2, cy + w, w/2)
    (((cx - 1/2 * w) - 1/2 * w) / 3 + 1/2 * w * σ = (cx - w) / 3 + w * (σ / 2) ∧
     ((cy + w) - 1/2 * w) / 3 + 1/2 * w * τ = (cy - w) / 3 + w * ((1 + τ) / 2)) := by
  refine ⟨⟨?_, ?_⟩, ⟨?_, ?_⟩, ⟨?_, ?_⟩, ⟨?_, ?_⟩⟩ <;> ring

/-- what is known about every candidate after `r` rounds -/
structure TriCandSpec (thr d : ℕ) (nodes : List (List K)) (r : ℕ) (c : TriCand K) : Prop where
  /-- the nodes are a full net of the same degree -/
  rows : ∀ row ∈ c.nodes, row.length = numNodes d
  /-- `|width| = 2^-r` -/
  width : c.width = (1/2)^r ∨ c.width = -(1/2)^r
  /-- the three vertices `φ_c(0,0), φ_c(1,0), φ_c(0,1)` lie in the closed reference triangle -/
  v0 : 0 ≤ (c.cx - c.width)/3 ∧ 0 ≤ (c.cy - c.width)/3 ∧ (c.cx - c.width)/3 + (c.cy - c.width)/3 ≤ 1
  v1 : 0 ≤ (c.cx - c.width)/3 + c.width ∧ (c.cx - c.width)/3 + c.width + (c.cy - c.width)/3 ≤ 1
  v2 : 0 ≤ (c.cy - c.width)/3 + c.width ∧ (c.cx - c.width)/3 + ((c.cy - c.width)/3 + c.width) ≤ 1
  /-- the tripled centroid lies strictly inside the tripled reference triangle -/
  centroid : 0 < c.cx ∧ 0 < c.cy ∧ c.cx + c.cy < 3
  /-- the nodes are the restriction of the ORIGINAL surface to the sub-triangle `φ_c` -/
  restriction : ∀ σ τ : K, Py.evalBarycentric thr d c.nodes (cartesian σ τ)
      = Py.evalBarycentric thr d nodes
          (cartesian ((c.cx - c.width)/3 + c.width * σ) ((c.cy - c.width)/3 + c.width * τ))

/-- **bookkeeping by induction over the rounds**: for any subdivision routine with the quartering
    property, any point: the loop succeeds and every candidate satisfies `TriCandSpec` -/
theorem tri_round_bookkeeping_gen (thr d : ℕ) (subdiv : List (List K) → Except Err (TriFour K))
    (hq : LocateTri.Quartering d subdiv) (nodes : List (List K))
    (h : ∀ row ∈ nodes, row.length = numNodes d) (point : List K) (r : ℕ) :
    ∃ out, Py.triLocateRounds subdiv point r [triRoot nodes] = .ok out ∧
      ∀ c ∈ out, TriCandSpec thr d nodes r c := by
  obtain ⟨out, hout, hG, -⟩ := LocateTri.rounds_spec d subdiv hq nodes h point r
  refine ⟨out, hout, fun c hc' => ?_⟩
  have hc := hG c hc'
  obtain ⟨⟨a1, a2, a3⟩, ⟨b1, b2, b3⟩, ⟨c1, c2, c3⟩⟩ := hc.verts
  simp only [LocateTri.candS, LocateTri.candT, mul_zero, add_zero, mul_one] at a1 a2 a3 b1 b2 b3 c1 c2 c3
  refine ⟨hc.piece.rows, hc.width, ⟨a1, a2, a3⟩, ⟨b1, b3⟩, ⟨c2, c3⟩, LocateTri.good_centroid d nodes r c hc, ?_⟩
  intro σ τ
  rw [LocateTri.evalBarycentric_eq_surf thr d c.nodes hc.piece.rows,
    LocateTri.evalBarycentric_eq_surf thr d nodes h]
  exact hc.piece.repar σ τ

/-- Python routine (`subdivide_nodes` with its tables; degree ≥ 1) -/
theorem tri_round_bookkeeping (thr d : ℕ) (hd : 1 ≤ d) (tables : ℕ → Quarter → List (List K))
    (ht : ∀ d qt, 1 ≤ d → d ≤ 4 → tables d qt = triSubdivMat subWeights d qt) (nodes : List (List K))
    (h : ∀ row ∈ nodes, row.length = numNodes d) (point : List K) (r : ℕ) :
    ∃ out, Py.triLocateRounds (Py.triSubdivideNodes tables subWeights d) point r [triRoot nodes] = .ok out ∧
      ∀ c ∈ out, TriCandSpec thr d nodes r c :=
  tri_round_bookkeeping_gen thr d _ (LocateTri.quartering_py tables ht d hd) nodes h point r

/-- Fortran routine (closed forms; early-return loop) -/
theorem tri_round_bookkeeping_f90 (thr d : ℕ) (forms : ℕ → Quarter → List (List K))
    (hf : ∀ d qt, 1 ≤ d → d ≤ 4 → forms d qt = triSubdivMat subWeights d qt) (nodes : List (List K))
    (h : ∀ row ∈ nodes, row.length = numNodes d) (point : List K) (r : ℕ) :
    ∃ out, F90.triLocateRounds (F90.triSubdivideNodes forms subWeights d) point r [triRoot nodes] = .ok out ∧
      ∀ c ∈ out, TriCandSpec thr d nodes r c := by
  rw [tri_rounds_f90_eq_py]
  exact tri_round_bookkeeping_gen thr d _ (LocateTri.quartering_f90 forms hf d) nodes h point r

/-! ### completeness of the filter (exact arithmetic) -/

/-- locating `B(s,t)`, `(s,t)` in the closed reference triangle: after every round there is a
    candidate whose sub-triangle contains `(s,t)` (local parameters `(σ,τ)` in the closed reference
    triangle with `φ_c(σ,τ) = (s,t)`) and whose nodes are the restriction of the original surface -/
theorem tri_filter_complete_gen (thr d : ℕ) (subdiv : List (List K) → Except Err (TriFour K))
    (hq : LocateTri.Quartering d subdiv) (nodes : List (List K))
    (h : ∀ row ∈ nodes, row.length = numNodes d) (s t : K) (hst : 0 ≤ s ∧ 0 ≤ t ∧ s + t ≤ 1) (r : ℕ) :
    ∃ out, Py.triLocateRounds subdiv (Py.evalBarycentric thr d nodes (cartesian s t)) r [triRoot nodes] = .ok out ∧
      ∃ c ∈ out, TriCandSpec thr d nodes r c ∧
        ∃ σ τ : K, (0 ≤ σ ∧ 0 ≤ τ ∧ σ + τ ≤ 1) ∧
          (c.cx - c.width)/3 + c.width * σ = s ∧ (c.cy - c.width)/3 + c.width * τ = t := by
  obtain ⟨out, hout, hG, hH⟩ := LocateTri.rounds_spec d subdiv hq nodes h
    (Py.evalBarycentric thr d nodes (cartesian s t)) r
  obtain ⟨c, hc, σ, τ, hστ, hs, ht⟩ := hH s t hst (LocateTri.evalBarycentric_eq_surf thr d nodes h s t)
  obtain ⟨out', hout', hspec⟩ := tri_round_bookkeeping_gen thr d subdiv hq nodes h
    (Py.evalBarycentric thr d nodes (cartesian s t)) r
  rw [hout] at hout'
  cases hout'
  exact ⟨out, hout, c, hc, hspec c hc, σ, τ, hστ, hs, ht⟩

theorem tri_filter_complete (thr d : ℕ) (hd : 1 ≤ d) (tables : ℕ → Quarter → List (List K))
    (ht : ∀ d qt, 1 ≤ d → d ≤ 4 → tables d qt = triSubdivMat subWeights d qt) (nodes : List (List K))
    (h : ∀ row ∈ nodes, row.length = numNodes d) (s t : K) (hst : 0 ≤ s ∧ 0 ≤ t ∧ s + t ≤ 1) (r : ℕ) :
    ∃ out, Py.triLocateRounds (Py.triSubdivideNodes tables subWeights d)
        (Py.evalBarycentric thr d nodes (cartesian s t)) r [triRoot nodes] = .ok out ∧
      ∃ c ∈ out, TriCandSpec thr d nodes r c ∧
        ∃ σ τ : K, (0 ≤ σ ∧ 0 ≤ τ ∧ σ + τ ≤ 1) ∧
          (c.cx - c.width)/3 + c.width * σ = s ∧ (c.cy - c.width)/3 + c.width * τ = t :=
  tri_filter_complete_gen thr d _ (LocateTri.quartering_py tables ht d hd) nodes h s t hst r

theorem tri_filter_complete_f90 (thr d : ℕ) (forms : ℕ → Quarter → List (List K))
    (hf : ∀ d qt, 1 ≤ d → d ≤ 4 → forms d qt = triSubdivMat subWeights d qt) (nodes : List (List K))
    (h : ∀ row ∈ nodes, row.length = numNodes d) (s t : K) (hst : 0 ≤ s ∧ 0 ≤ t ∧ s + t ≤ 1) (r : ℕ) :
    ∃ out, F90.triLocateRounds (F90.triSubdivideNodes forms subWeights d)
        (Py.evalBarycentric thr d nodes (cartesian s t)) r [triRoot nodes] = .ok out ∧
      ∃ c ∈ out, TriCandSpec thr d nodes r c ∧
        ∃ σ τ : K, (0 ≤ σ ∧ 0 ≤ τ ∧ σ + τ ≤ 1) ∧
          (c.cx - c.width)/3 + c.width * σ = s ∧ (c.cy - c.width)/3 + c.width * τ = t := by
  rw [tri_rounds_f90_eq_py]
  exact tri_filter_complete_gen thr d _ (LocateTri.quartering_f90 forms hf d) nodes h s t hst r

/-- hence a point of the surface is never reported as "not on the triangle"
    (`[x, y]` is the exact value `B(s,t)`; planar triangle) -/
theorem tri_on_surface_not_miss (thr rounds : ℕ) (epsSq : K) (d : ℕ) (hd : 1 ≤ d)
    (tables : ℕ → Quarter → List (List K))
    (ht : ∀ d qt, 1 ≤ d → d ≤ 4 → tables d qt = triSubdivMat subWeights d qt) (nodes : List (List K))
    (h : ∀ row ∈ nodes, row.length = numNodes d) (s t : K) (hst : 0 ≤ s ∧ 0 ≤ t ∧ s + t ≤ 1) (x y : K)
    (hxy : Py.evalBarycentric thr d nodes (cartesian s t) = [x, y]) :
    Py.locatePointTri (Py.triSubdivideNodes tables subWeights d) thr rounds epsSq d nodes x y ≠ .ok none := by
  intro hm
  rw [tri_miss_iff] at hm
  obtain ⟨out, hout, c, hc, -⟩ := tri_filter_complete thr d hd tables ht nodes h s t hst rounds
  rw [hxy, hm] at hout
  cases hout
  simp at hc

theorem tri_on_surface_not_miss_f90 (realBinom : Bool) (thr rounds : ℕ) (epsSq : K) (d : ℕ)
    (forms : ℕ → Quarter → List (List K))
    (hf : ∀ d qt, 1 ≤ d → d ≤ 4 → forms d qt = triSubdivMat subWeights d qt) (nodes : List (List K))
    (h : ∀ row ∈ nodes, row.length = numNodes d) (s t : K) (hst : 0 ≤ s ∧ 0 ≤ t ∧ s + t ≤ 1) (x y : K)
    (hxy : Py.evalBarycentric thr d nodes (cartesian s t) = [x, y]) :
    F90.locatePointTri (F90.triSubdivideNodes forms subWeights d) realBinom thr rounds epsSq d nodes x y
      ≠ .ok none := by
  intro hm
  rw [tri_miss_iff_f90] at hm
  obtain ⟨out, hout, c, hc, -⟩ := tri_filter_complete_f90 thr d forms hf nodes h s t hst rounds
  rw [tri_rounds_f90_eq_py, hxy, hm] at hout
  cases hout
  simp at hc

/-! ### what a returned pair is (the code does not clamp) -/

/-- **the estimate handed to the Newton step lies in the open reference triangle**: the mean of
    the centroids of the surviving candidates, for any point -/
theorem tri_estimate_in_domain (thr d : ℕ) (subdiv : List (List K) → Except Err (TriFour K))
    (hq : LocateTri.Quartering d subdiv) (nodes : List (List K))
    (h : ∀ row ∈ nodes, row.length = numNodes d) (point : List K) (r : ℕ) (cands : List (TriCand K))
    (hc : Py.triLocateRounds subdiv point r [triRoot nodes] = .ok cands) (hne : cands ≠ []) :
    0 < (triMeanCentroid cands).1 ∧ 0 < (triMeanCentroid cands).2 ∧
      (triMeanCentroid cands).1 + (triMeanCentroid cands).2 < 1 := by
  obtain ⟨out, hout, hG, -⟩ := LocateTri.rounds_spec d subdiv hq nodes h point r
  rw [hc] at hout
  cases hout
  exact LocateTri.mean_in_ref d nodes r cands hne hG

/-- a returned pair is ONE Newton step (if the refined point is `vector_close` to the target) or
    TWO Newton steps from an estimate in the open reference triangle; nothing else is guaranteed
    about its position (see the decided example at the end: it can lie outside the closed
    reference triangle) -/
theorem tri_found_form (thr rounds : ℕ) (epsSq : K) (d : ℕ) (hd : 1 ≤ d)
    (tables : ℕ → Quarter → List (List K))
    (ht : ∀ d qt, 1 ≤ d → d ≤ 4 → tables d qt = triSubdivMat subWeights d qt) (nodes : List (List K))
    (h : ∀ row ∈ nodes, row.length = numNodes d) (x y : K) (st : K × K)
    (hf : Py.locatePointTri (Py.triSubdivideNodes tables subWeights d) thr rounds epsSq d nodes x y
      = .ok (some st)) :
    ∃ s0 t0 : K, (0 < s0 ∧ 0 < t0 ∧ s0 + t0 < 1) ∧
      ∃ st1, newtonRefineTriE (fun d n w => Py.evalBarycentric thr d n w) d nodes x y s0 t0 = .ok st1 ∧
        (st = st1 ∨
          newtonRefineTriE (fun d n w => Py.evalBarycentric thr d n w) d nodes x y st1.1 st1.2 = .ok st) := by
  unfold Py.locatePointTri at hf
  cases hr : Py.triLocateRounds (Py.triSubdivideNodes tables subWeights d) [x, y] rounds [triRoot nodes] with
  | error e => simp only [triRoot] at hr; rw [hr] at hf; cases hf
  | ok cands =>
    have hr' := hr
    simp only [triRoot] at hr
    rw [hr] at hf
    obtain ⟨hne, st1, h1, h2⟩ := LocateTri.finish_some _ _ d nodes x y cands st hf
    refine ⟨_, _, tri_estimate_in_domain thr d _ (LocateTri.quartering_py tables ht d hd) nodes h [x, y]
      rounds cands hr' hne, st1, h1, ?_⟩
    rcases h2 with ⟨-, h2⟩ | ⟨-, h2⟩
    · exact Or.inl h2
    · exact Or.inr h2

/-! ### Newton -/

/-- with a regular Jacobian the step of `locate_point` is the step of Props/C11
    (`newton_triangle_step`: THE solution of the linearised system) -/
theorem tri_newton_is_c11 (thr d : ℕ) (nodes : List (List K)) (x y s t : K)
    (h : (let jb := Py.evalBarycentric thr (d - 1) (jacobianBoth d nodes) (cartesian s t)
       seq jb 0 * seq jb 3 - seq jb 1 * seq jb 2 ≠ 0)) :
    newtonRefineTriE (fun d n w => Py.evalBarycentric thr d n w) d nodes x y s t
      = .ok (newtonRefineTriangle thr d nodes x y s t) :=
  LocateTri.newtonRefineTriE_eq thr d nodes x y s t (Or.inr h)

/-- **an exact pre-image is a fixed point of the Newton step** (whatever the Jacobian): from
    `C11.newton_triangle_noop` -/
theorem tri_newton_fixed (thr d : ℕ) (xs ys : List K) (hx : xs.length = numNodes d)
    (hy : ys.length = numNodes d) (s t : K) :
    newtonRefineTriE (fun d n w => Py.evalBarycentric thr d n w) d [xs, ys]
      (MvPolynomial.eval ![s, t] (TriD.surfPoly d xs)) (MvPolynomial.eval ![s, t] (TriD.surfPoly d ys)) s t
      = .ok (s, t) := by
  rw [LocateTri.newtonRefineTriE_eq thr d [xs, ys] _ _ s t (Or.inl ?_),
    C11.newton_triangle_noop thr d xs ys hx hy _ _ s t rfl rfl]
  simp only [Py.evalBarycentric, List.map_cons, List.map_nil, seq, List.getD_cons_zero,
    List.getD_cons_succ]
  exact ⟨(TriD.eval_surfPoly_eq_model thr d xs hx s t).symm, (TriD.eval_surfPoly_eq_model thr d ys hy s t).symm⟩

/-- the same in terms of the evaluation routine -/
theorem tri_newton_fixed' (thr d : ℕ) (nodes : List (List K)) (x y s t : K)
    (h : Py.evalBarycentric thr d nodes (cartesian s t) = [x, y]) :
    newtonRefineTriE (fun d n w => Py.evalBarycentric thr d n w) d nodes x y s t = .ok (s, t) :=
  LocateTri.newtonRefineTriE_fixed _ d nodes x y s t h

/-- the round trip `locate(B(s,t)) = (s,t)` in the case where the mean of the centroids is the exact
    pre-image (e.g. interior vertices of the level-`rounds` lattice, see the examples): `locate_point`
    returns exactly it (both Newton calls are no-ops, whatever `vector_close` decides).

    FULL: for a valid triangle (`B` injective on the closed reference triangle, Jacobian determinant
    bounded away from zero) and every `(s,t)` in the closed reference triangle,
    `locatePointTri … (B(s,t)) = .ok (some (s', t'))` with `|s' − s|, |t' − t| ≤ C·(2^-rounds)^4`
    (two Newton steps from an estimate within `2^-rounds·const` of `(s,t)`), `C` depending on the
    second derivatives and the Jacobian bound.  Proved instead: the filter keeps a candidate containing
    `(s,t)` (`tri_filter_complete`), the answer is not `None` (`tri_on_surface_not_miss`), it is one or
    two exact Newton steps (`tri_found_form`, `tri_newton_is_c11` + `C11.newton_triangle_step`) from
    an estimate in the open reference triangle, and the exact pre-image is a fixed point
    (`tri_newton_fixed`).  The accuracy of the estimate needs injectivity (all surviving candidates near
    `(s,t)`; the triangle code has no spread test like the curve code) and is validated numerically by
    `harness/props/c10t.py`. -/
theorem tri_roundtrip_partial (subdiv : List (List K) → Except Err (TriFour K)) (thr rounds : ℕ) (epsSq : K)
    (d : ℕ) (nodes : List (List K)) (x y s t : K) (cands : List (TriCand K))
    (hr : Py.triLocateRounds subdiv [x, y] rounds [triRoot nodes] = .ok cands) (hne : cands ≠ [])
    (hm : triMeanCentroid cands = (s, t)) (h : Py.evalBarycentric thr d nodes (cartesian s t) = [x, y]) :
    Py.locatePointTri subdiv thr rounds epsSq d nodes x y = .ok (some (s, t)) := by
  unfold Py.locatePointTri
  simp only [triRoot] at hr
  rw [hr]
  exact LocateTri.finish_fixed _ _ d nodes x y s t cands hne hm h

/-! ### the two implementations return the same -/

/-- same subdivision results ⇒ same answer: the candidate loops agree, `vector_close` is symmetric,
    and the Fortran evaluation (running binomial `real(c_double)`: every degree; `integer(c_int)`:
    degree ≤ 29) is the Python evaluation -/
theorem tri_variants_agree (subdiv : List (List K) → Except Err (TriFour K)) (realBinom : Bool)
    (thr rounds : ℕ) (epsSq : K) (d : ℕ) (hd : 1 ≤ d) (nodes : List (List K))
    (h : realBinom = true ∨ (d ≤ 29 ∧ ∀ row ∈ nodes, row.length = numNodes d)) (x y : K) :
    F90.locatePointTri subdiv realBinom thr rounds epsSq d nodes x y
      = Py.locatePointTri subdiv thr rounds epsSq d nodes x y := by
  unfold F90.locatePointTri Py.locatePointTri
  rw [tri_rounds_f90_eq_py]
  cases Py.triLocateRounds subdiv [x, y] rounds [{ cx := 1, cy := 1, width := 1, nodes := nodes }] with
  | error e => rfl
  | ok cands =>
    simp only
    apply LocateTri.triLocateFinish_congr
    · intro w
      exact LocateTri.evalKind_eq_py realBinom thr d nodes h w
    · intro w
      apply LocateTri.evalKind_eq_py realBinom thr (d - 1) (jacobianBoth d nodes)
      rcases h with h | ⟨h1, -⟩
      · exact Or.inl h
      · exact Or.inr ⟨by omega, LocateTri.jacobianBoth_rows d hd nodes⟩
    · intro v
      exact LocateTri.vectorCloseSq_comm _ _ _

/-! ### non-vacuity: concrete triangles over ℚ, the library's constants
(`thr = 55`, `rounds = MAX_LOCATE_SUBDIVISIONS + 1 = 21`, `epsSq = LOCATE_EPS² = 2^-94`); the
subdivision routine is the generic path (`LocateTri.genericFour`: what both `subdivide_nodes`
return by `LocateTri.quartering_py/_f90`) so that the kernel does not re-derive the matrices -/

/-- the bookkeeping after two rounds, locating `(1/4, 1/4)` on the unit triangle: the children of
    A = `(1/2, 1/2, 1/2)` and of the middle triangle B = `(1, 1, -1/2)` (negative widths flip again) -/
example : (match Py.triLocateRounds (fun nodes => .ok (LocateTri.genericFour 1 nodes)) [1/4, 1/4] 2
      [triRoot ([[0, 1, 0], [0, 0, 1]] : List (List ℚ))] with
    | .ok cands => cands.map (fun c => (c.cx, c.cy, c.width)) | _ => [])
    = [(1/4, 1/4, 1/4), (1/2, 1/2, -1/4), (1, 1/4, 1/4), (1/4, 1, 1/4),
       (5/4, 5/4, -1/4), (1, 1, 1/4), (1/2, 5/4, -1/4), (5/4, 1/2, -1/4)] := by decide +kernel

/-- an affine triangle: `B(1/2, 1/4) = (5/4, 5/4)` is located at exactly `(1/2, 1/4)` after the full
    21 rounds (the mean of the centroids around a lattice vertex is the vertex) -/
example : (match F90.locatePointTri (fun nodes => .ok (LocateTri.genericFour 1 nodes)) true 55 21 (1/2^94) 1
    ([[0, 2, 1], [0, 1, 3]] : List (List ℚ)) (5/4) (5/4) with
    | .ok (some st) => decide (st = (1/2, 1/4)) | _ => false) = true := by decide +kernel

/-- a curved quadratic (bottom edge `y = -s(1-s)`), the point `(1/2 + 2^-21, y_edge - 2^-44)` just
    BELOW the bottom edge but inside the box of a level-20 sub-triangle: it survives all 21 rounds and
    the Newton steps return the pre-image under the polynomial map, with `t = -2^-44/1.5 < 0`:
    **the returned pair can lie outside the closed reference triangle** (no clamp in the code) -/
example : (match Py.locatePointTri (fun nodes => .ok (LocateTri.genericFour 2 nodes)) 55 21 (1/2^94) 2
    ([[0, 1/2, 1, 0, 1/2, 0], [0, -1/2, 0, 1/2, 1/2, 1]] : List (List ℚ))
    (1048577/2097152) (-4398046511101/17592186044416) with
    | .ok (some st) => decide (st = (1048577/2097152, -1/26388287455232)) | _ => false) = true := by
  decide +kernel

/-- the same quadratic, `B(1/4, 1/2) = (1/4, 7/16)`, 8 rounds: located exactly -/
example : Py.evalBarycentric 55 2 ([[0, 1/2, 1, 0, 1/2, 0], [0, -1/2, 0, 1/2, 1/2, 1]] : List (List ℚ))
    (cartesian (1/4) (1/2)) = [1/4, 7/16] := by decide +kernel

example : (match Py.locatePointTri (fun nodes => .ok (LocateTri.genericFour 2 nodes)) 55 8 (1/2^94) 2
    ([[0, 1/2, 1, 0, 1/2, 0], [0, -1/2, 0, 1/2, 1/2, 1]] : List (List ℚ)) (1/4) (7/16) with
    | .ok (some st) => decide (st = (1/4, 1/2)) | _ => false) = true := by decide +kernel

/-- the hypotheses of `tri_filter_complete` / `tri_on_surface_not_miss` are satisfiable (tables =
    model-derived matrices; a non-dyadic parameter) -/
example : F90.locatePointTri
    (F90.triSubdivideNodes (fun d qt => triSubdivMat subWeights d qt) subWeights 2) true 55 21 (1/2^94) 2
    ([[0, 1/2, 1, 0, 1/2, 0], [0, -1/2, 0, 1/2, 1/2, 1]] : List (List ℚ)) (1/3) (2/45) ≠ .ok none :=
  tri_on_surface_not_miss_f90 true 55 21 _ 2 _ (fun _ _ _ _ => rfl) _ (by decide) (1/3) (1/5)
    (by norm_num) _ _ (by decide +kernel)

example : Py.locatePointTri
    (Py.triSubdivideNodes (fun d qt => triSubdivMat subWeights d qt) subWeights 2) 55 21 (1/2^94) 2
    ([[0, 1/2, 1, 0, 1/2, 0], [0, -1/2, 0, 1/2, 1/2, 1]] : List (List ℚ)) (1/3) (2/45) ≠ .ok none :=
  tri_on_surface_not_miss 55 21 _ 2 (by norm_num) _ (fun _ _ _ _ => rfl) _ (by decide) (1/3) (1/5)
    (by norm_num) _ _ (by decide +kernel)

/-- a point outside the control-point box: `None`, by the theorem and by evaluation -/
example : F90.locatePointTri
    (F90.triSubdivideNodes (fun d qt => triSubdivMat subWeights d qt) subWeights 2) false 55 21 (1/2^94) 2
    ([[0, 1/2, 1, 0, 1/2, 0], [0, -1/2, 0, 1/2, 1/2, 1]] : List (List ℚ)) 2 (1/2) = .ok none :=
  tri_off_box_none_f90 _ false 55 21 _ 2 _ 2 (1/2) (by decide) (by decide +kernel)

example : (match Py.locatePointTri (fun nodes => .ok (LocateTri.genericFour 2 nodes)) 55 21 (1/2^94) 2
    ([[0, 1/2, 1, 0, 1/2, 0], [0, -1/2, 0, 1/2, 1/2, 1]] : List (List ℚ)) 2 (1/2) with
    | .ok none => true | _ => false) = true := by decide +kernel

/-- a point inside the box but off the surface is dropped in a later round -/
example : containsND ([[0, 1/2, 1, 0, 1/2, 0], [0, -1/2, 0, 1/2, 1/2, 1]] : List (List ℚ)) [7/8, 7/8] = true := by
  decide +kernel

example : (match Py.locatePointTri (fun nodes => .ok (LocateTri.genericFour 2 nodes)) 55 21 (1/2^94) 2
    ([[0, 1/2, 1, 0, 1/2, 0], [0, -1/2, 0, 1/2, 1/2, 1]] : List (List ℚ)) (7/8) (7/8) with
    | .ok none => true | _ => false) = true := by decide +kernel

/-- Python: degree 0 is the `KeyError` of `specialize_triangle` (the box of the single node contains
    the node itself, so the subdivision is reached) -/
example : (match Py.locatePointTri (Py.triSubdivideNodes (fun d qt => triSubdivMat subWeights d qt) subWeights 0)
    55 21 (1/2^94) 0 ([[1], [2]] : List (List ℚ)) 1 2 with
    | .error .badInput => true | _ => false) = true := by decide +kernel

/-- a singular Newton system (all nodes equal: zero Jacobian, a point that is not the node is
    rejected; the node itself is found by the early exit of `newton_refine`; a constant `x` row
    with the target off by the residual test gives the division by zero) -/
example : (match newtonRefineTriE (fun d n w => Py.evalBarycentric 55 d n w) 1
    ([[0, 0, 0], [0, 1, 2]] : List (List ℚ)) 0 (1/2) (1/8) (1/8) with
    | .error .badInput => true | _ => false) = true := by decide +kernel

end BezierVerif.C10
