import BezierVerif.Lemmas.Deriv
import Mathlib.Tactic.NormNum

/-!
# C11 (curve part) — tangent, curvature and Newton step are the exact calculus objects

Property theorems only.  `Deriv.curvePoly row : K[X]` is the polynomial map of one coordinate row
(`Σ_{j≤n} C(n,j) • (1-X)^(n-j) X^j v_j`, Lemmas/Deriv), derivatives are Mathlib's
`Polynomial.derivative`.  All statements are about the executable model `Model.hodographRow /
hodograph / concavityRow / curvatureParts / newtonRefine` (the transcription of
`evaluate_hodograph`, `get_curvature`, `newton_refine` of both implementations), for every
position `thr` of the evaluation-algorithm switch.
-/

set_option linter.unusedSectionVars false

namespace BezierVerif.C11

open Polynomial Finset Model BezierVerif BezierVerif.Deriv

variable {K : Type} [Field K] [CharZero K]

/-! ### the polynomial is the curve -/

/-- the polynomial evaluates to the Bernstein sum of C01 -/
theorem eval_curvePoly (row : List K) (s : K) :
    (curvePoly row).eval s = bern (row.length - 1) (1 - s) s (seq row) :=
  Deriv.eval_curvePoly row s

/-- … hence to what the library's evaluation computes (both algorithms) -/
theorem eval_curvePoly_eq_model (thr : ℕ) (row : List K) (h : 2 ≤ row.length) (s : K) :
    (curvePoly row).eval s = evalBary thr row (1 - s) s :=
  (evalBary_eq_eval_curvePoly thr row (by omega) s).symm

/-- `evaluate_multi` at one parameter, all rows -/
theorem evalPoint_eq (thr : ℕ) (nodes : List (List K)) (h : ∀ row ∈ nodes, 2 ≤ row.length) (s : K) :
    evalPoint thr nodes s = nodes.map (fun row => (curvePoly row).eval s) := by
  unfold evalPoint
  apply List.map_congr_left
  intro row hrow
  exact evalBary_eq_eval_curvePoly thr row (by have := h row hrow; omega) s

/-! ### tangent vector -/

/-- `evaluate_hodograph` returns the exact derivative of the curve's polynomial map, every degree
    ≥ 1 (for degree 1 the library evaluates a one-node "curve" through the VS branch) -/
theorem hodograph_is_derivative (thr : ℕ) (row : List K) (h : 2 ≤ row.length) (s : K) :
    hodographRow thr row s = (derivative (curvePoly row)).eval s :=
  hodographRow_eq thr row h s

/-- all coordinates -/
theorem hodograph_eq (thr : ℕ) (nodes : List (List K)) (h : ∀ row ∈ nodes, 2 ≤ row.length) (s : K) :
    hodograph thr nodes s = nodes.map (fun row => (derivative (curvePoly row)).eval s) := by
  unfold hodograph
  apply List.map_congr_left
  intro row hrow
  exact hodographRow_eq thr row (h row hrow) s

/-- the polynomial identity behind it: `B' = n · (curve of the forward differences)` -/
theorem derivative_curvePoly (row : List K) :
    derivative (curvePoly row) = C (((row.length - 1 : ℕ)) : K) * curvePoly (diffs row) :=
  Deriv.derivative_curvePoly row

/-! ### curvature -/

/-- the concavity vector of `get_curvature` is the exact second derivative, every degree ≥ 2 -/
theorem concavity_is_second_derivative (thr : ℕ) (row : List K) (h : 3 ≤ row.length) (s : K) :
    concavityRow thr row s = (derivative (derivative (curvePoly row))).eval s :=
  concavityRow_eq thr row h s

/-- numerator and squared tangent norm of the signed curvature `(B' × B'') / ‖B'‖³` of a planar
    curve of degree ≥ 2, with the tangent the library passes in (`evaluate_hodograph`) -/
theorem curvature_numerator (thr : ℕ) (xs ys : List K) (h : 3 ≤ xs.length)
    (hl : xs.length = ys.length) (s : K) :
    (curvatureParts thr [xs, ys] [hodographRow thr xs s, hodographRow thr ys s] s).1
        = (derivative (curvePoly xs)).eval s * (derivative (derivative (curvePoly ys))).eval s
          - (derivative (curvePoly ys)).eval s * (derivative (derivative (curvePoly xs))).eval s
    ∧ (curvatureParts thr [xs, ys] [hodographRow thr xs s, hodographRow thr ys s] s).2
        = ((derivative (curvePoly xs)).eval s)^2 + ((derivative (curvePoly ys)).eval s)^2 := by
  have hne : ¬ ncols [xs, ys] = 2 := by simp [ncols]; omega
  unfold curvatureParts
  rw [if_neg hne]
  simp only [cross2, seq, List.map_cons, List.map_nil, List.getD_cons_zero, List.getD_cons_succ,
    dot_pair]
  rw [hodographRow_eq thr xs (by omega), hodographRow_eq thr ys (by omega),
    concavityRow_eq thr xs h, concavityRow_eq thr ys (by omega)]
  exact ⟨rfl, by ring⟩

/-- any tangent argument: the numerator is `T × B''`, the denominator part `⟨T, T⟩` -/
theorem curvature_numerator_any_tangent (thr : ℕ) (xs ys : List K) (h : 3 ≤ xs.length)
    (hl : xs.length = ys.length) (tx ty s : K) :
    curvatureParts thr [xs, ys] [tx, ty] s
      = (tx * (derivative (derivative (curvePoly ys))).eval s
          - ty * (derivative (derivative (curvePoly xs))).eval s, tx * tx + ty * ty) := by
  have hne : ¬ ncols [xs, ys] = 2 := by simp [ncols]; omega
  unfold curvatureParts
  rw [if_neg hne]
  simp only [cross2, seq, List.map_cons, List.map_nil, List.getD_cons_zero, List.getD_cons_succ,
    dot_pair]
  rw [concavityRow_eq thr xs h, concavityRow_eq thr ys (by omega)]

/-- a line has curvature 0 (the code's early return; indeed `B'' = 0` there) -/
theorem curvature_line (thr : ℕ) (xs ys : List K) (h : xs.length = 2) (T : List K) (s : K) :
    (curvatureParts thr [xs, ys] T s).1 = 0 := by
  unfold curvatureParts
  rw [if_pos (by simpa [ncols] using h)]

/-- … consistent with the formula: the second derivative of a two-node row vanishes -/
theorem second_derivative_line (row : List K) (h : row.length = 2) :
    derivative (derivative (curvePoly row)) = 0 := by
  rw [derivative2_curvePoly, h]; simp

/-! ### Newton refinement -/

/-- `newton_refine` is one exact (Gauss–)Newton step for `B(s) = p`:
    `s + ⟨p − B(s), B'(s)⟩ / ⟨B'(s), B'(s)⟩`, any dimension, any degrees ≥ 1 -/
theorem newton_curve_step (thr : ℕ) (nodes : List (List K)) (point : List K) (s : K)
    (h : ∀ row ∈ nodes, 2 ≤ row.length) (hp : point.length = nodes.length) :
    newtonRefine thr nodes point s
      = s + (∑ r ∈ range nodes.length,
              (seq point r - (curvePoly (nodes.getD r [])).eval s)
                * (derivative (curvePoly (nodes.getD r []))).eval s)
            / (∑ r ∈ range nodes.length, ((derivative (curvePoly (nodes.getD r []))).eval s)^2) := by
  unfold newtonRefine
  simp only
  rw [evalPoint_eq thr nodes h, hodograph_eq thr nodes h]
  rw [Subdivide.dot_eq_sum _ _ (by simp [subRow_length, hp]),
    Subdivide.dot_eq_sum _ _ rfl]
  simp only [subRow_length, List.length_map, hp, Nat.min_self]
  congr 2
  · apply Finset.sum_congr rfl
    intro r hr
    have hr' := Finset.mem_range.mp hr
    rw [seq_subRow _ _ r (by omega) (by simpa using hr'),
      seq_map nodes _ [] r hr', seq_map nodes _ [] r hr']
  · apply Finset.sum_congr rfl
    intro r hr
    have hr' := Finset.mem_range.mp hr
    rw [seq_map nodes _ [] r hr', sq]

/-- planar case written out -/
theorem newton_curve_step_planar (thr : ℕ) (xs ys : List K) (px py s : K)
    (hx : 2 ≤ xs.length) (hy : 2 ≤ ys.length) :
    newtonRefine thr [xs, ys] [px, py] s
      = s + ((px - (curvePoly xs).eval s) * (derivative (curvePoly xs)).eval s
              + (py - (curvePoly ys).eval s) * (derivative (curvePoly ys)).eval s)
            / (((derivative (curvePoly xs)).eval s)^2 + ((derivative (curvePoly ys)).eval s)^2) := by
  unfold newtonRefine
  simp only [evalPoint, hodograph, List.map_cons, List.map_nil, subRow, List.zipWith_cons_cons,
    List.zipWith_nil_right, dot_pair]
  rw [hodographRow_eq thr xs hx, hodographRow_eq thr ys hy,
    evalBary_eq_eval_curvePoly thr xs (by omega), evalBary_eq_eval_curvePoly thr ys (by omega)]
  ring

/-! ### non-vacuity: concrete cubics over ℚ -/

/-- the polynomial of the row `[0,1,3,7]` is `X³ + 3X² + 3X` -/
example : curvePoly ([0, 1, 3, 7] : List ℚ) = X^3 + 3 * X^2 + 3 * X := by
  unfold curvePoly
  simp [Finset.sum_range_succ, seq, Nat.choose]
  simp only [C_ofNat]
  ring

/-- the model's tangent of `[0,1,3,7]` at `1/2`, by kernel evaluation … -/
example : hodographRow 55 ([0, 1, 3, 7] : List ℚ) (1/2) = 27/4 := by decide +kernel

/-- … and the same number from the theorem (`B(X) = X³ + 3X² + 3X`, `B' = 3X² + 6X + 3`) -/
example : (derivative (curvePoly ([0, 1, 3, 7] : List ℚ))).eval (1/2) = 27/4 := by
  rw [← hodograph_is_derivative 55 _ (by decide)]
  decide +kernel

example : concavityRow 55 ([0, 1, 3, 7] : List ℚ) (1/2) = 9 := by decide +kernel

example : (derivative (derivative (curvePoly ([0, 1, 3, 7] : List ℚ)))).eval (1/2) = 9 := by
  rw [← concavity_is_second_derivative 55 _ (by decide)]
  decide +kernel

example : curvatureParts 55 [([0, 1, 3, 7] : List ℚ), [0, 2, 2, 0]]
    [hodographRow 55 [0, 1, 3, 7] (1/2), hodographRow 55 [0, 2, 2, 0] (1/2)] (1/2)
      = (-81, 729/16) := by
  decide +kernel

example : newtonRefine 55 [([0, 1, 3, 7] : List ℚ), [0, 2, 2, 0]] [2, 1] (1/2) = 4/9 := by
  decide +kernel

end BezierVerif.C11
