import BezierVerif.Lemmas.RoundingDeriv
import BezierVerif.Lemmas.TriRoundingTables
import Mathlib.Algebra.Order.Field.Rat
import Mathlib.Algebra.Order.Ring.Rat

/-!
# C11 (rounding) — tangents, concavity, curvature numerator, Jacobian nets and `jacobian_det`
# *in rounded arithmetic*

`Model.hodographRow`, `concavityRow`, `curvatureParts` (Model/Curve) and `jacobianSRow`,
`jacobianTRow`, `jacobianBoth`, `jacobianDet` (Model/TriDeriv) are instantiated, unchanged, at the
number type `Fl F fl` (Lemmas/Rounding): every `+ - * /` is the exact operation of the ordered
field `F` followed by `fl`.

Hypotheses: the standard model `|fl x - x| ≤ u |x|` (binary64, round to nearest, no
over/underflow: `u = 2⁻⁵³`); control values, parameters and the tangent argument of
`get_curvature` are numbers of the arithmetic; `0`, `1` and small integers are exact (`NatCast` of
`Fl`); the running binomials of the evaluation loops are exact (`VSBinomExact`, `TriBinomExact`;
discharged for binary64 below the extracted switch in the `…_py` corollaries).

The difference nets are *not* numbers given to the routine, they are computed: one rounding per
first difference (relative to `|Δ_j|`), one more per second difference (relative to
`|Δ_{j+1}| + |Δ_j|`: the rounded first differences may cancel), two per Jacobian-net entry
(difference, product by the degree).  The evaluation theorems of C01 / C05 are then used in the form
"data given with relative error" (`Lemmas/RoundingDeriv`: `evalBary_one_sub_near`,
`py_evalCartesianRow_near`).

Proven exponents (`n` = degree of the curve, `d` = degree of the triangle):

| routine                         | exponent `k`          | scale                                                   |
|---------------------------------|-----------------------|---------------------------------------------------------|
| `evaluate_hodograph`, `n ≥ 2`   | `3n + 1`              | `n · Σ_j |C(n-1,j) (1-s)^(n-1-j) s^j Δ_j|`              |
| `evaluate_hodograph`, `n ≥ 1`   | `3n + 2`              | exact model on `|Δ_j|` (a line: `(|1-s| + |s|)·|Δ_0|`)  |
| concavity vector, `n ≥ 2`       | `3n + 1`              | `n(n-1) ·` exact model on `|Δ_{j+1}| + |Δ_j|`           |
| curvature numerator `T × B''`   | `3n + 3`              | `|T_x|·scale(B''_y) + |T_y|·scale(B''_x)`               |
| `jacobian_s`, `jacobian_t`      | `2`                   | `|d · (v' - v)|` (the entry itself)                     |
| `jacobian_det`, `d ≥ 2`         | `8d + 6`              | `|x_s||y_t| + |y_s||x_t|` with the scales of the factors|
| `jacobian_det`, `d = 1`         | `6`                   | the same with the four net entries                      |

`harness/props/c11.py` uses `2(3n+6)` (hodograph), `4(3n+12)` (curvature, whole quotient),
`4·d·2·max|v|` (Jacobian nets), `8(3d+6)` (`jacobian_det`).
-/

set_option linter.unusedSectionVars false
set_option linter.unusedVariables false

namespace BezierVerif.C11

open Finset Model BezierVerif BezierVerif.Tri BezierVerif.TriD BezierVerif.Generated

variable {F : Type} [Field F] [LinearOrder F] [IsStrictOrderedRing F]

/-! ### `evaluate_hodograph` -/

/-- **`evaluate_hodograph` in rounded arithmetic**, degree `n = N - 1 ≥ 2`: one rounding per first
    difference, `3(n-1) + 2` for the evaluation of the difference net at `(fl (1-s), s)`, one for
    the product by `n`; relative to `n` times the sum of the magnitudes of the Bernstein terms of
    the exact differences -/
theorem hodograph_rounding (fl : F → F) (u : F) (hu : 0 ≤ u) (hfl : ∀ x, |fl x - x| ≤ u * |x|)
    (thr : ℕ) (row : List F) (h : 3 ≤ row.length)
    (hbin : row.length - 1 ≤ thr → VSBinomExact fl (row.length - 2)) (s : F) :
    |(hodographRow thr (row.map Fl.mk) (⟨s⟩ : Fl F fl)).val - hodographRow thr row s|
      ≤ ((1+u)^(3 * (row.length - 1) + 1) - 1)
          * (((row.length - 1 : ℕ) : F) * ∑ j ∈ range (row.length - 2 + 1),
              |((row.length - 2).choose j : F) * (1 - s)^(row.length - 2 - j) * s^j
                * seq (diffs row) j|) := by
  have := (hodographRow_near ⟨hu, hfl⟩ thr row h hbin s).1
  rw [absHodographRow_eq thr row h, bern_abs] at this
  exact this

/-- every degree `n ≥ 1` (a line goes through the one-node VS branch): `3n + 2` roundings,
    relative to the exact model run on the absolute values of the exact differences -/
theorem hodograph_rounding_any (fl : F → F) (u : F) (hu : 0 ≤ u) (hfl : ∀ x, |fl x - x| ≤ u * |x|)
    (thr : ℕ) (row : List F) (h : 2 ≤ row.length)
    (hbin : 3 ≤ row.length → row.length - 1 ≤ thr → VSBinomExact fl (row.length - 2)) (s : F) :
    |(hodographRow thr (row.map Fl.mk) (⟨s⟩ : Fl F fl)).val - hodographRow thr row s|
      ≤ ((1+u)^(3 * (row.length - 1) + 2) - 1) * absHodographRow thr row s :=
  (hodographRow_near_any ⟨hu, hfl⟩ thr row h hbin s).1

/-- the scale of `hodograph_rounding_any` for three or more nodes is that of `hodograph_rounding` -/
theorem hodograph_scale (thr : ℕ) (row : List F) (h : 3 ≤ row.length) (s : F) :
    absHodographRow thr row s
      = ((row.length - 1 : ℕ) : F) * ∑ j ∈ range (row.length - 2 + 1),
          |((row.length - 2).choose j : F) * (1 - s)^(row.length - 2 - j) * s^j * seq (diffs row) j| := by
  rw [absHodographRow_eq thr row h, bern_abs]

/-- … and for a line (VS branch, `1 ≤ thr`): `(|1 - s| + |s|)·|b - a|` -/
theorem hodograph_scale_line (thr : ℕ) (hthr : 1 ≤ thr) (a b s : F) :
    absHodographRow thr [a, b] s = (|1 - s| + |s|) * |b - a| := by
  unfold absHodographRow evalBary
  have : ¬ ((diffs [a, b]).map (|·|)).length > thr := by simp [diffs]; omega
  rw [if_neg this]
  simp [diffs, evalVS, vsLoop, seq]
  ring

/-- the exact value is dominated by the scale -/
theorem hodograph_abs_le (thr : ℕ) (row : List F) (h : 2 ≤ row.length) (s : F) :
    |hodographRow thr row s| ≤ absHodographRow thr row s :=
  (hodographRow_near_any (fl := id) (u := 0) ⟨le_rfl, by intro x; simp⟩ thr row h
    (fun _ _ _ _ => ⟨rfl, rfl⟩) s).2

/-- **comparator form** with the constant `2(3n+6)` of `c11.py` (`u ≤ 2⁻⁵³`, every degree
    `1 ≤ n < 2^36`): `1.01 (3n+2) ≤ 2(3n+6)` -/
theorem hodograph_comparator (fl : F → F) (u : F) (hu : 0 ≤ u) (hfl : ∀ x, |fl x - x| ≤ u * |x|)
    (hu53 : u ≤ 1 / 2^53) (thr : ℕ) (row : List F) (h : 2 ≤ row.length) (h' : row.length ≤ 2^36)
    (hbin : 3 ≤ row.length → row.length - 1 ≤ thr → VSBinomExact fl (row.length - 2)) (s : F) :
    |(hodographRow thr (row.map Fl.mk) (⟨s⟩ : Fl F fl)).val - hodographRow thr row s|
      ≤ (2 * (3 * ((row.length - 1 : ℕ) : F) + 6)) * u * absHodographRow thr row s := by
  have S : StdModel fl u := ⟨hu, hfl⟩
  have hk : ((3 * (row.length - 1) + 2 : ℕ) : F) * u ≤ 1 / 100 :=
    ku_small u hu hu53 _ (by have : (2:ℕ)^40 = 16 * 2^36 := by norm_num
                             omega)
  have hn0 : (0 : F) ≤ ((row.length - 1 : ℕ) : F) := Nat.cast_nonneg _
  exact (hodographRow_near_any S thr row h hbin s).comparator_le S hk _ (by push_cast; linarith)

/-- the bound for the Python implementation's extracted switch: standard model plus "integers
    with odd part `< 2^53` are exact"; no hypothesis on binomials is left (`N - 1 ≤ 55` selects
    the VS branch, its binomials of degree `≤ 54` are exact) -/
theorem hodograph_rounding_py (fl : F → F) (u : F) (hu : 0 ≤ u) (hfl : ∀ x, |fl x - x| ≤ u * |x|)
    (hrep : Rep53Exact fl) (row : List F) (h : 2 ≤ row.length) (s : F) :
    |(hodographRow py_curve_vs_threshold (row.map Fl.mk) (⟨s⟩ : Fl F fl)).val
        - hodographRow py_curve_vs_threshold row s|
      ≤ ((1+u)^(3 * (row.length - 1) + 2) - 1) * absHodographRow py_curve_vs_threshold row s :=
  hodograph_rounding_any fl u hu hfl _ row h
    (fun _ hle => vsBinomExact_below fl hrep _ Tables.C01.binomials_exact_py _
      (by have : py_curve_vs_threshold = 55 := rfl
          omega)) s

/-! ### concavity vector and curvature numerator -/

/-- **concavity vector of `get_curvature`** (`n(n-1) ·` evaluation of the second differences),
    degree `n ≥ 2`: two roundings per second difference, `3(n-2) + 3` for the evaluation, one for
    `n(n-1)`, one for the product -/
theorem concavity_rounding (fl : F → F) (u : F) (hu : 0 ≤ u) (hfl : ∀ x, |fl x - x| ≤ u * |x|)
    (thr : ℕ) (row : List F) (h : 3 ≤ row.length)
    (hbin : 4 ≤ row.length → row.length - 2 ≤ thr → VSBinomExact fl (row.length - 3)) (s : F) :
    |(concavityRow thr (row.map Fl.mk) (⟨s⟩ : Fl F fl)).val - concavityRow thr row s|
      ≤ ((1+u)^(3 * (row.length - 1) + 1) - 1) * absConcavityRow thr row s :=
  (concavityRow_near ⟨hu, hfl⟩ thr row h hbin s).1

/-- the scale, degree `n ≥ 3`: `n(n-1) · Σ_j |C(n-2,j) (1-s)^(n-2-j) s^j| (|Δ_{j+1}| + |Δ_j|)`
    (not `|Δ_{j+1} - Δ_j|`: the two rounded first differences may cancel) -/
theorem concavity_scale (thr : ℕ) (row : List F) (h : 4 ≤ row.length) (s : F) :
    absConcavityRow thr row s
      = (((row.length - 1 : ℕ) : F) * ((row.length - 2 : ℕ) : F))
          * ∑ j ∈ range (row.length - 3 + 1),
              ((row.length - 3).choose j : F) * |1 - s|^(row.length - 3 - j) * |s|^j
                * (|seq (diffs row) (j+1)| + |seq (diffs row) j|) := by
  rw [absConcavityRow_eq thr row h]; rfl

/-- **numerator `T × B''` and squared norm `⟨T, T⟩` of `get_curvature`**, planar curve of degree
    `n ≥ 2`, any tangent array `T = (t_x, t_y)` -/
theorem curvature_numerator_rounding (fl : F → F) (u : F) (hu : 0 ≤ u)
    (hfl : ∀ x, |fl x - x| ≤ u * |x|) (thr : ℕ) (xs ys : List F) (h : 3 ≤ xs.length)
    (hl : ys.length = xs.length)
    (hbin : 4 ≤ xs.length → xs.length - 2 ≤ thr → VSBinomExact fl (xs.length - 3)) (tx ty s : F) :
    |(curvatureParts thr [xs.map Fl.mk, ys.map Fl.mk] [(⟨tx⟩ : Fl F fl), ⟨ty⟩] ⟨s⟩).1.val
        - (curvatureParts thr [xs, ys] [tx, ty] s).1|
      ≤ ((1+u)^(3 * (xs.length - 1) + 3) - 1)
          * (|tx| * absConcavityRow thr ys s + |ty| * absConcavityRow thr xs s) ∧
    |(curvatureParts thr [xs.map Fl.mk, ys.map Fl.mk] [(⟨tx⟩ : Fl F fl), ⟨ty⟩] ⟨s⟩).2.val
        - (curvatureParts thr [xs, ys] [tx, ty] s).2|
      ≤ ((1+u)^3 - 1) * (0 + |tx| * |tx| + |ty| * |ty|) := by
  obtain ⟨h1, h2⟩ := curvatureParts_near ⟨hu, hfl⟩ thr xs ys h hl hbin tx ty s
  exact ⟨h1.1, h2.1⟩

/-- a line: the early return `0` is exact -/
theorem curvature_line_rounding (fl : F → F) (thr : ℕ) (xs ys : List F) (h : xs.length = 2)
    (T : List (Fl F fl)) (s : F) :
    (curvatureParts thr [xs.map Fl.mk, ys.map Fl.mk] T (⟨s⟩ : Fl F fl)).1.val = 0 := by
  unfold curvatureParts
  rw [if_pos (by simpa [ncols] using h)]
  rfl

/-- comparator form of the numerator with the constant `4(3n+12)` that `c11.py` uses for the whole
    curvature quotient (`1.01 (3n+3) ≤ 4(3n+12)`) -/
theorem curvature_numerator_comparator (fl : F → F) (u : F) (hu : 0 ≤ u)
    (hfl : ∀ x, |fl x - x| ≤ u * |x|) (hu53 : u ≤ 1 / 2^53) (thr : ℕ) (xs ys : List F)
    (h : 3 ≤ xs.length) (h' : xs.length ≤ 2^36) (hl : ys.length = xs.length)
    (hbin : 4 ≤ xs.length → xs.length - 2 ≤ thr → VSBinomExact fl (xs.length - 3)) (tx ty s : F) :
    |(curvatureParts thr [xs.map Fl.mk, ys.map Fl.mk] [(⟨tx⟩ : Fl F fl), ⟨ty⟩] ⟨s⟩).1.val
        - (curvatureParts thr [xs, ys] [tx, ty] s).1|
      ≤ (4 * (3 * ((xs.length - 1 : ℕ) : F) + 12)) * u
          * (|tx| * absConcavityRow thr ys s + |ty| * absConcavityRow thr xs s) := by
  have S : StdModel fl u := ⟨hu, hfl⟩
  have hk : ((3 * (xs.length - 1) + 3 : ℕ) : F) * u ≤ 1 / 100 :=
    ku_small u hu hu53 _ (by have : (2:ℕ)^40 = 16 * 2^36 := by norm_num
                             omega)
  have hn0 : (0 : F) ≤ ((xs.length - 1 : ℕ) : F) := Nat.cast_nonneg _
  exact (curvatureParts_near S thr xs ys h hl hbin tx ty s).1.comparator_le S hk _
    (by push_cast; linarith)

/-! ### Jacobian nets of a triangle -/

/-- **`jacobian_s`**: `d · (v_{i+1} - v_i)`, two roundings, relative to the entry itself -/
theorem jacobian_s_rounding (fl : F → F) (u : F) (hu : 0 ≤ u) (hfl : ∀ x, |fl x - x| ≤ u * |x|)
    (d : ℕ) (row : List F) (i : ℕ) :
    |(seq (jacobianSRow d (row.map (Fl.mk (fl := fl)))) i).val - seq (jacobianSRow d row) i|
      ≤ ((1+u)^2 - 1) * |seq (jacobianSRow d row) i| := by
  have := (jacobianSRow_near ⟨hu, hfl⟩ d row).bound ⟨hu, hfl⟩ i
  rwa [seq_map_abs] at this

/-- **`jacobian_t`** -/
theorem jacobian_t_rounding (fl : F → F) (u : F) (hu : 0 ≤ u) (hfl : ∀ x, |fl x - x| ≤ u * |x|)
    (d : ℕ) (row : List F) (i : ℕ) :
    |(seq (jacobianTRow d (row.map (Fl.mk (fl := fl)))) i).val - seq (jacobianTRow d row) i|
      ≤ ((1+u)^2 - 1) * |seq (jacobianTRow d row) i| := by
  have := (jacobianTRow_near ⟨hu, hfl⟩ d row).bound ⟨hu, hfl⟩ i
  rwa [seq_map_abs] at this

/-- **`jacobian_both`**: all `2·dim` rows -/
theorem jacobian_both_rounding (fl : F → F) (u : F) (hu : 0 ≤ u) (hfl : ∀ x, |fl x - x| ≤ u * |x|)
    (d : ℕ) (nodes : List (List F)) :
    NearM fl u 2 (jacobianBoth d (nodes.map (List.map (Fl.mk (fl := fl))))) (jacobianBoth d nodes)
      ((jacobianBoth d nodes).map (List.map (|·|))) :=
  jacobianBoth_near ⟨hu, hfl⟩ d nodes

/-- comparator form: `c11.py` allows `4·u·d·2·max|v|` per entry; the proven `1.01·2·u·|entry|`
    with `|entry| = d |v' - v| ≤ d·2·max|v|` is below it -/
theorem jacobian_s_comparator (fl : F → F) (u : F) (hu : 0 ≤ u) (hfl : ∀ x, |fl x - x| ≤ u * |x|)
    (hu53 : u ≤ 1 / 2^53) (d : ℕ) (row : List F) (i : ℕ) :
    |(seq (jacobianSRow d (row.map (Fl.mk (fl := fl)))) i).val - seq (jacobianSRow d row) i|
      ≤ 4 * u * |seq (jacobianSRow d row) i| := by
  have S : StdModel fl u := ⟨hu, hfl⟩
  have hk : ((2 : ℕ) : F) * u ≤ 1 / 100 := ku_small u hu hu53 _ (by norm_num)
  have := ((jacobianSRow_near S d row).seq S i).comparator_le S hk 4 (by norm_num)
  rwa [seq_map_abs] at this

theorem jacobian_t_comparator (fl : F → F) (u : F) (hu : 0 ≤ u) (hfl : ∀ x, |fl x - x| ≤ u * |x|)
    (hu53 : u ≤ 1 / 2^53) (d : ℕ) (row : List F) (i : ℕ) :
    |(seq (jacobianTRow d (row.map (Fl.mk (fl := fl)))) i).val - seq (jacobianTRow d row) i|
      ≤ 4 * u * |seq (jacobianTRow d row) i| := by
  have S : StdModel fl u := ⟨hu, hfl⟩
  have hk : ((2 : ℕ) : F) * u ≤ 1 / 100 := ku_small u hu hu53 _ (by norm_num)
  have := ((jacobianTRow_near S d row).seq S i).comparator_le S hk 4 (by norm_num)
  rwa [seq_map_abs] at this

/-! ### `jacobian_det` -/

/-- the scales of the four partial derivatives: the Bernstein sums of the absolute Jacobian nets
    at the weights `(|1 - s| + |t|, |s|, |t|)` (the two subtractions of `λ₁ = 1 - s - t` may
    cancel, `C05.cartesian_rounding_py`) -/
theorem jacobian_scale_s (d : ℕ) (row : List F) (s t : F) :
    absJacS d row s t = ∑ k ∈ range (d - 1 + 1), ∑ j ∈ range (d - 1 - k + 1),
      (((d - 1).choose k * (d - 1 - k).choose j : ℕ) : F) * (|1 - s| + |t|)^(d - 1 - k - j)
        * |s|^j * |t|^k * |netOf (d - 1) (jacobianSRow d row) j k| := by
  unfold absJacS triBern
  rw [netOf_map_abs]

theorem jacobian_scale_t (d : ℕ) (row : List F) (s t : F) :
    absJacT d row s t = ∑ k ∈ range (d - 1 + 1), ∑ j ∈ range (d - 1 - k + 1),
      (((d - 1).choose k * (d - 1 - k).choose j : ℕ) : F) * (|1 - s| + |t|)^(d - 1 - k - j)
        * |s|^j * |t|^k * |netOf (d - 1) (jacobianTRow d row) j k| := by
  unfold absJacT triBern
  rw [netOf_map_abs]

/-- **`jacobian_det` in rounded arithmetic**, degree `d ≥ 2`: each of the four partial derivatives
    carries `4d + 2` roundings (2 for the net, `2(d-1) + 4` for the row loop, `2(d-1)` for `λ₁`);
    the determinant `2(4d+2) + 2`:
    `|x̂_s ŷ_t − ŷ_s x̂_t − det| ≤ ((1+u)^(8d+6) − 1)(X_s Y_t + Y_s X_t)` -/
theorem jacobian_det_rounding (fl : F → F) (u : F) (hu : 0 ≤ u) (hfl : ∀ x, |fl x - x| ≤ u * |x|)
    (thr d : ℕ) (hd : 2 ≤ d) (hbin : TriBinomExact fl (d - 1))
    (hrows : ∀ n, 1 ≤ n → n ≤ d - 1 → n + 1 ≤ thr → VSBinomExact fl n) (xs ys : List F) (s t : F) :
    |(jacobianDet thr d [xs.map Fl.mk, ys.map Fl.mk] (⟨s⟩ : Fl F fl) ⟨t⟩).val
        - jacobianDet thr d [xs, ys] s t|
      ≤ ((1+u)^(8 * d + 6) - 1)
          * (absJacS d xs s t * absJacT d ys s t + absJacS d ys s t * absJacT d xs s t) :=
  (jacobianDet_near ⟨hu, hfl⟩ thr d hd hbin hrows xs ys s t).1

/-- degree 1: the determinant of the four net entries, `6` roundings -/
theorem jacobian_det_rounding_linear (fl : F → F) (u : F) (hu : 0 ≤ u)
    (hfl : ∀ x, |fl x - x| ≤ u * |x|) (thr : ℕ) (xs ys : List F) (s t : F) :
    |(jacobianDet thr 1 [xs.map Fl.mk, ys.map Fl.mk] (⟨s⟩ : Fl F fl) ⟨t⟩).val
        - jacobianDet thr 1 [xs, ys] s t|
      ≤ ((1+u)^6 - 1)
          * (|seq (jacobianSRow 1 xs) 0| * |seq (jacobianTRow 1 ys) 0|
              + |seq (jacobianSRow 1 ys) 0| * |seq (jacobianTRow 1 xs) 0|) := by
  have := (jacobianDet_near_one ⟨hu, hfl⟩ thr xs ys s t).1
  rwa [seq_map_abs, seq_map_abs, seq_map_abs, seq_map_abs] at this

/-- the exact determinant is dominated by the scale -/
theorem jacobian_det_abs_le (thr d : ℕ) (hd : 2 ≤ d) (xs ys : List F) (s t : F) :
    |jacobianDet thr d [xs, ys] s t|
      ≤ absJacS d xs s t * absJacT d ys s t + absJacS d ys s t * absJacT d xs s t :=
  (jacobianDet_near (fl := id) (u := 0) ⟨le_rfl, by intro x; simp⟩ thr d hd
    (fun _ _ => ⟨rfl, rfl⟩) (fun _ _ _ _ _ _ => ⟨rfl, rfl⟩) xs ys s t).2

/-- **comparator form** with the constant `8(3d+6)` of `c11.py` (`u ≤ 2⁻⁵³`, `2 ≤ d ≤ 2^36`):
    `1.01 (8d+6) ≤ 8(3d+6)` -/
theorem jacobian_det_comparator (fl : F → F) (u : F) (hu : 0 ≤ u) (hfl : ∀ x, |fl x - x| ≤ u * |x|)
    (hu53 : u ≤ 1 / 2^53) (thr d : ℕ) (hd : 2 ≤ d) (hd' : d ≤ 2^36) (hbin : TriBinomExact fl (d - 1))
    (hrows : ∀ n, 1 ≤ n → n ≤ d - 1 → n + 1 ≤ thr → VSBinomExact fl n) (xs ys : List F) (s t : F) :
    |(jacobianDet thr d [xs.map Fl.mk, ys.map Fl.mk] (⟨s⟩ : Fl F fl) ⟨t⟩).val
        - jacobianDet thr d [xs, ys] s t|
      ≤ (8 * (3 * (d : F) + 6)) * u
          * (absJacS d xs s t * absJacT d ys s t + absJacS d ys s t * absJacT d xs s t) := by
  have S : StdModel fl u := ⟨hu, hfl⟩
  have hk : ((8 * d + 6 : ℕ) : F) * u ≤ 1 / 100 :=
    ku_small u hu hu53 _ (by have : (2:ℕ)^40 = 16 * 2^36 := by norm_num
                             omega)
  have hd0 : (0 : F) ≤ (d : F) := Nat.cast_nonneg _
  exact (jacobianDet_near S thr d hd hbin hrows xs ys s t).comparator_le S hk _
    (by push_cast; linarith)

theorem jacobian_det_comparator_linear (fl : F → F) (u : F) (hu : 0 ≤ u)
    (hfl : ∀ x, |fl x - x| ≤ u * |x|) (hu53 : u ≤ 1 / 2^53) (thr : ℕ) (xs ys : List F) (s t : F) :
    |(jacobianDet thr 1 [xs.map Fl.mk, ys.map Fl.mk] (⟨s⟩ : Fl F fl) ⟨t⟩).val
        - jacobianDet thr 1 [xs, ys] s t|
      ≤ (8 * (3 * ((1 : ℕ) : F) + 6)) * u
          * (|seq (jacobianSRow 1 xs) 0| * |seq (jacobianTRow 1 ys) 0|
              + |seq (jacobianSRow 1 ys) 0| * |seq (jacobianTRow 1 xs) 0|) := by
  have S : StdModel fl u := ⟨hu, hfl⟩
  have hk : ((6 : ℕ) : F) * u ≤ 1 / 100 := ku_small u hu hu53 _ (by norm_num)
  have := (jacobianDet_near_one S thr xs ys s t).comparator_le S hk
    (8 * (3 * ((1 : ℕ) : F) + 6)) (by norm_num)
  rwa [seq_map_abs, seq_map_abs, seq_map_abs, seq_map_abs] at this

/-- the bound for the Python implementation's extracted switch (`d - 1 < 55`): standard model plus
    "integers with odd part `< 2^53` are exact", no hypothesis on binomials is left -/
theorem jacobian_det_rounding_py (fl : F → F) (u : F) (hu : 0 ≤ u) (hfl : ∀ x, |fl x - x| ≤ u * |x|)
    (hrep : Rep53Exact fl) (d : ℕ) (hd : 2 ≤ d) (hd' : d ≤ py_curve_vs_threshold) (xs ys : List F)
    (s t : F) :
    |(jacobianDet py_curve_vs_threshold d [xs.map Fl.mk, ys.map Fl.mk] (⟨s⟩ : Fl F fl) ⟨t⟩).val
        - jacobianDet py_curve_vs_threshold d [xs, ys] s t|
      ≤ ((1+u)^(8 * d + 6) - 1)
          * (absJacS d xs s t * absJacT d ys s t + absJacS d ys s t * absJacT d xs s t) :=
  jacobian_det_rounding fl u hu hfl _ d hd
    (triBinomExact_below fl hrep _ Tables.C01.binomials_exact_py (d - 1) (by omega))
    (fun n _ hn _ => vsBinomExact_below fl hrep _ Tables.C01.binomials_exact_py n (by omega))
    xs ys s t

/-! ### non-vacuity -/

/-- exact arithmetic satisfies every hypothesis; the rounded run *is* the exact run -/
example (thr : ℕ) (row : List ℚ) (h : 2 ≤ row.length) (s : ℚ) :
    (hodographRow thr (row.map Fl.mk) (⟨s⟩ : Fl ℚ id)).val = hodographRow thr row s := by
  have := hodograph_rounding_any (F := ℚ) id 0 le_rfl (by intro x; simp) thr row h
    (fun _ _ _ _ => ⟨rfl, rfl⟩) s
  simpa [sub_eq_zero] using this

example (thr d : ℕ) (hd : 2 ≤ d) (xs ys : List ℚ) (s t : ℚ) :
    (jacobianDet thr d [xs.map Fl.mk, ys.map Fl.mk] (⟨s⟩ : Fl ℚ id) ⟨t⟩).val
      = jacobianDet thr d [xs, ys] s t := by
  have := jacobian_det_rounding (F := ℚ) id 0 le_rfl (by intro x; simp) thr d hd
    (fun _ _ => ⟨rfl, rfl⟩) (fun _ _ _ _ _ _ => ⟨rfl, rfl⟩) xs ys s t
  simpa [sub_eq_zero] using this

/-- the inexact arithmetic `flDy` on `ℚ` (`fl (1/3) ≠ 1/3`, `u = 2⁻¹⁰`, every natural number kept)
    satisfies all hypotheses of the hodograph, concavity and `jacobian_det` theorems together -/
example (thr : ℕ) (row : List ℚ) (h : 3 ≤ row.length) (s : ℚ) :
    |(hodographRow thr (row.map Fl.mk) (⟨s⟩ : Fl ℚ flDy)).val - hodographRow thr row s|
      ≤ ((1 + 1/1024 : ℚ)^(3 * (row.length - 1) + 1) - 1) * absHodographRow thr row s := by
  have := hodograph_rounding flDy (1/1024) flDy_std.hu flDy_std.hfl thr row h
    (fun _ => flDy_vsBinomExact _) s
  rwa [← hodograph_scale thr row h s] at this

example (thr : ℕ) (xs ys : List ℚ) (h : 3 ≤ xs.length) (hl : ys.length = xs.length) (tx ty s : ℚ) :
    |(curvatureParts thr [xs.map Fl.mk, ys.map Fl.mk] [(⟨tx⟩ : Fl ℚ flDy), ⟨ty⟩] ⟨s⟩).1.val
        - (curvatureParts thr [xs, ys] [tx, ty] s).1|
      ≤ ((1 + 1/1024 : ℚ)^(3 * (xs.length - 1) + 3) - 1)
          * (|tx| * absConcavityRow thr ys s + |ty| * absConcavityRow thr xs s) :=
  (curvature_numerator_rounding flDy (1/1024) flDy_std.hu flDy_std.hfl thr xs ys h hl
    (fun _ _ => flDy_vsBinomExact _) tx ty s).1

example (thr d : ℕ) (hd : 2 ≤ d) (xs ys : List ℚ) (s t : ℚ) :
    |(jacobianDet thr d [xs.map Fl.mk, ys.map Fl.mk] (⟨s⟩ : Fl ℚ flDy) ⟨t⟩).val
        - jacobianDet thr d [xs, ys] s t|
      ≤ ((1 + 1/1024 : ℚ)^(8 * d + 6) - 1)
          * (absJacS d xs s t * absJacT d ys s t + absJacS d ys s t * absJacT d xs s t) :=
  jacobian_det_rounding flDy (1/1024) flDy_std.hu flDy_std.hfl thr d hd (flDy_triBinomExact _)
    (fun n _ _ _ => flDy_vsBinomExact n) xs ys s t

/-- … and the rounded run really differs from the exact one: the tangent of `[0, 1/3, 1]` at
    `s = 1/3` (kernel evaluation) -/
example : (hodographRow 55 (([0, 1/3, 1] : List ℚ).map Fl.mk) (⟨1/3⟩ : Fl ℚ flDy)).val
    ≠ hodographRow 55 ([0, 1/3, 1] : List ℚ) (1/3) := by decide +kernel

end BezierVerif.C11
