import BezierVerif.Lemmas.TriDeriv
import BezierVerif.Model.Valid
import Mathlib.Algebra.Order.Field.Basic
import Mathlib.Tactic.FieldSimp
import Mathlib.Tactic.LinearCombination

/-!
# C11 (triangle part) — Jacobian nets, Jacobian determinant and the triangle Newton step are the
# exact calculus objects

Property theorems only.  `TriD.surfPoly d row : MvPolynomial (Fin 2) K` is the polynomial map
`B(s,t) ∈ K[s,t]` (`s = X 0`, `t = X 1`) of one flat coordinate row of a degree-`d` triangle: the
bivariate Bernstein sum of Props/C05 with the weights `(1 - s - t, s, t)`; partial derivatives are
Mathlib's `MvPolynomial.pderiv`.  The statements are about the executable model
`Model/TriDeriv.lean` (`jacIndexPairs`, `jacobianSRow`, `jacobianTRow`, `jacobianDet`,
`newtonRefineTriangle`: the transcription of `jacobian_s`, `jacobian_t`, `jacobian_both`,
`jacobian_det`, `newton_refine_solve`, `newton_refine` with their running indices), every degree
`d ≥ 1`, every position `thr` of the curve routine's algorithm switch.

Formulation reached for "the Jacobian nets are the partial derivatives": (a) the identity of formal
partial derivatives in `K[s,t]` (`jacobian_s_is_derivative`, `jacobian_t_is_derivative`), every
degree; additionally (b) the exact shift-calculus identity and the telescoped difference quotient.
-/

set_option linter.unusedSectionVars false
set_option linter.unusedVariables false

namespace BezierVerif.C11

open Finset Model MvPolynomial BezierVerif BezierVerif.Tri BezierVerif.TriD

section Field
variable {K : Type} [Field K] [CharZero K]

/-! ### 1: the running indices of `jacobian_s` / `jacobian_t` -/

/-- the pairs `(i, j)` visited by the two nested loops are exactly
    `(index of node (j,k), index of node (j,k+1))` of the degree-`d` net, for `k < d`, `j < d - k`,
    in the node order of the degree-`d-1` net -/
theorem jacIndexPairs_spec (d : ℕ) :
    jacIndexPairs d = (List.range d).flatMap (fun k =>
      (List.range (d - k)).map (fun j => (triIndex d j k, triIndex d j (k+1)))) :=
  jacIndexPairs_eq d

/-- the results are nets of degree `d - 1` -/
theorem jacobian_s_length (d : ℕ) (hd : 1 ≤ d) (row : List K) :
    (jacobianSRow d row).length = numNodes (d - 1) := jacobianSRow_length d hd row

theorem jacobian_t_length (d : ℕ) (hd : 1 ≤ d) (row : List K) :
    (jacobianTRow d row).length = numNodes (d - 1) := jacobianTRow_length d hd row

/-- node `(j, k)` of `jacobian_s`: `d · (v(j+1,k) − v(j,k))` -/
theorem jacobian_s_entries (d : ℕ) (row : List K) (j k : ℕ) (h : j + k + 1 ≤ d) :
    seq (jacobianSRow d row) (triIndex (d-1) j k)
      = (d : K) * (seq row (triIndex d (j+1) k) - seq row (triIndex d j k)) :=
  netOf_jacobianSRow d row j k h

/-- node `(j, k)` of `jacobian_t`: `d · (v(j,k+1) − v(j,k))` -/
theorem jacobian_t_entries (d : ℕ) (row : List K) (j k : ℕ) (h : j + k + 1 ≤ d) :
    seq (jacobianTRow d row) (triIndex (d-1) j k)
      = (d : K) * (seq row (triIndex d j (k+1)) - seq row (triIndex d j k)) :=
  netOf_jacobianTRow d row j k h

/-! ### 2: the Jacobian nets are the formal partial derivatives -/

/-- the polynomial evaluates to the Bernstein sum of C05 … -/
theorem eval_surfPoly (d : ℕ) (row : List K) (s t : K) :
    eval ![s, t] (surfPoly d row) = triBern d (1 - s - t) s t (netOf d row) :=
  TriD.eval_surfPoly d row s t

/-- … hence to what `evaluate_cartesian` computes -/
theorem eval_surfPoly_eq_model (thr d : ℕ) (row : List K) (h : row.length = numNodes d) (s t : K) :
    eval ![s, t] (surfPoly d row) = Py.evalBarycentricRow thr d row (cartesian s t) :=
  TriD.eval_surfPoly_eq_model thr d row h s t

/-- **`jacobian_s` is the control net of `∂B/∂s`**: identity of polynomials in `K[s,t]`, every
    degree `d ≥ 1`, every row (formulation (a)) -/
theorem jacobian_s_is_derivative (d : ℕ) (hd : 1 ≤ d) (row : List K) :
    pderiv 0 (surfPoly d row) = surfPoly (d-1) (jacobianSRow d row) :=
  pderiv_s_surfPoly d hd row

/-- **`jacobian_t` is the control net of `∂B/∂t`** -/
theorem jacobian_t_is_derivative (d : ℕ) (hd : 1 ≤ d) (row : List K) :
    pderiv 1 (surfPoly d row) = surfPoly (d-1) (jacobianTRow d row) :=
  pderiv_t_surfPoly d hd row

/-- evaluating the `jacobian_s` net (as the library does) gives the value of `∂B/∂s` -/
theorem jacobian_s_value (thr d : ℕ) (hd : 1 ≤ d) (row : List K) (s t : K) :
    Py.evalBarycentricRow thr (d-1) (jacobianSRow d row) (cartesian s t)
      = eval ![s, t] (pderiv 0 (surfPoly d row)) := evalJacS_eq thr d hd row s t

theorem jacobian_t_value (thr d : ℕ) (hd : 1 ≤ d) (row : List K) (s t : K) :
    Py.evalBarycentricRow thr (d-1) (jacobianTRow d row) (cartesian s t)
      = eval ![s, t] (pderiv 1 (surfPoly d row)) := evalJacT_eq thr d hd row s t

/-- formulation (b), exact algebraic identity in the two-shift calculus, arbitrary weights:
    `B_{d-1}[jacobian_s net](λ) = d · ((Sj − 1) T(λ)^(d-1) w)(0,0)` -/
theorem jacobian_s_shift_identity (d : ℕ) (hd : 1 ≤ d) (row : List K) (l1 l2 l3 : K) :
    triBern (d-1) l1 l2 l3 (netOf (d-1) (jacobianSRow d row))
      = (d : K) * (((Sj - 1 : Module.End K (Net K)) * (T3 l1 l2 l3)^(d-1)) (netOf d row)) 0 0 :=
  triBern_jacobianS d hd row l1 l2 l3

theorem jacobian_t_shift_identity (d : ℕ) (hd : 1 ≤ d) (row : List K) (l1 l2 l3 : K) :
    triBern (d-1) l1 l2 l3 (netOf (d-1) (jacobianTRow d row))
      = (d : K) * (((Sk - 1 : Module.End K (Net K)) * (T3 l1 l2 l3)^(d-1)) (netOf d row)) 0 0 :=
  triBern_jacobianT d hd row l1 l2 l3

/-- formulation (b), telescoped difference quotient in the `s` direction (at `h = 0` every term of
    the sum is `((Sj − 1) T(s,t)^(d-1) w)(0,0)`, i.e. the sum is the value of the `jacobian_s` net) -/
theorem surface_difference_s (d : ℕ) (row : List K) (s t h : K) :
    triBern d (1 - (s + h) - t) (s + h) t (netOf d row) - triBern d (1 - s - t) s t (netOf d row)
      = h * ∑ m ∈ range d, (((T3 (1 - (s + h) - t) (s + h) t)^m * (T3 (1 - s - t) s t)^(d-1-m))
          ((Sj - 1 : Module.End K (Net K)) (netOf d row))) 0 0 :=
  triBern_diff_s d (netOf d row) s t h

theorem surface_difference_t (d : ℕ) (row : List K) (s t h : K) :
    triBern d (1 - s - (t + h)) s (t + h) (netOf d row) - triBern d (1 - s - t) s t (netOf d row)
      = h * ∑ m ∈ range d, (((T3 (1 - s - (t + h)) s (t + h))^m * (T3 (1 - s - t) s t)^(d-1-m))
          ((Sk - 1 : Module.End K (Net K)) (netOf d row))) 0 0 :=
  triBern_diff_t d (netOf d row) s t h

/-! ### 3: the Jacobian determinant -/

variable [DecidableEq K]

/-- **`jacobian_det` is `x_s · y_t − x_t · y_s`** of the formal partial derivatives of the two
    coordinate polynomials, every degree `d ≥ 1` (degree 1: the constant determinant) -/
theorem jacobian_det_spec (thr d : ℕ) (hd : 1 ≤ d) (xs ys : List K) (s t : K) :
    jacobianDet thr d [xs, ys] s t =
      eval ![s, t] (pderiv 0 (surfPoly d xs)) * eval ![s, t] (pderiv 1 (surfPoly d ys))
        - eval ![s, t] (pderiv 1 (surfPoly d xs)) * eval ![s, t] (pderiv 0 (surfPoly d ys)) :=
  jacobianDet_eq_pderiv thr d hd xs ys s t

/-! ### 4: one Newton refinement step -/

/-- **`newton_refine` performs the exact Newton step**: if the Jacobian determinant at `(s, t)` is
    non-zero, the result is `(s + Δs, t + Δt)` with `(Δs, Δt)` THE solution of
    `[x_s x_t; y_s y_t] · (Δs, Δt) = (x − B_x(s,t), y − B_y(s,t))` (both branches of the code: on
    the early-exit branch the residual is zero and so is the solution) -/
theorem newton_triangle_step (thr d : ℕ) (hd : 1 ≤ d) (xs ys : List K)
    (hx : xs.length = numNodes d) (hy : ys.length = numNodes d) (x y s t : K)
    (hD : eval ![s, t] (pderiv 0 (surfPoly d xs)) * eval ![s, t] (pderiv 1 (surfPoly d ys))
        - eval ![s, t] (pderiv 1 (surfPoly d xs)) * eval ![s, t] (pderiv 0 (surfPoly d ys)) ≠ 0) :
    ∃ Δs Δt : K,
      (eval ![s, t] (pderiv 0 (surfPoly d xs)) * Δs + eval ![s, t] (pderiv 1 (surfPoly d xs)) * Δt
          = x - eval ![s, t] (surfPoly d xs) ∧
       eval ![s, t] (pderiv 0 (surfPoly d ys)) * Δs + eval ![s, t] (pderiv 1 (surfPoly d ys)) * Δt
          = y - eval ![s, t] (surfPoly d ys)) ∧
      (∀ Δs' Δt' : K,
        eval ![s, t] (pderiv 0 (surfPoly d xs)) * Δs' + eval ![s, t] (pderiv 1 (surfPoly d xs)) * Δt'
          = x - eval ![s, t] (surfPoly d xs) →
        eval ![s, t] (pderiv 0 (surfPoly d ys)) * Δs' + eval ![s, t] (pderiv 1 (surfPoly d ys)) * Δt'
          = y - eval ![s, t] (surfPoly d ys) → Δs' = Δs ∧ Δt' = Δt) ∧
      newtonRefineTriangle thr d [xs, ys] x y s t = (s + Δs, t + Δt) := by
  set a := eval ![s, t] (pderiv 0 (surfPoly d xs)) with ha
  set c := eval ![s, t] (pderiv 1 (surfPoly d xs)) with hc
  set b := eval ![s, t] (pderiv 0 (surfPoly d ys)) with hb
  set e' := eval ![s, t] (pderiv 1 (surfPoly d ys)) with he'
  set bx := eval ![s, t] (surfPoly d xs) with hbx
  set by' := eval ![s, t] (surfPoly d ys) with hby
  refine ⟨(e' * (x - bx) - c * (y - by')) / (a * e' - b * c),
    (a * (y - by') - b * (x - bx)) / (a * e' - b * c), ⟨?_, ?_⟩, ?_, ?_⟩
  · have hD' : a * e' - b * c ≠ 0 := by intro h; apply hD; linear_combination h
    rw [mul_div_assoc', mul_div_assoc', ← add_div, div_eq_iff hD']; ring
  · have hD' : a * e' - b * c ≠ 0 := by intro h; apply hD; linear_combination h
    rw [mul_div_assoc', mul_div_assoc', ← add_div, div_eq_iff hD']; ring
  · intro u v h1 h2
    have hD' : a * e' - b * c ≠ 0 := by intro h; apply hD; linear_combination h
    constructor
    · rw [eq_div_iff hD']; linear_combination e' * h1 - c * h2
    · rw [eq_div_iff hD']; linear_combination a * h2 - b * h1
  · have ex : Py.evalBarycentricRow thr d xs (cartesian s t) = bx :=
      (TriD.eval_surfPoly_eq_model thr d xs hx s t).symm
    have ey : Py.evalBarycentricRow thr d ys (cartesian s t) = by' :=
      (TriD.eval_surfPoly_eq_model thr d ys hy s t).symm
    unfold newtonRefineTriangle jacobianBoth
    simp only [Py.evalBarycentric, List.map_cons, List.map_nil, List.cons_append, List.nil_append,
      seq, List.getD_cons_zero, List.getD_cons_succ]
    rw [ex, ey, evalJacS_eq thr d hd xs, evalJacS_eq thr d hd ys, evalJacT_eq thr d hd xs,
      evalJacT_eq thr d hd ys]
    split
    · rename_i h0
      obtain ⟨h1, h2⟩ := h0
      rw [h1, h2]; simp
    · rfl

/-- the early-exit branch: an exactly zero residual returns the parameters unchanged (whatever the
    Jacobian) -/
theorem newton_triangle_noop (thr d : ℕ) (xs ys : List K)
    (hx : xs.length = numNodes d) (hy : ys.length = numNodes d) (x y s t : K)
    (h1 : eval ![s, t] (surfPoly d xs) = x) (h2 : eval ![s, t] (surfPoly d ys) = y) :
    newtonRefineTriangle thr d [xs, ys] x y s t = (s, t) := by
  have ex := TriD.eval_surfPoly_eq_model thr d xs hx s t
  have ey := TriD.eval_surfPoly_eq_model thr d ys hy s t
  unfold newtonRefineTriangle
  simp only [Py.evalBarycentric, List.map_cons, List.map_nil, seq, List.getD_cons_zero,
    List.getD_cons_succ]
  rw [← ex, ← ey, if_pos ⟨h1, h2⟩]

end Field

section Ordered
variable {K : Type} [Field K] [LinearOrder K] [IsStrictOrderedRing K]

/-- the pair `(B_s, B_t)` used by Props/C13 (`Model.partialsAt`) is the gradient of the coordinate
    polynomial, every degree `d ≥ 1` (C13 `partials_are_derivatives_1/2/3` state this for degrees
    1–3 by a Taylor identity) -/
theorem partialsAt_is_gradient (thr d : ℕ) (hd : 1 ≤ d) (row : List K) (s t : K) :
    partialsAt thr d row s t
      = (eval ![s, t] (pderiv 0 (surfPoly d row)), eval ![s, t] (pderiv 1 (surfPoly d row))) := by
  unfold partialsAt
  by_cases h : d = 1
  · subst h
    simp only [if_true]
    rw [seqJacS_one row s t, seqJacT_one row s t]
  · simp only [h, if_false]
    rw [evalJacS_eq thr d hd row, evalJacT_eq thr d hd row]

end Ordered

/-! ### 5: non-vacuity (ℚ, kernel evaluation) -/

/-- the loops of `jacobian_s` for degree 3 visit the six pairs of the quadratic net -/
example : jacIndexPairs 3 = [(0, 4), (1, 5), (2, 6), (4, 7), (5, 8), (7, 9)] := by decide +kernel

example : jacobianSRow 2 [0, 1, 2, 0, 1, (0 : ℚ)] = [2, 2, 2] := by decide +kernel
example : jacobianTRow 2 [0, 0, 0, 1, 1, (2 : ℚ)] = [2, 2, 2] := by decide +kernel

/-- the lattice quadratic triangle `(x, y) = (2s, 2t)` has `det J = 4` -/
example : jacobianDet 55 2 [[0, 1, 2, 0, 1, 0], [0, 0, 0, 1, 1, (2 : ℚ)]] (1/3) (1/4) = 4 := by
  decide +kernel

/-- one Newton step on an affine map lands on the solution; a second one is the no-op branch -/
example : newtonRefineTriangle 55 2 [[0, 1, 2, 0, 1, 0], [0, 0, 0, 1, 1, (2 : ℚ)]] 1 (1/2) (1/8) (1/8)
    = (1/2, 1/4) := by decide +kernel

example : newtonRefineTriangle 55 2 [[0, 1, 2, 0, 1, 0], [0, 0, 0, 1, 1, (2 : ℚ)]] 1 (1/2) (1/2) (1/4)
    = (1/2, 1/4) := by decide +kernel

/-- a genuinely curved quadratic: one step from `(1/4, 1/4)` towards the point `(1, 1)` -/
example : newtonRefineTriangle 55 2 [[0, 1, 2, 0, 2, 0], [0, 0, 0, 1, 2, (2 : ℚ)]] 1 1 (1/4) (1/4)
    = (3/8, 3/8) := by decide +kernel

end BezierVerif.C11
