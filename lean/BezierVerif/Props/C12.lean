import BezierVerif.Lemmas.Green

/-!
# C12 (area part) — the shoelace sums are the Green-theorem boundary integral

`Model.shoelace xs ys` (the transcription of `shoelace_for_area`, with the weights of
`Model.shoelaceTable`) equals `½ ∫₀¹ (x y' − y x') ds` for the polynomial edge with Bernstein
coefficients `xs`, `ys`, for EVERY control net, degrees 1–4; other degrees raise.
`Green.green` is the formal integral on power-basis coefficient lists (`Σ cₖ/(k+1)`), the
Bernstein→power conversion `toPowᵐ` is the explicit binomial expansion.
-/

set_option linter.unusedSectionVars false

namespace BezierVerif.C12

open Model Green

variable {K : Type} [Field K] [CharZero K]

theorem shoelace_is_green_1 (x0 x1 y0 y1 : K) :
    shoelace [x0, x1] [y0, y1] = .ok (green (toPow1 x0 x1) (toPow1 y0 y1)) := by
  simp [shoelace, shoelaceTable, seq, green, toPow1, pmul, padd, psmul, pderiv, pint, List.range, List.range.loop]
  ring

theorem shoelace_is_green_2 (x0 x1 x2 y0 y1 y2 : K) :
    shoelace [x0, x1, x2] [y0, y1, y2] = .ok (green (toPow2 x0 x1 x2) (toPow2 y0 y1 y2)) := by
  simp [shoelace, shoelaceTable, seq, green, toPow2, pmul, padd, psmul, pderiv, pint, List.range, List.range.loop]
  ring

theorem shoelace_is_green_3 (x0 x1 x2 x3 y0 y1 y2 y3 : K) :
    shoelace [x0, x1, x2, x3] [y0, y1, y2, y3] =
      .ok (green (toPow3 x0 x1 x2 x3) (toPow3 y0 y1 y2 y3)) := by
  simp [shoelace, shoelaceTable, seq, green, toPow3, pmul, padd, psmul, pderiv, pint, List.range, List.range.loop]
  ring

theorem shoelace_is_green_4 (x0 x1 x2 x3 x4 y0 y1 y2 y3 y4 : K) :
    shoelace [x0, x1, x2, x3, x4] [y0, y1, y2, y3, y4] =
      .ok (green (toPow4 x0 x1 x2 x3 x4) (toPow4 y0 y1 y2 y3 y4)) := by
  simp [shoelace, shoelaceTable, seq, green, toPow4, pmul, padd, psmul, pderiv, pint, List.range, List.range.loop]
  ring

/-- degrees other than 1..4 raise the unsupported-degree error (never a guessed value) -/
theorem shoelace_unsupported (xs ys : List K) (h2 : xs.length ≠ 2) (h3 : xs.length ≠ 3)
    (h4 : xs.length ≠ 4) (h5 : xs.length ≠ 5) : shoelace xs ys = .error .unsupportedDegree := by
  unfold shoelace
  have : shoelaceTable xs.length = none := by
    unfold shoelaceTable
    split <;> simp_all
  rw [this]

/-- one unsupported edge makes the whole area computation raise -/
theorem area_unsupported_edge (xs ys : List K) (h2 : xs.length ≠ 2) (h3 : xs.length ≠ 3)
    (h4 : xs.length ≠ 4) (h5 : xs.length ≠ 5) : computeArea [[xs, ys]] = .error .unsupportedDegree := by
  simp [computeArea, shoelace_unsupported xs ys h2 h3 h4 h5]

/-- the area of a closed chain is the sum of the edge integrals (here: three edges) -/
theorem area_three_edges (e1 e2 e3 : List (List K)) (a1 a2 a3 : K)
    (h1 : shoelace (e1.getD 0 []) (e1.getD 1 []) = .ok a1)
    (h2 : shoelace (e2.getD 0 []) (e2.getD 1 []) = .ok a2)
    (h3 : shoelace (e3.getD 0 []) (e3.getD 1 []) = .ok a3) :
    computeArea [e1, e2, e3] = .ok (0 + a1 + a2 + a3) := by
  simp only [computeArea, List.foldl_cons, List.foldl_nil, h1, h2, h3]

/-! non-vacuity: the unit right triangle has area 1/2 -/
example : computeArea ([[[0, 1], [0, 0]], [[1, 0], [0, 1]], [[0, 0], [1, 0]]] : List (List (List ℚ))) = .ok (1/2) := by
  decide +kernel

end BezierVerif.C12
