import BezierVerif.Lemmas.LengthReal

/-!
# C12 (length, the defining integral) — chord ≤ length ≤ control polygon, additivity, invariances

Property theorems only; everything is over `ℝ` with Mathlib's interval integral.  For a control net
`nodes : List (List ℝ)` (one row per coordinate, any dimension)

* `speed thr nodes s = √(Model.lengthIntegrandSq thr nodes s)` (Lemmas/LengthReal) is the integrand
  that `compute_length` hands to QUADPACK: the Euclidean norm of `Model.hodograph thr nodes s`
  (`evaluate_hodograph`), `thr` the position of the evaluation-algorithm switch;
* `arcLength thr nodes = ∫ s in 0..1, speed thr nodes s` is the quantity the quadrature
  (Props/C12Quad, Props/C12QuadAdaptive) approximates;
* `norm2 v = √(Σ vᵢ²)` (Lemmas/NormReal), `leg nodes j = ‖v_{j+1} − v_j‖₂`,
  `Deriv.curvePoly row : ℝ[X]` the polynomial map of one coordinate (Props/C11).

No hypothesis on the row lengths is needed except where the statement itself mentions the number of
nodes (polygon bound, closed forms) or the C04 subdivision theorem needs a non-empty row.
-/

set_option linter.unusedSectionVars false
set_option linter.unusedVariables false

namespace BezierVerif.C12

open Polynomial Finset Model BezierVerif BezierVerif.Deriv BezierVerif.NormReal
  BezierVerif.LengthReal

/-! ### the integrand -/

/-- `speed` is the Euclidean norm of the model's hodograph -/
theorem speed_eq_norm_hodograph (thr : ℕ) (nodes : List (List ℝ)) (s : ℝ) :
    speed thr nodes s = norm2 (hodograph thr nodes s) := rfl

/-- … which is the norm of the derivative of the curve's polynomial map: every net, every
    dimension, every degree (with fewer than two nodes both sides vanish) -/
theorem speed_is_norm_of_derivative (thr : ℕ) (nodes : List (List ℝ)) (s : ℝ) :
    speed thr nodes s
      = Real.sqrt ((nodes.map (fun r => (derivative (curvePoly r)).eval s
                                          * (derivative (curvePoly r)).eval s)).sum) := by
  rw [speed_eq_norm2, norm2, normSq_eq_sum, List.map_map]
  rfl

/-- the position of the evaluation-algorithm switch is immaterial -/
theorem speed_switch_irrelevant (thr thr' : ℕ) (nodes : List (List ℝ)) (s : ℝ) :
    speed thr nodes s = speed thr' nodes s := by
  rw [speed_eq_pspeed, speed_eq_pspeed]

theorem arcLength_switch_irrelevant (thr thr' : ℕ) (nodes : List (List ℝ)) :
    arcLength thr nodes = arcLength thr' nodes := by
  rw [arcLength_eq_plen, arcLength_eq_plen]

/-- `arcLength` is literally the integral that Props/C12Quad compares the quadrature model with -/
theorem arcLength_is_quadrature_target (thr : ℕ) (nodes : List (List ℝ)) :
    arcLength thr nodes = ∫ s in (0:ℝ)..1, Real.sqrt (lengthIntegrandSq thr nodes s) := rfl

/-- the integrand is continuous … -/
theorem speed_continuous (thr : ℕ) (nodes : List (List ℝ)) : Continuous (speed thr nodes) :=
  continuous_speed thr nodes

/-- … hence interval integrable on every interval: `arcLength` is a genuine integral -/
theorem speed_intervalIntegrable (thr : ℕ) (nodes : List (List ℝ)) (a b : ℝ) :
    IntervalIntegrable (speed thr nodes) MeasureTheory.volume a b :=
  (continuous_speed thr nodes).intervalIntegrable a b

theorem length_nonneg (thr : ℕ) (nodes : List (List ℝ)) : 0 ≤ arcLength thr nodes :=
  arcLength_nonneg thr nodes

/-! ### chord ≤ length -/

/-- the straight distance between two points of the curve is at most the length of the piece
    between them (any parameters `a ≤ b`, also outside `[0,1]`) -/
theorem chord_le_length_on (thr : ℕ) (nodes : List (List ℝ)) (a b : ℝ) (hab : a ≤ b) :
    norm2 (subRow (evalPoint thr nodes b) (evalPoint thr nodes a))
      ≤ ∫ s in a..b, speed thr nodes s := by
  rw [subRow_evalPoint]
  simp_rw [speed_eq_pspeed]
  exact chord_le_plen _ a b hab

/-- **chord ≤ length**: `‖B(1) − B(0)‖ ≤ ∫₀¹ ‖B'‖`, points as `evaluate_multi` computes them -/
theorem chord_le_length (thr : ℕ) (nodes : List (List ℝ)) :
    norm2 (subRow (evalPoint thr nodes 1) (evalPoint thr nodes 0)) ≤ arcLength thr nodes :=
  chord_le_length_on thr nodes 0 1 (by norm_num)

/-- the same with the end points read off the net (last node minus first node of every row) -/
theorem chord_le_length_nodes (thr : ℕ) (nodes : List (List ℝ)) :
    norm2 (nodes.map (fun r => seq r (r.length - 1) - seq r 0)) ≤ arcLength thr nodes := by
  have h := chord_le_length thr nodes
  rw [subRow_evalPoint, List.map_map] at h
  have e : nodes.map ((fun p : ℝ[X] => p.eval 1 - p.eval 0) ∘ curvePoly)
      = nodes.map (fun r => seq r (r.length - 1) - seq r 0) :=
    List.map_congr_left (fun r _ => by
      simp only [Function.comp]
      rw [eval_one_curvePoly, eval_zero_curvePoly])
  rwa [e] at h

/-! ### length ≤ control polygon -/

/-- **length ≤ control-polygon length** `Σ_j ‖v_{j+1} − v_j‖`, `N` nodes per row, every `N`
    (`N ≤ 1`: both sides are `0`) -/
theorem length_le_polygon (thr : ℕ) (nodes : List (List ℝ)) (N : ℕ)
    (hN : ∀ row ∈ nodes, row.length = N) :
    arcLength thr nodes ≤ ∑ j ∈ range (N - 1), leg nodes j :=
  arcLength_le_polygon thr nodes N hN

/-- written out: the legs are the Euclidean norms of the forward differences of the net -/
theorem length_le_polygon_explicit (thr : ℕ) (nodes : List (List ℝ)) (N : ℕ)
    (hN : ∀ row ∈ nodes, row.length = N) :
    arcLength thr nodes
      ≤ ∑ j ∈ range (N - 1),
          Real.sqrt ((nodes.map (fun r => (seq r (j+1) - seq r j) * (seq r (j+1) - seq r j))).sum) := by
  refine (arcLength_le_polygon thr nodes N hN).trans (le_of_eq ?_)
  apply Finset.sum_congr rfl
  intro j _
  rw [leg, norm2, normSq_eq_sum, List.map_map]
  rfl

/-- the pointwise fact behind it: on `[0,1]` the speed is at most the Bernstein combination
    `Σ_j n b_{j,n-1}(s) ‖Δv_j‖` of the legs (`n = m + 1` the degree) -/
theorem speed_le_weighted_legs (thr : ℕ) (nodes : List (List ℝ)) (m : ℕ)
    (hN : ∀ row ∈ nodes, row.length = m + 2) (s : ℝ) (h0 : 0 ≤ s) (h1 : s ≤ 1) :
    speed thr nodes s
      ≤ ∑ j ∈ range (m+1), ((m+1 : ℕ) : ℝ) * (m.choose j : ℝ) * (1-s)^(m-j) * s^j * leg nodes j := by
  rw [speed_eq_norm2]
  exact velocity_le_weighted_legs nodes m hN s h0 h1

/-! ### additivity over subdivision -/

/-- the left half of `subdivide_nodes` carries the length of the parameter range `[0, ½]` -/
theorem length_left_half (thr thr' : ℕ) (nodes : List (List ℝ)) (h : ∀ row ∈ nodes, 1 ≤ row.length) :
    arcLength thr (Py.subdivide nodes).1 = ∫ s in (0:ℝ)..(1/2), speed thr' nodes s := by
  rw [arcLength_eq_plen, map_curvePoly_subdivide_left nodes h, plen_comp_affine _ _ _ (by norm_num)]
  simp_rw [speed_eq_pspeed]
  norm_num

/-- the right half carries the length of `[½, 1]` -/
theorem length_right_half (thr thr' : ℕ) (nodes : List (List ℝ)) (h : ∀ row ∈ nodes, 1 ≤ row.length) :
    arcLength thr (Py.subdivide nodes).2 = ∫ s in (1/2:ℝ)..1, speed thr' nodes s := by
  rw [arcLength_eq_plen, map_curvePoly_subdivide_right nodes h, plen_comp_affine _ _ _ (by norm_num)]
  simp_rw [speed_eq_pspeed]
  norm_num

/-- **additivity**: the lengths of the two halves of `subdivide_nodes` (Python: matrix products)
    add up to the length of the curve; every degree, every dimension -/
theorem length_additive_subdivision (thr : ℕ) (nodes : List (List ℝ))
    (h : ∀ row ∈ nodes, 1 ≤ row.length) :
    arcLength thr nodes
      = arcLength thr (Py.subdivide nodes).1 + arcLength thr (Py.subdivide nodes).2 := by
  rw [length_left_half thr thr nodes h, length_right_half thr thr nodes h]
  exact (intervalIntegral.integral_add_adjacent_intervals
    (speed_intervalIntegrable thr nodes 0 (1/2)) (speed_intervalIntegrable thr nodes (1/2) 1)).symm

/-- the same for the Fortran routine (closed forms for 2, 3, 4 nodes, in-place Pascal row
    otherwise) -/
theorem length_additive_subdivision_f90 (thr : ℕ) (nodes : List (List ℝ))
    (h : ∀ row ∈ nodes, 1 ≤ row.length) :
    arcLength thr nodes
      = arcLength thr (F90.subdivide nodes).1 + arcLength thr (F90.subdivide nodes).2 := by
  rw [f90_subdivide_eq nodes h]
  exact length_additive_subdivision thr nodes h

/-! ### elevation and reversal -/

/-- degree elevation keeps the speed at every parameter … -/
theorem speed_elevate (thr thr' : ℕ) (nodes : List (List ℝ)) (s : ℝ) :
    speed thr (elevate nodes) s = speed thr' nodes s := by
  rw [speed_eq_pspeed, speed_eq_pspeed]
  unfold elevate
  rw [List.map_map]
  congr 1
  exact List.map_congr_left (fun r _ => curvePoly_elevateRow r)

/-- … hence the length (no hypothesis on the net) -/
theorem length_elevate (thr : ℕ) (nodes : List (List ℝ)) :
    arcLength thr (elevate nodes) = arcLength thr nodes := by
  unfold arcLength
  simp_rw [speed_elevate thr thr nodes]

/-- Fortran's `elevate_nodes` (integer weights) -/
theorem length_elevate_f90 (thr : ℕ) (nodes : List (List ℝ)) :
    arcLength thr (nodes.map F90.elevateRow) = arcLength thr nodes := by
  have : nodes.map F90.elevateRow = elevate nodes := by
    unfold elevate
    exact List.map_congr_left (fun r _ => C08.elevate_variants_agree r)
  rw [this, length_elevate]

/-- the reversed net runs through the same points with the same speed: `‖B_rev'(s)‖ = ‖B'(1−s)‖` -/
theorem speed_reverse (thr thr' : ℕ) (nodes : List (List ℝ)) (s : ℝ) :
    speed thr (Equivariance.reverseNodes nodes) s = speed thr' nodes (1 - s) := by
  rw [speed_eq_pspeed, speed_eq_pspeed]
  have : (Equivariance.reverseNodes nodes).map curvePoly
      = (nodes.map curvePoly).map (fun p => p.comp (C (-1) * X + C 1)) := by
    unfold Equivariance.reverseNodes
    simp only [List.map_map]
    exact List.map_congr_left (fun r _ => curvePoly_reverse r)
  rw [this, pspeed_comp_affine, abs_neg, abs_one, one_mul]
  congr 1; ring

/-- reversal keeps the length (no hypothesis on the net) -/
theorem length_reverse (thr : ℕ) (nodes : List (List ℝ)) :
    arcLength thr (Equivariance.reverseNodes nodes) = arcLength thr nodes := by
  rw [arcLength_eq_plen, arcLength_eq_plen]
  have : (Equivariance.reverseNodes nodes).map curvePoly
      = (nodes.map curvePoly).map (fun p => p.comp (C (-1) * X + C 1)) := by
    unfold Equivariance.reverseNodes
    simp only [List.map_map]
    exact List.map_congr_left (fun r _ => curvePoly_reverse r)
  rw [this, plen_comp_reverse]

/-! ### the closed-form branches of `compute_length` -/

/-- a line: the speed is constant and the length is the chord `‖v₁ − v₀‖` -/
theorem length_line (thr : ℕ) (nodes : List (List ℝ)) (h : ∀ row ∈ nodes, row.length = 2) :
    arcLength thr nodes = norm2 (nodes.map (fun r => seq r 1 - seq r 0)) := by
  unfold arcLength
  simp_rw [speed_line thr nodes h]
  rw [intervalIntegral.integral_const]
  simp [leg]

/-- a single point has length `0` -/
theorem length_point (thr : ℕ) (nodes : List (List ℝ)) (h : ∀ row ∈ nodes, row.length = 1) :
    arcLength thr nodes = 0 := by
  apply le_antisymm _ (arcLength_nonneg thr nodes)
  simpa using arcLength_le_polygon thr nodes 1 h

/-- whenever `compute_length` answers through a closed form (`Model.lengthClosedFormSq`, one or two
    nodes; the model returns the *square*), that answer is the defining integral -/
theorem length_closed_form (thr : ℕ) (nodes : List (List ℝ)) (L2 : ℝ)
    (hN : ∀ row ∈ nodes, row.length = ncols nodes)
    (hc : lengthClosedFormSq nodes = .ok (some L2)) :
    arcLength thr nodes = Real.sqrt L2 := by
  unfold lengthClosedFormSq at hc
  split at hc
  · exact absurd hc (by simp)
  · next h1 =>
    rw [h1] at hN
    have : L2 = 0 := by
      simp only [Except.ok.injEq, Option.some.injEq] at hc
      exact hc.symm
    rw [this, Real.sqrt_zero, length_point thr nodes hN]
  · next h2 =>
    rw [h2] at hN
    simp only [Except.ok.injEq, Option.some.injEq] at hc
    rw [length_line thr nodes hN, ← hc, foldl_sq_map]
    rfl
  · exact absurd hc (by simp)

/-! ### non-vacuity -/

/-- the segment `(0,0) → (3,4)` has length `5` (cf. the closed-form example in Props/C12Quad) -/
example : arcLength 55 [[0, 3], [0, 4]] = 5 := by
  rw [length_line 55 _ (by simp)]
  have : norm2 (([[0, 3], [0, 4]] : List (List ℝ)).map (fun r => seq r 1 - seq r 0)) = Real.sqrt 25 := by
    simp [norm2, normSq, seq]; norm_num
  rw [this, show (25:ℝ) = 5 * 5 by norm_num, Real.sqrt_mul_self (by norm_num)]

example : lengthClosedFormSq ([[0, 3], [0, 4]] : List (List ℝ)) = .ok (some 25) := by
  simp [lengthClosedFormSq, ncols, seq]; norm_num

/-- the cubic `B(s) = (s − s³/3, s²)` (nodes `(0,0), (1/3,0), (2/3,1/3), (2/3,1)`) has speed
    `1 + s²` and length `4/3` (the value the quadrature model returns in Props/C12Quad) … -/
example : (∀ s : ℝ, speed 55 [[0, 1/3, 2/3, 2/3], [0, 0, 1/3, 1]] s = 1 + s^2)
    ∧ arcLength 55 [[0, 1/3, 2/3, 2/3], [0, 0, 1/3, 1]] = 4/3 := by
  have hs : ∀ s : ℝ, speed 55 [[0, 1/3, 2/3, 2/3], [0, 0, 1/3, 1]] s = 1 + s^2 := by
    intro s
    rw [speed_eq_norm2]
    simp only [List.map_cons, List.map_nil]
    rw [deriv_eval_eq_sum _ 2 (by simp), deriv_eval_eq_sum _ 2 (by simp)]
    have e : ∀ x y : ℝ, norm2 [x, y] = Real.sqrt (x * x + y * y) := by
      intro x y; simp [norm2, normSq]
    rw [e]
    have : (∑ j ∈ range (2+1), hw 2 j s * (seq ([0, 1/3, 2/3, 2/3] : List ℝ) (j+1) - seq [0, 1/3, 2/3, 2/3] j))
          * (∑ j ∈ range (2+1), hw 2 j s * (seq ([0, 1/3, 2/3, 2/3] : List ℝ) (j+1) - seq [0, 1/3, 2/3, 2/3] j))
        + (∑ j ∈ range (2+1), hw 2 j s * (seq ([0, 0, 1/3, 1] : List ℝ) (j+1) - seq [0, 0, 1/3, 1] j))
          * (∑ j ∈ range (2+1), hw 2 j s * (seq ([0, 0, 1/3, 1] : List ℝ) (j+1) - seq [0, 0, 1/3, 1] j))
        = (1 + s^2) * (1 + s^2) := by
      simp [Finset.sum_range_succ, hw, seq, Nat.choose]
      ring
    rw [this, Real.sqrt_mul_self (by positivity)]
  refine ⟨hs, ?_⟩
  unfold arcLength
  simp_rw [hs]
  rw [intervalIntegral.integral_add (by simp) (by simp), integral_pow]
  simp
  norm_num

/-- … and the bounds are instantiated on it: hypotheses satisfiable, chord `√13/3`, polygon
    `1/3 + √2/3 + 2/3` -/
example : norm2 [2/3 - 0, 1 - 0] ≤ arcLength 55 [[0, 1/3, 2/3, 2/3], [0, 0, 1/3, 1]] := by
  have h := chord_le_length_nodes 55 [[0, 1/3, 2/3, 2/3], [0, 0, 1/3, 1]]
  simpa [seq] using h

example : arcLength 55 [[0, 1/3, 2/3, 2/3], [0, 0, 1/3, 1]]
    ≤ ∑ j ∈ range (4 - 1), leg [[0, 1/3, 2/3, 2/3], [0, 0, 1/3, 1]] j :=
  length_le_polygon 55 _ 4 (by simp)

example : arcLength 55 ([[0, 1/3, 2/3, 2/3], [0, 0, 1/3, 1]] : List (List ℝ))
    = arcLength 55 (Py.subdivide [[0, 1/3, 2/3, 2/3], [0, 0, 1/3, 1]]).1
      + arcLength 55 (Py.subdivide [[0, 1/3, 2/3, 2/3], [0, 0, 1/3, 1]]).2 :=
  length_additive_subdivision 55 _ (by simp)

end BezierVerif.C12
