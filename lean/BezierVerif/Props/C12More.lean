import BezierVerif.Lemmas.TriDeriv
import BezierVerif.Lemmas.Green

/-!
# C12 (area, continued) — the area of a triangle is the double integral of its Jacobian
# determinant; it does not change under edge elevation and is additive under edge subdivision

Property theorems only.

* `TriD.triIntegral : K[s,t] →ₗ[K] K` is the formal double integral over the reference triangle
  `Δ = {s, t ≥ 0, s + t ≤ 1}`: the linear functional with `∫∫_Δ s^a t^b = a! b! / (a+b+2)!`
  (`tri_integral_monomial`); `TriD.jacDetPoly d xs ys = x_s·y_t − x_t·y_s ∈ K[s,t]` with Mathlib's
  `MvPolynomial.pderiv` of the coordinate polynomials `TriD.surfPoly` (Props/C11Triangle: its value
  at `(s,t)` is what `jacobian_det` computes, `det_integrand_is_jacobian_det`).
* `triangle_area_is_det_integral_1 … 4`: `Model.computeArea` (the transcription of `compute_area` /
  `shoelace_for_area`) applied to the three edges produced by `Model.computeEdgeNodes` equals
  `∫∫_Δ det J`, for EVERY control net of degree 1, 2, 3, 4 (all degrees the library supports:
  other edge degrees raise, Props/C12 `shoelace_unsupported`).
* `area_invariant_under_edge_elevation_1 … 3`: elevating an edge (`Model.elevateRow`, C08) does not
  change its shoelace value; `area_additive_under_subdivision_1 … 4`: the shoelace value of an edge
  is the sum of those of its two halves (`Model.Py.subdivideRow`, C04).
-/

set_option linter.unusedSectionVars false
set_option linter.unusedVariables false
set_option linter.unusedSimpArgs false

namespace BezierVerif.C12

open Model MvPolynomial BezierVerif BezierVerif.TriD

variable {K : Type} [Field K] [CharZero K]

/-! ### the formal integral and its integrand -/

/-- the defining values of the formal double integral: `∫∫_Δ c·s^a t^b = c · a! b! / (a+b+2)!` -/
theorem tri_integral_monomial (c : K) (a b : ℕ) :
    triIntegral (C c * (X 0 ^ a * X 1 ^ b))
      = c * (((a.factorial * b.factorial : ℕ) : K) / (((a + b + 2).factorial : ℕ) : K)) :=
  triIntegral_C_mul_X_pow c a b

/-- the area of the reference triangle itself is `1/2` -/
theorem tri_integral_one : triIntegral (1 : MvPolynomial (Fin 2) K) = 1 / 2 := by
  have h := triIntegral_C_mul_X_pow (1 : K) 0 0
  simp only [pow_zero, mul_one, map_one] at h
  rw [h]; simp [triMonomialIntegral, Nat.factorial]

/-- the integrand evaluates to the library's `jacobian_det` (every degree `d ≥ 1`) -/
theorem det_integrand_is_jacobian_det [DecidableEq K] (thr d : ℕ) (hd : 1 ≤ d) (xs ys : List K) (s t : K) :
    eval ![s, t] (jacDetPoly d xs ys) = jacobianDet thr d [xs, ys] s t :=
  eval_jacDetPoly thr d hd xs ys s t

/-! ### 8: area = ∫∫ det J

FULL (not proved): the same statement for every degree `d` for which `compute_area` does not raise
is exactly the four theorems below (edge degree ≤ 4); a degree-independent proof (a formal Green
theorem for `triIntegral`) is not given. -/

/-- degree 1: `compute_area` of the three edges returned by `compute_edge_nodes` is the double
    integral of the Jacobian determinant over the reference triangle, for every control net -/
theorem triangle_area_is_det_integral_1 (x0 x1 x2 y0 y1 y2 : K) :
    computeArea [(computeEdgeNodes 1 [[x0, x1, x2], [y0, y1, y2]]).1,
        (computeEdgeNodes 1 [[x0, x1, x2], [y0, y1, y2]]).2.1,
        (computeEdgeNodes 1 [[x0, x1, x2], [y0, y1, y2]]).2.2]
      = .ok (triIntegral (jacDetPoly 1 [x0, x1, x2] [y0, y1, y2])) := by
  rw [jacDetPoly_eq 1 (by norm_num)]
  have e1 : jacobianSRow 1 [x0, x1, x2] = [((1:ℕ):K) * (x1 - x0)] := rfl
  have e2 : jacobianTRow 1 [x0, x1, x2] = [((1:ℕ):K) * (x2 - x0)] := rfl
  have e3 : jacobianSRow 1 [y0, y1, y2] = [((1:ℕ):K) * (y1 - y0)] := rfl
  have e4 : jacobianTRow 1 [y0, y1, y2] = [((1:ℕ):K) * (y2 - y0)] := rfl
  rw [e1, e2, e3, e4]
  simp only [Nat.sub_self]
  rw [triIntegral_det_0]
  simp [computeArea, computeEdgeNodes, computeEdgeNodesRow, edgeLoop, shoelace, shoelaceTable, seq,
    triMonomialIntegral, Nat.factorial]
  ring

/-- degree 2: `compute_area` of the three edges returned by `compute_edge_nodes` is the double
    integral of the Jacobian determinant over the reference triangle, for every control net -/
theorem triangle_area_is_det_integral_2 (x0 x1 x2 x3 x4 x5 y0 y1 y2 y3 y4 y5 : K) :
    computeArea [(computeEdgeNodes 2 [[x0, x1, x2, x3, x4, x5], [y0, y1, y2, y3, y4, y5]]).1,
        (computeEdgeNodes 2 [[x0, x1, x2, x3, x4, x5], [y0, y1, y2, y3, y4, y5]]).2.1,
        (computeEdgeNodes 2 [[x0, x1, x2, x3, x4, x5], [y0, y1, y2, y3, y4, y5]]).2.2]
      = .ok (triIntegral (jacDetPoly 2 [x0, x1, x2, x3, x4, x5] [y0, y1, y2, y3, y4, y5])) := by
  rw [jacDetPoly_eq 2 (by norm_num)]
  have e1 : jacobianSRow 2 [x0, x1, x2, x3, x4, x5] = [((2:ℕ):K) * (x1 - x0), ((2:ℕ):K) * (x2 - x1), ((2:ℕ):K) * (x4 - x3)] := rfl
  have e2 : jacobianTRow 2 [x0, x1, x2, x3, x4, x5] = [((2:ℕ):K) * (x3 - x0), ((2:ℕ):K) * (x4 - x1), ((2:ℕ):K) * (x5 - x3)] := rfl
  have e3 : jacobianSRow 2 [y0, y1, y2, y3, y4, y5] = [((2:ℕ):K) * (y1 - y0), ((2:ℕ):K) * (y2 - y1), ((2:ℕ):K) * (y4 - y3)] := rfl
  have e4 : jacobianTRow 2 [y0, y1, y2, y3, y4, y5] = [((2:ℕ):K) * (y3 - y0), ((2:ℕ):K) * (y4 - y1), ((2:ℕ):K) * (y5 - y3)] := rfl
  rw [e1, e2, e3, e4]
  simp only [Nat.add_one_sub_one]
  rw [triIntegral_det_1]
  simp [computeArea, computeEdgeNodes, computeEdgeNodesRow, edgeLoop, shoelace, shoelaceTable, seq,
    triMonomialIntegral, Nat.factorial]
  ring

/-- degree 3: `compute_area` of the three edges returned by `compute_edge_nodes` is the double
    integral of the Jacobian determinant over the reference triangle, for every control net -/
theorem triangle_area_is_det_integral_3 (x0 x1 x2 x3 x4 x5 x6 x7 x8 x9 y0 y1 y2 y3 y4 y5 y6 y7 y8 y9 : K) :
    computeArea [(computeEdgeNodes 3 [[x0, x1, x2, x3, x4, x5, x6, x7, x8, x9], [y0, y1, y2, y3, y4, y5, y6, y7, y8, y9]]).1,
        (computeEdgeNodes 3 [[x0, x1, x2, x3, x4, x5, x6, x7, x8, x9], [y0, y1, y2, y3, y4, y5, y6, y7, y8, y9]]).2.1,
        (computeEdgeNodes 3 [[x0, x1, x2, x3, x4, x5, x6, x7, x8, x9], [y0, y1, y2, y3, y4, y5, y6, y7, y8, y9]]).2.2]
      = .ok (triIntegral (jacDetPoly 3 [x0, x1, x2, x3, x4, x5, x6, x7, x8, x9] [y0, y1, y2, y3, y4, y5, y6, y7, y8, y9])) := by
  rw [jacDetPoly_eq 3 (by norm_num)]
  have e1 : jacobianSRow 3 [x0, x1, x2, x3, x4, x5, x6, x7, x8, x9] = [((3:ℕ):K) * (x1 - x0), ((3:ℕ):K) * (x2 - x1), ((3:ℕ):K) * (x3 - x2), ((3:ℕ):K) * (x5 - x4), ((3:ℕ):K) * (x6 - x5), ((3:ℕ):K) * (x8 - x7)] := rfl
  have e2 : jacobianTRow 3 [x0, x1, x2, x3, x4, x5, x6, x7, x8, x9] = [((3:ℕ):K) * (x4 - x0), ((3:ℕ):K) * (x5 - x1), ((3:ℕ):K) * (x6 - x2), ((3:ℕ):K) * (x7 - x4), ((3:ℕ):K) * (x8 - x5), ((3:ℕ):K) * (x9 - x7)] := rfl
  have e3 : jacobianSRow 3 [y0, y1, y2, y3, y4, y5, y6, y7, y8, y9] = [((3:ℕ):K) * (y1 - y0), ((3:ℕ):K) * (y2 - y1), ((3:ℕ):K) * (y3 - y2), ((3:ℕ):K) * (y5 - y4), ((3:ℕ):K) * (y6 - y5), ((3:ℕ):K) * (y8 - y7)] := rfl
  have e4 : jacobianTRow 3 [y0, y1, y2, y3, y4, y5, y6, y7, y8, y9] = [((3:ℕ):K) * (y4 - y0), ((3:ℕ):K) * (y5 - y1), ((3:ℕ):K) * (y6 - y2), ((3:ℕ):K) * (y7 - y4), ((3:ℕ):K) * (y8 - y5), ((3:ℕ):K) * (y9 - y7)] := rfl
  rw [e1, e2, e3, e4]
  simp only [Nat.add_one_sub_one]
  rw [triIntegral_det_2]
  simp [computeArea, computeEdgeNodes, computeEdgeNodesRow, edgeLoop, shoelace, shoelaceTable, seq,
    triMonomialIntegral, Nat.factorial]
  ring

set_option maxHeartbeats 1600000 in
/-- degree 4: `compute_area` of the three edges returned by `compute_edge_nodes` is the double
    integral of the Jacobian determinant over the reference triangle, for every control net -/
theorem triangle_area_is_det_integral_4 (x0 x1 x2 x3 x4 x5 x6 x7 x8 x9 x10 x11 x12 x13 x14 y0 y1 y2 y3 y4 y5 y6 y7 y8 y9 y10 y11 y12 y13 y14 : K) :
    computeArea [(computeEdgeNodes 4 [[x0, x1, x2, x3, x4, x5, x6, x7, x8, x9, x10, x11, x12, x13, x14], [y0, y1, y2, y3, y4, y5, y6, y7, y8, y9, y10, y11, y12, y13, y14]]).1,
        (computeEdgeNodes 4 [[x0, x1, x2, x3, x4, x5, x6, x7, x8, x9, x10, x11, x12, x13, x14], [y0, y1, y2, y3, y4, y5, y6, y7, y8, y9, y10, y11, y12, y13, y14]]).2.1,
        (computeEdgeNodes 4 [[x0, x1, x2, x3, x4, x5, x6, x7, x8, x9, x10, x11, x12, x13, x14], [y0, y1, y2, y3, y4, y5, y6, y7, y8, y9, y10, y11, y12, y13, y14]]).2.2]
      = .ok (triIntegral (jacDetPoly 4 [x0, x1, x2, x3, x4, x5, x6, x7, x8, x9, x10, x11, x12, x13, x14] [y0, y1, y2, y3, y4, y5, y6, y7, y8, y9, y10, y11, y12, y13, y14])) := by
  rw [jacDetPoly_eq 4 (by norm_num)]
  have e1 : jacobianSRow 4 [x0, x1, x2, x3, x4, x5, x6, x7, x8, x9, x10, x11, x12, x13, x14] = [((4:ℕ):K) * (x1 - x0), ((4:ℕ):K) * (x2 - x1), ((4:ℕ):K) * (x3 - x2), ((4:ℕ):K) * (x4 - x3), ((4:ℕ):K) * (x6 - x5), ((4:ℕ):K) * (x7 - x6), ((4:ℕ):K) * (x8 - x7), ((4:ℕ):K) * (x10 - x9), ((4:ℕ):K) * (x11 - x10), ((4:ℕ):K) * (x13 - x12)] := rfl
  have e2 : jacobianTRow 4 [x0, x1, x2, x3, x4, x5, x6, x7, x8, x9, x10, x11, x12, x13, x14] = [((4:ℕ):K) * (x5 - x0), ((4:ℕ):K) * (x6 - x1), ((4:ℕ):K) * (x7 - x2), ((4:ℕ):K) * (x8 - x3), ((4:ℕ):K) * (x9 - x5), ((4:ℕ):K) * (x10 - x6), ((4:ℕ):K) * (x11 - x7), ((4:ℕ):K) * (x12 - x9), ((4:ℕ):K) * (x13 - x10), ((4:ℕ):K) * (x14 - x12)] := rfl
  have e3 : jacobianSRow 4 [y0, y1, y2, y3, y4, y5, y6, y7, y8, y9, y10, y11, y12, y13, y14] = [((4:ℕ):K) * (y1 - y0), ((4:ℕ):K) * (y2 - y1), ((4:ℕ):K) * (y3 - y2), ((4:ℕ):K) * (y4 - y3), ((4:ℕ):K) * (y6 - y5), ((4:ℕ):K) * (y7 - y6), ((4:ℕ):K) * (y8 - y7), ((4:ℕ):K) * (y10 - y9), ((4:ℕ):K) * (y11 - y10), ((4:ℕ):K) * (y13 - y12)] := rfl
  have e4 : jacobianTRow 4 [y0, y1, y2, y3, y4, y5, y6, y7, y8, y9, y10, y11, y12, y13, y14] = [((4:ℕ):K) * (y5 - y0), ((4:ℕ):K) * (y6 - y1), ((4:ℕ):K) * (y7 - y2), ((4:ℕ):K) * (y8 - y3), ((4:ℕ):K) * (y9 - y5), ((4:ℕ):K) * (y10 - y6), ((4:ℕ):K) * (y11 - y7), ((4:ℕ):K) * (y12 - y9), ((4:ℕ):K) * (y13 - y10), ((4:ℕ):K) * (y14 - y12)] := rfl
  rw [e1, e2, e3, e4]
  simp only [Nat.add_one_sub_one]
  rw [triIntegral_det_3]
  simp [computeArea, computeEdgeNodes, computeEdgeNodesRow, edgeLoop, shoelace, shoelaceTable, seq,
    triMonomialIntegral, Nat.factorial]
  ring

/-! ### 9: edge elevation and edge subdivision -/

theorem area_invariant_under_edge_elevation_1 (x0 x1 y0 y1 : K) :
    shoelace (elevateRow [x0, x1]) (elevateRow [y0, y1]) = shoelace [x0, x1] [y0, y1] := by
  simp [shoelace, shoelaceTable, elevateRow, seq, List.range_succ]
  field_simp
  ring

theorem area_invariant_under_edge_elevation_2 (x0 x1 x2 y0 y1 y2 : K) :
    shoelace (elevateRow [x0, x1, x2]) (elevateRow [y0, y1, y2]) = shoelace [x0, x1, x2] [y0, y1, y2] := by
  simp [shoelace, shoelaceTable, elevateRow, seq, List.range_succ]
  field_simp
  ring

theorem area_invariant_under_edge_elevation_3 (x0 x1 x2 x3 y0 y1 y2 y3 : K) :
    shoelace (elevateRow [x0, x1, x2, x3]) (elevateRow [y0, y1, y2, y3]) = shoelace [x0, x1, x2, x3] [y0, y1, y2, y3] := by
  simp [shoelace, shoelaceTable, elevateRow, seq, List.range_succ]
  field_simp
  ring

theorem area_additive_under_subdivision_1 (x0 x1 y0 y1 : K) :
    ∃ a al ar : K, shoelace [x0, x1] [y0, y1] = .ok a ∧
      shoelace (Py.subdivideRow [x0, x1]).1 (Py.subdivideRow [y0, y1]).1 = .ok al ∧
      shoelace (Py.subdivideRow [x0, x1]).2 (Py.subdivideRow [y0, y1]).2 = .ok ar ∧ a = al + ar := by
  rw [subdivideRow_2, subdivideRow_2]
  refine ⟨_, _, _, rfl, rfl, rfl, ?_⟩
  simp [seq]
  field_simp
  ring

theorem area_additive_under_subdivision_2 (x0 x1 x2 y0 y1 y2 : K) :
    ∃ a al ar : K, shoelace [x0, x1, x2] [y0, y1, y2] = .ok a ∧
      shoelace (Py.subdivideRow [x0, x1, x2]).1 (Py.subdivideRow [y0, y1, y2]).1 = .ok al ∧
      shoelace (Py.subdivideRow [x0, x1, x2]).2 (Py.subdivideRow [y0, y1, y2]).2 = .ok ar ∧ a = al + ar := by
  rw [subdivideRow_3, subdivideRow_3]
  refine ⟨_, _, _, rfl, rfl, rfl, ?_⟩
  simp [seq]
  field_simp
  ring

theorem area_additive_under_subdivision_3 (x0 x1 x2 x3 y0 y1 y2 y3 : K) :
    ∃ a al ar : K, shoelace [x0, x1, x2, x3] [y0, y1, y2, y3] = .ok a ∧
      shoelace (Py.subdivideRow [x0, x1, x2, x3]).1 (Py.subdivideRow [y0, y1, y2, y3]).1 = .ok al ∧
      shoelace (Py.subdivideRow [x0, x1, x2, x3]).2 (Py.subdivideRow [y0, y1, y2, y3]).2 = .ok ar ∧ a = al + ar := by
  rw [subdivideRow_4, subdivideRow_4]
  refine ⟨_, _, _, rfl, rfl, rfl, ?_⟩
  simp [seq]
  field_simp
  ring

theorem area_additive_under_subdivision_4 (x0 x1 x2 x3 x4 y0 y1 y2 y3 y4 : K) :
    ∃ a al ar : K, shoelace [x0, x1, x2, x3, x4] [y0, y1, y2, y3, y4] = .ok a ∧
      shoelace (Py.subdivideRow [x0, x1, x2, x3, x4]).1 (Py.subdivideRow [y0, y1, y2, y3, y4]).1 = .ok al ∧
      shoelace (Py.subdivideRow [x0, x1, x2, x3, x4]).2 (Py.subdivideRow [y0, y1, y2, y3, y4]).2 = .ok ar ∧ a = al + ar := by
  rw [subdivideRow_5, subdivideRow_5]
  refine ⟨_, _, _, rfl, rfl, rfl, ?_⟩
  simp [seq]
  field_simp
  ring

/-- in terms of `compute_area`: replacing an edge of a chain by its two halves does not change the
    area (shown for a one-edge chain, cubic edge) -/
theorem compute_area_subdivided_edge_3 (x0 x1 x2 x3 y0 y1 y2 y3 : K) :
    computeArea [[(Py.subdivideRow [x0, x1, x2, x3]).1, (Py.subdivideRow [y0, y1, y2, y3]).1],
        [(Py.subdivideRow [x0, x1, x2, x3]).2, (Py.subdivideRow [y0, y1, y2, y3]).2]]
      = computeArea [[[x0, x1, x2, x3], [y0, y1, y2, y3]]] := by
  rw [subdivideRow_4, subdivideRow_4]
  simp [computeArea, shoelace, shoelaceTable, seq]
  field_simp
  ring

/-! ### 10: non-vacuity (ℚ, kernel evaluation) -/

/-- a curved quadratic triangle: the three shoelace values add up to `10/3` -/
example : computeArea [(computeEdgeNodes 2 [[0, 1, 2, 0, 2, 0], [0, 0, 0, 1, 2, (2 : ℚ)]]).1,
    (computeEdgeNodes 2 [[0, 1, 2, 0, 2, 0], [0, 0, 0, 1, 2, (2 : ℚ)]]).2.1,
    (computeEdgeNodes 2 [[0, 1, 2, 0, 2, 0], [0, 0, 0, 1, 2, (2 : ℚ)]]).2.2] = .ok (10/3) := by
  decide +kernel

example : shoelace (elevateRow [0, 1, (3 : ℚ)]) (elevateRow [0, 2, (1 : ℚ)]) = .ok (-5/3) := by
  decide +kernel

example : shoelace [0, 1, (3 : ℚ)] [0, 2, (1 : ℚ)] = .ok (-5/3) := by decide +kernel

example : (Py.subdivideRow [0, 1, (3 : ℚ)]) = ([0, 1/2, 5/4], [5/4, 2, 3]) := by decide +kernel

end BezierVerif.C12
