import BezierVerif.Lemmas.Quadrature
import BezierVerif.Lemmas.QuadratureReal

/-!
# C12 (length part) — the first step of the length quadrature

`Curve.length` = `compute_length` = QUADPACK `dqagse` applied to the speed `‖B'(s)‖₂` on `[0,1]`.
`Model.Quad.qk21` transcribes the 21-point Gauss–Kronrod rule `dqk21` that `dqagse` applies first,
`Model.Quad.agseFirstStep` the statements of `dqagse` up to its first exit, `Model.Quad.lengthFirstStep`
the routine `compute_length` cut after that first step.  The theorems hold for EVERY table
`T : QKTables K` that passes the Boolean obligations `kronrodMomentsOK T 32 εK`,
`gaussMomentsOK T 20 εG` (the even moments `Σ wᵢ xᵢ^m` are `2/(m+1)` up to `ε`; odd ones vanish
structurally), which Tables/C12Quad discharges for the literals extracted from quadpack.f90 with
`εK = 10⁻³³`, `εG = 2·10⁻³³`.

`polySum cs x = Σ c_k x^k`, `polyInt cs a b = Σ c_k (b^(k+1) − a^(k+1))/(k+1)` (the integral),
`polyBound cs M = Σ |c_k| M^k` (Lemmas/Quadrature).  External and left as parameters: `sqrtK`
(square root of the speed) and `pow15` (the real power `x^1.5` of the error heuristic).
NOT covered: the bisection loop of `dqagse`, `dqelg`, `dqpsrt` (not modelled).
-/

set_option linter.unusedSectionVars false

namespace BezierVerif.C12

open Finset BezierVerif.Model BezierVerif.Model.Quad BezierVerif.QuadLemmas

variable {K : Type} [Field K] [LinearOrder K] [IsStrictOrderedRing K]

/-! ### (a) the rule is linear and affinely invariant -/

/-- `dqk21` is linear in the integrand (result, and both embedded sums) -/
theorem qk21_linear (T : QKTables K) (f g : K → K) (α β a b : K) :
    (qk21 T (fun x => α * f x + β * g x) a b).result
        = α * (qk21 T f a b).result + β * (qk21 T g a b).result
    ∧ (qk21 T (fun x => α * f x + β * g x) a b).resk = α * (qk21 T f a b).resk + β * (qk21 T g a b).resk
    ∧ (qk21 T (fun x => α * f x + β * g x) a b).resg = α * (qk21 T f a b).resg + β * (qk21 T g a b).resg := by
  have hk : (qk21 T (fun x => α * f x + β * g x) a b).resk = α * (qk21 T f a b).resk + β * (qk21 T g a b).resk := by
    simp only [qk21_resk, kronrodRule]
    rw [symRule_add, symRule_smul, symRule_smul]
  have hg : (qk21 T (fun x => α * f x + β * g x) a b).resg = α * (qk21 T f a b).resg + β * (qk21 T g a b).resg := by
    simp only [qk21_resg, gaussRule]
    rw [symRule_add, symRule_smul, symRule_smul]
  refine ⟨?_, hk, hg⟩
  rw [qk21_result, qk21_result, qk21_result, hk]
  ring

/-- `dqk21` on `[a, b]` is `(b − a)/2` times `dqk21` on `[-1, 1]` of the affinely transplanted integrand -/
theorem qk21_affine (T : QKTables K) (f : K → K) (a b : K) :
    (qk21 T f a b).result
      = (b - a) / 2 * (qk21 T (fun t => f ((a + b) / 2 + (b - a) / 2 * t)) (-1) 1).result := by
  rw [qk21_result, qk21_result, qk21_resk, qk21_resk, centr_neg_one_one, hlgth_neg_one_one]
  simp only [zero_add, one_mul, mul_one]
  have hc : centr a b = (a + b) / 2 := by unfold centr; ring
  have hh : hlgth a b = (b - a) / 2 := by unfold hlgth; ring
  rw [hc, hh]
  ring

/-- the rule is the explicit symmetric 21-point sum: centre `wgk(11)`, pairs `wgk(i)` at
    `centr ± hlgth·xgk(i)`, `i = 1..10` (`xgk(11)` is never read) -/
theorem qk21_is_symmetric_sum (T : QKTables K) (f : K → K) (a b : K) :
    (qk21 T f a b).result
      = (seq T.wgk 10 * f (centr a b)
          + ∑ i ∈ range 10, seq T.wgk i * (f (centr a b - hlgth a b * seq T.xgk i)
              + f (centr a b + hlgth a b * seq T.xgk i))) * hlgth a b := by
  rw [qk21_result, qk21_resk]
  simp only [kronrodRule, symRule, mul_zero, add_zero, mul_neg, ← sub_eq_add_neg]

/-! ### (b) exactness on polynomials -/

/-- **the 21-point rule integrates every polynomial of degree ≤ 31 exactly up to the moment
    residual**: `|result − ∫_a^b p| ≤ ε · |b − a|/2 · Σ_k |c_k| max(|a|,|b|)^k` -/
theorem qk21_exact_on_polynomials (T : QKTables K) (ε : K) (hK : kronrodMomentsOK T 32 ε = true)
    (cs : List K) (hlen : cs.length ≤ 32) (a b : K) :
    |(qk21 T (polyEval cs) a b).result - polyInt cs a b|
      ≤ ε * (|b - a| / 2) * polyBound cs (max |a| |b|) := by
  have h := symRule_poly_error 10 (seq T.wgk 10) (seq T.wgk) (seq T.xgk) 32 ε
    (kronrodMomentsOK_spec T 32 ε hK) cs hlen (centr a b) (hlgth a b)
  have ha : centr a b - hlgth a b = a := by unfold centr hlgth; ring
  have hb : centr a b + hlgth a b = b := by unfold centr hlgth; ring
  have hh : |hlgth a b| = |b - a| / 2 := by
    unfold hlgth
    rw [abs_mul, abs_of_pos (by positivity : (0 : K) < 1 / (1 + 1))]
    ring
  rw [abs_add_abs_eq_max, ha, hb, hh] at h
  rw [qk21_result, qk21_resk, mul_comm]
  have e : (fun t => polyEval cs (centr a b + hlgth a b * t)) = fun t => polySum cs (centr a b + hlgth a b * t) := by
    funext t; rw [polyEval_eq_polySum]
  rw [e]
  exact h

/-- the embedded 10-point Gauss rule (`resg·hlgth`) is exact up to `εG` for degree ≤ 19 -/
theorem gauss_exact_on_polynomials (T : QKTables K) (ε : K) (hG : gaussMomentsOK T 20 ε = true)
    (cs : List K) (hlen : cs.length ≤ 20) (a b : K) :
    |(qk21 T (polyEval cs) a b).resg * hlgth a b - polyInt cs a b|
      ≤ ε * (|b - a| / 2) * polyBound cs (max |a| |b|) := by
  have h := symRule_poly_error 5 0 (seq T.wg) (fun j => seq T.xgk (2 * j + 1)) 20 ε
    (gaussMomentsOK_spec T 20 ε hG) cs hlen (centr a b) (hlgth a b)
  have ha : centr a b - hlgth a b = a := by unfold centr hlgth; ring
  have hb : centr a b + hlgth a b = b := by unfold centr hlgth; ring
  have hh : |hlgth a b| = |b - a| / 2 := by
    unfold hlgth
    rw [abs_mul, abs_of_pos (by positivity : (0 : K) < 1 / (1 + 1))]
    ring
  rw [abs_add_abs_eq_max, ha, hb, hh] at h
  rw [qk21_resg, mul_comm]
  have e : (fun t => polyEval cs (centr a b + hlgth a b * t)) = fun t => polySum cs (centr a b + hlgth a b * t) := by
    funext t; rw [polyEval_eq_polySum]
  rw [e]
  exact h

/-- odd moments of both rules vanish for every table (symmetry of the node set, not a numerical fact) -/
theorem odd_moments_vanish (T : QKTables K) (m : ℕ) (hm : Odd m) :
    (qk21 T (fun t => t ^ m) (-1) 1).result = 0 ∧ (qk21 T (fun t => t ^ m) (-1) 1).resg = 0 := by
  rw [qk21_result, qk21_resk, qk21_resg, centr_neg_one_one, hlgth_neg_one_one]
  simp only [zero_add, one_mul, mul_one]
  exact ⟨symRule_odd _ _ _ _ m hm, symRule_odd _ _ _ _ m hm⟩

/-! ### (d) the error estimate on low-degree polynomials and the acceptance test -/

/-- **the raw Gauss–Kronrod difference `|(resk − resg)·hlgth|` is ≤ `(εK + εG)·…` on polynomials
    of degree ≤ 19** (both embedded rules are exact there) -/
theorem qk21_rawErr_small (T : QKTables K) (εK εG : K) (hK : kronrodMomentsOK T 32 εK = true)
    (hG : gaussMomentsOK T 20 εG = true) (cs : List K) (hlen : cs.length ≤ 20) (a b : K) :
    (qk21 T (polyEval cs) a b).rawErr ≤ (εK + εG) * (|b - a| / 2) * polyBound cs (max |a| |b|) := by
  have h1 := qk21_exact_on_polynomials T εK hK cs (by omega) a b
  have h2 := gauss_exact_on_polynomials T εG hG cs hlen a b
  rw [qk21_result] at h1
  rw [qk21_rawErr]
  have e : ((qk21 T (polyEval cs) a b).resk - (qk21 T (polyEval cs) a b).resg) * hlgth a b
      = ((qk21 T (polyEval cs) a b).resk * hlgth a b - polyInt cs a b)
        - ((qk21 T (polyEval cs) a b).resg * hlgth a b - polyInt cs a b) := by ring
  rw [e]
  calc _ ≤ |(qk21 T (polyEval cs) a b).resk * hlgth a b - polyInt cs a b|
          + |(qk21 T (polyEval cs) a b).resg * hlgth a b - polyInt cs a b| := abs_sub _ _
    _ ≤ εK * (|b - a| / 2) * polyBound cs (max |a| |b|) + εG * (|b - a| / 2) * polyBound cs (max |a| |b|) :=
        add_le_add h1 h2
    _ = _ := by ring

/-- the error heuristic of `dqk21` never exceeds `max(50·epmach·resabs, 200·raw)`, for any
    `pow15` that is below the identity on `[0,1]` (true for `x ↦ x^1.5`) -/
theorem qk21Abserr_le (pow15 : K → K) (hpow : ∀ t, 0 ≤ t → t ≤ 1 → pow15 t ≤ t) (epmach uflow : K)
    (r : QK21 K) (hraw : 0 ≤ r.rawErr) (hasc : 0 ≤ r.resasc) :
    qk21Abserr pow15 epmach uflow r ≤ max (epmach * 50 * r.resabs) (200 * r.rawErr) := by
  have h1 : (if r.resasc ≠ 0 ∧ r.rawErr ≠ 0 then
      r.resasc * qmin 1 (pow15 (((200 : ℕ) : K) * r.rawErr / r.resasc)) else r.rawErr) ≤ 200 * r.rawErr := by
    split
    · next hc =>
      have hpos : 0 < r.resasc := lt_of_le_of_ne hasc (Ne.symm hc.1)
      rw [qmin_eq_min]
      have ht0 : 0 ≤ ((200 : ℕ) : K) * r.rawErr / r.resasc := by positivity
      by_cases ht1 : ((200 : ℕ) : K) * r.rawErr / r.resasc ≤ 1
      · calc r.resasc * min 1 (pow15 (((200 : ℕ) : K) * r.rawErr / r.resasc))
            ≤ r.resasc * (((200 : ℕ) : K) * r.rawErr / r.resasc) :=
              mul_le_mul_of_nonneg_left (le_trans (min_le_right _ _) (hpow _ ht0 ht1)) hasc
          _ = 200 * r.rawErr := by field_simp; push_cast; ring
      · have : r.resasc < ((200 : ℕ) : K) * r.rawErr := by
          have := not_le.mp ht1
          rwa [lt_div_iff₀ hpos, one_mul] at this
        calc r.resasc * min 1 (pow15 (((200 : ℕ) : K) * r.rawErr / r.resasc))
            ≤ r.resasc * 1 := mul_le_mul_of_nonneg_left (min_le_left _ _) hasc
          _ ≤ 200 * r.rawErr := by push_cast at this; linarith
    · linarith
  unfold qk21Abserr
  simp only []
  split
  · rw [qmax_eq_max]
    push_cast
    exact max_le_max (le_refl _) h1
  · exact le_trans h1 (le_max_right _ _)

/-- **acceptance after the first step**: if the error bound `errbnd = max(epsabs, epsrel·|result|)`
    dominates `200·raw` and `50·epmach·resabs`, and the estimate is not the saturated value
    `resasc`, the transcribed `dqagse` takes `go to 140` with `ier = 0` and returns the result of
    the single `dqk21` call -/
theorem agse_accepts_first_step (pow15 : K → K) (hpow : ∀ t, 0 ≤ t → t ≤ 1 → pow15 t ≤ t)
    (epmach uflow floor28 : K) (T : QKTables K) (hs : shapeOK T = true) (hw : weightsPositive T = true)
    (f : K → K) (a b epsabs epsrel : K) (limit : ℕ) (heps : 0 < epsabs) (hlim : limit ≠ 1)
    (h200 : 200 * (qk21 T f a b).rawErr ≤ max epsabs (epsrel * |(qk21 T f a b).result|))
    (h50 : epmach * 50 * (qk21 T f a b).resabs ≤ max epsabs (epsrel * |(qk21 T f a b).result|))
    (hne : qk21Abserr pow15 epmach uflow (qk21 T f a b) ≠ (qk21 T f a b).resasc) :
    agseFirstStep pow15 epmach uflow floor28 T f a b epsabs epsrel limit
      = { result := (qk21 T f a b).result, abserr := qk21Abserr pow15 epmach uflow (qk21 T f a b),
          ier := 0, done := true } := by
  have hraw : 0 ≤ (qk21 T f a b).rawErr := by rw [qk21_rawErr]; exact abs_nonneg _
  have hasc : 0 ≤ (qk21 T f a b).resasc := by
    rw [qk21_resasc]
    apply mul_nonneg _ (abs_nonneg _)
    exact symRule_nonneg _ _ _ _ _ (weightsPositive_wgk T hs hw 10 (by omega)).le
      (fun i hi => (weightsPositive_wgk T hs hw i (by omega)).le) (fun t => abs_nonneg _)
  have hle := le_trans (qk21Abserr_le pow15 hpow epmach uflow _ hraw hasc) (max_le h50 h200)
  unfold agseFirstStep
  rw [if_neg (fun hc => absurd hc.1 (not_le.mpr heps))]
  simp only [qmax_eq_max, qabs_eq_abs]
  have h1 : ¬ (qk21Abserr pow15 epmach uflow (qk21 T f a b) ≤ ((100 : ℕ) : K) * epmach * (qk21 T f a b).resabs ∧
      max epsabs (epsrel * |(qk21 T f a b).result|) < qk21Abserr pow15 epmach uflow (qk21 T f a b)) :=
    fun hc => absurd hc.2 (not_lt.mpr hle)
  rw [if_neg h1, if_neg hlim]
  simp [hle, hne]

/-- … in particular on a polynomial integrand of degree ≤ 19, once `errbnd` dominates
    `200·(εK + εG)·|b−a|/2·Σ|c_k|M^k` -/
theorem agse_accepts_polynomial (pow15 : K → K) (hpow : ∀ t, 0 ≤ t → t ≤ 1 → pow15 t ≤ t)
    (epmach uflow floor28 : K) (T : QKTables K) (hs : shapeOK T = true) (hw : weightsPositive T = true)
    (εK εG : K) (hK : kronrodMomentsOK T 32 εK = true) (hG : gaussMomentsOK T 20 εG = true)
    (cs : List K) (hlen : cs.length ≤ 20) (a b epsabs epsrel : K) (limit : ℕ) (heps : 0 < epsabs) (hlim : limit ≠ 1)
    (hsmall : 200 * ((εK + εG) * (|b - a| / 2) * polyBound cs (max |a| |b|)) ≤ epsabs)
    (h50 : epmach * 50 * (qk21 T (polyEval cs) a b).resabs ≤ epsabs)
    (hne : qk21Abserr pow15 epmach uflow (qk21 T (polyEval cs) a b) ≠ (qk21 T (polyEval cs) a b).resasc) :
    (agseFirstStep pow15 epmach uflow floor28 T (polyEval cs) a b epsabs epsrel limit).done = true
    ∧ (agseFirstStep pow15 epmach uflow floor28 T (polyEval cs) a b epsabs epsrel limit).ier = 0
    ∧ |(agseFirstStep pow15 epmach uflow floor28 T (polyEval cs) a b epsabs epsrel limit).result - polyInt cs a b|
        ≤ εK * (|b - a| / 2) * polyBound cs (max |a| |b|) := by
  have hr := qk21_rawErr_small T εK εG hK hG cs hlen a b
  rw [agse_accepts_first_step pow15 hpow epmach uflow floor28 T hs hw (polyEval cs) a b epsabs epsrel limit heps hlim
    (le_trans (le_trans (mul_le_mul_of_nonneg_left hr (by norm_num)) hsmall) (le_max_left _ _))
    (le_trans h50 (le_max_left _ _)) hne]
  exact ⟨rfl, rfl, qk21_exact_on_polynomials T εK hK cs (by omega) a b⟩

/-! ### (c) consequences for curves -/

/-- the integrand closure of `compute_length` is `sqrt` of the sum of squares of the exact
    derivatives of the coordinate polynomials (`|B'(s)|² = Σ_r B_r'(s)²`: C11.hodograph_is_derivative) -/
theorem lengthSpeed_is_norm_of_derivative (sqrtK : K → K) (thr : ℕ) (nodes : List (List K))
    (h : ∀ row ∈ nodes, 2 ≤ row.length) (s : K) :
    lengthSpeed sqrtK thr nodes s
      = sqrtK ((nodes.map (fun row => (Polynomial.derivative (Deriv.curvePoly row)).eval s)).foldl
          (fun acc d => acc + d * d) 0) := by
  rw [lengthSpeed_eq sqrtK thr nodes h]
  unfold lengthIntegrandSq hodograph
  congr 2
  apply List.map_congr_left
  intro row hrow
  exact Deriv.hodographRow_eq thr row (h row hrow) s

/-- two nodes: `compute_length` returns the closed form `sqrt(Σ_r (v_r1 − v_r0)²)` – the chord
    length – without quadrature (here in the plane) -/
theorem length_two_nodes (sqrtK pow15 : K → K) (epmach uflow floor28 : K) (T : QKTables K) (thr : ℕ)
    (epsabs epsrel : K) (limit : ℕ) (x0 x1 y0 y1 : K) :
    lengthFirstStep sqrtK pow15 epmach uflow floor28 T thr epsabs epsrel limit [[x0, x1], [y0, y1]]
      = .ok { result := sqrtK ((x1 - x0) * (x1 - x0) + (y1 - y0) * (y1 - y0)), abserr := 0, ier := 0, done := true } := by
  simp [lengthFirstStep, ncols, firstDerivRow, diffs, seq]

/-- no node: error, never a value -/
theorem length_no_node (sqrtK pow15 : K → K) (epmach uflow floor28 : K) (T : QKTables K) (thr : ℕ)
    (epsabs epsrel : K) (limit : ℕ) (nodes : List (List K)) (h : ncols nodes = 0) :
    lengthFirstStep sqrtK pow15 epmach uflow floor28 T thr epsabs epsrel limit nodes = .error .valueError := by
  unfold lengthFirstStep
  rw [h]
  rfl

/-- ≥ 3 nodes: the first step is `dqk21` on the speed over `[0,1]` -/
theorem lengthFirstStep_result (sqrtK pow15 : K → K) (epmach uflow floor28 : K) (T : QKTables K) (thr : ℕ)
    (epsabs epsrel : K) (limit : ℕ) (nodes : List (List K)) (hn : 3 ≤ ncols nodes) (heps : 0 < epsabs) :
    ∃ fs, lengthFirstStep sqrtK pow15 epmach uflow floor28 T thr epsabs epsrel limit nodes = .ok fs
      ∧ fs.result = (qk21 T (lengthSpeed sqrtK thr nodes) 0 1).result := by
  unfold lengthFirstStep
  obtain ⟨k, hk⟩ : ∃ k, ncols nodes = k + 3 := ⟨ncols nodes - 3, by omega⟩
  rw [hk]
  refine ⟨_, rfl, ?_⟩
  unfold agseFirstStep
  rw [if_neg (fun hc => absurd hc.1 (not_le.mpr heps))]

/-- a rule only sees the integrand at its 21 abscissae -/
theorem qk21_result_congr (T : QKTables K) (f g : K → K) (a b : K) (h0 : f (centr a b) = g (centr a b))
    (h : ∀ i, i < 10 → f (centr a b - hlgth a b * seq T.xgk i) = g (centr a b - hlgth a b * seq T.xgk i)
      ∧ f (centr a b + hlgth a b * seq T.xgk i) = g (centr a b + hlgth a b * seq T.xgk i)) :
    (qk21 T f a b).result = (qk21 T g a b).result := by
  rw [qk21_result, qk21_result, qk21_resk, qk21_resk]
  congr 1
  apply symRule_congr
  · simpa using h0
  · intro i hi
    have := h i hi
    simpa [mul_neg, ← sub_eq_add_neg] using this

/-- **constant speed `v`** (a straight line run through at constant speed, e.g. a degree-elevated
    segment): the first step returns `v · (wgk(11) + 2 Σ wgk(i)) / 2`, i.e. `v` – the chord length –
    up to `ε·|v|/2` -/
theorem first_step_constant_speed (sqrtK pow15 : K → K) (epmach uflow floor28 : K) (T : QKTables K) (ε : K)
    (hK : kronrodMomentsOK T 32 ε = true) (thr : ℕ) (epsabs epsrel : K) (limit : ℕ) (nodes : List (List K))
    (hn : 3 ≤ ncols nodes) (heps : 0 < epsabs) (v : K)
    (hv : ∀ s, lengthSpeed sqrtK thr nodes s = v) :
    ∃ fs, lengthFirstStep sqrtK pow15 epmach uflow floor28 T thr epsabs epsrel limit nodes = .ok fs
      ∧ fs.result = v * ((seq T.wgk 10 + ∑ i ∈ range 10, seq T.wgk i * 2) / 2)
      ∧ |fs.result - v| ≤ ε / 2 * |v| := by
  obtain ⟨fs, h1, h2⟩ := lengthFirstStep_result sqrtK pow15 epmach uflow floor28 T thr epsabs epsrel limit nodes hn heps
  refine ⟨fs, h1, ?_, ?_⟩
  · rw [h2, qk21_is_symmetric_sum]
    simp only [hv]
    have hh : hlgth (0 : K) 1 = 1 / 2 := by unfold hlgth; ring
    have hs : ∑ i ∈ range 10, seq T.wgk i * (v + v) = v * ∑ i ∈ range 10, seq T.wgk i * 2 := by
      rw [Finset.mul_sum]
      apply Finset.sum_congr rfl
      intro i _
      ring
    rw [hh, hs]
    ring
  · have hc : lengthSpeed sqrtK thr nodes = polyEval [v] := by
      funext s; rw [hv s]; simp [polyEval]
    have h := qk21_exact_on_polynomials T ε hK [v] (by simp) 0 1
    rw [← hc, ← h2] at h
    have e1 : polyInt [v] (0 : K) 1 = v := by simp [polyInt, seq]
    have e2 : polyBound [v] (max |(0 : K)| |1|) = |v| := by simp [polyBound, seq]
    rw [e1, e2] at h
    calc _ ≤ ε * (|(1 : K) - 0| / 2) * |v| := h
      _ = _ := by rw [sub_zero, abs_one]; ring

/-- a segment with its midpoint as middle control point (the degree-elevated line) has the constant
    speed `sqrt(|q − p|²)`: the hypothesis of `first_step_constant_speed` is satisfiable for ≥ 3 nodes -/
theorem elevated_segment_speed (sqrtK : K → K) (thr : ℕ) (x0 x1 y0 y1 s : K) :
    lengthSpeed sqrtK thr [[x0, (x0 + x1) / 2, x1], [y0, (y0 + y1) / 2, y1]] s
      = sqrtK ((x1 - x0) * (x1 - x0) + (y1 - y0) * (y1 - y0)) := by
  rw [lengthSpeed_eq sqrtK thr _ (by intro row hrow; simp at hrow; rcases hrow with rfl | rfl <;> simp)]
  unfold lengthIntegrandSq hodograph hodographRow
  simp only [List.map, List.foldl, diffs, List.length]
  rw [BezierVerif.evalBary_eq_bern thr _ (by simp), BezierVerif.evalBary_eq_bern thr _ (by simp)]
  congr 1
  simp [bern, Finset.sum_range_succ, seq]
  ring

/-- **polynomial speed** (Pythagorean-hodograph curves): if `|B'(s)|² = q(s)²` on `[0,1]` with a
    polynomial `q ≥ 0` of degree ≤ 31 and `sqrtK` inverts squaring of non-negative numbers, the
    first step returns the exact length `∫₀¹ q` up to `ε/2 · Σ|q_k|`.  Uses that the abscissae
    `xgk(1..10)` lie in `[0,1]` (Tables: `nodesOK`), so that all 21 evaluation points are in `[0,1]`. -/
theorem first_step_polynomial_speed (sqrtK pow15 : K → K) (epmach uflow floor28 : K) (T : QKTables K) (ε : K)
    (hK : kronrodMomentsOK T 32 ε = true)
    (hx : ∀ i, i < 10 → 0 ≤ seq T.xgk i ∧ seq T.xgk i ≤ 1)
    (thr : ℕ) (epsabs epsrel : K) (limit : ℕ) (nodes : List (List K))
    (hn : 3 ≤ ncols nodes) (hrows : ∀ row ∈ nodes, 2 ≤ row.length) (heps : 0 < epsabs)
    (q : List K) (hlen : q.length ≤ 32)
    (hsq : ∀ s, 0 ≤ s → s ≤ 1 → lengthIntegrandSq thr nodes s = polyEval q s * polyEval q s)
    (hq : ∀ s, 0 ≤ s → s ≤ 1 → 0 ≤ polyEval q s)
    (hsqrt : ∀ y, 0 ≤ y → sqrtK (y * y) = y) :
    ∃ fs, lengthFirstStep sqrtK pow15 epmach uflow floor28 T thr epsabs epsrel limit nodes = .ok fs
      ∧ |fs.result - polyInt q 0 1| ≤ ε / 2 * polyBound q 1 := by
  obtain ⟨fs, h1, h2⟩ := lengthFirstStep_result sqrtK pow15 epmach uflow floor28 T thr epsabs epsrel limit nodes hn heps
  refine ⟨fs, h1, ?_⟩
  have hspeed : ∀ s, 0 ≤ s → s ≤ 1 → lengthSpeed sqrtK thr nodes s = polyEval q s := by
    intro s h0 h1
    rw [lengthSpeed_eq sqrtK thr nodes hrows, hsq s h0 h1, hsqrt _ (hq s h0 h1)]
  have hc : centr (0 : K) 1 = 1 / 2 := by unfold centr; ring
  have hh : hlgth (0 : K) 1 = 1 / 2 := by unfold hlgth; ring
  have hcongr : (qk21 T (lengthSpeed sqrtK thr nodes) 0 1).result = (qk21 T (polyEval q) 0 1).result := by
    apply qk21_result_congr
    · rw [hc]; exact hspeed _ (by norm_num) (by norm_num)
    · intro i hi
      obtain ⟨hx0, hx1⟩ := hx i hi
      rw [hc, hh]
      exact ⟨hspeed _ (by linarith) (by linarith), hspeed _ (by linarith) (by linarith)⟩
  have h := qk21_exact_on_polynomials T ε hK q hlen 0 1
  rw [← hcongr, ← h2] at h
  calc _ ≤ ε * (|(1 : K) - 0| / 2) * polyBound q (max |(0 : K)| |1|) := h
    _ = _ := by rw [sub_zero, abs_one, abs_zero, max_eq_right (zero_le_one)]; ring

/-! ### the same over `ℝ`, against Mathlib's interval integral and `Real.sqrt` -/

/-- (b) over `ℝ`: the 21-point rule against `∫_a^b p(x) dx` -/
theorem qk21_exact_on_polynomials_real (T : QKTables ℝ) (ε : ℝ) (hK : kronrodMomentsOK T 32 ε = true)
    (cs : List ℝ) (hlen : cs.length ≤ 32) (a b : ℝ) :
    |(qk21 T (polyEval cs) a b).result - ∫ x in a..b, polyEval cs x|
      ≤ ε * (|b - a| / 2) * polyBound cs (max |a| |b|) := by
  have e : (fun x => polyEval cs x) = fun x => polySum cs x := by funext x; rw [polyEval_eq_polySum]
  rw [e, ← polyInt_eq_integral]
  exact qk21_exact_on_polynomials T ε hK cs hlen a b

/-- (c) over `ℝ`: for a curve whose speed is a polynomial `q ≥ 0` on `[0,1]` the first step of
    `compute_length` (with the true square root) returns the length `∫₀¹ √(Σ_r B_r'(s)²) ds` up to
    `ε/2 · Σ|q_k|` -/
theorem first_step_polynomial_speed_real (pow15 : ℝ → ℝ) (epmach uflow floor28 : ℝ) (T : QKTables ℝ) (ε : ℝ)
    (hK : kronrodMomentsOK T 32 ε = true)
    (hx : ∀ i, i < 10 → 0 ≤ seq T.xgk i ∧ seq T.xgk i ≤ 1)
    (thr : ℕ) (epsabs epsrel : ℝ) (limit : ℕ) (nodes : List (List ℝ))
    (hn : 3 ≤ ncols nodes) (hrows : ∀ row ∈ nodes, 2 ≤ row.length) (heps : 0 < epsabs)
    (q : List ℝ) (hlen : q.length ≤ 32)
    (hsq : ∀ s, 0 ≤ s → s ≤ 1 → lengthIntegrandSq thr nodes s = polyEval q s * polyEval q s)
    (hq : ∀ s, 0 ≤ s → s ≤ 1 → 0 ≤ polyEval q s) :
    ∃ fs, lengthFirstStep Real.sqrt pow15 epmach uflow floor28 T thr epsabs epsrel limit nodes = .ok fs
      ∧ |fs.result - ∫ s in (0:ℝ)..1, Real.sqrt (lengthIntegrandSq thr nodes s)| ≤ ε / 2 * polyBound q 1 := by
  obtain ⟨fs, h1, h2⟩ := first_step_polynomial_speed Real.sqrt pow15 epmach uflow floor28 T ε hK hx thr epsabs epsrel
    limit nodes hn hrows heps q hlen hsq hq (fun y hy => Real.sqrt_mul_self hy)
  refine ⟨fs, h1, ?_⟩
  have e : ∫ s in (0:ℝ)..1, Real.sqrt (lengthIntegrandSq thr nodes s) = ∫ s in (0:ℝ)..1, polySum q s := by
    apply intervalIntegral.integral_congr
    intro s hs
    rw [Set.uIcc_of_le (zero_le_one), Set.mem_Icc] at hs
    simp only []
    rw [hsq s hs.1 hs.2, Real.sqrt_mul_self (hq s hs.1 hs.2), polyEval_eq_polySum]
  rw [e, ← polyInt_eq_integral]
  exact h2

/-! ### non-vacuity, on concrete data over ℚ

`simpson` puts Simpson's rule into the frame of `dqk21` (centre weight `4/3`, one pair `±1` with
weight `1/3`, everything else `0`) with the trapezoidal rule as the embedded "Gauss" rule: the
obligations hold with `ε = 0` for degree `< 4` resp. `< 2`, and the model then integrates cubics
exactly. -/

/-- Simpson / trapezoid in the shape of the `dqk21` tables -/
def simpson : QKTables ℚ :=
  { wg := [1, 0, 0, 0, 0], wgk := [0, 1/3, 0, 0, 0, 0, 0, 0, 0, 0, 4/3], xgk := [0, 1, 0, 0, 0, 0, 0, 0, 0, 0, 0] }

example : kronrodMomentsOK simpson 4 0 = true ∧ gaussMomentsOK simpson 2 0 = true := by decide +kernel

/-- `∫₁³ (2 − x + 4x³) dx = 80`, result and raw error (Simpson exact, trapezoid not) -/
example : (qk21 simpson (polyEval [2, -1, 0, 4]) 1 3).result = 80
    ∧ (qk21 simpson (polyEval [2, -1, 0, 4]) 1 3).rawErr = 32 := by decide +kernel

/-- the acceptance test on a linear integrand: raw error `0`, accepted with `ier = 0` -/
example : agseFirstStep (fun t => t) (1/2^52) (1/2^1022) (1/(2*10^28)) simpson (polyEval [1, 2]) 0 1 (1/2^26) (1/2^26) 50
    = { result := 2, abserr := 2 * 50 / 2^52, ier := 0, done := true } := by decide +kernel

/-- a curve with polynomial speed: `B(s) = (s − s³/3, s²)`, nodes `(0,0), (1/3,0), (2/3,1/3), (2/3,1)`,
    speed `1 + s²`; with `sqrtK` the exact root on the squares that occur, the first step of the
    model returns the exact length `4/3` (Simpson is exact for the quadratic speed) -/
example : ∀ s ∈ [0, 1/2, 1, (1/3 : ℚ)],
    lengthIntegrandSq 55 [[0, 1/3, 2/3, 2/3], [0, 0, 1/3, 1]] s = polyEval [1, 0, 1] s * polyEval [1, 0, 1] s := by
  decide +kernel

example : (lengthFirstStep (fun y => if y = 1 then 1 else if y = 25/16 then 5/4 else if y = 4 then 2 else 0)
      (fun t => t) (1/2^52) (1/2^1022) (1/(2*10^28)) simpson 55 (1/2^26) (1/2^26) 50
      [[0, 1/3, 2/3, 2/3], [0, 0, 1/3, 1]]).map (·.result) = .ok (4/3) := by decide +kernel

/-- the closed-form branch: the segment `(0,0) → (3,4)` has length `5` -/
example : (lengthFirstStep (fun y => if y = 25 then 5 else 0) (fun t => t) (1/2^52) (1/2^1022) (1/(2*10^28))
      simpson 55 (1/2^26) (1/2^26) 50 [[0, 3], [0, 4]]).map (·.result) = .ok (5 : ℚ) := by decide +kernel

end BezierVerif.C12
