import BezierVerif.Lemmas.QuadratureAdaptive
import BezierVerif.Props.C12Quad

/-!
# C12 (length part) — the adaptive quadrature `dqagse` behind `Curve.length`

`Model.Quad.dqagse` (Model/QuadratureAdaptive) transcribes QUADPACK's `dqagse` with its subroutines
`dqpsrt` (ordering of the error estimates) and `dqelg` (epsilon algorithm), statement by statement, GOTOs as
explicit state machines with the code's own loop bounds as fuel.  External: the integrand `f` (for lengths:
`lengthSpeed sqrtK …`), the power `pow15` of `dqk21`'s error heuristic.  The theorems hold for every table,
every integrand, every value of the literals `AgseConsts` unless a hypothesis says otherwise
(`E.C.half = 1/2` for the ordering of the end points; `c50 = 50`, `c100 = 100` for the link to the
first-step model `agseFirstStep`).

* (a) `dqpsrt_spec`, `dqpsrt_spec_two`, `dqpsrt_max` – what the main loop relies on: after the call the first
      `jupbn` entries of `iord` point to error estimates in descending order (`jupbn = last`, or `limit+3-last`
      once `last > limit/2+2`; this contains the `k` of the routine's header comment), `maxerr = iord(nrmax)`,
      `ermax = elist(maxerr)`; induction over the three insertion loops, arbitrary lists;
* (b) `agse_partition`, `agse_partition_cover`, `agse_output_partition` – in every state the loop reaches the
      intervals `(alist i, blist i)`, `i ≤ last`, partition `(a, b]`, `area = Σ rlist`, `errsum = Σ elist` exactly;
* (c) `agse_result_is_sum_or_extrapolation` – the returned result is `Σ rlist` or a `reseps` handed back by
      `dqelg` in one of the iterations; `neval = 42·last − 21`;
* (d) `agse_first_step_consistent`, `agse_polynomial` – `dqagse` returns after the first `dqk21` exactly when
      `agseFirstStep` says `done`, with the same result; so on polynomials of degree ≤ 19 it returns the
      integral up to `εK·…` with `last = 1`;
* (e) `agse_total` – the main loop always leaves through `go to 100` / `go to 115` (never runs out of
      iterations), with `2 ≤ last ≤ limit`.
-/

set_option linter.unusedSectionVars false
set_option linter.unusedVariables false

namespace BezierVerif.C12

open Finset BezierVerif.Model BezierVerif.Model.Quad BezierVerif.QuadLemmas

variable {K : Type} [Field K] [LinearOrder K] [IsStrictOrderedRing K]

/-! ### (a) `dqpsrt` -/

/-- **`dqpsrt`, more than two intervals.**  Before the call the entries `1..jupbn−1` of `iord` other than the
    `nrmax`-th one (which points to the interval just bisected, `maxerr`) are in descending order of `elist`,
    the new estimate `elist(last)` is not larger than `elist(maxerr)` (the caller stores the larger of the two new
    errors at `maxerr`), `1 ≤ nrmax < jupbn`.  After the call: `elist(iord(1)) ≥ … ≥ elist(iord(jupbn))`,
    `maxerr = iord(nrmax)`, `ermax = elist(maxerr)`, `nrmax` has not increased. -/
theorem dqpsrt_spec (limit last maxerr : ℕ) (elist : List K) (iord : List ℕ) (nrmax : ℕ)
    (hlast : 2 < last) (hlen : jupbnOf limit last ≤ iord.length)
    (hnr : 1 ≤ nrmax) (hnr2 : nrmax < jupbnOf limit last)
    (hmin : get1 elist last ≤ get1 elist maxerr)
    (hsorted : ∀ i j, 1 ≤ i → i < j → j ≤ jupbnOf limit last - 1 → i ≠ nrmax → j ≠ nrmax →
      get1 elist (geti iord j) ≤ get1 elist (geti iord i)) :
    (∀ i j, 1 ≤ i → i < j → j ≤ jupbnOf limit last →
        get1 elist (geti (dqpsrt limit last maxerr elist iord nrmax).iord j)
          ≤ get1 elist (geti (dqpsrt limit last maxerr elist iord nrmax).iord i))
    ∧ (dqpsrt limit last maxerr elist iord nrmax).maxerr
        = geti (dqpsrt limit last maxerr elist iord nrmax).iord (dqpsrt limit last maxerr elist iord nrmax).nrmax
    ∧ (dqpsrt limit last maxerr elist iord nrmax).ermax = get1 elist (dqpsrt limit last maxerr elist iord nrmax).maxerr
    ∧ 1 ≤ (dqpsrt limit last maxerr elist iord nrmax).nrmax
    ∧ (dqpsrt limit last maxerr elist iord nrmax).nrmax ≤ nrmax :=
  let h := dqpsrt_desc limit last maxerr elist iord nrmax hlast hlen hnr hnr2 hmin hsorted
  ⟨h.1, h.2.1, h.2.2.1, h.2.2.2.1, h.2.2.2.2.1⟩

/-- in the usual case `nrmax = 1` the selected interval carries the largest listed error estimate -/
theorem dqpsrt_max (limit last maxerr : ℕ) (elist : List K) (iord : List ℕ)
    (hlast : 2 < last) (hlen : jupbnOf limit last ≤ iord.length) (hJ : 1 < jupbnOf limit last)
    (hmin : get1 elist last ≤ get1 elist maxerr)
    (hsorted : ∀ i j, 1 ≤ i → i < j → j ≤ jupbnOf limit last - 1 → i ≠ 1 → j ≠ 1 →
      get1 elist (geti iord j) ≤ get1 elist (geti iord i)) :
    ∀ j, 1 ≤ j → j ≤ jupbnOf limit last →
      get1 elist (geti (dqpsrt limit last maxerr elist iord 1).iord j) ≤ (dqpsrt limit last maxerr elist iord 1).ermax := by
  obtain ⟨h1, h2, h3, h4, h5⟩ := dqpsrt_spec limit last maxerr elist iord 1 hlast hlen (le_refl _) hJ hmin hsorted
  intro j hj1 hj2
  have hn : (dqpsrt limit last maxerr elist iord 1).nrmax = 1 := by omega
  rw [h3, h2, hn]
  by_cases hj : j = 1
  · rw [hj]
  · exact h1 1 j (le_refl _) (by omega) hj2

/-- **`dqpsrt`, two intervals**: `iord = (1, 2)`; descending when the caller has put the larger error first -/
theorem dqpsrt_spec_two (limit maxerr : ℕ) (elist : List K) (iord : List ℕ) (nrmax : ℕ) (hlen : 2 ≤ iord.length)
    (hmin : get1 elist 2 ≤ get1 elist 1) :
    geti (dqpsrt limit 2 maxerr elist iord nrmax).iord 1 = 1 ∧ geti (dqpsrt limit 2 maxerr elist iord nrmax).iord 2 = 2
    ∧ get1 elist (geti (dqpsrt limit 2 maxerr elist iord nrmax).iord 2)
        ≤ get1 elist (geti (dqpsrt limit 2 maxerr elist iord nrmax).iord 1)
    ∧ (dqpsrt limit 2 maxerr elist iord nrmax).maxerr = geti (dqpsrt limit 2 maxerr elist iord nrmax).iord nrmax
    ∧ (dqpsrt limit 2 maxerr elist iord nrmax).ermax = get1 elist (dqpsrt limit 2 maxerr elist iord nrmax).maxerr := by
  have e : dqpsrt limit 2 maxerr elist iord nrmax = psrtFinish elist (seti (seti iord 1 1) 2 2) nrmax := by
    unfold dqpsrt; rw [if_pos (by omega)]
  rw [e]
  have h1 : geti (seti (seti iord 1 1) 2 2) 1 = 1 := by
    rw [geti_seti_ne _ _ _ _ (by omega) (by omega) (by omega), geti_seti_same _ _ _ (by omega) (by omega)]
  have h2 : geti (seti (seti iord 1 1) 2 2) 2 = 2 := geti_seti_same _ _ _ (by omega) (by simp; omega)
  refine ⟨h1, h2, ?_, rfl, rfl⟩
  show get1 elist (geti (seti (seti iord 1 1) 2 2) 2) ≤ get1 elist (geti (seti (seti iord 1 1) 2 2) 1)
  rw [h1, h2]
  exact hmin

/-! ### (b) the bisection invariant -/

/-- **partition and exact sums in every state the main loop reaches** (`agseTrace` lists the states after each
    executed iteration, starting from the state `agseInit` built from the first `dqk21` call) -/
theorem agse_partition (E : AgseEnv K) (hhalf : E.C.half = 1 / 2) (hlim : 1 ≤ E.limit) (hab : E.a < E.b) :
    ∀ s ∈ agseTrace E (E.limit - 1) 2 (agseInit E (firstK21 E)),
      1 ≤ s.last ∧ s.last ≤ E.limit
      ∧ (∀ g : K → K, ∑ k ∈ range s.last, (g (seq s.blist k) - g (seq s.alist k)) = g E.b - g E.a)
      ∧ (∀ k, k < s.last → seq s.alist k < seq s.blist k)
      ∧ s.area = ∑ k ∈ range s.last, seq s.rlist k
      ∧ s.errsum = ∑ k ∈ range s.last, seq s.elist k := by
  obtain ⟨c0, a0⟩ := agseInit_inv E (firstK21 E) hlim hab
  intro s hs
  have h := agseTrace_core E hhalf (E.limit - 1) 2 (agseInit E (firstK21 E)) c0 a0 rfl (by omega) s hs
  exact ⟨h.last1, h.lastL, h.part, h.ordered, h.area, h.errsum⟩

/-- the telescoping identity says: every point of `(a, b]` lies in exactly one `(alist k, blist k]` -/
theorem partition_cover (al bl : List K) (n : ℕ) (a b : K)
    (hpart : ∀ g : K → K, ∑ k ∈ range n, (g (seq bl k) - g (seq al k)) = g b - g a)
    (hord : ∀ k, k < n → seq al k < seq bl k) (t : K) (hat : a < t) (htb : t ≤ b) :
    ∃! k, k < n ∧ seq al k < t ∧ t ≤ seq bl k := by
  classical
  have h := hpart (fun x => if t ≤ x then 1 else 0)
  simp only [if_pos htb, if_neg (not_le.mpr hat), sub_zero] at h
  have hterm : ∀ k ∈ range n, ((if t ≤ seq bl k then (1 : K) else 0) - (if t ≤ seq al k then 1 else 0))
      = if seq al k < t ∧ t ≤ seq bl k then 1 else 0 := by
    intro k hk
    have := hord k (Finset.mem_range.mp hk)
    by_cases h1 : t ≤ seq al k
    · have h2 : t ≤ seq bl k := le_trans h1 this.le
      simp [h1, h2, not_lt.mpr h1]
    · by_cases h2 : t ≤ seq bl k
      · simp [h1, h2, not_le.mp h1]
      · simp [h1, h2]
  rw [Finset.sum_congr rfl hterm, Finset.sum_boole] at h
  have hcard : ((range n).filter (fun k => seq al k < t ∧ t ≤ seq bl k)).card = 1 := by exact_mod_cast h
  obtain ⟨k0, hk0⟩ := Finset.card_eq_one.mp hcard
  have hmem : ∀ k, (k < n ∧ seq al k < t ∧ t ≤ seq bl k) ↔ k = k0 := by
    intro k
    have := Finset.ext_iff.mp hk0 k
    simp only [Finset.mem_filter, Finset.mem_range, Finset.mem_singleton] at this
    exact this
  exact ⟨k0, (hmem k0).mpr rfl, fun k hk => (hmem k).mp hk⟩

theorem agse_partition_cover (E : AgseEnv K) (hhalf : E.C.half = 1 / 2) (hlim : 1 ≤ E.limit) (hab : E.a < E.b)
    (s : AgseSt K) (hs : s ∈ agseTrace E (E.limit - 1) 2 (agseInit E (firstK21 E))) (t : K) (hat : E.a < t) (htb : t ≤ E.b) :
    ∃! k, k < s.last ∧ seq s.alist k < t ∧ t ≤ seq s.blist k := by
  obtain ⟨_, _, hp, ho, _, _⟩ := agse_partition E hhalf hlim hab s hs
  exact partition_cover s.alist s.blist s.last E.a E.b hp ho t hat htb

/-! ### (e) totality -/

/-- **the main loop never runs out of iterations**: with `limit ≥ 2` it is left through `go to 100` or
    `go to 115`, after `last − 1` bisections with `2 ≤ last ≤ limit` (at `last = limit` the code sets `ier = 1`,
    which forces one of the two exits) -/
theorem agse_total (E : AgseEnv K) (hlim : 2 ≤ E.limit) :
    (mainLoop E).2 ≠ .exhausted ∧ 2 ≤ (mainLoop E).1.last ∧ (mainLoop E).1.last ≤ E.limit := by
  unfold mainLoop
  have h := agseLoop_total E (E.limit - 1) 2 (agseInit E (firstK21 E)) (by omega) (by omega)
  have h2 := agseLoop_last E (E.limit - 1) 2 (agseInit E (firstK21 E)) h
  exact ⟨h, h2.1, by have := h2.2; omega⟩

/-- `limit = 1`: `dqagse` returns after the first `dqk21` (with `ier = 1`), the loop is not entered -/
theorem agse_limit_one (E : AgseEnv K) (hlim : E.limit = 1) : (dqagse E).last ≤ 1 :=
  dqagse_limit_one E hlim

/-! ### (b), (c) for what `dqagse` returns -/

/-- the output lists of `dqagse` form the partition, and `Σ rlist`, `Σ elist` are the final `area`, `errsum` -/
theorem agse_output_partition (E : AgseEnv K) (hhalf : E.C.half = 1 / 2) (hlim : 2 ≤ E.limit) (hab : E.a < E.b)
    (hloop : 1 < (dqagse E).last) :
    (dqagse E).last ≤ E.limit
    ∧ (∀ g : K → K, ∑ k ∈ range (dqagse E).last, (g (seq (dqagse E).blist k) - g (seq (dqagse E).alist k)) = g E.b - g E.a)
    ∧ (∀ k, k < (dqagse E).last → seq (dqagse E).alist k < seq (dqagse E).blist k)
    ∧ (∀ t, E.a < t → t ≤ E.b → ∃! k, k < (dqagse E).last ∧ seq (dqagse E).alist k < t ∧ t ≤ seq (dqagse E).blist k)
    ∧ (mainLoop E).1.area = ∑ k ∈ range (dqagse E).last, seq (dqagse E).rlist k
    ∧ (mainLoop E).1.errsum = ∑ k ∈ range (dqagse E).last, seq (dqagse E).elist k := by
  rcases dqagse_cases E with h | h
  · omega
  · obtain ⟨t1, t2, t3⟩ := agse_total E (by omega)
    have hm := agseLoop_mem_trace E (E.limit - 1) 2 (agseInit E (firstK21 E)) t1
    obtain ⟨p1, p2, p3, p4, p5, p6⟩ := agse_partition E hhalf (by omega) hab _ hm
    obtain ⟨⟨o1, o2, o3, o4, o5, o6, o7⟩, _⟩ := agseFinal_spec E (mainLoop E).1 (mainLoop E).2
    rw [h, o1, o2, o3, o4, o6]
    exact ⟨p2, p3, p4, fun t hat htb => partition_cover _ _ _ _ _ p3 p4 t hat htb, p5, p6⟩

/-- **(c)** `neval = 42·last − 21` (with the extracted `nevalMul`, `nevalOff`) on every return path, and the
    returned result is: the result of the first `dqk21` (`last ≤ 1`), or `Σ_{k ≤ last} rlist(k)`, or the value
    `reseps` that `dqelg` handed back in one of the iterations of the main loop -/
theorem agse_result_is_sum_or_extrapolation (E : AgseEnv K) :
    (dqagse E).neval = E.C.nevalMul * (dqagse E).last - E.C.nevalOff
    ∧ ((dqagse E).last ≤ 1
        ∨ (dqagse E).result = ∑ k ∈ range (dqagse E).last, seq (dqagse E).rlist k
        ∨ ∃ s ∈ agseTrace E (E.limit - 1) 2 (agseInit E (firstK21 E)), 0 < s.nres ∧ (dqagse E).result = s.reseps) := by
  rcases dqagse_cases E with h | h
  · exact ⟨h.2, Or.inl h.1⟩
  · obtain ⟨⟨o1, o2, o3, o4, o5, o6, o7⟩, hres⟩ := agseFinal_spec E (mainLoop E).1 (mainLoop E).2
    rw [h]
    refine ⟨by rw [o7, o6], Or.inr ?_⟩
    rw [o3, o6, ← sumRlist_eq]
    rcases hres with hr | ⟨hr, hne⟩
    · exact Or.inl hr
    · right
      have hl := agseLoop_result E (E.limit - 1) 2 (agseInit E (firstK21 E)) (fun _ => False) (Or.inl rfl)
      rcases hl with hl | hl | ⟨s, hs, hl⟩
      · exact absurd hl hne
      · exact absurd hl id
      · exact ⟨s, hs, hl.1, hr ▸ hl.2⟩

/-! ### (d) consistency with the first-step model -/

/-- **`dqagse` and `agseFirstStep` agree**: when the first-step model says `done`, the adaptive model returns its
    result, error estimate and `ier` with `last ≤ 1`; otherwise it enters the main loop from `agseInit` and returns
    through the final part -/
theorem agse_first_step_consistent (E : AgseEnv K) (hc50 : E.C.c50 = ((50 : ℕ) : K)) (hc100 : E.C.c100 = ((100 : ℕ) : K)) :
    ((agseFirstStep E.pow15 E.epmach E.uflow E.C.floor28 E.T E.f E.a E.b E.epsabs E.epsrel E.limit).done = true →
      (dqagse E).result = (agseFirstStep E.pow15 E.epmach E.uflow E.C.floor28 E.T E.f E.a E.b E.epsabs E.epsrel E.limit).result
      ∧ (dqagse E).abserr = (agseFirstStep E.pow15 E.epmach E.uflow E.C.floor28 E.T E.f E.a E.b E.epsabs E.epsrel E.limit).abserr
      ∧ (dqagse E).ier = (agseFirstStep E.pow15 E.epmach E.uflow E.C.floor28 E.T E.f E.a E.b E.epsabs E.epsrel E.limit).ier
      ∧ (dqagse E).last ≤ 1)
    ∧ ((agseFirstStep E.pow15 E.epmach E.uflow E.C.floor28 E.T E.f E.a E.b E.epsabs E.epsrel E.limit).done = false →
      dqagse E = agseFinal E (mainLoop E).1 (mainLoop E).2) :=
  dqagse_first_step E hc50 hc100

/-- **polynomial integrands of degree ≤ 19**: under the hypotheses of `agse_accepts_polynomial` (the tables pass
    the moment obligations, `errbnd` dominates the residual) the ADAPTIVE routine returns after the first `dqk21`
    (`last ≤ 1`, `21` evaluations) with `ier = 0` and the exact integral up to `εK·|b−a|/2·Σ|c_k|M^k` -/
theorem agse_polynomial (E : AgseEnv K) (hc50 : E.C.c50 = ((50 : ℕ) : K)) (hc100 : E.C.c100 = ((100 : ℕ) : K))
    (hpow : ∀ t, 0 ≤ t → t ≤ 1 → E.pow15 t ≤ t) (hs : shapeOK E.T = true) (hw : weightsPositive E.T = true)
    (εK εG : K) (hK : kronrodMomentsOK E.T 32 εK = true) (hG : gaussMomentsOK E.T 20 εG = true)
    (cs : List K) (hlen : cs.length ≤ 20) (hf : E.f = polyEval cs) (heps : 0 < E.epsabs) (hlim : E.limit ≠ 1)
    (hsmall : 200 * ((εK + εG) * (|E.b - E.a| / 2) * polyBound cs (max |E.a| |E.b|)) ≤ E.epsabs)
    (h50 : E.epmach * 50 * (qk21 E.T (polyEval cs) E.a E.b).resabs ≤ E.epsabs)
    (hne : qk21Abserr E.pow15 E.epmach E.uflow (qk21 E.T (polyEval cs) E.a E.b) ≠ (qk21 E.T (polyEval cs) E.a E.b).resasc) :
    (dqagse E).last ≤ 1 ∧ (dqagse E).ier = 0
    ∧ (dqagse E).neval = E.C.nevalMul * (dqagse E).last - E.C.nevalOff
    ∧ |(dqagse E).result - polyInt cs E.a E.b| ≤ εK * (|E.b - E.a| / 2) * polyBound cs (max |E.a| |E.b|) := by
  obtain ⟨h1, h2, h3⟩ := agse_accepts_polynomial E.pow15 hpow E.epmach E.uflow E.C.floor28 E.T hs hw εK εG hK hG cs hlen
    E.a E.b E.epsabs E.epsrel E.limit heps hlim hsmall h50 hne
  rw [← hf] at h1 h2 h3
  obtain ⟨r1, r2, r3, r4⟩ := (dqagse_first_step E hc50 hc100).1 h1
  exact ⟨r4, r3.trans h2, (agse_result_is_sum_or_extrapolation E).1, by rw [r1]; exact h3⟩

/-! ### non-vacuity, on concrete data over ℚ

`simpson` (Props/C12Quad): Simpson's rule in the frame of the `dqk21` tables, the trapezoidal rule as the
embedded rule; `pow15 := id`.  The integrand `x ↦ x^40` on `[0,1]` (degree 40) is far from resolved by three
points, so the routine bisects. -/

/-- `dqagse(x ↦ x^40, 0, 1, 2^-26, 2^-26, limit)` with the literals of quadpack.f90 -/
def exampleEnv (limit : ℕ) : AgseEnv ℚ :=
  { C := AgseConsts.default, pow15 := fun t => t, epmach := 1/2^52, uflow := 1/2^1022, oflow := (2 - 1/2^52) * 2^1023,
    T := simpson, f := fun x => qpow x 40, a := 0, b := 1, epsabs := 1/2^26, epsrel := 1/2^26, limit := limit }

/-- the hypotheses on the literals are met by `AgseConsts.default` -/
example : (exampleEnv 50).C.half = 1 / 2 ∧ (exampleEnv 50).C.c50 = ((50 : ℕ) : ℚ) ∧ (exampleEnv 50).C.c100 = ((100 : ℕ) : ℚ) := by
  decide +kernel

/-- **the partition after two iterations**: `[0,1]` is cut at `1/2`, then the right half (larger error) at `3/4`;
    storage order `(3/4,1), (0,1/2), (1/2,3/4)`, `iord = (1,3,2)`, next to be bisected: interval 1 -/
example :
    let st0 := agseInit (exampleEnv 50) (firstK21 (exampleEnv 50))
    let st1 := (agseBody (exampleEnv 50) st0 2).1
    let st2 := (agseBody (exampleEnv 50) st1 3).1
    (st2.alist.take 3, st2.blist.take 3, st2.iord.take 3, st2.maxerr, st2.last)
      = ([3/4, 0, 1/2], [1, 1/2, 3/4], [1, 3, 2], 1, 3)
    ∧ st2.area = st2.rlist.sum ∧ st2.errsum = st2.elist.sum := by
  decide +kernel

/-- with `limit = 8` the routine stops at `last = 8` with `ier = 1`, `neval = 42·8 − 21`, after three calls of
    `dqelg`; the eight intervals partition `[0,1]`, `iord` lists the six largest errors -/
example : ((dqagse (exampleEnv 8)).last, (dqagse (exampleEnv 8)).ier, (dqagse (exampleEnv 8)).neval,
      (mainLoop (exampleEnv 8)).1.nres, (mainLoop (exampleEnv 8)).2)
      = (8, 1, 315, 3, LoopExit.to100)
    ∧ (dqagse (exampleEnv 8)).alist = [31/32, 0, 5/8, 13/16, 1/2, 7/8, 3/4, 15/16]
    ∧ (dqagse (exampleEnv 8)).blist = [1, 1/2, 3/4, 7/8, 5/8, 15/16, 13/16, 31/32]
    ∧ (dqagse (exampleEnv 8)).iord = [1, 8, 6, 7, 5, 2, 0, 0] := by
  decide +kernel

/-- a linear integrand is accepted after the first step (`abserr = 0`): `last = 1`, `neval = 21`, exact result -/
example : ((dqagse { exampleEnv 50 with f := polyEval [1, 2] }).last, (dqagse { exampleEnv 50 with f := polyEval [1, 2] }).result,
    (dqagse { exampleEnv 50 with f := polyEval [1, 2] }).ier, (dqagse { exampleEnv 50 with f := polyEval [1, 2] }).neval)
    = (1, 2, 0, 21) := by
  decide +kernel

/-- invalid tolerances: `ier = 6`, nothing evaluated -/
example : ((dqagse { exampleEnv 50 with epsabs := 0, epsrel := 0 }).ier, (dqagse { exampleEnv 50 with epsabs := 0, epsrel := 0 }).neval,
    (dqagse { exampleEnv 50 with epsabs := 0, epsrel := 0 }).last) = (6, 0, 0) := by
  decide +kernel

/-- `dqpsrt` on five intervals: interval 2 (`nrmax = 2`) was bisected into errors `6` (kept at 2) and `1` (new, 5):
    the order `1, 2, 4, 3` is kept and `5` appended -/
example : let p := dqpsrt 50 5 2 ([7, 6, 3, 4, 1] : List ℚ) [1, 2, 4, 3, 0, 0] 2
    (p.iord, p.nrmax, p.maxerr, p.ermax) = ([1, 2, 4, 3, 5, 0], 2, 2, 6) := by
  decide +kernel

/-- … and when the bisection INCREASED the error (`9 > 7`): the first loop moves the entry up, `nrmax` drops to 1 -/
example : let p := dqpsrt 50 5 3 ([7, 6, 9, 4, 1] : List ℚ) [1, 2, 3, 4, 0, 0] 3
    (p.iord, p.nrmax, p.maxerr, p.ermax) = ([3, 1, 2, 4, 5, 0], 1, 3, 9) := by
  decide +kernel

/-- `dqelg` called for the first time on the partial sums `1, 3/2, 7/4` of `Σ 2^-k` -/
def exampleElg : Elg ℚ :=
  dqelg (AgseConsts.default : AgseConsts ℚ) (1/2^52) ((2 - 1/2^52) * 2^1023) 3 ([1, 3/2, 7/4] ++ List.replicate 49 0) [0, 0, 0] 0

/-- one new element: the limit `2`, up to the `1/oflow` that the overwritten entry `epstab(n) = oflow` contributes;
    first call, so `abserr` stays `oflow`, `res3la(1) = result`, the table is shifted -/
example : exampleElg.n = 3 ∧ exampleElg.nres = 1 ∧ qabs (exampleElg.result - 2) < 1 / 10^300
    ∧ exampleElg.abserr = (2 - 1/2^52) * 2^1023 ∧ exampleElg.res3la = [exampleElg.result, 0, 0]
    ∧ exampleElg.epstab.take 3 = [exampleElg.result, 3/2, 7/4] := by
  decide +kernel

end BezierVerif.C12
