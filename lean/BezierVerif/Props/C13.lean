import BezierVerif.Lemmas.Valid

/-!
# C13 — `Triangle.is_valid`: reported valid exactly when the Jacobian determinant is positive

Property theorems only.  Notation (`Lemmas/Valid`): `P m p w` is the value at the barycentric point
`w : Bary K` of the degree-`m` polynomial with the flat Bernstein coefficient list `p`
(`P m p w = triBern m w.l1 w.l2 w.l3 (netOf m p)`, Props/C05: what `evaluate_barycentric` computes),
`InTri w` says that `w` lies in the closed reference triangle `Δ` (`0 ≤ λ₁, λ₂, λ₃`, `λ₁+λ₂+λ₃ = 1`),
`cartesian s t = (1-s-t, s, t)`.  The statements are about the executable model `Model/Valid.lean`
(`polynomialSign`, `jacobianPolynomial`, `isValid`: the transcription of `polynomial_sign`,
`quadratic_jacobian_polynomial` / `cubic_jacobian_polynomial`, `Triangle._compute_valid`) and
`Model/TriDeriv.lean` (`jacobianDet`: the library's own `jacobian_det`, `partialsAt`: `(B_s, B_t)`).

* `coeffs_pos_imp_pos`, `corner_values`: the two facts `polynomial_sign` relies on.
* `sign_sound_*`: a decided sign is the sign of the polynomial on the whole of `Δ` (`±1`), a reported
  `0` means that a value `≤ 0` and a value `≥ 0` are attained at points of `Δ`; for every subdivision
  routine that `Covers` (the pieces are restrictions to sub-triangles which cover `Δ`), every
  `maxSub`; `covers_generic`: the generic branch of `subdivide_nodes` does (Props/C09 transfers this
  to the hard-coded tables).
* `jacobian_polynomial_2/3`: with the tables `H2, T2, H3, T4` (which `H2_is_derived … T4_is_derived`
  show to be the model-derived `jacobianHelper`, `toBernstein`, and Tables/C13 the library's),
  the coefficient list is the Bernstein form of `det J`; `jacobian_det_is_determinant`,
  `partials_are_derivatives_*`: `jacobianDet` is `x_s y_t - y_s x_t` of the formal partial
  derivatives (Taylor identity with explicit remainder).
* `is_valid_sound_true / false`, `is_valid_never_false_of_positive`, guards.
-/

set_option linter.unusedSectionVars false
set_option linter.unusedVariables false

namespace BezierVerif.C13

open Model BezierVerif BezierVerif.ValidL

section Ordered
variable {K : Type} [Field K] [LinearOrder K] [IsStrictOrderedRing K]

/-! ### 1, 2: the certificate and the corner values -/

/-- all Bernstein coefficients positive ⇒ the polynomial is positive on the closed triangle -/
theorem coeffs_pos_imp_pos (m : ℕ) (p : List K) (hp : p.length = numNodes m) (h : ∀ x ∈ p, 0 < x)
    (w : Bary K) (hw : InTri w) : 0 < P m p w :=
  coeffs_gt m p hp 0 h w hw

theorem coeffs_neg_imp_neg (m : ℕ) (p : List K) (hp : p.length = numNodes m) (h : ∀ x ∈ p, x < 0)
    (w : Bary K) (hw : InTri w) : P m p w < 0 :=
  coeffs_lt m p hp 0 h w hw

/-- more generally: every bound of the coefficients is a bound of the polynomial on the triangle -/
theorem coeffs_gt_imp_gt (m : ℕ) (p : List K) (hp : p.length = numNodes m) (M : K) (h : ∀ x ∈ p, M < x)
    (w : Bary K) (hw : InTri w) : M < P m p w :=
  coeffs_gt m p hp M h w hw

/-- the three coefficients inspected by `polynomial_sign` (`[0]`, `[degree]`, `[-1]`) are the
    values of the polynomial at the three corners (every degree, every list) -/
theorem corner_values (m : ℕ) (p : List K) :
    seq p 0 = P m p ⟨1, 0, 0⟩ ∧ seq p m = P m p ⟨0, 1, 0⟩ ∧ seq p (numNodes m - 1) = P m p ⟨0, 0, 1⟩ :=
  ValidL.corner_values m p

/-! ### 3: soundness of `polynomial_sign` -/

/-- the result is one of `1, -1, 0` -/
theorem sign_range (m : ℕ) (subdiv : List K → List (List K)) (hcov : Covers m subdiv) (maxSub : ℕ)
    (p : List K) (hp : p.length = numNodes m) (r : Int)
    (h : polynomialSign subdiv maxSub m p = .ok r) : r = 1 ∨ r = -1 ∨ r = 0 :=
  (sign_sound m subdiv hcov maxSub p hp r h).1

/-- reported `1`: the polynomial is positive at every point of the closed triangle -/
theorem sign_sound_pos (m : ℕ) (subdiv : List K → List (List K)) (hcov : Covers m subdiv) (maxSub : ℕ)
    (p : List K) (hp : p.length = numNodes m)
    (h : polynomialSign subdiv maxSub m p = .ok 1) : ∀ w, InTri w → 0 < P m p w :=
  (sign_sound m subdiv hcov maxSub p hp 1 h).2.1 rfl

/-- reported `-1`: negative at every point of the closed triangle -/
theorem sign_sound_neg (m : ℕ) (subdiv : List K → List (List K)) (hcov : Covers m subdiv) (maxSub : ℕ)
    (p : List K) (hp : p.length = numNodes m)
    (h : polynomialSign subdiv maxSub m p = .ok (-1)) : ∀ w, InTri w → P m p w < 0 :=
  (sign_sound m subdiv hcov maxSub p hp (-1) h).2.2.1 rfl

/-- reported `0`: a value `≤ 0` and a value `≥ 0` are attained at points of the closed triangle -/
theorem sign_sound_zero (m : ℕ) (subdiv : List K → List (List K)) (hcov : Covers m subdiv) (maxSub : ℕ)
    (p : List K) (hp : p.length = numNodes m)
    (h : polynomialSign subdiv maxSub m p = .ok 0) :
    ∃ w v, InTri w ∧ InTri v ∧ P m p w ≤ 0 ∧ 0 ≤ P m p v :=
  (sign_sound m subdiv hcov maxSub p hp 0 h).2.2.2 rfl

/-- `maxSub = 0` never decides -/
theorem sign_no_rounds (m : ℕ) (subdiv : List K → List (List K)) (p : List K) :
    polynomialSign subdiv 0 m p = .error .valueError := rfl

/-! ### 4: the subdivision used by the library covers -/

/-- the four pieces of (the generic branch of) `subdivide_nodes` are the restrictions to four
    sub-triangles of `Δ` (corners: the six weight constants, Props/C09) which cover `Δ`;
    every degree -/
theorem covers_generic (m : ℕ) :
    Covers (K := K) m (fun p => [Quarter.A, Quarter.B, Quarter.C, Quarter.D].map
      (F90.triSubdivideGenericRow subWeights m p)) :=
  ValidL.covers_generic m

/-! ### 5: the Jacobian polynomial -/

/-- `quadratic_jacobian_polynomial`: the six numbers are the degree-2 Bernstein coefficients of the
    Jacobian determinant (as computed by the library's `jacobian_det`) -/
theorem jacobian_polynomial_2 (x0 x1 x2 x3 x4 x5 y0 y1 y2 y3 y4 y5 s t : K) :
    P 2 (jacobianPolynomial H2 T2 [[x0, x1, x2, x3, x4, x5], [y0, y1, y2, y3, y4, y5]]) (cartesian s t)
      = jacobianDet 55 2 [[x0, x1, x2, x3, x4, x5], [y0, y1, y2, y3, y4, y5]] s t :=
  ValidL.jacobian_polynomial_2 ..

/-- `cubic_jacobian_polynomial` followed by the division by `_QUARTIC_BERNSTEIN_FACTOR = 36`: the
    fifteen numbers are the degree-4 Bernstein coefficients of the Jacobian determinant -/
theorem jacobian_polynomial_3 (x0 x1 x2 x3 x4 x5 x6 x7 x8 x9 y0 y1 y2 y3 y4 y5 y6 y7 y8 y9 s t : K) :
    P 4 ((jacobianPolynomial H3 T4 [[x0, x1, x2, x3, x4, x5, x6, x7, x8, x9],
        [y0, y1, y2, y3, y4, y5, y6, y7, y8, y9]]).map (fun x => x / 36)) (cartesian s t)
      = jacobianDet 55 3 [[x0, x1, x2, x3, x4, x5, x6, x7, x8, x9],
          [y0, y1, y2, y3, y4, y5, y6, y7, y8, y9]] s t :=
  ValidL.jacobian_polynomial_3 ..

/-- explicitly, for the quadratic triangle: `det J = x_s y_t - y_s x_t` with
    `x_s = 2[(1-s-t)(x₁-x₀) + s(x₂-x₁) + t(x₄-x₃)]`, `x_t = 2[(1-s-t)(x₃-x₀) + s(x₄-x₁) + t(x₅-x₃)]` -/
theorem jacobian_det_quadratic (x0 x1 x2 x3 x4 x5 y0 y1 y2 y3 y4 y5 s t : K) :
    jacobianDet 55 2 [[x0, x1, x2, x3, x4, x5], [y0, y1, y2, y3, y4, y5]] s t =
      (2 * ((1 - s - t) * (x1 - x0) + s * (x2 - x1) + t * (x4 - x3))) *
        (2 * ((1 - s - t) * (y3 - y0) + s * (y4 - y1) + t * (y5 - y3))) -
      (2 * ((1 - s - t) * (y1 - y0) + s * (y2 - y1) + t * (y4 - y3))) *
        (2 * ((1 - s - t) * (x3 - x0) + s * (x4 - x1) + t * (x5 - x3))) :=
  jacobianDet_2 ..

/-- `jacobian_det` is the determinant of the matrix of `(B_s, B_t)` of the two coordinates -/
theorem jacobian_det_is_determinant (thr d : ℕ) (xs ys : List K) (s t : K) :
    jacobianDet thr d [xs, ys] s t =
      (partialsAt thr d xs s t).1 * (partialsAt thr d ys s t).2 -
        (partialsAt thr d ys s t).1 * (partialsAt thr d xs s t).2 :=
  jacobianDet_eq_partials thr d xs ys s t

/-- `(B_s, B_t)` are the partial derivatives of the coordinate polynomial: first-order Taylor
    identity, exact for degree 1 … -/
theorem partials_are_derivatives_1 (x0 x1 x2 s t h k : K) :
    P 1 [x0, x1, x2] (cartesian (s + h) (t + k)) = P 1 [x0, x1, x2] (cartesian s t)
      + h * (partialsAt 55 1 [x0, x1, x2] s t).1 + k * (partialsAt 55 1 [x0, x1, x2] s t).2 :=
  taylor_1 ..

/-- … with the explicit second-order remainder for degree 2 … -/
theorem partials_are_derivatives_2 (x0 x1 x2 x3 x4 x5 s t h k : K) :
    P 2 [x0, x1, x2, x3, x4, x5] (cartesian (s + h) (t + k)) = P 2 [x0, x1, x2, x3, x4, x5] (cartesian s t)
      + h * (partialsAt 55 2 [x0, x1, x2, x3, x4, x5] s t).1
      + k * (partialsAt 55 2 [x0, x1, x2, x3, x4, x5] s t).2
      + (h^2 * (x0 + x2 - 2 * x1) + h * k * (-2 * x1 - 2 * x3 + 2 * x0 + 2 * x4) + k^2 * (x0 + x5 - 2 * x3)) :=
  taylor_2 ..

/-- … and for degree 3 (`∃`: the remainder is `h²·A + hk·B + k²·C` with `A, B, C` polynomials in
    `s, t, h, k`, written out in `ValidL.taylor_3`) -/
theorem partials_are_derivatives_3 (x0 x1 x2 x3 x4 x5 x6 x7 x8 x9 s t : K) :
    ∃ A B C : K → K → K, ∀ h k : K,
      P 3 [x0, x1, x2, x3, x4, x5, x6, x7, x8, x9] (cartesian (s + h) (t + k))
        = P 3 [x0, x1, x2, x3, x4, x5, x6, x7, x8, x9] (cartesian s t)
        + h * (partialsAt 55 3 [x0, x1, x2, x3, x4, x5, x6, x7, x8, x9] s t).1
        + k * (partialsAt 55 3 [x0, x1, x2, x3, x4, x5, x6, x7, x8, x9] s t).2
        + (h^2 * A h k + h * k * B h k + k^2 * C h k) ∧
      (∃ a0 a1 a2 : K, A h k = a0 + a1 * h + a2 * k) ∧ (∃ b0 : K, B h k = b0) ∧
      (∃ c0 c1 c2 : K, C h k = c0 + c1 * h + c2 * k) := by
  refine ⟨fun h k => _, fun h k => _, fun h k => _, fun h k => ⟨taylor_3 x0 x1 x2 x3 x4 x5 x6 x7 x8 x9 s t h k, ?_, ?_, ?_⟩⟩
  · exact ⟨-6 * x1 + 3 * x0 + 3 * x2 - 9 * s * x2 - 6 * t * x5 - 3 * s * x0 - 3 * t * x0 - 3 * t * x2
      + 3 * s * x3 + 3 * t * x4 + 3 * t * x6 + 6 * t * x1 + 9 * s * x1,
      x3 - x0 - 3 * x2 + 3 * x1, -6 * x5 - 3 * x0 - 3 * x2 + 3 * x4 + 3 * x6 + 6 * x1, by ring⟩
  · exact ⟨_, rfl⟩
  · exact ⟨-6 * x4 + 3 * x0 + 3 * x7 - 9 * t * x7 - 6 * s * x5 - 3 * s * x0 - 3 * s * x7 - 3 * t * x0
      + 3 * s * x1 + 3 * s * x8 + 3 * t * x9 + 6 * s * x4 + 9 * t * x4,
      -6 * x5 - 3 * x0 - 3 * x7 + 3 * x1 + 3 * x8 + 6 * x4, x9 - x0 - 3 * x7 + 3 * x4, by ring⟩

/-! ### 6: soundness of `is_valid` -/

/-- **reported valid ⇒ the Jacobian determinant is positive on the whole closed reference
    triangle** (degrees 1, 2, 3; every subdivision routine that covers; every `maxSub`) -/
theorem is_valid_sound_true (subdiv2 subdiv4 : List K → List (List K)) (h2 : Covers 2 subdiv2)
    (h4 : Covers 4 subdiv4) (maxSub degree : ℕ) (xs ys : List K)
    (hx : xs.length = numNodes degree) (hy : ys.length = numNodes degree)
    (h : isValid H2 T2 H3 T4 36 subdiv2 subdiv4 maxSub 2 degree [xs, ys] = .ok true) :
    ∀ s t : K, 0 ≤ s → 0 ≤ t → s + t ≤ 1 → 0 < jacobianDet 55 degree [xs, ys] s t :=
  (isValid_sound subdiv2 subdiv4 h2 h4 maxSub degree xs ys hx hy true h).1 rfl

/-- **reported invalid ⇒ a point of the closed reference triangle with non-positive Jacobian
    determinant exists** -/
theorem is_valid_sound_false (subdiv2 subdiv4 : List K → List (List K)) (h2 : Covers 2 subdiv2)
    (h4 : Covers 4 subdiv4) (maxSub degree : ℕ) (xs ys : List K)
    (hx : xs.length = numNodes degree) (hy : ys.length = numNodes degree)
    (h : isValid H2 T2 H3 T4 36 subdiv2 subdiv4 maxSub 2 degree [xs, ys] = .ok false) :
    ∃ s t : K, 0 ≤ s ∧ 0 ≤ t ∧ s + t ≤ 1 ∧ jacobianDet 55 degree [xs, ys] s t ≤ 0 :=
  (isValid_sound subdiv2 subdiv4 h2 h4 maxSub degree xs ys hx hy false h).2 rfl

/-- consequently a triangle whose Jacobian determinant is positive on the closed reference
    triangle is never reported invalid (the only other outcomes are `true` and the documented
    `ValueError` of an undecided `polynomial_sign`) -/
theorem is_valid_never_false_of_positive (subdiv2 subdiv4 : List K → List (List K)) (h2 : Covers 2 subdiv2)
    (h4 : Covers 4 subdiv4) (maxSub degree : ℕ) (xs ys : List K)
    (hx : xs.length = numNodes degree) (hy : ys.length = numNodes degree)
    (hpos : ∀ s t : K, 0 ≤ s → 0 ≤ t → s + t ≤ 1 → 0 < jacobianDet 55 degree [xs, ys] s t) :
    isValid H2 T2 H3 T4 36 subdiv2 subdiv4 maxSub 2 degree [xs, ys] ≠ .ok false := by
  intro h
  obtain ⟨s, t, hs, ht, hst, hle⟩ := is_valid_sound_false subdiv2 subdiv4 h2 h4 maxSub degree xs ys hx hy h
  exact absurd (hpos s t hs ht hst) (not_lt.mpr hle)

/-- degree 1: the answer is exactly the sign of the (constant) Jacobian determinant -/
theorem is_valid_linear (h2 tb2 h3 tb3 : List (List K)) (bf : K) (subdiv2 subdiv4 : List K → List (List K))
    (maxSub : ℕ) (x0 x1 x2 y0 y1 y2 s t : K) :
    isValid h2 tb2 h3 tb3 bf subdiv2 subdiv4 maxSub 2 1 [[x0, x1, x2], [y0, y1, y2]]
      = .ok (decide (0 < jacobianDet 55 1 [[x0, x1, x2], [y0, y1, y2]] s t)) := by
  rw [jacobianDet_1]
  unfold isValid
  simp only [ne_eq, not_true_eq_false, if_false, if_true, List.getD_cons_zero, List.getD_cons_succ, seq]
  congr 1
  rw [decide_eq_decide, signOf_eq_one]

/-! ### 7: guards -/

/-- other dimensions: `NotImplementedError` -/
theorem is_valid_dimension (h2 tb2 h3 tb3 : List (List K)) (bf : K) (subdiv2 subdiv4 : List K → List (List K))
    (maxSub dimension degree : ℕ) (nodes : List (List K)) (hd : dimension ≠ 2) :
    isValid h2 tb2 h3 tb3 bf subdiv2 subdiv4 maxSub dimension degree nodes = .error .notImplemented :=
  isValid_dimension h2 tb2 h3 tb3 bf subdiv2 subdiv4 maxSub dimension degree nodes hd

/-- planar, other degrees: `UnsupportedDegree` -/
theorem is_valid_degree (h2 tb2 h3 tb3 : List (List K)) (bf : K) (subdiv2 subdiv4 : List K → List (List K))
    (maxSub degree : ℕ) (nodes : List (List K)) (d1 : degree ≠ 1) (d2 : degree ≠ 2) (d3 : degree ≠ 3) :
    isValid h2 tb2 h3 tb3 bf subdiv2 subdiv4 maxSub 2 degree nodes = .error .unsupportedDegree :=
  isValid_degree h2 tb2 h3 tb3 bf subdiv2 subdiv4 maxSub degree nodes d1 d2 d3

/-- an undecided `polynomial_sign` is passed on (`ValueError`), never turned into an answer -/
theorem is_valid_undecided_2 (h2 tb2 h3 tb3 : List (List K)) (bf : K) (subdiv2 subdiv4 : List K → List (List K))
    (maxSub : ℕ) (nodes : List (List K)) (e : Err)
    (h : polynomialSign subdiv2 maxSub 2 (jacobianPolynomial h2 tb2 nodes) = .error e) :
    isValid h2 tb2 h3 tb3 bf subdiv2 subdiv4 maxSub 2 2 nodes = .error e := by
  unfold isValid
  simp [h]

end Ordered

/-! ### the tables are the model-derived ones (over ℚ, by evaluation); Tables/C13: = the library's -/

theorem H2_is_derived : jacobianHelper (K := ℚ) 55 2 2 = H2 := H2_eq
theorem T2_is_derived : toBernstein (K := ℚ) 55 2 = some T2 := T2_eq
theorem H3_is_derived : jacobianHelper (K := ℚ) 55 3 4 = H3 := H3_eq
theorem T4_is_derived :
    (toBernstein (K := ℚ) 55 4).map (fun m => m.map (fun r => r.map (fun x => 36 * x))) = some T4 := T4_eq

/-- `is_valid` with tables that are the derived ones (the hypotheses are the statements of
    Tables/C13 about the extracted tables) and the generic subdivision: sound in both directions -/
theorem is_valid_sound_tables (helper2 toBern2 helper3 toBern3 : List (List ℚ)) (bf : ℚ)
    (e1 : helper2 = jacobianHelper 55 2 2) (e2 : some toBern2 = toBernstein 55 2)
    (e3 : helper3 = jacobianHelper 55 3 4)
    (e4 : some toBern3 = (toBernstein 55 4).map (fun m => m.map (fun r => r.map (fun x => bf * x))))
    (e5 : bf = 36) (maxSub degree : ℕ) (xs ys : List ℚ)
    (hx : xs.length = numNodes degree) (hy : ys.length = numNodes degree) (b : Bool)
    (h : isValid helper2 toBern2 helper3 toBern3 bf (genericSubdiv 2) (genericSubdiv 4) maxSub 2 degree [xs, ys]
      = .ok b) :
    (b = true → ∀ s t : ℚ, 0 ≤ s → 0 ≤ t → s + t ≤ 1 → 0 < jacobianDet 55 degree [xs, ys] s t) ∧
    (b = false → ∃ s t : ℚ, 0 ≤ s ∧ 0 ≤ t ∧ s + t ≤ 1 ∧ jacobianDet 55 degree [xs, ys] s t ≤ 0) := by
  subst e5
  rw [H2_eq] at e1
  rw [H3_eq] at e3
  rw [T2_eq] at e2
  rw [T4_eq] at e4
  obtain rfl := Option.some.inj e2
  obtain rfl := Option.some.inj e4
  subst e1 e3
  exact isValid_sound _ _ (ValidL.covers_generic 2) (ValidL.covers_generic 4) maxSub degree xs ys hx hy b h

/-! ### 8: non-vacuity (ℚ, kernel evaluation; derived tables, generic subdivision, `maxSub = 5`) -/

/-- a valid quadratic lattice triangle -/
example : isValid (jacobianHelper 55 2 2) T2 [] [] (36 : ℚ) (genericSubdiv 2) (genericSubdiv 4) 5 2 2
    [[0, 1, 2, 0, 1, 0], [0, 0, 0, 1, 1, 2]] = .ok true := by decide +kernel

/-- a folded one (mirror image: `det J = -4`) -/
example : isValid (jacobianHelper 55 2 2) T2 [] [] (36 : ℚ) (genericSubdiv 2) (genericSubdiv 4) 5 2 2
    [[0, 0, 0, 1, 1, 2], [0, 1, 2, 0, 1, 0]] = .ok false := by decide +kernel

/-- one whose Jacobian changes sign inside (coefficients `[4, 0, -4, 0, -4, -4]`) -/
example : isValid (jacobianHelper 55 2 2) T2 [] [] (36 : ℚ) (genericSubdiv 2) (genericSubdiv 4) 5 2 2
    [[0, 1, 2, 0, -1, 0], [0, 0, 0, 1, -1, 2]] = .ok false := by decide +kernel

/-- a valid curved triangle whose Jacobian polynomial has negative Bernstein coefficients
    (`[16, -30, 60, -14, 52, 28]`): one round does not decide, five do -/
example : jacobianPolynomial (jacobianHelper 55 2 2) T2 [[0, -2, 4, -2, 1, 0], [0, 1, 0, -1, 3, (4 : ℚ)]]
    = [16, -30, 60, -14, 52, 28] := by decide +kernel

example : polynomialSign (genericSubdiv 2) 1 2 [16, -30, 60, -14, 52, (28 : ℚ)] = .error .valueError := by
  decide +kernel

example : polynomialSign (genericSubdiv 2) 5 2 [16, -30, 60, -14, 52, (28 : ℚ)] = .ok 1 := by
  decide +kernel

example : isValid (jacobianHelper 55 2 2) T2 [] [] (36 : ℚ) (genericSubdiv 2) (genericSubdiv 4) 5 2 2
    [[0, -2, 4, -2, 1, 0], [0, 1, 0, -1, 3, 4]] = .ok true := by decide +kernel

/-- `(l₁ - l₂)²` on the side `l₃ = 0`: a zero inside an edge is reported as `0` -/
example : polynomialSign (genericSubdiv 2) 5 2 [1, -1, 1, 1, 1, (1 : ℚ)] = .ok 0 := by decide +kernel

/-- a valid cubic lattice triangle, a linear one, and the guards -/
example : isValid [] [] (jacobianHelper 55 3 4) T4 (36 : ℚ) (genericSubdiv 2) (genericSubdiv 4) 5 2 3
    [[0, 1, 2, 3, 0, 1, 2, 0, 1, 0], [0, 0, 0, 0, 1, 1, 1, 2, 2, 3]] = .ok true := by decide +kernel

example : isValid [] [] [] [] (36 : ℚ) (genericSubdiv 2) (genericSubdiv 4) 5 2 1
    [[0, 0, 1], [0, 1, 0]] = .ok false := by decide +kernel

example : isValid [] [] [] [] (36 : ℚ) (genericSubdiv 2) (genericSubdiv 4) 5 3 2
    [[0, 1, 2, 0, 1, 0], [0, 0, 0, 1, 1, 2], [0, 0, 0, 0, 0, 0]] = .error .notImplemented := by decide +kernel

example : isValid [] [] [] [] (36 : ℚ) (genericSubdiv 2) (genericSubdiv 4) 5 2 4
    [List.replicate 15 0, List.replicate 15 0] = .error .unsupportedDegree := by decide +kernel

end BezierVerif.C13
