import BezierVerif.Model.Protocol
import BezierVerif.Lemmas.Protocol

/-!
# Props/C14 — calls are pure: the hidden workspaces never leak into a result

All statements are about the state machine of `Model/Protocol` (the Cython module globals, the Fortran
module-level buffers, the `*_abi` routines, the retry wrappers) for ARBITRARY pure inner functions
`W.fc : CIn → CurveRes Out`, `W.ft : TIn → TriRes Seg`, an arbitrary duplicate test `W.dup` and arbitrary
contents of uninitialised memory `W.junk`.  `pureCurve W.dup (W.fc inp)` / `pureTriangle (W.ft inp)` are the
values of a call as functions of its input alone.

The only hypothesis (`World.Sound`, resp. `r.status ≠ stInsufficientSpace`) is the one the wrappers rely on:
`all_intersections` / `triangles_intersect` never report `INSUFFICIENT_SPACE` themselves, only the `_abi`
routines do (checked textually on `/repo` by `harness/props/c14.py`).
-/

namespace BezierVerif.C14

open BezierVerif.Model BezierVerif.Model.Protocol

variable {CIn TIn Out Seg : Type}

/-! ### `curve_intersections` -/

/-- From EVERY workspace size (and contents) the call returns the pure value, leaves the size at
`max w count`, and resizes at most once. -/
theorem curve_retry (dup : Out → Out → Bool) (j : Junk Out Seg) (r : CurveRes Out)
    (hs : r.status ≠ stInsufficientSpace) (h : Hidden Out Seg) :
    (curveCall dup j r h).1 = pureCurve dup r ∧
    (curveCall dup j r h).2.curves.length = max h.curves.length (curveNeed dup r) ∧
    h.allocs ≤ (curveCall dup j r h).2.allocs ∧ (curveCall dup j r h).2.allocs ≤ h.allocs + 1 := by
  obtain ⟨c1, c2, _, _, _, _, _, c8, c9⟩ := curveCall_spec dup j r hs h
  exact ⟨c1, c2, c8, c9⟩

/-- The retry never fails for lack of space: whenever a pass asks for `n` columns, the pass after
`reset_curves_workspace(n)` completes with the pure value. -/
theorem curve_retry_never_lacks_space (dup : Out → Out → Bool) (j : Junk Out Seg) (r : CurveRes Out)
    (hs : r.status ≠ stInsufficientSpace) (h h1 : Hidden Out Seg) (n : Nat)
    (hatt : curveAttempt dup r h = (.tooSmall n, h1)) :
    (curveAttempt dup r (resetCurves j n h1)).1 = .done (pureCurve dup r) := by
  obtain ⟨_, _, _, _, _, _, _, a8⟩ := curveAttempt_spec dup r hs h
  by_cases hc : r.status = stSuccess ∧ h.curves.length < (curveOuts dup r).length
  · rw [if_pos hc, hatt] at a8
    have hn : n = (curveOuts dup r).length := by injection a8
    subst hn
    obtain ⟨_, _, _, _, _, _, _, b8⟩ := curveAttempt_spec dup r hs (resetCurves j (curveOuts dup r).length h1)
    have hfit : ¬ (r.status = stSuccess ∧
        (resetCurves j (curveOuts dup r).length h1).curves.length < (curveOuts dup r).length) := by
      simp [resetCurves]
    rw [if_neg hfit] at b8
    exact b8
  · rw [if_neg hc, hatt] at a8
    cases a8

/-- The error branch: with `allow_resize=False` a workspace that is too small raises `ValueError`
(`TOO_SMALL_TEMPLATE`) although the pure value is a result. -/
theorem curve_no_resize_raises (dup : Out → Out → Bool) (j : Junk Out Seg) (r : CurveRes Out)
    (h : Hidden Out Seg) (h0 : r.status = stSuccess) (hlt : h.curves.length < (curveOuts dup r).length) :
    (curveCallN dup j r 0 h).1 = .error .valueError := by
  have hs : r.status ≠ stInsufficientSpace := by rw [h0]; decide
  obtain ⟨_, _, _, _, _, _, _, a8⟩ := curveAttempt_spec dup r hs h
  rw [if_pos ⟨h0, hlt⟩] at a8
  generalize hA : curveAttempt dup r h = A at a8
  obtain ⟨x1, x2⟩ := A
  simp only at a8
  subst a8
  simp [curveCallN, hA]

/-! ### `triangle_intersections` -/

/-- With the literal allowance `resizes_allowed = 2` the wrapper returns the pure value from ANY pair of
workspace sizes and ends with the componentwise maximum; it resizes exactly once per workspace that was
too small. -/
theorem triangle_retry (j : Junk Out Seg) (r : TriRes Seg) (hs : r.status ≠ stInsufficientSpace)
    (h : Hidden Out Seg) :
    (triangleCall j r h).1 = pureTriangle r ∧
    (triangleCall j r h).2.segEnds.length = max h.segEnds.length (triangleNeed r).1 ∧
    (triangleCall j r h).2.segs.length = max h.segs.length (triangleNeed r).2 ∧
    (triangleCall j r h).2.allocs ≤ h.allocs + 2 := by
  obtain ⟨t1, t2, t3, _, _, _, _, t8⟩ := triangleCall_spec j r hs h
  refine ⟨t1, t2, t3, ?_⟩
  rw [t8]
  have := deficit_le_two r h
  omega

/-- junk for the decided examples -/
def zeroJunk : Junk Nat Nat := ⟨fun _ _ => 0, fun _ _ => 0, fun _ _ => 0⟩

/-- four polygons of two segments each: needs `4 > 3` segment ends and `8 > 6` segments -/
def fourLenses : TriRes Nat :=
  { status := stSuccess, contained := .neither, polys := [[1, 2], [3, 4], [5, 6], [7, 8]] }

/-- Why the allowance must be 2: from the initial sizes `(3, 6)` an input that overflows both workspaces
raises `ValueError` (`SEGMENTS_TOO_SMALL`) with `resizes_allowed = 1`, while with `2` it is returned. -/
theorem triangle_allowance_one_insufficient :
    (triangleCallN zeroJunk fourLenses 1 (initial zeroJunk 2 3 6)).1 = .error .valueError ∧
    (triangleCallN zeroJunk fourLenses 2 (initial zeroJunk 2 3 6)).1 = .ok (.polys fourLenses.polys) ∧
    ((triangleCallN zeroJunk fourLenses 2 (initial zeroJunk 2 3 6)).2.sizes = (2, 4, 8)) := by
  refine ⟨rfl, rfl, rfl⟩

/-! ### histories -/

/-- The value of a computational call is the pure one in EVERY hidden state. -/
theorem call_result_is_pure (W : World CIn TIn Out Seg) (hW : W.Sound) (h : Hidden Out Seg) :
    (∀ inp, (step W (.curve inp) h).1 = .curve (pureCurve W.dup (W.fc inp))) ∧
    (∀ inp, (step W (.triangle inp) h).1 = .triangle (pureTriangle (W.ft inp))) :=
  ⟨fun inp => (step_refines W hW (.curve inp) h).1, fun inp => (step_refines W hW (.triangle inp) h).1⟩

/-- For every history (calls that return, calls that raise, `free_*`, `reset_*`, size queries) and every
computational call `c`: the result of `c` after the history equals the result of `c` in the initial state. -/
theorem history_independent (W : World CIn TIn Out Seg) (hW : W.Sound) (hist : List (Op CIn TIn))
    (c : Op CIn TIn) (hc : c.isCall = true) (h0 : Hidden Out Seg) :
    (step W c (run W hist h0).2).1 = (step W c h0).1 := by
  cases c with
  | curve inp => rw [(call_result_is_pure W hW _).1 inp, (call_result_is_pure W hW _).1 inp]
  | triangle inp => rw [(call_result_is_pure W hW _).2 inp, (call_result_is_pure W hW _).2 inp]
  | _ => simp [Op.isCall] at hc

/-- All results of a history are those of the specification machine (pure values; the size queries
answer the running maxima). -/
theorem history_results (W : World CIn TIn Out Seg) (hW : W.Sound) (hist : List (Op CIn TIn))
    (h0 : Hidden Out Seg) : (run W hist h0).1 = (specRun W hist h0.sizes).1 :=
  (run_refines W hW hist h0).1

/-- The observable state after a history is the running maximum of the required sizes (set by `reset_*`,
NOT changed by `free_*`: those release the Fortran buffers only), and the capacities of the Fortran
buffers are running maxima that go back to `0` on `free_*`. -/
theorem workspace_is_running_max (W : World CIn TIn Out Seg) (hW : W.Sound) (hist : List (Op CIn TIn))
    (h0 : Hidden Out Seg) :
    (run W hist h0).2.sizes = (specRun W hist h0.sizes).2 ∧
    (run W hist h0).2.fcaps = hist.foldl (fun z op => fcapStep W op z) h0.fcaps :=
  (run_refines W hW hist h0).2

/-- closed form for a history of curve intersections: `curves_workspace_size()` is `max` over the history -/
theorem workspace_running_max_curves (W : World CIn TIn Out Seg) (hW : W.Sound) (inps : List CIn) :
    ∀ h0 : Hidden Out Seg,
    (run W (inps.map Op.curve) h0).2.curves.length =
      inps.foldl (fun w i => max w (curveNeed W.dup (W.fc i))) h0.curves.length := by
  induction inps with
  | nil => intro h0; rfl
  | cons i is ih =>
    intro h0
    have s := (step_refines W hW (.curve i) h0).2.1
    simp only [List.map_cons, run, List.foldl_cons]
    rw [ih]
    have : (step W (Op.curve i) h0).2.curves.length = max h0.curves.length (curveNeed W.dup (W.fc i)) := by
      have := congrArg Prod.fst s
      simpa [Hidden.sizes, specStep] using this
    rw [this]

/-- Results do not depend on stale contents: two runs of the same history from states with the same three
Cython sizes but ARBITRARY contents of all six buffers, arbitrary capacities of the Fortran buffers
(allocated or not) and arbitrary contents of every later `np.empty` give the same results and sizes. -/
theorem buffers_noninterfering (W : World CIn TIn Out Seg) (hW : W.Sound) (j' : Junk Out Seg)
    (hist : List (Op CIn TIn)) (h h' : Hidden Out Seg) (hsz : h.sizes = h'.sizes) :
    (run W hist h).1 = (run { W with junk := j' } hist h').1 ∧
    (run W hist h).2.sizes = (run { W with junk := j' } hist h').2.sizes := by
  have hW' : World.Sound { W with junk := j' } := hW
  obtain ⟨a1, a2, _⟩ := run_refines W hW hist h
  obtain ⟨b1, b2, _⟩ := run_refines { W with junk := j' } hW' hist h'
  rw [a1, a2, b1, b2, hsz, specRun_junk W j' hist h'.sizes]
  exact ⟨rfl, rfl⟩

/-- The Fortran side on its own: `all_intersections` (duplicate scan of `add_intersection` included)
reports the same count and leaves the same columns whatever `INTERSECTIONS_WORKSPACE` held before. -/
theorem fortran_buffer_noninterfering (dup : Out → Out → Bool) (r : CurveRes Out) (stale stale' : List Out) :
    (fortranCurve dup r stale).1 = (fortranCurve dup r stale').1 ∧
    (fortranCurve dup r stale).2.take (fortranCurve dup r stale).1 =
      (fortranCurve dup r stale').2.take (fortranCurve dup r stale').1 := by
  obtain ⟨a1, a2, _⟩ := fortranCurve_spec dup r stale
  obtain ⟨b1, b2, _⟩ := fortranCurve_spec dup r stale'
  rw [a1, b1, a2, b2]
  exact ⟨rfl, rfl⟩

/-- `_triangle_intersections_success` reads back exactly the polygons that were encoded as
(segment ends, flat segments), whatever follows them in the workspace. -/
theorem rebuild_inverts_encoding (ps : List (List Seg)) (staleEnds : List Nat) (staleSegs : List Seg) :
    rebuildFrom (writePrefix ps.flatten staleSegs) 0
      ((writePrefix (cumEnds 0 ps) staleEnds).take ps.length) = ps := by
  have hE := cumEnds_length ps 0
  have tk := take_writePrefix (cumEnds 0 ps) staleEnds
  rw [hE] at tk
  rw [tk]
  exact rebuildFrom_cumEnds _ ps 0 (staleSegs.drop ps.flatten.length) (by simp [writePrefix])

/-! ### non-vacuity: a concrete world, a concrete history -/

/-- input `n < 100`: `n` distinct parameter pairs followed by a repeat of the first (rejected as
duplicate by `add_intersection`); input `n ≥ 100` fails (`BAD_MULTIPLICITY` for even, `NO_CONVERGE` for odd
`n`) after one pair was already stored.  Triangle input `n`: `n` three-sided polygons. -/
def demoWorld : World Nat Nat Nat Nat :=
  { fc := fun n =>
      if n < 100 then { status := stSuccess, direct := false, found := List.range n ++ [0], coincident := false }
      else { status := if n % 2 = 0 then stBadMultiplicity else stNoConverge, direct := false, found := [7],
             coincident := false },
    ft := fun n => { status := stSuccess, contained := .neither, polys := List.replicate n [1, 2, 3] },
    dup := fun a b => a == b,
    junk := ⟨fun a i => 1000 + a + i, fun a i => 1000 + a + i, fun a i => 1000 + a + i⟩ }

/-- the hypothesis of the theorems is satisfiable -/
example : demoWorld.Sound := by
  constructor
  · intro n
    show (demoWorld.fc n).status ≠ stInsufficientSpace
    unfold demoWorld
    by_cases h : n < 100
    · simp [h, stSuccess, stInsufficientSpace]
    · by_cases hp : n % 2 = 0 <;> simp [h, hp, stBadMultiplicity, stNoConverge, stInsufficientSpace]
  · intro n; simp [demoWorld, stSuccess, stInsufficientSpace]

/-- a history with growth (2 → 5), reuse of the larger buffer by a smaller input, a `free`, a raising
call, the two-resize triangle path (3, 6) → (4, 12), a `reset` that shrinks and a regrowth (1 → 3) -/
def demoHistory : List (Op Nat Nat) :=
  [.curve 5, .curveSize, .curve 1, .freeCurve, .curve 101, .curve 102, .curveSize, .triangle 4,
   .triangleSizes, .resetCurves 1, .curve 3, .curveSize]

example :
    (run demoWorld demoHistory (initial demoWorld.junk curvesWorkspaceInit segmentEndsWorkspaceInit
      segmentsWorkspaceInit)).1 =
    [.curve (.ok ([0, 1, 2, 3, 4], false)), .size 5, .curve (.ok ([0], false)), .unit,
     .curve (.error .valueError), .curve (.error .notImplemented), .size 5,
     .triangle (.ok (.polys [[1, 2, 3], [1, 2, 3], [1, 2, 3], [1, 2, 3]])), .sizes 4 12, .unit,
     .curve (.ok ([0, 1, 2], false)), .size 3] := by
  rfl

/-- … and the hidden state at the end: Cython sizes, Fortran capacities (the `free` reset the first to `0`,
the later calls grew it again to 3), five `np.empty` after the three at import -/
example :
    let h := (run demoWorld demoHistory (initial demoWorld.junk 2 3 6)).2
    h.sizes = (3, 4, 12) ∧ h.fcaps = (3, 4, 12) ∧ h.allocs = 3 + 5 := by
  refine ⟨rfl, rfl, rfl⟩

/-- stale contents are really there and really ignored: after the history above the curve workspace still
holds a column of the degree-5 call beyond the 3 columns of the last call -/
example :
    ((run demoWorld [.curve 5, .curve 2] (initial demoWorld.junk 2 3 6)).2.curves = [0, 1, 2, 3, 4]) ∧
    ((run demoWorld [.curve 5, .curve 2] (initial demoWorld.junk 2 3 6)).1 =
      [.curve (.ok ([0, 1, 2, 3, 4], false)), .curve (.ok ([0, 1], false))]) := by
  refine ⟨rfl, rfl⟩

end BezierVerif.C14
