import BezierVerif.Lemmas.Algebraic

/-!
# C15 — the algebraic strategy answers for exactly the documented degree pairs and refuses the rest

Property theorems only (Lean part of C15; the differential script geometric vs algebraic is
separate).  All statements are about `Model.Alg.toPowerBasis`, `intersectCurvesPrepare`,
`allIntersectionsGate`, `checkNonSimple` (the transcription of `to_power_basis`,
`intersect_curves` up to root finding, `all_intersections`, `_check_non_simple`).
Node counts: a curve of degree `d` has `d + 1` nodes.
-/

set_option linter.unusedSectionVars false

namespace BezierVerif.C15

open Model Model.Alg BezierVerif BezierVerif.AlgLemmas

/-- node-count pairs `(num_nodes1, num_nodes2)` for which `to_power_basis` has a helper: the
    degree pairs 1-1, 1-2, 1-3, 1-4, 2-2, 2-3, 2-4, 3-3 -/
def supportedPairs : List (ℕ × ℕ) := [(2, 2), (2, 3), (2, 4), (2, 5), (3, 3), (3, 4), (3, 5), (4, 4)]

section
variable {K : Type} [Field K] [LinearOrder K]

/-- `to_power_basis` raises `NotImplementedError` exactly outside the eight supported pairs
    (it never raises it inside: `evaluate` is total on 2, 3, 4 nodes) -/
theorem dispatch_supported_iff (ext : Externals K) (par : Params K) (nodes1 nodes2 : List (List K)) :
    toPowerBasis ext par nodes1 nodes2 = .error .notImplemented ↔
      (ncols nodes1, ncols nodes2) ∉ supportedPairs := by
  rw [supportedPairs, ← pbKind_none_iff]
  unfold toPowerBasis
  constructor
  · intro h
    cases hk : pbKind (ncols nodes1) (ncols nodes2) with
    | none => rfl
    | some k =>
      exfalso
      rw [hk] at h
      -- inside the table `evaluate` never fails, so no error can come out of the helper
      have hn1 : ncols nodes1 = 2 ∨ ncols nodes1 = 3 ∨ ncols nodes1 = 4 := by
        have := (pbKind_isSome_iff (ncols nodes1) (ncols nodes2)).mp (by rw [hk]; rfl)
        simp only [List.mem_cons, Prod.mk.injEq, List.mem_nil_iff, or_false] at this
        omega
      have hev : ∀ t, ∃ v, evalIntersectionPolynomial par.vsThr nodes1 nodes2 t = .ok v := by
        intro t
        unfold evalIntersectionPolynomial evaluate
        rcases hn1 with h' | h' | h' <;> rw [h'] <;> exact ⟨_, rfl⟩
      have hmap : ∀ l : List K, ∃ vs, mapE (evalIntersectionPolynomial par.vsThr nodes1 nodes2) l = .ok vs := by
        intro l
        induction l with
        | nil => exact ⟨[], rfl⟩
        | cons a rest ih =>
          obtain ⟨v, hv⟩ := hev a
          obtain ⟨vs, hvs⟩ := ih
          exact ⟨v :: vs, by rw [mapE, hv, hvs]⟩
      cases k <;> simp only [pbApply] at h
      · obtain ⟨vs, hvs⟩ := hmap pbNodes11; rw [hvs] at h; cases h
      · obtain ⟨vs, hvs⟩ := hmap pbNodes12; rw [hvs] at h; cases h
      · obtain ⟨vs, hvs⟩ := hmap pbNodes13; rw [hvs] at h; cases h
      · obtain ⟨vs, hvs⟩ := hmap pbNodes4; rw [hvs] at h; cases h
      · obtain ⟨vs, hvs⟩ := hmap par.cheb7; rw [hvs] at h; cases h
      · obtain ⟨vs, hvs⟩ := hmap par.cheb9; rw [hvs] at h; cases h
      · obtain ⟨vs, hvs⟩ := hmap par.cheb10; rw [hvs] at h; cases h
  · intro h
    rw [h]

/-- which helper answers: the node-count pair after `intersect_curves`' swap-by-degree
    (`num_nodes1 ≤ num_nodes2`) is in the table iff the unordered degree pair is one of
    1-1, 1-2, 1-3, 1-4, 2-2, 2-3, 2-4, 3-3 -/
theorem supported_after_swap (a b : ℕ) :
    (pbKind (min a b) (max a b)).isSome ↔
      (min a b, max a b) ∈ supportedPairs := pbKind_isSome_iff _ _

/-- the swap orders the pair: the first curve handed to `to_power_basis` has no more nodes -/
theorem swap_orders (ext : Externals K) (par : Params K) (A B : List (List K)) (p : Prepared K)
    (h : intersectCurvesPrepare ext par A B = .ok p) : ncols p.nodes1 ≤ ncols p.nodes2 := by
  unfold intersectCurvesPrepare at h
  split at h
  · cases h
  · next r1 _ =>
    split at h
    · cases h
    · next r2 _ =>
      dsimp only at h
      split at h
      · cases h
      · split at h
        · cases h
        · split at h
          · cases h
          · injection h with h
            subst h
            dsimp only
            by_cases hc : ncols r1 > ncols r2 <;> simp [hc] <;> omega

/-! ### refusals of `intersect_curves` (all `NotImplementedError`) -/

/-- unsupported pair after reduction and swap -/
theorem refuse_unsupported_pair (ext : Externals K) (par : Params K) (A B r1 r2 : List (List K))
    (h1 : fullReduce par.reduceThrSq A = .ok r1) (h2 : fullReduce par.reduceThrSq B = .ok r2)
    (hk : (min (ncols r1) (ncols r2), max (ncols r1) (ncols r2)) ∉ supportedPairs) :
    intersectCurvesPrepare ext par A B = .error .notImplemented := by
  unfold intersectCurvesPrepare
  rw [h1, h2]
  dsimp only
  have hT : toPowerBasis ext par (if decide (ncols r1 > ncols r2) = true then r2 else r1)
      (if decide (ncols r1 > ncols r2) = true then r1 else r2) = .error .notImplemented := by
    rw [dispatch_supported_iff]
    by_cases hc : ncols r1 > ncols r2
    · simp only [hc, decide_true, if_true]
      rwa [min_eq_right (le_of_lt hc), max_eq_left (le_of_lt hc)] at hk
    · simp only [hc, decide_false, Bool.false_eq_true, if_false]
      rwa [min_eq_left (not_lt.mp hc), max_eq_right (not_lt.mp hc)] at hk
  rw [hT]

/-- the intersection polynomial is (numerically) zero ⇒ "coincident curves" -/
theorem refuse_zero_polynomial (ext : Externals K) (par : Params K) (A B r1 r2 : List (List K))
    (raw : List K)
    (h1 : fullReduce par.reduceThrSq A = .ok r1) (h2 : fullReduce par.reduceThrSq B = .ok r2)
    (hraw : toPowerBasis ext par (if decide (ncols r1 > ncols r2) = true then r2 else r1)
      (if decide (ncols r1 > ncols r2) = true then r1 else r2) = .ok raw)
    (hsmall : polynomialNormSq raw < par.l2ThrSq) :
    intersectCurvesPrepare ext par A B = .error .notImplemented := by
  unfold intersectCurvesPrepare
  rw [h1, h2]
  dsimp only
  rw [hraw]
  dsimp only
  have : normalizePolynomial par.l2ThrSq (ext.sqrt (polynomialNormSq raw)) raw = raw.map (fun _ => 0) := by
    unfold normalizePolynomial; rw [if_pos hsmall]
  rw [this, if_pos]
  simp

/-- `_check_non_simple`: a rank-deficient `p(companion of p')` ⇒ "non-simple roots" -/
theorem refuse_rank_deficient (ext : Externals K) (par : Params K) (coeffs cs : List K)
    (hs : stripLeadingZeros par.coeffThr coeffs = .ok cs) (h3 : 3 ≤ cs.length)
    (hr : (if (polyCompanionT (polyder cs)).length = 1 then
            (if par.nonSimpleThr < absK (seq ((polyAtMatrix cs (polyCompanionT (polyder cs))).headD []) 0)
              then 1 else 0)
           else ext.rank (polyAtMatrix cs (polyCompanionT (polyder cs))))
          < (polyCompanionT (polyder cs)).length) :
    checkNonSimple ext par coeffs = .error .notImplemented := by
  unfold checkNonSimple
  rw [hs]
  dsimp only
  rw [if_neg (by omega), if_pos hr]

/-- … and polynomials of degree ≤ 1 after stripping are never refused -/
theorem low_degree_never_refused (ext : Externals K) (par : Params K) (coeffs cs : List K)
    (hs : stripLeadingZeros par.coeffThr coeffs = .ok cs) (h3 : cs.length < 3) :
    checkNonSimple ext par coeffs = .ok () := by
  unfold checkNonSimple
  rw [hs]
  dsimp only
  rw [if_pos h3]

/-- a refusal of `_check_non_simple` is passed on by `intersect_curves` -/
theorem refuse_non_simple (ext : Externals K) (par : Params K) (A B r1 r2 : List (List K))
    (raw : List K)
    (h1 : fullReduce par.reduceThrSq A = .ok r1) (h2 : fullReduce par.reduceThrSq B = .ok r2)
    (hraw : toPowerBasis ext par (if decide (ncols r1 > ncols r2) = true then r2 else r1)
      (if decide (ncols r1 > ncols r2) = true then r1 else r2) = .ok raw)
    (hnz : ¬ (normalizePolynomial par.l2ThrSq (ext.sqrt (polynomialNormSq raw)) raw).all
      (fun x => decide (x = 0)) = true)
    (hns : checkNonSimple ext par
      (normalizePolynomial par.l2ThrSq (ext.sqrt (polynomialNormSq raw)) raw) = .error .notImplemented) :
    intersectCurvesPrepare ext par A B = .error .notImplemented := by
  unfold intersectCurvesPrepare
  rw [h1, h2]
  dsimp only
  rw [hraw]
  dsimp only
  rw [if_neg hnz, hns]

/-- `all_intersections`: disjoint bounding boxes ⇒ the empty answer, nothing else is looked at;
    otherwise every refusal of `intersect_curves` propagates unchanged -/
theorem box_gate (ext : Externals K) (par : Params K) (A B : List (List K)) :
    (bboxDisjoint A B = true → allIntersectionsGate ext par A B = .ok none) ∧
    (bboxDisjoint A B = false → ∀ e, intersectCurvesPrepare ext par A B = .error e →
        allIntersectionsGate ext par A B = .error e) := by
  unfold allIntersectionsGate
  constructor
  · intro h; rw [if_pos h]
  · intro h e he; rw [if_neg (by rw [h]; decide), he]

end

/-! ### non-vacuity: a degree pair 1-5 is refused, 2-2 is not -/
example : pbKind 2 6 = none ∧ pbKind 3 3 = some .deg4 := by decide

end BezierVerif.C15
