import BezierVerif.Lemmas.AlgebraicSound
import BezierVerif.Props.C15
import BezierVerif.Props.C16
import BezierVerif.Props.C19More
import BezierVerif.Props.C02Pipeline
import BezierVerif.Props.C03Coverage
import BezierVerif.Props.C02Concrete

/-!
# C15 (algebraic part) — exact-arithmetic soundness and completeness of the algebraic strategy AS MODELLED

Model: `Model/Algebraic.lean` + `Model/AlgebraicAssembly.lean` (`algIntersectCurves` = `intersect_curves`,
`algAllIntersections` = `all_intersections` of `hazmat/algebraic_intersection.py`).  The curves the strategy
works on are the REDUCED, degree-ordered nets `p.nodes1`, `p.nodes2` of the `Prepared` record (`p.swapped` says
whether the arguments were exchanged); `s` always denotes a parameter on `p.nodes1`, `t` one on `p.nodes2`.
A point of a net is the model's `evalPoint par.vsThr nodes s` (a list of two coordinates).

Exactness hypotheses (all in `Lemmas/AlgebraicSound`), stated where they are used:
* `ExactEig ext c` — the root oracle `polyroots` (numpy: eigenvalues of the companion matrix) is exact at the
  coefficient list `c`: returned numbers are roots, every real `r` occurs as `(r, 0)` with its multiplicity;
* `NoNearReal par roots` — no NON-real returned root passes the window of `roots_in_unit_interval`
  (`wiggleStart < re < wiggleEnd`, `|im| < imagWiggle`); such a root would be kept with its real part;
* `ExactLocate ext par nodes1 nodes2 ts` — at the points `B₂(t)`, `t ∈ ts`, `locate_point` only answers with a
  true pre-image (the model's routine accepts `|f₂(s)| < _ZERO_THRESHOLD` after an L2 normalisation that zeroes a
  small `f₂`, and works on `full_reduce`d coordinate rows, so this is a hypothesis, not a consequence of
  `ExactEig`: see the decided example "locate accepts a point off the curve" below);
* `LocateAnswers …` — `locate_point` answers at the given point.

1. `intersection_polynomial_root_iff`, `prepared_root_iff`, `prepared_nets` — roots of the returned polynomial;
2. `algebraic_sound`; 3. `algebraic_complete`; 4. `algebraic_total`, `algebraic_refuses`, `algebraic_box_gate`;
5. `strategies_agree_spec`.
-/

set_option linter.unusedSectionVars false
set_option linter.unusedVariables false

namespace BezierVerif.C15

open Model Model.Alg BezierVerif BezierVerif.AlgLemmas BezierVerif.ResLemmas BezierVerif.AlgSound
  BezierVerif.Deriv BezierVerif.Pipe Polynomial

/-! ### 1. the roots of the intersection polynomial -/

section Field
variable {K : Type} [Field K] [CharZero K]

/-- **degree product ≤ 4, hand-inverted pairs 1-1, 1-2, 1-3, 1-4, 2-2** (every pair of planar nets, any
    externals).  `to_power_basis` returns a list of `d₁ d₂ + 1` coefficients and for every `t`:
    `t` is a root of it  ⇔  the implicit function of curve 1 vanishes at `B₂(t)`
    ⇔ (when curve 1 has true degree `d₁` in one coordinate) in every algebraically closed extension `L` there is
    `s ∈ L` with `B₁(s) = B₂(t)`. -/
theorem intersection_polynomial_root_iff (ext : Externals K) (par : Params K) (xs1 ys1 xs2 ys2 : List K)
    (h1 : xs1.length = ys1.length) (h2 : xs2.length = ys2.length)
    (hpair : (xs1.length, xs2.length) ∈ [(2, 2), (2, 3), (2, 4), (2, 5), (3, 3)]) :
    ∃ coeffs : List K, toPowerBasis ext par [xs1, ys1] [xs2, ys2] = .ok coeffs ∧
      coeffs.length = (xs1.length - 1) * (xs2.length - 1) + 1 ∧
      ∀ t : K,
        (polyval coeffs t = 0 ↔
          evaluate [xs1, ys1] (seq (evalPoint par.vsThr [xs2, ys2] t) 0)
            (seq (evalPoint par.vsThr [xs2, ys2] t) 1) = .ok 0) ∧
        (((bernPoly (xs1.length - 1) (seq xs1)).coeff (xs1.length - 1) ≠ 0 ∨
            (bernPoly (xs1.length - 1) (seq ys1)).coeff (xs1.length - 1) ≠ 0) →
          ∀ (L : Type) [Field L] [IsAlgClosed L] [Algebra K L],
            (polyval coeffs t = 0 ↔
              ∃ s : L, aeval s (bernPoly (xs1.length - 1) (seq xs1)) =
                  algebraMap K L (seq (evalPoint par.vsThr [xs2, ys2] t) 0) ∧
                aeval s (bernPoly (xs1.length - 1) (seq ys1)) =
                  algebraMap K L (seq (evalPoint par.vsThr [xs2, ys2] t) 1))) := by
  obtain ⟨p, hp, he, hT⟩ := C19.power_basis_exact ext par xs1 ys1 xs2 ys2 h1 h2 hpair
  have hl : 2 ≤ xs1.length ∧ xs1.length ≤ 4 := by
    simp only [List.mem_cons, Prod.mk.injEq, List.mem_nil_iff, or_false] at hpair
    omega
  have hc0 : (if xs1.length + xs2.length ≤ 5 then (1 : K) else 3) ≠ 0 := by
    split_ifs
    · exact one_ne_zero
    · norm_num
  refine ⟨_, hT, by rw [List.length_map, hp], fun t => ?_⟩
  have key : polyval (p.map (fun a => (if xs1.length + xs2.length ≤ 5 then (1 : K) else 3) * a)) t = 0 ↔
      evaluate [xs1, ys1] (seq (evalPoint par.vsThr [xs2, ys2] t) 0)
        (seq (evalPoint par.vsThr [xs2, ys2] t) 1) = .ok 0 := by
    rw [polyval_map_mul, mul_eq_zero, or_iff_right hc0]
    have h := he t
    change evaluate _ _ _ = _ at h
    rw [h]
    constructor
    · intro h0; rw [h0]
    · intro h0; exact Except.ok.inj h0
  refine ⟨key, fun hnd L _ _ _ => ?_⟩
  rw [key]
  exact (C19.implicit_zero_iff_common_root xs1 ys1 h1 hl.1 hl.2 hnd _ _).2 L

end Field

section Ordered
variable {K : Type} [Field K] [LinearOrder K] [IsStrictOrderedRing K]

/-- the same for the coefficient list `intersect_curves` actually solves (after `normalize_polynomial`): whenever
    `intersect_curves` reaches the root finding, the roots of `p.coeffs` are exactly the zeros of
    `t ↦ f₁(B₂(t))` (in particular the external `sqrt` cannot have spoilt them) -/
theorem prepared_root_iff (ext : Externals K) (par : Params K) (A B : List (List K)) (p : Prepared K)
    (xs1 ys1 xs2 ys2 : List K) (hprep : intersectCurvesPrepare ext par A B = .ok p)
    (hn1 : p.nodes1 = [xs1, ys1]) (hn2 : p.nodes2 = [xs2, ys2])
    (h1 : xs1.length = ys1.length) (h2 : xs2.length = ys2.length)
    (hpair : (xs1.length, xs2.length) ∈ [(2, 2), (2, 3), (2, 4), (2, 5), (3, 3)]) (t : K) :
    polyval p.coeffs t = 0 ↔
      evaluate p.nodes1 (seq (evalPoint par.vsThr p.nodes2 t) 0) (seq (evalPoint par.vsThr p.nodes2 t) 1)
        = .ok 0 := by
  obtain ⟨r1, r2, raw, -, -, -, -, -, hraw, hco, hnz, -⟩ := prepare_inv ext par A B p hprep
  obtain ⟨coeffs, hT, -, hroot⟩ := intersection_polynomial_root_iff ext par xs1 ys1 xs2 ys2 h1 h2 hpair
  rw [hn1, hn2] at hraw ⊢
  rw [hT] at hraw
  injection hraw with hraw
  subst hraw
  rw [hco] at hnz ⊢
  rw [normalize_roots _ _ _ hnz]
  exact (hroot t).1

/-- the nets the strategy works on: `full_reduce` of either input, the one with fewer nodes first -/
theorem prepared_nets (ext : Externals K) (par : Params K) (A B : List (List K)) (p : Prepared K)
    (hprep : intersectCurvesPrepare ext par A B = .ok p) :
    ∃ r1 r2, fullReduce par.reduceThrSq A = .ok r1 ∧ fullReduce par.reduceThrSq B = .ok r2 ∧
      p.swapped = decide (ncols r1 > ncols r2) ∧
      p.nodes1 = (if ncols r1 > ncols r2 then r2 else r1) ∧ p.nodes2 = (if ncols r1 > ncols r2 then r1 else r2) := by
  obtain ⟨r1, r2, -, h1, h2, h3, h4, h5, -⟩ := prepare_inv ext par A B p hprep
  refine ⟨r1, r2, h1, h2, h3, ?_, ?_⟩
  · rw [h4]; simp
  · rw [h5]; simp

/-! ### 2. soundness -/

/-- **soundness under exact externals.**  `intersect_curves` returned the rows `(ss, ts)`.  Then they are the two
    accumulated lists `final_s`, `final_t` (exchanged back when the curves were swapped), of equal length, and
    every returned pair `q = (q.1, q.2)` comes from an EXACT solution `(s, t)`: `B₁(s) = B₂(t)` on the reduced nets,
    `t` an exact root of the intersection polynomial inside the open window `(wiggleStart, wiggleEnd)`, and
    `q.1 = wiggle_interval(s)`, `q.2 = wiggle_interval(t)`: both in `[0, 1]`, within `w` of `s`, `t`
    (`C16.wiggle_spec`), and EQUAL to `s`, `t` when these lie in `[w, 1 - w]` (`C16.wiggle_value`).  So a returned
    pair is an exact intersection unless a parameter was within `w = 2^-44` of an end of `[0, 1]` (then it is the
    snapped end). -/
theorem algebraic_sound (ext : Externals K) (par : Params K) (w : K) (A B : List (List K)) (p : Prepared K)
    (xs2 ys2 ss ts : List K) (hw0 : 0 < w) (hw : w < 1 / 2)
    (hprep : intersectCurvesPrepare ext par A B = .ok p) (hn2 : p.nodes2 = [xs2, ys2])
    (hE : ExactEig ext p.coeffs) (hreal : NoNearReal par (ext.polyroots p.coeffs))
    (hloc : ExactLocate ext par p.nodes1 p.nodes2 (rootsInUnitInterval ext par p.coeffs))
    (hres : algIntersectCurves ext par w A B = .ok (ss, ts)) :
    ∃ fs ft : List K, (ss, ts) = (if p.swapped = true then (ft, fs) else (fs, ft)) ∧ fs.length = ft.length ∧
      ∀ q ∈ fs.zip ft, ∃ s t : K,
        evalPoint par.vsThr p.nodes1 s = evalPoint par.vsThr p.nodes2 t ∧
        polyval p.coeffs t = 0 ∧ par.wiggleStart < t ∧ t < par.wiggleEnd ∧
        wiggleInterval w s = some q.1 ∧ wiggleInterval w t = some q.2 ∧
        0 ≤ q.1 ∧ q.1 ≤ 1 ∧ 0 ≤ q.2 ∧ q.2 ≤ 1 ∧ |q.1 - s| < w ∧ |q.2 - t| < w ∧
        (w ≤ s → s ≤ 1 - w → q.1 = s) ∧ (w ≤ t → t ≤ 1 - w → q.2 = t) := by
  unfold algIntersectCurves at hres
  rw [hprep] at hres
  dsimp only at hres
  split at hres
  · cases hres
  · next fs ft hloop =>
    obtain ⟨hlen, hzip⟩ := loop_spec ext par w p.nodes1 p.nodes2 _ ([], []) (fs, ft) hloop rfl
    refine ⟨fs, ft, ?_, hlen, ?_⟩
    · by_cases hs : p.swapped = true
      · rw [if_pos hs] at hres ⊢; exact (Except.ok.inj hres).symm
      · rw [if_neg hs] at hres ⊢; exact (Except.ok.inj hres).symm
    · intro q hq
      simp only [List.zip_nil_left, List.nil_append] at hzip
      rw [hzip] at hq
      obtain ⟨t, htm, hst⟩ := List.mem_filterMap.mp hq
      rw [hn2] at hst hloc
      obtain ⟨s, -, hpt, ha, hb⟩ := (stepPair_exact ext par w p.nodes1 xs2 ys2 _ hloc t htm q.1 q.2).mp hst
      obtain ⟨z, hz, hzt, hz1, hz2, hz3⟩ := (mem_unitIntervalFilter par _ t).mp htm
      have hz0 := hreal z hz hz1 hz2 hz3
      have hzeq : z = (t, 0) := Prod.ext hzt hz0
      rw [hzeq] at hz
      have hroot := hE.real_root t hz
      obtain ⟨a1, a2, a3⟩ := C16.wiggle_spec w s q.1 hw0 hw ha
      obtain ⟨b1, b2, b3⟩ := C16.wiggle_spec w t q.2 hw0 hw hb
      have av := C16.wiggle_value w s q.1 hw0 hw ha
      have bv := C16.wiggle_value w t q.2 hw0 hw hb
      refine ⟨s, t, by rw [hn2]; exact hpt, hroot, hzt ▸ hz1, hzt ▸ hz2, ha, hb, a1, a2, b1, b2, a3, b3, ?_, ?_⟩
      · intro h1 h2; rw [av, if_neg (not_lt.mpr h1), if_pos h2]
      · intro h1 h2; rw [bv, if_neg (not_lt.mpr h1), if_pos h2]

/-! ### 3. completeness -/

/-- **completeness under exact externals, degree product ≤ 4, all intersections simple, no exception.**
    Let `(s, t)` be an exact solution `B₁(s) = B₂(t)` on the reduced nets with `t` strictly inside the window
    `(wiggleStart, wiggleEnd) = (-2^-13, 1 + 2^-13)` of `roots_in_unit_interval` (roots outside `[0,1]` but inside
    the window are KEPT at this stage), at which `locate_point` answers and `B₁` takes the value only at `s`.  Then
    * `t` is among the `t`-roots exactly once (`Squarefree`: the intersection polynomial has simple roots);
    * if both `s`, `t` lie in `(-w, 1 + w)` the pair `(wiggle_interval(s), wiggle_interval(t))` is returned
      (parameters in `(-w, w)` are snapped to `0`, in `(1 - w, 1 + w)` to `1`; outside `(-w, 1 + w)` the pair is
      dropped: `C16.wiggle_none_iff`);
    * if both lie in `[w, 1 - w]` the pair `(s, t)` itself is returned exactly once.
    The model has NO duplicate handling: two distinct roots snapped to the same end give two columns.

    FULL: the same with `Squarefree` replaced by "`_check_non_simple` passed with an exact `matrix_rank`" (needs
    `rank f(C_{f'}) = deg f' ⇔ gcd(f, f') = 1`, not proved), with `ExactLocate` / `LocateAnswers` derived from
    `ExactEig` at the polynomials of `locate_point` (false as stated for the model: `locate_point` accepts
    `|f₂(s)| < _ZERO_THRESHOLD` and works on thresholded `full_reduce`d rows), and for the original instead of
    the reduced nets (needs exactness of `full_reduce`, C05). -/
theorem algebraic_complete (ext : Externals K) (par : Params K) (w : K) (A B : List (List K)) (p : Prepared K)
    (xs1 ys1 xs2 ys2 ss ts : List K) (hw0 : 0 < w) (hw : w < 1 / 2) (himag : 0 < par.imagWiggle)
    (hprep : intersectCurvesPrepare ext par A B = .ok p)
    (hn1 : p.nodes1 = [xs1, ys1]) (hn2 : p.nodes2 = [xs2, ys2])
    (h1 : xs1.length = ys1.length) (h2 : xs2.length = ys2.length)
    (hpair : (xs1.length, xs2.length) ∈ [(2, 2), (2, 3), (2, 4), (2, 5), (3, 3)])
    (hE : ExactEig ext p.coeffs) (hreal : NoNearReal par (ext.polyroots p.coeffs))
    (hsq : Squarefree (listPoly p.coeffs)) (hloc : ExactLocate ext par p.nodes1 p.nodes2 (rootsInUnitInterval ext par p.coeffs))
    (hres : algIntersectCurves ext par w A B = .ok (ss, ts))
    (s t : K) (hsol : evalPoint par.vsThr p.nodes1 s = evalPoint par.vsThr p.nodes2 t)
    (ht1 : par.wiggleStart < t) (ht2 : t < par.wiggleEnd)
    (hans : LocateAnswers ext par p.nodes1 (evalPoint par.vsThr p.nodes2 t))
    (hinj : ∀ s', evalPoint par.vsThr p.nodes1 s' = evalPoint par.vsThr p.nodes1 s → s' = s) :
    ∃ fs ft : List K, (ss, ts) = (if p.swapped = true then (ft, fs) else (fs, ft)) ∧
      (rootsInUnitInterval ext par p.coeffs).count t = 1 ∧
      (-w < s → s < 1 + w → -w < t → t < 1 + w →
        ∃ a b, wiggleInterval w s = some a ∧ wiggleInterval w t = some b ∧ (a, b) ∈ fs.zip ft) ∧
      (w ≤ s → s ≤ 1 - w → w ≤ t → t ≤ 1 - w → (fs.zip ft).count (s, t) = 1) := by
  -- `t` is a root of the polynomial that is solved
  have hroot : polyval p.coeffs t = 0 := by
    rw [prepared_root_iff ext par A B p xs1 ys1 xs2 ys2 hprep hn1 hn2 h1 h2 hpair t, ← hsol, hn1]
    have hl : 2 ≤ xs1.length ∧ xs1.length ≤ 4 := by
      simp only [List.mem_cons, Prod.mk.injEq, List.mem_nil_iff, or_false] at hpair
      omega
    exact C19.implicit_vanishes_on_evalPoint par.vsThr xs1 ys1 h1 hl.1 hl.2 s
  obtain ⟨-, -, -, -, -, -, -, -, -, -, hnz, -⟩ := prepare_inv ext par A B p hprep
  have hne : listPoly p.coeffs ≠ 0 := listPoly_ne_zero _ (exists_seq_ne_zero_of_not_all _ hnz)
  have hcount : (rootsInUnitInterval ext par p.coeffs).count t = 1 := by
    unfold rootsInUnitInterval
    rw [count_unitIntervalFilter par _ hreal himag t ht1 ht2]
    exact hE.count_eq_one hne hsq t hroot
  have htm : t ∈ rootsInUnitInterval ext par p.coeffs := List.count_pos_iff.mp (by omega)
  -- `locate_point` returns `s`
  have hlocs : locatePoint ext par p.nodes1 (seq (evalPoint par.vsThr [xs2, ys2] t) 0)
      (seq (evalPoint par.vsThr [xs2, ys2] t) 1) = .ok (some s) := by
    obtain ⟨s', hs'⟩ := hans
    have hpt := hloc t htm s' hs'
    rw [hn2] at hs' hpt
    have hshape : evalPoint par.vsThr [xs2, ys2] t =
        [seq (evalPoint par.vsThr [xs2, ys2] t) 0, seq (evalPoint par.vsThr [xs2, ys2] t) 1] := rfl
    have : s' = s := hinj s' (by rw [hpt, ← hshape, ← hn2, hsol])
    rw [← this]; exact hs'
  have hsol' : evalPoint par.vsThr p.nodes1 s = evalPoint par.vsThr [xs2, ys2] t := by rw [hsol, hn2]
  unfold algIntersectCurves at hres
  rw [hprep] at hres
  dsimp only at hres
  split at hres
  · cases hres
  · next fs ft hloop =>
    obtain ⟨hlen, hzip⟩ := loop_spec ext par w p.nodes1 p.nodes2 _ ([], []) (fs, ft) hloop rfl
    simp only [List.zip_nil_left, List.nil_append] at hzip
    rw [hn2] at hloc
    refine ⟨fs, ft, ?_, hcount, ?_, ?_⟩
    · by_cases hs : p.swapped = true
      · rw [if_pos hs] at hres ⊢; exact (Except.ok.inj hres).symm
      · rw [if_neg hs] at hres ⊢; exact (Except.ok.inj hres).symm
    · intro s1 s2 t1 t2
      cases ha : wiggleInterval w s with
      | none => exact absurd ((C16.wiggle_none_iff w s hw0 hw).mp ha) (by push Not; exact ⟨s1, s2⟩)
      | some a =>
        cases hb : wiggleInterval w t with
        | none => exact absurd ((C16.wiggle_none_iff w t hw0 hw).mp hb) (by push Not; exact ⟨t1, t2⟩)
        | some b =>
          refine ⟨a, b, rfl, rfl, ?_⟩
          rw [hzip, hn2]
          exact List.mem_filterMap.mpr ⟨t, htm,
            (stepPair_exact ext par w p.nodes1 xs2 ys2 _ hloc t htm a b).mpr ⟨s, hlocs, hsol', ha, hb⟩⟩
    · intro s1 s2 t1 t2
      rw [hzip, hn2, List.count_filterMap, ← hcount, List.count_eq_countP]
      apply List.countP_congr
      intro t' ht'
      simp only [beq_iff_eq]
      constructor
      · intro hst
        obtain ⟨s', -, -, -, hb⟩ := (stepPair_exact ext par w p.nodes1 xs2 ys2 _ hloc t' ht' s t).mp hst
        have bv := C16.wiggle_value w t' t hw0 hw hb
        split_ifs at bv with c1 c2
        · linarith
        · exact bv.symm
        · linarith
      · rintro rfl
        exact (stepPair_exact ext par w p.nodes1 xs2 ys2 _ hloc t' ht' s t').mpr
          ⟨s, hlocs, hsol', wiggle_interior w s hw0 s1 s2, wiggle_interior w t' hw0 t1 t2⟩

/-! ### 4. the refusal clause -/

/-- `all_intersections`: strictly disjoint bounding boxes give the empty `2 × 0` answer without looking at
    anything else; otherwise the answer is that of `intersect_curves`, flag `False` -/
theorem algebraic_box_gate (ext : Externals K) (par : Params K) (w : K) (A B : List (List K)) :
    (bboxDisjoint A B = true → algAllIntersections ext par w A B = .ok (([], []), false)) ∧
    (bboxDisjoint A B = false →
      (∀ e, algIntersectCurves ext par w A B = .error e → algAllIntersections ext par w A B = .error e) ∧
      (∀ r, algIntersectCurves ext par w A B = .ok r → algAllIntersections ext par w A B = .ok (r, false))) := by
  unfold algAllIntersections
  refine ⟨fun h => by rw [if_pos h], fun h => ⟨fun e he => ?_, fun r hr => ?_⟩⟩
  · rw [if_neg (by rw [h]; decide), he]
  · rw [if_neg (by rw [h]; decide), hr]

/-- every refusal of `intersect_curves` before the root finding (the theorems `refuse_unsupported_pair`,
    `refuse_zero_polynomial`, `refuse_non_simple` / `refuse_rank_deficient` of `Props/C15` give
    `intersectCurvesPrepare … = .error .notImplemented` under the documented conditions) is the result of
    `all_intersections` whenever the boxes are not disjoint -/
theorem algebraic_refuses (ext : Externals K) (par : Params K) (w : K) (A B : List (List K)) (e : Err)
    (hbox : bboxDisjoint A B = false) (h : intersectCurvesPrepare ext par A B = .error e) :
    algAllIntersections ext par w A B = .error e ∧ allIntersectionsGate ext par A B = .error e := by
  refine ⟨((algebraic_box_gate ext par w A B).2 hbox).1 e ?_, (box_gate ext par A B).2 hbox e h⟩
  unfold algIntersectCurves
  rw [h]

/-- **totality and the inventory of exceptions** (arbitrary total externals, every input).  The model of
    `all_intersections` either returns, or raises an exception `e` for one of the reasons listed in
    `AlgSound.Refusal` — `UnsupportedDegree` from `full_reduce` or from `locate_point`, `NotImplementedError` for
    an unsupported reduced degree pair / an identically zero ("coincident") / a rank-deficient ("non-simple")
    intersection polynomial, `ValueError` for a singular Jacobian in the Newton polish, `IndexError`
    (`badInput`) when `_strip_leading_zeros` runs off an all-small array — never `runtimeError`, `recursion`. -/
theorem algebraic_total (ext : Externals K) (par : Params K) (w : K) (A B : List (List K)) :
    (∃ r, algAllIntersections ext par w A B = .ok r) ∨
    ∃ e, algAllIntersections ext par w A B = .error e ∧ bboxDisjoint A B = false ∧ Refusal ext par w A B e ∧
      e ≠ .runtimeError ∧ e ≠ .recursion := by
  have hcodes : ∀ e, Refusal ext par w A B e → e ≠ .runtimeError ∧ e ≠ .recursion := by
    intro e h
    cases h <;> exact ⟨(fun h => nomatch h), (fun h => nomatch h)⟩
  cases hb : bboxDisjoint A B with
  | true => exact Or.inl ⟨_, (algebraic_box_gate ext par w A B).1 hb⟩
  | false =>
    obtain ⟨gerr, gok⟩ := (algebraic_box_gate ext par w A B).2 hb
    cases hprep : intersectCurvesPrepare ext par A B with
    | error e =>
      right
      have href : Refusal ext par w A B e := by
        rcases prepare_error ext par A B e hprep with ⟨he, h | h⟩ | ⟨r1, r2, h1, h2, h⟩
        · subst he; exact .reduceFirst h
        · subst he; exact .reduceSecond h
        · rcases h with ⟨he, hk⟩ | ⟨raw, hraw, ⟨he, hz⟩ | ⟨hnz, hcs⟩⟩
          · subst he; exact .unsupportedPair r1 r2 h1 h2 hk
          · subst he; exact .coincident r1 r2 raw h1 h2 hraw hz
          · rcases checkNonSimple_error ext par _ e hcs with ⟨he, hall⟩ | ⟨he, cs, hs, h3, hr⟩
            · subst he; exact .stripOverrun r1 r2 raw h1 h2 hraw hall
            · subst he; exact .nonSimple r1 r2 raw cs h1 h2 hraw hs h3 hr
      exact ⟨e, (algebraic_refuses ext par w A B e hb hprep).1, rfl, href, hcodes e href⟩
    | ok p =>
      cases hloop : intersectLoop ext par w p.nodes1 p.nodes2 (rootsInUnitInterval ext par p.coeffs) ([], []) with
      | ok acc =>
        left
        obtain ⟨fs, ft⟩ := acc
        have : ∃ r, algIntersectCurves ext par w A B = .ok r := by
          unfold algIntersectCurves
          rw [hprep]
          dsimp only
          rw [hloop]
          dsimp only
          by_cases hs : p.swapped = true
          · rw [if_pos hs]; exact ⟨_, rfl⟩
          · rw [if_neg hs]; exact ⟨_, rfl⟩
        obtain ⟨r, hr⟩ := this
        exact ⟨_, gok r hr⟩
      | error e =>
        right
        have href : Refusal ext par w A B e := by
          rcases loop_error ext par w p.nodes1 p.nodes2 e _ _ hloop with ⟨he, t, ht, hl⟩ | ⟨he, t, ht, s, hl, hn⟩
          · subst he; exact .locateDegree p t hprep ht hl
          · subst he; exact .singularJacobian p t s hprep ht hl hn
        have herr : algIntersectCurves ext par w A B = .error e := by
          unfold algIntersectCurves
          rw [hprep]
          dsimp only
          rw [hloop]
        exact ⟨e, gerr e herr, rfl, href, hcodes e href⟩

/-- the "unsupported pair" refusal in the vocabulary of `Props/C15`: no helper ⇔ the degree-ordered pair of node
    counts is not one of the eight `supportedPairs` -/
theorem refusal_unsupported_pair_iff (a b : ℕ) :
    pbKind (min a b) (max a b) = none ↔ (min a b, max a b) ∉ supportedPairs := by
  rw [← supported_after_swap]
  cases pbKind (min a b) (max a b) <;> simp

/-! ### 5. agreement of the two strategies at the level of the specification -/

/-- **what is proved for which strategy**, against the exact solution set
    `{(s, t) ∈ [0,1]² | B₁(s) = B₂(t)}` (`Cover.TrueInt`), both strategies run on the same pair `A`, `B`.  The
    algebraic half is stated on the nets that strategy works on, `p.nodes1`, `p.nodes2` = the `full_reduce`d `A`,
    `B` ordered by node count (`prepared_nets`; for inputs that are not reducible these are `A`, `B` themselves).

    GEOMETRIC strategy (`Model.allIntersections`, any primitives satisfying the contract `PrimsOK`):
    * proved: every returned pair lies in `[0,1]²` (`C02.params_in_unit_square`) — first conjunct;
    * proved elsewhere, partially: coverage of a true intersection through any number of EXACT subdivision rounds
      (`C03.coverage_exact_rounds_partial`), residual bounds at the simple-root Newton exit
      (`C02.simple_converged_residual`); NOT proved: that a returned pair is an exact solution, nor completeness
      through `from_linearized` / tangent-box steps.
    ALGEBRAIC strategy (`algIntersectCurves`, exact externals as in `algebraic_sound` / `algebraic_complete`):
    * soundness — second conjunct: every returned pair is in `[0,1]²` and is `wiggle_interval` of an exact
      solution; it IS a member of the solution set when that solution has both parameters in `[w, 1 - w]`;
    * completeness — third conjunct: every member of the solution set at which `locate_point` answers and `B₁` is
      injective is returned (snapped), exactly once when both parameters are in `[w, 1 - w]`.
    Hence, on the common domain (degree product ≤ 4, simple intersections, parameters in `[w, 1-w]`) the algebraic
    result IS the solution set, and the geometric result is a subset of the unit square whose relation to the
    solution set rests on the partial C02 / C03 theorems and the differential runs. -/
theorem strategies_agree_spec (A B : List (List K)) (P : Prims K) (hP : PrimsOK P) (G : GeoConsts K)
    (gpts : List (K × K)) (flag : Bool) (hgeo : allIntersections P G A B = .ok (gpts, flag))
    (ext : Externals K) (par : Params K) (w : K) (p : Prepared K)
    (xs1 ys1 xs2 ys2 ss ts : List K) (hw0 : 0 < w) (hw : w < 1 / 2) (himag : 0 < par.imagWiggle)
    (hws : par.wiggleStart < 0) (hwe : 1 < par.wiggleEnd)
    (hprep : intersectCurvesPrepare ext par A B = .ok p)
    (hn1 : p.nodes1 = [xs1, ys1]) (hn2 : p.nodes2 = [xs2, ys2])
    (h1 : xs1.length = ys1.length) (h2 : xs2.length = ys2.length)
    (hpair : (xs1.length, xs2.length) ∈ [(2, 2), (2, 3), (2, 4), (2, 5), (3, 3)])
    (hE : ExactEig ext p.coeffs) (hreal : NoNearReal par (ext.polyroots p.coeffs))
    (hsq : Squarefree (listPoly p.coeffs)) (hloc : ExactLocate ext par p.nodes1 p.nodes2 (rootsInUnitInterval ext par p.coeffs))
    (hres : algIntersectCurves ext par w A B = .ok (ss, ts)) :
    (∀ q ∈ gpts, 0 ≤ q.1 ∧ q.1 ≤ 1 ∧ 0 ≤ q.2 ∧ q.2 ≤ 1) ∧
    ∃ fs ft : List K, (ss, ts) = (if p.swapped = true then (ft, fs) else (fs, ft)) ∧ fs.length = ft.length ∧
      (∀ q ∈ fs.zip ft, 0 ≤ q.1 ∧ q.1 ≤ 1 ∧ 0 ≤ q.2 ∧ q.2 ≤ 1 ∧
        ∃ s t : K, evalPoint par.vsThr p.nodes1 s = evalPoint par.vsThr p.nodes2 t ∧
          |q.1 - s| < w ∧ |q.2 - t| < w ∧
          (w ≤ s → s ≤ 1 - w → w ≤ t → t ≤ 1 - w →
            q = (s, t) ∧ Cover.TrueInt par.vsThr p.nodes1 p.nodes2 q.1 q.2)) ∧
      (∀ s t : K, Cover.TrueInt par.vsThr p.nodes1 p.nodes2 s t →
        LocateAnswers ext par p.nodes1 (evalPoint par.vsThr p.nodes2 t) →
        (∀ s', evalPoint par.vsThr p.nodes1 s' = evalPoint par.vsThr p.nodes1 s → s' = s) →
        (∃ a b, wiggleInterval w s = some a ∧ wiggleInterval w t = some b ∧ (a, b) ∈ fs.zip ft) ∧
        (w ≤ s → s ≤ 1 - w → w ≤ t → t ≤ 1 - w → (fs.zip ft).count (s, t) = 1)) := by
  refine ⟨C02.params_in_unit_square P hP G A B gpts flag hgeo, ?_⟩
  obtain ⟨fs, ft, hswap, hlen, hsound⟩ :=
    algebraic_sound ext par w A B p xs2 ys2 ss ts hw0 hw hprep hn2 hE hreal hloc hres
  refine ⟨fs, ft, hswap, hlen, ?_, ?_⟩
  · intro q hq
    obtain ⟨s, t, hpt, -, -, -, -, -, a1, a2, b1, b2, a3, b3, av, bv⟩ := hsound q hq
    refine ⟨a1, a2, b1, b2, s, t, hpt, a3, b3, fun s1 s2 t1 t2 => ?_⟩
    have e1 := av s1 s2
    have e2 := bv t1 t2
    refine ⟨Prod.ext e1 e2, ?_⟩
    rw [e1, e2]
    exact ⟨by linarith, by linarith, by linarith, by linarith, hpt⟩
  · intro s t hti hans hinj
    obtain ⟨s0, s1, t0, t1, hsol⟩ := hti
    obtain ⟨fs', ft', hswap', -, hret, hone⟩ :=
      algebraic_complete ext par w A B p xs1 ys1 xs2 ys2 ss ts hw0 hw himag hprep hn1 hn2 h1 h2 hpair hE hreal hsq hloc
        hres s t hsol (by linarith) (by linarith) hans hinj
    have hsame : fs' = fs ∧ ft' = ft := by
      rw [hswap] at hswap'
      by_cases hs : p.swapped = true
      · rw [if_pos hs, if_pos hs] at hswap'
        exact ⟨(Prod.mk.inj hswap').2.symm, (Prod.mk.inj hswap').1.symm⟩
      · rw [if_neg hs, if_neg hs] at hswap'
        exact ⟨(Prod.mk.inj hswap').1.symm, (Prod.mk.inj hswap').2.symm⟩
    obtain ⟨rfl, rfl⟩ := hsame
    exact ⟨hret (by linarith) (by linarith) (by linarith) (by linarith), hone⟩

end Ordered

/-! ### non-vacuity: the line `y = 3/8` against the parabola `(t, 2t(1-t))`, two crossings at `1/4`, `3/4`

Concrete data (`Lemmas/AlgebraicSound`): `exA`, `exB`, the library's thresholds `exPar`, `exW = 2^-44`, externals
`exExt` with exact roots, the prepared record `exPrep` (`coeffs = [-3/8, 2, -2]`). -/

section Examples
open BezierVerif.PipeInst

/-- 1: the returned polynomial is `-3/8 + 2t - 2t²`; its root `1/4` is a zero of the implicit function of the
    line at `B₂(1/4)`, and a parameter `s` exists in the algebraic closure of `ℚ` -/
example : toPowerBasis exExt exPar exA exB = .ok [-3 / 8, 2, -2] ∧
    evaluate exA (seq (evalPoint exPar.vsThr exB (1 / 4)) 0) (seq (evalPoint exPar.vsThr exB (1 / 4)) 1) = .ok 0 ∧
    ∃ s : AlgebraicClosure ℚ, aeval s (bernPoly 1 (seq ([0, 1] : List ℚ))) =
        algebraMap ℚ _ (seq (evalPoint exPar.vsThr exB (1 / 4)) 0) ∧
      aeval s (bernPoly 1 (seq ([3 / 8, 3 / 8] : List ℚ))) =
        algebraMap ℚ _ (seq (evalPoint exPar.vsThr exB (1 / 4)) 1) := by
  have hT : toPowerBasis exExt exPar exA exB = .ok [-3 / 8, 2, -2] := by decide +kernel
  obtain ⟨coeffs, hc, -, hroot⟩ := intersection_polynomial_root_iff exExt exPar [0, 1] [3 / 8, 3 / 8] [0, 1 / 2, 1]
    [0, 1, 0] rfl rfl (by decide)
  have : coeffs = [-3 / 8, 2, -2] := Except.ok.inj (hc.symm.trans hT)
  subst this
  have h0 : polyval ([-3 / 8, 2, -2] : List ℚ) (1 / 4) = 0 := by decide +kernel
  have hnd : (bernPoly 1 (seq ([0, 1] : List ℚ))).coeff 1 ≠ 0 ∨
      (bernPoly 1 (seq ([3 / 8, 3 / 8] : List ℚ))).coeff 1 ≠ 0 := by
    left; rw [C19.leading_power_coefficient.1]; norm_num
  exact ⟨hT, ((hroot (1 / 4)).1).mp h0, (((hroot (1 / 4)).2 hnd) (AlgebraicClosure ℚ)).mp h0⟩

/-- 1: the polynomial that is solved has the roots it should -/
example : polyval exPrep.coeffs (3 / 4) = 0 ↔
    evaluate exPrep.nodes1 (seq (evalPoint exPar.vsThr exPrep.nodes2 (3 / 4)) 0)
      (seq (evalPoint exPar.vsThr exPrep.nodes2 (3 / 4)) 1) = .ok 0 :=
  prepared_root_iff exExt exPar exA exB exPrep [0, 1] [3 / 8, 3 / 8] [0, 1 / 2, 1] [0, 1, 0] ex_prepare rfl rfl rfl rfl
    (by decide) (3 / 4)

/-- the hypotheses of 2 and 3 hold for the concrete externals -/
example : ExactEig exExt exPrep.coeffs ∧ NoNearReal exPar (exExt.polyroots exPrep.coeffs) ∧
    Squarefree (listPoly exPrep.coeffs) ∧
    ExactLocate exExt exPar exPrep.nodes1 exPrep.nodes2 (rootsInUnitInterval exExt exPar exPrep.coeffs) :=
  ⟨ex_exactEig, ex_noNearReal, ex_squarefree, ex_exactLocate⟩

/-- why `ExactLocate` is a hypothesis — **locate accepts a point off the curve**: the point `(1/4, 3/8 + 2^-41)`
    is not on the line `y = 3/8`, yet `locate_point` (library thresholds, exact roots) answers `s = 1/4`: the second
    coordinate polynomial `3/8 - y` has L2 norm `2^-41 < _L2_THRESHOLD = 2^-40` and is zeroed by
    `normalize_polynomial` -/
example : locatePoint exExt exPar exA (1 / 4) (3 / 8 + 1 / 2 ^ 41) = .ok (some (1 / 4)) ∧
    evalPoint exPar.vsThr exA (1 / 4) ≠ [1 / 4, 3 / 8 + 1 / 2 ^ 41] := by
  constructor <;> decide +kernel

/-- 2: the run returns `[[1/4, 3/4], [1/4, 3/4]]` and `algebraic_sound` applies to it -/
example : ∃ fs ft : List ℚ, (([1 / 4, 3 / 4] : List ℚ), ([1 / 4, 3 / 4] : List ℚ)) =
      (if exPrep.swapped = true then (ft, fs) else (fs, ft)) ∧ fs.length = ft.length ∧
    ∀ q ∈ fs.zip ft, ∃ s t : ℚ,
      evalPoint exPar.vsThr exPrep.nodes1 s = evalPoint exPar.vsThr exPrep.nodes2 t ∧
      polyval exPrep.coeffs t = 0 ∧ exPar.wiggleStart < t ∧ t < exPar.wiggleEnd ∧
      wiggleInterval exW s = some q.1 ∧ wiggleInterval exW t = some q.2 ∧
      0 ≤ q.1 ∧ q.1 ≤ 1 ∧ 0 ≤ q.2 ∧ q.2 ≤ 1 ∧ |q.1 - s| < exW ∧ |q.2 - t| < exW ∧
      (exW ≤ s → s ≤ 1 - exW → q.1 = s) ∧ (exW ≤ t → t ≤ 1 - exW → q.2 = t) :=
  algebraic_sound exExt exPar exW exA exB exPrep [0, 1 / 2, 1] [0, 1, 0] _ _ (by norm_num [exW])
    (by norm_num [exW]) ex_prepare rfl ex_exactEig ex_noNearReal ex_exactLocate ex_result

/-- 3: the crossing `(1/4, 1/4)` is found, exactly once -/
example : ∃ fs ft : List ℚ, (([1 / 4, 3 / 4] : List ℚ), ([1 / 4, 3 / 4] : List ℚ)) =
      (if exPrep.swapped = true then (ft, fs) else (fs, ft)) ∧ (fs.zip ft).count (1 / 4, 1 / 4) = 1 := by
  obtain ⟨fs, ft, h1, -, -, h4⟩ := algebraic_complete exExt exPar exW exA exB exPrep [0, 1] [3 / 8, 3 / 8]
    [0, 1 / 2, 1] [0, 1, 0] _ _ (by norm_num [exW]) (by norm_num [exW]) (by norm_num [exPar]) ex_prepare rfl rfl rfl rfl
    (by decide) ex_exactEig ex_noNearReal ex_squarefree ex_exactLocate ex_result (1 / 4) (1 / 4) (by decide +kernel)
    (by norm_num [exPar]) (by norm_num [exPar]) (ex_locateAnswers _ (Or.inl rfl)) (ex_inj _)
  exact ⟨fs, ft, h1, h4 (by norm_num [exW]) (by norm_num [exW]) (by norm_num [exW]) (by norm_num [exW])⟩

/-- 4: refusals on concrete data (library thresholds): a tangent line ("non-simple"), a curve against itself
    ("coincident"), a cubic against a quartic (unsupported pair) raise `NotImplementedError`; a degree-5 net makes
    `full_reduce` raise `UnsupportedDegree`; strictly disjoint boxes give the empty answer -/
example :
    algAllIntersections exExt exPar exW [[0, 1], [1 / 2, 1 / 2]] exB = .error .notImplemented ∧
    algAllIntersections exExt exPar exW exB exB = .error .notImplemented ∧
    algAllIntersections exExt exPar exW [[0, 1, 3, 4], [0, 2, -1, 1]] [[0, 1, 2, 3, 5], [1, 0, 1, 0, 1]]
      = .error .notImplemented ∧
    algAllIntersections exExt exPar exW exA [[0, 1, 2, 3, 4, 7], [1, 0, 1, 0, 1, 0]] = .error .unsupportedDegree ∧
    algAllIntersections exExt exPar exW exA [[0, 1], [2, 3]] = .ok (([], []), false) := by
  refine ⟨?_, ?_, ?_, ?_, ?_⟩ <;> decide +kernel

/-- 4: `algebraic_total` names the reason of the first of these refusals -/
example : Refusal exExt exPar exW [[0, 1], [1 / 2, 1 / 2]] exB .notImplemented := by
  have hr : algAllIntersections exExt exPar exW [[0, 1], [1 / 2, 1 / 2]] exB = .error .notImplemented := by
    decide +kernel
  rcases algebraic_total exExt exPar exW [[0, 1], [1 / 2, 1 / 2]] exB with ⟨r, h⟩ | ⟨e, h, -, href, -⟩
  · rw [hr] at h; cases h
  · rw [hr] at h; injection h with h; subst h; exact href

/-- 4: a refusal before the root finding is the result of `all_intersections` (tangent line) -/
example : algAllIntersections exExt exPar exW [[0, 1], [1 / 2, 1 / 2]] exB = .error .notImplemented ∧
    allIntersectionsGate exExt exPar [[0, 1], [1 / 2, 1 / 2]] exB = .error .notImplemented :=
  algebraic_refuses exExt exPar exW _ _ _ (by decide +kernel) (by decide +kernel)

/-- 5: both strategies on the same pair: the geometric model (concrete primitives, library constants, exact
    arithmetic) returns `(1/4, 1/4), (3/4, 3/4)`, the algebraic one `[[1/4, 3/4], [1/4, 3/4]]`, and
    `strategies_agree_spec` applies -/
example : allIntersections (concretePrims true libConsts) libConsts.geo exA exB
      = .ok ([(1 / 4, 1 / 4), (3 / 4, 3 / 4)], false) ∧
    algIntersectCurves exExt exPar exW exA exB = .ok ([1 / 4, 3 / 4], [1 / 4, 3 / 4]) :=
  ⟨by decide +kernel, ex_result⟩

example : (∀ q ∈ [((1 / 4 : ℚ), (1 / 4 : ℚ)), (3 / 4, 3 / 4)], 0 ≤ q.1 ∧ q.1 ≤ 1 ∧ 0 ≤ q.2 ∧ q.2 ≤ 1) ∧
    ∃ fs ft : List ℚ, (([1 / 4, 3 / 4] : List ℚ), ([1 / 4, 3 / 4] : List ℚ)) =
        (if exPrep.swapped = true then (ft, fs) else (fs, ft)) ∧ fs.length = ft.length ∧
      (∀ q ∈ fs.zip ft, 0 ≤ q.1 ∧ q.1 ≤ 1 ∧ 0 ≤ q.2 ∧ q.2 ≤ 1 ∧
        ∃ s t : ℚ, evalPoint exPar.vsThr exPrep.nodes1 s = evalPoint exPar.vsThr exPrep.nodes2 t ∧
          |q.1 - s| < exW ∧ |q.2 - t| < exW ∧
          (exW ≤ s → s ≤ 1 - exW → exW ≤ t → t ≤ 1 - exW →
            q = (s, t) ∧ Cover.TrueInt exPar.vsThr exPrep.nodes1 exPrep.nodes2 q.1 q.2)) ∧
      (∀ s t : ℚ, Cover.TrueInt exPar.vsThr exPrep.nodes1 exPrep.nodes2 s t →
        LocateAnswers exExt exPar exPrep.nodes1 (evalPoint exPar.vsThr exPrep.nodes2 t) →
        (∀ s', evalPoint exPar.vsThr exPrep.nodes1 s' = evalPoint exPar.vsThr exPrep.nodes1 s → s' = s) →
        (∃ a b, wiggleInterval exW s = some a ∧ wiggleInterval exW t = some b ∧ (a, b) ∈ fs.zip ft) ∧
        (exW ≤ s → s ≤ 1 - exW → exW ≤ t → t ≤ 1 - exW → (fs.zip ft).count (s, t) = 1)) :=
  strategies_agree_spec exA exB (concretePrims true libConsts)
    (C02.concrete_primsOK true libConsts libConsts_wiggle) libConsts.geo _ false (by decide +kernel)
    exExt exPar exW exPrep [0, 1] [3 / 8, 3 / 8] [0, 1 / 2, 1] [0, 1, 0] _ _ (by norm_num [exW]) (by norm_num [exW])
    (by norm_num [exPar]) (by norm_num [exPar]) (by norm_num [exPar]) ex_prepare rfl rfl rfl rfl (by decide)
    ex_exactEig ex_noNearReal ex_squarefree ex_exactLocate ex_result

end Examples

end BezierVerif.C15
