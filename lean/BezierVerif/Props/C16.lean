import BezierVerif.Lemmas.Predicates
import BezierVerif.Props.C01

/-!
# C16 — pruning predicates are exact on exact data and never reject a true hit

Property theorems only, about the executable model `Model/Helpers.lean` over an arbitrary ordered
field (`exact data`): boxes, containment, interval tests, `wiggle_interval`, cross product,
segment / parallel-segment / line-line intersection, `solve2x2`.  The convex-hull and
separating-axis theorems are in `Props/C16Hull.lean`.
-/

set_option linter.unusedSectionVars false
set_option linter.unusedVariables false

namespace BezierVerif.C16

open Model BezierVerif BezierVerif.Predicates

variable {K : Type} [Field K] [LinearOrder K] [IsStrictOrderedRing K]

/-! ### `in_interval` -/

theorem in_interval_exact (v a b : K) : inInterval v a b = true ↔ a ≤ v ∧ v ≤ b := by
  simp [inInterval]

/-! ### `bbox`, `bbox_intersect` -/

/-- `bbox` returns the tight box: each bound is attained by a control value and bounds all of them;
    it fails exactly when the array is not `2 × N` with `N ≥ 1` -/
theorem bbox_tight (nodes : List (List K)) (b : K × K × K × K) (h : bbox nodes = .ok b) :
    ∃ xrow yrow, nodes = [xrow, yrow] ∧
      (∀ v ∈ xrow, b.1 ≤ v ∧ v ≤ b.2.1) ∧ b.1 ∈ xrow ∧ b.2.1 ∈ xrow ∧
      (∀ v ∈ yrow, b.2.2.1 ≤ v ∧ v ≤ b.2.2.2) ∧ b.2.2.1 ∈ yrow ∧ b.2.2.2 ∈ yrow := by
  obtain ⟨x, xs, y, ys, rfl, rfl⟩ := bbox_ok_shape nodes b h
  exact ⟨x :: xs, y :: ys, rfl,
    fun v hv => ⟨minOf_le_of_mem xs x v hv, le_maxOf_of_mem xs x v hv⟩, minOf_mem xs x, maxOf_mem xs x,
    fun v hv => ⟨minOf_le_of_mem ys y v hv, le_maxOf_of_mem ys y v hv⟩, minOf_mem ys y, maxOf_mem ys y⟩

theorem bbox_error_iff (nodes : List (List K)) :
    (∃ e, bbox nodes = .error e) ↔ ¬ ∃ x xs y ys, nodes = [x :: xs, y :: ys] := by
  constructor
  · rintro ⟨e, he⟩ ⟨x, xs, y, ys, rfl⟩
    rw [bbox_rows] at he; cases he
  · intro h
    unfold bbox
    split
    · rename_i x xs y ys
      exact absurd ⟨x, xs, y, ys, rfl⟩ h
    all_goals exact ⟨_, rfl⟩

theorem bbox_wellFormed (nodes : List (List K)) (b : K × K × K × K) (h : bbox nodes = .ok b) :
    WellFormed b := by
  obtain ⟨x, xs, y, ys, rfl, rfl⟩ := bbox_ok_shape nodes b h
  exact ⟨minOf_le_maxOf x xs, minOf_le_maxOf y ys⟩

/-- DISJOINT ⇔ the two closed boxes share no point -/
theorem box_disjoint_iff (b1 b2 : K × K × K × K) (w1 : WellFormed b1) (w2 : WellFormed b2) :
    boxRelation b1 b2 = .disjoint ↔ ¬ ∃ p : K × K, InBox b1 p ∧ InBox b2 p := by
  obtain ⟨l1, r1, bo1, t1⟩ := b1
  obtain ⟨l2, r2, bo2, t2⟩ := b2
  simp only [WellFormed] at w1 w2
  simp only [boxRelation, InBox]
  constructor
  · intro h
    split_ifs at h with hd ht
    rintro ⟨⟨px, py⟩, ⟨a1, a2, a3, a4⟩, ⟨c1, c2, c3, c4⟩⟩
    simp only at a1 a2 a3 a4 c1 c2 c3 c4
    rcases hd with hd | hd | hd | hd <;> linarith
  · intro h
    split_ifs with hd ht
    · rfl
    · exfalso; apply h
      push Not at hd
      obtain ⟨d1, d2, d3, d4⟩ := hd
      exact ⟨(max l1 l2, max bo1 bo2),
        ⟨le_max_left _ _, max_le w1.1 d2, le_max_left _ _, max_le w1.2 d4⟩,
        ⟨le_max_right _ _, max_le d1 w2.1, le_max_right _ _, max_le d3 w2.2⟩⟩
    · exfalso; apply h
      push Not at hd
      obtain ⟨d1, d2, d3, d4⟩ := hd
      exact ⟨(max l1 l2, max bo1 bo2),
        ⟨le_max_left _ _, max_le w1.1 d2, le_max_left _ _, max_le w1.2 d4⟩,
        ⟨le_max_right _ _, max_le d1 w2.1, le_max_right _ _, max_le d3 w2.2⟩⟩

/-- INTERSECTION ⇔ all four facing-side comparisons are strict overlaps -/
theorem box_intersection_iff (b1 b2 : K × K × K × K) :
    boxRelation b1 b2 = .intersection ↔
      b1.1 < b2.2.1 ∧ b2.1 < b1.2.1 ∧ b1.2.2.1 < b2.2.2.2 ∧ b2.2.2.1 < b1.2.2.2 := by
  obtain ⟨l1, r1, bo1, t1⟩ := b1
  obtain ⟨l2, r2, bo2, t2⟩ := b2
  simp only [boxRelation]
  constructor
  · intro h
    split_ifs at h with hd ht
    push Not at hd ht
    obtain ⟨d1, d2, d3, d4⟩ := hd
    obtain ⟨e1, e2, e3, e4⟩ := ht
    exact ⟨lt_of_le_of_ne d1 (Ne.symm e1), lt_of_le_of_ne d2 (Ne.symm e2),
      lt_of_le_of_ne d3 (Ne.symm e3), lt_of_le_of_ne d4 (Ne.symm e4)⟩
  · rintro ⟨a1, a2, a3, a4⟩
    split_ifs with hd ht
    · rcases hd with hd | hd | hd | hd <;> linarith
    · rcases ht with ht | ht | ht | ht <;> linarith
    · rfl

/-- TANGENT ⇔ neither: the closed boxes share a point but some facing sides only touch -/
theorem box_tangent_iff (b1 b2 : K × K × K × K) (w1 : WellFormed b1) (w2 : WellFormed b2) :
    boxRelation b1 b2 = .tangent ↔
      (∃ p : K × K, InBox b1 p ∧ InBox b2 p) ∧
      ¬ (b1.1 < b2.2.1 ∧ b2.1 < b1.2.1 ∧ b1.2.2.1 < b2.2.2.2 ∧ b2.2.2.1 < b1.2.2.2) := by
  have hd := box_disjoint_iff b1 b2 w1 w2
  rw [← box_intersection_iff]
  cases h : boxRelation b1 b2 with
  | intersection => simp
  | tangent =>
    rw [h] at hd
    have hp : ∃ p, InBox b1 p ∧ InBox b2 p := by
      by_contra hc; exact absurd (hd.mpr hc) (by decide)
    exact ⟨fun _ => ⟨hp, by decide⟩, fun _ => rfl⟩
  | disjoint =>
    rw [h] at hd
    have hp : ¬ ∃ p, InBox b1 p ∧ InBox b2 p := hd.mp rfl
    exact ⟨fun hh => absurd hh (by decide), fun hh => absurd hh.1 hp⟩

/-- `bbox_exact`: the three answers of `bbox_intersect` on the tight boxes of the two nets -/
theorem bbox_exact (nodes1 nodes2 : List (List K)) (b1 b2 : K × K × K × K)
    (h1 : bbox nodes1 = .ok b1) (h2 : bbox nodes2 = .ok b2) :
    (bboxIntersect nodes1 nodes2 = .ok .disjoint ↔ ¬ ∃ p : K × K, InBox b1 p ∧ InBox b2 p) ∧
    (bboxIntersect nodes1 nodes2 = .ok .intersection ↔
      b1.1 < b2.2.1 ∧ b2.1 < b1.2.1 ∧ b1.2.2.1 < b2.2.2.2 ∧ b2.2.2.1 < b1.2.2.2) ∧
    (bboxIntersect nodes1 nodes2 = .ok .tangent ↔
      (∃ p : K × K, InBox b1 p ∧ InBox b2 p) ∧
      ¬ (b1.1 < b2.2.1 ∧ b2.1 < b1.2.1 ∧ b1.2.2.1 < b2.2.2.2 ∧ b2.2.2.1 < b1.2.2.2)) := by
  have e : bboxIntersect nodes1 nodes2 = .ok (boxRelation b1 b2) := by
    unfold bboxIntersect; rw [h1, h2]
  have w1 := bbox_wellFormed nodes1 b1 h1
  have w2 := bbox_wellFormed nodes2 b2 h2
  rw [e]
  refine ⟨?_, ?_, ?_⟩
  · rw [← box_disjoint_iff b1 b2 w1 w2]; simp
  · rw [← box_intersection_iff b1 b2]; simp
  · rw [← box_tangent_iff b1 b2 w1 w2]; simp

/-- `bbox_intersect` fails exactly when one of the `bbox` calls fails -/
theorem bbox_intersect_error_iff (nodes1 nodes2 : List (List K)) :
    (∃ e, bboxIntersect nodes1 nodes2 = .error e) ↔
      (∃ e, bbox nodes1 = .error e) ∨ (∃ e, bbox nodes2 = .error e) := by
  unfold bboxIntersect
  cases h1 : bbox nodes1 <;> cases h2 : bbox nodes2 <;> simp

/-- `bbox_safe`: DISJOINT boxes ⇒ the two curves have no common point for parameters in `[0,1]²`
    (curves evaluated by de Casteljau = Bernstein form, C01) -/
theorem bbox_safe (x1 y1 x2 y2 : List K) (n1 n2 : ℕ)
    (hx1 : x1.length = n1 + 1) (hy1 : y1.length = n1 + 1)
    (hx2 : x2.length = n2 + 1) (hy2 : y2.length = n2 + 1)
    (h : bboxIntersect [x1, y1] [x2, y2] = .ok .disjoint)
    (s t : K) (hs0 : 0 ≤ s) (hs1 : s ≤ 1) (ht0 : 0 ≤ t) (ht1 : t ≤ 1) :
    ¬ (evalDC (1 - s) s n1 x1 = evalDC (1 - t) t n2 x2 ∧
       evalDC (1 - s) s n1 y1 = evalDC (1 - t) t n2 y2) := by
  match x1, hx1, y1, hy1, x2, hx2, y2, hy2 with
  | a :: as, hx1, b :: bs, hy1, c :: cs, hx2, d :: ds, hy2 =>
    unfold bboxIntersect at h
    rw [bbox_rows, bbox_rows] at h
    simp only [boxRelation] at h
    split_ifs at h with hd ht
    · rintro ⟨ex, ey⟩
      rcases hd with hd | hd | hd | hd
      · -- right2 < left1
        exact disjoint_ranges_no_meet (c :: cs) (a :: as) n2 n1 hx2 hx1 (maxOf c cs)
          (fun v hv => le_maxOf_of_mem cs c v hv)
          (fun v hv => lt_of_lt_of_le hd (minOf_le_of_mem as a v hv)) t s ht0 ht1 hs0 hs1 ex.symm
      · -- right1 < left2
        exact disjoint_ranges_no_meet (a :: as) (c :: cs) n1 n2 hx1 hx2 (maxOf a as)
          (fun v hv => le_maxOf_of_mem as a v hv)
          (fun v hv => lt_of_lt_of_le hd (minOf_le_of_mem cs c v hv)) s t hs0 hs1 ht0 ht1 ex
      · -- top2 < bottom1
        exact disjoint_ranges_no_meet (d :: ds) (b :: bs) n2 n1 hy2 hy1 (maxOf d ds)
          (fun v hv => le_maxOf_of_mem ds d v hv)
          (fun v hv => lt_of_lt_of_le hd (minOf_le_of_mem bs b v hv)) t s ht0 ht1 hs0 hs1 ey.symm
      · -- top1 < bottom2
        exact disjoint_ranges_no_meet (b :: bs) (d :: ds) n1 n2 hy1 hy2 (maxOf b bs)
          (fun v hv => le_maxOf_of_mem bs b v hv)
          (fun v hv => lt_of_lt_of_le hd (minOf_le_of_mem ds d v hv)) s t hs0 hs1 ht0 ht1 ey
    all_goals cases h

/-! ### `contains_nd` -/

/-- the coordinate `v` lies between the smallest and the largest entry of the row -/
def InRowRange (row : List K) (v : K) : Prop := (∃ a ∈ row, a ≤ v) ∧ (∃ b ∈ row, v ≤ b)

theorem inRowRange_cons (x : K) (xs : List K) (v : K) :
    InRowRange (x :: xs) v ↔ minOf x xs ≤ v ∧ v ≤ maxOf x xs := by
  constructor
  · rintro ⟨⟨a, ha, hav⟩, ⟨b, hb, hvb⟩⟩
    exact ⟨le_trans (minOf_le_of_mem xs x a ha) hav, le_trans hvb (le_maxOf_of_mem xs x b hb)⟩
  · rintro ⟨h1, h2⟩
    exact ⟨⟨_, minOf_mem xs x, h1⟩, ⟨_, maxOf_mem xs x, h2⟩⟩

/-- `contains_exact`: `True` ⇔ every coordinate of the point is within the range of its row -/
theorem contains_exact : ∀ (nodes : List (List K)) (p : List K),
    Py.containsND nodes p = .ok true ↔ List.Forall₂ InRowRange nodes p
  | [], [] => by simp [Py.containsND]
  | [], _ :: _ => by simp [Py.containsND]
  | [] :: _, [] => by simp [Py.containsND]
  | (_ :: _) :: _, [] => by simp [Py.containsND]
  | [] :: rows, v :: ps => by
    simp only [Py.containsND, List.forall₂_cons, InRowRange]
    simp
  | (x :: xs) :: rows, v :: ps => by
    have ih := contains_exact rows ps
    simp only [Py.containsND, List.forall₂_cons, inRowRange_cons]
    cases hrec : Py.containsND rows ps with
    | error e =>
      rw [hrec] at ih
      simp only [reduceCtorEq, false_iff] at ih
      simp [ih]
    | ok rest =>
      rw [hrec] at ih
      cases rest with
      | true => simp only [true_iff] at ih; simp [ih]
      | false =>
        have : ¬ List.Forall₂ InRowRange rows ps := by
          intro hc; have := ih.mpr hc; simp at this
        simp [this]

/-- `contains_nd` answers (does not raise) exactly on a point with one coordinate per non-empty row -/
theorem contains_ok_iff : ∀ (nodes : List (List K)) (p : List K),
    (∃ b, Py.containsND nodes p = .ok b) ↔ List.Forall₂ (fun row _ => row ≠ []) nodes p
  | [], [] => by simp [Py.containsND]
  | [], _ :: _ => by simp [Py.containsND]
  | [] :: _, [] => by simp [Py.containsND]
  | (_ :: _) :: _, [] => by simp [Py.containsND]
  | [] :: rows, v :: ps => by simp [Py.containsND]
  | (x :: xs) :: rows, v :: ps => by
    have ih := contains_ok_iff rows ps
    simp only [Py.containsND, List.forall₂_cons]
    cases hrec : Py.containsND rows ps with
    | error e => rw [hrec] at ih; simp at ih; simp [ih]
    | ok rest => rw [hrec] at ih; simp at ih; simp [ih]

/-- the Fortran formulation (`any(point < minval)`, `any(maxval < point)`) gives the same answer -/
theorem contains_variants_agree : ∀ (nodes : List (List K)) (p : List K),
    F90.containsND nodes p = Py.containsND nodes p
  | [], [] => rfl
  | [], _ :: _ => rfl
  | [] :: _, [] => rfl
  | (_ :: _) :: _, [] => rfl
  | [] :: rows, v :: ps => rfl
  | (x :: xs) :: rows, v :: ps => by
    have ih := contains_variants_agree rows ps
    have e1 : (!decide (v < minOf x xs)) = decide (minOf x xs ≤ v) := by
      by_cases h : minOf x xs ≤ v
      · simp [h, not_lt.mpr h]
      · simp [h, not_le.mp h]
    have e2 : (!decide (maxOf x xs < v)) = decide (v ≤ maxOf x xs) := by
      by_cases h : v ≤ maxOf x xs
      · simp [h, not_lt.mpr h]
      · simp [h, not_le.mp h]
    simp only [F90.containsND, Py.containsND, ih, e1, e2]

/-- `contains_safe`: a curve point `B(s)`, `0 ≤ s ≤ 1`, is never declared outside the box of the
    control net (any dimension; evaluation by de Casteljau = Bernstein form, C01) -/
theorem contains_safe (n : ℕ) (s : K) (hs0 : 0 ≤ s) (hs1 : s ≤ 1) : ∀ (nodes : List (List K)),
    (∀ row ∈ nodes, row.length = n + 1) →
    Py.containsND nodes (nodes.map (evalDC (1 - s) s n)) = .ok true := by
  intro nodes hlen
  rw [contains_exact]
  induction nodes with
  | nil => exact List.Forall₂.nil
  | cons row rows ih =>
    simp only [List.map_cons]
    refine List.Forall₂.cons ?_ (ih (fun r hr => hlen r (List.mem_cons_of_mem _ hr)))
    have hl := hlen row List.mem_cons_self
    match row, hl with
    | x :: xs, hl =>
      rw [inRowRange_cons]
      exact evalDC_in_bounds (x :: xs) n hl s _ _ hs0 hs1
        (fun v hv => minOf_le_of_mem xs x v hv) (fun v hv => le_maxOf_of_mem xs x v hv)

/-- the same for the library's own evaluation routine (`evaluate_multi`: VS or de Casteljau depending on
    the switch `thr`, C01), degree `n ≥ 1` -/
theorem contains_safe_evaluate (thr n : ℕ) (hn : 1 ≤ n) (s : K) (hs0 : 0 ≤ s) (hs1 : s ≤ 1)
    (nodes : List (List K)) (hlen : ∀ row ∈ nodes, row.length = n + 1) :
    Py.containsND nodes (evalPoint thr nodes s) = .ok true := by
  have e : evalPoint thr nodes s = nodes.map (evalDC (1 - s) s n) := by
    unfold evalPoint
    apply List.map_congr_left
    intro row hrow
    have hl := hlen row hrow
    rw [C01.dispatch_seamless thr row (by omega), ← C01.dc_eq_bernstein row (by omega), hl]
    rfl
  rw [e]
  exact contains_safe n s hs0 hs1 nodes hlen

/-! ### `wiggle_interval` -/

/-- a returned value is in `[0,1]` and within `w` of the input -/
theorem wiggle_spec (w v x : K) (hw0 : 0 < w) (hw : w < 1 / 2) (h : wiggleInterval w v = some x) :
    0 ≤ x ∧ x ≤ 1 ∧ |x - v| < w := by
  unfold wiggleInterval at h
  split_ifs at h with h1 h2 h3 <;> simp only [Option.some.injEq] at h <;> subst h
  · refine ⟨le_rfl, by linarith, ?_⟩; rw [abs_lt]; constructor <;> linarith [h1.1, h1.2]
  · refine ⟨by linarith [h2.1], by linarith [h2.2], ?_⟩; simp [hw0]
  · refine ⟨by linarith, le_rfl, ?_⟩; rw [abs_lt]; constructor <;> linarith [h3.1, h3.2]

/-- values inside `[w, 1 - w]` are returned unchanged, the rest is snapped to the nearer end -/
theorem wiggle_value (w v x : K) (hw0 : 0 < w) (hw : w < 1 / 2) (h : wiggleInterval w v = some x) :
    x = if v < w then 0 else if v ≤ 1 - w then v else 1 := by
  unfold wiggleInterval at h
  split_ifs at h with h1 h2 h3 <;> simp only [Option.some.injEq] at h <;> subst h
  · rw [if_pos h1.2]
  · rw [if_neg (not_lt.mpr h2.1), if_pos h2.2]
  · rw [if_neg (not_lt.mpr (by linarith [h3.1])), if_neg (not_le.mpr (by linarith [h3.1]))]

/-- failure ⇔ the value is at least `w` outside `[0,1]` (`-w` and `1 + w` themselves fail) -/
theorem wiggle_none_iff (w v : K) (hw0 : 0 < w) (hw : w < 1 / 2) :
    wiggleInterval w v = none ↔ (v ≤ -w ∨ 1 + w ≤ v) := by
  unfold wiggleInterval
  split_ifs with h1 h2 h3
  · simp; constructor <;> linarith [h1.1, h1.2]
  · simp; constructor <;> linarith [h2.1, h2.2]
  · simp; constructor <;> linarith [h3.1, h3.2]
  · simp only [true_iff]
    by_contra hcon
    push Not at hcon h1 h2 h3
    obtain ⟨c1, c2⟩ := hcon
    by_cases a : v < w
    · exact absurd (h1 c1) (not_le.mpr a)
    · push Not at a
      by_cases b : v ≤ 1 - w
      · exact absurd (h2 a) (not_lt.mpr b)
      · push Not at b
        exact absurd (h3 b) (not_le.mpr c2)

/-! ### `cross_product` -/

theorem cross_add_left (u v w : K × K) : cross (u.1 + v.1, u.2 + v.2) w = cross u w + cross v w := by
  simp only [cross]; ring

theorem cross_add_right (u v w : K × K) : cross u (v.1 + w.1, v.2 + w.2) = cross u v + cross u w := by
  simp only [cross]; ring

theorem cross_smul_left (c : K) (u v : K × K) : cross (c * u.1, c * u.2) v = c * cross u v := by
  simp only [cross]; ring

theorem cross_smul_right (c : K) (u v : K × K) : cross u (c * v.1, c * v.2) = c * cross u v := by
  simp only [cross]; ring

theorem cross_antisymm (u v : K × K) : cross u v = - cross v u := by
  simp only [cross]; ring

theorem cross_self (u : K × K) : cross u u = 0 := by
  simp only [cross]; ring

/-- the list-level routine is the same function -/
theorem crossProduct_eq (a b c d : K) : crossProduct [a, b] [c, d] = a * d - b * c := by
  simp [crossProduct, cross, ptOf, seq]

/-- `cross_product_compare` is the orientation determinant of the triangle -/
theorem crossProductCompare_eq (s c1 c2 : K × K) :
    crossProductCompare s c1 c2 = (c1.1 - s.1) * (c2.2 - s.2) - (c1.2 - s.2) * (c2.1 - s.1) := by
  simp [crossProductCompare, cross, psub]

/-! ### `segment_intersection` -/

/-- success ⇔ the directions are not parallel -/
theorem segment_success_iff (S0 E0 S1 E1 : K × K) :
    (∃ st, segmentIntersection S0 E0 S1 E1 = some st) ↔ cross (psub E0 S0) (psub E1 S1) ≠ 0 := by
  unfold segmentIntersection
  simp only
  split_ifs with h <;> simp [h]

/-- on success `(s, t)` solves `S0 + s Δ0 = S1 + t Δ1` -/
theorem segment_solution (S0 E0 S1 E1 : K × K) (s t : K)
    (h : segmentIntersection S0 E0 S1 E1 = some (s, t)) :
    S0.1 + s * (E0.1 - S0.1) = S1.1 + t * (E1.1 - S1.1) ∧
    S0.2 + s * (E0.2 - S0.2) = S1.2 + t * (E1.2 - S1.2) := by
  unfold segmentIntersection at h
  simp only at h
  split_ifs at h with hc
  simp only [Option.some.injEq, Prod.mk.injEq] at h
  obtain ⟨hs, ht⟩ := h
  have hs' := div_mul_cancel₀ (cross (psub S1 S0) (psub E1 S1)) hc
  have ht' := div_mul_cancel₀ (cross (psub S1 S0) (psub E0 S0)) hc
  rw [hs] at hs'
  rw [ht] at ht'
  simp only [cross, psub] at hc hs' ht'
  constructor
  · apply mul_right_cancel₀ hc
    linear_combination (E0.1 - S0.1) * hs' - (E1.1 - S1.1) * ht'
  · apply mul_right_cancel₀ hc
    linear_combination (E0.2 - S0.2) * hs' - (E1.2 - S1.2) * ht'

/-- … and it is the only solution -/
theorem segment_unique (S0 E0 S1 E1 : K × K) (s t s' t' : K)
    (h : segmentIntersection S0 E0 S1 E1 = some (s, t))
    (e1 : S0.1 + s' * (E0.1 - S0.1) = S1.1 + t' * (E1.1 - S1.1))
    (e2 : S0.2 + s' * (E0.2 - S0.2) = S1.2 + t' * (E1.2 - S1.2)) :
    s' = s ∧ t' = t := by
  unfold segmentIntersection at h
  simp only at h
  split_ifs at h with hc
  simp only [Option.some.injEq, Prod.mk.injEq] at h
  obtain ⟨rfl, rfl⟩ := h
  simp only [cross, psub] at hc ⊢
  constructor
  · rw [eq_div_iff hc]
    linear_combination (E1.2 - S1.2) * e1 - (E1.1 - S1.1) * e2
  · rw [eq_div_iff hc]
    linear_combination (E0.2 - S0.2) * e1 - (E0.1 - S0.1) * e2

/-! ### `parallel_lines_parameters` -/

/-- the twelve leaves: all four outputs are in `[0,1]` -/
theorem parallel_unit (S0 E0 S1 E1 : K × K) (a b c d : K)
    (h : parallelLinesParameters S0 E0 S1 E1 = .ok (some (a, b, c, d))) :
    (0 ≤ a ∧ a ≤ 1) ∧ (0 ≤ b ∧ b ≤ 1) ∧ (0 ≤ c ∧ c ≤ 1) ∧ (0 ≤ d ∧ d ≤ 1) := by
  unfold parallelLinesParameters at h
  simp only at h
  split_ifs at h with h1 h2 <;>
    first
      | (simp only [Except.ok.injEq] at h; exact parallelParams_unit _ _ a b c d h)
      | cases h

/-- the routine raises (NaN parameters in the code) exactly for a degenerate first segment -/
theorem parallel_error_iff (S0 E0 S1 E1 : K × K) :
    (∃ e, parallelLinesParameters S0 E0 S1 E1 = .error e) ↔ E0 = S0 := by
  unfold parallelLinesParameters
  simp only
  constructor
  · rintro ⟨e, he⟩
    split_ifs at he with h1 h2
    by_contra hne
    apply dot2_self_ne_zero (psub E0 S0) _ h2
    intro h0
    apply hne
    simp only [psub, Prod.mk.injEq] at h0
    exact Prod.ext (by linarith [h0.1]) (by linarith [h0.2])
  · intro h
    rw [h]
    have z : psub S0 S0 = ((0 : K), (0 : K)) := by simp [psub]
    rw [z]
    simp [cross, dot2]

/-- `parallel_exact` (1): for parallel segments with a non-degenerate first one,
    `disjoint = True` ⇔ the segments have no common point -/
theorem parallel_disjoint_iff (S0 E0 S1 E1 : K × K) (hne : E0 ≠ S0)
    (hpar : cross (psub E0 S0) (psub E1 S1) = 0) :
    parallelLinesParameters S0 E0 S1 E1 = .ok none ↔
      ¬ ∃ s t : K, 0 ≤ s ∧ s ≤ 1 ∧ 0 ≤ t ∧ t ≤ 1 ∧
        S0.1 + s * (E0.1 - S0.1) = S1.1 + t * (E1.1 - S1.1) ∧
        S0.2 + s * (E0.2 - S0.2) = S1.2 + t * (E1.2 - S1.2) := by
  have hD0 : psub E0 S0 ≠ (0, 0) := by
    intro h0; apply hne
    simp only [psub, Prod.mk.injEq] at h0
    exact Prod.ext (by linarith [h0.1]) (by linarith [h0.2])
  have hn := dot2_self_ne_zero (psub E0 S0) hD0
  unfold parallelLinesParameters
  simp only
  split_ifs with hline
  · -- start1 is not on the first line: nothing in common
    simp only [true_iff]
    rintro ⟨s, t, -, -, -, -, e1, e2⟩
    apply hline
    simp only [cross, psub] at hpar ⊢
    linear_combination (E0.2 - S0.2) * e1 - (E0.1 - S0.1) * e2 - t * hpar
  · push Not at hline
    -- both ends of the second segment are on the first line
    obtain ⟨p1, p2⟩ := on_line_param S0 S1 (psub E0 S0) hn hline
    have hline' : cross S0 (psub E0 S0) = cross E1 (psub E0 S0) := by
      simp only [cross, psub] at hpar hline ⊢
      linear_combination hline + hpar
    obtain ⟨q1, q2⟩ := on_line_param S0 E1 (psub E0 S0) hn hline'
    set s0 := dot2 (psub S1 S0) (psub E0 S0) / dot2 (psub E0 S0) (psub E0 S0) with hs0
    set s1 := dot2 (psub E1 S0) (psub E0 S0) / dot2 (psub E0 S0) (psub E0 S0) with hs1
    simp only [Except.ok.injEq]
    rw [parallelParams_none_iff, ← not_iff_not, not_not, ← interval_meets_iff]
    simp only [psub] at p1 p2 q1 q2 hD0
    have hD : E0.1 - S0.1 ≠ 0 ∨ E0.2 - S0.2 ≠ 0 := by
      by_contra hc
      push Not at hc
      exact hD0 (Prod.ext hc.1 hc.2)
    constructor
    · rintro ⟨s, t, a1, a2, a3, a4, rfl⟩
      refine ⟨_, t, a1, a2, a3, a4, ?_, ?_⟩
      · rw [p1, q1]; ring
      · rw [p2, q2]; ring
    · rintro ⟨s, t, a1, a2, a3, a4, e1, e2⟩
      refine ⟨s, t, a1, a2, a3, a4, ?_⟩
      rw [p1, q1] at e1
      rw [p2, q2] at e2
      rcases hD with hD | hD
      · apply mul_right_cancel₀ hD
        linear_combination e1
      · apply mul_right_cancel₀ hD
        linear_combination e2

/-- `parallel_exact` (2): on overlap the first row holds the end points of the common part in the
    parametrisation of the first segment (`[0,1] ∩ span(s0, s1)` with `s0, s1` the parameters of
    the second segment's ends on the first line), ordered along the second segment, and the second
    row the parameters of the *same two points* on the second segment -/
theorem parallel_columns (S0 E0 S1 E1 : K × K) (a b c d : K)
    (h : parallelLinesParameters S0 E0 S1 E1 = .ok (some (a, b, c, d))) :
    ∃ s0 s1 : K,
      s0 = dot2 (psub S1 S0) (psub E0 S0) / dot2 (psub E0 S0) (psub E0 S0) ∧
      s1 = dot2 (psub E1 S0) (psub E0 S0) / dot2 (psub E0 S0) (psub E0 S0) ∧
      (s0 ≤ s1 → a = max 0 s0 ∧ b = min 1 s1) ∧ (s1 < s0 → a = min 1 s0 ∧ b = max 0 s1) ∧
      a = s0 + c * (s1 - s0) ∧ b = s0 + d * (s1 - s0) := by
  unfold parallelLinesParameters at h
  simp only at h
  split_ifs at h with h1 h2 <;>
    first
      | (simp only [Except.ok.injEq] at h
         have cf := parallelParams_closed_form _ _ a b c d h
         have cs := parallelParams_consistent _ _ a b c d h
         exact ⟨_, _, rfl, rfl, cf.1, cf.2, cs.1, cs.2⟩)
      | cases h

/-! ### `line_line_collide` -/

/-- `line_line_exact`: with a non-degenerate first segment the answer is `True` exactly when the two
    closed segments share a point (transversal and parallel case) -/
theorem line_line_exact (A0 A1 B0 B1 : K × K) (hne : A1 ≠ A0) :
    lineLineCollide A0 A1 B0 B1 = .ok true ↔
      ∃ s t : K, 0 ≤ s ∧ s ≤ 1 ∧ 0 ≤ t ∧ t ≤ 1 ∧
        A0.1 + s * (A1.1 - A0.1) = B0.1 + t * (B1.1 - B0.1) ∧
        A0.2 + s * (A1.2 - A0.2) = B0.2 + t * (B1.2 - B0.2) := by
  unfold lineLineCollide
  cases hseg : segmentIntersection A0 A1 B0 B1 with
  | some st =>
    obtain ⟨s, t⟩ := st
    simp only [Except.ok.injEq, Bool.and_eq_true, in_interval_exact]
    obtain ⟨e1, e2⟩ := segment_solution A0 A1 B0 B1 s t hseg
    constructor
    · rintro ⟨⟨a1, a2⟩, ⟨a3, a4⟩⟩
      exact ⟨s, t, a1, a2, a3, a4, e1, e2⟩
    · rintro ⟨s', t', a1, a2, a3, a4, f1, f2⟩
      obtain ⟨rfl, rfl⟩ := segment_unique A0 A1 B0 B1 s t s' t' hseg f1 f2
      exact ⟨⟨a1, a2⟩, ⟨a3, a4⟩⟩
  | none =>
    have hpar : cross (psub A1 A0) (psub B1 B0) = 0 := by
      by_contra hc
      obtain ⟨st, hst⟩ := (segment_success_iff A0 A1 B0 B1).mpr hc
      rw [hseg] at hst; cases hst
    have key := parallel_disjoint_iff A0 A1 B0 B1 hne hpar
    simp only
    cases hp : parallelLinesParameters A0 A1 B0 B1 with
    | error e =>
      exact absurd ((parallel_error_iff A0 A1 B0 B1).mp ⟨e, hp⟩) hne
    | ok r =>
      cases r with
      | none =>
        rw [hp] at key
        simp only [true_iff] at key
        simp only [Except.ok.injEq, Bool.false_eq_true, false_iff]
        exact key
      | some v =>
        rw [hp] at key
        simp only [Except.ok.injEq, reduceCtorEq, false_iff, not_not] at key
        simp only [true_iff]
        exact key

/-- with a degenerate first segment the routine can only fail in the parallel branch -/
theorem line_line_error (A0 A1 B0 B1 : K × K) (e : Err)
    (h : lineLineCollide A0 A1 B0 B1 = .error e) : A1 = A0 := by
  unfold lineLineCollide at h
  cases hseg : segmentIntersection A0 A1 B0 B1 with
  | some st => rw [hseg] at h; obtain ⟨s, t⟩ := st; cases h
  | none =>
    rw [hseg] at h
    simp only at h
    cases hp : parallelLinesParameters A0 A1 B0 B1 with
    | error e' => exact (parallel_error_iff A0 A1 B0 B1).mp ⟨e', hp⟩
    | ok r => rw [hp] at h; cases r <;> cases h

/-! ### `solve2x2` -/

/-- a returned pair solves the system, in both pivot branches -/
theorem solve2x2_exact (A B C D E F x y : K) (h : solve2x2 A B C D E F = some (x, y)) :
    A * x + B * y = E ∧ C * x + D * y = F := by
  unfold solve2x2 at h
  simp only [absK_eq_abs] at h
  split_ifs at h with h1 h2 h3 h4
  · have hC : C ≠ 0 := by
      intro h0; rw [h0, abs_zero] at h1; exact absurd h1 (not_lt.mpr (abs_nonneg A))
    have hd : C * B - A * D ≠ 0 := by
      intro h0; apply h2; field_simp; linarith
    simp only [Option.some.injEq, Prod.mk.injEq] at h
    obtain ⟨rfl, rfl⟩ := h
    have e : B - A / C * D = (C * B - A * D) / C := by field_simp
    rw [e]
    constructor <;> field_simp <;> ring
  · have hd : A * D - C * B ≠ 0 := by
      intro h0; apply h4; field_simp; linarith
    simp only [Option.some.injEq, Prod.mk.injEq] at h
    obtain ⟨rfl, rfl⟩ := h
    have e : D - C / A * B = (A * D - C * B) / A := by field_simp
    rw [e]
    constructor <;> field_simp <;> ring

/-- `singular = True` ⇔ the determinant vanishes -/
theorem solve2x2_singular_iff (A B C D E F : K) :
    solve2x2 A B C D E F = none ↔ A * D - B * C = 0 := by
  unfold solve2x2
  simp only [absK_eq_abs]
  split_ifs with h1 h2 h3 h4
  · have hC : C ≠ 0 := by
      intro h0; rw [h0, abs_zero] at h1; exact absurd h1 (not_lt.mpr (abs_nonneg A))
    simp only [true_iff]
    field_simp at h2; linarith
  · have hC : C ≠ 0 := by
      intro h0; rw [h0, abs_zero] at h1; exact absurd h1 (not_lt.mpr (abs_nonneg A))
    simp only [reduceCtorEq, false_iff]
    intro hdet; apply h2; field_simp; linarith
  · have hC : C = 0 := by
      have : |C| ≤ 0 := by rw [h3, abs_zero] at h1; exact not_lt.mp h1
      exact abs_eq_zero.mp (le_antisymm this (abs_nonneg C))
    simp only [true_iff]; rw [h3, hC]; ring
  · simp only [true_iff]
    field_simp at h4; linarith
  · simp only [reduceCtorEq, false_iff]
    intro hdet; apply h4; field_simp; linarith

/-- the returned pair is the only solution -/
theorem solve2x2_unique (A B C D E F x y x' y' : K) (h : solve2x2 A B C D E F = some (x, y))
    (e1 : A * x' + B * y' = E) (e2 : C * x' + D * y' = F) : x' = x ∧ y' = y := by
  have hdet : A * D - B * C ≠ 0 := by
    intro h0
    rw [(solve2x2_singular_iff A B C D E F).mpr h0] at h; cases h
  obtain ⟨f1, f2⟩ := solve2x2_exact A B C D E F x y h
  constructor
  · apply mul_left_cancel₀ hdet
    linear_combination D * (e1 - f1) - B * (e2 - f2)
  · apply mul_left_cancel₀ hdet
    linear_combination A * (e2 - f2) - C * (e1 - f1)

/-! ### non-vacuity: every hypothesis above is satisfiable and the conclusions compute -/

example : bboxIntersect [[0, 1, 3], [0, 2, 1]] [[4, 5], [0, 1]] = (.ok .disjoint : Except Err BoxType) := by
  decide +kernel

example : bboxIntersect [[0, 1, 3], [0, 2, 1]] [[3, 5], [0, 1]] = (.ok .tangent : Except Err BoxType) := by
  decide +kernel

example : bboxIntersect [[0, 1, 3], [0, 2, 1]] [[2, 5], [1, 3]] = (.ok .intersection : Except Err BoxType) := by
  decide +kernel

example : bboxIntersect [[], [0]] [[2, 5], [1, 3]] = (.error .valueError : Except Err BoxType) := by
  decide +kernel

/-- `bbox_safe` instantiated: a quadratic and a line with disjoint boxes never meet -/
example (s t : ℚ) (hs0 : 0 ≤ s) (hs1 : s ≤ 1) (ht0 : 0 ≤ t) (ht1 : t ≤ 1) :
    ¬ (evalDC (1 - s) s 2 [0, 1, 3] = evalDC (1 - t) t 1 [4, 5] ∧
       evalDC (1 - s) s 2 [0, 2, 1] = evalDC (1 - t) t 1 [0, 1]) :=
  bbox_safe [0, 1, 3] [0, 2, 1] [4, 5] [0, 1] 2 1 rfl rfl rfl rfl (by decide +kernel) s t hs0 hs1 ht0 ht1

/-- `contains_safe` instantiated on a cubic in three dimensions -/
example : Py.containsND ([[0, 1, 3, 7], [1, 0, 0, 2], [5, 5, 5, 5]] : List (List ℚ))
    ([[0, 1, 3, 7], [1, 0, 0, 2], [5, 5, 5, 5]].map (evalDC (1 - 1/3) (1/3) 3)) = .ok true :=
  contains_safe 3 (1/3) (by norm_num) (by norm_num) _ (by decide)

example : Py.containsND ([[0, 1], [1, 0]] : List (List ℚ)) [2, 0] = .ok false := by decide +kernel

example : wiggleInterval (1/4 : ℚ) (-1/8) = some 0 := by decide +kernel
example : wiggleInterval (1/4 : ℚ) (-1/4) = none := by decide +kernel
example : wiggleInterval (1/4 : ℚ) (9/8) = some 1 := by decide +kernel
example : wiggleInterval (1/4 : ℚ) (5/4) = none := by decide +kernel

example : segmentIntersection ((0, 0) : ℚ × ℚ) (2, 2) (0, 2) (2, 0) = some (1/2, 1/2) := by
  decide +kernel

example : segmentIntersection ((0, 0) : ℚ × ℚ) (2, 2) (1, 0) (3, 2) = none := by decide +kernel

/-- overlapping collinear segments `[(0,0),(2,0)]`, `[(1,0),(3,0)]`: common part `s ∈ [½, 1]`,
    `t ∈ [0, ½]` -/
example : parallelLinesParameters ((0, 0) : ℚ × ℚ) (2, 0) (1, 0) (3, 0)
    = .ok (some (1/2, 1, 0, 1/2)) := by decide +kernel

/-- touching collinear segments share exactly one point (both columns name it) -/
example : parallelLinesParameters ((0, 0) : ℚ × ℚ) (1, 0) (1, 0) (2, 0)
    = .ok (some (1, 1, 0, 0)) := by decide +kernel

example : parallelLinesParameters ((0, 0) : ℚ × ℚ) (1, 0) (2, 0) (3, 0) = .ok none := by
  decide +kernel

example : parallelLinesParameters ((0, 0) : ℚ × ℚ) (0, 0) (2, 0) (3, 0) = .error .badInput := by
  decide +kernel

example : lineLineCollide ((0, 0) : ℚ × ℚ) (2, 2) (0, 2) (2, 0) = .ok true := by decide +kernel

example : lineLineCollide ((0, 0) : ℚ × ℚ) (1, 0) (2, 0) (3, 0) = .ok false := by decide +kernel

/-- found by the oracle (`bbox-line-intersect:degenerate-box:missed-hit`): a box degenerated to the
    point `(1,1)` and the segment `(2,0) → (-1,3)` through it (parameter `1/3`).  Neither end point is
    in the box, the bottom and top edges have zero length and the right edge is a point, so all three
    `segment_intersection` calls fail and the routine answers DISJOINT although the segment meets the
    box.  (`bbox_line_intersect` is therefore *not* covered by a safety theorem.) -/
theorem bbox_line_intersect_degenerate_box_miss :
    bboxLineIntersect ([[1, 1], [1, 1]] : List (List ℚ)) (2, 0) (-1, 3) = .ok .disjoint ∧
    ((2 : ℚ) + 1/3 * (-1 - 2), (0 : ℚ) + 1/3 * (3 - 0)) = (1, 1) := by
  decide +kernel

/-- the same with a box degenerated to the vertical segment `x = 1, 0 ≤ y ≤ 2` (control points
    `(1,0), (1,2), (1,1)`) and the collinear line `(1,3) → (1,-1)` containing it: the bottom and top
    edges have zero length, the right edge is parallel to the line – DISJOINT.  A transversal line
    through the same box is found. -/
theorem bbox_line_intersect_segment_box_miss :
    bboxLineIntersect ([[1, 1, 1], [0, 2, 1]] : List (List ℚ)) (1, 3) (1, -1) = .ok .disjoint ∧
    bboxLineIntersect ([[1, 1, 1], [0, 2, 1]] : List (List ℚ)) (0, 1) (2, 1) = .ok .intersection := by
  decide +kernel

/-- found by the oracle (`py-polygon-collide:single-point-polygon:missed-hit`): a net whose control
    points all coincide has a one-point hull; the Python `polygon_collide` (zero edge direction, NaN
    parameters, `is_separating` answers `True`) then declares it separate from a square containing
    the point, the Fortran routine does not -/
theorem convex_hull_collide_single_point_miss :
    Py.convexHullCollide ([(1, 1), (1, 1)] : List (Pt ℚ)) [(0, 0), (2, 0), (2, 2), (0, 2)] = .ok false ∧
    F90.convexHullCollide ([(1, 1), (1, 1)] : List (Pt ℚ)) [(0, 0), (2, 0), (2, 2), (0, 2)] = .ok true := by
  decide +kernel

example : solve2x2 (1 : ℚ) 2 3 4 5 6 = some (-4, 9/2) := by decide +kernel
example : solve2x2 (4 : ℚ) 2 1 3 5 6 = some (3/10, 19/10) := by decide +kernel
example : solve2x2 (1 : ℚ) 2 2 4 5 6 = none := by decide +kernel

end BezierVerif.C16
