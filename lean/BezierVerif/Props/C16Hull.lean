import BezierVerif.Lemmas.PredicatesHull
import Mathlib.Algebra.Order.Field.Rat

/-!
# C16 (hull part) — `simple_convex_hull` and `polygon_collide`

Property theorems only, all about the executable model `Model/Helpers.lean`:

* `hull_old_differs`, `sort_in_place_old_unsorted`, `hull_old_not_convex`, `hull_old_self_crossing`
  (historical, `F90.…Old` = the Fortran routine before the repair): on an input with a repeated
  point the old `sort_in_place` left the array unsorted and the monotone chain returned a
  self-crossing quadrilateral, the Python routine the correct square; `hull_repaired_witness`: the
  repaired routine on the same input;
* `polygon_collide_variants_differ`: single-point polygon (zero edge direction, NaN parameters);
* `hull_subset_py`, `hull_subset_f90`: the hull vertices are input points (every list, every `K`);
* `sat_safe_f90`, `sat_safe_py`, `separated_hulls_disjoint`, `sat_safe`: a `false` answer of
  `polygon_collide` is safe – the convex hulls of the two vertex sets are disjoint
  (`sat_py_zero_edge_unsound`: not so for Python with a zero edge direction);
* `in_sorted_variants_agree`, `hull_chain_variants_agree`, `sort_in_place_eq`,
  `sort_in_place_num_uniques`, `hull_variants_agree`: the repaired `sort_in_place` returns the distinct
  points in lexicographic order and the two hull routines agree on *every* input
  (`sort_in_place_old_eq_of_nodup`, `hull_old_agrees_of_nodup`: the old routine did so only on
  duplicate-free input).
-/

set_option linter.unusedSectionVars false
set_option linter.unusedVariables false

namespace BezierVerif.C16

open BezierVerif Model

/-! ### historical: the Fortran routine before the repair of `sort_in_place` (`…Old`), decided
    counter-examples over `ℚ`; and where the two implementations still differ -/

/-- five points with `(0,0)` repeated: the old Fortran routine returned `(0,0),(1,1),(0,1),(1,0)`, Python the square
    in counter-clockwise order -/
theorem hull_old_differs :
    F90.convexHullOld ([(1,1),(0,0),(0,1),(1,0),(0,0)] : List (Pt ℚ)) = [(0,0),(1,1),(0,1),(1,0)] ∧
    Py.convexHull ([(1,1),(0,0),(0,1),(1,0),(0,0)] : List (Pt ℚ)) = [(0,0),(1,0),(1,1),(0,1)] ∧
    F90.convexHullOld ([(1,1),(0,0),(0,1),(1,0),(0,0)] : List (Pt ℚ))
      ≠ Py.convexHull ([(1,1),(0,0),(0,1),(1,0),(0,0)] : List (Pt ℚ)) := by
  decide +kernel

/-- the cause: the old `sort_in_place` returned an unsorted array (`(1,1)` before `(0,1)`) -/
theorem sort_in_place_old_unsorted :
    F90.sortInPlaceOld ([(1,1),(0,0),(0,1),(1,0),(0,0)] : List (Pt ℚ))
      = ([(0,0),(1,1),(0,1),(1,0),(0,0)], 4) ∧
    Py.sortUnique ([(1,1),(0,0),(0,1),(1,0),(0,0)] : List (Pt ℚ)) = [(0,0),(0,1),(1,0),(1,1)] := by
  decide +kernel

/-- the old Fortran output is not a convex polygon: the orientations of consecutive vertex triples
    (cyclically) are not all positive (they are `-1, -1, 1, 1`) … -/
theorem hull_old_not_convex :
    ¬ ∀ i < 4, 0 < crossProductCompare
      (getP (F90.convexHullOld ([(1,1),(0,0),(0,1),(1,0),(0,0)] : List (Pt ℚ))) i)
      (getP (F90.convexHullOld ([(1,1),(0,0),(0,1),(1,0),(0,0)] : List (Pt ℚ))) ((i + 1) % 4))
      (getP (F90.convexHullOld ([(1,1),(0,0),(0,1),(1,0),(0,0)] : List (Pt ℚ))) ((i + 2) % 4)) := by
  decide +kernel

/-- … whereas they are all positive for the Python output (strictly convex, counter-clockwise) -/
theorem hull_py_convex :
    ∀ i < 4, 0 < crossProductCompare
      (getP (Py.convexHull ([(1,1),(0,0),(0,1),(1,0),(0,0)] : List (Pt ℚ))) i)
      (getP (Py.convexHull ([(1,1),(0,0),(0,1),(1,0),(0,0)] : List (Pt ℚ))) ((i + 1) % 4))
      (getP (Py.convexHull ([(1,1),(0,0),(0,1),(1,0),(0,0)] : List (Pt ℚ))) ((i + 2) % 4)) := by
  decide +kernel

/-- the old Fortran output is self-crossing: its edges `v₀v₁` and `v₂v₃` meet in their midpoints -/
theorem hull_old_self_crossing :
    segmentIntersection
      (getP (F90.convexHullOld ([(1,1),(0,0),(0,1),(1,0),(0,0)] : List (Pt ℚ))) 0)
      (getP (F90.convexHullOld ([(1,1),(0,0),(0,1),(1,0),(0,0)] : List (Pt ℚ))) 1)
      (getP (F90.convexHullOld ([(1,1),(0,0),(0,1),(1,0),(0,0)] : List (Pt ℚ))) 2)
      (getP (F90.convexHullOld ([(1,1),(0,0),(0,1),(1,0),(0,0)] : List (Pt ℚ))) 3)
      = some (1/2, 1/2) := by
  decide +kernel

/-- regression witness for the repaired routine on the same input: the array is sorted, the repeated
    point is moved past `num_uniques = 4`, and the hull is the Python one; an input consisting of one
    point repeated collapses to that point -/
theorem hull_repaired_witness :
    F90.convexHull ([(1,1),(0,0),(0,1),(1,0),(0,0)] : List (Pt ℚ))
      = Py.convexHull ([(1,1),(0,0),(0,1),(1,0),(0,0)] : List (Pt ℚ)) ∧
    F90.sortInPlace ([(1,1),(0,0),(0,1),(1,0),(0,0)] : List (Pt ℚ))
      = ([(0,0),(0,1),(1,0),(1,1),(0,0)], 4) ∧
    F90.convexHull ([(1,2),(1,2),(1,2)] : List (Pt ℚ)) = [(1,2)] := by
  decide +kernel

/-- a single-point polygon inside a square: the only edge direction of the point is the zero
    vector; Python's `is_separating` answers `True` on it (NaN quirk), Fortran's `.FALSE.` -/
theorem polygon_collide_variants_differ :
    Py.polygonCollide ([(1,1)] : List (Pt ℚ)) [(0,0),(2,0),(2,2),(0,2)] = false ∧
    F90.polygonCollide ([(1,1)] : List (Pt ℚ)) [(0,0),(2,0),(2,2),(0,2)] = .ok true := by
  decide +kernel

/-! ### hull ⊆ input -/

section Generic
variable {K : Type} [Add K] [Sub K] [Mul K] [Div K] [Neg K] [OfNat K 0] [OfNat K 1] [NatCast K]
  [LT K] [DecidableLT K] [LE K] [DecidableLE K] [DecidableEq K]

/-- every vertex returned by the Python `simple_convex_hull` is one of the input points
    (any number type, no order properties needed) -/
theorem hull_subset_py (pts : List (Pt K)) : ∀ p ∈ Py.convexHull pts, p ∈ pts :=
  PredicatesHull.mem_py_convexHull pts

/-- every vertex returned by the Fortran `simple_convex_hull` is one of the input points -/
theorem hull_subset_f90 (pts : List (Pt K)) : ∀ p ∈ F90.convexHull pts, p ∈ pts :=
  PredicatesHull.mem_f90_convexHull pts

/-- historical: the same for the routine before the repair -/
theorem hull_subset_f90_old (pts : List (Pt K)) : ∀ p ∈ F90.convexHullOld pts, p ∈ pts :=
  PredicatesHull.mem_f90_convexHullOld pts

/-- the error branch of the Fortran `polygon_collide` is exactly "some polygon is empty" -/
theorem polygon_collide_f90_error (P Q : List (Pt K)) :
    (∃ e, F90.polygonCollide P Q = .error e) ↔ (P = [] ∨ Q = []) := by
  unfold F90.polygonCollide
  split_ifs with h
  · simp only [Bool.or_eq_true, List.isEmpty_iff] at h
    simp [h]
  · simp only [Bool.or_eq_true, List.isEmpty_iff] at h
    simp [h]

/-- the monotone chain itself is the same in both implementations for *every* input array
    (the `lower` chain it hands to `in_sorted` is strictly increasing): the hull routines can only
    differ through `np.unique` vs. `sort_in_place` -/
theorem hull_chain_variants_agree (pts : List (Pt K)) :
    hullChain F90.inSorted pts = hullChain Py.inSorted pts :=
  PredicatesHull.hullChain_variants_agree pts

end Generic

/-! ### the separating axis test is safe -/

section Field
variable {K : Type} [Field K] [LinearOrder K] [IsStrictOrderedRing K]

/-- Fortran: the answer "do not collide" exhibits a non-zero direction whose line strictly separates
    the two vertex sets -/
theorem sat_safe_f90 (P Q : List (Pt K)) (h : F90.polygonCollide P Q = .ok false) :
    ∃ d : Pt K, d ≠ (0, 0) ∧
      ((∀ p ∈ P, ∀ q ∈ Q, cross d q < cross d p) ∨ (∀ p ∈ P, ∀ q ∈ Q, cross d p < cross d q)) := by
  unfold F90.polygonCollide at h
  split_ifs at h with he
  simp only [Bool.or_eq_true, List.isEmpty_iff, not_or] at he
  simp only [Except.ok.injEq, Bool.not_eq_false', List.any_eq_true] at h
  obtain ⟨d, _, hd⟩ := h
  unfold F90.isSeparatingCore at hd
  simp only at hd
  split_ifs at hd with hz
  exact ⟨d, PredicatesHull.ne_zero_of_dot2 d hz,
    PredicatesHull.sep_of_ranges d _ (PredicatesHull.dot2_self_pos d hz) P Q he.1 he.2 hd⟩

/-- Python: the same, provided no edge direction is the zero vector (i.e. no polygon consists of a
    single point and no vertex is repeated consecutively / cyclically).  Without the hypothesis the
    statement is false: `polygon_collide_variants_differ`, `sat_py_zero_edge_unsound`.
    (Empty polygons need no hypothesis: the conclusion is vacuous for them.) -/
theorem sat_safe_py (P Q : List (Pt K)) (hz : ((0, 0) : Pt K) ∉ polygonEdgeDirs P ++ polygonEdgeDirs Q)
    (h : Py.polygonCollide P Q = false) :
    ∃ d : Pt K, d ≠ (0, 0) ∧
      ((∀ p ∈ P, ∀ q ∈ Q, cross d q < cross d p) ∨ (∀ p ∈ P, ∀ q ∈ Q, cross d p < cross d q)) := by
  by_cases hP : P = []
  · subst hP
    exact ⟨(1, 0), by simp, Or.inl (by simp)⟩
  by_cases hQ : Q = []
  · subst hQ
    exact ⟨(1, 0), by simp, Or.inl (by simp)⟩
  unfold Py.polygonCollide at h
  simp only [Bool.not_eq_false', List.any_eq_true] at h
  obtain ⟨d, hdm, hd⟩ := h
  have hd0 : d ≠ (0, 0) := fun h0 => hz (h0 ▸ hdm)
  have hns : dot2 d d ≠ 0 := by
    intro h0
    apply hd0
    have h1 : d.1 * d.1 = 0 ∧ d.2 * d.2 = 0 :=
      (add_eq_zero_iff_of_nonneg (mul_self_nonneg _) (mul_self_nonneg _)).1 h0
    exact Prod.ext (mul_self_eq_zero.1 h1.1) (mul_self_eq_zero.1 h1.2)
  unfold Py.isSeparating at hd
  simp only at hd
  rw [if_neg (show ¬ (d.1 * d.1 + d.2 * d.2 = 0) from hns)] at hd
  exact ⟨d, hd0, PredicatesHull.sep_of_ranges d _ (PredicatesHull.dot2_self_pos d hns) P Q hP hQ hd⟩

/-- a line strictly separating the vertex sets separates the convex hulls: no convex combination of
    `P` equals a convex combination of `Q` -/
theorem separated_hulls_disjoint (d : Pt K) (P Q : List (Pt K))
    (h : (∀ p ∈ P, ∀ q ∈ Q, cross d q < cross d p) ∨ (∀ p ∈ P, ∀ q ∈ Q, cross d p < cross d q)) :
    Disjoint (convexHull K {x : Pt K | x ∈ P}) (convexHull K {x : Pt K | x ∈ Q}) := by
  rcases h with h | h
  · exact PredicatesHull.hulls_disjoint_of_lt d P Q h
  · exact (PredicatesHull.hulls_disjoint_of_lt d Q P (fun q hq p hp => h p hp q hq)).symm

/-- `polygon_collide = false` is safe: the convex hulls of the vertex sets are disjoint
    (Fortran unconditionally; Python when no edge direction vanishes) -/
theorem sat_safe (P Q : List (Pt K)) :
    (F90.polygonCollide P Q = .ok false →
      Disjoint (convexHull K {x : Pt K | x ∈ P}) (convexHull K {x : Pt K | x ∈ Q})) ∧
    (((0, 0) : Pt K) ∉ polygonEdgeDirs P ++ polygonEdgeDirs Q → Py.polygonCollide P Q = false →
      Disjoint (convexHull K {x : Pt K | x ∈ P}) (convexHull K {x : Pt K | x ∈ Q})) := by
  constructor
  · intro h
    obtain ⟨d, _, hd⟩ := sat_safe_f90 P Q h
    exact separated_hulls_disjoint d P Q hd
  · intro hz h
    obtain ⟨d, _, hd⟩ := sat_safe_py P Q hz h
    exact separated_hulls_disjoint d P Q hd

/-- the repaired Fortran `sort_in_place` sorts and deduplicates *every* input: the first
    `num_uniques` columns of the array are the distinct input points in lexicographic order -/
theorem sort_in_place_eq (pts : List (Pt K)) :
    (F90.sortInPlace pts).1.take (F90.sortInPlace pts).2 = Py.sortUnique pts :=
  (PredicatesHull.sortInPlace_spec pts).1

/-- … and `num_uniques` is the number of distinct input points -/
theorem sort_in_place_num_uniques (pts : List (Pt K)) :
    (F90.sortInPlace pts).2 = (Py.sortUnique pts).length :=
  (PredicatesHull.sortInPlace_spec pts).2

/-- the two `simple_convex_hull` implementations return the same polygon on every input list -/
theorem hull_variants_agree (pts : List (Pt K)) : F90.convexHull pts = Py.convexHull pts :=
  PredicatesHull.convexHull_variants_agree pts

/-- historical: on duplicate-free input the old in-place selection sort returned the sorted array and
    `num_uniques = num_points` … -/
theorem sort_in_place_old_eq_of_nodup (pts : List (Pt K)) (h : pts.Nodup) :
    F90.sortInPlaceOld pts = (Py.sortUnique pts, pts.length) :=
  PredicatesHull.sortInPlaceOld_eq_of_nodup pts h

/-- … so the old routine was wrong only on inputs with repeated points (`hull_old_differs`) -/
theorem hull_old_agrees_of_nodup (pts : List (Pt K)) (h : pts.Nodup) :
    F90.convexHullOld pts = Py.convexHull pts :=
  PredicatesHull.convexHullOld_agree_of_nodup pts h

end Field

/-- the hypothesis of `sat_safe_py` cannot be dropped: for the single-point polygon `(1,1)` inside
    the square Python answers "no collision" although the hulls meet in `(1,1)` -/
theorem sat_py_zero_edge_unsound :
    Py.polygonCollide ([(1,1)] : List (Pt ℚ)) [(0,0),(2,0),(2,2),(0,2)] = false ∧
    ¬ Disjoint (convexHull ℚ {x : Pt ℚ | x ∈ ([(1,1)] : List (Pt ℚ))})
      (convexHull ℚ {x : Pt ℚ | x ∈ ([(0,0),(2,0),(2,2),(0,2)] : List (Pt ℚ))}) := by
  refine ⟨by decide +kernel, ?_⟩
  rw [Set.not_disjoint_iff]
  refine ⟨(1, 1), subset_convexHull _ _ (by simp), ?_⟩
  apply segment_subset_convexHull (x := ((0, 0) : Pt ℚ)) (y := ((2, 2) : Pt ℚ)) (by simp) (by simp)
  refine ⟨1/2, 1/2, by norm_num, by norm_num, by norm_num, ?_⟩
  ext <;> norm_num

/-! ### where the two hull routines agree -/

/-- both `in_sorted` routines (bisect / hand-written binary search) decide membership in a strictly
    increasing list, hence agree -/
theorem in_sorted_variants_agree (l : List ℕ) (h : l.Pairwise (· < ·)) (v : ℕ) :
    (F90.inSorted l v = true ↔ v ∈ l) ∧ (Py.inSorted l v = true ↔ v ∈ l) ∧
    F90.inSorted l v = Py.inSorted l v :=
  ⟨PredicatesHull.f90_inSorted_iff l (PredicatesHull.monoL_of_pairwise l h) v,
   PredicatesHull.py_inSorted_iff l (PredicatesHull.monoL_of_pairwise l h) v,
   PredicatesHull.inSorted_variants_agree l h v⟩

/-! ### non-vacuity -/

example : ∀ p ∈ Py.convexHull ([(1,1),(0,0),(0,1),(1,0),(0,0)] : List (Pt ℚ)),
    p ∈ ([(1,1),(0,0),(0,1),(1,0),(0,0)] : List (Pt ℚ)) := hull_subset_py _

example : ∀ p ∈ F90.convexHull ([(1,1),(0,0),(0,1),(1,0),(0,0)] : List (Pt ℚ)),
    p ∈ ([(1,1),(0,0),(0,1),(1,0),(0,0)] : List (Pt ℚ)) := hull_subset_f90 _

example : ∃ e, F90.polygonCollide ([] : List (Pt ℚ)) [(0,0)] = .error e :=
  (polygon_collide_f90_error _ _).2 (Or.inl rfl)

/-- two unit squares two apart: both routines answer "no collision" and the hypotheses hold -/
example : F90.polygonCollide ([(0,0),(1,0),(1,1),(0,1)] : List (Pt ℚ)) [(3,0),(4,0),(4,1),(3,1)]
    = .ok false := by decide +kernel

example : Py.polygonCollide ([(0,0),(1,0),(1,1),(0,1)] : List (Pt ℚ)) [(3,0),(4,0),(4,1),(3,1)]
    = false ∧
    ((0, 0) : Pt ℚ) ∉ polygonEdgeDirs ([(0,0),(1,0),(1,1),(0,1)] : List (Pt ℚ))
      ++ polygonEdgeDirs ([(3,0),(4,0),(4,1),(3,1)] : List (Pt ℚ)) := by decide +kernel

example : Disjoint (convexHull ℚ {x : Pt ℚ | x ∈ ([(0,0),(1,0),(1,1),(0,1)] : List (Pt ℚ))})
    (convexHull ℚ {x : Pt ℚ | x ∈ ([(3,0),(4,0),(4,1),(3,1)] : List (Pt ℚ))}) :=
  (sat_safe _ _).1 (by decide +kernel)

example : Disjoint (convexHull ℚ {x : Pt ℚ | x ∈ ([(0,0),(1,0),(1,1),(0,1)] : List (Pt ℚ))})
    (convexHull ℚ {x : Pt ℚ | x ∈ ([(3,0),(4,0),(4,1),(3,1)] : List (Pt ℚ))}) :=
  (sat_safe _ _).2 (by decide +kernel) (by decide +kernel)

example : ∃ d : Pt ℚ, d ≠ (0, 0) ∧
    ((∀ p ∈ ([(0,0),(1,0),(1,1),(0,1)] : List (Pt ℚ)), ∀ q ∈ ([(3,0),(4,0),(4,1),(3,1)] : List (Pt ℚ)),
        cross d q < cross d p) ∨
     (∀ p ∈ ([(0,0),(1,0),(1,1),(0,1)] : List (Pt ℚ)), ∀ q ∈ ([(3,0),(4,0),(4,1),(3,1)] : List (Pt ℚ)),
        cross d p < cross d q)) :=
  sat_safe_f90 _ _ (by decide +kernel)

example : F90.inSorted [0, 2, 3, 7] 3 = Py.inSorted [0, 2, 3, 7] 3 :=
  (in_sorted_variants_agree _ (by decide) 3).2.2

example : hullChain F90.inSorted ([(0,0),(0,1),(1,0),(1,1)] : List (Pt ℚ))
    = hullChain Py.inSorted ([(0,0),(0,1),(1,0),(1,1)] : List (Pt ℚ)) := hull_chain_variants_agree _

example : (F90.sortInPlace ([(1,1),(0,0),(0,1),(1,0),(0,0)] : List (Pt ℚ))).1.take
      (F90.sortInPlace ([(1,1),(0,0),(0,1),(1,0),(0,0)] : List (Pt ℚ))).2
    = Py.sortUnique ([(1,1),(0,0),(0,1),(1,0),(0,0)] : List (Pt ℚ)) := sort_in_place_eq _

/-- … with a non-trivial value -/
example : Py.sortUnique ([(1,1),(0,0),(0,1),(1,0),(0,0)] : List (Pt ℚ))
    = [(0,0),(0,1),(1,0),(1,1)] := by decide +kernel

example : (F90.sortInPlace ([(1,2),(1,2),(1,2)] : List (Pt ℚ))).2 = 1 := by
  rw [sort_in_place_num_uniques]; decide +kernel

example : F90.convexHull ([(1,1),(0,0),(0,1),(1,0),(0,0),(1/2,1/2),(1,1)] : List (Pt ℚ))
    = Py.convexHull ([(1,1),(0,0),(0,1),(1,0),(0,0),(1/2,1/2),(1,1)] : List (Pt ℚ)) :=
  hull_variants_agree _

example : ∀ p ∈ F90.convexHullOld ([(1,1),(0,0),(0,1),(1,0),(0,0)] : List (Pt ℚ)),
    p ∈ ([(1,1),(0,0),(0,1),(1,0),(0,0)] : List (Pt ℚ)) := hull_subset_f90_old _

example : F90.sortInPlaceOld ([(1,1),(0,0),(0,1),(1,0)] : List (Pt ℚ))
    = (Py.sortUnique ([(1,1),(0,0),(0,1),(1,0)] : List (Pt ℚ)), 4) :=
  sort_in_place_old_eq_of_nodup _ (by decide +kernel)

example : F90.convexHullOld ([(1,1),(0,0),(0,1),(1,0),(1/2,1/2)] : List (Pt ℚ))
    = Py.convexHull ([(1,1),(0,0),(0,1),(1,0),(1/2,1/2)] : List (Pt ℚ)) :=
  hull_old_agrees_of_nodup _ (by decide +kernel)

/-- … and the common value is the square -/
example : Py.convexHull ([(1,1),(0,0),(0,1),(1,0),(0,0),(1/2,1/2),(1,1)] : List (Pt ℚ))
    = [(0,0),(1,0),(1,1),(0,1)] := by decide +kernel

end BezierVerif.C16
