import BezierVerif.Lemmas.HullCorrect
import BezierVerif.Lemmas.HullConvex
import BezierVerif.Props.C16
import BezierVerif.Props.C16Hull
import BezierVerif.Lemmas.BoxLine
import BezierVerif.Lemmas.ClipRange
import BezierVerif.Lemmas.NormReal
import Mathlib.Algebra.Order.Field.Rat

/-!
# C16 (continued) — the convex hull is the convex hull, `bbox_line_intersect` is exact, `clip_range`
# contains every admissible parameter, squared forms = norm forms

Property theorems only, all about the executable model `Model/Helpers.lean` as it is.

**`simple_convex_hull`** (`Py.convexHull` = `F90.convexHull` on every input, `hull_variants_agree`).
`crossProductCompare a b c` is twice the signed area of `a b c`; `0 < …` is a strict left turn, and
`0 ≤ crossProductCompare a b x` says that `x` is on or to the left of the directed edge `a → b`.
For a counter-clockwise strictly convex polygon the closed polygon is the intersection of the left
half planes of its edges.

* `sort_unique_spec`: the sort-and-deduplicate step returns the distinct input points in
  lexicographic order;
* `hull_few_points`: fewer than three distinct points – the result is that list (0, 1 or 2 points);
* `hull_collinear`: at least three distinct points, all on one line – the result is the pair
  (lexicographically first, lexicographically last) and every input point lies on that closed segment;
* `hull_convex_polygon`: otherwise – at least three vertices, no repeated vertex, every three
  cyclically consecutive vertices make a strict left turn (counter-clockwise, strictly convex), the
  first vertex is the lexicographically smallest input point, and every input point is on or to the
  left of every edge (lies in the closed polygon);
* `hull_contains`, `hull_nodup`: containment and distinctness hold on every input whatsoever;
* `…_f90`: the same for the Fortran routine;
* `hull_is_convex_hull`: the returned vertices span the (Mathlib) convex hull of the input points, on
  every input;
* `convex_hull_collide_safe_f90`, `convex_hull_collide_safe_py`: the answer "no collision" of
  `convex_hull_collide` is safe – the convex hulls of the two control nets are disjoint (Python: if
  each net has at least two distinct points, cf. `convex_hull_collide_single_point_miss`).

**`bbox_line_intersect`**: `bbox_line_intersect_exact` – on a box with interior the answer is
`intersection` iff the closed segment meets the closed box (although the left edge is never tested);
`bbox_line_intersect_disjoint_iff`, `bbox_line_intersect_never_tangent`,
`bbox_line_intersect_error_iff`, `bbox_line_intersect_sound` (every box), and
`bbox_line_intersect_general` (what is decided on a possibly degenerate box; the decided witnesses
`bbox_line_intersect_degenerate_box_miss`, `bbox_line_intersect_segment_box_miss` of Props/C16 are
its instances).

**`clip_range`**: `clip_range_contains` (every convex combination of the points `(j/n, d_j)` that lies
in the fat line has its abscissa in `[s_min, s_max]`), `clip_range_contains_curve` (every parameter `t`
at which the second curve is inside the fat line of the first is in `[s_min, s_max]`),
`clip_range_intersection` (every intersection parameter is kept), `clip_range_empty`,
`clip_range_error_iff`, `clip_range_error_cases`.

**squares vs. norms** (over `ℝ`, `Real.sqrt`): `vector_close_sq_iff_norm`,
`vector_close_negative_eps`, `linearization_error_sq_eq`, `linearization_error_sq_ok_iff`,
`linearization_error_sq_error_iff`.
-/

set_option linter.unusedSectionVars false
set_option linter.unusedVariables false

namespace BezierVerif.C16

open BezierVerif Model

/-! ### `simple_convex_hull` returns the convex hull -/

section Hull
variable {K : Type} [Field K] [LinearOrder K] [IsStrictOrderedRing K]

/-- the sort-and-deduplicate step (`np.unique` + `sorted`; Fortran `sort_in_place`, see
    `sort_in_place_eq`): strictly increasing in the lexicographic order, same set of points -/
theorem sort_unique_spec (pts : List (Pt K)) :
    (Py.sortUnique pts).Pairwise (fun p r => toLex p < toLex r) ∧
    ∀ x, x ∈ Py.sortUnique pts ↔ x ∈ pts :=
  ⟨PredicatesHull.sortUnique_sorted pts, PredicatesHull.mem_sortUnique_iff pts⟩

/-- fewer than three distinct points: both routines return the sorted distinct points unchanged
    (no point, one point, or the two end points of a segment); such inputs are collinear -/
theorem hull_few_points (pts : List (Pt K)) (h : (Py.sortUnique pts).length < 3) :
    Py.convexHull pts = Py.sortUnique pts ∧ F90.convexHull pts = Py.sortUnique pts ∧
    ∀ x ∈ pts, ∀ y ∈ pts, ∀ z ∈ pts, crossProductCompare x y z = 0 :=
  ⟨HullCorrect.py_hull_small pts h,
   (PredicatesHull.convexHull_variants_agree pts).trans (HullCorrect.py_hull_small pts h),
   HullCorrect.allCollinear_of_few pts h⟩

/-- at least three distinct points, all input points on one line: the result consists of the
    lexicographically first and last point, and every input point lies on that closed segment
    (it is collinear with the two by hypothesis and lexicographically between them) -/
theorem hull_collinear (pts : List (Pt K)) (h3 : 3 ≤ (Py.sortUnique pts).length)
    (hc : ∀ x ∈ pts, ∀ y ∈ pts, ∀ z ∈ pts, crossProductCompare x y z = 0) :
    Py.convexHull pts = [getP (Py.sortUnique pts) 0,
      getP (Py.sortUnique pts) ((Py.sortUnique pts).length - 1)] ∧
    ∀ x ∈ pts, toLex (getP (Py.sortUnique pts) 0) ≤ toLex x ∧
      toLex x ≤ toLex (getP (Py.sortUnique pts) ((Py.sortUnique pts).length - 1)) :=
  ⟨HullCorrect.py_hull_collinear pts h3 hc, HullCorrect.sortUnique_first_last pts (by omega)⟩

/-- the generic case (not all input points on one line): the result `H` is a counter-clockwise
    strictly convex polygon containing every input point -/
theorem hull_convex_polygon (pts : List (Pt K))
    (hnc : ¬ ∀ x ∈ pts, ∀ y ∈ pts, ∀ z ∈ pts, crossProductCompare x y z = 0) :
    3 ≤ (Py.convexHull pts).length ∧ (Py.convexHull pts).Nodup ∧
    (∀ p ∈ Py.convexHull pts, p ∈ pts) ∧
    getP (Py.convexHull pts) 0 = getP (Py.sortUnique pts) 0 ∧
    (∀ i, i < (Py.convexHull pts).length →
      0 < crossProductCompare (getP (Py.convexHull pts) i)
        (getP (Py.convexHull pts) ((i + 1) % (Py.convexHull pts).length))
        (getP (Py.convexHull pts) ((i + 2) % (Py.convexHull pts).length))) ∧
    (∀ x ∈ pts, ∀ i, i < (Py.convexHull pts).length →
      0 ≤ crossProductCompare (getP (Py.convexHull pts) i)
        (getP (Py.convexHull pts) ((i + 1) % (Py.convexHull pts).length)) x) := by
  obtain ⟨h3, hl, hlen, hturn⟩ := HullCorrect.py_hull_convex pts hnc
  refine ⟨hlen, HullCorrect.py_hull_nodup pts, PredicatesHull.mem_py_convexHull pts, ?_, hturn,
    HullCorrect.py_hull_contains pts⟩
  rw [hl]
  exact (HullCorrect.hullChain_head _ (HullCorrect.sortUnique_rel pts) (by omega)).1

/-- containment holds on every input: each input point is on or to the left of every (cyclic) edge
    of the result (for a result with one or two vertices this says that it is on their line) -/
theorem hull_contains (pts : List (Pt K)) : ∀ x ∈ pts, ∀ i, i < (Py.convexHull pts).length →
    0 ≤ crossProductCompare (getP (Py.convexHull pts) i)
      (getP (Py.convexHull pts) ((i + 1) % (Py.convexHull pts).length)) x :=
  HullCorrect.py_hull_contains pts

/-- no vertex is returned twice, on every input -/
theorem hull_nodup (pts : List (Pt K)) : (Py.convexHull pts).Nodup :=
  HullCorrect.py_hull_nodup pts

/-- the Fortran routine: the same statements (`hull_variants_agree`) -/
theorem hull_collinear_f90 (pts : List (Pt K)) (h3 : 3 ≤ (Py.sortUnique pts).length)
    (hc : ∀ x ∈ pts, ∀ y ∈ pts, ∀ z ∈ pts, crossProductCompare x y z = 0) :
    F90.convexHull pts = [getP (Py.sortUnique pts) 0,
      getP (Py.sortUnique pts) ((Py.sortUnique pts).length - 1)] := by
  rw [PredicatesHull.convexHull_variants_agree]
  exact (hull_collinear pts h3 hc).1

theorem hull_convex_polygon_f90 (pts : List (Pt K))
    (hnc : ¬ ∀ x ∈ pts, ∀ y ∈ pts, ∀ z ∈ pts, crossProductCompare x y z = 0) :
    3 ≤ (F90.convexHull pts).length ∧ (F90.convexHull pts).Nodup ∧
    (∀ p ∈ F90.convexHull pts, p ∈ pts) ∧
    getP (F90.convexHull pts) 0 = getP (Py.sortUnique pts) 0 ∧
    (∀ i, i < (F90.convexHull pts).length →
      0 < crossProductCompare (getP (F90.convexHull pts) i)
        (getP (F90.convexHull pts) ((i + 1) % (F90.convexHull pts).length))
        (getP (F90.convexHull pts) ((i + 2) % (F90.convexHull pts).length))) ∧
    (∀ x ∈ pts, ∀ i, i < (F90.convexHull pts).length →
      0 ≤ crossProductCompare (getP (F90.convexHull pts) i)
        (getP (F90.convexHull pts) ((i + 1) % (F90.convexHull pts).length)) x) := by
  rw [PredicatesHull.convexHull_variants_agree]
  exact hull_convex_polygon pts hnc

theorem hull_contains_f90 (pts : List (Pt K)) : ∀ x ∈ pts, ∀ i, i < (F90.convexHull pts).length →
    0 ≤ crossProductCompare (getP (F90.convexHull pts) i)
      (getP (F90.convexHull pts) ((i + 1) % (F90.convexHull pts).length)) x := by
  rw [PredicatesHull.convexHull_variants_agree]
  exact hull_contains pts

theorem hull_nodup_f90 (pts : List (Pt K)) : (F90.convexHull pts).Nodup := by
  rw [PredicatesHull.convexHull_variants_agree]
  exact hull_nodup pts

/-- the returned vertices span the convex hull of the input points (every input, both routines) -/
theorem hull_is_convex_hull (pts : List (Pt K)) :
    convexHull K {v : Pt K | v ∈ Py.convexHull pts} = convexHull K {v : Pt K | v ∈ pts} ∧
    convexHull K {v : Pt K | v ∈ F90.convexHull pts} = convexHull K {v : Pt K | v ∈ pts} :=
  ⟨HullConvex.py_hull_convexHull_eq pts, HullConvex.f90_hull_convexHull_eq pts⟩

/-- `convex_hull_collide` (Fortran) never rejects a true hit: if it answers "no collision" the convex
    hulls of the two control nets are disjoint (two-point hulls go through `line_line_collide`, all
    others through the separating-axis test) -/
theorem convex_hull_collide_safe_f90 (nodes1 nodes2 : List (Pt K))
    (h : F90.convexHullCollide nodes1 nodes2 = .ok false) :
    Disjoint (convexHull K {x : Pt K | x ∈ nodes1}) (convexHull K {x : Pt K | x ∈ nodes2}) := by
  unfold F90.convexHullCollide at h
  have nd1 := hull_nodup_f90 nodes1
  rw [← (hull_is_convex_hull nodes1).2, ← (hull_is_convex_hull nodes2).2]
  generalize F90.convexHull nodes1 = P1 at *
  generalize F90.convexHull nodes2 = P2 at *
  simp only at h
  split at h
  · rename_i a0 a1 b0 b1
    have hne : a1 ≠ a0 := by
      intro he
      rw [he] at nd1
      simp at nd1
    apply HullConvex.segments_disjoint
    intro hex
    rw [(line_line_exact a0 a1 b0 b1 hne).2 hex] at h
    cases h
  · exact (sat_safe _ _).1 h

/-- `convex_hull_collide` (Python): the same when each control net has at least two distinct points
    (a one-point hull has a zero edge direction, on which the pure-Python `is_separating` answers
    `True`: `convex_hull_collide_single_point_miss`) -/
theorem convex_hull_collide_safe_py (nodes1 nodes2 : List (Pt K))
    (h1 : 2 ≤ (Py.sortUnique nodes1).length) (h2 : 2 ≤ (Py.sortUnique nodes2).length)
    (h : Py.convexHullCollide nodes1 nodes2 = .ok false) :
    Disjoint (convexHull K {x : Pt K | x ∈ nodes1}) (convexHull K {x : Pt K | x ∈ nodes2}) := by
  unfold Py.convexHullCollide at h
  have nd1 := hull_nodup nodes1
  have nd2 := hull_nodup nodes2
  have l1 := HullConvex.py_hull_length nodes1 h1
  have l2 := HullConvex.py_hull_length nodes2 h2
  rw [← (hull_is_convex_hull nodes1).1, ← (hull_is_convex_hull nodes2).1]
  generalize Py.convexHull nodes1 = P1 at *
  generalize Py.convexHull nodes2 = P2 at *
  simp only at h
  split at h
  · rename_i a0 a1 b0 b1
    have hne : a1 ≠ a0 := by
      intro he
      rw [he] at nd1
      simp at nd1
    apply HullConvex.segments_disjoint
    intro hex
    rw [(line_line_exact a0 a1 b0 b1 hne).2 hex] at h
    cases h
  · simp only [Except.ok.injEq] at h
    refine (sat_safe _ _).2 ?_ h
    intro hmem
    rcases List.mem_append.1 hmem with hm | hm
    · exact HullConvex.edgeDirs_ne_zero P1 nd1 l1 hm
    · exact HullConvex.edgeDirs_ne_zero P2 nd2 l2 hm

end Hull

/-! ### `bbox_line_intersect` -/

section BoxLine
variable {K : Type} [Field K] [LinearOrder K] [IsStrictOrderedRing K]

open BezierVerif.Predicates

/-- on a box with interior the answer is `intersection` iff the closed segment `S E` meets the closed
    box – although the routine never tests the left edge -/
theorem bbox_line_intersect_exact (nodes : List (List K)) (S E : Pt K) (l r b t : K)
    (hb : bbox nodes = .ok (l, r, b, t)) (hlr : l < r) (hbt : b < t) :
    bboxLineIntersect nodes S E = .ok .intersection ↔
      ∃ u : K, 0 ≤ u ∧ u ≤ 1 ∧ InBox (l, r, b, t) (S.1 + u * (E.1 - S.1), S.2 + u * (E.2 - S.2)) :=
  BoxLine.bboxLineIntersect_exact nodes S E l r b t hb hlr hbt

/-- … and `disjoint` iff it does not -/
theorem bbox_line_intersect_disjoint_iff (nodes : List (List K)) (S E : Pt K) (l r b t : K)
    (hb : bbox nodes = .ok (l, r, b, t)) (hlr : l < r) (hbt : b < t) :
    bboxLineIntersect nodes S E = .ok .disjoint ↔
      ¬ ∃ u : K, 0 ≤ u ∧ u ≤ 1 ∧ InBox (l, r, b, t) (S.1 + u * (E.1 - S.1), S.2 + u * (E.2 - S.2)) :=
  BoxLine.bboxLineIntersect_disjoint_iff nodes S E l r b t hb hlr hbt

/-- the routine never answers `tangent` -/
theorem bbox_line_intersect_never_tangent (nodes : List (List K)) (S E : Pt K) :
    bboxLineIntersect nodes S E ≠ .ok .tangent :=
  BoxLine.bboxLineIntersect_ne_tangent nodes S E

/-- it fails exactly when `bbox` fails (not a `2 × N` array with `N ≥ 1`) -/
theorem bbox_line_intersect_error_iff (nodes : List (List K)) (S E : Pt K) (e : Err) :
    bboxLineIntersect nodes S E = .error e ↔ bbox nodes = .error e :=
  BoxLine.bboxLineIntersect_error_iff nodes S E e

/-- `intersection` is never a false alarm, on every box (degenerate or not) -/
theorem bbox_line_intersect_sound (nodes : List (List K)) (S E : Pt K) (l r b t : K)
    (hb : bbox nodes = .ok (l, r, b, t)) (h : bboxLineIntersect nodes S E = .ok .intersection) :
    ∃ u : K, 0 ≤ u ∧ u ≤ 1 ∧ InBox (l, r, b, t) (S.1 + u * (E.1 - S.1), S.2 + u * (E.2 - S.2)) :=
  BoxLine.bboxLineIntersect_sound nodes S E l r b t hb h

/-- what the routine decides on an arbitrary box: an end point in the box, or a transversal crossing
    of the bottom, right or top edge *of positive length* (`BoxLine.OnHorizontal`, `OnVertical`: the
    segment is not parallel to the edge and crosses its line within the edge).  This is why boxes
    without interior lose hits (`bbox_line_intersect_degenerate_box_miss`,
    `bbox_line_intersect_segment_box_miss`). -/
theorem bbox_line_intersect_general (nodes : List (List K)) (S E : Pt K) (l r b t : K)
    (hb : bbox nodes = .ok (l, r, b, t)) :
    bboxLineIntersect nodes S E = .ok .intersection ↔
      InBox (l, r, b, t) S ∨ InBox (l, r, b, t) E ∨ (l < r ∧ BoxLine.OnHorizontal S E l r b) ∨
        (b < t ∧ BoxLine.OnVertical S E r b t) ∨ (l < r ∧ BoxLine.OnHorizontal S E l r t) :=
  BoxLine.bboxLineIntersect_general nodes S E l r b t hb

end BoxLine

/-! ### `clip_range` -/

section Clip
variable {K : Type} [Field K] [LinearOrder K] [IsStrictOrderedRing K]

open BezierVerif.ClipRange Finset

/-- containment: with `d_j = ctrlDist a b c nodes2 j` the control values of the distance polynomial
    and `n` the degree of the second curve, every convex combination (weights `w`) of the points
    `(j, d_j)` whose height is inside the fat line `[dMin, dMax]` has its abscissa in
    `[s_min · n, s_max · n]` -/
theorem clip_range_contains (nodes1 nodes2 : List (Pt K)) (a b c dMin dMax sMin sMax : K)
    (hfat : computeFatLine nodes1 = .ok (a, b, c, dMin, dMax))
    (hclip : clipRange nodes1 nodes2 = .ok (sMin, sMax))
    (w : ℕ → K) (hw : ∀ j, j < nodes2.length → 0 ≤ w j) (hsum : ∑ j ∈ range nodes2.length, w j = 1)
    (hlo : dMin ≤ ∑ j ∈ range nodes2.length, w j * ctrlDist a b c nodes2 j)
    (hhi : ∑ j ∈ range nodes2.length, w j * ctrlDist a b c nodes2 j ≤ dMax) :
    sMin * ((nodes2.length - 1 : ℕ) : K) ≤ ∑ j ∈ range nodes2.length, w j * (j : K) ∧
    ∑ j ∈ range nodes2.length, w j * (j : K) ≤ sMax * ((nodes2.length - 1 : ℕ) : K) :=
  clipRange_contains nodes1 nodes2 a b c dMin dMax sMin sMax hfat hclip w hw hsum hlo hhi

/-- every parameter `t ∈ [0, 1]` at which the second curve `B₂(t)` (de Casteljau evaluation of its
    coordinate rows) is inside the fat line of the first curve lies in the returned range -/
theorem clip_range_contains_curve (nodes1 nodes2 : List (Pt K)) (a b c dMin dMax sMin sMax : K)
    (hfat : computeFatLine nodes1 = .ok (a, b, c, dMin, dMax))
    (hclip : clipRange nodes1 nodes2 = .ok (sMin, sMax))
    (t : K) (ht0 : 0 ≤ t) (ht1 : t ≤ 1)
    (hlo : dMin ≤ a * evalDC (1 - t) t (nodes2.length - 1) (nodes2.map (·.1))
      + b * evalDC (1 - t) t (nodes2.length - 1) (nodes2.map (·.2)) + c)
    (hhi : a * evalDC (1 - t) t (nodes2.length - 1) (nodes2.map (·.1))
      + b * evalDC (1 - t) t (nodes2.length - 1) (nodes2.map (·.2)) + c ≤ dMax) :
    sMin ≤ t ∧ t ≤ sMax :=
  clipRange_contains_curve nodes1 nodes2 a b c dMin dMax sMin sMax hfat hclip t ht0 ht1 hlo hhi

/-- the first curve lies inside its own fat line … -/
theorem fat_line_contains_curve (nodes : List (Pt K)) (a b c dMin dMax : K)
    (h : computeFatLine nodes = .ok (a, b, c, dMin, dMax)) (s : K) (hs0 : 0 ≤ s) (hs1 : s ≤ 1) :
    dMin ≤ a * evalDC (1 - s) s (nodes.length - 1) (nodes.map (·.1))
      + b * evalDC (1 - s) s (nodes.length - 1) (nodes.map (·.2)) + c ∧
    a * evalDC (1 - s) s (nodes.length - 1) (nodes.map (·.1))
      + b * evalDC (1 - s) s (nodes.length - 1) (nodes.map (·.2)) + c ≤ dMax :=
  fatLine_contains_curve nodes a b c dMin dMax h s hs0 hs1

/-- … hence clipping never rejects a true hit: the parameter `t` of every intersection
    `B₁(s) = B₂(t)` lies in the returned range -/
theorem clip_range_intersection (nodes1 nodes2 : List (Pt K)) (sMin sMax : K)
    (hclip : clipRange nodes1 nodes2 = .ok (sMin, sMax))
    (s t : K) (hs0 : 0 ≤ s) (hs1 : s ≤ 1) (ht0 : 0 ≤ t) (ht1 : t ≤ 1)
    (hx : evalDC (1 - s) s (nodes1.length - 1) (nodes1.map (·.1))
      = evalDC (1 - t) t (nodes2.length - 1) (nodes2.map (·.1)))
    (hy : evalDC (1 - s) s (nodes1.length - 1) (nodes1.map (·.2))
      = evalDC (1 - t) t (nodes2.length - 1) (nodes2.map (·.2))) :
    sMin ≤ t ∧ t ≤ sMax :=
  clipRange_intersection nodes1 nodes2 sMin sMax hclip s t hs0 hs1 ht0 ht1 hx hy

/-- an empty range (`s_max < s_min`, e.g. the defaults `(1, 0)`) means that no convex combination of
    the control points of the distance polynomial is inside the fat line -/
theorem clip_range_empty (nodes1 nodes2 : List (Pt K)) (a b c dMin dMax sMin sMax : K)
    (hfat : computeFatLine nodes1 = .ok (a, b, c, dMin, dMax))
    (hclip : clipRange nodes1 nodes2 = .ok (sMin, sMax)) (hempty : sMax < sMin)
    (w : ℕ → K) (hw : ∀ j, j < nodes2.length → 0 ≤ w j) (hsum : ∑ j ∈ range nodes2.length, w j = 1) :
    ¬ (dMin ≤ ∑ j ∈ range nodes2.length, w j * ctrlDist a b c nodes2 j ∧
       ∑ j ∈ range nodes2.length, w j * ctrlDist a b c nodes2 j ≤ dMax) :=
  clipRange_no_intersection nodes1 nodes2 a b c dMin dMax sMin sMax hfat hclip hempty w hw hsum

/-- the error branches once the fat line exists: no node in the second curve (`badInput`), or two
    control values of the distance polynomial coincide, i.e. a chord of its control polygon is
    parallel to the fat line (`NotImplementedError`) -/
theorem clip_range_error_iff (nodes1 nodes2 : List (Pt K)) (a b c dMin dMax : K) (e : Err)
    (hfat : computeFatLine nodes1 = .ok (a, b, c, dMin, dMax)) :
    clipRange nodes1 nodes2 = .error e ↔
      (nodes2 = [] ∧ e = .badInput) ∨
      (e = .notImplemented ∧ ∃ i j, i < j ∧ j < nodes2.length ∧
        ctrlDist a b c nodes2 j = ctrlDist a b c nodes2 i) :=
  clipRange_error_iff nodes1 nodes2 a b c dMin dMax e hfat

/-- all causes of an error of `clip_range` -/
theorem clip_range_error_cases (nodes1 nodes2 : List (Pt K)) (e : Err)
    (h : clipRange nodes1 nodes2 = .error e) :
    (nodes1 = [] ∧ e = .badInput) ∨ (nodes1 ≠ [] ∧ nodes2 = [] ∧ e = .badInput) ∨
    (nodes1 ≠ [] ∧ e = .notImplemented ∧ ∃ a b c dMin dMax,
      computeFatLine nodes1 = .ok (a, b, c, dMin, dMax) ∧
      ∃ i j, i < j ∧ j < nodes2.length ∧ ctrlDist a b c nodes2 j = ctrlDist a b c nodes2 i) :=
  clipRange_error_cases nodes1 nodes2 e h

end Clip

/-! ### squared formulation of the model = norm formulation of the code (over `ℝ`) -/

section Norm

open BezierVerif.NormReal

/-- `vector_close`: for `eps ≥ 0` the model (which takes `eps²`) answers as the code does with the
    Euclidean norm `norm2 v = √(Σ vᵢ²)` – `NormReal.vectorCloseNorm` is the literal transcription
    `size1 == 0 → size2 <= eps`, `size2 == 0 → size1 <= eps`,
    else `‖vec1 - vec2‖ <= eps * min(size1, size2)` -/
theorem vector_close_sq_iff_norm (vec1 vec2 : List ℝ) (eps : ℝ) (heps : 0 ≤ eps) :
    vectorCloseSq vec1 vec2 (eps ^ 2) = vectorCloseNorm vec1 vec2 eps :=
  vectorCloseSq_eq_vectorCloseNorm vec1 vec2 eps heps

/-- the hypothesis `eps ≥ 0` cannot be dropped -/
theorem vector_close_negative_eps :
    vectorCloseSq [1] [1] ((-1 : ℝ) ^ 2) = true ∧ vectorCloseNorm [1] [1] (-1 : ℝ) = false :=
  vectorClose_neg_eps_counterexample

/-- `linearization_error`: the model returns the square of the code's value
    `0.125 · degree · (degree - 1) · ‖worst_case‖₂`, error branches included -/
theorem linearization_error_sq_eq (nodes : List (List ℝ)) :
    linearizationErrorSq nodes = (linearizationErrorNorm nodes).map (· ^ 2) :=
  linearizationErrorSq_eq_map nodes

theorem linearization_error_sq_ok_iff (nodes : List (List ℝ)) (e2 : ℝ) :
    linearizationErrorSq nodes = .ok e2 ↔
      ∃ e, linearizationErrorNorm nodes = .ok e ∧ 0 ≤ e ∧ e2 = e ^ 2 :=
  linearizationErrorSq_ok_iff nodes e2

theorem linearization_error_sq_error_iff (nodes : List (List ℝ)) (x : Err) :
    linearizationErrorSq nodes = .error x ↔ linearizationErrorNorm nodes = .error x :=
  linearizationErrorSq_error_iff nodes x

end Norm

/-! ### non-vacuity -/

/-- nine points (one repeated, one interior, one on an edge): the hexagon-free answer is the
    counter-clockwise quadrilateral; the hypotheses of `hull_convex_polygon` hold -/
example : Py.convexHull ([(1,1),(0,0),(2,0),(3,2),(1,3),(1,1),(2,1),(1,0),(0,0)] : List (Pt ℚ))
    = [(0,0),(2,0),(3,2),(1,3)] := by decide +kernel

example : ¬ ∀ x ∈ ([(1,1),(0,0),(2,0),(3,2),(1,3),(1,1),(2,1),(1,0),(0,0)] : List (Pt ℚ)),
    ∀ y ∈ ([(1,1),(0,0),(2,0),(3,2),(1,3),(1,1),(2,1),(1,0),(0,0)] : List (Pt ℚ)),
    ∀ z ∈ ([(1,1),(0,0),(2,0),(3,2),(1,3),(1,1),(2,1),(1,0),(0,0)] : List (Pt ℚ)),
    crossProductCompare x y z = 0 := by decide +kernel

example : 3 ≤ (Py.convexHull ([(1,1),(0,0),(2,0),(3,2),(1,3),(1,1),(2,1),(1,0),(0,0)] : List (Pt ℚ))).length :=
  (hull_convex_polygon _ (by decide +kernel)).1

/-- collinear input with repeated points and vertical ties -/
example : Py.convexHull ([(1,1),(0,0),(2,2),(1,1),(3,3)] : List (Pt ℚ)) = [(0,0),(3,3)] ∧
    Py.convexHull ([(0,2),(0,0),(0,1)] : List (Pt ℚ)) = [(0,0),(0,2)] ∧
    3 ≤ (Py.sortUnique ([(1,1),(0,0),(2,2),(1,1),(3,3)] : List (Pt ℚ))).length := by decide +kernel

example : Py.convexHull ([(1,1),(0,0),(2,2),(1,1),(3,3)] : List (Pt ℚ))
    = [getP (Py.sortUnique ([(1,1),(0,0),(2,2),(1,1),(3,3)] : List (Pt ℚ))) 0,
       getP (Py.sortUnique ([(1,1),(0,0),(2,2),(1,1),(3,3)] : List (Pt ℚ)))
        ((Py.sortUnique ([(1,1),(0,0),(2,2),(1,1),(3,3)] : List (Pt ℚ))).length - 1)] :=
  (hull_collinear _ (by decide +kernel) (by decide +kernel)).1

/-- fewer than three distinct points -/
example : Py.convexHull ([(1,1),(0,0),(1,1)] : List (Pt ℚ)) = [(0,0),(1,1)] ∧
    Py.convexHull ([(1,1),(1,1)] : List (Pt ℚ)) = [(1,1)] ∧
    Py.convexHull ([] : List (Pt ℚ)) = [] := by decide +kernel

example : F90.convexHull ([(1,1),(0,0),(1,1)] : List (Pt ℚ)) = Py.sortUnique [(1,1),(0,0),(1,1)] :=
  (hull_few_points _ (by decide +kernel)).2.1

/-- a vertical left side and a vertical right side (lexicographic ties in `x`) -/
example : Py.convexHull ([(0,0),(0,1),(0,2),(1,0),(1,2),(2,0),(2,1),(2,2),(1,1)] : List (Pt ℚ))
    = [(0,0),(2,0),(2,2),(0,2)] := by decide +kernel

/-- two nets whose hulls are a triangle and a segment, apart: both routines answer "no collision" -/
example : F90.convexHullCollide ([(0,0),(1,0),(0,1),(1/4,1/4)] : List (Pt ℚ)) [(2,0),(3,1),(5/2,1/2)]
    = .ok false ∧
    Py.convexHullCollide ([(0,0),(1,0),(0,1),(1/4,1/4)] : List (Pt ℚ)) [(2,0),(3,1),(5/2,1/2)]
    = .ok false ∧
    2 ≤ (Py.sortUnique ([(0,0),(1,0),(0,1),(1/4,1/4)] : List (Pt ℚ))).length ∧
    2 ≤ (Py.sortUnique ([(2,0),(3,1),(5/2,1/2)] : List (Pt ℚ))).length := by decide +kernel

example : Disjoint (convexHull ℚ {x : Pt ℚ | x ∈ ([(0,0),(1,0),(0,1),(1/4,1/4)] : List (Pt ℚ))})
    (convexHull ℚ {x : Pt ℚ | x ∈ ([(2,0),(3,1),(5/2,1/2)] : List (Pt ℚ))}) :=
  convex_hull_collide_safe_f90 _ _ (by decide +kernel)

/-- two crossing segments given by collinear nets: routed through `line_line_collide` -/
example : F90.convexHullCollide ([(0,0),(1,1),(2,2)] : List (Pt ℚ)) [(0,2),(1,1),(2,0)] = .ok true ∧
    F90.convexHullCollide ([(0,0),(1,1),(2,2)] : List (Pt ℚ)) [(3,0),(4,0),(5,0)] = .ok false := by
  decide +kernel

/-- `bbox_line_intersect`: in through the (untested) left edge, out through the top -/
example : bboxLineIntersect ([[0, 2], [0, 2]] : List (List ℚ)) (-1, 0) (2, 3) = .ok .intersection := by
  decide +kernel

example : ∃ u : ℚ, 0 ≤ u ∧ u ≤ 1 ∧ Predicates.InBox ((0 : ℚ), 2, 0, 2)
    ((-1 : ℚ) + u * (2 - (-1)), (0 : ℚ) + u * (3 - 0)) :=
  (bbox_line_intersect_exact ([[0, 2], [0, 2]] : List (List ℚ)) (-1, 0) (2, 3) 0 2 0 2
    (by decide +kernel) (by norm_num) (by norm_num)).1 (by decide +kernel)

example : bboxLineIntersect ([[0, 2], [0, 2]] : List (List ℚ)) (-1, 2) (1, 4) = .ok .disjoint := by
  decide +kernel

/-- `clip_range`: the doctest of the library, a parallel chord, a miss -/
example : clipRange ([(2,0),(9/2,1),(5/2,3),(5,4)] : List (Pt ℚ)) [(-1/4,25/8),(15/4,7/8),(7,25/8)]
    = .ok (1/4, 7/8) := by decide +kernel

example : clipRange ([(0,0),(1,1),(2,0)] : List (Pt ℚ)) [(0,1),(1,1),(2,3)] = .error .notImplemented := by
  decide +kernel

example : clipRange ([(0,0),(1,1),(2,0)] : List (Pt ℚ)) [(0,5),(1,6),(2,7)] = .ok (1, 0) := by
  decide +kernel

end BezierVerif.C16
