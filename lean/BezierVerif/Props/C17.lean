import BezierVerif.Lemmas.Equivariance
import BezierVerif.Props.C04
import BezierVerif.Props.C08

/-!
# C17 — intersections do not depend on how the same geometry is presented

Specification level.  For the list model over a field the *set of intersections* of two nets is
`{(s,t) | evalPoint thr n1 s = evalPoint thr n2 t}` (`evalPoint` is the model of
`evaluate_multi` at one parameter, on either side `thr` of its algorithm switch).  The theorems
state how this set is relabelled by each of the presentations that `harness/props/c17.py`
applies to the arrays:

| presentation                         | relabelling                         | theorem                    |
|--------------------------------------|-------------------------------------|----------------------------|
| swap of the arguments                | `(s,t) ↦ (t,s)`                     | `spec_swap`                |
| reversal of curve 1 / curve 2        | `s ↦ 1-s` / `t ↦ 1-t`               | `spec_reverse_first/second`|
| degree elevation of curve 1 / 2      | none                                | `spec_elevate_first/second`|
| splitting curve 1 at ½               | `σ ↦ σ/2`, `σ ↦ (1+σ)/2`, union     | `spec_split_left/right/union` |
| translation of both                  | none                                | `spec_translate`           |
| axis swap `(x,y) ↦ (y,x)` of both    | none                                | `spec_swap_axes`           |
| mirror `x ↦ -x` of both              | none                                | `spec_mirror`              |
| scaling of both by `k ≠ 0`           | none                                | `spec_scale`               |

`bern n a b v = Σ_{j≤n} C(n,j) a^(n-j) b^j v_j` (Lemmas/Shift); `reverseNodes`, `translate`,
`scale`, `mirrorX`, `swapAxes` are defined in Lemmas/Equivariance.  Component level: the decision
of `bbox_intersect` (`bboxRel2`) is invariant under the presentations that keep the control
points (it is *not* invariant under elevation or splitting, which change the control points).

What is NOT proved here (checked on the real code by the oracle only): that the subdivision /
Newton pipeline `all_intersections` returns this set.
-/

set_option linter.unusedSectionVars false
set_option linter.unusedVariables false

namespace BezierVerif.C17

open Finset Model BezierVerif Equivariance

/-! ### one coordinate row: Bernstein sums -/
section Field
variable {K : Type} [Field K]

/-- reversing the control row exchanges the two barycentric weights, every degree -/
theorem reverse_weights (row : List K) (h : 1 ≤ row.length) (a b : K) :
    bern (row.length - 1) a b (seq row.reverse) = bern (row.length - 1) b a (seq row) :=
  bern_reverse_row row h a b

/-- hence `B_rev(s) = B(1 - s)` -/
theorem reverse_bern (row : List K) (h : 1 ≤ row.length) (s : K) :
    bern (row.length - 1) (1 - s) s (seq row.reverse)
      = bern (row.length - 1) (1 - (1 - s)) (1 - s) (seq row) := by
  rw [reverse_weights row h, sub_sub_cancel]

/-- **affine equivariance** of the Bernstein form (`Σ_j C(n,j)(1-s)^(n-j)s^j = 1`): every degree,
    every sequence, every `k`, `c` -/
theorem affine_equivariance (n : ℕ) (s k c : K) (v : ℕ → K) :
    bern n (1 - s) s (fun j => k * v j + c) = k * bern n (1 - s) s v + c :=
  bern_affine n s k c v

/-- translation -/
theorem translate_bern (n : ℕ) (s c : K) (v : ℕ → K) :
    bern n (1 - s) s (fun j => v j + c) = bern n (1 - s) s v + c :=
  bern_translate n s c v

/-- scaling (any weights) -/
theorem scale_bern (n : ℕ) (a b k : K) (v : ℕ → K) :
    bern n a b (fun j => k * v j) = k * bern n a b v :=
  bern_smul n a b k v

/-- mirror (any weights) -/
theorem mirror_bern (n : ℕ) (a b : K) (v : ℕ → K) :
    bern n a b (fun j => - v j) = - bern n a b v :=
  bern_neg n a b v

/-- the Bernstein weights sum to `(a + b)^n`; with `a = 1 - s`, `b = s` to one -/
theorem weights_sum_one (n : ℕ) (s : K) : bern n (1 - s) s (fun _ => 1) = 1 := by
  rw [bern_const, sub_add_cancel, one_pow, one_mul]

/-- degree elevation changes nothing (re-export of C08) -/
theorem elevate_same_point [CharZero K] (row : List K) (h : 1 ≤ row.length) (s : K) :
    bern row.length (1 - s) s (seq (elevateRow row))
      = bern (row.length - 1) (1 - s) s (seq row) :=
  C08.elevate_same_point row h s

/-- the left half of a subdivision is `σ ↦ B(σ/2)` (re-export of C04) -/
theorem split_left [CharZero K] (row : List K) (h : 1 ≤ row.length) (σ : K) :
    bern (row.length - 1) (1 - σ) σ (seq (Py.subdivideRow row).1)
      = bern (row.length - 1) (1 - σ/2) (σ/2) (seq row) :=
  C04.subdivide_left_correct row h σ

/-- the right half is `σ ↦ B((1+σ)/2)` (re-export of C04) -/
theorem split_right [CharZero K] (row : List K) (h : 1 ≤ row.length) (σ : K) :
    bern (row.length - 1) (1 - σ) σ (seq (Py.subdivideRow row).2)
      = bern (row.length - 1) (1 - (1+σ)/2) ((1+σ)/2) (seq row) :=
  C04.subdivide_right_correct row h σ

end Field

/-! ### the evaluation routine and whole nets -/
section CharZero
variable {K : Type} [Field K] [CharZero K]

/-- reversal, for `evaluate_multi_barycentric` itself (either side of the algorithm switch) -/
theorem reverse_param (thr thr' : ℕ) (row : List K) (h : 2 ≤ row.length) (s : K) :
    evalBary thr row.reverse (1 - s) s = evalBary thr' row (1 - (1 - s)) (1 - s) := by
  rw [evalBary_reverse thr thr' row h, sub_sub_cancel]

theorem reverse_point (thr thr' : ℕ) (nodes : List (List K))
    (h : ∀ row ∈ nodes, 2 ≤ row.length) (s : K) :
    evalPoint thr (reverseNodes nodes) s = evalPoint thr' nodes (1 - s) :=
  evalPoint_reverseNodes thr thr' nodes h s

theorem elevate_point (thr thr' : ℕ) (nodes : List (List K))
    (h : ∀ row ∈ nodes, 2 ≤ row.length) (s : K) :
    evalPoint thr (elevate nodes) s = evalPoint thr' nodes s :=
  C08.elevate_nodes_same_point thr thr' nodes h s

theorem split_left_row (thr thr' : ℕ) (row : List K) (h : 2 ≤ row.length) (σ : K) :
    evalBary thr (Py.subdivideRow row).1 (1 - σ) σ = evalBary thr' row (1 - σ/2) (σ/2) := by
  have hl := subdivideRow_fst_length row (by omega)
  rw [evalBary_eq_bern thr _ (by rw [hl]; exact h), evalBary_eq_bern thr' row h, hl,
    split_left row (by omega)]

theorem split_right_row (thr thr' : ℕ) (row : List K) (h : 2 ≤ row.length) (σ : K) :
    evalBary thr (Py.subdivideRow row).2 (1 - σ) σ = evalBary thr' row (1 - (1+σ)/2) ((1+σ)/2) := by
  have hl := subdivideRow_snd_length row (by omega)
  rw [evalBary_eq_bern thr _ (by rw [hl]; exact h), evalBary_eq_bern thr' row h, hl,
    split_right row (by omega)]

/-- the left piece of `subdivide_nodes` evaluated at `σ` is the curve at `σ/2` -/
theorem split_left_point (thr thr' : ℕ) (nodes : List (List K))
    (h : ∀ row ∈ nodes, 2 ≤ row.length) (σ : K) :
    evalPoint thr (Py.subdivide nodes).1 σ = evalPoint thr' nodes (σ/2) := by
  unfold evalPoint Py.subdivide
  rw [List.map_map]
  apply List.map_congr_left
  intro row hrow
  exact split_left_row thr thr' row (h row hrow) σ

/-- the right piece evaluated at `σ` is the curve at `(1+σ)/2` -/
theorem split_right_point (thr thr' : ℕ) (nodes : List (List K))
    (h : ∀ row ∈ nodes, 2 ≤ row.length) (σ : K) :
    evalPoint thr (Py.subdivide nodes).2 σ = evalPoint thr' nodes ((1+σ)/2) := by
  unfold evalPoint Py.subdivide
  rw [List.map_map]
  apply List.map_congr_left
  intro row hrow
  exact split_right_row thr thr' row (h row hrow) σ

/-- the compiled implementation's subdivision (closed forms / in-place Pascal row) gives the same
    two pieces -/
theorem f90_split_same_pieces (nodes : List (List K)) (h : ∀ row ∈ nodes, 1 ≤ row.length) :
    F90.subdivide nodes = Py.subdivide nodes := by
  unfold F90.subdivide Py.subdivide
  refine Prod.ext ?_ ?_ <;>
  · apply List.map_congr_left
    intro row hrow
    rw [C04.subdivide_variants_agree row (h row hrow)]

theorem translate_point (thr thr' : ℕ) (c : List K) (nodes : List (List K))
    (h : ∀ row ∈ nodes, 2 ≤ row.length) (s : K) :
    evalPoint thr (translate c nodes) s = translatePt c (evalPoint thr' nodes s) :=
  evalPoint_translate thr thr' s c nodes h

theorem scale_point (thr thr' : ℕ) (k : K) (nodes : List (List K))
    (h : ∀ row ∈ nodes, 2 ≤ row.length) (s : K) :
    evalPoint thr (scale k nodes) s = scalePt k (evalPoint thr' nodes s) :=
  evalPoint_scale thr thr' k nodes h s

theorem mirror_point (thr : ℕ) (nodes : List (List K))
    (h : ∀ row ∈ nodes, 2 ≤ row.length) (s : K) :
    evalPoint thr (mirrorX nodes) s = mirrorXPt (evalPoint thr nodes s) :=
  evalPoint_mirrorX thr nodes h s

/-- evaluation acts coordinate-wise: an axis swap is a permutation of the rows -/
theorem swap_axes_point (thr : ℕ) (nodes : List (List K)) (s : K) :
    evalPoint thr (swapAxes nodes) s = swapAxes (evalPoint thr nodes s) :=
  evalPoint_swapAxes thr nodes s

/-! ### the intersection set under the eight presentations -/

/-- swap of the arguments: the result is transposed -/
theorem spec_swap (thr : ℕ) (n1 n2 : List (List K)) (s t : K) :
    evalPoint thr n2 t = evalPoint thr n1 s ↔ evalPoint thr n1 s = evalPoint thr n2 t :=
  eq_comm

/-- reversal of the first curve: `s ↦ 1 - s` -/
theorem spec_reverse_first (thr : ℕ) (n1 n2 : List (List K))
    (h1 : ∀ row ∈ n1, 2 ≤ row.length) (s t : K) :
    evalPoint thr (reverseNodes n1) s = evalPoint thr n2 t
      ↔ evalPoint thr n1 (1 - s) = evalPoint thr n2 t := by
  rw [reverse_point thr thr n1 h1]

/-- reversal of the second curve: `t ↦ 1 - t` -/
theorem spec_reverse_second (thr : ℕ) (n1 n2 : List (List K))
    (h2 : ∀ row ∈ n2, 2 ≤ row.length) (s t : K) :
    evalPoint thr n1 s = evalPoint thr (reverseNodes n2) t
      ↔ evalPoint thr n1 s = evalPoint thr n2 (1 - t) := by
  rw [reverse_point thr thr n2 h2]

/-- degree elevation of the first curve: nothing changes -/
theorem spec_elevate_first (thr : ℕ) (n1 n2 : List (List K))
    (h1 : ∀ row ∈ n1, 2 ≤ row.length) (s t : K) :
    evalPoint thr (elevate n1) s = evalPoint thr n2 t
      ↔ evalPoint thr n1 s = evalPoint thr n2 t := by
  rw [elevate_point thr thr n1 h1]

/-- degree elevation of the second curve -/
theorem spec_elevate_second (thr : ℕ) (n1 n2 : List (List K))
    (h2 : ∀ row ∈ n2, 2 ≤ row.length) (s t : K) :
    evalPoint thr n1 s = evalPoint thr (elevate n2) t
      ↔ evalPoint thr n1 s = evalPoint thr n2 t := by
  rw [elevate_point thr thr n2 h2]

/-- left piece of curve 1: `σ ↦ σ/2` -/
theorem spec_split_left (thr : ℕ) (n1 n2 : List (List K))
    (h1 : ∀ row ∈ n1, 2 ≤ row.length) (σ t : K) :
    evalPoint thr (Py.subdivide n1).1 σ = evalPoint thr n2 t
      ↔ evalPoint thr n1 (σ/2) = evalPoint thr n2 t := by
  rw [split_left_point thr thr n1 h1]

/-- right piece of curve 1: `σ ↦ (1+σ)/2` -/
theorem spec_split_right (thr : ℕ) (n1 n2 : List (List K))
    (h1 : ∀ row ∈ n1, 2 ≤ row.length) (σ t : K) :
    evalPoint thr (Py.subdivide n1).2 σ = evalPoint thr n2 t
      ↔ evalPoint thr n1 ((1+σ)/2) = evalPoint thr n2 t := by
  rw [split_right_point thr thr n1 h1]

/-- translation of both curves by the same vector -/
theorem spec_translate (thr : ℕ) (c : List K) (n1 n2 : List (List K))
    (h1 : ∀ row ∈ n1, 2 ≤ row.length) (h2 : ∀ row ∈ n2, 2 ≤ row.length)
    (hc1 : n1.length = c.length) (hc2 : n2.length = c.length) (s t : K) :
    evalPoint thr (translate c n1) s = evalPoint thr (translate c n2) t
      ↔ evalPoint thr n1 s = evalPoint thr n2 t := by
  rw [translate_point thr thr c n1 h1, translate_point thr thr c n2 h2]
  exact translatePt_inj c _ _ (by rw [evalPoint_length]; exact hc1) (by rw [evalPoint_length]; exact hc2)

/-- axis swap of both curves -/
theorem spec_swap_axes (thr : ℕ) (n1 n2 : List (List K)) (s t : K) :
    evalPoint thr (swapAxes n1) s = evalPoint thr (swapAxes n2) t
      ↔ evalPoint thr n1 s = evalPoint thr n2 t := by
  rw [swap_axes_point, swap_axes_point]
  exact swapAxes_inj _ _

/-- mirror `x ↦ -x` of both curves -/
theorem spec_mirror (thr : ℕ) (n1 n2 : List (List K))
    (h1 : ∀ row ∈ n1, 2 ≤ row.length) (h2 : ∀ row ∈ n2, 2 ≤ row.length) (s t : K) :
    evalPoint thr (mirrorX n1) s = evalPoint thr (mirrorX n2) t
      ↔ evalPoint thr n1 s = evalPoint thr n2 t := by
  rw [mirror_point thr n1 h1, mirror_point thr n2 h2]
  exact mirrorXPt_inj _ _

/-- scaling of both curves by the same non-zero factor (in particular `2^k`) -/
theorem spec_scale (thr : ℕ) (k : K) (hk : k ≠ 0) (n1 n2 : List (List K))
    (h1 : ∀ row ∈ n1, 2 ≤ row.length) (h2 : ∀ row ∈ n2, 2 ≤ row.length) (s t : K) :
    evalPoint thr (scale k n1) s = evalPoint thr (scale k n2) t
      ↔ evalPoint thr n1 s = evalPoint thr n2 t := by
  rw [scale_point thr thr k n1 h1, scale_point thr thr k n2 h2]
  exact scalePt_inj k hk _ _

/-- **all presentations at once**: the intersection set `{(s,t) | B1(s) = B2(t)}` of the planar or
    spatial nets `n1`, `n2` (every row at least 2 nodes) is relabelled as stated -/
theorem spec_equivariant (thr : ℕ) (n1 n2 : List (List K))
    (h1 : ∀ row ∈ n1, 2 ≤ row.length) (h2 : ∀ row ∈ n2, 2 ≤ row.length) (s t : K) :
    (evalPoint thr n2 t = evalPoint thr n1 s ↔ evalPoint thr n1 s = evalPoint thr n2 t) ∧
    (evalPoint thr (reverseNodes n1) (1 - s) = evalPoint thr n2 t ↔ evalPoint thr n1 s = evalPoint thr n2 t) ∧
    (evalPoint thr n1 s = evalPoint thr (reverseNodes n2) (1 - t) ↔ evalPoint thr n1 s = evalPoint thr n2 t) ∧
    (evalPoint thr (elevate n1) s = evalPoint thr n2 t ↔ evalPoint thr n1 s = evalPoint thr n2 t) ∧
    (evalPoint thr n1 s = evalPoint thr (elevate n2) t ↔ evalPoint thr n1 s = evalPoint thr n2 t) ∧
    (evalPoint thr (Py.subdivide n1).1 (s + s) = evalPoint thr n2 t ↔ evalPoint thr n1 s = evalPoint thr n2 t) ∧
    (evalPoint thr (Py.subdivide n1).2 (s + s - 1) = evalPoint thr n2 t ↔ evalPoint thr n1 s = evalPoint thr n2 t) ∧
    (∀ c : List K, n1.length = c.length → n2.length = c.length →
      (evalPoint thr (translate c n1) s = evalPoint thr (translate c n2) t ↔ evalPoint thr n1 s = evalPoint thr n2 t)) ∧
    (evalPoint thr (swapAxes n1) s = evalPoint thr (swapAxes n2) t ↔ evalPoint thr n1 s = evalPoint thr n2 t) ∧
    (evalPoint thr (mirrorX n1) s = evalPoint thr (mirrorX n2) t ↔ evalPoint thr n1 s = evalPoint thr n2 t) ∧
    (∀ k : K, k ≠ 0 →
      (evalPoint thr (scale k n1) s = evalPoint thr (scale k n2) t ↔ evalPoint thr n1 s = evalPoint thr n2 t)) := by
  have h2' : (2 : K) ≠ 0 := two_ne_zero
  refine ⟨spec_swap thr n1 n2 s t, ?_, ?_, spec_elevate_first thr n1 n2 h1 s t,
    spec_elevate_second thr n1 n2 h2 s t, ?_, ?_,
    fun c hc1 hc2 => spec_translate thr c n1 n2 h1 h2 hc1 hc2 s t, spec_swap_axes thr n1 n2 s t,
    spec_mirror thr n1 n2 h1 h2 s t, fun k hk => spec_scale thr k hk n1 n2 h1 h2 s t⟩
  · rw [spec_reverse_first thr n1 n2 h1, sub_sub_cancel]
  · rw [spec_reverse_second thr n1 n2 h2, sub_sub_cancel]
  · rw [spec_split_left thr n1 n2 h1]
    have e : (s + s) / 2 = s := by field_simp; ring
    rw [e]
  · rw [spec_split_right thr n1 n2 h1]
    have e : (1 + (s + s - 1)) / 2 = s := by field_simp; ring
    rw [e]

end CharZero

/-! ### splitting: the result is the rescaled *union* of the pieces' results, and parameter
domains are respected -/
section Ordered
variable {K : Type} [Field K] [LinearOrder K] [IsStrictOrderedRing K]

/-- reversal keeps the parameter domain -/
theorem reverse_domain (s : K) : (0 ≤ 1 - s ∧ 1 - s ≤ 1) ↔ (0 ≤ s ∧ s ≤ 1) := by
  constructor <;> (intro h; constructor <;> linarith [h.1, h.2])

/-- the intersections of the whole curve 1 with parameter in `[0,1]` are exactly those of the left
    piece mapped by `σ ↦ σ/2` together with those of the right piece mapped by `σ ↦ (1+σ)/2` -/
theorem spec_split_union (thr : ℕ) (n1 n2 : List (List K))
    (h1 : ∀ row ∈ n1, 2 ≤ row.length) (s t : K) (hs0 : 0 ≤ s) (hs1 : s ≤ 1) :
    evalPoint thr n1 s = evalPoint thr n2 t ↔
      (∃ σ, 0 ≤ σ ∧ σ ≤ 1 ∧ s = σ/2 ∧ evalPoint thr (Py.subdivide n1).1 σ = evalPoint thr n2 t) ∨
      (∃ σ, 0 ≤ σ ∧ σ ≤ 1 ∧ s = (1+σ)/2 ∧ evalPoint thr (Py.subdivide n1).2 σ = evalPoint thr n2 t) := by
  constructor
  · intro h
    rcases le_total s (1/2) with hle | hge
    · left
      refine ⟨s + s, by linarith, by linarith, by ring, ?_⟩
      rw [spec_split_left thr n1 n2 h1]
      have e : (s + s) / 2 = s := by ring
      rw [e]; exact h
    · right
      refine ⟨s + s - 1, by linarith, by linarith, by ring, ?_⟩
      rw [spec_split_right thr n1 n2 h1]
      have e : (1 + (s + s - 1)) / 2 = s := by ring
      rw [e]; exact h
  · rintro (⟨σ, _, _, hs, h⟩ | ⟨σ, _, _, hs, h⟩)
    · rw [hs]; exact (spec_split_left thr n1 n2 h1 σ t).mp h
    · rw [hs]; exact (spec_split_right thr n1 n2 h1 σ t).mp h

/-! ### component level: the bounding-box decision (`bbox_intersect`) -/

/-- translation of both nets -/
theorem bbox_translate (cx cy : K) (x1 y1 x2 y2 : List K)
    (hx1 : x1 ≠ []) (hy1 : y1 ≠ []) (hx2 : x2 ≠ []) (hy2 : y2 ≠ []) :
    bboxRel2 (x1.map (fun v => v + cx)) (y1.map (fun v => v + cy))
        (x2.map (fun v => v + cx)) (y2.map (fun v => v + cy)) = bboxRel2 x1 y1 x2 y2 :=
  bboxRel2_map_strictMono _ _ (fun a b h => by linarith) (fun a b h => by linarith)
    x1 y1 x2 y2 hx1 hy1 hx2 hy2

/-- scaling of both nets by a positive factor -/
theorem bbox_scale (k : K) (hk : 0 < k) (x1 y1 x2 y2 : List K)
    (hx1 : x1 ≠ []) (hy1 : y1 ≠ []) (hx2 : x2 ≠ []) (hy2 : y2 ≠ []) :
    bboxRel2 (x1.map (fun v => k * v)) (y1.map (fun v => k * v))
        (x2.map (fun v => k * v)) (y2.map (fun v => k * v)) = bboxRel2 x1 y1 x2 y2 :=
  bboxRel2_map_strictMono _ _ (fun a b h => by nlinarith) (fun a b h => by nlinarith)
    x1 y1 x2 y2 hx1 hy1 hx2 hy2

/-- mirror `x ↦ -x` of both nets -/
theorem bbox_mirror (x1 y1 x2 y2 : List K) (hx1 : x1 ≠ []) (hx2 : x2 ≠ []) :
    bboxRel2 (x1.map (fun v => -v)) y1 (x2.map (fun v => -v)) y2 = bboxRel2 x1 y1 x2 y2 :=
  bboxRel2_map_strictAnti_x _ (fun a b h => by linarith) x1 y1 x2 y2 hx1 hx2

/-- axis swap of both nets -/
theorem bbox_swap_axes (x1 y1 x2 y2 : List K) : bboxRel2 y1 x1 y2 x2 = bboxRel2 x1 y1 x2 y2 :=
  bboxRel2_swapAxes x1 y1 x2 y2

/-- swap of the arguments -/
theorem bbox_swap_args (x1 y1 x2 y2 : List K) : bboxRel2 x2 y2 x1 y1 = bboxRel2 x1 y1 x2 y2 :=
  bboxRel2_swapArgs x1 y1 x2 y2

/-- reversal of the first curve (by `bbox_swap_args` also of the second) -/
theorem bbox_reverse (x1 y1 x2 y2 : List K) :
    bboxRel2 x1.reverse y1.reverse x2 y2 = bboxRel2 x1 y1 x2 y2 :=
  bboxRel2_reverse_first x1 y1 x2 y2

end Ordered

/-! ### non-vacuity over ℚ: the parabola `(2s, 4s(1-s))` meets the line `y = 3/4` at
`s = 1/4` (`t = 1/4`) and `s = 3/4` (`t = 3/4`) -/

/-- the base intersection -/
example : evalPoint 55 ([[0, 1, 2], [0, 2, 0]] : List (List ℚ)) (1/4)
    = evalPoint 55 [[0, 2], [3/4, 3/4]] (1/4) := by decide +kernel

/-- reversed first curve: found at `1 - 1/4`, by the theorem -/
example : evalPoint 55 (reverseNodes ([[0, 1, 2], [0, 2, 0]] : List (List ℚ))) (3/4)
    = evalPoint 55 [[0, 2], [3/4, 3/4]] (1/4) :=
  (spec_reverse_first 55 _ _ (by decide) (3/4) (1/4)).mpr (by decide +kernel)

/-- … and by computation -/
example : reverseNodes ([[0, 1, 2], [0, 2, 0]] : List (List ℚ)) = [[2, 1, 0], [0, 2, 0]] ∧
    evalPoint 55 ([[2, 1, 0], [0, 2, 0]] : List (List ℚ)) (3/4) = [1/2, 3/4] := by decide +kernel

/-- elevated first curve (control points `0, 2/3, 4/3, 2` / `0, 4/3, 4/3, 0`) -/
example : elevate ([[0, 1, 2], [0, 2, 0]] : List (List ℚ)) = [[0, 2/3, 4/3, 2], [0, 4/3, 4/3, 0]] ∧
    evalPoint 55 (elevate ([[0, 1, 2], [0, 2, 0]] : List (List ℚ))) (1/4) = [1/2, 3/4] := by
  decide +kernel

/-- the two pieces: `s = 1/4` is `σ = 1/2` on the left piece, `s = 3/4` is `σ = 1/2` on the right -/
example : Py.subdivide ([[0, 1, 2], [0, 2, 0]] : List (List ℚ))
      = ([[0, 1/2, 1], [0, 1, 1]], [[1, 3/2, 2], [1, 1, 0]]) ∧
    evalPoint 55 (Py.subdivide ([[0, 1, 2], [0, 2, 0]] : List (List ℚ))).1 (1/2) = [1/2, 3/4] ∧
    evalPoint 55 (Py.subdivide ([[0, 1, 2], [0, 2, 0]] : List (List ℚ))).2 (1/2) = [3/2, 3/4] := by
  decide +kernel

example : evalPoint 55 (Py.subdivide ([[0, 1, 2], [0, 2, 0]] : List (List ℚ))).1 (1/2)
    = evalPoint 55 [[0, 2], [3/4, 3/4]] (1/4) :=
  (spec_split_left 55 _ _ (by decide) (1/2) (1/4)).mpr (by decide +kernel)

/-- translated by `(3, -1/2)`, mirrored, axis-swapped, scaled by `2^5`: same parameters -/
example : evalPoint 55 (translate [3, -1/2] ([[0, 1, 2], [0, 2, 0]] : List (List ℚ))) (1/4)
    = evalPoint 55 (translate [3, -1/2] [[0, 2], [3/4, 3/4]]) (1/4) :=
  (spec_translate 55 [3, -1/2] _ _ (by decide) (by decide) rfl rfl (1/4) (1/4)).mpr (by decide +kernel)

example : evalPoint 55 (mirrorX ([[0, 1, 2], [0, 2, 0]] : List (List ℚ))) (1/4)
    = evalPoint 55 (mirrorX [[0, 2], [3/4, 3/4]]) (1/4) :=
  (spec_mirror 55 _ _ (by decide) (by decide) (1/4) (1/4)).mpr (by decide +kernel)

example : evalPoint 55 (swapAxes ([[0, 1, 2], [0, 2, 0]] : List (List ℚ))) (1/4)
    = evalPoint 55 (swapAxes [[0, 2], [3/4, 3/4]]) (1/4) :=
  (spec_swap_axes 55 _ _ (1/4) (1/4)).mpr (by decide +kernel)

example : evalPoint 55 (scale 32 ([[0, 1, 2], [0, 2, 0]] : List (List ℚ))) (1/4)
    = evalPoint 55 (scale 32 [[0, 2], [3/4, 3/4]]) (1/4) :=
  (spec_scale 55 32 (by norm_num) _ _ (by decide) (by decide) (1/4) (1/4)).mpr (by decide +kernel)

/-- a non-intersection stays a non-intersection (the `↔` is used right to left) -/
example : evalPoint 55 (scale 32 ([[0, 1, 2], [0, 2, 0]] : List (List ℚ))) (1/2)
    ≠ evalPoint 55 (scale 32 [[0, 2], [3/4, 3/4]]) (1/2) := by
  rw [Ne, spec_scale 55 32 (by norm_num) _ _ (by decide) (by decide)]
  decide +kernel

/-- bounding boxes: the parabola's box `[0,2]×[0,2]` and the line's box `[0,2]×[3/4,3/4]` intersect;
    a box touching along `x = 2` is tangent; both decisions survive translation and scaling -/
example : bboxRel2 ([0, 1, 2] : List ℚ) [0, 2, 0] [0, 2] [3/4, 3/4] = .intersection ∧
    bboxRel2 ([0, 1, 2] : List ℚ) [0, 2, 0] [2, 3] [0, 1] = .tangent ∧
    bboxRel2 ([0, 1, 2] : List ℚ) [0, 2, 0] [5/2, 3] [0, 1] = .disjoint := by decide +kernel

example : bboxRel2 (([0, 1, 2] : List ℚ).map (fun v => v + 7)) ([0, 2, 0].map (fun v => v + (-3)))
    ([2, 3].map (fun v => v + 7)) ([0, 1].map (fun v => v + (-3))) = .tangent := by
  rw [bbox_translate 7 (-3) _ _ _ _ (by decide) (by decide) (by decide) (by decide)]
  decide +kernel

end BezierVerif.C17
