import BezierVerif.Lemmas.PipelineEquivariance
import BezierVerif.Lemmas.PipelineTranslate
import BezierVerif.Lemmas.PipelineInst

/-!
# C17 (pipeline level) — the executable pipeline `all_intersections` under a translation

`Props/C17.lean` states how the exact intersection SET is relabelled by each presentation.  Here the
statement is about the executable model `Model.allIntersections` itself, run with the concrete
primitives `concretePrims py C` (Model/GeometricInst.lean; `py = true` pure Python, `false` compiled),
in exact arithmetic over any linearly ordered field, for ANY constants `C`, `G` (every round budget,
every candidate budget, every threshold).

* `Lemmas/PipelineEquivariance.lean`, `allIntersections_invariant`: for an arbitrary record of
  primitives, if every primitive is invariant under the presentation change `T` (and the node-producing
  ones commute with it), the pipeline returns the same parameters, the same coincidence flag and the same
  error on `(T n1, T n2)` as on `(n1, n2)` (lock-step induction over rounds and candidate lists).
* `concrete_prims_translate_invariant`: for `T = translate [cx, cy]` every concrete primitive is
  invariant — bounding boxes, box/segment test, linearisation error, segment intersection, parallel
  segments, convex-hull collision (both variants), Newton (both cut rules, any solver rounding `rnd`),
  `locate_point`, subdivision / specialisation (both variants), elevation — EXCEPT `vector_close`.
* `vector_close_not_translation_invariant`, `pipeline_translate_fails`: `vector_close` measures the
  distance of two points relative to the norms of their POSITION VECTORS; with the library's constants
  two end points `2⁻⁴¹` apart are "the same point" near `(1, 0)` and different points near the origin.
  The pipeline inherits this through `endpoint_check` (tangent bounding boxes): a decided pair of
  parabolas whose translate loses the reported intersection.  So the unrestricted statement is FALSE.
* `pipeline_translate_partial`: the invariance of `vector_close` (on end points and on flattened node
  arrays) as explicit hypotheses ⇒ the pipeline is translation invariant.
* `pipeline_translate_exact_close`: the hypotheses hold when `eps = 0` (`vector_close` = equality), so for
  such constants the pipeline is translation invariant unconditionally.

FULL: (`pipeline_translate`)  ∀ py C G cx cy n1 n2, Planar n1 → Planar n2 →
        allIntersections (concretePrims py C) G (translate [cx, cy] n1) (translate [cx, cy] n2)
          = allIntersections (concretePrims py C) G n1 n2.
      Refuted by `pipeline_translate_fails`; the only obstruction is `vector_close`
      (`hpt`, `hflat` of `pipeline_translate_partial`).

Mirror `x ↦ -x`, axis swap, scaling (with the rescaled linearisation threshold) and the failure of reversal
equivariance: `Props/C17Pipeline2.lean` (`pipeline_mirror_partial`, `pipeline_swap_axes_partial`: everything but
`convex_hull_collide` proved; `pipeline_scale_partial`; `reversal_not_equivariant`).

Real code: the pair of `pipeline_translate_fails` is binary64-exact (also after the translation); both
configurations of the library return `s = 1, t = 0` for the base pair and nothing for the translated pair.
-/

set_option linter.unusedSectionVars false
set_option linter.unusedVariables false

namespace BezierVerif.C17

open Model BezierVerif Equivariance PipelineEquivariance PipelineTranslate

section Ordered
variable {K : Type} [Field K] [LinearOrder K] [IsStrictOrderedRing K]

/-- every concrete primitive except `vector_close` is translation invariant on planar node arrays
    (two rows of equal length ≥ 2) and planar points, for any constants and both variants; the two
    hypotheses are the invariance of `vector_close` on end points and on flattened node arrays -/
theorem concrete_prims_translate_invariant (py : Bool) (C : PipelineConsts K) (cx cy : K)
    (hpt : ∀ p q : List K, Point2 p → Point2 q →
      vectorCloseSq (translatePt [cx, cy] p) (translatePt [cx, cy] q) C.epsSq = vectorCloseSq p q C.epsSq)
    (hflat : ∀ a b : List (List K), Planar a → Planar b → ncols a = ncols b →
      vectorCloseSq (flatten (translate [cx, cy] a)) (flatten (translate [cx, cy] b)) C.epsSq
        = vectorCloseSq (flatten a) (flatten b) C.epsSq) :
    PrimsInvariant (concretePrims py C) (translate [cx, cy]) (translatePt [cx, cy]) Planar Point2 :=
  concretePrims_invariant py C cx cy hpt hflat

/-- **translation invariance of the executable pipeline**, `vector_close` excepted: same parameters,
    same coincidence flag, same error — for both variants, any constants `C` of the primitives, any
    pipeline constants `G` (every fuel `G.maxRounds`, every candidate budget), any planar nets -/
theorem pipeline_translate_partial (py : Bool) (C : PipelineConsts K) (G : GeoConsts K) (cx cy : K)
    (n1 n2 : List (List K)) (h1 : Planar n1) (h2 : Planar n2)
    (hpt : ∀ p q : List K, Point2 p → Point2 q →
      vectorCloseSq (translatePt [cx, cy] p) (translatePt [cx, cy] q) C.epsSq = vectorCloseSq p q C.epsSq)
    (hflat : ∀ a b : List (List K), Planar a → Planar b → ncols a = ncols b →
      vectorCloseSq (flatten (translate [cx, cy] a)) (flatten (translate [cx, cy] b)) C.epsSq
        = vectorCloseSq (flatten a) (flatten b) C.epsSq) :
    allIntersections (concretePrims py C) G (translate [cx, cy] n1) (translate [cx, cy] n2)
      = allIntersections (concretePrims py C) G n1 n2 :=
  allIntersections_invariant (concretePrims_invariant py C cx cy hpt hflat) G n1 n2 h1 h2

/-- with `eps = 0`, `vector_close` is equality of arrays, which is translation invariant: the pipeline
    is translation invariant with no further hypothesis -/
theorem pipeline_translate_exact_close (py : Bool) (C : PipelineConsts K) (hC : C.epsSq = 0) (G : GeoConsts K)
    (cx cy : K) (n1 n2 : List (List K)) (h1 : Planar n1) (h2 : Planar n2) :
    allIntersections (concretePrims py C) G (translate [cx, cy] n1) (translate [cx, cy] n2)
      = allIntersections (concretePrims py C) G n1 n2 :=
  pipeline_translate_partial py C G cx cy n1 n2 h1 h2
    (fun p q hp hq => by rw [hC]; exact vectorClosePt_zero cx cy p q hp hq)
    (fun a b ha hb hn => by rw [hC]; exact vectorCloseFlat_zero cx cy a b ha hb hn)

/-- every stage separately (here: one round of `intersect_one_round` on the start pair): the candidate
    list of the translated run is the translated candidate list, the accumulated parameters are equal -/
theorem first_round_translate_partial (py : Bool) (C : PipelineConsts K) (G : GeoConsts K) (cx cy : K)
    (n1 n2 : List (List K)) (h1 : Planar n1) (h2 : Planar n2)
    (hpt : ∀ p q : List K, Point2 p → Point2 q →
      vectorCloseSq (translatePt [cx, cy] p) (translatePt [cx, cy] q) C.epsSq = vectorCloseSq p q C.epsSq)
    (hflat : ∀ a b : List (List K), Planar a → Planar b → ncols a = ncols b →
      vectorCloseSq (flatten (translate [cx, cy] a)) (flatten (translate [cx, cy] b)) C.epsSq
        = vectorCloseSq (flatten a) (flatten b) C.epsSq) (acc : List (K × K)) :
    intersectOneRound (concretePrims py C) G (translate [cx, cy] n1) (translate [cx, cy] n2)
        [(.curve ⟨translate [cx, cy] n1, 0, 1⟩, .curve ⟨translate [cx, cy] n2, 0, 1⟩)] acc
      = mapRes (translate [cx, cy]) id
          (intersectOneRound (concretePrims py C) G n1 n2 [(.curve ⟨n1, 0, 1⟩, .curve ⟨n2, 0, 1⟩)] acc) :=
  intersectOneRound_map ((concretePrims_invariant py C cx cy hpt hflat).related G) n1 n2 h1 h2
    [(.curve ⟨n1, 0, 1⟩, .curve ⟨n2, 0, 1⟩)]
    (by intro p hp; rw [List.mem_singleton] at hp; subst hp; exact ⟨h1, h2⟩) acc

end Ordered

/-! ### the hypothesis on `vector_close` cannot be dropped (library constants, exact rationals) -/

open PipeInst

/-- `vector_close` is relative to the norms of the position vectors: the points `(1, 0)` and
    `(1, -2⁻⁴¹)` are close (`2⁻⁴¹ ≤ 2⁻⁴⁰ · 1`); translated by `(-1, 2⁻⁴⁰)` they are `(0, 2⁻⁴⁰)` and
    `(0, 2⁻⁴¹)`, at the same distance `2⁻⁴¹ > 2⁻⁴⁰ · 2⁻⁴¹`: not close -/
theorem vector_close_not_translation_invariant :
    vectorCloseSq ([1, 0] : List ℚ) [1, -1 / 2 ^ 41] libConsts.epsSq = true ∧
    vectorCloseSq (translatePt [-1, 1 / 2 ^ 40] ([1, 0] : List ℚ)) (translatePt [-1, 1 / 2 ^ 40] [1, -1 / 2 ^ 41])
      libConsts.epsSq = false := by decide +kernel

/-- … and the pipeline inherits it (both variants): the parabolas `(0,0),(½,-1),(1,0)` and
    `(1,-2⁻⁴¹),(2,1),(3,1)` have tangent bounding boxes; `endpoint_check` reports the pair of end points
    `s = 1`, `t = 0`; for the same two curves translated by `(-1, 2⁻⁴⁰)` nothing is reported -/
theorem pipeline_translate_fails :
    allIntersections (concretePrims true libConsts) libConsts.geo
        [[0, 1 / 2, 1], [0, -1, 0]] [[1, 2, 3], [-1 / 2 ^ 41, 1, 1]] = .ok ([(1, 0)], false) ∧
    allIntersections (concretePrims true libConsts) libConsts.geo
        (translate [-1, 1 / 2 ^ 40] [[0, 1 / 2, 1], [0, -1, 0]])
        (translate [-1, 1 / 2 ^ 40] [[1, 2, 3], [-1 / 2 ^ 41, 1, 1]]) = .ok ([], false) ∧
    allIntersections (concretePrims false libConsts) libConsts.geo
        [[0, 1 / 2, 1], [0, -1, 0]] [[1, 2, 3], [-1 / 2 ^ 41, 1, 1]] = .ok ([(1, 0)], false) ∧
    allIntersections (concretePrims false libConsts) libConsts.geo
        (translate [-1, 1 / 2 ^ 40] [[0, 1 / 2, 1], [0, -1, 0]])
        (translate [-1, 1 / 2 ^ 40] [[1, 2, 3], [-1 / 2 ^ 41, 1, 1]]) = .ok ([], false) := by
  refine ⟨?_, ?_, ?_, ?_⟩ <;> decide +kernel

/-! ### non-vacuity -/

/-! `exactCloseConsts` (Lemmas/PipelineTranslate): the library constants with exact closeness,
`{ libConsts with epsSq := 0 }` -/

/-- the side conditions hold for concrete nets -/
example : Planar ([[0, 1, 2], [0, 2, 0]] : List (List ℚ)) ∧ Planar ([[0, 2], [1, 1]] : List (List ℚ)) :=
  ⟨⟨_, _, rfl, rfl, by decide⟩, ⟨_, _, rfl, rfl, by decide⟩⟩

/-- parabola against a horizontal line (subdivision, linearisation, Newton, `wiggle_interval`): the
    translated pair is answered by the theorem from the untranslated run -/
example : allIntersections (concretePrims true exactCloseConsts) exactCloseConsts.geo
      (translate [3, -1 / 2] [[0, 1, 2], [0, 2, 0]]) (translate [3, -1 / 2] [[0, 2], [1, 1]])
    = .ok ([(1 / 2, 1 / 2)], false) := by
  rw [pipeline_translate_exact_close true exactCloseConsts rfl _ 3 (-1 / 2) [[0, 1, 2], [0, 2, 0]] [[0, 2], [1, 1]]
    ⟨_, _, rfl, rfl, by decide⟩ ⟨_, _, rfl, rfl, by decide⟩]
  decide +kernel

/-- … and by direct computation on the translated nets (compiled variant) -/
example : translate [3, -1 / 2] ([[0, 1, 2], [0, 2, 0]] : List (List ℚ)) = [[3, 4, 5], [-1 / 2, 3 / 2, -1 / 2]] ∧
    allIntersections (concretePrims false exactCloseConsts) exactCloseConsts.geo
      [[3, 4, 5], [-1 / 2, 3 / 2, -1 / 2]] [[3, 5], [1 / 2, 1 / 2]] = .ok ([(1 / 2, 1 / 2)], false) := by
  constructor <;> decide +kernel

/-- the curved-overlap exit (`coincident_parameters`: elevation, `locate_point`, specialisation, `vector_close` on
    flattened arrays) is covered as well: translated pair answered from the untranslated run -/
example : allIntersections (concretePrims true exactCloseConsts) exactCloseConsts.geo
      (translate [-7, 5 / 4] [[0, 1, 2], [0, 2, 0]]) (translate [-7, 5 / 4] [[0, 1 / 2, 1], [0, 1, 1]])
    = .ok ([(0, 0), (1 / 2, 1)], true) := by
  rw [pipeline_translate_exact_close true exactCloseConsts rfl _ (-7) (5 / 4) [[0, 1, 2], [0, 2, 0]]
    [[0, 1 / 2, 1], [0, 1, 1]]
    ⟨_, _, rfl, rfl, by decide⟩ ⟨_, _, rfl, rfl, by decide⟩]
  decide +kernel

end BezierVerif.C17
