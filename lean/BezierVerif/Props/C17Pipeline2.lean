import BezierVerif.Lemmas.PipelineEquivariance
import BezierVerif.Lemmas.PipelineScale
import BezierVerif.Lemmas.PipelineMirror
import BezierVerif.Lemmas.PipelineInst

/-!
# C17 (pipeline level, continued) — scaling, mirror, axis swap of the executable pipeline

Same setting as `Props/C17Pipeline.lean`: the executable model `Model.allIntersections` with the concrete primitives
`concretePrims py C`, exact arithmetic over any linearly ordered field, ANY constants, both variants, planar nets
(`Planar`: two rows of equal length ≥ 2).  The generic engine is `PipelineEquivariance.allIntersections_related`
(two records of primitives / two constant records) resp. `allIntersections_invariant` (one record).

## scaling by `k > 0`  (`pipeline_scale_partial`)

    allIntersections (concretePrims py (scaleConsts k C)) (scaleGeo k G) (scale k n1) (scale k n2)
      = allIntersections (concretePrims py C) G n1 n2

where `scaleGeo k G` multiplies the one ABSOLUTE constant of the pipeline, the squared linearisation threshold
`errValSq = _ERROR_VAL²`, by `k²` and keeps every other constant (`zeroThr`, `ratioSq`, `minWidth`, `maxRounds`,
`maxCandidates`; in `C`: `eps`, `wiggle`, the Newton / locate constants) — `scaleConsts k C` does this inside `C`
(the primitives never read it: `concretePrims_scaleConsts`).  `scale_threshold_matters`: with the threshold NOT
rescaled the first linearisation decision of one and the same curve differs between the two scales (finding F-O,
`scale-dependent:no-convergence`, is this constant), with the rescaled threshold it agrees.
Hypotheses (three primitives are not scale invariant even so, decided witnesses below):
`hpt`, `hflat` — `vector_close` compares with the ABSOLUTE `eps` when one vector is exactly zero
(`vector_close_not_scale_invariant`; invariant when neither is zero: `PipelineScale.vectorCloseSq_scale_of_ne_zero`);
`hdouble` — the double-root Newton system mixes `F ∝ k` with `B₁' × B₂' ∝ k²` (`newton_double_not_scale_invariant`).
`pipeline_scale_exact_close_partial`: with `eps = 0` only `hdouble` is left.

FULL: (`pipeline_scale`) the same equation without `hpt`, `hflat`, `hdouble`: not a theorem of the model as it is
      (each hypothesis is refuted as a statement about the primitive; a refutation at pipeline level is not given).

## mirror `x ↦ -x`, axis swap `(x, y) ↦ (y, x)`  (`pipeline_mirror_partial`, `pipeline_swap_axes_partial`)

    allIntersections (concretePrims py C) G (mirrorX n1) (mirrorX n2) = allIntersections (concretePrims py C) G n1 n2
    allIntersections (concretePrims py C) G (swapAxes n1) (swapAxes n2) = allIntersections (concretePrims py C) G n1 n2

with ONE hypothesis each, `hhull`: the Bool `convex_hull_collide` is the same on the transformed nets.  Every other
primitive is proved invariant, in particular `bbox_line_intersect` in spite of the skipped left edge (exactness on
boxes with interior + edge-by-edge comparison on degenerate boxes: no side condition), `vector_close` (norms are kept),
`full_newton` (`solve2x2` only depends on the solution set: `PipelineLinear.solve2x2_congr`; the pivot rule is
irrelevant in exact arithmetic), the double-root system (literally the same numbers).

FULL: (`pipeline_mirror`, `pipeline_swap_axes`) the same equations without `hhull`.  Blocker: `simple_convex_hull`
      sorts lexicographically, so the reflected point set is listed from another start vertex in the mirrored
      orientation; the separating-axis answer is only known to be SOUND (`C16.sat_safe`, `convex_hull_collide_safe_*`),
      its COMPLETENESS (disjoint convex polygons have a separating edge direction) is not proved in the repository,
      so the Bool has no geometric characterisation yet from which invariance would follow.

## reversal of the first curve (`s ↦ 1 - s`)

Not an instance of the engine, and not a theorem even up to the relabelling `s ↦ 1 - s` and up to the order of the
result: three places of the pipeline are not symmetric under `s ↦ 1 - s` in exact arithmetic
(`reversal_not_equivariant`, decided):
* `add_intersection` measures the distance of two parameter pairs relative to `‖(s, t)‖` (or `‖(1-s, 1-t)‖` below
  `ZERO_THRESHOLD`): the pairs `(15/16, ·)` and `(1/16, ·)` carry different tolerances, so two near-duplicates are
  merged in one presentation and kept apart in the other;
* the stopping rule of `newton_iterate`, `‖δ‖ < 2⁻³⁶ ‖(s, t)‖`, is relative to the same norm: the iteration on the
  reversed problem may stop one step earlier or later, the refined parameters are then not mirror images;
* the candidate list is traversed in another order (the halves of a subdivision are exchanged), and
  `add_intersection` keeps the FIRST of several near-duplicates.
What does hold: the specification-level relabelling (`C17.spec_reverse_first`) and, for the predicates, reversal
invariance of the bounding-box decision (`C17.bbox_reverse`).
-/

set_option linter.unusedSectionVars false
set_option linter.unusedVariables false

namespace BezierVerif.C17

open Model BezierVerif Equivariance PipelineEquivariance PipelineTranslate PipelineLinear PipelineScale PipelineMirror

section Ordered
variable {K : Type} [Field K] [LinearOrder K] [IsStrictOrderedRing K]

/-- **scaling**: the pipeline with the linearisation threshold rescaled (`scaleGeo`) on the scaled nets returns what
    the pipeline returns on the original nets; `vector_close` and the double-root Newton iteration as hypotheses -/
theorem pipeline_scale_partial (py : Bool) (C : PipelineConsts K) (G : GeoConsts K) (k : K) (hk : 0 < k)
    (n1 n2 : List (List K)) (h1 : Planar n1) (h2 : Planar n2)
    (hpt : ∀ p q : List K, Point2 p → Point2 q →
      vectorCloseSq (scalePt k p) (scalePt k q) C.epsSq = vectorCloseSq p q C.epsSq)
    (hflat : ∀ a b : List (List K), Planar a → Planar b → ncols a = ncols b →
      vectorCloseSq (flatten (scale k a)) (flatten (scale k b)) C.epsSq = vectorCloseSq (flatten a) (flatten b) C.epsSq)
    (hdouble : ∀ a b : List (List K), Planar a → Planar b → ∀ fuel s t,
      newtonIterate solverOf (if py then Py.cut else F90.cut) C.rnd C.geo.ratioSq
          (newtonDouble C.vsThr (scale k a) (scale k b)) fuel s t
        = newtonIterate solverOf (if py then Py.cut else F90.cut) C.rnd C.geo.ratioSq
          (newtonDouble C.vsThr a b) fuel s t) :
    allIntersections (concretePrims py (scaleConsts k C)) (scaleGeo k G) (scale k n1) (scale k n2)
      = allIntersections (concretePrims py C) G n1 n2 := by
  rw [concretePrims_scaleConsts, scale_planar k n1 h1, scale_planar k n2 h2]
  refine allIntersections_related (concretePrims_scale_related py C G k hk ?_ ?_ ?_) n1 n2 h1 h2
  · intro p q hp hq
    rw [← scalePt_point2 k p hp, ← scalePt_point2 k q hq]; exact hpt p q hp hq
  · intro a b ha hb hn
    rw [← scale_planar k a ha, ← scale_planar k b hb]; exact hflat a b ha hb hn
  · intro a b ha hb fuel s t
    rw [← scale_planar k a ha, ← scale_planar k b hb]; exact hdouble a b ha hb fuel s t

/-- with `eps = 0` (`vector_close` = equality) only the double-root Newton iteration remains as hypothesis -/
theorem pipeline_scale_exact_close_partial (py : Bool) (C : PipelineConsts K) (hC : C.epsSq = 0) (G : GeoConsts K)
    (k : K) (hk : 0 < k) (n1 n2 : List (List K)) (h1 : Planar n1) (h2 : Planar n2)
    (hdouble : ∀ a b : List (List K), Planar a → Planar b → ∀ fuel s t,
      newtonIterate solverOf (if py then Py.cut else F90.cut) C.rnd C.geo.ratioSq
          (newtonDouble C.vsThr (scale k a) (scale k b)) fuel s t
        = newtonIterate solverOf (if py then Py.cut else F90.cut) C.rnd C.geo.ratioSq
          (newtonDouble C.vsThr a b) fuel s t) :
    allIntersections (concretePrims py (scaleConsts k C)) (scaleGeo k G) (scale k n1) (scale k n2)
      = allIntersections (concretePrims py C) G n1 n2 := by
  refine pipeline_scale_partial py C G k hk n1 n2 h1 h2 ?_ ?_ hdouble
  · intro p q hp hq
    rw [hC, scalePt_point2 k p hp, scalePt_point2 k q hq]
    exact vectorClosePt_diag_zero k k hk.ne' hk.ne' p q hp hq
  · intro a b ha hb hn
    rw [hC, scale_planar k a ha, scale_planar k b hb]
    exact vectorCloseFlat_diag_zero k k hk.ne' hk.ne' a b ha hb hn

/-- the simple-root Newton step IS scale invariant (both equations are multiplied by `k`; `solve2x2` returns the same
    step and the same `singular` flag) -/
theorem newton_simple_step_scale (thr : ℕ) (k : K) (hk : 0 < k) (n1 n2 : List (List K)) (h1 : Planar n1)
    (h2 : Planar n2) (s t : K) :
    stepOf (newtonSimple thr (scale k n1) (scale k n2)) s t = stepOf (newtonSimple thr n1 n2) s t := by
  rw [scale_planar k n1 h1, scale_planar k n2 h2]
  exact newtonSimple_diag thr k k hk.ne' hk.ne' n1 n2 h1 h2 s t

/-- **mirror `x ↦ -x`**: everything but `convex_hull_collide` proved -/
theorem pipeline_mirror_partial (py : Bool) (C : PipelineConsts K) (G : GeoConsts K)
    (n1 n2 : List (List K)) (h1 : Planar n1) (h2 : Planar n2)
    (hhull : ∀ a b : List (List K), Planar a → Planar b →
      (concretePrims py C).hullCollide (mirrorX a) (mirrorX b) = (concretePrims py C).hullCollide a b) :
    allIntersections (concretePrims py C) G (mirrorX n1) (mirrorX n2)
      = allIntersections (concretePrims py C) G n1 n2 := by
  rw [mirrorX_planar n1 h1, mirrorX_planar n2 h2]
  refine allIntersections_invariant (concretePrims_mirror_invariant py C ?_) G n1 n2 h1 h2
  intro a b ha hb
  rw [← mirrorX_planar a ha, ← mirrorX_planar b hb]; exact hhull a b ha hb

/-- **axis swap `(x, y) ↦ (y, x)`**: everything but `convex_hull_collide` proved -/
theorem pipeline_swap_axes_partial (py : Bool) (C : PipelineConsts K) (G : GeoConsts K)
    (n1 n2 : List (List K)) (h1 : Planar n1) (h2 : Planar n2)
    (hhull : ∀ a b : List (List K), Planar a → Planar b →
      (concretePrims py C).hullCollide (swapAxes a) (swapAxes b) = (concretePrims py C).hullCollide a b) :
    allIntersections (concretePrims py C) G (swapAxes n1) (swapAxes n2)
      = allIntersections (concretePrims py C) G n1 n2 := by
  rw [swapAxes_planar n1 h1, swapAxes_planar n2 h2]
  refine allIntersections_invariant (concretePrims_swap_invariant py C ?_) G n1 n2 h1 h2
  intro a b ha hb
  rw [← swapAxes_planar a ha, ← swapAxes_planar b hb]; exact hhull a b ha hb

/-- component level: `bbox_line_intersect` does not see the mirror nor the axis swap although it skips the left edge
    of the box (every box, degenerate or not) -/
theorem bbox_line_mirror_swap (n : List (List K)) (hn : Planar n) (p q : Pt K) :
    Model.bboxLineIntersect (mirrorX n) (-p.1, p.2) (-q.1, q.2) = Model.bboxLineIntersect n p q ∧
    Model.bboxLineIntersect (swapAxes n) (p.2, p.1) (q.2, q.1) = Model.bboxLineIntersect n p q := by
  constructor
  · rw [mirrorX_planar n hn]
    have := bboxLineIntersect_mirror n p q hn
    simpa [dpt] using this
  · rw [swapAxes_planar n hn]
    exact bboxLineIntersect_swap n p q hn

/-- component level: `solve2x2` only depends on the solution set — the pivot rule does not matter in exact
    arithmetic: an equation negated, both equations scaled, the equations exchanged -/
theorem solve2x2_presentations (a b : K) (ha : a ≠ 0) (hb : b ≠ 0) (A B C D E F : K) :
    solve2x2 (a * A) (a * B) (b * C) (b * D) (a * E) (b * F) = solve2x2 A B C D E F ∧
    solve2x2 C D A B F E = solve2x2 A B C D E F :=
  ⟨solve2x2_rowscale a b ha hb A B C D E F, solve2x2_rowswap A B C D E F⟩

end Ordered

/-! ### decided witnesses (library constants, exact rationals) -/

open PipeInst

/-- the absolute linearisation threshold `_ERROR_VAL = 2⁻²⁶`: the flat parabola `(0,0), (1,2⁻²⁶), (2,0)` is accepted as
    a line, the same curve scaled by `4` is not — unless the threshold is scaled with it -/
theorem scale_threshold_matters :
    (fromShape (concretePrims true libConsts) libConsts.geo
      (.curve ⟨[[0, 1, 2], [0, 1 / 2 ^ 26, 0]], 0, 1⟩)).isLin = true ∧
    (fromShape (concretePrims true libConsts) libConsts.geo
      (.curve ⟨scale 4 [[0, 1, 2], [0, 1 / 2 ^ 26, 0]], 0, 1⟩)).isLin = false ∧
    (fromShape (concretePrims true libConsts) (scaleGeo 4 libConsts.geo)
      (.curve ⟨scale 4 [[0, 1, 2], [0, 1 / 2 ^ 26, 0]], 0, 1⟩)).isLin = true := by
  refine ⟨?_, ?_, ?_⟩ <;> decide +kernel

/-- `vector_close` with one vector exactly zero compares with the absolute `eps = 2⁻⁴⁰` -/
theorem vector_close_not_scale_invariant :
    vectorCloseSq ([0, 0] : List ℚ) [1 / 2 ^ 41, 0] libConsts.epsSq = true ∧
    vectorCloseSq (scalePt 4 ([0, 0] : List ℚ)) (scalePt 4 [1 / 2 ^ 41, 0]) libConsts.epsSq = false := by
  decide +kernel

/-- the double-root Newton step is not scale invariant (parabola touching a horizontal line, from `s = t = ¼`) -/
theorem newton_double_not_scale_invariant :
    stepOf (newtonDouble 55 ([[0, 1, 2], [0, 1, 0]] : List (List ℚ)) [[0, 2], [1 / 2, 1 / 2]]) (1 / 4) (1 / 4)
      = some (some (-129 / 520, -129 / 520)) ∧
    stepOf (newtonDouble 55 (scale 2 ([[0, 1, 2], [0, 1, 0]] : List (List ℚ))) (scale 2 [[0, 2], [1 / 2, 1 / 2]]))
      (1 / 4) (1 / 4) = some (some (-513 / 2056, -513 / 2056)) := by
  decide +kernel

/-- **reversal `s ↦ 1 - s` is not an equivariance of the executable pipeline**, already in exact arithmetic:
    (1) `add_intersection`: the candidate `(15/16 + d, ½)`, `d = ⅘·2⁻³⁶`, is merged with the stored `(15/16, ½)`; its
        reversal `(1/16 - d, ½)` is NOT merged with `(1/16, ½)` (the tolerance is relative to `‖(s, t)‖`);
    (2) `full_newton` from `(s₀, t₀) = (17/20, 7/200)` on the parabola `(0,0),(1,2),(2,0)` and the segment
        `(7/4, 3/10) → (11/4, 3/2)`, and from `(1 - s₀, t₀)` on the reversed parabola: both converge, but the refined
        parameters are not related by `s' = 1 - s` (the stopping rule `‖δ‖ < 2⁻³⁶‖(s, t)‖` is relative to a norm
        that is not symmetric under `s ↦ 1 - s`) -/
theorem reversal_not_equivariant :
    addIntersection libConsts.geo (15 / 16 + 4 / 5 / 2 ^ 36) (1 / 2) [(15 / 16, 1 / 2)] = [(15 / 16, 1 / 2)] ∧
    (addIntersection libConsts.geo (1 - (15 / 16 + 4 / 5 / 2 ^ 36)) (1 / 2) [(1 / 16, 1 / 2)]).length = 2 ∧
    (∃ s t s' t', (concretePrims true libConsts).fullNewton (17 / 20) [[0, 1, 2], [0, 2, 0]] (7 / 200)
          [[7 / 4, 11 / 4], [3 / 10, 3 / 2]] = .ok (s, t) ∧
        (concretePrims true libConsts).fullNewton (1 - 17 / 20) (reverseNodes [[0, 1, 2], [0, 2, 0]]) (7 / 200)
          [[7 / 4, 11 / 4], [3 / 10, 3 / 2]] = .ok (s', t') ∧ s' ≠ 1 - s) := by
  refine ⟨by decide +kernel, by decide +kernel, ?_⟩
  have h : ∀ r r' : Except Err (ℚ × ℚ), (match r, r' with
      | .ok (s, _), .ok (s', _) => decide (s' ≠ 1 - s)
      | _, _ => false) = true →
      ∃ s t s' t', r = .ok (s, t) ∧ r' = .ok (s', t') ∧ s' ≠ 1 - s := by
    intro r r' hm
    rcases r with e | ⟨s, t⟩ <;> rcases r' with e' | ⟨s', t'⟩ <;> simp only [Bool.false_eq_true] at hm
    exact ⟨s, t, s', t', rfl, rfl, of_decide_eq_true hm⟩
  exact h _ _ (by decide +kernel)

/-! ### non-vacuity: the conclusions on concrete nets (library constants) -/

/-- scaling by `8` with the rescaled threshold, parabola against a line: same answer -/
example : allIntersections (concretePrims true (scaleConsts 8 libConsts)) (scaleGeo 8 libConsts.geo)
      (scale 8 [[0, 1, 2], [0, 2, 0]]) (scale 8 [[0, 2], [1, 1]])
    = allIntersections (concretePrims true libConsts) libConsts.geo [[0, 1, 2], [0, 2, 0]] [[0, 2], [1, 1]] := by
  decide +kernel

/-- mirror and axis swap, both variants -/
example : allIntersections (concretePrims true libConsts) libConsts.geo
      (mirrorX [[0, 1, 2], [0, 2, 0]]) (mirrorX [[0, 2], [1, 1]])
    = allIntersections (concretePrims true libConsts) libConsts.geo [[0, 1, 2], [0, 2, 0]] [[0, 2], [1, 1]] ∧
    allIntersections (concretePrims false libConsts) libConsts.geo
      (swapAxes [[0, 1, 2], [0, 2, 0]]) (swapAxes [[0, 2], [1, 1]])
    = allIntersections (concretePrims false libConsts) libConsts.geo [[0, 1, 2], [0, 2, 0]] [[0, 2], [1, 1]] := by
  constructor <;> decide +kernel

/-- the side conditions and the hull hypothesis on these nets -/
example : Planar ([[0, 1, 2], [0, 2, 0]] : List (List ℚ)) ∧
    (concretePrims true libConsts).hullCollide (mirrorX [[0, 1, 2], [0, 2, 0]]) (mirrorX [[0, 2], [1, 1]])
      = (concretePrims true libConsts).hullCollide [[0, 1, 2], [0, 2, 0]] [[0, 2], [1, 1]] ∧
    (concretePrims false libConsts).hullCollide (swapAxes [[0, 1, 2], [0, 2, 0]]) (swapAxes [[0, 2], [1, 1]])
      = (concretePrims false libConsts).hullCollide [[0, 1, 2], [0, 2, 0]] [[0, 2], [1, 1]] :=
  ⟨⟨_, _, rfl, rfl, by decide⟩, by decide +kernel, by decide +kernel⟩

/-- `bbox_line_intersect` on a degenerate box (all nodes on the line `x = 1`): the segment through it is found in all
    three presentations; a segment lying ON the line of the box is missed in all three -/
example : Model.bboxLineIntersect ([[1, 1, 1], [0, 1, 3]] : List (List ℚ)) (0, 1) (2, 2) = .ok .intersection ∧
    Model.bboxLineIntersect (mirrorX ([[1, 1, 1], [0, 1, 3]] : List (List ℚ))) (0, 1) (-2, 2) = .ok .intersection ∧
    Model.bboxLineIntersect (swapAxes ([[1, 1, 1], [0, 1, 3]] : List (List ℚ))) (1, 0) (2, 2) = .ok .intersection ∧
    Model.bboxLineIntersect ([[1, 1, 1], [0, 1, 3]] : List (List ℚ)) (1, -1) (1, 4) = .ok .disjoint ∧
    Model.bboxLineIntersect (mirrorX ([[1, 1, 1], [0, 1, 3]] : List (List ℚ))) (-1, -1) (-1, 4) = .ok .disjoint ∧
    Model.bboxLineIntersect (swapAxes ([[1, 1, 1], [0, 1, 3]] : List (List ℚ))) (-1, 1) (4, 1) = .ok .disjoint := by
  decide +kernel

end BezierVerif.C17
