import BezierVerif.Lemmas.Pipeline
import BezierVerif.Props.C04

/-!
# C18 — `self_intersections` (model: `Model/Self.lean`)

* `turning_small_net`: nets with fewer than three columns pass the turning-angle test, no recursion;
* `pairs_structure`: under the unit-square contract on `all_intersections` (`Pipe.AllOK`, provided by
  `C02.params_in_unit_square` through `Pipe.allOK_of_primsOK`) every returned pair satisfies
  `0 ≤ s < t ≤ 1` — strictly, at every level: left pairs are scaled into `[0,½]²`, right pairs into
  `[½,1]²`, cross pairs have `s ∈ [0,½]`, `t ∈ [½,1]` and the junction `(½,½)` is filtered;
  `split_removed`: no returned pair has `s = t`;
* `nontermination_counterexample`: on the net `(0,0),(0,0),(−c,0)`, `c > 0`, the recursion never ends (the
  library recursion has no bound: `RecursionError`); for `c < 0` it stops at once
  (`degenerate_terminates`);
* `halfplane_injective`: strictly increasing x-control values ⇒ the curve is injective on `[0,1]`;
* `anglesBelowPi_spec`: what the `atan2`-free angle test decides.
-/

namespace BezierVerif.C18

open Model BezierVerif Pipe

set_option linter.unusedSectionVars false

variable {K : Type} [Field K] [LinearOrder K] [IsStrictOrderedRing K]

/-! ### small nets -/

/-- fewer than three control points: the discrete turning angle is `0 < π` -/
theorem turning_small (nodes : List (List K)) (h : ncols nodes < 3) : turningBelowPi nodes = true :=
  turningBelowPi_small nodes h

/-- … so `self_intersections` returns the empty list without subdividing -/
theorem turning_small_net (P : Prims K) (G : GeoConsts K) (fuel : ℕ) (nodes : List (List K))
    (h : ncols nodes < 3) : selfIntersections P G (fuel + 1) nodes = .ok [] := by
  rw [selfIntersections_succ, turningBelowPi_small nodes h]; rfl

/-- more generally whenever the turning-angle test passes -/
theorem turning_below_pi_empty (P : Prims K) (G : GeoConsts K) (fuel : ℕ) (nodes : List (List K))
    (h : turningBelowPi nodes = true) : selfIntersections P G (fuel + 1) nodes = .ok [] := by
  rw [selfIntersections_succ, h]; rfl

/-- out of fuel is the model's `recursion` error -/
theorem out_of_fuel (P : Prims K) (G : GeoConsts K) (nodes : List (List K)) :
    selfIntersections P G 0 nodes = .error .recursion := rfl

/-! ### structure of the returned pairs -/

/-- cross pairs of one level: `s ∈ [0,½]`, `t ∈ [½,1]`, `s < t` -/
theorem cross_pairs (lrInts : List (K × K)) (h : ∀ p ∈ lrInts, 0 ≤ p.1 ∧ p.1 ≤ 1 ∧ 0 ≤ p.2 ∧ p.2 ≤ 1) :
    ∀ p ∈ crossPairs lrInts, 0 ≤ p.1 ∧ p.1 ≤ 1 / 2 ∧ 1 / 2 ≤ p.2 ∧ p.2 ≤ 1 ∧ p.1 < p.2 :=
  crossPairs_spec lrInts h

/-- the junction pair `(½, ½)` is never among the cross pairs (no contract needed) -/
theorem cross_pairs_no_junction (lrInts : List (K × K)) :
    ((1 / (1 + 1) : K), (1 / (1 + 1) : K)) ∉ crossPairs lrInts :=
  not_mem_crossPairs_half lrInts

/-- **structure**: every pair returned by `self_intersections` satisfies `0 ≤ s < t ≤ 1` -/
theorem pairs_structure (P : Prims K) (G : GeoConsts K) (hA : AllOK P G) (fuel : ℕ) (nodes : List (List K))
    (pts : List (K × K)) (h : selfIntersections P G fuel nodes = .ok pts) :
    ∀ p ∈ pts, 0 ≤ p.1 ∧ p.1 < p.2 ∧ p.2 ≤ 1 :=
  selfIntersections_strict P G hA fuel nodes pts h

/-- the weak form asked for: `0 ≤ s ≤ t ≤ 1` -/
theorem structure_le (P : Prims K) (G : GeoConsts K) (hA : AllOK P G) (fuel : ℕ) (nodes : List (List K))
    (pts : List (K × K)) (h : selfIntersections P G fuel nodes = .ok pts) :
    ∀ p ∈ pts, 0 ≤ p.1 ∧ p.1 ≤ p.2 ∧ p.2 ≤ 1 := by
  intro p hp
  obtain ⟨h0, h1, h2⟩ := pairs_structure P G hA fuel nodes pts h p hp
  exact ⟨h0, h1.le, h2⟩

/-- with primitives satisfying the contract of C02 -/
theorem structure_of_primsOK (P : Prims K) (hP : PrimsOK P) (G : GeoConsts K) (fuel : ℕ) (nodes : List (List K))
    (pts : List (K × K)) (h : selfIntersections P G fuel nodes = .ok pts) :
    ∀ p ∈ pts, 0 ≤ p.1 ∧ p.1 < p.2 ∧ p.2 ≤ 1 :=
  pairs_structure P G (allOK_of_primsOK P hP G) fuel nodes pts h

/-- **split point removed**: no returned pair lies on the diagonal — the junction `(½,½)` of the top level
    is filtered, and so is the junction of every deeper level (which would be the only way to obtain `s = t`) -/
theorem split_removed (P : Prims K) (G : GeoConsts K) (hA : AllOK P G) (fuel : ℕ) (nodes : List (List K))
    (pts : List (K × K)) (h : selfIntersections P G fuel nodes = .ok pts) :
    ∀ p ∈ pts, p.1 ≠ p.2 := by
  intro p hp
  exact ne_of_lt (pairs_structure P G hA fuel nodes pts h p hp).2.1

theorem split_removed_half (P : Prims K) (G : GeoConsts K) (hA : AllOK P G) (fuel : ℕ) (nodes : List (List K))
    (pts : List (K × K)) (h : selfIntersections P G fuel nodes = .ok pts) :
    ((1 / 2 : K), (1 / 2 : K)) ∉ pts := by
  intro hp
  exact split_removed P G hA fuel nodes pts h _ hp rfl

/-! ### the recursion has no bound -/

/-- left half of the net `[[0,0,−c],[0,0,0]]` -/
theorem subdivide_degenerate_left (c : ℚ) :
    (Py.subdivide [[0, 0, -c], [0, 0, 0]]).1 = [[0, 0, -(c / 4)], [0, 0, 0]] := by
  simp only [Py.subdivide, List.map_cons, List.map_nil, ← C04.subdivide_variants_agree_quadratic]
  simp only [F90.subdivideRow]
  norm_num
  ring

/-- the control polygon `(0,0),(0,0),(−c,0)` with `c > 0` has turning angle exactly `π`
    (the zero edge counts as the direction `(1,0)`) -/
theorem degenerate_turning (c : ℚ) (hc : 0 < c) : turningBelowPi [[0, 0, -c], [0, 0, 0]] = false := by
  have h0 : c ≠ 0 := ne_of_gt hc
  simp [turningBelowPi, ncols, edgeDirs, diffs, turnNumbers, absK, anglesBelowPi, anglesBelowPi.go, h0, hc.le]

/-- **non-termination**: for every primitive record that subdivides as the library does, and every amount of
    fuel, `self_intersections` on `(0,0),(0,0),(−c,0)`, `c > 0`, ends in the `recursion` error -/
theorem nontermination_counterexample (P : Prims ℚ) (hP : P.subdivide = Py.subdivide) (G : GeoConsts ℚ) :
    ∀ (fuel : ℕ) (c : ℚ), 0 < c → selfIntersections P G fuel [[0, 0, -c], [0, 0, 0]] = .error .recursion := by
  intro fuel
  induction fuel with
  | zero => intro c _; rfl
  | succ f ih =>
    intro c hc
    rw [selfIntersections_succ, degenerate_turning c hc, hP, subdivide_degenerate_left,
      ih (c / 4) (by linarith)]
    rfl

/-- for `c < 0` (direction `(1,0)` twice: angle `0`) the test passes and the call returns at once -/
theorem degenerate_terminates (P : Prims ℚ) (G : GeoConsts ℚ) (fuel : ℕ) (c : ℚ) (hc : c < 0) :
    selfIntersections P G (fuel + 1) [[0, 0, -c], [0, 0, 0]] = .ok [] := by
  apply turning_below_pi_empty
  have h0 : c ≠ 0 := ne_of_lt hc
  simp [turningBelowPi, ncols, edgeDirs, diffs, turnNumbers, absK, anglesBelowPi, anglesBelowPi.go, h0, hc]

/-! ### a sufficient condition for injectivity -/

/-- strictly increasing control values ⇒ strictly increasing coordinate function (either evaluator) -/
theorem halfplane_strictMono (thr : ℕ) (xs : List K) (h : 2 ≤ xs.length) (hd : ∀ d ∈ diffs xs, 0 < d)
    (a b : K) (ha0 : 0 ≤ a) (hab : a < b) (hb1 : b ≤ 1) :
    evalBary thr xs (1 - a) a < evalBary thr xs (1 - b) b :=
  evalBary_strictMono thr xs h hd a b ha0 hab hb1

/-- **half-plane criterion**: if the x-control values are strictly increasing (hodograph control points in the
    open half plane `x > 0`) the curve is injective on `[0,1]` — it has no self-intersection -/
theorem halfplane_injective (thr : ℕ) (xs : List K) (rest : List (List K)) (h : 2 ≤ xs.length)
    (hd : ∀ d ∈ diffs xs, 0 < d) (a b : K) (ha0 : 0 ≤ a) (ha1 : a ≤ 1) (hb0 : 0 ≤ b) (hb1 : b ≤ 1)
    (heq : evalPoint thr (xs :: rest) a = evalPoint thr (xs :: rest) b) : a = b := by
  simp only [evalPoint, List.map_cons, List.cons.injEq] at heq
  rcases lt_trichotomy a b with hlt | he | hgt
  · exact absurd heq.1 (ne_of_lt (evalBary_strictMono thr xs h hd a b ha0 hlt hb1))
  · exact he
  · exact absurd heq.1.symm (ne_of_lt (evalBary_strictMono thr xs h hd b a hb0 hgt ha1))

/-! ### the angle test -/

/-- `anglesBelowPi zs` is true exactly when every non-empty partial product `z₁⋯z_k` (complex multiplication
    `Pipe.cmul`, starting from `1`) has positive imaginary part, or zero imaginary part and positive real part -/
theorem anglesBelowPi_spec (zs : List (K × K)) :
    anglesBelowPi zs = true ↔
      ∀ k, 1 ≤ k → k ≤ zs.length →
        0 < ((zs.take k).foldl cmul (1, 0)).2 ∨
          (((zs.take k).foldl cmul (1, 0)).2 = 0 ∧ 0 < ((zs.take k).foldl cmul (1, 0)).1) :=
  anglesBelowPi_iff zs

/-- in particular every partial product lies in the closed upper half plane and is not `0` -/
theorem anglesBelowPi_closed_upper (zs : List (K × K)) (h : anglesBelowPi zs = true) (k : ℕ) (hk : k ≤ zs.length) :
    0 ≤ ((zs.take k).foldl cmul (1, 0)).2 ∧ (zs.take k).foldl cmul (1, 0) ≠ (0, 0) := by
  rcases Nat.eq_zero_or_pos k with rfl | hpos
  · simp
  · rcases (anglesBelowPi_spec zs).mp h k hpos hk with h1 | ⟨h1, h2⟩
    · exact ⟨h1.le, fun he => by rw [he] at h1; exact lt_irrefl _ h1⟩
    · exact ⟨h1.ge, fun he => by rw [he] at h2; exact lt_irrefl _ h2⟩

/-! ### non-vacuity -/

/-- the contract `AllOK` is satisfiable -/
example : AllOK (stubPrims .intersection 1) (stubConsts 20 64) := allOK_of_primsOK _ (stubPrims_ok _ _) _

/-- a line: no recursion -/
example : selfIntersections (stubPrims .intersection 1) (stubConsts 20 64) 1 [[0, 1], [0, 1]] = .ok [] := by
  decide +kernel

/-- a cubic loop whose control polygon turns by more than `π`; the halves pass the test; with boxes reported
    tangent the cross pair `(1, 0)` (junction) is scaled to `(½, ½)` and filtered -/
example : selfIntersections (stubPrims .tangent 1) (stubConsts 20 64) 2 [[0, 2, -1, 1], [0, 2, 2, 0]] = .ok [] := by
  decide +kernel

/-- the degenerate net: fuel 5 is not enough (nor is any other) -/
example : selfIntersections (stubPrims .intersection 1) (stubConsts 20 64) 5 [[0, 0, -1], [0, 0, 0]]
    = .error .recursion := by decide +kernel

example : selfIntersections (stubPrims .intersection 1) (stubConsts 20 64) 5 [[0, 0, -1], [0, 0, 0]]
    = .error .recursion :=
  nontermination_counterexample _ rfl _ 5 1 (by norm_num)

/-- strictly increasing x-values: the hypothesis of `halfplane_injective` holds for a concrete net -/
example : ∀ d ∈ diffs ([0, 1, 3, 4] : List ℚ), 0 < d := by decide +kernel

/-- angle test: a right turn of `π/2` followed by `π/4` is below `π`; two quarter turns are not -/
example : anglesBelowPi ([(0, 1), (1, 1)] : List (ℚ × ℚ)) = true := by decide +kernel
example : anglesBelowPi ([(0, 1), (0, 1)] : List (ℚ × ℚ)) = false := by decide +kernel

end BezierVerif.C18
