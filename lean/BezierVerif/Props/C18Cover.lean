import BezierVerif.Lemmas.SelfCover
import BezierVerif.Lemmas.PipelineInst
import BezierVerif.Props.C18

/-!
# C18 (coverage part) — the pruning test is sound, the recursion covers every self-crossing, conditional
completeness and soundness of `self_intersections` (model: `Model/Self.lean`)

Vocabulary (`Lemmas/SelfCover.lean`): `Net2 nodes` — a genuine `2 × N` array, `N ≥ 2`; `NonConst thr nodes` — the
curve is not constant; `SelfCross thr nodes s₁ s₂` — `0 ≤ s₁ < s₂ ≤ 1` and `B(s₁) = B(s₂)`; `SubdivOK thr P` — the halves of
`P.subdivide` are `2 × N` nets and are `σ ↦ B(σ/2)`, `σ ↦ B((1+σ)/2)` (true for both implementations:
`subdivide_contract`, from C04); `AllComplete` / `AllSound` — completeness / soundness of `all_intersections` (C03), taken
as hypotheses; `Near G q p` — `q = p` or `q` is a stored pair because of which `add_intersection` drops `p`.

* `turning_below_pi_halfplane`, `turning_below_pi_injective`: `discrete_turning_angle(nodes) < π` (the model's
  `turningBelowPi`, absolute exterior angles, zero edges counted as the direction `(1,0)`) ⇒ an explicit direction `d` has
  `d · Δ_j > 0` for every non-zero edge ⇒ the curve is injective on `[0,1]`.  EXACT SIDE CONDITION: at least one edge of the
  control polygon is non-zero (equivalently the curve is not constant) — zero edges among non-zero ones are harmless for
  soundness; for the constant curve the test passes although `B(s₁) = B(s₂)` for all parameters (example below).
  (Finding F-G is the other direction: a zero edge can make the test FAIL on an injective curve, for ever.)
* `pruned_branch_complete`: in the pruned branch `[]` is the complete answer.
* `self_crossing_covered`, `self_crossing_seen_twice`: the case split of the recursion; a crossing with a parameter equal
  to `½` is seen by a half AND by the left/right call (the reason for the merge).
* `merge_covers`: the merge keeps, for every pair of the three blocks, a representative within the drop relation.
* `self_intersections_complete_cond` (+ `_sharp`, `_exact`, `_straddle`): under `AllComplete`, no fuel exhaustion and no
  error, every self-crossing has a returned pair within `2ε` per coordinate, `ε² ≥ 2·NEWTON_ERROR_RATIO²` (the drop relation
  is not transitive: a crossing found `k` levels down passes `k` merges, the `j`-th scaled by `2^{-j}`); exact membership
  when the merge tolerance is `0`; exactly the drop relation for a crossing found at the top level.
* `self_intersections_sound_cond`, `self_intersections_genuine`: under `AllSound` every returned pair is a genuine
  self-crossing `0 ≤ s₁ < s₂ ≤ 1`, `B(s₁) = B(s₂)`.
-/

namespace BezierVerif.C18

open Model BezierVerif Pipe Cover SelfCover

set_option linter.unusedSectionVars false

variable {K : Type} [Field K] [LinearOrder K] [IsStrictOrderedRing K]

/-! ### 1. soundness of the pruning test -/

/-- what the recursion `anglesBelowPi.go` accepts: the directions lie in a cone of opening `< π` — there is a direction
    `d` with `d · e > 0` for all of them (non-empty list of non-zero directions; absolute exterior angles) -/
theorem angles_below_pi_halfplane (e0 : K × K) (es : List (K × K)) (hne : ∀ e ∈ e0 :: es, e ≠ (0, 0))
    (h : anglesBelowPi (turnNumbers (e0 :: es)) = true) :
    ∃ d : K × K, ∀ e ∈ e0 :: es, 0 < d.1 * e.1 + d.2 * e.2 :=
  halfplane_of_turning e0 es hne h

/-- **the separating direction**: if `discrete_turning_angle(nodes) < π` on a `2 × N` net, `N ≥ 2`, some `d` has
    `d · Δ_j > 0` for every non-zero edge `Δ_j = v_{j+1} − v_j` (and `d · Δ_j = 0` for the zero edges, which the code
    replaces by `(1,0)` before testing) -/
theorem turning_below_pi_halfplane (xs ys : List K) (hx : 2 ≤ xs.length) (hy : ys.length = xs.length)
    (h : turningBelowPi [xs, ys] = true) :
    ∃ d : K × K, ∀ p ∈ List.zip (diffs xs) (diffs ys),
      0 ≤ d.1 * p.1 + d.2 * p.2 ∧ (p ≠ (0, 0) → 0 < d.1 * p.1 + d.2 * p.2) :=
  turning_halfplane xs ys hx hy h

/-- the half-plane criterion of `halfplane_injective` in an arbitrary direction and in its closed form: `d · Δ_j ≥ 0`
    for all edges, `> 0` for one ⇒ injective on `[0,1]` -/
theorem direction_injective (thr : ℕ) (xs ys : List K) (hx : 2 ≤ xs.length) (hy : ys.length = xs.length) (d : K × K)
    (hnn : ∀ p ∈ List.zip (diffs xs) (diffs ys), 0 ≤ d.1 * p.1 + d.2 * p.2)
    (hpos : ∃ p ∈ List.zip (diffs xs) (diffs ys), 0 < d.1 * p.1 + d.2 * p.2)
    (s1 s2 : K) (h10 : 0 ≤ s1) (h11 : s1 ≤ 1) (h20 : 0 ≤ s2) (h21 : s2 ≤ 1)
    (heq : evalPoint thr [xs, ys] s1 = evalPoint thr [xs, ys] s2) : s1 = s2 :=
  dir_injective thr xs ys hx hy d hnn hpos s1 s2 h10 h11 h20 h21 heq

/-- **soundness of the pruning test**: a `2 × N` net, `N ≥ 2`, with at least one non-zero edge, for which
    `discrete_turning_angle(nodes) < π`, is injective on `[0,1]` -/
theorem turning_below_pi_injective (thr : ℕ) (xs ys : List K) (hx : 2 ≤ xs.length) (hy : ys.length = xs.length)
    (hne : ∃ p ∈ List.zip (diffs xs) (diffs ys), p ≠ (0, 0)) (h : turningBelowPi [xs, ys] = true)
    (s1 s2 : K) (h10 : 0 ≤ s1) (h11 : s1 ≤ 1) (h20 : 0 ≤ s2) (h21 : s2 ≤ 1)
    (heq : evalPoint thr [xs, ys] s1 = evalPoint thr [xs, ys] s2) : s1 = s2 :=
  turning_injective thr xs ys hx hy hne h s1 s2 h10 h11 h20 h21 heq

/-- a non-constant curve has a non-zero edge (so the side condition above is "the curve is not constant") -/
theorem nonconst_has_edge (thr : ℕ) (xs ys : List K) (hx : 2 ≤ xs.length) (hy : ys.length = xs.length)
    (h : NonConst thr [xs, ys]) : ∃ p ∈ List.zip (diffs xs) (diffs ys), p ≠ (0, 0) :=
  nonconst_edge thr xs ys hx hy h

/-- the same for a net given as an array -/
theorem turning_below_pi_injective_net (thr : ℕ) (nodes : List (List K)) (hN : Net2 nodes) (hNC : NonConst thr nodes)
    (h : turningBelowPi nodes = true) (s1 s2 : K) (h10 : 0 ≤ s1) (h11 : s1 ≤ 1) (h20 : 0 ≤ s2) (h21 : s2 ≤ 1)
    (heq : evalPoint thr nodes s1 = evalPoint thr nodes s2) : s1 = s2 := by
  obtain ⟨xs, ys, rfl, hx, hy⟩ := hN
  exact turning_injective thr xs ys hx hy (nonconst_edge thr xs ys hx hy hNC) h s1 s2 h10 h11 h20 h21 heq

/-! ### 2. the pruned branch -/

/-- **pruned branch**: when the test passes the model returns `[]`, and `[]` is the complete set of self-crossings -/
theorem pruned_branch_complete (thr : ℕ) (P : Prims K) (G : GeoConsts K) (fuel : ℕ) (nodes : List (List K))
    (hN : Net2 nodes) (hNC : NonConst thr nodes) (h : turningBelowPi nodes = true) :
    selfIntersections P G (fuel + 1) nodes = .ok [] ∧ ∀ s1 s2, ¬ SelfCross thr nodes s1 s2 := by
  refine ⟨turning_below_pi_empty P G fuel nodes h, ?_⟩
  rintro s1 s2 ⟨h0, hlt, h1, heq⟩
  have := turning_below_pi_injective_net thr nodes hN hNC h s1 s2 h0 (by linarith) (by linarith) h1 heq
  rw [this] at hlt; exact lt_irrefl _ hlt

/-! ### 3. the case split of the recursion -/

/-- either implementation of `subdivide_nodes` satisfies the contract `SubdivOK` (C04) -/
theorem subdivide_contract (py : Bool) (C : PipelineConsts K) (thr : ℕ) : SubdivOK thr (concretePrims py C) :=
  subdivOK_concrete py C thr

/-- **coverage structure**: a self-crossing `0 ≤ s₁ < s₂ ≤ 1` of the curve is
    * a self-crossing `(2s₁, 2s₂)` of the left half when `s₂ ≤ ½`,
    * a self-crossing `(2s₁ − 1, 2s₂ − 1)` of the right half when `½ ≤ s₁`,
    * a common point `(2s₁, 2s₂ − 1)` of the left and the right half, different from their junction `(1, 0)`, when
      `s₁ ≤ ½ ≤ s₂`;
    one of `s₂ ≤ ½`, `½ ≤ s₁`, `s₁ < ½ < s₂` holds; the first two exclude each other; the first (second) overlaps with
    the third exactly when `s₂ = ½` (`s₁ = ½`) -/
theorem self_crossing_covered (thr : ℕ) (P : Prims K) (hS : SubdivOK thr P) (nodes : List (List K)) (hN : Net2 nodes)
    (s1 s2 : K) (h : SelfCross thr nodes s1 s2) :
    (s2 ≤ 1 / 2 → SelfCross thr (P.subdivide nodes).1 (2 * s1) (2 * s2)) ∧
    (1 / 2 ≤ s1 → SelfCross thr (P.subdivide nodes).2 (2 * s1 - 1) (2 * s2 - 1)) ∧
    (s1 ≤ 1 / 2 → 1 / 2 ≤ s2 →
      TrueInt thr (P.subdivide nodes).1 (P.subdivide nodes).2 (2 * s1) (2 * s2 - 1) ∧
        ¬ (2 * s1 = 1 ∧ 2 * s2 - 1 = 0)) ∧
    (s2 ≤ 1 / 2 ∨ 1 / 2 ≤ s1 ∨ (s1 < 1 / 2 ∧ 1 / 2 < s2)) ∧ ¬ (s2 ≤ 1 / 2 ∧ 1 / 2 ≤ s1) := by
  obtain ⟨cL, cR, cX⟩ := selfCross_split thr P hS nodes hN s1 s2 h
  obtain ⟨_, hlt, _, _⟩ := h
  refine ⟨cL, cR, cX, ?_, ?_⟩
  · rcases le_total s2 (1 / 2) with h2 | h2
    · exact Or.inl h2
    · rcases le_total (1 / 2) s1 with h3 | h3
      · exact Or.inr (Or.inl h3)
      · rcases eq_or_lt_of_le h2 with e | e
        · exact Or.inl e.symm.le
        · rcases eq_or_lt_of_le h3 with e' | e'
          · exact Or.inr (Or.inl e'.symm.le)
          · exact Or.inr (Or.inr ⟨e', e⟩)
  · rintro ⟨a, b⟩; linarith

/-- **seen twice**: a self-crossing with `s₂ = ½` is a self-crossing `(2s₁, 1)` of the left half AND the common point
    `(2s₁, 0)` of the two halves; one with `s₁ = ½` is a self-crossing `(0, 2s₂ − 1)` of the right half AND the common
    point `(1, 2s₂ − 1)` — both lists report it, the merge removes the copy -/
theorem self_crossing_seen_twice (thr : ℕ) (P : Prims K) (hS : SubdivOK thr P) (nodes : List (List K)) (hN : Net2 nodes)
    (s1 s2 : K) (h : SelfCross thr nodes s1 s2) :
    (s2 = 1 / 2 → SelfCross thr (P.subdivide nodes).1 (2 * s1) 1 ∧
        TrueInt thr (P.subdivide nodes).1 (P.subdivide nodes).2 (2 * s1) 0) ∧
    (s1 = 1 / 2 → SelfCross thr (P.subdivide nodes).2 0 (2 * s2 - 1) ∧
        TrueInt thr (P.subdivide nodes).1 (P.subdivide nodes).2 1 (2 * s2 - 1)) := by
  obtain ⟨cL, cR, cX⟩ := selfCross_split thr P hS nodes hN s1 s2 h
  obtain ⟨_, hlt, _, _⟩ := h
  constructor
  · intro e
    have a := cL e.le
    have b := (cX (by linarith) e.ge).1
    have e1 : 2 * s2 = 1 := by rw [e]; norm_num
    have e2 : 2 * s2 - 1 = 0 := by rw [e]; norm_num
    rw [e1] at a; rw [e2] at b
    exact ⟨a, b⟩
  · intro e
    have a := cR e.ge
    have b := (cX e.le (by linarith)).1
    have e1 : 2 * s1 = 1 := by rw [e]; norm_num
    have e2 : 2 * s1 - 1 = 0 := by rw [e]; norm_num
    rw [e2] at a; rw [e1] at b
    exact ⟨a, b⟩

/-! ### 4. conditional completeness -/

/-- **the merge keeps a representative**: every pair of the blocks is in the merged list, or was dropped by
    `add_intersection` because of a pair of the merged list -/
theorem merge_covers (G : GeoConsts K) (blocks : List (K × K)) (p : K × K) (hp : p ∈ blocks) :
    ∃ q ∈ mergePairs G blocks [], q = p ∨
      (p.1 - q.1) * (p.1 - q.1) + (p.2 - q.2) * (p.2 - q.2) < G.ratioSq * normSq G p.1 p.2 :=
  mergePairs_covers G blocks [] p (Or.inr hp)

/-- **conditional completeness** (sharp tolerance `2ε(1 − 2^{-fuel})`): assume `all_intersections` complete (`AllComplete`,
    C03) and inside the unit square (`AllOK`, C02), the subdivision contract, a non-constant `2 × N` input, and that the call
    returns (no fuel exhaustion, no error); then every self-crossing has a returned pair within the accumulated merge
    tolerance, `ε² ≥ 2·NEWTON_ERROR_RATIO²` -/
theorem self_intersections_complete_cond_sharp (thr : ℕ) (P : Prims K) (G : GeoConsts K) (hS : SubdivOK thr P)
    (hA : AllOK P G) (hC : AllComplete thr P G) (hr : 0 ≤ G.ratioSq) (ε : K) (hε0 : 0 ≤ ε)
    (hε : 2 * G.ratioSq ≤ ε * ε) (fuel : ℕ) (nodes : List (List K)) (pts : List (K × K)) (hN : Net2 nodes)
    (hNC : NonConst thr nodes) (h : selfIntersections P G fuel nodes = .ok pts) (s1 s2 : K)
    (hX : SelfCross thr nodes s1 s2) :
    ∃ q ∈ pts, |q.1 - s1| ≤ 2 * ε * (1 - (1 / 2) ^ fuel) ∧ |q.2 - s2| ≤ 2 * ε * (1 - (1 / 2) ^ fuel) :=
  selfIntersections_complete thr P G hS hA hC hr ε hε0 hε fuel nodes pts hN hNC h s1 s2 hX

/-- **conditional completeness**: … within `2ε` per coordinate, whatever the depth -/
theorem self_intersections_complete_cond (thr : ℕ) (P : Prims K) (G : GeoConsts K) (hS : SubdivOK thr P)
    (hA : AllOK P G) (hC : AllComplete thr P G) (hr : 0 ≤ G.ratioSq) (ε : K) (hε0 : 0 ≤ ε)
    (hε : 2 * G.ratioSq ≤ ε * ε) (fuel : ℕ) (nodes : List (List K)) (pts : List (K × K)) (hN : Net2 nodes)
    (hNC : NonConst thr nodes) (h : selfIntersections P G fuel nodes = .ok pts) (s1 s2 : K)
    (hX : SelfCross thr nodes s1 s2) :
    ∃ q ∈ pts, |q.1 - s1| ≤ 2 * ε ∧ |q.2 - s2| ≤ 2 * ε := by
  obtain ⟨q, hq, h1, h2⟩ := selfIntersections_complete thr P G hS hA hC hr ε hε0 hε fuel nodes pts hN hNC h s1 s2 hX
  exact ⟨q, hq, le_trans h1 (mergeBound_le ε hε0 fuel), le_trans h2 (mergeBound_le ε hε0 fuel)⟩

/-- with an exact merge (`NEWTON_ERROR_RATIO = 0`: only identical pairs are merged) every self-crossing is returned -/
theorem self_intersections_complete_exact (thr : ℕ) (P : Prims K) (G : GeoConsts K) (hS : SubdivOK thr P)
    (hA : AllOK P G) (hC : AllComplete thr P G) (hr : G.ratioSq = 0) (fuel : ℕ) (nodes : List (List K))
    (pts : List (K × K)) (hN : Net2 nodes) (hNC : NonConst thr nodes)
    (h : selfIntersections P G fuel nodes = .ok pts) (s1 s2 : K) (hX : SelfCross thr nodes s1 s2) :
    (s1, s2) ∈ pts := by
  obtain ⟨q, hq, h1, h2⟩ := selfIntersections_complete thr P G hS hA hC hr.ge 0 le_rfl (by rw [hr]; simp)
    fuel nodes pts hN hNC h s1 s2 hX
  rw [mergeBound_zero] at h1 h2
  have e1 : q.1 = s1 := sub_eq_zero.mp (abs_eq_zero.mp (le_antisymm h1 (abs_nonneg _)))
  have e2 : q.2 = s2 := sub_eq_zero.mp (abs_eq_zero.mp (le_antisymm h2 (abs_nonneg _)))
  have : q = (s1, s2) := Prod.ext e1 e2
  rw [← this]; exact hq

/-- a crossing that straddles the split point (`s₁ < ½ < s₂`, more generally `s₁ ≤ ½ ≤ s₂`) is found at the top level:
    the result contains it up to exactly the drop relation of `add_intersection` (no hypothesis on the recursive calls
    beyond their success) -/
theorem self_intersections_complete_straddle (thr : ℕ) (P : Prims K) (G : GeoConsts K) (hS : SubdivOK thr P)
    (hC : AllComplete thr P G) (fuel : ℕ) (nodes : List (List K)) (pts : List (K × K)) (hN : Net2 nodes)
    (h : selfIntersections P G fuel nodes = .ok pts) (s1 s2 : K) (hX : SelfCross thr nodes s1 s2)
    (ha : s1 ≤ 1 / 2) (hb : 1 / 2 ≤ s2) (htest : turningBelowPi nodes = false) :
    ∃ q ∈ pts, Near G q (s1, s2) := by
  cases fuel with
  | zero => rw [selfIntersections_zero] at h; cases h
  | succ f =>
    rw [selfIntersections_succ, htest] at h
    simp only [Bool.false_eq_true, if_false] at h
    split at h
    · cases h
    · cases h
    · rename_i leftSelf rightSelf hl hrr
      split at h
      · cases h
      · rename_i lrInts flag hall
        obtain ⟨hNl, hNr, _, _⟩ := hS nodes hN
        obtain ⟨hT, _⟩ := (selfCross_split thr P hS nodes hN s1 s2 hX).2.2 ha hb
        have hmem := hC _ _ _ _ hNl hNr hall _ _ hT
        have hin : (s1, s2) ∈ crossPairs lrInts := by
          unfold crossPairs
          rw [List.mem_filter, List.mem_map]
          refine ⟨⟨(2 * s1, 2 * s2 - 1), hmem, ?_⟩, ?_⟩
          · simp only [half_eq]
            exact Prod.ext (by simp) (by simp; ring)
          · simp only [half_eq, Bool.not_eq_true', decide_eq_false_iff_not, not_and]
            intro e1 e2
            have := hX.2.1
            rw [e1, e2] at this; exact lt_irrefl _ this
        cases h
        exact mergePairs_covers G _ [] (s1, s2)
          (Or.inr (by simp only [List.mem_append]; exact Or.inl (Or.inr hin)))

/-! ### 5. conditional soundness -/

/-- **conditional soundness**: if `all_intersections` only returns common points (`AllSound`, C03), every pair returned by
    `self_intersections` is a double point `B(s₁) = B(s₂)` of the input curve (rescaling through the subdivision theorems) -/
theorem self_intersections_sound_cond (thr : ℕ) (P : Prims K) (G : GeoConsts K) (hS : SubdivOK thr P)
    (hSd : AllSound thr P G) (fuel : ℕ) (nodes : List (List K)) (pts : List (K × K)) (hN : Net2 nodes)
    (h : selfIntersections P G fuel nodes = .ok pts) :
    ∀ p ∈ pts, evalPoint thr nodes p.1 = evalPoint thr nodes p.2 :=
  selfIntersections_sound thr P G hS hSd fuel nodes pts hN h

/-- **genuine**: with `pairs_structure`, every returned pair is a self-crossing `0 ≤ s₁ < s₂ ≤ 1`, `B(s₁) = B(s₂)` -/
theorem self_intersections_genuine (thr : ℕ) (P : Prims K) (G : GeoConsts K) (hS : SubdivOK thr P) (hA : AllOK P G)
    (hSd : AllSound thr P G) (fuel : ℕ) (nodes : List (List K)) (pts : List (K × K)) (hN : Net2 nodes)
    (h : selfIntersections P G fuel nodes = .ok pts) :
    ∀ p ∈ pts, SelfCross thr nodes p.1 p.2 := by
  intro p hp
  obtain ⟨h0, h1, h2⟩ := pairs_structure P G hA fuel nodes pts h p hp
  exact ⟨h0, h1, h2, selfIntersections_sound thr P G hS hSd fuel nodes pts hN h p hp⟩

/-! ### 6. non-vacuity -/

/-- the symmetric cubic loop `(−9,0), (13,4), (−13,4), (9,0)`: it crosses itself at `s = ¼, ¾` … -/
example : SelfCross 55 ([[-9, 13, -13, 9], [0, 4, 4, 0]] : List (List ℚ)) (1 / 4) (3 / 4) := by
  unfold SelfCross; decide +kernel

/-- … the turning-angle test fails on it, and the recursion (library primitives, either variant, library constants,
    exact arithmetic) finds the crossing: found by the left/right call of the top level as `(½, ½)`, rescaled -/
example : turningBelowPi ([[-9, 13, -13, 9], [0, 4, 4, 0]] : List (List ℚ)) = false := by decide +kernel

example : selfIntersections (concretePrims true exConsts) exConsts.geo 2 [[-9, 13, -13, 9], [0, 4, 4, 0]]
    = .ok [(1 / 4, 3 / 4)] := by decide +kernel

example : selfIntersections (concretePrims false exConsts) exConsts.geo 2 [[-9, 13, -13, 9], [0, 4, 4, 0]]
    = .ok [(1 / 4, 3 / 4)] := by decide +kernel

/-- `all_intersections` of the two halves returns the crossing and the junction `(1, 0)`, which is then filtered -/
example : allIntersections (concretePrims true exConsts) exConsts.geo
      (Py.subdivide [[-9, 13, -13, 9], [0, 4, 4, 0]]).1 (Py.subdivide [[-9, 13, -13, 9], [0, 4, 4, 0]]).2
    = .ok ([(1 / 2, 1 / 2), (1, 0)], false) := by decide +kernel

/-- the loop is a `2 × 4` net and is not constant; the hypotheses on the primitives hold for the library's -/
example : Net2 ([[-9, 13, -13, 9], [0, 4, 4, 0]] : List (List ℚ)) := ⟨_, _, rfl, by decide, by decide⟩

example : NonConst 55 ([[-9, 13, -13, 9], [0, 4, 4, 0]] : List (List ℚ)) := ⟨0, 1, by decide +kernel⟩

example : SubdivOK 55 (concretePrims true exConsts) ∧ SubdivOK 55 (concretePrims false exConsts) :=
  ⟨subdivide_contract true exConsts 55, subdivide_contract false exConsts 55⟩

example : AllOK (concretePrims true exConsts) exConsts.geo :=
  allOK_of_primsOK _ (PipeInst.concrete_primsOK true exConsts (by norm_num [exConsts])) _

/-- the tolerance of the completeness theorem for the library's `NEWTON_ERROR_RATIO = 2⁻³⁶`: `ε = 2⁻³⁵` -/
example : (0 : ℚ) ≤ exConsts.geo.ratioSq ∧ 2 * exConsts.geo.ratioSq ≤ (1 / 2 ^ 35) * (1 / 2 ^ 35) := by
  constructor <;> norm_num [exConsts, stubConsts]

/-- an instance of the coverage case split: the crossing `(¼, ¾)` straddles the split point, so it is the common point
    `(½, ½)` of the two halves, not the junction -/
example : TrueInt 55 (Py.subdivide ([[-9, 13, -13, 9], [0, 4, 4, 0]] : List (List ℚ))).1
    (Py.subdivide ([[-9, 13, -13, 9], [0, 4, 4, 0]] : List (List ℚ))).2 (2 * (1 / 4)) (2 * (3 / 4) - 1) :=
  ((self_crossing_covered 55 (concretePrims true exConsts) (subdivide_contract true exConsts 55) _
    ⟨_, _, rfl, by decide, by decide⟩ (1 / 4) (3 / 4) (by unfold SelfCross; decide +kernel)).2.2.1
      (by norm_num) (by norm_num)).1

example : TrueInt 55 (Py.subdivide ([[-9, 13, -13, 9], [0, 4, 4, 0]] : List (List ℚ))).1
    (Py.subdivide ([[-9, 13, -13, 9], [0, 4, 4, 0]] : List (List ℚ))).2 (1 / 2) (1 / 2) := by
  unfold TrueInt; decide +kernel

/-- a crossing with a parameter ON the split point: the loop re-parametrised to `[−¼, 7/4]` crosses itself at `(¼, ½)`;
    the left half reports it as its own `(½, 1)`, the left/right call as `(½, 0)` (next to the junction `(1, 0)`), and the
    merge returns it once -/
example : SelfCross 55 ([[-36, 68, -116, 180], [-15, 33, 17, -63]] : List (List ℚ)) (1 / 4) (1 / 2) := by
  unfold SelfCross; decide +kernel

example : selfIntersections (concretePrims true exConsts) exConsts.geo 3
      (Py.subdivide [[-36, 68, -116, 180], [-15, 33, 17, -63]]).1 = .ok [(1 / 2, 1)] := by decide +kernel

example : allIntersections (concretePrims true exConsts) exConsts.geo
      (Py.subdivide [[-36, 68, -116, 180], [-15, 33, 17, -63]]).1 (Py.subdivide [[-36, 68, -116, 180], [-15, 33, 17, -63]]).2
    = .ok ([(1 / 2, 0), (1, 0)], false) := by decide +kernel

example : selfIntersections (concretePrims true exConsts) exConsts.geo 4 [[-36, 68, -116, 180], [-15, 33, 17, -63]]
    = .ok [(1 / 4, 1 / 2)] := by decide +kernel

example : selfIntersections (concretePrims false exConsts) exConsts.geo 4 [[-36, 68, -116, 180], [-15, 33, 17, -63]]
    = .ok [(1 / 4, 1 / 2)] := by decide +kernel

/-- the instance of `self_crossing_seen_twice` behind these three calls -/
example : SelfCross 55 (Py.subdivide ([[-36, 68, -116, 180], [-15, 33, 17, -63]] : List (List ℚ))).1 (2 * (1 / 4)) 1 ∧
    TrueInt 55 (Py.subdivide ([[-36, 68, -116, 180], [-15, 33, 17, -63]] : List (List ℚ))).1
      (Py.subdivide ([[-36, 68, -116, 180], [-15, 33, 17, -63]] : List (List ℚ))).2 (2 * (1 / 4)) 0 :=
  (self_crossing_seen_twice 55 (concretePrims true exConsts) (subdivide_contract true exConsts 55) _
    ⟨_, _, rfl, by decide, by decide⟩ (1 / 4) (1 / 2) (by unfold SelfCross; decide +kernel)).1 rfl

/-- a convex arc: the test passes, nothing is subdivided, and by `pruned_branch_complete` nothing is missed -/
example : turningBelowPi ([[0, 1, 2, 3], [0, 2, 3, 3]] : List (List ℚ)) = true := by decide +kernel

example : selfIntersections (concretePrims true exConsts) exConsts.geo 1 [[0, 1, 2, 3], [0, 2, 3, 3]] = .ok [] ∧
    ∀ s1 s2 : ℚ, ¬ SelfCross 55 [[0, 1, 2, 3], [0, 2, 3, 3]] s1 s2 :=
  pruned_branch_complete 55 _ _ 0 _ ⟨_, _, rfl, by decide, by decide⟩ ⟨0, 1, by decide +kernel⟩ (by decide +kernel)

/-- a separating direction for the convex arc: `d = (1, 1)` -/
example : ∀ p ∈ List.zip (diffs ([0, 1, 2, 3] : List ℚ)) (diffs ([0, 2, 3, 3] : List ℚ)), 0 < 1 * p.1 + 1 * p.2 := by
  decide +kernel

/-- a zero edge among non-zero ones is harmless for soundness: `(0,0),(0,0),(1,0)` passes the test and is injective -/
example : turningBelowPi ([[0, 0, 1], [0, 0, 0]] : List (List ℚ)) = true ∧
    ∃ p ∈ List.zip (diffs ([0, 0, 1] : List ℚ)) (diffs ([0, 0, 0] : List ℚ)), p ≠ (0, 0) := by decide +kernel

/-- the side condition cannot be dropped: the constant curve passes the test and `B(0) = B(1)` -/
example : turningBelowPi ([[1, 1, 1], [2, 2, 2]] : List (List ℚ)) = true ∧
    evalPoint 55 ([[1, 1, 1], [2, 2, 2]] : List (List ℚ)) 0 = evalPoint 55 [[1, 1, 1], [2, 2, 2]] 1 := by decide +kernel

/-- the merge keeps a representative: the copy of `(3/8, 15/32)` is dropped because of the first one -/
example : ∃ q ∈ mergePairs (stubConsts 20 64) [((3 : ℚ) / 8, 15 / 32), (3 / 8, 15 / 32), (3 / 16, 7 / 8)] [],
    q = ((3 : ℚ) / 8, 15 / 32) ∨ Drops (stubConsts 20 64) q ((3 : ℚ) / 8, 15 / 32) :=
  merge_covers (stubConsts 20 64) _ ((3 : ℚ) / 8, 15 / 32) (by simp)

end BezierVerif.C18
