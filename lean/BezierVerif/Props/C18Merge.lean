import BezierVerif.Lemmas.Pipeline
import Mathlib.Tactic.Linarith
import Mathlib.Tactic.Positivity
import Mathlib.Tactic.NormNum

/-!
# Props/C18Merge — "returned exactly once": the merge step of `self_intersections`

After the repair of `self_intersections` (the lists of the two halves and of the left/right call are
merged with `add_intersection`) no pair is returned twice.  Before the repair the three lists were
concatenated, and a crossing with a parameter on a split point of the recursion was reported by a
half and by the left/right call (witness in `known_findings.txt`, `fixed:` line of C18).
-/

namespace BezierVerif.C18

open Model BezierVerif Pipe

variable {K : Type} [Field K] [LinearOrder K] [IsStrictOrderedRing K]

/-- the reference norm of `add_intersection` is positive when `0 < ZERO_THRESHOLD < 1` -/
theorem normSq_pos (G : GeoConsts K) (h0 : 0 < G.zeroThr) (h1 : G.zeroThr < 1) (s t : K) : 0 < normSq G s t := by
  unfold normSq
  have hs : (if s < G.zeroThr then 1 - s else s) ≠ 0 := by
    split_ifs with h
    · intro h'; linarith
    · intro h'; push_neg at h; linarith
  have := mul_self_pos.mpr hs
  have := mul_self_nonneg (if t < G.zeroThr then 1 - t else t)
  linarith

/-- `add_intersection` never stores a pair that is already there -/
theorem addIntersection_nodup (G : GeoConsts K) (h0 : 0 < G.zeroThr) (h1 : G.zeroThr < 1) (hr : 0 < G.ratioSq)
    (s t : K) (acc : List (K × K)) (hacc : acc.Nodup) : (addIntersection G s t acc).Nodup := by
  rcases addIntersection_cases G s t acc with ⟨h, hfar⟩ | ⟨h, _⟩
  · rw [h]
    refine List.Nodup.append hacc (List.nodup_singleton _) ?_
    intro p hp hq
    rw [List.mem_singleton] at hq
    subst hq
    apply hfar _ hp
    have := mul_pos hr (normSq_pos G h0 h1 s t)
    simpa using this
  · rw [h]; exact hacc

/-- the merge of any blocks has no repeated pair -/
theorem mergePairs_nodup (G : GeoConsts K) (h0 : 0 < G.zeroThr) (h1 : G.zeroThr < 1) (hr : 0 < G.ratioSq) :
    ∀ (blocks acc : List (K × K)), acc.Nodup → (mergePairs G blocks acc).Nodup := by
  intro blocks
  induction blocks with
  | nil => intro acc h; exact h
  | cons b rest ih => intro acc h; exact ih _ (addIntersection_nodup G h0 h1 hr b.1 b.2 acc h)

/-- **exactly once, the merge step**: whatever the recursive calls and `all_intersections` returned, no pair
occurs twice in the result of `self_intersections` (any primitives, any fuel) -/
theorem self_intersections_nodup (P : Prims K) (G : GeoConsts K) (h0 : 0 < G.zeroThr) (h1 : G.zeroThr < 1)
    (hr : 0 < G.ratioSq) (fuel : ℕ) (nodes : List (List K)) (pts : List (K × K))
    (h : selfIntersections P G fuel nodes = .ok pts) : pts.Nodup := by
  cases fuel with
  | zero => rw [selfIntersections_zero] at h; cases h
  | succ f =>
    rw [selfIntersections_succ] at h
    split_ifs at h
    · cases h; exact List.nodup_nil
    · split at h
      · cases h
      · cases h
      · split at h
        · cases h
        · cases h
          exact mergePairs_nodup G h0 h1 hr _ _ List.nodup_nil

/-- a pair closer to an already merged one than the tolerance is dropped, a pair further than the tolerance from all
of them is kept (the two directions of the duplicate test, for one merge step) -/
theorem merge_step_cases (G : GeoConsts K) (s t : K) (acc : List (K × K)) :
    (addIntersection G s t acc = acc ++ [(s, t)] ∧
        ∀ p ∈ acc, ¬ ((s - p.1) * (s - p.1) + (t - p.2) * (t - p.2) < G.ratioSq * normSq G s t)) ∨
    (addIntersection G s t acc = acc ∧
        ∃ p ∈ acc, (s - p.1) * (s - p.1) + (t - p.2) * (t - p.2) < G.ratioSq * normSq G s t) :=
  addIntersection_cases G s t acc

/-- non-vacuity: the library's constants satisfy the hypotheses, and merging the witness of the repaired defect
(the pair `(3/8, 15/32)` reported by a half and by the left/right call) keeps one copy -/
example : mergePairs (stubConsts 20 64) [((3 : ℚ) / 8, 15 / 32), (3 / 8, 15 / 32), (3 / 16, 7 / 8)] []
    = [(3 / 8, 15 / 32), (3 / 16, 7 / 8)] := by decide +kernel

example : (0 : ℚ) < (stubConsts 20 64).zeroThr ∧ (stubConsts 20 64).zeroThr < 1 ∧ 0 < (stubConsts 20 64).ratioSq := by
  refine ⟨?_, ?_, ?_⟩ <;> norm_num [stubConsts]

end BezierVerif.C18
