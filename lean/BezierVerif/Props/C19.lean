import BezierVerif.Lemmas.Algebraic
import BezierVerif.Lemmas.AlgebraicIntegral
import BezierVerif.Lemmas.Elevate

/-!
# C19 — implicitization and Bernstein-basis root finding are correct

Property theorems only.  All statements are about the executable model `Model.Alg.*`
(`Model/Algebraic.lean`, the transcription of `hazmat/algebraic_intersection.py`).
`bern n a b v = Σ_{j≤n} C(n,j) a^(n-j) b^j v_j` (Lemmas/Shift); `polyval p x = Σ p_k x^k` (Horner);
`det` is the model's Laplace expansion (= `Matrix.det`, `determinant_is_matrix_det`).
-/

set_option linter.unusedSectionVars false

namespace BezierVerif.C19

open Finset Model Model.Alg BezierVerif BezierVerif.AlgLemmas

section Field
variable {K : Type} [Field K]

/-! ### the implicit function vanishes at every point of its curve (degree 1, 2, 3) -/

/-- the determinant used for execution is the determinant, every size -/
theorem determinant_is_matrix_det (n : ℕ) (m : List (List K)) : det n m = (toMatrix n m).det :=
  det_eq_matrix_det n m

theorem implicit_vanishes_1 (x0 x1 y0 y1 s : K) :
    evaluate [[x0, x1], [y0, y1]]
      (bern 1 (1 - s) s (seq [x0, x1])) (bern 1 (1 - s) s (seq [y0, y1])) = .ok 0 := by
  show Except.ok (evaluate1 x0 x1 y0 y1 _ _) = _
  rw [evaluate1_vanishes]

theorem implicit_vanishes_2 (x0 x1 x2 y0 y1 y2 s : K) :
    evaluate [[x0, x1, x2], [y0, y1, y2]]
      (bern 2 (1 - s) s (seq [x0, x1, x2])) (bern 2 (1 - s) s (seq [y0, y1, y2])) = .ok 0 := by
  show Except.ok (evaluate2 x0 x1 x2 y0 y1 y2 _ _) = _
  rw [evaluate2_vanishes]

/-- degree 3: the 6×6 modified Sylvester matrix built by `_evaluate3` has the non-zero kernel
    vector `((1-s)^5, (1-s)^4 s, …, s^5)`, so its determinant vanishes — every net, every `s`,
    every field -/
theorem implicit_vanishes_3 (x0 x1 x2 x3 y0 y1 y2 y3 s : K) :
    evaluate [[x0, x1, x2, x3], [y0, y1, y2, y3]]
      (bern 3 (1 - s) s (seq [x0, x1, x2, x3])) (bern 3 (1 - s) s (seq [y0, y1, y2, y3])) = .ok 0 := by
  show Except.ok (evaluate3 [x0, x1, x2, x3] [y0, y1, y2, y3] _ _) = _
  rw [evaluate3_vanishes]

/-- … stated through the model's own evaluation routine on either side of its algorithm
    switch: the implicit function of `nodes` vanishes at `evalPoint nodes s` -/
theorem implicit_vanishes_on_evalPoint [CharZero K] (thr : ℕ) (xs ys : List K)
    (hx : xs.length = ys.length) (h2 : 2 ≤ xs.length) (h4 : xs.length ≤ 4) (s : K) :
    evaluate [xs, ys] (seq (evalPoint thr [xs, ys] s) 0) (seq (evalPoint thr [xs, ys] s) 1) = .ok 0 := by
  have e0 : seq (evalPoint thr [xs, ys] s) 0 = bern (xs.length - 1) (1 - s) s (seq xs) := by
    simp only [evalPoint, List.map_cons, seq_cons_zero]
    exact evalBary_eq_bern thr xs h2 _ _
  have e1 : seq (evalPoint thr [xs, ys] s) 1 = bern (ys.length - 1) (1 - s) s (seq ys) := by
    simp only [evalPoint, List.map_cons, seq_cons_succ, seq_cons_zero]
    exact evalBary_eq_bern thr ys (by omega) _ _
  rw [e0, e1]
  match xs, ys, hx, h2, h4 with
  | [x0, x1], [y0, y1], _, _, _ => exact implicit_vanishes_1 ..
  | [x0, x1, x2], [y0, y1, y2], _, _, _ => exact implicit_vanishes_2 ..
  | [x0, x1, x2, x3], [y0, y1, y2, y3], _, _, _ => exact implicit_vanishes_3 ..

/-- a point and degrees above three are refused with the documented errors -/
theorem implicit_refusals (nodes : List (List K)) (x y : K) :
    (ncols nodes = 1 → evaluate nodes x y = .error .valueError) ∧
    (ncols nodes = 0 ∨ 5 ≤ ncols nodes → evaluate nodes x y = .error .unsupportedDegree) := by
  unfold evaluate
  constructor
  · intro h; rw [h]; rfl
  · intro h
    split <;> first | omega | rfl

/-! ### Bernstein ↔ power basis of one polynomial -/

/-- `poly_to_power_basis` represents the same polynomial (degree ≤ 3) -/
theorem basis_change (c : List K) (h1 : 1 ≤ c.length) (h4 : c.length ≤ 4) (s : K) :
    ∃ p, polyToPowerBasis c = .ok p ∧ p.length = c.length ∧
      polyval p s = bern (c.length - 1) (1 - s) s (seq c) :=
  polyToPowerBasis_eval c h1 h4 s

/-- … and raises `UnsupportedDegree` exactly outside 1..4 coefficients -/
theorem basis_change_unsupported (c : List K) (h : c.length = 0 ∨ 5 ≤ c.length) :
    polyToPowerBasis c = .error .unsupportedDegree :=
  polyToPowerBasis_unsupported c h

/-! ### the power-basis intersection polynomial: interpolation is exact

If the sampled function `t ↦ f₁(B₂(t))` (`eval_intersection_polynomial`) agrees at the sample
parameters with a polynomial `p` of degree ≤ deg₁·deg₂, the returned vector is `c × p`
(`c = 1, 1, 3, 3, 3` for the pairs 1-1, 1-2, 1-3, 1-4, 2-2).  [That the sampled function IS
such a polynomial is not proved here; the script checks it against exact resultants.] -/
section Interp
variable [CharZero K] (ext : Externals K) (par : Params K) (nodes1 nodes2 : List (List K))

theorem power_basis_interpolation_11 (h1 : ncols nodes1 = 2) (h2 : ncols nodes2 = 2) (p0 p1 : K)
    (hf : ∀ t ∈ (pbNodes11 : List K),
      evalIntersectionPolynomial par.vsThr nodes1 nodes2 t = .ok (polyval [p0, p1] t)) :
    toPowerBasis ext par nodes1 nodes2 = .ok [p0, p1] := by
  unfold toPowerBasis
  rw [h1, h2]
  show pbApply ext par _ .pb11 = _
  rw [pbApply, mapE_ok _ _ _ hf]
  show Except.ok (pbCombine11 _) = _
  rw [pbCombine11_exact]

theorem power_basis_interpolation_12 (h1 : ncols nodes1 = 2) (h2 : ncols nodes2 = 3) (p0 p1 p2 : K)
    (hf : ∀ t ∈ (pbNodes12 : List K),
      evalIntersectionPolynomial par.vsThr nodes1 nodes2 t = .ok (polyval [p0, p1, p2] t)) :
    toPowerBasis ext par nodes1 nodes2 = .ok [p0, p1, p2] := by
  unfold toPowerBasis
  rw [h1, h2]
  show pbApply ext par _ .pb12 = _
  rw [pbApply, mapE_ok _ _ _ hf]
  show Except.ok (pbCombine12 _) = _
  rw [pbCombine12_exact]

theorem power_basis_interpolation_13 (h1 : ncols nodes1 = 2) (h2 : ncols nodes2 = 4) (p0 p1 p2 p3 : K)
    (hf : ∀ t ∈ (pbNodes13 : List K),
      evalIntersectionPolynomial par.vsThr nodes1 nodes2 t = .ok (polyval [p0, p1, p2, p3] t)) :
    toPowerBasis ext par nodes1 nodes2 = .ok [3 * p0, 3 * p1, 3 * p2, 3 * p3] := by
  unfold toPowerBasis
  rw [h1, h2]
  show pbApply ext par _ .pb13 = _
  rw [pbApply, mapE_ok _ _ _ hf]
  show Except.ok (pbCombine13 _) = _
  rw [pbCombine13_exact]

theorem power_basis_interpolation_degree4 (h : (ncols nodes1 = 2 ∧ ncols nodes2 = 5) ∨
      (ncols nodes1 = 3 ∧ ncols nodes2 = 3)) (p0 p1 p2 p3 p4 : K)
    (hf : ∀ t ∈ (pbNodes4 : List K),
      evalIntersectionPolynomial par.vsThr nodes1 nodes2 t = .ok (polyval [p0, p1, p2, p3, p4] t)) :
    toPowerBasis ext par nodes1 nodes2 = .ok [3 * p0, 3 * p1, 3 * p2, 3 * p3, 3 * p4] := by
  unfold toPowerBasis
  rcases h with ⟨h1, h2⟩ | ⟨h1, h2⟩ <;>
  · rw [h1, h2]
    show pbApply ext par _ .deg4 = _
    rw [pbApply, mapE_ok _ _ _ hf]
    show Except.ok (pbCombine4 _) = _
    rw [pbCombine4_exact]

/-- **from the Vandermonde table facts**: any matrix `M` with `M · V(nodes) = c · I` (what
    `Tables/C19` decides for the four extracted hand-inverted matrices at the extracted sample
    parameters, `c = 1, 1, 3, 3`) applied to the samples of a polynomial `p` with `nodes.length`
    coefficients returns `c · p` -/
theorem power_basis_interpolation (M : List (List K)) (nodes p : List K) (cst : K) (n : ℕ)
    (hn : nodes.length = n) (hp : p.length = n) (hM : M.length = n) (hrows : ∀ r ∈ M, r.length = n)
    (h : matMul M (vandermonde nodes) = scaleMat cst (identity n)) :
    matVec M (nodes.map (polyval p)) = p.map (fun a => cst * a) :=
  matVec_samples_of_vandermonde M nodes p cst n hn hp hM hrows h

/-- the `polyfit` pairs 2-3, 2-4, 3-3: if the fit through as many abscissae as coefficients is
    the interpolating polynomial (`hfit`: what a least-squares fit with zero residual returns)
    and `V⁻¹ V = I` holds at the abscissae (`Tables/C19.cheb7/9/10_interpolation` for the
    extracted Chebyshev nodes), the returned vector is `p` itself -/
theorem power_basis_interpolation_fit (k : PBKind) (nodes : List K) (deg : ℕ)
    (hk : (k = .pb23 ∧ nodes = par.cheb7 ∧ deg = 6) ∨ (k = .deg8 ∧ nodes = par.cheb9 ∧ deg = 8) ∨
      (k = .pb33 ∧ nodes = par.cheb10 ∧ deg = 9))
    (hkind : pbKind (ncols nodes1) (ncols nodes2) = some k)
    (hlen : nodes.length = deg + 1)
    (hfit : ∀ vals, ext.fit nodes vals deg = interpolate nodes vals)
    (hV : matMul (invVandermonde nodes) (vandermonde nodes) = identity (deg + 1))
    (p : List K) (hp : p.length = deg + 1)
    (hf : ∀ t ∈ nodes, evalIntersectionPolynomial par.vsThr nodes1 nodes2 t = .ok (polyval p t)) :
    toPowerBasis ext par nodes1 nodes2 = .ok p := by
  unfold toPowerBasis
  rw [hkind]
  rcases hk with ⟨rfl, rfl, rfl⟩ | ⟨rfl, rfl, rfl⟩ | ⟨rfl, rfl, rfl⟩ <;>
  · show pbApply ext par _ _ = _
    rw [pbApply, mapE_ok _ _ _ hf]
    show Except.ok (ext.fit _ _ _) = _
    rw [hfit, interpolate_samples _ p _ hlen hp hV]

end Interp

/-! ### the L2 norm is the exact integral -/

/-- `polynomial_norm(c)² = ∫₀¹ (Σ c_k X^k)²` with the formal integral `Σ a_k/(k+1)` on `K[X]`,
    every degree, every field of characteristic zero -/
theorem norm_is_integral [CharZero K] (c : List K) :
    polynomialNormSq c = formalInt (listPoly c * listPoly c) := by
  rw [polynomialNormSq_eq_double_sum, formalInt_sq]

/-- `normalize_polynomial`: below the threshold the zero vector, otherwise `coeffs / l2`; if
    `l2` is the exact norm the result has squared norm `1` -/
theorem normalize_spec [CharZero K] [LinearOrder K] (thrSq l2 : K) (c : List K) :
    (polynomialNormSq c < thrSq → normalizePolynomial thrSq l2 c = c.map (fun _ => 0)) ∧
    (¬ polynomialNormSq c < thrSq → normalizePolynomial thrSq l2 c = c.map (fun x => x / l2)) := by
  unfold normalizePolynomial divRow
  constructor <;> intro h <;> simp [h]

theorem normalize_unit_norm [CharZero K] (l2 : K) (c : List K) (hl : l2 * l2 = polynomialNormSq c)
    (h0 : l2 ≠ 0) : polynomialNormSq (c.map (fun x => x / l2)) = 1 := by
  have key : polynomialNormSq (c.map (fun x => x / l2)) = polynomialNormSq c / (l2 * l2) := by
    rw [polynomialNormSq_eq_double_sum, polynomialNormSq_eq_double_sum, List.length_map, Finset.sum_div]
    apply Finset.sum_congr rfl
    intro i hi
    rw [Finset.sum_div]
    apply Finset.sum_congr rfl
    intro j hj
    have hi' := mem_range.mp hi
    have hj' := mem_range.mp hj
    have e : ∀ k, k < c.length → seq (c.map (fun x => x / l2)) k = seq c k / l2 := by
      intro k hk
      unfold seq
      rw [List.getD_eq_getElem?_getD, List.getD_eq_getElem?_getD, List.getElem?_map,
        List.getElem?_eq_getElem hk]
      rfl
    rw [e i hi', e j hj']
    field_simp
  rw [key, hl, div_self]
  rw [← hl]; exact mul_ne_zero h0 h0

/-! ### the σ-polynomial behind `bernstein_companion` -/

/-- `_get_sigma_coeffs` on a polynomial with effective degree `e ≥ 1` (largest index with a
    non-zero coefficient): returns `(sc, n, e)` with `sc` of length `e`, and for every `s ≠ 1`
    `B(s) = (1-s)^n · lead · q(s/(1-s))`, `q(σ) = σ^e + Σ_{k<e} sc_k σ^k` monic of degree `e`,
    `lead = C(n,e) c_e ≠ 0`; moreover `B = (1-s)^(n-e) · R(s)` with `R(1) = lead ≠ 0`, i.e.
    `n − e` is exactly the multiplicity of the root `s = 1` (the roots appended by `bezier_roots`) -/
theorem sigma [CharZero K] [DecidableEq K] (c : List K) (n e : ℕ) (hlen : c.length = n + 1)
    (he1 : 1 ≤ e) (hen : e ≤ n) (hlead : seq c e ≠ 0) (hz : ∀ j, e < j → j ≤ n → seq c j = 0) :
    ∃ sc : List K, getSigmaCoeffs c = (some sc, n, e) ∧ sc.length = e ∧
      (n.choose e : K) * seq c e ≠ 0 ∧
      (∀ s : K, 1 - s ≠ 0 →
        bern n (1 - s) s (seq c) = (1 - s) ^ n * ((n.choose e : K) * seq c e) *
          ((s / (1 - s)) ^ e + ∑ k ∈ range e, seq sc k * (s / (1 - s)) ^ k)) ∧
      (∀ s : K, bern n (1 - s) s (seq c) = (1 - s) ^ (n - e) *
          ∑ j ∈ range (e + 1), (n.choose j : K) * (1 - s) ^ (e - j) * s ^ j * seq c j) ∧
      (∑ j ∈ range (e + 1), (n.choose j : K) * (1 - (1 : K)) ^ (e - j) * (1 : K) ^ j * seq c j
          = (n.choose e : K) * seq c e) := by
  obtain ⟨sc, h1, h2, h3⟩ := getSigmaCoeffs_spec c n e hlen he1 hen hlead hz
  refine ⟨sc, h1, h2, ?_, ?_, ?_, ?_⟩
  · exact mul_ne_zero (Nat.cast_ne_zero.mpr (Nat.choose_pos hen).ne') hlead
  · intro s hs
    exact bern_eq_sigma_poly c n e hen hlead hz sc h3 s hs
  · intro s
    exact bern_factor_root_at_one (seq c) n e hen hz (1 - s) s
  · rw [sub_self]; exact cofactor_at_one (seq c) n e

/-- effective degree `0`: constant leading data, all `n` roots are at `s = 1`
    (`B(s) = c_0 (1-s)^n`), and `_get_sigma_coeffs` says so -/
theorem sigma_degenerate [CharZero K] [DecidableEq K] (c : List K) (n : ℕ) (hlen : c.length = n + 1)
    (h0 : seq c 0 ≠ 0) (hz : ∀ j, 0 < j → j ≤ n → seq c j = 0) :
    getSigmaCoeffs c = (none, n, 0) ∧ ∀ s : K, bern n (1 - s) s (seq c) = seq c 0 * (1 - s) ^ n := by
  constructor
  · have := getSigmaCoeffs_const c h0 (by omega) (fun j h1 h2 => hz j h1 (by omega))
    rw [this, hlen]; rfl
  · intro s
    rw [bern_factor_root_at_one (seq c) n 0 (Nat.zero_le n) hz]
    simp [mul_comm]

/-- the zero polynomial: `(None, 0, 0)`, `bezier_roots` returns no roots -/
theorem sigma_zero_poly [CharZero K] [LinearOrder K] (ext : Externals K) (par : Params K) (c : List K)
    (hz : ∀ j < c.length, seq c j = 0) :
    getSigmaCoeffs c = (none, 0, 0) ∧ bezierRoots ext par c = [] := by
  have h := getSigmaCoeffs_zero_poly c hz
  refine ⟨h, ?_⟩
  simp [bezierRoots, bernsteinCompanion, h, bezierRootsFilter]

/-! ### the companion matrix has characteristic polynomial `q` (sizes 1..4 by computation) -/

/-- FULL: for every `e ≥ 1` and `sc` of length `e`,
    `det e (charMatrix e lam (companionOfSigma sc e)) = lam^e + Σ_{k<e} sc_k lam^k`. -/
theorem companion_charpoly_partial (lam : K) :
    (∀ s0 : K, det 1 (charMatrix 1 lam (companionOfSigma [s0] 1)) = lam + s0) ∧
    (∀ s0 s1 : K, det 2 (charMatrix 2 lam (companionOfSigma [s0, s1] 2)) = lam ^ 2 + s1 * lam + s0) ∧
    (∀ s0 s1 s2 : K, det 3 (charMatrix 3 lam (companionOfSigma [s0, s1, s2] 3))
        = lam ^ 3 + s2 * lam ^ 2 + s1 * lam + s0) ∧
    (∀ s0 s1 s2 s3 : K, det 4 (charMatrix 4 lam (companionOfSigma [s0, s1, s2, s3] 4))
        = lam ^ 4 + s3 * lam ^ 3 + s2 * lam ^ 2 + s1 * lam + s0) :=
  ⟨fun s0 => companion_charpoly_1 s0 lam, fun s0 s1 => companion_charpoly_2 s0 s1 lam,
   fun s0 s1 s2 => companion_charpoly_3 s0 s1 s2 lam,
   fun s0 s1 s2 s3 => companion_charpoly_4 s0 s1 s2 s3 lam⟩

/-- **every size**: the eigenvalues of the companion matrix are exactly the roots of `q`
    (`det (lam·I − companion) = 0 ↔ q(lam) = 0`; multiplicities: `companion_charpoly_partial`) -/
theorem companion_eigenvalues (sc : List K) (e : ℕ) (he : 1 ≤ e) (hlen : sc.length = e) (lam : K) :
    det e (charMatrix e lam (companionOfSigma sc e)) = 0 ↔
      lam ^ e + ∑ k ∈ range e, seq sc k * lam ^ k = 0 :=
  ⟨companion_eigenvalue_is_root sc e he hlen lam, companion_root_is_eigenvalue sc e he hlen lam⟩

/-- **`bezier_roots` looks in the right place**: for a Bernstein polynomial of effective degree
    `e ≥ 1`, a parameter `s ≠ 1` is a root iff `σ = s/(1-s)` is an eigenvalue of the matrix
    returned by `bernstein_companion`; the remaining roots are the `n − e` roots at `s = 1`
    (`sigma`), and `s` is recovered as `σ/(1+σ)` -/
theorem roots_are_companion_eigenvalues [CharZero K] [DecidableEq K] (c : List K) (n e : ℕ)
    (hlen : c.length = n + 1) (he1 : 1 ≤ e) (hen : e ≤ n) (hlead : seq c e ≠ 0)
    (hz : ∀ j, e < j → j ≤ n → seq c j = 0) :
    ∃ comp, bernsteinCompanion c = (comp, n, e) ∧
      ∀ s : K, 1 - s ≠ 0 →
        (bern n (1 - s) s (seq c) = 0 ↔ det e (charMatrix e (s / (1 - s)) comp) = 0) ∧
        s = (s / (1 - s)) / (1 + s / (1 - s)) := by
  obtain ⟨sc, h1, h2, h3, h4, -, -⟩ := sigma c n e hlen he1 hen hlead hz
  refine ⟨companionOfSigma sc e, ?_, ?_⟩
  · unfold bernsteinCompanion
    rw [h1]
    simp only
    rw [if_neg (by omega)]
  · intro s hs
    constructor
    · rw [companion_eigenvalues sc e he1 h2, h4 s hs]
      constructor
      · intro h
        rcases mul_eq_zero.mp h with h' | h'
        · rcases mul_eq_zero.mp h' with h'' | h''
          · exact absurd (pow_eq_zero_iff (n := n) (by omega) |>.mp h'') hs
          · exact absurd h'' h3
        · exact h'
      · intro h; rw [h, mul_zero]
    · field_simp
      ring

/-- `lu_companion(top_row, value)`: the last pivot is the Horner value
    `Σ_k top_k value^(d-1-k) − value^d`; with `top_row = -sigma_coeffs[::-1]` (as called by
    `bezier_value_check`) that is `−q(value)`, so the factorisation is singular exactly at the
    roots of `q` -/
theorem lu_last_pivot [LinearOrder K] (top : List K) (value : K) (hd : 1 ≤ top.length) :
    ∃ mat norm, luCompanion top value = .ok (mat, norm) ∧
      seq (mat.getD (top.length - 1) []) (top.length - 1) =
        ∑ k ∈ range top.length, seq top k * value ^ (top.length - 1 - k) - value ^ top.length :=
  luCompanion_last_pivot top value hd

end Field

/-- over the reals the formal integral is the integral: `polynomial_norm(c)² = ∫₀¹ (Σ c_k x^k)² dx` -/
theorem norm_is_integral_real (c : List ℝ) :
    polynomialNormSq c = ∫ x in (0:ℝ)..1, (∑ k ∈ range c.length, seq c k * x ^ k) ^ 2 := by
  rw [norm_is_integral, formalInt_eq_integral]
  congr 1
  funext x
  rw [Polynomial.eval_mul, listPoly_eval, sq]

/-! ### non-vacuity -/

/-- a concrete cubic: its implicit function vanishes at its point `s = 1/3` … -/
example : evaluate ([[0, 1, 3, 4], [0, 2, -1, 1]] : List (List ℚ)) (34/27) (19/27) = .ok 0 := by
  have := implicit_vanishes_3 (0:ℚ) 1 3 4 0 2 (-1) 1 (1/3)
  have e1 : bern 3 (1 - 1/3) (1/3) (seq ([0, 1, 3, 4] : List ℚ)) = 34/27 := by
    simp [bern, Finset.sum_range_succ, seq, Nat.choose]; norm_num
  have e2 : bern 3 (1 - 1/3) (1/3) (seq ([0, 2, -1, 1] : List ℚ)) = 19/27 := by
    simp [bern, Finset.sum_range_succ, seq, Nat.choose]; norm_num
  rw [e1, e2] at this
  exact this

/-- … and not off the curve (the implicit function is not identically zero) -/
example : evaluate ([[0, 1, 3, 4], [0, 2, -1, 1]] : List (List ℚ)) 1 1 ≠ .ok 0 := by decide +kernel

/-- `sigma` has instances: `3(1-s)^2·… ` with a double root at `1` (degree 4, effective degree 2) -/
example : getSigmaCoeffs ([2, -1, 3, 0, 0] : List ℚ) = (some [1/9, -2/9], 4, 2) := by decide +kernel

example : polynomialNormSq ([1, 1] : List ℚ) = 7/3 := by decide +kernel

end BezierVerif.C19
