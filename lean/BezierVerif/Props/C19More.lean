import BezierVerif.Lemmas.Resultant
import BezierVerif.Props.C19
import Mathlib.FieldTheory.IsAlgClosed.AlgebraicClosure

/-!
# C19 (continued) — resultant, characteristic polynomial, composition degree, root set

Property theorems only; helpers are in `Lemmas/Resultant.lean`.
`bernPoly n v : K[X]` (Lemmas/Deriv) is the coordinate polynomial `Σ_j v_j b_{j,n}(X)` in Mathlib's
`Polynomial`, `(bernPoly n v).eval s = bern n (1-s) s v` (`Deriv.eval_bernPoly`); its `coeff`s are
the power-basis coefficients.  `Polynomial.resultant f g d d` is the determinant of Mathlib's
Sylvester matrix with formal degrees `d, d`.
-/

set_option linter.unusedSectionVars false
set_option linter.unusedVariables false

namespace BezierVerif.C19

open Finset Polynomial Model Model.Alg BezierVerif BezierVerif.AlgLemmas BezierVerif.ResLemmas
  BezierVerif.Deriv

section Field
variable {K : Type} [Field K]

/-! ### A. the implicit function is the Sylvester resultant of `X(s) − x`, `Y(s) − y` -/

/-- **degree 1, 2, 3, every net, every `(x, y)`**: `evaluate` is `-1, 1, 1` times the resultant
    in `s` of `X(s) − x` and `Y(s) − y` (power-basis Sylvester matrix, formal degrees `d, d`); no
    further scaling — the factors `2`, `3` the code puts on the inner columns are exactly the
    binomial weights of the Bernstein form -/
theorem implicit_is_resultant :
    (∀ x0 x1 y0 y1 x y : K, evaluate [[x0, x1], [y0, y1]] x y =
      .ok (-resultant (bernPoly 1 (seq [x0, x1]) - C x) (bernPoly 1 (seq [y0, y1]) - C y) 1 1)) ∧
    (∀ x0 x1 x2 y0 y1 y2 x y : K, evaluate [[x0, x1, x2], [y0, y1, y2]] x y =
      .ok (resultant (bernPoly 2 (seq [x0, x1, x2]) - C x) (bernPoly 2 (seq [y0, y1, y2]) - C y) 2 2)) ∧
    (∀ x0 x1 x2 x3 y0 y1 y2 y3 x y : K, evaluate [[x0, x1, x2, x3], [y0, y1, y2, y3]] x y =
      .ok (resultant (bernPoly 3 (seq [x0, x1, x2, x3]) - C x)
        (bernPoly 3 (seq [y0, y1, y2, y3]) - C y) 3 3)) := by
  refine ⟨fun x0 x1 y0 y1 x y => ?_, fun x0 x1 x2 y0 y1 y2 x y => ?_,
    fun x0 x1 x2 x3 y0 y1 y2 y3 x y => ?_⟩
  · show Except.ok (evaluate1 x0 x1 y0 y1 x y) = _
    rw [evaluate1_eq_resultant]
  · show Except.ok (evaluate2 x0 x1 x2 y0 y1 y2 x y) = _
    rw [evaluate2_eq_resultant]
  · show Except.ok (evaluate3 [x0, x1, x2, x3] [y0, y1, y2, y3] x y) = _
    rw [evaluate3_eq_resultant]

/-- the same for a net given as two rows of `d + 1 ∈ {2, 3, 4}` entries -/
theorem implicit_is_resultant_list (xs ys : List K) (hx : xs.length = ys.length) (h2 : 2 ≤ xs.length)
    (h4 : xs.length ≤ 4) (x y : K) :
    evaluate [xs, ys] x y = .ok (implicitSign (xs.length - 1) *
      resultant (bernPoly (xs.length - 1) (seq xs) - C x) (bernPoly (xs.length - 1) (seq ys) - C y)
        (xs.length - 1) (xs.length - 1)) := by
  match xs, ys, hx, h2, h4 with
  | [x0, x1], [y0, y1], _, _, _ =>
    rw [implicit_is_resultant.1]; simp [implicitSign]
  | [x0, x1, x2], [y0, y1, y2], _, _, _ =>
    rw [implicit_is_resultant.2.1]; simp [implicitSign]
  | [x0, x1, x2, x3], [y0, y1, y2, y3], _, _, _ =>
    rw [implicit_is_resultant.2.2]; simp [implicitSign]

/-- **zero set**: if the curve has true degree `d` in at least one coordinate (the power-basis
    coefficient of `s^d` of `X` or of `Y` is non-zero), the implicit function vanishes at `(x, y)`
    iff `X(s) − x` and `Y(s) − y` are not coprime, i.e. iff they have a common root in any (every)
    algebraically closed extension `L` of `K` -/
theorem implicit_zero_iff_common_root (xs ys : List K) (hx : xs.length = ys.length) (h2 : 2 ≤ xs.length)
    (h4 : xs.length ≤ 4)
    (hnd : (bernPoly (xs.length - 1) (seq xs)).coeff (xs.length - 1) ≠ 0 ∨
      (bernPoly (xs.length - 1) (seq ys)).coeff (xs.length - 1) ≠ 0) (x y : K) :
    (evaluate [xs, ys] x y = .ok 0 ↔
      ¬ IsCoprime (bernPoly (xs.length - 1) (seq xs) - C x) (bernPoly (xs.length - 1) (seq ys) - C y)) ∧
    ∀ (L : Type) [Field L] [IsAlgClosed L] [Algebra K L],
      (evaluate [xs, ys] x y = .ok 0 ↔
        ∃ s : L, aeval s (bernPoly (xs.length - 1) (seq xs)) = algebraMap K L x ∧
          aeval s (bernPoly (xs.length - 1) (seq ys)) = algebraMap K L y) := by
  have hd : 1 ≤ xs.length - 1 := by omega
  have key : evaluate [xs, ys] x y = .ok 0 ↔
      ¬ IsCoprime (bernPoly (xs.length - 1) (seq xs) - C x) (bernPoly (xs.length - 1) (seq ys) - C y) := by
    rw [implicit_is_resultant_list xs ys hx h2 h4 x y,
      ← resultant_eq_zero_iff_of_coeff (natDegree_bernPoly_sub_C_le _ _ x)
        (natDegree_bernPoly_sub_C_le _ _ y)
        (by rw [coeff_bernPoly_sub_C _ hd, coeff_bernPoly_sub_C _ hd]; exact hnd)]
    constructor
    · intro h
      have := Except.ok.inj h
      exact (mul_eq_zero.mp this).resolve_left (implicitSign_ne_zero _)
    · intro h; rw [h, mul_zero]
  refine ⟨key, fun L _ _ _ => ?_⟩
  rw [key, not_isCoprime_iff_common_root L]
  simp only [map_sub, aeval_C, sub_eq_zero]

/-- over an algebraically closed field: the zero set of the implicit function is exactly the
    curve (parameters ranging over the whole field) -/
theorem implicit_zero_set_algClosed [IsAlgClosed K] (xs ys : List K) (hx : xs.length = ys.length)
    (h2 : 2 ≤ xs.length) (h4 : xs.length ≤ 4)
    (hnd : (bernPoly (xs.length - 1) (seq xs)).coeff (xs.length - 1) ≠ 0 ∨
      (bernPoly (xs.length - 1) (seq ys)).coeff (xs.length - 1) ≠ 0) (x y : K) :
    evaluate [xs, ys] x y = .ok 0 ↔
      ∃ s : K, bern (xs.length - 1) (1 - s) s (seq xs) = x ∧ bern (xs.length - 1) (1 - s) s (seq ys) = y := by
  rw [(implicit_zero_iff_common_root xs ys hx h2 h4 hnd x y).2 K]
  simp only [coe_aeval_eq_eval, eval_bernPoly, Algebra.algebraMap_self, RingHom.id_apply]

/-- the `s^d` coefficient of the coordinate polynomial is the `d`-th forward difference of its
    control values -/
theorem leading_power_coefficient :
    (∀ c0 c1 : K, (bernPoly 1 (seq [c0, c1])).coeff 1 = c1 - c0) ∧
    (∀ c0 c1 c2 : K, (bernPoly 2 (seq [c0, c1, c2])).coeff 2 = c2 - 2 * c1 + c0) ∧
    (∀ c0 c1 c2 c3 : K, (bernPoly 3 (seq [c0, c1, c2, c3])).coeff 3 = c3 - 3 * c2 + 3 * c1 - c0) := by
  refine ⟨fun c0 c1 => ?_, fun c0 c1 c2 => ?_, fun c0 c1 c2 c3 => ?_⟩
  · rw [← coeff_bernPoly_sub_C 1 le_rfl _ (0:K), (coeff_bernPoly_one_sub c0 c1 0).2]
  · rw [← coeff_bernPoly_sub_C 2 (by omega) _ (0:K), (coeff_bernPoly_two_sub c0 c1 c2 0).2.2]
  · rw [← coeff_bernPoly_sub_C 3 (by omega) _ (0:K), (coeff_bernPoly_three_sub c0 c1 c2 c3 0).2.2.2]

/-- **identically zero iff degree-elevated**: the implicit function of a net vanishes at every
    `(x, y)` iff both coordinate polynomials have vanishing `s^d` coefficient (the net is a
    degree-elevated curve of lower degree); characteristic zero for `⇒` -/
theorem implicit_identically_zero_iff [CharZero K] (xs ys : List K) (hx : xs.length = ys.length)
    (h2 : 2 ≤ xs.length) (h4 : xs.length ≤ 4) :
    (∀ x y : K, evaluate [xs, ys] x y = .ok 0) ↔
      ((bernPoly (xs.length - 1) (seq xs)).coeff (xs.length - 1) = 0 ∧
        (bernPoly (xs.length - 1) (seq ys)).coeff (xs.length - 1) = 0) := by
  have hd : 1 ≤ xs.length - 1 := by omega
  constructor
  · intro h
    by_contra hne
    have hnd : (bernPoly (xs.length - 1) (seq xs)).coeff (xs.length - 1) ≠ 0 ∨
        (bernPoly (xs.length - 1) (seq ys)).coeff (xs.length - 1) ≠ 0 := by
      by_contra hc
      push Not at hc
      exact hne hc
    match xs, ys, hx, h2, h4 with
    | [x0, x1], [y0, y1], _, _, _ =>
      have hnd : (bernPoly 1 (seq [x0, x1])).coeff 1 ≠ 0 ∨ (bernPoly 1 (seq [y0, y1])).coeff 1 ≠ 0 := hnd
      rw [leading_power_coefficient.1, leading_power_coefficient.1] at hnd
      obtain ⟨x, y, hxy⟩ := evaluate1_not_identically_zero x0 x1 y0 y1 hnd
      exact hxy (Except.ok.inj (h x y))
    | [x0, x1, x2], [y0, y1, y2], _, _, _ =>
      have hnd : (bernPoly 2 (seq [x0, x1, x2])).coeff 2 ≠ 0 ∨ (bernPoly 2 (seq [y0, y1, y2])).coeff 2 ≠ 0 := hnd
      rw [leading_power_coefficient.2.1, leading_power_coefficient.2.1] at hnd
      obtain ⟨x, y, hxy⟩ := evaluate2_not_identically_zero x0 x1 x2 y0 y1 y2 hnd
      exact hxy (Except.ok.inj (h x y))
    | [x0, x1, x2, x3], [y0, y1, y2, y3], _, _, _ =>
      have hnd : (bernPoly 3 (seq [x0, x1, x2, x3])).coeff 3 ≠ 0 ∨
          (bernPoly 3 (seq [y0, y1, y2, y3])).coeff 3 ≠ 0 := hnd
      rw [leading_power_coefficient.2.2, leading_power_coefficient.2.2] at hnd
      obtain ⟨x, y, hxy⟩ := evaluate3_not_identically_zero x0 x1 x2 x3 y0 y1 y2 y3 hnd
      exact hxy (Except.ok.inj (h x y))
  · rintro ⟨hX, hY⟩ x y
    rw [implicit_is_resultant_list xs ys hx h2 h4 x y,
      resultant_eq_zero_of_coeff_eq_zero hd (natDegree_bernPoly_sub_C_le _ _ x)
        (natDegree_bernPoly_sub_C_le _ _ y) (by rw [coeff_bernPoly_sub_C _ hd]; exact hX)
        (by rw [coeff_bernPoly_sub_C _ hd]; exact hY), mul_zero]

/-! ### B. the characteristic polynomial of the companion matrix, every size -/

/-- **every size `e ≥ 1`**: `det (lam·I − companion) = lam^e + Σ_{k<e} sc_k lam^k`, the monic
    σ-polynomial (the full statement of `companion_charpoly_partial`) -/
theorem companion_charpoly (sc : List K) (e : ℕ) (he : 1 ≤ e) (hlen : sc.length = e) (lam : K) :
    det e (charMatrix e lam (companionOfSigma sc e)) = lam ^ e + ∑ k ∈ range e, seq sc k * lam ^ k :=
  companion_charpoly_all sc e he hlen lam

/-! ### C. the composition `t ↦ f₁(B₂(t))` is a polynomial of degree `≤ d₁ d₂` -/

/-- **degree bound**: for an implicitized net of degree `d₁ ∈ {1, 2, 3}` and a second net of any
    degree `d₂ ≥ 1` there are `d₁ d₂ + 1` coefficients with which `eval_intersection_polynomial`
    agrees at every `t` (either side of the evaluation-algorithm switch `thr`) -/
theorem composition_degree [CharZero K] (thr : ℕ) (xs1 ys1 xs2 ys2 : List K)
    (h1 : xs1.length = ys1.length) (h12 : 2 ≤ xs1.length) (h14 : xs1.length ≤ 4)
    (h2 : xs2.length = ys2.length) (h22 : 2 ≤ xs2.length) :
    ∃ p : List K, p.length = (xs1.length - 1) * (xs2.length - 1) + 1 ∧
      ∀ t, evalIntersectionPolynomial thr [xs1, ys1] [xs2, ys2] t = .ok (polyval p t) :=
  composition_degree_bound thr xs1 ys1 xs2 ys2 h1 h12 h14 h2 h22

/-- the coefficient list of that length is unique (so "the coefficients of `f₁ ∘ B₂`" is meaningful) -/
theorem composition_coefficients_unique [Infinite K] (p p' : List K) (hl : p.length = p'.length)
    (h : ∀ t, polyval p t = polyval p' t) : p = p' :=
  polyval_injective p p' hl h

/-- **end to end, the hand-inverted pairs 1-1, 1-2, 1-3, 1-4, 2-2** (every pair of nets, no
    hypothesis on the sampled function): `to_power_basis` returns `c ×` the `d₁ d₂ + 1` coefficients
    of `t ↦ f₁(B₂(t))`, `c = 1` for 1-1 and 1-2, `c = 3` for 1-3, 1-4 and 2-2 -/
theorem power_basis_exact [CharZero K] (ext : Externals K) (par : Params K) (xs1 ys1 xs2 ys2 : List K)
    (h1 : xs1.length = ys1.length) (h2 : xs2.length = ys2.length)
    (hpair : (xs1.length, xs2.length) ∈ [(2, 2), (2, 3), (2, 4), (2, 5), (3, 3)]) :
    ∃ p : List K, p.length = (xs1.length - 1) * (xs2.length - 1) + 1 ∧
      (∀ t, evalIntersectionPolynomial par.vsThr [xs1, ys1] [xs2, ys2] t = .ok (polyval p t)) ∧
      toPowerBasis ext par [xs1, ys1] [xs2, ys2] =
        .ok (p.map (fun a => (if xs1.length + xs2.length ≤ 5 then 1 else 3) * a)) := by
  have hl : 2 ≤ xs1.length ∧ xs1.length ≤ 4 ∧ 2 ≤ xs2.length := by
    simp only [List.mem_cons, Prod.mk.injEq, List.mem_nil_iff, or_false] at hpair
    omega
  obtain ⟨p, hp, he⟩ := composition_degree par.vsThr xs1 ys1 xs2 ys2 h1 hl.1 hl.2.1 h2 hl.2.2
  refine ⟨p, hp, he, ?_⟩
  have n1 : ncols [xs1, ys1] = xs1.length := rfl
  have n2 : ncols [xs2, ys2] = xs2.length := rfl
  simp only [List.mem_cons, Prod.mk.injEq, List.mem_nil_iff, or_false] at hpair
  rcases hpair with ⟨ha, hb⟩ | ⟨ha, hb⟩ | ⟨ha, hb⟩ | ⟨ha, hb⟩ | ⟨ha, hb⟩ <;> rw [ha, hb] at hp ⊢
  · match p, hp with
    | [p0, p1], _ =>
      rw [power_basis_interpolation_11 ext par _ _ (n1.trans ha) (n2.trans hb) p0 p1 (fun t _ => he t)]
      simp
  · match p, hp with
    | [p0, p1, p2], _ =>
      rw [power_basis_interpolation_12 ext par _ _ (n1.trans ha) (n2.trans hb) p0 p1 p2 (fun t _ => he t)]
      simp
  · match p, hp with
    | [p0, p1, p2, p3], _ =>
      rw [power_basis_interpolation_13 ext par _ _ (n1.trans ha) (n2.trans hb) p0 p1 p2 p3
        (fun t _ => he t)]
      simp
  · match p, hp with
    | [p0, p1, p2, p3, p4], _ =>
      rw [power_basis_interpolation_degree4 ext par _ _ (Or.inl ⟨n1.trans ha, n2.trans hb⟩) p0 p1 p2 p3 p4
        (fun t _ => he t)]
      simp
  · match p, hp with
    | [p0, p1, p2, p3, p4], _ =>
      rw [power_basis_interpolation_degree4 ext par _ _ (Or.inr ⟨n1.trans ha, n2.trans hb⟩) p0 p1 p2 p3 p4
        (fun t _ => he t)]
      simp

/-- **end to end, the `polyfit` pairs 2-3, 2-4, 3-3**, under the hypotheses of
    `power_basis_interpolation_fit` about the external fit (`hfit`: a fit through as many abscissae
    as coefficients is the interpolant; `hV`: the `Tables/C19` fact `V⁻¹ V = I` at the Chebyshev
    nodes) but none on the sampled function: the returned vector is the coefficient list of
    `t ↦ f₁(B₂(t))` itself, of length `d₁ d₂ + 1 = 7, 9, 10` -/
theorem power_basis_fit_exact [CharZero K] (ext : Externals K) (par : Params K)
    (xs1 ys1 xs2 ys2 : List K) (h1 : xs1.length = ys1.length) (h2 : xs2.length = ys2.length)
    (k : PBKind) (nodes : List K) (deg : ℕ)
    (hk : (k = .pb23 ∧ nodes = par.cheb7 ∧ deg = 6) ∨ (k = .deg8 ∧ nodes = par.cheb9 ∧ deg = 8) ∨
      (k = .pb33 ∧ nodes = par.cheb10 ∧ deg = 9))
    (hkind : pbKind xs1.length xs2.length = some k)
    (hlen : nodes.length = deg + 1)
    (hfit : ∀ vals, ext.fit nodes vals deg = interpolate nodes vals)
    (hV : matMul (invVandermonde nodes) (vandermonde nodes) = identity (deg + 1)) :
    ∃ p : List K, p.length = (xs1.length - 1) * (xs2.length - 1) + 1 ∧ p.length = deg + 1 ∧
      (∀ t, evalIntersectionPolynomial par.vsThr [xs1, ys1] [xs2, ys2] t = .ok (polyval p t)) ∧
      toPowerBasis ext par [xs1, ys1] [xs2, ys2] = .ok p := by
  have hdims : (xs1.length = 3 ∧ xs2.length = 4 ∧ deg = 6) ∨ (xs1.length = 3 ∧ xs2.length = 5 ∧ deg = 8) ∨
      (xs1.length = 4 ∧ xs2.length = 4 ∧ deg = 9) := by
    obtain ⟨d1, d2, d3⟩ := pbKind_fit_dims _ _ _ hkind
    rcases hk with ⟨rfl, -, rfl⟩ | ⟨rfl, -, rfl⟩ | ⟨rfl, -, rfl⟩
    · exact Or.inl ⟨(d1 rfl).1, (d1 rfl).2, rfl⟩
    · exact Or.inr (Or.inl ⟨(d2 rfl).1, (d2 rfl).2, rfl⟩)
    · exact Or.inr (Or.inr ⟨(d3 rfl).1, (d3 rfl).2, rfl⟩)
  have hl : 2 ≤ xs1.length ∧ xs1.length ≤ 4 ∧ 2 ≤ xs2.length := by omega
  obtain ⟨p, hp, he⟩ := composition_degree par.vsThr xs1 ys1 xs2 ys2 h1 hl.1 hl.2.1 h2 hl.2.2
  have hpd : p.length = deg + 1 := by
    rcases hdims with ⟨a, b, c⟩ | ⟨a, b, c⟩ | ⟨a, b, c⟩ <;> rw [hp, a, b, c]
  exact ⟨p, hp, hpd, he, power_basis_interpolation_fit ext par [xs1, ys1] [xs2, ys2] k nodes deg hk hkind
    hlen hfit hV p hpd (fun t _ => he t)⟩

/-! ### D. `bezier_roots`: the root set of a Bernstein polynomial, every degree -/

/-- **every degree `n` and effective degree `1 ≤ e ≤ n`** (`e` = largest index with a non-zero
    Bernstein coefficient).  `bernstein_companion` returns `(comp, n, e)` and with the monic
    σ-polynomial `q(σ) = σ^e + Σ_{k<e} sc_k σ^k` computed by `_get_sigma_coeffs`:
    1. the characteristic polynomial of `comp` is `q` (eigenvalues with multiplicities = roots of `q`);
    2. for `s ≠ 1`: `B(s) = 0 ⇔ q(s/(1-s)) = 0`;
    3. the root set of `B` is `{σ/(1+σ) : σ eigenvalue of comp, σ ≠ -1}`, together with `s = 1`
       exactly when `e < n` (this is what `bezier_roots` assembles: it maps the eigenvalues by
       `σ ↦ σ/(1+σ)`, drops `σ = -1`, and appends `n - e` copies of `1`);
    4. the multiplicity of the root `s = 1` is exactly the degree drop `n − e`:
       `B = (1-s)^(n-e) · R` with `R(1) ≠ 0`. -/
theorem bezier_roots_complete [CharZero K] [DecidableEq K] (c : List K) (n e : ℕ)
    (hlen : c.length = n + 1) (he1 : 1 ≤ e) (hen : e ≤ n) (hlead : seq c e ≠ 0)
    (hz : ∀ j, e < j → j ≤ n → seq c j = 0) :
    ∃ (comp : List (List K)) (sc : List K), bernsteinCompanion c = (comp, n, e) ∧ sc.length = e ∧
      (∀ lam : K, det e (charMatrix e lam comp) = lam ^ e + ∑ k ∈ range e, seq sc k * lam ^ k) ∧
      (∀ s : K, 1 - s ≠ 0 → (bern n (1 - s) s (seq c) = 0 ↔
        (s / (1 - s)) ^ e + ∑ k ∈ range e, seq sc k * (s / (1 - s)) ^ k = 0)) ∧
      (∀ s : K, bern n (1 - s) s (seq c) = 0 ↔
        (s = 1 ∧ e < n) ∨ ∃ σ : K, 1 + σ ≠ 0 ∧ det e (charMatrix e σ comp) = 0 ∧ s = σ / (1 + σ)) ∧
      (∃ R : K → K, (∀ s : K, bern n (1 - s) s (seq c) = (1 - s) ^ (n - e) * R s) ∧ R 1 ≠ 0) := by
  obtain ⟨sc, h1, h2, h3, h4, h5, h6⟩ := sigma c n e hlen he1 hen hlead hz
  have hcomp : bernsteinCompanion c = (companionOfSigma sc e, n, e) := by
    unfold bernsteinCompanion
    rw [h1]
    simp only
    rw [if_neg (by omega)]
  have hchar := fun lam => companion_charpoly sc e he1 h2 lam
  have hset := root_set_of_sigma (fun s => bern n (1 - s) s (seq c))
    (fun σ => σ ^ e + ∑ k ∈ range e, seq sc k * σ ^ k) n e hen _ h3
    (fun s => ∑ j ∈ range (e + 1), (n.choose j : K) * (1 - s) ^ (e - j) * s ^ j * seq c j) h4 h5 h6
  refine ⟨companionOfSigma sc e, sc, hcomp, h2, hchar, ?_, ?_, ?_⟩
  · intro s hs
    have := hset s
    rw [this]
    constructor
    · rintro (⟨rfl, -⟩ | ⟨σ, hσ, hq, rfl⟩)
      · exact absurd (sub_self 1) hs
      · rw [(mobius_back σ hσ).2]; exact hq
    · intro hq
      exact Or.inr ⟨s / (1 - s), (mobius_forth s hs).1, hq, (mobius_forth s hs).2.symm⟩
  · intro s
    have := hset s
    rw [this]
    simp only [hchar]
  · exact ⟨_, h5, by rw [h6]; exact h3⟩

/-- effective degree `0` (only `c_0 ≠ 0`): `B(s) = c_0 (1-s)^n`, the only root is `s = 1` with
    multiplicity `n`, and `bezier_roots` returns exactly `n` copies of `1` (no eigenvalue call) -/
theorem bezier_roots_complete_degenerate [CharZero K] [LinearOrder K] (ext : Externals K) (par : Params K)
    (c : List K) (n : ℕ) (hlen : c.length = n + 1) (h0 : seq c 0 ≠ 0)
    (hz : ∀ j, 0 < j → j ≤ n → seq c j = 0) :
    bezierRoots ext par c = List.replicate n ((1 : K), (0 : K)) ∧
      (∀ s : K, bern n (1 - s) s (seq c) = seq c 0 * (1 - s) ^ n) ∧
      (∀ s : K, bern n (1 - s) s (seq c) = 0 ↔ (s = 1 ∧ 0 < n)) := by
  obtain ⟨hs, hB⟩ := sigma_degenerate c n hlen h0 hz
  refine ⟨?_, hB, ?_⟩
  · simp only [bezierRoots, bernsteinCompanion, hs, bezierRootsFilter]
    by_cases hn : n = 0
    · subst hn; simp
    · simp [Ne.symm hn]
  · intro s
    rw [hB, mul_eq_zero]
    constructor
    · rintro (h | h)
      · exact absurd h h0
      · have hn : n ≠ 0 := by
          rintro rfl
          simp at h
        exact ⟨by linear_combination -(pow_eq_zero_iff hn).mp h, Nat.pos_of_ne_zero hn⟩
    · rintro ⟨rfl, hn⟩
      right
      rw [sub_self, zero_pow (by omega)]

/-- what `bezier_roots` assembles for effective degree `e ≥ 1`: the eigenvalues `σ` returned by the
    external routine for the companion matrix, those with `|σ + 1|² > threshold²` mapped by
    `σ ↦ σ/(1+σ)` (complex division on pairs), followed by exactly `n − e` copies of `1` -/
theorem bezier_roots_assembly [CharZero K] [LinearOrder K] (ext : Externals K) (par : Params K)
    (c : List K) (n e : ℕ) (hlen : c.length = n + 1) (he1 : 1 ≤ e) (hen : e ≤ n) (hlead : seq c e ≠ 0)
    (hz : ∀ j, e < j → j ≤ n → seq c j = 0) :
    ∃ comp, bernsteinCompanion c = (comp, n, e) ∧
      bezierRoots ext par c =
        ((ext.eigvals comp).filter
            (fun z => decide (par.sigmaThrSq < (z.1 + 1) * (z.1 + 1) + z.2 * z.2))).map
          (fun z => cdiv z (1 + z.1, z.2)) ++ List.replicate (n - e) ((1 : K), (0 : K)) := by
  obtain ⟨comp, sc, hcomp, -⟩ := bezier_roots_complete c n e hlen he1 hen hlead hz
  refine ⟨comp, hcomp, ?_⟩
  have he0 : e ≠ 0 := by omega
  simp only [bezierRoots, hcomp, bezierRootsFilter, he0, ne_eq, not_false_eq_true, if_true]
  by_cases hne : e = n
  · subst hne; simp
  · simp [hne]

end Field

/-! ### non-vacuity -/

/-- A: the cubic of `Props/C19`: its implicit function at `(1, 1)` is the resultant, and that is not `0` -/
example : evaluate ([[0, 1, 3, 4], [0, 2, -1, 1]] : List (List ℚ)) 1 1 =
      .ok (resultant (bernPoly 3 (seq ([0, 1, 3, 4] : List ℚ)) - C 1)
        (bernPoly 3 (seq ([0, 2, -1, 1] : List ℚ)) - C 1) 3 3) ∧
    resultant (bernPoly 3 (seq ([0, 1, 3, 4] : List ℚ)) - C 1)
        (bernPoly 3 (seq ([0, 2, -1, 1] : List ℚ)) - C 1) 3 3 ≠ 0 := by
  have h := implicit_is_resultant.2.2 (0:ℚ) 1 3 4 0 2 (-1) 1 1 1
  refine ⟨h, fun h0 => ?_⟩
  rw [h0] at h
  revert h
  decide +kernel

/-- A: the non-degeneracy hypothesis holds for that cubic (`s³` coefficient of `X` is `-2`), so
    its point at `s = 1/3` is a common root in the algebraic closure of `ℚ` -/
example : ∃ s : AlgebraicClosure ℚ,
    aeval s (bernPoly 3 (seq ([0, 1, 3, 4] : List ℚ))) = algebraMap ℚ _ (34/27) ∧
    aeval s (bernPoly 3 (seq ([0, 2, -1, 1] : List ℚ))) = algebraMap ℚ _ (19/27) := by
  have hnd : (bernPoly 3 (seq ([0, 1, 3, 4] : List ℚ))).coeff 3 ≠ 0 ∨
      (bernPoly 3 (seq ([0, 2, -1, 1] : List ℚ))).coeff 3 ≠ 0 := by
    left; rw [leading_power_coefficient.2.2]; norm_num
  refine ((implicit_zero_iff_common_root ([0, 1, 3, 4] : List ℚ) [0, 2, -1, 1] rfl (by decide) (by decide)
    hnd (34/27) (19/27)).2 (AlgebraicClosure ℚ)).mp ?_
  decide +kernel

/-- A: over an algebraically closed field the hypothesis of `implicit_zero_set_algClosed` is
    satisfiable (the diagonal segment) -/
example : evaluate ([[0, 1], [0, 1]] : List (List (AlgebraicClosure ℚ))) 2 2 = .ok 0 := by
  have hnd : (bernPoly 1 (seq ([0, 1] : List (AlgebraicClosure ℚ)))).coeff 1 ≠ 0 ∨
      (bernPoly 1 (seq ([0, 1] : List (AlgebraicClosure ℚ)))).coeff 1 ≠ 0 := by
    left; rw [leading_power_coefficient.1]; norm_num
  refine (implicit_zero_set_algClosed ([0, 1] : List (AlgebraicClosure ℚ)) [0, 1] rfl (by decide) (by decide)
    hnd 2 2).mpr ⟨2, ?_, ?_⟩ <;> simp [bern, Finset.sum_range_succ, seq]

/-- A: a degree-elevated line (as a cubic net) has identically vanishing implicit function … -/
example : ∀ x y : ℚ, evaluate ([[0, 1, 2, 3], [0, 2, 4, 6]] : List (List ℚ)) x y = .ok 0 := by
  refine (implicit_identically_zero_iff ([0, 1, 2, 3] : List ℚ) [0, 2, 4, 6] rfl (by decide) (by decide)).mpr
    ⟨?_, ?_⟩
  · show (bernPoly 3 (seq ([0, 1, 2, 3] : List ℚ))).coeff 3 = 0
    rw [leading_power_coefficient.2.2]; norm_num
  · show (bernPoly 3 (seq ([0, 2, 4, 6] : List ℚ))).coeff 3 = 0
    rw [leading_power_coefficient.2.2]; norm_num

/-- … and a genuine cubic does not -/
example : ¬ ∀ x y : ℚ, evaluate ([[0, 1, 3, 4], [0, 2, -1, 1]] : List (List ℚ)) x y = .ok 0 := by
  rw [implicit_identically_zero_iff ([0, 1, 3, 4] : List ℚ) [0, 2, -1, 1] rfl (by decide) (by decide)]
  rintro ⟨h, -⟩
  have h : (bernPoly 3 (seq ([0, 1, 3, 4] : List ℚ))).coeff 3 = 0 := h
  rw [leading_power_coefficient.2.2] at h
  norm_num at h

/-- B: a size the partial theorem does not reach -/
example : det 6 (charMatrix 6 (2 : ℚ) (companionOfSigma [1, 2, 3, 4, 5, 6] 6)) = 2 ^ 6 + 321 := by
  rw [companion_charpoly [1, 2, 3, 4, 5, 6] 6 (by decide) rfl 2]
  simp [Finset.sum_range_succ, seq]; norm_num

example : det 6 (charMatrix 6 (2 : ℚ) (companionOfSigma [1, 2, 3, 4, 5, 6] 6)) = 385 := by
  decide +kernel

/-- C: a cubic implicitized, a quintic substituted: 16 coefficients -/
example : ∃ p : List ℚ, p.length = 16 ∧
    ∀ t, evalIntersectionPolynomial 55 [[0, 1, 3, 4], [0, 2, -1, 1]]
      [[0, 1, 2, 3, 4, 7], [1, 0, 1, 0, 1, 0]] t = .ok (polyval p t) :=
  composition_degree 55 [0, 1, 3, 4] [0, 2, -1, 1] [0, 1, 2, 3, 4, 7] [1, 0, 1, 0, 1, 0] rfl (by decide)
    (by decide) rfl (by decide)

/-- C: pair 2-2 on concrete nets, any externals and constants -/
example (ext : Externals ℚ) (par : Params ℚ) : ∃ p : List ℚ, p.length = 5 ∧
    (∀ t, evalIntersectionPolynomial par.vsThr [[0, 1, 3], [0, 2, -1]] [[1, 0, 2], [0, 1, 1]] t
      = .ok (polyval p t)) ∧
    toPowerBasis ext par [[0, 1, 3], [0, 2, -1]] [[1, 0, 2], [0, 1, 1]] = .ok (p.map (fun a => 3 * a)) :=
  power_basis_exact ext par [0, 1, 3] [0, 2, -1] [1, 0, 2] [0, 1, 1] rfl rfl (by decide)

/-- C: the hypotheses of `power_basis_fit_exact` are satisfiable: integer abscissae `0..6`, the
    exact interpolant as `fit` -/
example : ∃ p : List ℚ, p.length = 7 ∧
    toPowerBasis (K := ℚ)
      { fit := fun nodes vals _ => interpolate nodes vals, sqrt := id, rank := fun _ => 0,
        eigvals := fun _ => [], polyroots := fun _ => [] }
      { vsThr := 55, cheb7 := [0, 1, 2, 3, 4, 5, 6], cheb9 := [], cheb10 := [], reduceThrSq := 0,
        l2ThrSq := 0, coeffThr := 0, nonSimpleThr := 0, sigmaThrSq := 0, wiggleStart := 0, wiggleEnd := 1,
        imagWiggle := 0, zeroThr := 0 }
      [[0, 1, 3], [0, 2, -1]] [[1, 0, 2, 5], [0, 1, 1, 0]] = .ok p := by
  have hV : matMul (invVandermonde ([0, 1, 2, 3, 4, 5, 6] : List ℚ)) (vandermonde [0, 1, 2, 3, 4, 5, 6])
      = identity 7 := by decide +kernel
  obtain ⟨p, -, hp, -, h⟩ := power_basis_fit_exact (K := ℚ)
    { fit := fun nodes vals _ => interpolate nodes vals, sqrt := id, rank := fun _ => 0,
      eigvals := fun _ => [], polyroots := fun _ => [] }
    { vsThr := 55, cheb7 := [0, 1, 2, 3, 4, 5, 6], cheb9 := [], cheb10 := [], reduceThrSq := 0,
      l2ThrSq := 0, coeffThr := 0, nonSimpleThr := 0, sigmaThrSq := 0, wiggleStart := 0, wiggleEnd := 1,
      imagWiggle := 0, zeroThr := 0 }
    [0, 1, 3] [0, 2, -1] [1, 0, 2, 5] [0, 1, 1, 0] rfl rfl .pb23 [0, 1, 2, 3, 4, 5, 6] 6
    (Or.inl ⟨rfl, rfl, rfl⟩) rfl rfl (fun _ => by dsimp only) hV
  exact ⟨p, hp, h⟩

/-- D: degree 4, effective degree 2 (double root at `s = 1`) -/
example : ∃ (comp : List (List ℚ)) (sc : List ℚ), bernsteinCompanion ([2, -1, 3, 0, 0] : List ℚ) = (comp, 4, 2) ∧
    sc.length = 2 ∧ ∃ R : ℚ → ℚ, (∀ s : ℚ, bern 4 (1 - s) s (seq [2, -1, 3, 0, 0]) = (1 - s) ^ 2 * R s) ∧ R 1 ≠ 0 := by
  obtain ⟨comp, sc, h1, h2, -, -, -, h6⟩ := bezier_roots_complete ([2, -1, 3, 0, 0] : List ℚ) 4 2 rfl
    (by decide) (by decide) (by decide +kernel)
    (fun j h1 h2 => by
      have : j = 3 ∨ j = 4 := by omega
      rcases this with rfl | rfl <;> rfl)
  exact ⟨comp, sc, h1, h2, h6⟩

example (ext : Externals ℚ) (par : Params ℚ) : bezierRoots ext par [5, 0, 0] = [(1, 0), (1, 0)] :=
  (bezier_roots_complete_degenerate ext par [5, 0, 0] 2 rfl (by decide +kernel)
    (fun j h1 h2 => by
      have : j = 1 ∨ j = 2 := by omega
      rcases this with rfl | rfl <;> rfl)).1

example (ext : Externals ℚ) (par : Params ℚ) : ∃ comp, bernsteinCompanion ([2, -1, 3, 0, 0] : List ℚ) = (comp, 4, 2) ∧
    bezierRoots ext par [2, -1, 3, 0, 0] =
      ((ext.eigvals comp).filter
          (fun z => decide (par.sigmaThrSq < (z.1 + 1) * (z.1 + 1) + z.2 * z.2))).map
        (fun z => cdiv z (1 + z.1, z.2)) ++ [(1, 0), (1, 0)] :=
  bezier_roots_assembly ext par [2, -1, 3, 0, 0] 4 2 rfl (by decide) (by decide) (by decide +kernel)
    (fun j h1 h2 => by
      have : j = 3 ∨ j = 4 := by omega
      rcases this with rfl | rfl <;> rfl)

end BezierVerif.C19
