import BezierVerif.Lemmas.PipelineInst
import BezierVerif.Props.C15

/-!
# C20 — overlapping curves are reported as a shared segment, never dropped

Property theorems about the model of the geometric strategy (`Model/Geometric.lean`) run with the
concrete primitives `concretePrims py C` (`Model/GeometricInst.lean`, both variants), exact arithmetic
over an ordered field.

* **lines** (`check_lines` exit, complete): two degree-1 nets never enter the subdivision loop
  (`lines_take_check_lines_path`); collinear segments `S1 = S0 + σ0·Δ0`, `E1 = S0 + σ1·Δ0` sharing a
  segment of positive length are answered with exactly the two end points of the common part and the
  flag (`collinear_overlap_reported`, `shared_part_iff`), parallel segments without common point with
  `([], false)` (`collinear_disjoint_empty`), transversal segments with at most THE one solution and
  no flag (`transversal_lines_one_point`).
* two defects of the library, as theorems about the model:
  - F-J `opposite_direction_ordered_along_second`: for segments of opposite direction the two columns
    are ordered along the SECOND curve (the `s`-values decrease), the property demands the order of the
    first curve (`same_direction_ordered_along_first` is the conforming case);
  - F-D `touching_collinear_two_identical_columns` / `touching_collinear_counterexample`: collinear
    segments that merely touch give two identical columns and the flag instead of one point and no flag.
* **curved overlap**, decision logic of the fallback (`coincident_only_after_budget`,
  `coincident_parameters_shape`, `never_unflagged_overlap_partial`, `budget_exit_errors`): the flag is
  only set by `check_lines` or by `coincident_parameters` after the candidate budget was exceeded, and
  once the budget is exceeded the outcome is two flagged columns or an error, never an unflagged
  normal return.
* `algebraic_refuses_coincident`: the algebraic strategy refuses a vanishing intersection polynomial.
-/

namespace BezierVerif.C20

open Model BezierVerif Pipe PipeInst

set_option linter.unusedSectionVars false
set_option linter.unusedVariables false

variable {K : Type} [Field K] [LinearOrder K] [IsStrictOrderedRing K]

/-! ### lines never enter the subdivision loop -/

/-- both degree-1 nets are linearised with error `0`, `check_lines` answers, and `all_intersections`
    returns that answer (no subdivision round is run); the answer is `PipeInst.linesResult` -/
theorem lines_take_check_lines_path (py : Bool) (C : PipelineConsts K) (hE : 0 < C.geo.errValSq)
    (x0 x1 y0 y1 u0 u1 v0 v1 : K) :
    fromShape (concretePrims py C) C.geo (.curve { nodes := [[x0, x1], [y0, y1]], start := 0, stop := 1 })
      = .lin { nodes := [[x0, x1], [y0, y1]], start := 0, stop := 1 } 0 ∧
    fromShape (concretePrims py C) C.geo (.curve { nodes := [[u0, u1], [v0, v1]], start := 0, stop := 1 })
      = .lin { nodes := [[u0, u1], [v0, v1]], start := 0, stop := 1 } 0 ∧
    ∃ r, checkLines (concretePrims py C)
          (.lin { nodes := [[x0, x1], [y0, y1]], start := 0, stop := 1 } 0)
          (.lin { nodes := [[u0, u1], [v0, v1]], start := 0, stop := 1 } 0) = some r ∧
      allIntersections (concretePrims py C) C.geo [[x0, x1], [y0, y1]] [[u0, u1], [v0, v1]] = .ok r ∧
      r = linesResult (x0, y0) (x1, y1) (u0, v0) (u1, v1) :=
  ⟨fromShape_line py C hE _ rfl, fromShape_line py C hE _ rfl, _, checkLines_lines py C _ _,
    allIntersections_lines py C hE x0 x1 y0 y1 u0 u1 v0 v1, rfl⟩

/-! ### collinear segments -/

/-- collinear segments (parallel directions, second start on the first line, first segment regular) are
    `S1 = S0 + σ0·Δ0`, `E1 = S0 + σ1·Δ0`: the form in which the theorems below are stated -/
theorem collinear_params (x0 x1 y0 y1 u0 u1 v0 v1 : K) (hne : (x1, y1) ≠ (x0, y0))
    (hpar : (x1 - x0) * (v1 - v0) - (y1 - y0) * (u1 - u0) = 0)
    (hline : (u0 - x0) * (y1 - y0) - (v0 - y0) * (x1 - x0) = 0) :
    ∃ σ0 σ1 : K, u0 = x0 + σ0 * (x1 - x0) ∧ v0 = y0 + σ0 * (y1 - y0) ∧
      u1 = x0 + σ1 * (x1 - x0) ∧ v1 = y0 + σ1 * (y1 - y0) := by
  obtain ⟨σ0, σ1, h0, h1⟩ := collinear_exists_params (x0, y0) (x1, y1) (u0, v0) (u1, v1) hne
    (by simpa only [cross, psub] using hpar) (by simpa only [cross, psub] using hline)
  simp only [onLine, Prod.mk.injEq] at h0 h1
  exact ⟨σ0, σ1, h0.1, h0.2, h1.1, h1.2⟩

/-- the shared part, in the parameter of the first segment, is `[lo, hi]` with
    `lo = max 0 (min σ0 σ1)`, `hi = min 1 (max σ0 σ1)` -/
theorem shared_part_iff (x0 x1 y0 y1 σ0 σ1 s : K) (hne : (x1, y1) ≠ (x0, y0)) :
    (0 ≤ s ∧ s ≤ 1 ∧ ∃ t : K, 0 ≤ t ∧ t ≤ 1 ∧
      x0 + s * (x1 - x0) = (x0 + σ0 * (x1 - x0)) + t * ((x0 + σ1 * (x1 - x0)) - (x0 + σ0 * (x1 - x0))) ∧
      y0 + s * (y1 - y0) = (y0 + σ0 * (y1 - y0)) + t * ((y0 + σ1 * (y1 - y0)) - (y0 + σ0 * (y1 - y0)))) ↔
    max 0 (min σ0 σ1) ≤ s ∧ s ≤ min 1 (max σ0 σ1) := by
  have key := common_part_iff (x0, y0) (x1, y1) hne σ0 σ1 s
  simp only [onLine, Prod.mk.injEq] at key
  rw [max_le_iff, le_min_iff]
  constructor
  · rintro ⟨s0, s1, t, t0, t1, e1, e2⟩
    obtain ⟨k1, k2⟩ := key.mp ⟨t, t0, t1, e1, e2⟩
    exact ⟨⟨s0, k1⟩, s1, k2⟩
  · rintro ⟨⟨s0, k1⟩, s1, k2⟩
    exact ⟨s0, s1, key.mpr ⟨k1, k2⟩⟩

/-- **collinear overlap**: two collinear segments (the first regular, the second not degenerate) that share a
    segment of positive length are answered with exactly two columns and the coincident flag; the `s`-values
    are the two end points `lo`, `hi` of the shared part (`shared_part_iff`), the `t`-values the parameters of
    the same two points on the second segment; the columns are distinct and ordered along the SECOND
    segment (`c < d`) -/
theorem collinear_overlap_reported (py : Bool) (C : PipelineConsts K) (hE : 0 < C.geo.errValSq)
    (x0 x1 y0 y1 u0 u1 v0 v1 σ0 σ1 : K) (hne : (x1, y1) ≠ (x0, y0))
    (hu0 : u0 = x0 + σ0 * (x1 - x0)) (hv0 : v0 = y0 + σ0 * (y1 - y0))
    (hu1 : u1 = x0 + σ1 * (x1 - x0)) (hv1 : v1 = y0 + σ1 * (y1 - y0))
    (hσ : σ0 ≠ σ1) (hov : max 0 (min σ0 σ1) < min 1 (max σ0 σ1)) :
    ∃ a b c d : K,
      allIntersections (concretePrims py C) C.geo [[x0, x1], [y0, y1]] [[u0, u1], [v0, v1]]
        = .ok ([(a, c), (b, d)], true) ∧
      (σ0 < σ1 → a = max 0 (min σ0 σ1) ∧ b = min 1 (max σ0 σ1)) ∧
      (σ1 < σ0 → a = min 1 (max σ0 σ1) ∧ b = max 0 (min σ0 σ1)) ∧
      (x0 + a * (x1 - x0) = u0 + c * (u1 - u0) ∧ y0 + a * (y1 - y0) = v0 + c * (v1 - v0)) ∧
      (x0 + b * (x1 - x0) = u0 + d * (u1 - u0) ∧ y0 + b * (y1 - y0) = v0 + d * (v1 - v0)) ∧
      (0 ≤ a ∧ a ≤ 1) ∧ (0 ≤ b ∧ b ≤ 1) ∧ (0 ≤ c ∧ c ≤ 1) ∧ (0 ≤ d ∧ d ≤ 1) ∧
      a ≠ b ∧ c < d := by
  obtain ⟨a, b, c, d, hp, hs, ho, hc, hd, ua, ub, uc, ud, hcd⟩ := parallelParams_overlap σ0 σ1 hσ hov.le
  have hres := allIntersections_lines py C hE x0 x1 y0 y1 u0 u1 v0 v1
  have hS1 : (u0, v0) = onLine (x0, y0) (x1, y1) σ0 := by simp only [onLine, hu0, hv0]
  have hE1 : (u1, v1) = onLine (x0, y0) (x1, y1) σ1 := by simp only [onLine, hu1, hv1]
  rw [hS1, hE1, linesResult_onLine _ _ hne, hp] at hres
  have hne' : σ1 - σ0 ≠ 0 := sub_ne_zero.mpr (Ne.symm hσ)
  have ea : a = σ0 + c * (σ1 - σ0) := by rw [hc]; field_simp; ring
  have eb : b = σ0 + d * (σ1 - σ0) := by rw [hd]; field_simp; ring
  have hab : a ≠ b := by
    rcases lt_or_gt_of_ne hσ with h | h
    · obtain ⟨r1, r2⟩ := hs h; rw [r1, r2]; exact ne_of_lt hov
    · obtain ⟨r1, r2⟩ := ho h; rw [r1, r2]; exact ne_of_gt hov
  refine ⟨a, b, c, d, hres, hs, ho, ⟨?_, ?_⟩, ⟨?_, ?_⟩, ua, ub, uc, ud, hab, ?_⟩
  · rw [hu0, hu1, ea]; ring
  · rw [hv0, hv1, ea]; ring
  · rw [hu0, hu1, eb]; ring
  · rw [hv0, hv1, eb]; ring
  · rcases lt_or_eq_of_le hcd with h | h
    · exact h
    · exact absurd (by rw [ea, eb, h]) hab

/-- **parallel, no common point** (collinear but apart, or on different lines): the empty answer, no flag -/
theorem collinear_disjoint_empty (py : Bool) (C : PipelineConsts K) (hE : 0 < C.geo.errValSq)
    (x0 x1 y0 y1 u0 u1 v0 v1 : K) (hne : (x1, y1) ≠ (x0, y0))
    (hpar : (x1 - x0) * (v1 - v0) - (y1 - y0) * (u1 - u0) = 0)
    (hno : ¬ ∃ s t : K, 0 ≤ s ∧ s ≤ 1 ∧ 0 ≤ t ∧ t ≤ 1 ∧
      x0 + s * (x1 - x0) = u0 + t * (u1 - u0) ∧ y0 + s * (y1 - y0) = v0 + t * (v1 - v0)) :
    allIntersections (concretePrims py C) C.geo [[x0, x1], [y0, y1]] [[u0, u1], [v0, v1]] = .ok ([], false) := by
  have hpar' : cross (psub (x1, y1) (x0, y0)) (psub (u1, v1) (u0, v0)) = 0 := by
    simpa only [cross, psub] using hpar
  have hseg : segmentIntersection (x0, y0) (x1, y1) (u0, v0) (u1, v1) = none := by
    unfold segmentIntersection
    simp only
    rw [if_pos hpar']
  have hpl := (C16.parallel_disjoint_iff (x0, y0) (x1, y1) (u0, v0) (u1, v1) hne hpar').mpr hno
  rw [allIntersections_lines py C hE]
  unfold linesResult
  rw [hseg, hpl]

/-- conversely: parallel segments WITH a common point (overlapping or merely touching) are always answered
    with two columns and the flag -/
theorem parallel_common_point_flagged (py : Bool) (C : PipelineConsts K) (hE : 0 < C.geo.errValSq)
    (x0 x1 y0 y1 u0 u1 v0 v1 : K) (hne : (x1, y1) ≠ (x0, y0))
    (hpar : (x1 - x0) * (v1 - v0) - (y1 - y0) * (u1 - u0) = 0)
    (hcommon : ∃ s t : K, 0 ≤ s ∧ s ≤ 1 ∧ 0 ≤ t ∧ t ≤ 1 ∧
      x0 + s * (x1 - x0) = u0 + t * (u1 - u0) ∧ y0 + s * (y1 - y0) = v0 + t * (v1 - v0)) :
    ∃ a b c d : K,
      allIntersections (concretePrims py C) C.geo [[x0, x1], [y0, y1]] [[u0, u1], [v0, v1]]
        = .ok ([(a, c), (b, d)], true) := by
  have hpar' : cross (psub (x1, y1) (x0, y0)) (psub (u1, v1) (u0, v0)) = 0 := by
    simpa only [cross, psub] using hpar
  have hseg : segmentIntersection (x0, y0) (x1, y1) (u0, v0) (u1, v1) = none := by
    unfold segmentIntersection
    simp only
    rw [if_pos hpar']
  have hiff := C16.parallel_disjoint_iff (x0, y0) (x1, y1) (u0, v0) (u1, v1) hne hpar'
  rw [allIntersections_lines py C hE]
  unfold linesResult
  rw [hseg]
  cases hp : parallelLinesParameters (x0, y0) (x1, y1) (u0, v0) (u1, v1) with
  | error e => exact absurd ((C16.parallel_error_iff _ _ _ _).mp ⟨e, hp⟩) hne
  | ok r =>
    cases r with
    | none => exact absurd hcommon (hiff.mp hp)
    | some v => obtain ⟨a, b, c, d⟩ := v; exact ⟨a, b, c, d, rfl⟩

/-- **transversal segments**: at most one pair, never the flag; the pair is THE solution of
    `S0 + s·Δ0 = S1 + t·Δ1` and it is returned exactly when it lies in the unit square -/
theorem transversal_lines_one_point (py : Bool) (C : PipelineConsts K) (hE : 0 < C.geo.errValSq)
    (x0 x1 y0 y1 u0 u1 v0 v1 : K)
    (hcross : (x1 - x0) * (v1 - v0) - (y1 - y0) * (u1 - u0) ≠ 0) :
    ∃ s t : K,
      (x0 + s * (x1 - x0) = u0 + t * (u1 - u0) ∧ y0 + s * (y1 - y0) = v0 + t * (v1 - v0)) ∧
      (∀ s' t' : K, x0 + s' * (x1 - x0) = u0 + t' * (u1 - u0) → y0 + s' * (y1 - y0) = v0 + t' * (v1 - v0) →
        s' = s ∧ t' = t) ∧
      ((0 ≤ s ∧ s ≤ 1) ∧ (0 ≤ t ∧ t ≤ 1) →
        allIntersections (concretePrims py C) C.geo [[x0, x1], [y0, y1]] [[u0, u1], [v0, v1]]
          = .ok ([(s, t)], false)) ∧
      (¬ ((0 ≤ s ∧ s ≤ 1) ∧ (0 ≤ t ∧ t ≤ 1)) →
        allIntersections (concretePrims py C) C.geo [[x0, x1], [y0, y1]] [[u0, u1], [v0, v1]]
          = .ok ([], false)) := by
  have hc : cross (psub (x1, y1) (x0, y0)) (psub (u1, v1) (u0, v0)) ≠ 0 := by
    simpa only [cross, psub] using hcross
  obtain ⟨⟨s, t⟩, hst⟩ := (C16.segment_success_iff (x0, y0) (x1, y1) (u0, v0) (u1, v1)).mpr hc
  have hres := allIntersections_lines py C hE x0 x1 y0 y1 u0 u1 v0 v1
  unfold linesResult at hres
  rw [hst] at hres
  dsimp only at hres
  refine ⟨s, t, C16.segment_solution _ _ _ _ s t hst,
    fun s' t' e1 e2 => C16.segment_unique _ _ _ _ s t s' t' hst e1 e2, ?_, ?_⟩
  · intro hin
    have : (inInterval s 0 1 && inInterval t 0 1) = true := by
      rw [Bool.and_eq_true, C16.in_interval_exact, C16.in_interval_exact]; exact hin
    rw [if_pos this] at hres; exact hres
  · intro hout
    have : ¬ (inInterval s 0 1 && inInterval t 0 1) = true := by
      rw [Bool.and_eq_true, C16.in_interval_exact, C16.in_interval_exact]; exact hout
    rw [if_neg this] at hres; exact hres

/-! ### the order of the two columns (finding F-J) -/

/-- `parallel_lines_parameters`, same direction (`s0 ≤ s1`): the columns are ordered along both segments -/
theorem parallel_params_same_direction (s0 s1 a b c d : K) (h : parallelParams s0 s1 = some (a, b, c, d))
    (hle : s0 ≤ s1) : a ≤ b ∧ c ≤ d :=
  parallelParams_order_same s0 s1 a b c d h hle

/-- `parallel_lines_parameters`, opposite direction (`s1 < s0`): the `t`-values increase while the `s`-values
    DEcrease — the columns are ordered along the second segment -/
theorem parallel_params_opposite_direction (s0 s1 a b c d : K) (h : parallelParams s0 s1 = some (a, b, c, d))
    (hlt : s1 < s0) : b ≤ a ∧ c ≤ d :=
  parallelParams_order_opposite s0 s1 a b c d h hlt

/-- overlapping collinear segments of the SAME direction: the two end points of the shared part, ordered
    along the first curve (as the property demands) -/
theorem same_direction_ordered_along_first (py : Bool) (C : PipelineConsts K) (hE : 0 < C.geo.errValSq)
    (x0 x1 y0 y1 u0 u1 v0 v1 σ0 σ1 : K) (hne : (x1, y1) ≠ (x0, y0))
    (hu0 : u0 = x0 + σ0 * (x1 - x0)) (hv0 : v0 = y0 + σ0 * (y1 - y0))
    (hu1 : u1 = x0 + σ1 * (x1 - x0)) (hv1 : v1 = y0 + σ1 * (y1 - y0))
    (hdir : σ0 < σ1) (hov : max 0 σ0 < min 1 σ1) :
    ∃ c d : K,
      allIntersections (concretePrims py C) C.geo [[x0, x1], [y0, y1]] [[u0, u1], [v0, v1]]
        = .ok ([(max 0 σ0, c), (min 1 σ1, d)], true) ∧ max 0 σ0 < min 1 σ1 ∧ c < d := by
  have hov' : max 0 (min σ0 σ1) < min 1 (max σ0 σ1) := by
    rw [min_eq_left hdir.le, max_eq_right hdir.le]; exact hov
  obtain ⟨a, b, c, d, hres, hs, -, -, -, -, -, -, -, -, hcd⟩ :=
    collinear_overlap_reported py C hE x0 x1 y0 y1 u0 u1 v0 v1 σ0 σ1 hne hu0 hv0 hu1 hv1 (ne_of_lt hdir) hov'
  obtain ⟨ra, rb⟩ := hs hdir
  rw [min_eq_left hdir.le] at ra
  rw [max_eq_right hdir.le] at rb
  subst ra rb
  exact ⟨c, d, hres, hov, hcd⟩

/-- **finding F-J as a theorem about the model**: overlapping collinear segments of OPPOSITE direction are
    reported with the end points ordered along the SECOND curve: the first column is the upper end
    `min 1 σ0` of the shared part, the second the lower end `max 0 σ1` — the `s`-values decrease, contrary
    to the property ("ordered along the first curve") -/
theorem opposite_direction_ordered_along_second (py : Bool) (C : PipelineConsts K) (hE : 0 < C.geo.errValSq)
    (x0 x1 y0 y1 u0 u1 v0 v1 σ0 σ1 : K) (hne : (x1, y1) ≠ (x0, y0))
    (hu0 : u0 = x0 + σ0 * (x1 - x0)) (hv0 : v0 = y0 + σ0 * (y1 - y0))
    (hu1 : u1 = x0 + σ1 * (x1 - x0)) (hv1 : v1 = y0 + σ1 * (y1 - y0))
    (hdir : σ1 < σ0) (hov : max 0 σ1 < min 1 σ0) :
    ∃ c d : K,
      allIntersections (concretePrims py C) C.geo [[x0, x1], [y0, y1]] [[u0, u1], [v0, v1]]
        = .ok ([(min 1 σ0, c), (max 0 σ1, d)], true) ∧ max 0 σ1 < min 1 σ0 ∧ c < d := by
  have hov' : max 0 (min σ0 σ1) < min 1 (max σ0 σ1) := by
    rw [min_eq_right hdir.le, max_eq_left hdir.le]; exact hov
  obtain ⟨a, b, c, d, hres, -, ho, -, -, -, -, -, -, -, hcd⟩ :=
    collinear_overlap_reported py C hE x0 x1 y0 y1 u0 u1 v0 v1 σ0 σ1 hne hu0 hv0 hu1 hv1 (ne_of_gt hdir) hov'
  obtain ⟨ra, rb⟩ := ho hdir
  rw [max_eq_left hdir.le] at ra
  rw [min_eq_right hdir.le] at rb
  subst ra rb
  exact ⟨c, d, hres, hov, hcd⟩

/-! ### touching collinear segments (finding F-D) -/

/-- **finding F-D as a theorem about the model**: a collinear continuation of the first segment beyond its end
    point (`S1 = E0`, `E1 = S0 + σ1·Δ0` with `σ1 > 1`) shares exactly the point `E0 = S1` with it
    (`shared_part_iff`: `lo = hi = 1`), but is answered with the column `(1, 0)` TWICE and the coincident flag;
    the property demands that one point and no flag -/
theorem touching_collinear_two_identical_columns (py : Bool) (C : PipelineConsts K) (hE : 0 < C.geo.errValSq)
    (x0 x1 y0 y1 σ1 : K) (hne : (x1, y1) ≠ (x0, y0)) (hσ : 1 < σ1) :
    allIntersections (concretePrims py C) C.geo [[x0, x1], [y0, y1]]
        [[x1, x0 + σ1 * (x1 - x0)], [y1, y0 + σ1 * (y1 - y0)]] = .ok ([(1, 0), (1, 0)], true) := by
  have hS1 : (x1, y1) = onLine (x0, y0) (x1, y1) 1 := by simp only [onLine]; ext <;> simp
  have hE1 : (x0 + σ1 * (x1 - x0), y0 + σ1 * (y1 - y0)) = onLine (x0, y0) (x1, y1) σ1 := rfl
  have hp : parallelParams (1 : K) σ1 = some (1, 1, 0, 0) := by
    unfold parallelParams
    rw [if_pos hσ.le, if_neg (lt_irrefl _)]
    simp only [not_lt.mpr (zero_le_one' K), if_false]
    rw [if_neg (by linarith), if_pos hσ]
    simp
  rw [allIntersections_lines py C hE]
  conv_lhs => rw [hE1]; arg 1; arg 3; rw [hS1]
  rw [linesResult_onLine _ _ hne, hp]

/-- the same, decided for the library's constants (both variants): `[0,1]×{0}` and `[1,2]×{0}` touch in the
    single point `(1,0)` — parameters `(s,t) = (1,0)` — and are answered with two identical columns and
    the flag -/
theorem touching_collinear_counterexample :
    allIntersections (concretePrims true libConsts) libConsts.geo [[0, 1], [0, 0]] [[1, 2], [0, 0]]
      = .ok ([(1, 0), (1, 0)], true) ∧
    allIntersections (concretePrims false libConsts) libConsts.geo [[0, 1], [0, 0]] [[1, 2], [0, 0]]
      = .ok ([(1, 0), (1, 0)], true) := by
  constructor <;> decide +kernel

/-! ### curved overlap: the decision logic of the fallback -/

/-- the coincident flag is only ever set by `check_lines` (two exact lines) or by `coincident_parameters`,
    and the latter is only asked after a round left more than `maxCandidates` candidates (after pruning) -/
theorem coincident_only_after_budget (P : Prims K) (G : GeoConsts K) (n1 n2 : List (List K)) (pts : List (K × K))
    (h : allIntersections P G n1 n2 = .ok (pts, true)) :
    checkLines P (fromShape P G (.curve { nodes := n1, start := 0, stop := 1 }))
        (fromShape P G (.curve { nodes := n2, start := 0, stop := 1 })) = some (pts, true) ∨
    (coincidentParameters P G n1 n2 = .ok (some pts) ∧
      ∃ cands acc next acc', intersectOneRound P G n1 n2 cands acc = .ok (next, acc') ∧
        G.maxCandidates < (afterPrune P G next).length) := by
  unfold allIntersections at h
  dsimp only at h
  split at h
  · rename_i r hcl
    cases h
    exact Or.inl hcl
  · exact Or.inr (rounds_flag P G n1 n2 _ _ _ _ h)

/-- an unflagged normal return of the round loop means that the last round left no candidate at all
    (in particular the budget was respected in it) -/
theorem unflagged_only_when_exhausted (P : Prims K) (G : GeoConsts K) (n1 n2 : List (List K))
    (fuel : ℕ) (cands : List (Cand K × Cand K)) (acc pts : List (K × K))
    (h : allIntersections.rounds P G n1 n2 fuel cands acc = .ok (pts, false)) :
    ∃ cands' acc0 next, intersectOneRound P G n1 n2 cands' acc0 = .ok (next, pts) ∧
      (afterPrune P G next).length ≤ G.maxCandidates ∧ (afterPrune P G next).isEmpty = true :=
  rounds_unflagged P G n1 n2 fuel cands acc pts h

/-- a positive answer of `coincident_parameters` has exactly two columns, of one of the six forms of the code
    (`PipeInst.CoincidentShape`: `(sᵢ,0),(s_f,1)` / `(0,tᵢ),(1,t_f)` / the four mixed end-point forms), every
    non-literal entry being a value returned by `locate_point` on the degree-matched nets -/
theorem coincident_parameters_shape (P : Prims K) (G : GeoConsts K) (n1 n2 : List (List K)) (l : List (K × K))
    (h : coincidentParameters P G n1 n2 = .ok (some l)) :
    l.length = 2 ∧ CoincidentShape P (makeSameDegree n1 n2).1 (makeSameDegree n1 n2).2 l :=
  ⟨(coincidentParameters_shape P G n1 n2 l h).length_eq, coincidentParameters_shape P G n1 n2 l h⟩

/-- **never unflagged** (fallback logic): as soon as a round leaves more than `maxCandidates` candidates the
    call ends — with the not-implemented refusal (`coincident_parameters` said no), with an error of
    `locate_point`, or with exactly two columns and the coincident flag; it never returns normally without the
    flag.

    FULL: for regular injective curves `n1`, `n2` sharing a whole arc (sub-arcs of one parent curve),
    `allIntersections (concretePrims py C) C.geo n1 n2` is `.ok ([(s₀,t₀),(s₁,t₁)], true)` with the parameters of
    the two end points of the shared arc ordered along the first curve, or `.error .notImplemented`.  Missing:
    that overlapping arcs do exceed the budget (hull collisions persist under subdivision), and accuracy of
    `locate_point` / `vector_close` on the specialised nets. -/
theorem never_unflagged_overlap_partial (P : Prims K) (G : GeoConsts K) (n1 n2 : List (List K)) (f : ℕ)
    (cands next : List (Cand K × Cand K)) (acc acc' : List (K × K))
    (hround : intersectOneRound P G n1 n2 cands acc = .ok (next, acc'))
    (hmany : G.maxCandidates < (afterPrune P G next).length) :
    ((coincidentParameters P G n1 n2 = .ok none ∧
        allIntersections.rounds P G n1 n2 (f + 1) cands acc = .error .notImplemented) ∨
     (∃ e, coincidentParameters P G n1 n2 = .error e ∧
        allIntersections.rounds P G n1 n2 (f + 1) cands acc = .error e) ∨
     (∃ l, coincidentParameters P G n1 n2 = .ok (some l) ∧ l.length = 2 ∧
        allIntersections.rounds P G n1 n2 (f + 1) cands acc = .ok (l, true))) ∧
    ∀ pts, allIntersections.rounds P G n1 n2 (f + 1) cands acc ≠ .ok (pts, false) := by
  have h := rounds_budget_exit P G n1 n2 f cands next acc acc' hround hmany
  constructor
  · rcases h with h | ⟨e, h1, h2⟩ | ⟨l, h1, h2⟩
    · exact Or.inl h
    · exact Or.inr (Or.inl ⟨e, h1, h2⟩)
    · exact Or.inr (Or.inr ⟨l, h1, (coincidentParameters_shape P G n1 n2 l h1).length_eq, h2⟩)
  · intro pts hp
    rcases h with ⟨_, h2⟩ | ⟨e, _, h2⟩ | ⟨l, _, h2⟩ <;> rw [h2] at hp <;> cases hp

/-- with the concrete primitives the only errors of the budget exit are the documented refusal
    `NotImplementedError` and — pure-Python variant only — the `ValueError` of an ambiguous `locate_point`
    (the compiled variant turns that case into the refusal) -/
theorem budget_exit_errors (py : Bool) (C : PipelineConsts K) (n1 n2 : List (List K)) (f : ℕ)
    (cands next : List (Cand K × Cand K)) (acc acc' : List (K × K)) (e : Err)
    (hround : intersectOneRound (concretePrims py C) C.geo n1 n2 cands acc = .ok (next, acc'))
    (hmany : C.geo.maxCandidates < (afterPrune (concretePrims py C) C.geo next).length)
    (herr : allIntersections.rounds (concretePrims py C) C.geo n1 n2 (f + 1) cands acc = .error e) :
    e = .notImplemented ∨ (py = true ∧ e = .valueError) := by
  rcases rounds_budget_exit (concretePrims py C) C.geo n1 n2 f cands next acc acc' hround hmany with
    ⟨_, h2⟩ | ⟨e', h1, h2⟩ | ⟨l, _, h2⟩
  · rw [h2] at herr; cases herr; exact Or.inl rfl
  · rw [h2] at herr; cases herr
    have he : e = if py then .valueError else .notImplemented := by
      rcases coincidentParameters_error _ _ n1 n2 e h1 with h | h | h | h <;>
        exact concrete_locate_error py C _ _ e h
    cases py
    · exact Or.inl (by simpa using he)
    · exact Or.inr ⟨rfl, by simpa using he⟩
  · rw [h2] at herr; cases herr

/-! ### the algebraic strategy refuses coincident input -/

/-- a (numerically) vanishing intersection polynomial — what coincident curves produce — makes the algebraic
    strategy raise `NotImplementedError` ("coincident curves"); re-export of `C15.refuse_zero_polynomial` -/
theorem algebraic_refuses_coincident {K : Type} [Field K] [LinearOrder K]
    (ext : Alg.Externals K) (par : Alg.Params K) (A B r1 r2 : List (List K)) (raw : List K)
    (h1 : fullReduce par.reduceThrSq A = .ok r1) (h2 : fullReduce par.reduceThrSq B = .ok r2)
    (hraw : Alg.toPowerBasis ext par (if decide (ncols r1 > ncols r2) = true then r2 else r1)
      (if decide (ncols r1 > ncols r2) = true then r1 else r2) = .ok raw)
    (hsmall : Alg.polynomialNormSq raw < par.l2ThrSq) :
    Alg.intersectCurvesPrepare ext par A B = .error .notImplemented :=
  C15.refuse_zero_polynomial ext par A B r1 r2 raw h1 h2 hraw hsmall

/-! ### non-vacuity (library constants, exact rationals, both variants) -/

/-- overlap, same direction: `[0,2]` and `[1,3]` on the `x`-axis share `[1,2]`: `s ∈ [½,1]`, `t ∈ [0,½]` -/
example : allIntersections (concretePrims true libConsts) libConsts.geo [[0, 2], [0, 0]] [[1, 3], [0, 0]]
    = .ok ([(1/2, 0), (1, 1/2)], true) := by decide +kernel

example : allIntersections (concretePrims false libConsts) libConsts.geo [[0, 2], [0, 0]] [[1, 3], [0, 0]]
    = .ok ([(1/2, 0), (1, 1/2)], true) := by decide +kernel

/-- overlap, opposite direction: `[0,2]` and `3 → 1`: the first column is the UPPER end `s = 1` (F-J) -/
example : allIntersections (concretePrims true libConsts) libConsts.geo [[0, 2], [0, 0]] [[3, 1], [0, 0]]
    = .ok ([(1, 1/2), (1/2, 1)], true) := by decide +kernel

example : allIntersections (concretePrims false libConsts) libConsts.geo [[0, 2], [0, 0]] [[3, 1], [0, 0]]
    = .ok ([(1, 1/2), (1/2, 1)], true) := by decide +kernel

/-- collinear and apart -/
example : allIntersections (concretePrims true libConsts) libConsts.geo [[0, 1], [0, 0]] [[2, 3], [0, 0]]
    = .ok ([], false) := by decide +kernel

/-- crossing diagonals -/
example : allIntersections (concretePrims true libConsts) libConsts.geo [[0, 2], [0, 2]] [[0, 2], [2, 0]]
    = .ok ([(1/2, 1/2)], false) := by decide +kernel

/-- transversal lines whose intersection lies outside the second segment -/
example : allIntersections (concretePrims false libConsts) libConsts.geo [[0, 2], [0, 2]] [[3, 4], [0, -1]]
    = .ok ([], false) := by decide +kernel

/-- segments touching at one end, not collinear: that one point, no flag -/
example : allIntersections (concretePrims true libConsts) libConsts.geo [[0, 1], [0, 0]] [[1, 1], [0, 1]]
    = .ok ([(1, 0)], false) := by decide +kernel

/-- CURVED overlap through the candidate-budget exit: the parabola `(0,0),(1,2),(2,0)` and its left half
    `(0,0),(½,1),(1,1)` (different parametrisation, same arc): the two end points `s = 0, ½` ↔ `t = 0, 1` and
    the flag -/
example : allIntersections (concretePrims true libConsts) libConsts.geo [[0, 1, 2], [0, 2, 0]] [[0, 1/2, 1], [0, 1, 1]]
    = .ok ([(0, 0), (1/2, 1)], true) := by decide +kernel

/-- the same arc traversed backwards: the columns are ordered along the SECOND curve, `s` decreases from `½`
    to `0` (finding F-J on curved arcs) -/
theorem curved_opposite_direction_counterexample :
    allIntersections (concretePrims true libConsts) libConsts.geo [[0, 1, 2], [0, 2, 0]] [[1, 1/2, 0], [1, 1, 0]]
      = .ok ([(1/2, 0), (0, 1)], true) := by decide +kernel

/-- the two halves of the parabola touch in one point: that point, no flag -/
example : allIntersections (concretePrims true libConsts) libConsts.geo [[0, 1/2, 1], [0, 1, 1]] [[1, 3/2, 2], [1, 1, 0]]
    = .ok ([(1, 0)], false) := by decide +kernel

/-- the general theorems applied: same direction … -/
example : ∃ c d : ℚ,
    allIntersections (concretePrims true libConsts) libConsts.geo [[0, 2], [0, 0]] [[1, 3], [0, 0]]
      = .ok ([(max 0 (1/2), c), (min 1 (3/2), d)], true) ∧ max 0 (1/2 : ℚ) < min 1 (3/2) ∧ c < d :=
  same_direction_ordered_along_first true libConsts libConsts_errVal 0 2 0 0 1 3 0 0 (1/2) (3/2)
    (by decide +kernel) (by norm_num) (by norm_num) (by norm_num) (by norm_num) (by norm_num) (by norm_num)

/-- … opposite direction … -/
example : ∃ c d : ℚ,
    allIntersections (concretePrims true libConsts) libConsts.geo [[0, 2], [0, 0]] [[3, 1], [0, 0]]
      = .ok ([(min 1 (3/2), c), (max 0 (1/2), d)], true) ∧ max 0 (1/2 : ℚ) < min 1 (3/2) ∧ c < d :=
  opposite_direction_ordered_along_second true libConsts libConsts_errVal 0 2 0 0 3 1 0 0 (3/2) (1/2)
    (by decide +kernel) (by norm_num) (by norm_num) (by norm_num) (by norm_num) (by norm_num) (by norm_num)

/-- … and the touching defect -/
example : allIntersections (concretePrims true libConsts) libConsts.geo [[0, 1], [0, 0]]
    [[1, 0 + 2 * (1 - 0)], [0, 0 + 2 * (0 - 0)]] = .ok ([((1 : ℚ), (0 : ℚ)), (1, 0)], true) :=
  touching_collinear_two_identical_columns true libConsts libConsts_errVal 0 1 0 0 2 (by decide +kernel) (by norm_num)

end BezierVerif.C20
