import BezierVerif.Lemmas.Overlap
import BezierVerif.Props.C20
import BezierVerif.Props.C03Coverage

/-!
# C20 (curved overlap) — `coincident_parameters` on sub-arcs of one curve, exact primitives

Setting (`Lemmas/Overlap.lean`, namespace `Overlap`): a parent net `parent` (`D ≥ 1` rows of `N ≥ 2` nodes:
`ParentNet parent D N`) whose curve is injective on `[0,1]` (`InjNet thr parent`); `n1` presents the arc `[a, b]`
(`0 ≤ a < b ≤ 1`), `n2` the arc from `c` to `d` (`c, d ∈ [0,1]`, `c < d` same direction, `d < c` reversed), each
possibly degree-elevated (`Presents`; bundle `SubArcs thr P parent n1 n2 a b c d`, built by `subArcs_elevated` for
`iter elevate k (Py.specialize parent a b)`).  The primitives are EXACT (`ExactPrims thr P`):

* `locate_found` / `locate_miss`: on a net `m` (rows of ≥ 2 nodes) with injective curve,
  `P.locate m p = .ok (some s) ↔ 0 ≤ s ≤ 1 ∧ B_m(s) = p` and `P.locate m p = .ok none ↔ p` is not on the curve
  (`exact_locate_iff`); never an error;
* `specialize_eval` / `specialize_shape`: `P.specialize m x y` has the shape of `m` and its curve is
  `σ ↦ B_m(x + σ(y − x))` (true of `concretePrims`: `concrete_specialize_exact`, from `C04.specialize_correct`);
* `close_refl`: `P.vectorClose u u = true` (true of `concretePrims` for `eps ≥ 0`).  NOTHING is assumed about
  `vector_close` on different vectors: on arcs of an injective parent every comparison the code reaches is between
  equal nets (`Overlap.net_unique`: the Bernstein coefficients of a curve are unique).

`idealPrims_exact`: the record `concretePrims` with `locate` replaced by exact point location satisfies `ExactPrims`.

Local parameters: `s(x) = (x − a)/(b − a)` on the first, `t(x) = (x − c)/(d − c)` on the second net.
-/

namespace BezierVerif.C20

open Model BezierVerif Pipe PipeInst Cover Overlap

set_option linter.unusedSectionVars false
set_option linter.unusedVariables false
set_option linter.unnecessarySeqFocus false

variable {K : Type} [Field K] [LinearOrder K] [IsStrictOrderedRing K]

/-! ### the contract of the exact primitives, and what the library's routines satisfy of it -/

/-- the `locate_point` contract in iff-form -/
theorem exact_locate_iff (thr : ℕ) (P : Prims K) (hP : ExactPrims thr P) (m : List (List K)) (hm : RowsOK m)
    (hi : InjNet thr m) (p : List K) :
    (∀ s, P.locate m p = .ok (some s) ↔ 0 ≤ s ∧ s ≤ 1 ∧ evalPoint thr m s = p) ∧
    (P.locate m p = .ok none ↔ ∀ s, 0 ≤ s → s ≤ 1 → evalPoint thr m s ≠ p) :=
  ⟨fun s => hP.locate_some_iff m hm hi p s, hP.locate_none_iff m hm hi p⟩

/-- `specialize_curve` (either implementation) and `vector_close` of the library satisfy their part of the
    contract (`C04.specialize_correct`, `C04.specialize_variants_agree`) -/
theorem concrete_specialize_exact (py : Bool) (C : PipelineConsts K) (thr : ℕ) (he : 0 ≤ C.epsSq)
    (m : List (List K)) (hm : RowsOK m) (x y : K) :
    (∀ σ, evalPoint thr ((concretePrims py C).specialize m x y) σ = evalPoint thr m (x + σ * (y - x))) ∧
    ((concretePrims py C).specialize m x y).map List.length = m.map List.length ∧
    ∀ u, (concretePrims py C).vectorClose u u = true :=
  ⟨fun σ => concrete_specialize_eval py C thr m x y σ hm, concrete_specialize_shape py C m x y hm,
    concrete_close_refl py C he⟩

/-- the contract is satisfiable: the library's primitives with `locate_point` replaced by exact point location -/
theorem exact_prims_exist (thr : ℕ) (py : Bool) (C : PipelineConsts K) (he : 0 ≤ C.epsSq) :
    ∃ P : Prims K, ExactPrims thr P ∧ P.specialize = (concretePrims py C).specialize ∧
      P.vectorClose = (concretePrims py C).vectorClose ∧ P.subdivide = (concretePrims py C).subdivide ∧
      P.bboxIntersect = (concretePrims py C).bboxIntersect :=
  ⟨idealPrims thr py C, idealPrims_exact thr py C he, rfl, rfl, rfl, rfl⟩

/-- the sub-arc nets have the parent's points at the local parameters: `n1(s(x)) = parent(x) = n2(t(x))` -/
theorem shared_point (thr : ℕ) (P : Prims K) (parent n1 n2 : List (List K)) (a b c d : K)
    (h : SubArcs thr P parent n1 n2 a b c d) (x : K) :
    evalPoint thr n1 ((x - a) / (b - a)) = evalPoint thr parent x ∧
    evalPoint thr n2 ((x - c) / (d - c)) = evalPoint thr parent x := by
  obtain ⟨D, N1, N2, -, p1, p2⟩ := h.pres
  have hba : b - a ≠ 0 := sub_ne_zero.mpr (ne_of_gt h.hab)
  have hdc : d - c ≠ 0 := sub_ne_zero.mpr (Ne.symm h.hcd)
  constructor
  · rw [p1.arc]; congr 1; field_simp; ring
  · rw [p2.arc]; congr 1; field_simp; ring

/-! ### item 4: degree elevation / `make_same_degree` do not change the arcs -/

/-- `make_same_degree` returns nets of one common shape presenting the same two arcs (`C08.elevate_nodes_same_point`);
    hence every theorem below holds verbatim for sub-arcs presented at different degrees -/
theorem make_same_degree_same_arcs (thr : ℕ) (parent n1 n2 : List (List K)) (a b c d : K) (D N1 N2 : ℕ) (hD : 1 ≤ D)
    (h1 : Presents thr (evalPoint thr parent) n1 a b D N1) (h2 : Presents thr (evalPoint thr parent) n2 c d D N2) :
    (∀ σ, evalPoint thr (makeSameDegree n1 n2).1 σ = evalPoint thr n1 σ) ∧
    (∀ σ, evalPoint thr (makeSameDegree n1 n2).2 σ = evalPoint thr n2 σ) ∧
    (makeSameDegree n1 n2).1.map List.length = List.replicate D (max N1 N2) ∧
    (makeSameDegree n1 n2).2.map List.length = List.replicate D (max N1 N2) := by
  obtain ⟨p1, p2⟩ := makeSameDegree_presents h1 h2 hD
  exact ⟨fun σ => by rw [p1.arc, h1.arc], fun σ => by rw [p2.arc, h2.arc], p1.shape, p2.shape⟩

/-- the nets `elevate^k (specialize parent a b)`, `elevate^l (specialize parent c d)` (Python blossom routine; the
    Fortran routine returns the same nets: `C04.specialize_variants_agree`) satisfy the standing hypotheses -/
theorem sub_arcs_elevated (thr : ℕ) (P : Prims K) (hP : ExactPrims thr P) (parent : List (List K)) (D N : ℕ)
    (hp : ParentNet parent D N) (hD : 1 ≤ D) (hinj : InjNet thr parent) (k l : ℕ) (a b c d : K)
    (ha : 0 ≤ a) (hab : a < b) (hb : b ≤ 1) (hc : 0 ≤ c ∧ c ≤ 1) (hd : 0 ≤ d ∧ d ≤ 1) (hcd : c ≠ d) :
    SubArcs thr P parent (iter elevate k (Py.specialize parent a b)) (iter elevate l (Py.specialize parent c d))
      a b c d ∧
    F90.specialize parent a b = Py.specialize parent a b ∧ F90.specialize parent c d = Py.specialize parent c d :=
  ⟨subArcs_elevated hP hp hD hinj k l ha hab hb hc hd hcd, f90_specialize_eq parent hp.rowsOK a b,
    f90_specialize_eq parent hp.rowsOK c d⟩

/-! ### item 1: the four branches, same direction (`c < d`) -/

/-- **second inside first** (`a ≤ c < d ≤ b`; branch `s_initial`, `s_final` both located): the two ends of the
    second arc, no width test -/
theorem coincident_second_inside_first (thr : ℕ) (P : Prims K) (G : GeoConsts K) (parent n1 n2 : List (List K))
    (a b c d : K) (h : SubArcs thr P parent n1 n2 a b c d) (hcd : c < d) (h1 : a ≤ c) (h2 : d ≤ b) :
    coincidentParameters P G n1 n2 = .ok (some [((c - a) / (b - a), 0), ((d - a) / (b - a), 1)]) :=
  cp_second_inside G h.arcPair h1 (by linarith) (by linarith) h2

/-- **first inside second** (`c ≤ a < b ≤ d`, not the same arc; branch `t_initial`, `t_final` both located): the two
    ends of the first arc, no width test -/
theorem coincident_first_inside_second (thr : ℕ) (P : Prims K) (G : GeoConsts K) (parent n1 n2 : List (List K))
    (a b c d : K) (h : SubArcs thr P parent n1 n2 a b c d) (hcd : c < d) (h1 : c ≤ a) (h2 : b ≤ d)
    (hne : c < a ∨ b < d) :
    coincidentParameters P G n1 n2 = .ok (some [(0, (a - c) / (d - c)), (1, (b - c) / (d - c))]) := by
  have hab := h.hab
  apply cp_first_inside G h.arcPair
  · rintro ⟨⟨h3, -⟩, -, h4⟩
    rcases hne with hh | hh <;> linarith
  · rw [locOpt_lt c d a hcd, if_pos ⟨h1, by linarith⟩]
  · rw [locOpt_lt c d b hcd, if_pos ⟨by linarith, h2⟩]

/-- **partial overlap starting with the first curve** (`a < c ≤ b < d`, shared arc `[c, b]`; branch
    `s_initial`, `t_final` located): refused as "not coincident" when BOTH local widths `1 − s(c)`, `t(b)` are below
    `_MIN_INTERVAL_WIDTH`, otherwise the two ends of the shared arc -/
theorem coincident_partial_first_then_second (thr : ℕ) (P : Prims K) (G : GeoConsts K)
    (parent n1 n2 : List (List K)) (a b c d : K) (h : SubArcs thr P parent n1 n2 a b c d)
    (h1 : a < c) (h2 : c ≤ b) (h3 : b < d) :
    coincidentParameters P G n1 n2 =
      .ok (if 1 - (c - a) / (b - a) < G.minWidth ∧ (b - c) / (d - c) < G.minWidth then none
           else some [((c - a) / (b - a), 0), (1, (b - c) / (d - c))]) :=
  cp_partial_first G h.arcPair h1 h2 h3

/-- **partial overlap starting with the second curve** (`c < a ≤ d < b`, shared arc `[a, d]`; branch
    `s_final`, `t_initial` located) -/
theorem coincident_partial_second_then_first (thr : ℕ) (P : Prims K) (G : GeoConsts K)
    (parent n1 n2 : List (List K)) (a b c d : K) (h : SubArcs thr P parent n1 n2 a b c d)
    (h1 : c < a) (h2 : a ≤ d) (h3 : d < b) :
    coincidentParameters P G n1 n2 =
      .ok (if (d - a) / (b - a) < G.minWidth ∧ 1 - (a - c) / (d - c) < G.minWidth then none
           else some [(0, (a - c) / (d - c)), ((d - a) / (b - a), 1)]) :=
  cp_partial_second G h.arcPair h1 h2 h3

/-- **disjoint arcs** (either direction: `[a, b]` and the arc between `c` and `d` have no common parameter):
    `None` — "not coincident" (all four `locate_point` calls miss, or only misses on one side) -/
theorem coincident_disjoint_none (thr : ℕ) (P : Prims K) (G : GeoConsts K) (parent n1 n2 : List (List K))
    (a b c d : K) (h : SubArcs thr P parent n1 n2 a b c d) (hdis : b < min c d ∨ max c d < a) :
    coincidentParameters P G n1 n2 = .ok none := by
  have hab := h.hab
  have hcd := h.hcd
  apply cp_disjoint G h.arcPair
  · rintro ⟨⟨h1, h2⟩, h3, h4⟩
    rcases hdis with hh | hh
    · have := lt_of_lt_of_le hh (min_le_left c d); linarith
    · have := lt_of_le_of_lt (le_max_left c d) hh; linarith
  · rcases lt_or_gt_of_ne hcd with hlt | hlt
    · rw [locOpt_lt c d a hlt, if_neg]
      rintro ⟨h1, h2⟩
      rw [min_eq_left hlt.le, max_eq_right hlt.le] at hdis
      rcases hdis with hh | hh <;> linarith
    · rw [locOpt_gt c d a hlt, if_neg]
      rintro ⟨h1, h2⟩
      rw [min_eq_right hlt.le, max_eq_left hlt.le] at hdis
      rcases hdis with hh | hh <;> linarith
  · rcases lt_or_gt_of_ne hcd with hlt | hlt
    · rw [locOpt_lt c d b hlt, if_neg]
      rintro ⟨h1, h2⟩
      rw [min_eq_left hlt.le, max_eq_right hlt.le] at hdis
      rcases hdis with hh | hh <;> linarith
    · rw [locOpt_gt c d b hlt, if_neg]
      rintro ⟨h1, h2⟩
      rw [min_eq_right hlt.le, max_eq_left hlt.le] at hdis
      rcases hdis with hh | hh <;> linarith

/-- **`coincident_parameters` is exact on overlapping arcs of the same direction.**  Arcs `[a, b]`, `[c, d]` with a
    common parameter (`lo = max a c ≤ hi = min b d`).  The answer is the pair of end points of the shared arc
    `[lo, hi]` in local parameters `(s(lo), t(lo)), (s(hi), t(hi))`, ordered along the first (and the second)
    curve — except that a PARTIAL overlap (neither arc contains the other) whose local widths `s(hi) − s(lo)` and
    `t(hi) − t(lo)` are BOTH below `_MIN_INTERVAL_WIDTH` is answered `None` (the code's width test; in particular
    arcs that merely touch). -/
theorem coincident_parameters_exact_presented (thr : ℕ) (P : Prims K) (G : GeoConsts K)
    (parent n1 n2 : List (List K)) (a b c d : K) (h : SubArcs thr P parent n1 n2 a b c d)
    (hcd : c < d) (hov : max a c ≤ min b d) :
    coincidentParameters P G n1 n2 =
      .ok (if ¬ (a ≤ c ∧ d ≤ b) ∧ ¬ (c ≤ a ∧ b ≤ d) ∧
              (min b d - a) / (b - a) - (max a c - a) / (b - a) < G.minWidth ∧
              (min b d - c) / (d - c) - (max a c - c) / (d - c) < G.minWidth then none
           else some [((max a c - a) / (b - a), (max a c - c) / (d - c)),
                      ((min b d - a) / (b - a), (min b d - c) / (d - c))]) := by
  have hab := h.hab
  have hba : b - a ≠ 0 := sub_ne_zero.mpr (ne_of_gt hab)
  have hdc : d - c ≠ 0 := sub_ne_zero.mpr (ne_of_gt hcd)
  by_cases hA : a ≤ c ∧ d ≤ b
  · rw [coincident_second_inside_first thr P G parent n1 n2 a b c d h hcd hA.1 hA.2,
      if_neg (fun hh => hh.1 hA), max_eq_right hA.1, min_eq_right hA.2, sub_self, zero_div, div_self hdc]
  · by_cases hB : c ≤ a ∧ b ≤ d
    · have hne : c < a ∨ b < d := by
        by_contra hcon
        rw [not_or, not_lt, not_lt] at hcon
        exact hA ⟨hcon.1, hcon.2⟩
      rw [coincident_first_inside_second thr P G parent n1 n2 a b c d h hcd hB.1 hB.2 hne,
        if_neg (fun hh => hh.2.1 hB), max_eq_left hB.1, min_eq_left hB.2, sub_self, zero_div, div_self hba]
    · rcases lt_trichotomy a c with hac | hac | hac
      · have hlo : max a c = c := max_eq_right hac.le
        have hcb : c ≤ b := by rw [hlo] at hov; exact le_trans hov (min_le_left _ _)
        have hbd : b < d := by
          by_contra hcon; exact hA ⟨hac.le, not_lt.mp hcon⟩
        rw [coincident_partial_first_then_second thr P G parent n1 n2 a b c d h hac hcb hbd, hlo,
          min_eq_left hbd.le, sub_self, zero_div, div_self hba, sub_zero]
        simp only [hA, hB, not_false_eq_true, true_and]
      · subst hac
        rcases le_total d b with hdb | hdb
        · exact absurd ⟨le_rfl, hdb⟩ hA
        · exact absurd ⟨le_rfl, hdb⟩ hB
      · have hlo : max a c = a := max_eq_left hac.le
        have had : a ≤ d := by rw [hlo] at hov; exact le_trans hov (min_le_right _ _)
        have hdb : d < b := by
          by_contra hcon; exact hB ⟨hac.le, not_lt.mp hcon⟩
        rw [coincident_partial_second_then_first thr P G parent n1 n2 a b c d h hac had hdb, hlo,
          min_eq_right hdb.le, sub_self, zero_div, div_self hdc, sub_zero]
        simp only [hA, hB, not_false_eq_true, true_and]

/-- **`coincident_parameters_exact`** — the statement for `n1 = specialize parent a b`, `n2 = specialize parent c d`,
    each additionally degree-elevated `k` resp. `l` times (`k = l = 0`: the plain sub-arcs; `k ≠ l`: mixed degrees,
    matched by `make_same_degree`) -/
theorem coincident_parameters_exact (thr : ℕ) (P : Prims K) (G : GeoConsts K) (hP : ExactPrims thr P)
    (parent : List (List K)) (D N : ℕ) (hp : ParentNet parent D N) (hD : 1 ≤ D) (hinj : InjNet thr parent)
    (k l : ℕ) (a b c d : K) (ha : 0 ≤ a) (hab : a < b) (hb : b ≤ 1) (hc : 0 ≤ c) (hcd : c < d) (hd : d ≤ 1)
    (hov : max a c ≤ min b d) :
    coincidentParameters P G (iter elevate k (Py.specialize parent a b)) (iter elevate l (Py.specialize parent c d)) =
      .ok (if ¬ (a ≤ c ∧ d ≤ b) ∧ ¬ (c ≤ a ∧ b ≤ d) ∧
              (min b d - a) / (b - a) - (max a c - a) / (b - a) < G.minWidth ∧
              (min b d - c) / (d - c) - (max a c - c) / (d - c) < G.minWidth then none
           else some [((max a c - a) / (b - a), (max a c - c) / (d - c)),
                      ((min b d - a) / (b - a), (min b d - c) / (d - c))]) :=
  coincident_parameters_exact_presented thr P G parent _ _ a b c d
    (subArcs_elevated hP hp hD hinj k l ha hab hb ⟨hc, by linarith⟩ ⟨by linarith, hd⟩ (ne_of_lt hcd)) hcd hov

/-- the positive answer is ordered along the first curve and along the second: `s(lo) ≤ s(hi)`, `t(lo) ≤ t(hi)`,
    strictly when the shared arc is not a single point -/
theorem shared_arc_ordered_along_first (a b c d : K) (hab : a < b) (hcd : c < d) (hov : max a c < min b d) :
    (max a c - a) / (b - a) < (min b d - a) / (b - a) ∧ (max a c - c) / (d - c) < (min b d - c) / (d - c) := by
  constructor
  · exact div_lt_div_of_pos_right (by linarith) (sub_pos.mpr hab)
  · exact div_lt_div_of_pos_right (by linarith) (sub_pos.mpr hcd)

/-! ### item 1: opposite direction (`d < c`, the second net runs backwards) -/

/-- **finding F-J on curved arcs, as a theorem**: second arc inside the first and traversed backwards
    (`a ≤ d < c ≤ b`).  The answer is `[(s(c), 0), (s(d), 1)]`: ordered along the SECOND curve — the `s`-values
    DEcrease — whereas the property demands the order of the first curve. -/
theorem opposite_arc_ordered_along_second (thr : ℕ) (P : Prims K) (G : GeoConsts K) (parent n1 n2 : List (List K))
    (a b c d : K) (h : SubArcs thr P parent n1 n2 a b c d) (hdc : d < c) (h1 : a ≤ d) (h2 : c ≤ b) :
    coincidentParameters P G n1 n2 = .ok (some [((c - a) / (b - a), 0), ((d - a) / (b - a), 1)]) ∧
    (d - a) / (b - a) < (c - a) / (b - a) :=
  ⟨cp_second_inside G h.arcPair (by linarith) h2 h1 (by linarith),
    div_lt_div_of_pos_right (by linarith) (sub_pos.mpr h.hab)⟩

/-- opposite direction, first inside second (`d ≤ a < b ≤ c`, not the same arc): `[(0, t(a)), (1, t(b))]`, ordered
    along the first curve (the `t`-values decrease) -/
theorem opposite_first_inside_second (thr : ℕ) (P : Prims K) (G : GeoConsts K) (parent n1 n2 : List (List K))
    (a b c d : K) (h : SubArcs thr P parent n1 n2 a b c d) (hdc : d < c) (h1 : d ≤ a) (h2 : b ≤ c)
    (hne : d < a ∨ b < c) :
    coincidentParameters P G n1 n2 = .ok (some [(0, (a - c) / (d - c)), (1, (b - c) / (d - c))]) ∧
    (b - c) / (d - c) < (a - c) / (d - c) := by
  have hab := h.hab
  refine ⟨?_, (div_lt_div_right_of_neg (sub_neg.mpr hdc)).mpr (by linarith)⟩
  apply cp_first_inside G h.arcPair
  · rintro ⟨⟨h3, h4⟩, h5, h6⟩
    rcases hne with hh | hh <;> linarith
  · rw [locOpt_gt c d a hdc, if_pos ⟨h1, by linarith⟩]
  · rw [locOpt_gt c d b hdc, if_pos ⟨by linarith, h2⟩]

/-- opposite direction, partial overlap `[d, b]` (`a < d ≤ b < c`; branch `s_final`, `t_final` located):
    `[(s(d), 1), (1, t(b))]`, ordered along the first curve; width test on `1 − s(d)`, `1 − t(b)` -/
theorem opposite_partial_upper (thr : ℕ) (P : Prims K) (G : GeoConsts K) (parent n1 n2 : List (List K))
    (a b c d : K) (h : SubArcs thr P parent n1 n2 a b c d) (h1 : a < d) (h2 : d ≤ b) (h3 : b < c) :
    coincidentParameters P G n1 n2 =
      .ok (if 1 - (d - a) / (b - a) < G.minWidth ∧ 1 - (b - c) / (d - c) < G.minWidth then none
           else some [((d - a) / (b - a), 1), (1, (b - c) / (d - c))]) :=
  cp_partial_opposite_upper G h.arcPair h1 h2 h3

/-- opposite direction, partial overlap `[a, c]` (`d < a ≤ c < b`; branch `s_initial`, `t_initial` located):
    `[(0, t(a)), (s(c), 0)]`, ordered along the first curve; width test on `s(c)`, `t(a)` -/
theorem opposite_partial_lower (thr : ℕ) (P : Prims K) (G : GeoConsts K) (parent n1 n2 : List (List K))
    (a b c d : K) (h : SubArcs thr P parent n1 n2 a b c d) (h1 : d < a) (h2 : a ≤ c) (h3 : c < b) :
    coincidentParameters P G n1 n2 =
      .ok (if (c - a) / (b - a) < G.minWidth ∧ (a - c) / (d - c) < G.minWidth then none
           else some [(0, (a - c) / (d - c)), ((c - a) / (b - a), 0)]) :=
  cp_partial_opposite_lower G h.arcPair h1 h2 h3

/-- **opposite direction, all overlapping cases** (`lo = max a d ≤ hi = min b c`): the end points of the shared arc
    `[lo, hi]`; in the order of the SECOND curve `(hi, lo)` when the second arc lies inside the first (F-J), in the
    order of the first curve `(lo, hi)` otherwise; `None` for a partial overlap below the width test -/
theorem coincident_parameters_exact_opposite (thr : ℕ) (P : Prims K) (G : GeoConsts K)
    (parent n1 n2 : List (List K)) (a b c d : K) (h : SubArcs thr P parent n1 n2 a b c d)
    (hdc : d < c) (hov : max a d ≤ min b c) :
    coincidentParameters P G n1 n2 =
      .ok (if a ≤ d ∧ c ≤ b then
             some [((min b c - a) / (b - a), (min b c - c) / (d - c)),
                   ((max a d - a) / (b - a), (max a d - c) / (d - c))]
           else if ¬ (d ≤ a ∧ b ≤ c) ∧
              (min b c - a) / (b - a) - (max a d - a) / (b - a) < G.minWidth ∧
              (max a d - c) / (d - c) - (min b c - c) / (d - c) < G.minWidth then none
           else some [((max a d - a) / (b - a), (max a d - c) / (d - c)),
                      ((min b c - a) / (b - a), (min b c - c) / (d - c))]) := by
  have hab := h.hab
  have hba : b - a ≠ 0 := sub_ne_zero.mpr (ne_of_gt hab)
  have hdc' : d - c ≠ 0 := sub_ne_zero.mpr (ne_of_lt hdc)
  by_cases hA : a ≤ d ∧ c ≤ b
  · rw [(opposite_arc_ordered_along_second thr P G parent n1 n2 a b c d h hdc hA.1 hA.2).1, if_pos hA,
      max_eq_right hA.1, min_eq_right hA.2, sub_self, zero_div, div_self hdc']
  · rw [if_neg hA]
    by_cases hB : d ≤ a ∧ b ≤ c
    · have hne : d < a ∨ b < c := by
        by_contra hcon
        rw [not_or, not_lt, not_lt] at hcon
        exact hA ⟨hcon.1, hcon.2⟩
      rw [(opposite_first_inside_second thr P G parent n1 n2 a b c d h hdc hB.1 hB.2 hne).1,
        if_neg (fun hh => hh.1 hB), max_eq_left hB.1, min_eq_left hB.2, sub_self, zero_div, div_self hba]
    · rcases lt_trichotomy a d with had | had | had
      · have hlo : max a d = d := max_eq_right had.le
        have hdb : d ≤ b := by rw [hlo] at hov; exact le_trans hov (min_le_left _ _)
        have hbc : b < c := by
          by_contra hcon; exact hA ⟨had.le, not_lt.mp hcon⟩
        rw [opposite_partial_upper thr P G parent n1 n2 a b c d h had hdb hbc, hlo,
          min_eq_left hbc.le, div_self hba, div_self hdc']
        simp only [hB, not_false_eq_true, true_and]
      · subst had
        rcases le_total c b with hcb | hcb
        · exact absurd ⟨le_rfl, hcb⟩ hA
        · exact absurd ⟨le_rfl, hcb⟩ hB
      · have hlo : max a d = a := max_eq_left had.le
        have hac : a ≤ c := by rw [hlo] at hov; exact le_trans hov (min_le_right _ _)
        have hcb : c < b := by
          by_contra hcon; exact hB ⟨had.le, not_lt.mp hcon⟩
        rw [opposite_partial_lower thr P G parent n1 n2 a b c d h had hac hcb, hlo,
          min_eq_right hcb.le]
        simp only [hB, not_false_eq_true, true_and, sub_self, zero_div, sub_zero]

/-! ### item 3: arcs that touch at one end — the `coincident_parameters` stage -/

/-- **touching arcs** `[a, b]`, `[b, d]`: `coincident_parameters` locates `s_initial = 1` and `t_final = 0` only,
    forms the degenerate candidate `(1, 1) × (0, 0)` of width `0` and answers `None` through the width test
    (`0 < _MIN_INTERVAL_WIDTH`) -/
theorem touching_arcs_coincident_none (thr : ℕ) (P : Prims K) (G : GeoConsts K) (hw : 0 < G.minWidth)
    (parent n1 n2 : List (List K)) (a b d : K) (h : SubArcs thr P parent n1 n2 a b b d) (hbd : b < d) :
    coincidentParameters P G n1 n2 = .ok none := by
  have hab := h.hab
  rw [coincident_partial_first_then_second thr P G parent n1 n2 a b b d h hab le_rfl hbd,
    div_self (sub_ne_zero.mpr (ne_of_gt hab)), sub_self, sub_self, zero_div, if_pos ⟨hw, hw⟩]

/-- the same for the other order, `[a, b]` preceded by `[c, a]` -/
theorem touching_arcs_coincident_none' (thr : ℕ) (P : Prims K) (G : GeoConsts K) (hw : 0 < G.minWidth)
    (parent n1 n2 : List (List K)) (a b c : K) (h : SubArcs thr P parent n1 n2 a b c a) (hca : c < a) :
    coincidentParameters P G n1 n2 = .ok none := by
  have hab := h.hab
  rw [coincident_partial_second_then_first thr P G parent n1 n2 a b c a h hca le_rfl hab,
    div_self (sub_ne_zero.mpr (ne_of_gt hca)), sub_self, sub_self, zero_div, if_pos ⟨hw, hw⟩]

/-- **touching arcs at the level of `all_intersections`** (what the `coincident_parameters` stage alone gives):
    the coincident flag is never set by the fallback — a flagged answer can only be `check_lines`' — and as soon
    as a round exceeds the candidate budget the call is refused with `NotImplementedError`.

    FULL: `allIntersections P G n1 n2 = .ok ([(1, 0)], false) ∨ allIntersections P G n1 n2 = .error .notImplemented`
    for touching arcs of a regular injective parent.  Missing: control of the round loop — that the common end point
    is emitted (by `tangent_bbox_intersection`'s end-point check or by `from_linearized`) exactly once and nothing
    else, and that the loop terminates within the candidate budget. -/
theorem touching_arcs_one_point_partial (thr : ℕ) (P : Prims K) (G : GeoConsts K) (hw : 0 < G.minWidth)
    (parent n1 n2 : List (List K)) (a b d : K) (h : SubArcs thr P parent n1 n2 a b b d) (hbd : b < d) :
    (∀ pts, allIntersections P G n1 n2 = .ok (pts, true) →
      checkLines P (fromShape P G (.curve { nodes := n1, start := 0, stop := 1 }))
        (fromShape P G (.curve { nodes := n2, start := 0, stop := 1 })) = some (pts, true)) ∧
    (∀ (f : ℕ) (cands next : List (Cand K × Cand K)) (acc acc' : List (K × K)),
      intersectOneRound P G n1 n2 cands acc = .ok (next, acc') →
      G.maxCandidates < (afterPrune P G next).length →
      allIntersections.rounds P G n1 n2 (f + 1) cands acc = .error .notImplemented) := by
  have hnone := touching_arcs_coincident_none thr P G hw parent n1 n2 a b d h hbd
  constructor
  · intro pts hres
    rcases coincident_only_after_budget P G n1 n2 pts hres with hcl | ⟨hco, -⟩
    · exact hcl
    · rw [hnone] at hco; cases hco
  · intro f cands next acc acc' hround hmany
    rcases rounds_budget_exit P G n1 n2 f cands next acc acc' hround hmany with ⟨-, h2⟩ | ⟨e, h1, -⟩ | ⟨l, h1, -⟩
    · exact h2
    · rw [hnone] at h1; cases h1
    · rw [hnone] at h1; cases h1

/-! ### item 2: `all_intersections` on overlapping arcs -/

/-- whenever `all_intersections` sets the coincident flag on overlapping sub-arcs of the same direction, the answer
    is `check_lines`' (both nets exactly linear) or it is exactly the pair of end points of the shared arc, ordered
    along the first curve, and the overlap passed the width test — no hypothesis on the round loop -/
theorem overlap_flagged_is_shared_arc (thr : ℕ) (P : Prims K) (G : GeoConsts K) (parent n1 n2 : List (List K))
    (a b c d : K) (h : SubArcs thr P parent n1 n2 a b c d) (hcd : c < d) (hov : max a c ≤ min b d)
    (pts : List (K × K)) (hres : allIntersections P G n1 n2 = .ok (pts, true)) :
    checkLines P (fromShape P G (.curve { nodes := n1, start := 0, stop := 1 }))
        (fromShape P G (.curve { nodes := n2, start := 0, stop := 1 })) = some (pts, true) ∨
    (pts = [((max a c - a) / (b - a), (max a c - c) / (d - c)), ((min b d - a) / (b - a), (min b d - c) / (d - c))] ∧
      ¬ (¬ (a ≤ c ∧ d ≤ b) ∧ ¬ (c ≤ a ∧ b ≤ d) ∧
          (min b d - a) / (b - a) - (max a c - a) / (b - a) < G.minWidth ∧
          (min b d - c) / (d - c) - (max a c - c) / (d - c) < G.minWidth)) := by
  rcases coincident_only_after_budget P G n1 n2 pts hres with hcl | ⟨hco, -⟩
  · exact Or.inl hcl
  · right
    rw [coincident_parameters_exact_presented thr P G parent n1 n2 a b c d h hcd hov] at hco
    split_ifs at hco with hn
    · cases hco
    · simp only [Except.ok.injEq, Option.some.injEq] at hco
      exact ⟨hco.symm, hn⟩

/-- **`overlap_never_unflagged_exact`**.  Overlapping sub-arcs of the same direction, exact primitives, and the
    round-loop hypotheses `RunSound thr P G n1 n2 R tr` (`Lemmas/Overlap.lean`) for some depth `1 ≤ R ≤ maxRounds`
    and a family `tr 0 … tr maxCandidates` of common points whose `s`-parameters are more than `2^-R` apart:
    * (`nolin`) no piece of width `≥ 2^-R` of either curve is replaced by its linearisation,
    * (`box`) candidate pairs covering a tracked point have properly intersecting — not tangent — boxes,
    * (`hull`) and colliding hulls,
    * (`sub`) `subdivide_nodes` returns the two halves (true of `concretePrims`).
    Then `all_intersections` has exactly two possible outcomes, decided by the width test: the two end points of
    the shared arc ordered along the first curve WITH the coincident flag, or the refusal `NotImplementedError`.
    No other outcome: no unflagged return (empty, partial or otherwise), no `ValueError`.

    Without `RunSound` the model allows in addition (`overlap_flagged_is_shared_arc`,
    `C20.unflagged_only_when_exhausted`, `C20.never_unflagged_overlap_partial`): the `check_lines` answer for two
    nets linearised with error `0`; an error raised inside a round (`from_linearized`: Newton / unhandled parallel
    lines) or `ValueError` after `maxRounds` rounds; and an UNFLAGGED normal return when some round leaves no
    candidate before any round exceeded the budget — which does happen once the pieces are linearised before the
    budget is reached (short overlaps).

    FULL: the same conclusion from geometric hypotheses on the parent alone (regular, injective, not a straight
    line, overlap longer than `maxCandidates · 2^-R` in the first local parameter with `R` below the linearisation
    depth) instead of `RunSound`; missing: that generic interior points of the shared arc never fall on tangent
    boxes, hull soundness for faithful pieces, and the lower bound on `linearization_error` of the pieces. -/
theorem overlap_never_unflagged_exact (thr : ℕ) (P : Prims K) (G : GeoConsts K) (parent n1 n2 : List (List K))
    (a b c d : K) (h : SubArcs thr P parent n1 n2 a b c d) (hcd : c < d) (hov : max a c ≤ min b d)
    (R : ℕ) (tr : ℕ → K × K) (hS : RunSound thr P G n1 n2 R tr) (hR1 : 1 ≤ R) (hR : R ≤ G.maxRounds) :
    allIntersections P G n1 n2 =
      (if ¬ (a ≤ c ∧ d ≤ b) ∧ ¬ (c ≤ a ∧ b ≤ d) ∧
          (min b d - a) / (b - a) - (max a c - a) / (b - a) < G.minWidth ∧
          (min b d - c) / (d - c) - (max a c - c) / (d - c) < G.minWidth then .error .notImplemented
       else .ok ([((max a c - a) / (b - a), (max a c - c) / (d - c)),
                  ((min b d - a) / (b - a), (min b d - c) / (d - c))], true)) ∧
    ∀ pts, allIntersections P G n1 n2 ≠ .ok (pts, false) := by
  have hres : allIntersections P G n1 n2 =
      (if ¬ (a ≤ c ∧ d ≤ b) ∧ ¬ (c ≤ a ∧ b ≤ d) ∧
          (min b d - a) / (b - a) - (max a c - a) / (b - a) < G.minWidth ∧
          (min b d - c) / (d - c) - (max a c - c) / (d - c) < G.minWidth then .error .notImplemented
       else .ok ([((max a c - a) / (b - a), (max a c - c) / (d - c)),
                  ((min b d - a) / (b - a), (min b d - c) / (d - c))], true)) := by
    rw [allIntersections_budget hS hR1 hR, budgetExit,
      coincident_parameters_exact_presented thr P G parent n1 n2 a b c d h hcd hov]
    split_ifs <;> rfl
  refine ⟨hres, ?_⟩
  intro pts hp
  rw [hres] at hp
  split_ifs at hp <;> cases hp

/-- under the same round-loop hypotheses (any two nets): the call is decided by `coincident_parameters` alone -/
theorem run_sound_reaches_budget (thr : ℕ) (P : Prims K) (G : GeoConsts K) (n1 n2 : List (List K)) (R : ℕ)
    (tr : ℕ → K × K) (hS : RunSound thr P G n1 n2 R tr) (hR1 : 1 ≤ R) (hR : R ≤ G.maxRounds) :
    allIntersections P G n1 n2 =
      match coincidentParameters P G n1 n2 with
      | .error e => .error e
      | .ok none => .error .notImplemented
      | .ok (some params) => .ok (params, true) :=
  allIntersections_budget hS hR1 hR

/-- the opposite direction under the same hypotheses: second arc inside the first and reversed ⇒ the flagged answer
    is ordered along the SECOND curve (F-J reaches the caller) -/
theorem overlap_opposite_flagged_along_second (thr : ℕ) (P : Prims K) (G : GeoConsts K)
    (parent n1 n2 : List (List K)) (a b c d : K) (h : SubArcs thr P parent n1 n2 a b c d)
    (hdc : d < c) (h1 : a ≤ d) (h2 : c ≤ b)
    (R : ℕ) (tr : ℕ → K × K) (hS : RunSound thr P G n1 n2 R tr) (hR1 : 1 ≤ R) (hR : R ≤ G.maxRounds) :
    allIntersections P G n1 n2 = .ok ([((c - a) / (b - a), 0), ((d - a) / (b - a), 1)], true) ∧
    (d - a) / (b - a) < (c - a) / (b - a) := by
  obtain ⟨hco, hlt⟩ := opposite_arc_ordered_along_second thr P G parent n1 n2 a b c d h hdc h1 h2
  refine ⟨?_, hlt⟩
  rw [allIntersections_budget hS hR1 hR, budgetExit, hco]

/-- which `RunSound` hypotheses the library's primitives discharge by themselves: `subdivide_nodes` is faithful
    (`C03.subdivision_faithful`) and the exact box test never answers `DISJOINT` on a pair covering a common point
    (`C03.box_disjoint_sound`) — for them `box` reduces to "not `TANGENT`" -/
theorem run_sound_concrete (py : Bool) (C : PipelineConsts K) (thr : ℕ) (n1 n2 : List (List K)) (R : ℕ)
    (tr : ℕ → K × K)
    (tracked : ∀ i ≤ C.geo.maxCandidates, TrueInt thr n1 n2 (tr i).1 (tr i).2)
    (spaced : ∀ i j, i < j → j ≤ C.geo.maxCandidates → (1 / 2 : K) ^ R < (tr j).1 - (tr i).1)
    (planar1 : Planar n1) (planar2 : Planar n2)
    (nolin1 : ∀ r ≤ R, ∀ c : Cand K, CandInv thr n1 c → c.sub.stop - c.sub.start = (1 / 2) ^ r →
      ¬ (concretePrims py C).linErrSq c.sub.nodes < C.geo.errValSq)
    (nolin2 : ∀ r ≤ R, ∀ c : Cand K, CandInv thr n2 c → c.sub.stop - c.sub.start = (1 / 2) ^ r →
      ¬ (concretePrims py C).linErrSq c.sub.nodes < C.geo.errValSq)
    (nottangent : ∀ r < R, ∀ c1 c2 : Cand K, DepthInv thr n1 r c1 → DepthInv thr n2 r c2 →
      ∀ i ≤ C.geo.maxCandidates, Covers (c1, c2) (tr i).1 (tr i).2 →
      (concretePrims py C).bboxIntersect c1.sub.nodes c2.sub.nodes ≠ .tangent)
    (hull : ∀ r ≤ R, ∀ c1 c2 : Cand K, DepthInv thr n1 r c1 → DepthInv thr n2 r c2 →
      ∀ i ≤ C.geo.maxCandidates, Covers (c1, c2) (tr i).1 (tr i).2 →
      (concretePrims py C).hullCollide c1.sub.nodes c2.sub.nodes = true) :
    RunSound thr (concretePrims py C) C.geo n1 n2 R tr where
  tracked := tracked
  spaced := spaced
  planar1 := planar1
  planar2 := planar2
  sub1 := fun c hc => C03.subdivision_faithful py C C.geo thr n1 c hc
  sub2 := fun c hc => C03.subdivision_faithful py C C.geo thr n2 c hc
  nolin1 := nolin1
  nolin2 := nolin2
  box := fun r hr c1 c2 h1 h2 i hi hcov => by
    have hnd := C03.box_disjoint_sound py C thr n1 n2 c1 c2 h1.2.1 h2.2.1 _ _ hcov (tracked i hi)
    have hnt := nottangent r hr c1 c2 h1 h2 i hi hcov
    cases hb : (concretePrims py C).bboxIntersect c1.sub.nodes c2.sub.nodes with
    | intersection => rfl
    | tangent => exact absurd hb hnt
    | disjoint => exact absurd hb hnd
  hull := hull

/-! ### item 5: non-vacuity — the library's constants, exact rationals, the concrete primitives

Parent: the parabola `(2x, 4x(1−x))`, nodes `(0,0),(1,2),(2,0)`.  With the CONCRETE `locate_point` the reported
parameters are exact when the local parameters are dyadic (the Newton step starts at the exact value) and
accurate to `2⁻⁴⁰` otherwise. -/

/-- the sub-arc nets used below -/
example : Py.specialize ([[0, 1, 2], [0, 2, 0]] : List (List ℚ)) 0 (1/2) = [[0, 1/2, 1], [0, 1, 1]] ∧
    Py.specialize ([[0, 1, 2], [0, 2, 0]] : List (List ℚ)) (1/4) (3/4) = [[1/2, 1, 3/2], [3/4, 5/4, 3/4]] ∧
    Py.specialize ([[0, 1, 2], [0, 2, 0]] : List (List ℚ)) 0 (3/4) = [[0, 3/4, 3/2], [0, 3/2, 3/4]] ∧
    Py.specialize ([[0, 1, 2], [0, 2, 0]] : List (List ℚ)) (1/4) 1 = [[1/2, 5/4, 2], [3/4, 3/2, 0]] ∧
    F90.specialize ([[0, 1, 2], [0, 2, 0]] : List (List ℚ)) (1/4) 1 = [[1/2, 5/4, 2], [3/4, 3/2, 0]] := by
  decide +kernel

/-- partial overlap starting with the first curve, `[0, ½]` and `[¼, ¾]` share `[¼, ½]`: `s ∈ {½, 1}`, `t ∈ {0, ½}`,
    flagged — the whole pipeline (rounds, candidate budget, fallback) … -/
example : allIntersections (concretePrims true libConsts) libConsts.geo
    [[0, 1/2, 1], [0, 1, 1]] [[1/2, 1, 3/2], [3/4, 5/4, 3/4]] = .ok ([(1/2, 0), (1, 1/2)], true) := by decide +kernel

/-- … and the `coincident_parameters` stage alone, both variants -/
example : coincidentParameters (concretePrims true libConsts) libConsts.geo
    [[0, 1/2, 1], [0, 1, 1]] [[1/2, 1, 3/2], [3/4, 5/4, 3/4]] = .ok (some [(1/2, 0), (1, 1/2)]) := by decide +kernel

example : coincidentParameters (concretePrims false libConsts) libConsts.geo
    [[0, 1/2, 1], [0, 1, 1]] [[1/2, 1, 3/2], [3/4, 5/4, 3/4]] = .ok (some [(1/2, 0), (1, 1/2)]) := by decide +kernel

/-- the value predicted by `coincident_parameters_exact` for `a, b, c, d = 0, ½, ¼, ¾` -/
example : ([(((max 0 (1/4) : ℚ) - 0) / (1/2 - 0), (max 0 (1/4) - 1/4) / (3/4 - 1/4)),
    ((min (1/2) (3/4) - 0) / (1/2 - 0), (min (1/2) (3/4) - 1/4) / (3/4 - 1/4))] : List (ℚ × ℚ))
    = [(1/2, 0), (1, 1/2)] := by decide +kernel

/-- partial overlap starting with the second curve (the same two arcs exchanged): `[(0, ½), (½, 1)]` -/
example : coincidentParameters (concretePrims true libConsts) libConsts.geo
    [[1/2, 1, 3/2], [3/4, 5/4, 3/4]] [[0, 1/2, 1], [0, 1, 1]] = .ok (some [(0, 1/2), (1/2, 1)]) := by decide +kernel

/-- `[0, ¾]` and `[¼, 1]` share `[¼, ¾]`: exact answer `[(⅓, 0), (1, ⅔)]`; the concrete `locate_point` returns the
    non-dyadic parameters to within `2⁻⁴⁰`; ordered along the first curve -/
example : (match coincidentParameters (concretePrims true libConsts) libConsts.geo
      [[0, 3/4, 3/2], [0, 3/2, 3/4]] [[1/2, 5/4, 2], [3/4, 3/2, 0]] with
    | .ok (some [(s0, t0), (s1, t1)]) =>
      decide ((s0 - 1/3) ^ 2 ≤ 1 / 2 ^ 80 ∧ t0 = 0 ∧ s1 = 1 ∧ (t1 - 2/3) ^ 2 ≤ 1 / 2 ^ 80 ∧ s0 < s1 ∧ t0 < t1)
    | _ => false) = true := by decide +kernel

/-- second inside first: the whole parabola and its middle half: `[(¼, 0), (¾, 1)]` (through the whole pipeline:
    `C20` has the parabola and its left half) -/
example : coincidentParameters (concretePrims true libConsts) libConsts.geo
    [[0, 1, 2], [0, 2, 0]] [[1/2, 1, 3/2], [3/4, 5/4, 3/4]] = .ok (some [(1/4, 0), (3/4, 1)]) := by decide +kernel

/-- first inside second: `[(0, ¼), (1, ¾)]` -/
example : coincidentParameters (concretePrims true libConsts) libConsts.geo
    [[1/2, 1, 3/2], [3/4, 5/4, 3/4]] [[0, 1, 2], [0, 2, 0]] = .ok (some [(0, 1/4), (1, 3/4)]) := by decide +kernel

/-- mixed degrees: the middle half presented as a cubic (`elevate`), matched by `make_same_degree` -/
example : elevate ([[1/2, 1, 3/2], [3/4, 5/4, 3/4]] : List (List ℚ)) = [[1/2, 5/6, 7/6, 3/2], [3/4, 13/12, 13/12, 3/4]] := by
  decide +kernel

example : coincidentParameters (concretePrims true libConsts) libConsts.geo
    [[0, 1, 2], [0, 2, 0]] [[1/2, 5/6, 7/6, 3/2], [3/4, 13/12, 13/12, 3/4]] = .ok (some [(1/4, 0), (3/4, 1)]) := by
  decide +kernel

example : coincidentParameters (concretePrims false libConsts) libConsts.geo
    [[1/2, 5/6, 7/6, 3/2], [3/4, 13/12, 13/12, 3/4]] [[0, 1, 2], [0, 2, 0]] = .ok (some [(0, 1/4), (1, 3/4)]) := by
  decide +kernel

/-- disjoint arcs `[0, ¼]`, `[½, 1]`: nothing, no flag; `coincident_parameters` itself says `None` -/
example : allIntersections (concretePrims true libConsts) libConsts.geo
    (Py.specialize [[0, 1, 2], [0, 2, 0]] 0 (1/4)) (Py.specialize [[0, 1, 2], [0, 2, 0]] (1/2) 1) = .ok ([], false) := by
  decide +kernel

example : coincidentParameters (concretePrims true libConsts) libConsts.geo
    (Py.specialize [[0, 1, 2], [0, 2, 0]] 0 (1/4)) (Py.specialize [[0, 1, 2], [0, 2, 0]] (1/2) 1) = .ok none := by
  decide +kernel

/-- touching arcs `[0, ½]`, `[½, 1]`: exactly the one point `(1, 0)`, no flag; `coincident_parameters` says `None`
    (`touching_arcs_coincident_none`) -/
example : allIntersections (concretePrims true libConsts) libConsts.geo
    [[0, 1/2, 1], [0, 1, 1]] [[1, 3/2, 2], [1, 1, 0]] = .ok ([(1, 0)], false) := by decide +kernel

example : allIntersections (concretePrims false libConsts) libConsts.geo
    [[0, 1/2, 1], [0, 1, 1]] [[1, 3/2, 2], [1, 1, 0]] = .ok ([(1, 0)], false) := by decide +kernel

example : coincidentParameters (concretePrims true libConsts) libConsts.geo
    [[0, 1/2, 1], [0, 1, 1]] [[1, 3/2, 2], [1, 1, 0]] = .ok none := by decide +kernel

/-- reversed, second inside first: the whole parabola and its middle half run backwards (`c, d = ¾, ¼`):
    `[(¾, 0), (¼, 1)]`, the `s`-values DEcrease (`opposite_arc_ordered_along_second`, finding F-J; through the whole
    pipeline: `C20.curved_opposite_direction_counterexample`) -/
theorem curved_reversed_inside_counterexample :
    coincidentParameters (concretePrims true libConsts) libConsts.geo
      [[0, 1, 2], [0, 2, 0]] (Py.specialize [[0, 1, 2], [0, 2, 0]] (3/4) (1/4)) = .ok (some [(3/4, 0), (1/4, 1)]) := by
  decide +kernel

/-- reversed, partial overlap (`a, b, c, d = 0, ½, ¾, ¼`, shared `[¼, ½]`): `[(½, 1), (1, ½)]`, ordered along the
    first curve (`opposite_partial_upper`) -/
example : coincidentParameters (concretePrims true libConsts) libConsts.geo
    [[0, 1/2, 1], [0, 1, 1]] (Py.specialize [[0, 1, 2], [0, 2, 0]] (3/4) (1/4)) = .ok (some [(1/2, 1), (1, 1/2)]) := by
  decide +kernel

/-- reversed, partial overlap at the lower end (`a, b, c, d = ¼, ¾, ½, 0`, shared `[¼, ½]`): `[(0, ½), (½, 0)]`
    (`opposite_partial_lower`) -/
example : coincidentParameters (concretePrims true libConsts) libConsts.geo
    [[1/2, 1, 3/2], [3/4, 5/4, 3/4]] (Py.specialize [[0, 1, 2], [0, 2, 0]] (1/2) 0) = .ok (some [(0, 1/2), (1/2, 0)]) := by
  decide +kernel

/-- the hypotheses of the general theorems are satisfiable: the parabola is a `ParentNet` with injective curve (its
    `x`-coordinate is `2x`), so `coincident_parameters_exact` applies to every exact record `P`; here with mixed
    degrees (`[¼, 1]` presented as a cubic): exactly `[(⅓, 0), (1, ⅔)]` -/
example (P : Prims ℚ) (hP : ExactPrims 55 P) :
    coincidentParameters P libConsts.geo (iter elevate 0 (Py.specialize [[0, 1, 2], [0, 2, 0]] 0 (3/4)))
        (iter elevate 1 (Py.specialize [[0, 1, 2], [0, 2, 0]] (1/4) 1))
      = .ok (some [(1/3, 0), (1, 2/3)]) := by
  have := coincident_parameters_exact 55 P libConsts.geo hP _ 2 3 parabola_parentNet (by norm_num) parabola_injNet
    0 1 0 (3/4) (1/4) 1 (by norm_num) (by norm_num) (by norm_num) (by norm_num) (by norm_num) (by norm_num)
    (by norm_num)
  rw [this]
  norm_num [libConsts]

/-- `overlap_never_unflagged_exact` is not vacuous: all its hypotheses (`SubArcs`, `ExactPrims`, `RunSound` with
    depth `R = 8` and the 65 tracked points `s = ⅓ + i/200`, `t = i/200`) hold for the arcs `[0, ¾]`, `[¼, 1]` of the
    parabola and the idealised record `greedyPrims` (exact `locate_point`, the library's `subdivide_nodes`,
    `specialize_curve`, `vector_close`, generous filters); the call returns the two end points `(⅓, 0), (1, ⅔)` with
    the flag -/
example : allIntersections (greedyPrims 55 true libConsts) libConsts.geo
      (iter elevate 0 (Py.specialize [[0, 1, 2], [0, 2, 0]] 0 (3/4)))
      (iter elevate 0 (Py.specialize [[0, 1, 2], [0, 2, 0]] (1/4) 1))
    = .ok ([(1/3, 0), (1, 2/3)], true) := by
  have hP := greedyPrims_exact 55 true libConsts (by norm_num [libConsts])
  have hA : SubArcs 55 (greedyPrims 55 true libConsts) [[0, 1, 2], [0, 2, 0]]
      (iter elevate 0 (Py.specialize [[0, 1, 2], [0, 2, 0]] 0 (3/4)))
      (iter elevate 0 (Py.specialize [[0, 1, 2], [0, 2, 0]] (1/4) 1)) 0 (3/4) (1/4) 1 :=
    subArcs_elevated hP parabola_parentNet (by norm_num) parabola_injNet 0 0 (by norm_num) (by norm_num)
      (by norm_num) (by norm_num) (by norm_num) (by norm_num)
  have hpl1 : Planar (iter elevate 0 (Py.specialize ([[0, 1, 2], [0, 2, 0]] : List (List ℚ)) 0 (3/4))) :=
    (Presents.iter_elevate 0 (presents_py_specialize 55 parabola_parentNet 0 (3/4))).planar
  have hpl2 : Planar (iter elevate 0 (Py.specialize ([[0, 1, 2], [0, 2, 0]] : List (List ℚ)) (1/4) 1)) :=
    (Presents.iter_elevate 0 (presents_py_specialize 55 parabola_parentNet (1/4) 1)).planar
  have hmax : libConsts.geo.maxCandidates = 64 := rfl
  have htr : ∀ i ≤ libConsts.geo.maxCandidates, TrueInt 55
      (iter elevate 0 (Py.specialize ([[0, 1, 2], [0, 2, 0]] : List (List ℚ)) 0 (3/4)))
      (iter elevate 0 (Py.specialize ([[0, 1, 2], [0, 2, 0]] : List (List ℚ)) (1/4) 1))
      ((fun i : ℕ => ((1/3 + (i : ℚ) / 200, (i : ℚ) / 200) : ℚ × ℚ)) i).1
      ((fun i : ℕ => ((1/3 + (i : ℚ) / 200, (i : ℚ) / 200) : ℚ × ℚ)) i).2 := by
    intro i hi
    rw [hmax] at hi
    have hi' : (i : ℚ) ≤ 64 := by exact_mod_cast hi
    have hi0 : (0 : ℚ) ≤ i := Nat.cast_nonneg i
    refine ⟨by dsimp only; linarith, by dsimp only; linarith, by dsimp only; linarith, by dsimp only; linarith, ?_⟩
    obtain ⟨e1, e2⟩ := shared_point 55 _ _ _ _ 0 (3/4) (1/4) 1 hA (3/4 * (1/3 + (i : ℚ) / 200))
    dsimp only
    have a1 : (3/4 * (1/3 + (i : ℚ) / 200) - 0) / (3/4 - 0) = 1/3 + (i : ℚ) / 200 := by ring
    have a2 : (3/4 * (1/3 + (i : ℚ) / 200) - 1/4) / (1 - 1/4) = (i : ℚ) / 200 := by ring
    rw [a1] at e1
    rw [a2] at e2
    rw [e1, e2]
  have hsp : ∀ i j : ℕ, i < j → j ≤ libConsts.geo.maxCandidates → (1 / 2 : ℚ) ^ 8 <
      ((fun i : ℕ => ((1/3 + (i : ℚ) / 200, (i : ℚ) / 200) : ℚ × ℚ)) j).1 -
      ((fun i : ℕ => ((1/3 + (i : ℚ) / 200, (i : ℚ) / 200) : ℚ × ℚ)) i).1 := by
    intro i j hij _
    dsimp only
    have : (i : ℚ) + 1 ≤ j := by exact_mod_cast hij
    norm_num
    linarith
  have hrun := greedyPrims_runSound 55 true libConsts _ _ 8 _ htr hsp hpl1 hpl2
  have := (overlap_never_unflagged_exact 55 _ libConsts.geo _ _ _ 0 (3/4) (1/4) 1 hA (by norm_num) (by norm_num)
    8 _ hrun (by norm_num) (by norm_num [libConsts])).1
  rw [this]
  norm_num [libConsts]

end BezierVerif.C20
