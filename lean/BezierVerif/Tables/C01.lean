import BezierVerif.Model.Curve
import BezierVerif.Generated.Data

/-!
# Tables/C01 — extracted constants / tables of this property equal what the model derives

Every statement mentions data re-extracted from /repo's working tree on this run
(`Generated.*`) and is decided by the kernel.
-/

namespace BezierVerif.Tables.C01

open BezierVerif.Model BezierVerif.Generated

/-! ### the VS / de Casteljau switch is the same in both implementations -/
theorem vs_threshold_same : py_curve_vs_threshold = f90_curve_vs_threshold := by decide

/-! ### below the switch the running binomial of the VS loop is exact in binary64

`binom_val = binom_val * (degree - index + 1) / index`: the product `C(n,i-1)·(n-i+1)` and the
quotient `C(n,i)` must be representable (odd part `< 2^53`) for every degree that takes the VS
branch, i.e. `num_nodes ≤ thr`, `n = num_nodes - 1 < thr`.  (The first failure is `n = 55`.) -/

def choose : Nat → Nat → Nat
  | _, 0 => 1
  | 0, _+1 => 0
  | n+1, k+1 => choose n k + choose n (k+1)

def oddPart : Nat → Nat → Nat
  | 0, x => x
  | fuel+1, x => if x = 0 then 0 else if x % 2 = 0 then oddPart fuel (x / 2) else x

def rep53 (x : Nat) : Bool := oddPart 200 x < 2 ^ 53

def vsBinomialsExact (n : Nat) : Bool :=
  (List.range n).all (fun i => rep53 (choose n i * (n - i)) && rep53 (choose n (i+1)))

theorem binomials_exact_py : (List.range py_curve_vs_threshold).all vsBinomialsExact = true := by
  decide +kernel

theorem binomials_exact_f90 : (List.range f90_curve_vs_threshold).all vsBinomialsExact = true := by
  decide +kernel

/-- the threshold is tight: one more degree on the VS branch would round the running binomial -/
theorem binomials_inexact_at_55 : vsBinomialsExact 55 = false := by decide +kernel

end BezierVerif.Tables.C01
