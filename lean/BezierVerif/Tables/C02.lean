import BezierVerif.Generated.Data

/-!
# Tables/C02 — extracted constants of the Newton gate

The residual bound enforced by the C02 oracle on certified transversal inputs is
`2 (L₁+L₂) · NEWTON_ERROR_RATIO · 3/2 + rounding`; these obligations pin the constants re-extracted from
/repo's working tree on this run (Python module globals and Fortran `parameter`s) to the values the
bound and `Props/C02` (FULL statement of the gate) are written for, and to each other.
-/

namespace BezierVerif.Tables.C02

open BezierVerif.Generated

/-- relative size of the last Newton update that is accepted: `2⁻³⁶` -/
theorem py_newton_error_ratio : py_intersection_helpers_NEWTON_ERROR_RATIO = 1 / 2 ^ 36 := by decide +kernel
theorem f90_newton_error_ratio : f90_curve_intersection_NEWTON_ERROR_RATIO = 1 / 2 ^ 36 := by decide +kernel
/-- parameters below `2⁻¹⁰` are reflected (`1 - s`) before iterating, so that `‖p‖₂ ≥ 2⁻¹⁰` in the relative test -/
theorem py_zero_threshold : py_intersection_helpers_ZERO_THRESHOLD = 1 / 2 ^ 10 := by decide +kernel
theorem f90_zero_threshold : f90_curve_intersection_ZERO_THRESHOLD = 1 / 2 ^ 10 := by decide +kernel
/-- at most 10 Newton updates per regime (Python constant; the Fortran loop bound is a literal) -/
theorem py_max_newton_iterations : py_intersection_helpers_MAX_NEWTON_ITERATIONS = 10 := by decide +kernel
/-- the clamp applied to every reported parameter moves it by less than `2⁻⁴⁴` -/
theorem f90_wiggle : f90_helpers_WIGGLE = 1 / 2 ^ 44 := by decide +kernel

end BezierVerif.Tables.C02
