import BezierVerif.Generated.Data

/-!
# Tables/C03 — extracted constants of the subdivision loop agree between the two implementations

`Props/C03` proves that pruning `DISJOINT` boxes is safe and that `TANGENT` boxes need end points only
(with the side condition); these obligations pin the enum values and loop limits re-extracted from
/repo's working tree on this run, so that the pure-Python and the compiled configuration explore the
same candidate tree.
-/

namespace BezierVerif.Tables.C03

open BezierVerif.Generated

theorem box_enum_intersection : f90_curve_intersection_BoxIntersectionType_INTERSECTION = 0 := by decide +kernel
theorem box_enum_tangent : f90_curve_intersection_BoxIntersectionType_TANGENT = 1 := by decide +kernel
theorem box_enum_disjoint : f90_curve_intersection_BoxIntersectionType_DISJOINT = 2 := by decide +kernel
/-- the algebraic strategy's early exit uses the same `DISJOINT` value -/
theorem box_enum_disjoint_py : py_algebraic_intersection_DISJOINT = f90_curve_intersection_BoxIntersectionType_DISJOINT := by
  decide +kernel
theorem max_subdivisions_agree :
    py_geometric_intersection_MAX_INTERSECT_SUBDIVISIONS = f90_curve_intersection_MAX_INTERSECT_SUBDIVISIONS ∧
    py_geometric_intersection_MAX_INTERSECT_SUBDIVISIONS = 20 := by decide +kernel
theorem max_candidates_agree :
    py_geometric_intersection_MAX_CANDIDATES = f90_curve_intersection_MAX_CANDIDATES ∧
    py_geometric_intersection_MAX_CANDIDATES = 64 := by decide +kernel
/-- a sub-curve is replaced by its chord when its linearization error is below `2⁻²⁶` (relative) -/
theorem linearization_threshold_agree :
    py_geometric_intersection_ERROR_VAL = f90_curve_intersection_LINEARIZATION_THRESHOLD ∧
    py_geometric_intersection_ERROR_VAL = 1 / 2 ^ 26 := by decide +kernel
theorem min_interval_width_agree :
    py_geometric_intersection_MIN_INTERVAL_WIDTH = f90_curve_intersection_MIN_INTERVAL_WIDTH ∧
    py_geometric_intersection_MIN_INTERVAL_WIDTH = 1 / 2 ^ 40 := by decide +kernel
/-- `vector_close` (end-point comparison of `tangent_bbox_intersection`): relative `2⁻⁴⁰` in both -/
theorem vector_close_eps_agree : py_helpers_EPS = f90_helpers_VECTOR_CLOSE_EPS ∧ py_helpers_EPS = 1 / 2 ^ 40 := by
  decide +kernel

end BezierVerif.Tables.C03
