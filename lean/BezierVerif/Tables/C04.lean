import BezierVerif.Model.Curve
import BezierVerif.Generated.Data

/-!
# Tables/C04 — extracted constants / tables of this property equal what the model derives

Every statement mentions data re-extracted from /repo's working tree on this run
(`Generated.*`) and is decided by the kernel.
-/

namespace BezierVerif.Tables.C04

open BezierVerif.Model BezierVerif.Generated

/-! ### subdivision: six Python matrices and the Fortran closed forms are the generic construction -/
theorem py_linear_left : py_curve_helpers_LINEAR_SUBDIVIDE_LEFT = leftMat 1 := by decide +kernel
theorem py_linear_right : py_curve_helpers_LINEAR_SUBDIVIDE_RIGHT = rightMat 1 := by decide +kernel
theorem py_quadratic_left : py_curve_helpers_QUADRATIC_SUBDIVIDE_LEFT = leftMat 2 := by decide +kernel
theorem py_quadratic_right : py_curve_helpers_QUADRATIC_SUBDIVIDE_RIGHT = rightMat 2 := by decide +kernel
theorem py_cubic_left : py_curve_helpers_CUBIC_SUBDIVIDE_LEFT = leftMat 3 := by decide +kernel
theorem py_cubic_right : py_curve_helpers_CUBIC_SUBDIVIDE_RIGHT = rightMat 3 := by decide +kernel
theorem f90_left_2 : f90_curve_subdivide_left_2 = leftMat 1 := by decide +kernel
theorem f90_right_2 : f90_curve_subdivide_right_2 = rightMat 1 := by decide +kernel
theorem f90_left_3 : f90_curve_subdivide_left_3 = leftMat 2 := by decide +kernel
theorem f90_right_3 : f90_curve_subdivide_right_3 = rightMat 2 := by decide +kernel
theorem f90_left_4 : f90_curve_subdivide_left_4 = leftMat 3 := by decide +kernel
theorem f90_right_4 : f90_curve_subdivide_right_4 = rightMat 3 := by decide +kernel

end BezierVerif.Tables.C04
