import BezierVerif.Model.Triangle
import BezierVerif.Generated.Data

/-!
# Tables/C05 — extracted facts of triangle evaluation

`harness/extract.py` reports the declared type of the running binomial `binom_val` in the Fortran
routines `evaluate_barycentric_multi` and `evaluate_cartesian_multi` (`evaluate_barycentric` calls
the former).  The model has both forms (`F90.evalBarycentricRow`: `integer(c_int)`,
`F90.evalBarycentricRowReal`: `real(c_double)`); the statements below say which degrees are safe
for the 32-bit form, by running the exact loop recurrence
`binom_val = (binom_val * (k + 1)) / (degree - k)`, `k = degree-1, …, 0`.
-/

namespace BezierVerif.Tables.C05

open BezierVerif.Model BezierVerif.Generated

/-- the declared type is one of the two forms the model has -/
theorem binom_type_multi_modelled :
    f90_triangle_evaluate_barycentric_multi_binom_type = "int32" ∨
    f90_triangle_evaluate_barycentric_multi_binom_type = "real" := by decide

theorem binom_type_cartesian_modelled :
    f90_triangle_evaluate_cartesian_multi_binom_type = "int32" ∨
    f90_triangle_evaluate_cartesian_multi_binom_type = "real" := by decide

/-- both routines use the same type (one model variant serves both) -/
theorem binom_type_same :
    f90_triangle_evaluate_barycentric_multi_binom_type = f90_triangle_evaluate_cartesian_multi_binom_type := by
  decide

/-- the curve routine called on every row switches algorithm at the same size in both
    implementations -/
theorem vs_threshold_same : py_curve_vs_threshold = f90_curve_vs_threshold := by decide

/-- largest degree for which the loop is safe with the given declared type (`none`: no bound) -/
def safeDegree (ty : String) : Option Nat := if ty = "int32" then some 29 else none

/-- with 32-bit arithmetic no product `binom_val * (k + 1)` leaves the `integer(c_int)` range for
    any degree `≤ 29`, and every value of the running binomial is the one computed in unbounded
    integers -/
theorem int32_no_overflow_le_29 :
    (List.range 30).all (fun d => !F90.binomOverflows d &&
      (List.range (d+1)).all (fun t => F90.binomAfter d t == F90.binomAfterExact d t)) = true := by
  decide +kernel

/-- degree 30 is the first degree with an overflow: `C(30,16)·16 = 2326762800 > 2^31 - 1`, and
    the running binomial continues with `-131213633` instead of `C(30,15) = 155117520` -/
theorem int32_overflow_at_30 :
    F90.binomOverflows 30 = true ∧
    F90.binomAfter 30 14 * 16 = 2326762800 ∧ wrap32 2326762800 = -1968204496 ∧
    F90.binomAfter 30 15 = -131213633 ∧ F90.binomAfterExact 30 15 = 155117520 := by
  decide +kernel

/-- every degree from 30 to 60 overflows -/
theorem int32_overflow_30_to_60 :
    (List.range' 30 31).all F90.binomOverflows = true := by decide +kernel

/-- the bound used by the correspondence script for the extracted type -/
theorem safe_degree_of_extracted_type :
    safeDegree f90_triangle_evaluate_barycentric_multi_binom_type = some 29 ∨
    safeDegree f90_triangle_evaluate_barycentric_multi_binom_type = none := by decide

end BezierVerif.Tables.C05
