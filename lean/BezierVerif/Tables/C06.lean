import BezierVerif.Model.Classify
import BezierVerif.Generated.Data

/-!
# Tables/C06 — constants of the intersection classification, re-extracted from the current tree on every
run, equal the model's: `ALMOST_TANGENT` (Python and Fortran), the `IntersectionClassification` enum values
(Python and Fortran), the `BoxIntersectionType` code used by the gate and the `TriangleContained` enum.
-/

namespace BezierVerif.Tables.C06

open BezierVerif.Model BezierVerif.Model.Classify BezierVerif.Generated

theorem py_almost_tangent : py_triangle_helpers_ALMOST_TANGENT = (almostTangent : Rat) := by decide +kernel
theorem f90_almost_tangent : f90_triangle_intersection_ALMOST_TANGENT = (almostTangent : Rat) := by decide +kernel

/-- the model's enum codes in the order of the constructors -/
def codes : List Int :=
  [Cls.first, Cls.second, Cls.opposed, Cls.tangentFirst, Cls.tangentSecond, Cls.ignoredCorner, Cls.tangentBoth,
   Cls.coincident, Cls.coincidentUnused].map (fun c => (c.code : Int))

theorem py_classification :
    [py_intersection_helpers_IntersectionClassification_FIRST, py_intersection_helpers_IntersectionClassification_SECOND,
     py_intersection_helpers_IntersectionClassification_OPPOSED, py_intersection_helpers_IntersectionClassification_TANGENT_FIRST,
     py_intersection_helpers_IntersectionClassification_TANGENT_SECOND, py_intersection_helpers_IntersectionClassification_IGNORED_CORNER,
     py_intersection_helpers_IntersectionClassification_TANGENT_BOTH, py_intersection_helpers_IntersectionClassification_COINCIDENT,
     py_intersection_helpers_IntersectionClassification_COINCIDENT_UNUSED] = codes := by decide +kernel

theorem f90_classification :
    [f90_triangle_intersection_IntersectionClassification_FIRST, f90_triangle_intersection_IntersectionClassification_SECOND,
     f90_triangle_intersection_IntersectionClassification_OPPOSED, f90_triangle_intersection_IntersectionClassification_TANGENT_FIRST,
     f90_triangle_intersection_IntersectionClassification_TANGENT_SECOND, f90_triangle_intersection_IntersectionClassification_IGNORED_CORNER,
     f90_triangle_intersection_IntersectionClassification_TANGENT_BOTH, f90_triangle_intersection_IntersectionClassification_COINCIDENT,
     f90_triangle_intersection_IntersectionClassification_COINCIDENT_UNUSED] = codes := by decide +kernel

/-- `Cls.ofCode` inverts `Cls.code` (the driver decodes with it) -/
theorem ofCode_code : ∀ c : Cls, Cls.ofCode c.code = some c := by
  intro c; cases c <;> rfl

theorem py_box_intersection : py_triangle_intersection_INTERSECTION_T = (BoxType.intersection.code : Int) := by
  decide +kernel

end BezierVerif.Tables.C06
