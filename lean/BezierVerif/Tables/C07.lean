import BezierVerif.Generated.Data

/-!
# Tables/C07 — constants shared by the two implementations are equal

Every threshold / loop bound / enum value that exists both in the Python and in the Fortran source
is re-extracted on every run; the kernel decides that the two agree.
-/

namespace BezierVerif.Tables.C07

open BezierVerif.Generated

theorem vs_threshold : py_curve_vs_threshold = f90_curve_vs_threshold := by decide
theorem reduce_threshold : py_curve_helpers_REDUCE_THRESHOLD = f90_curve_REDUCE_THRESHOLD := by decide +kernel
theorem locate_std_cap : py_curve_helpers_LOCATE_STD_CAP = f90_curve_LOCATE_STD_CAP := by decide +kernel
theorem locate_subdivisions : py_curve_helpers_MAX_LOCATE_SUBDIVISIONS = f90_curve_MAX_LOCATE_SUBDIVISIONS := by decide
theorem vector_close_eps : py_helpers_EPS = f90_helpers_VECTOR_CLOSE_EPS := by decide +kernel
theorem linearization_threshold : py_geometric_intersection_ERROR_VAL = f90_curve_intersection_LINEARIZATION_THRESHOLD := by decide +kernel
theorem max_intersect_subdivisions : py_geometric_intersection_MAX_INTERSECT_SUBDIVISIONS = f90_curve_intersection_MAX_INTERSECT_SUBDIVISIONS := by decide
theorem max_candidates : py_geometric_intersection_MAX_CANDIDATES = f90_curve_intersection_MAX_CANDIDATES := by decide
theorem min_interval_width : py_geometric_intersection_MIN_INTERVAL_WIDTH = f90_curve_intersection_MIN_INTERVAL_WIDTH := by decide +kernel
theorem newton_zero_threshold : py_intersection_helpers_ZERO_THRESHOLD = f90_curve_intersection_ZERO_THRESHOLD := by decide +kernel
theorem newton_error_ratio : py_intersection_helpers_NEWTON_ERROR_RATIO = f90_curve_intersection_NEWTON_ERROR_RATIO := by decide +kernel
theorem triangle_locate_eps : py_triangle_intersection_LOCATE_EPS = f90_triangle_intersection_LOCATE_EPS := by decide +kernel
theorem triangle_locate_subdivisions : py_triangle_intersection_MAX_LOCATE_SUBDIVISIONS = f90_triangle_intersection_MAX_LOCATE_SUBDIVISIONS := by decide
theorem almost_tangent : py_triangle_helpers_ALMOST_TANGENT = f90_triangle_intersection_ALMOST_TANGENT := by decide +kernel

theorem classification_enum :
    [py_intersection_helpers_IntersectionClassification_FIRST, py_intersection_helpers_IntersectionClassification_SECOND,
     py_intersection_helpers_IntersectionClassification_OPPOSED, py_intersection_helpers_IntersectionClassification_TANGENT_FIRST,
     py_intersection_helpers_IntersectionClassification_TANGENT_SECOND, py_intersection_helpers_IntersectionClassification_IGNORED_CORNER,
     py_intersection_helpers_IntersectionClassification_TANGENT_BOTH, py_intersection_helpers_IntersectionClassification_COINCIDENT,
     py_intersection_helpers_IntersectionClassification_COINCIDENT_UNUSED] =
    [f90_triangle_intersection_IntersectionClassification_FIRST, f90_triangle_intersection_IntersectionClassification_SECOND,
     f90_triangle_intersection_IntersectionClassification_OPPOSED, f90_triangle_intersection_IntersectionClassification_TANGENT_FIRST,
     f90_triangle_intersection_IntersectionClassification_TANGENT_SECOND, f90_triangle_intersection_IntersectionClassification_IGNORED_CORNER,
     f90_triangle_intersection_IntersectionClassification_TANGENT_BOTH, f90_triangle_intersection_IntersectionClassification_COINCIDENT,
     f90_triangle_intersection_IntersectionClassification_COINCIDENT_UNUSED] := by decide

end BezierVerif.Tables.C07
