import BezierVerif.Model.Curve
import BezierVerif.Generated.Data

/-!
# Tables/C08 — extracted constants / tables of this property equal what the model derives

Every statement mentions data re-extracted from /repo's working tree on this run
(`Generated.*`) and is decided by the kernel.
-/

namespace BezierVerif.Tables.C08

open BezierVerif.Model BezierVerif.Generated

/-- divide every entry (tables stored as numerator matrix + denominator) -/
def divMat (m : List (List Rat)) (d : Rat) : List (List Rat) := m.map (fun r => r.map (fun x => x / d))

/-! ### reduction: tables / denominators and Fortran closed forms are the model's pseudo-inverse -/
theorem py_reduction0 : some (divMat py_curve_helpers_REDUCTION0 py_curve_helpers_REDUCTION_DENOM0) = reductionMat 2 := by decide +kernel
theorem py_reduction1 : some (divMat py_curve_helpers_REDUCTION1 py_curve_helpers_REDUCTION_DENOM1) = reductionMat 3 := by decide +kernel
theorem py_reduction2 : some (divMat py_curve_helpers_REDUCTION2 py_curve_helpers_REDUCTION_DENOM2) = reductionMat 4 := by decide +kernel
theorem py_reduction3 : some (divMat py_curve_helpers_REDUCTION3 py_curve_helpers_REDUCTION_DENOM3) = reductionMat 5 := by decide +kernel
theorem f90_reduce_2 : some f90_curve_reduce_2 = reductionMat 2 := by decide +kernel
theorem f90_reduce_3 : some f90_curve_reduce_3 = reductionMat 3 := by decide +kernel
theorem f90_reduce_4 : some f90_curve_reduce_4 = reductionMat 4 := by decide +kernel
theorem f90_reduce_5 : some f90_curve_reduce_5 = reductionMat 5 := by decide +kernel

/-! ### projection (`maybe_reduce` / `can_reduce`): tables are `R · E` -/
theorem py_projection0 : some (divMat py_curve_helpers_PROJECTION0 py_curve_helpers_PROJ_DENOM0) = projectionMat 2 := by decide +kernel
theorem py_projection1 : some (divMat py_curve_helpers_PROJECTION1 py_curve_helpers_PROJ_DENOM1) = projectionMat 3 := by decide +kernel
theorem py_projection2 : some (divMat py_curve_helpers_PROJECTION2 py_curve_helpers_PROJ_DENOM2) = projectionMat 4 := by decide +kernel
theorem py_projection3 : some (divMat py_curve_helpers_PROJECTION3 py_curve_helpers_PROJ_DENOM3) = projectionMat 5 := by decide +kernel
theorem f90_project_2 : some f90_curve_project_2 = projectionMat 2 := by decide +kernel
theorem f90_project_3 : some f90_curve_project_3 = projectionMat 3 := by decide +kernel
theorem f90_project_4 : some f90_curve_project_4 = projectionMat 4 := by decide +kernel
theorem f90_project_5 : some f90_curve_project_5 = projectionMat 5 := by decide +kernel

theorem reduce_threshold_same : py_curve_helpers_REDUCE_THRESHOLD = f90_curve_REDUCE_THRESHOLD := by decide +kernel

end BezierVerif.Tables.C08
