import BezierVerif.Model.Triangle
import BezierVerif.Generated.Data

/-!
# Tables/C09a (Python: 16 tables, 6 weights) — extracted subdivision data of triangles equal what the model derives

Every statement mentions data re-extracted from /repo's working tree on this run
(`Generated.*`) and is decided by the kernel.  `triSubdivMat W d q` is the operator matrix of
quarter `q` derived from the generic path of the model (`F90.triSpecializeRow` on every unit net
with the weight triples of `subdivide_nodes`).
-/

namespace BezierVerif.Tables.C09a

open BezierVerif.Model BezierVerif.Generated

/-- the six weight constants of the model -/
abbrev W : SubWeights Rat := subWeights

/-! ### the six module constants `_WEIGHTS_SUBDIVIDE0 … 5` -/
def asList (w : Bary Rat) : List Rat := [w.l1, w.l2, w.l3]
theorem weights0 : py_triangle_helpers_WEIGHTS_SUBDIVIDE0 = asList W.w0 := by decide +kernel
theorem weights1 : py_triangle_helpers_WEIGHTS_SUBDIVIDE1 = asList W.w1 := by decide +kernel
theorem weights2 : py_triangle_helpers_WEIGHTS_SUBDIVIDE2 = asList W.w2 := by decide +kernel
theorem weights3 : py_triangle_helpers_WEIGHTS_SUBDIVIDE3 = asList W.w3 := by decide +kernel
theorem weights4 : py_triangle_helpers_WEIGHTS_SUBDIVIDE4 = asList W.w4 := by decide +kernel
theorem weights5 : py_triangle_helpers_WEIGHTS_SUBDIVIDE5 = asList W.w5 := by decide +kernel

/-! ### the 16 hard-coded matrices are the generic construction -/
theorem py_linear_A : py_triangle_helpers_LINEAR_SUBDIVIDE_A = triSubdivMat W 1 .A := by decide +kernel
theorem py_linear_B : py_triangle_helpers_LINEAR_SUBDIVIDE_B = triSubdivMat W 1 .B := by decide +kernel
theorem py_linear_C : py_triangle_helpers_LINEAR_SUBDIVIDE_C = triSubdivMat W 1 .C := by decide +kernel
theorem py_linear_D : py_triangle_helpers_LINEAR_SUBDIVIDE_D = triSubdivMat W 1 .D := by decide +kernel
theorem py_quadratic_A : py_triangle_helpers_QUADRATIC_SUBDIVIDE_A = triSubdivMat W 2 .A := by decide +kernel
theorem py_quadratic_B : py_triangle_helpers_QUADRATIC_SUBDIVIDE_B = triSubdivMat W 2 .B := by decide +kernel
theorem py_quadratic_C : py_triangle_helpers_QUADRATIC_SUBDIVIDE_C = triSubdivMat W 2 .C := by decide +kernel
theorem py_quadratic_D : py_triangle_helpers_QUADRATIC_SUBDIVIDE_D = triSubdivMat W 2 .D := by decide +kernel
theorem py_cubic_A : py_triangle_helpers_CUBIC_SUBDIVIDE_A = triSubdivMat W 3 .A := by decide +kernel
theorem py_cubic_B : py_triangle_helpers_CUBIC_SUBDIVIDE_B = triSubdivMat W 3 .B := by decide +kernel
theorem py_cubic_C : py_triangle_helpers_CUBIC_SUBDIVIDE_C = triSubdivMat W 3 .C := by decide +kernel
theorem py_cubic_D : py_triangle_helpers_CUBIC_SUBDIVIDE_D = triSubdivMat W 3 .D := by decide +kernel
theorem py_quartic_A : py_triangle_helpers_QUARTIC_SUBDIVIDE_A = triSubdivMat W 4 .A := by decide +kernel
theorem py_quartic_B : py_triangle_helpers_QUARTIC_SUBDIVIDE_B = triSubdivMat W 4 .B := by decide +kernel
theorem py_quartic_C : py_triangle_helpers_QUARTIC_SUBDIVIDE_C = triSubdivMat W 4 .C := by decide +kernel
theorem py_quartic_D : py_triangle_helpers_QUARTIC_SUBDIVIDE_D = triSubdivMat W 4 .D := by decide +kernel

end BezierVerif.Tables.C09a
