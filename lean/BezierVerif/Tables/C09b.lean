import BezierVerif.Model.Triangle
import BezierVerif.Generated.Data

/-!
# Tables/C09b (Fortran: 16 closed forms, workspace sizes) — extracted subdivision data of triangles equal what the model derives

Every statement mentions data re-extracted from /repo's working tree on this run
(`Generated.*`) and is decided by the kernel.  `triSubdivMat W d q` is the operator matrix of
quarter `q` derived from the generic path of the model (`F90.triSpecializeRow` on every unit net
with the weight triples of `subdivide_nodes`).
-/

namespace BezierVerif.Tables.C09b

open BezierVerif.Model BezierVerif.Generated

/-- the six weight constants of the model -/
abbrev W : SubWeights Rat := subWeights

/-! ### the closed forms of `subdivide_nodes` (degree 1–4) are the generic construction -/
theorem f90_A_1 : f90_triangle_subdivide_A_1 = triSubdivMat W 1 .A := by decide +kernel
theorem f90_B_1 : f90_triangle_subdivide_B_1 = triSubdivMat W 1 .B := by decide +kernel
theorem f90_C_1 : f90_triangle_subdivide_C_1 = triSubdivMat W 1 .C := by decide +kernel
theorem f90_D_1 : f90_triangle_subdivide_D_1 = triSubdivMat W 1 .D := by decide +kernel
theorem f90_A_2 : f90_triangle_subdivide_A_2 = triSubdivMat W 2 .A := by decide +kernel
theorem f90_B_2 : f90_triangle_subdivide_B_2 = triSubdivMat W 2 .B := by decide +kernel
theorem f90_C_2 : f90_triangle_subdivide_C_2 = triSubdivMat W 2 .C := by decide +kernel
theorem f90_D_2 : f90_triangle_subdivide_D_2 = triSubdivMat W 2 .D := by decide +kernel
theorem f90_A_3 : f90_triangle_subdivide_A_3 = triSubdivMat W 3 .A := by decide +kernel
theorem f90_B_3 : f90_triangle_subdivide_B_3 = triSubdivMat W 3 .B := by decide +kernel
theorem f90_C_3 : f90_triangle_subdivide_C_3 = triSubdivMat W 3 .C := by decide +kernel
theorem f90_D_3 : f90_triangle_subdivide_D_3 = triSubdivMat W 3 .D := by decide +kernel
theorem f90_A_4 : f90_triangle_subdivide_A_4 = triSubdivMat W 4 .A := by decide +kernel
theorem f90_B_4 : f90_triangle_subdivide_B_4 = triSubdivMat W 4 .B := by decide +kernel
theorem f90_C_4 : f90_triangle_subdivide_C_4 = triSubdivMat W 4 .C := by decide +kernel
theorem f90_D_4 : f90_triangle_subdivide_D_4 = triSubdivMat W 4 .D := by decide +kernel

/-! ### the two alternating workspaces of `specialize_triangle` hold everything that is written -/
theorem workspaces_suffice : (List.range' 1 12).all F90.workspacesSuffice = true := by decide +kernel

end BezierVerif.Tables.C09b
