import BezierVerif.Generated.Data

/-! # Tables/C10 — the locate constants of the two implementations agree (re-extracted every run) -/

namespace BezierVerif.Tables.C10

open BezierVerif.Generated

theorem curve_locate_subdivisions : py_curve_helpers_MAX_LOCATE_SUBDIVISIONS = f90_curve_MAX_LOCATE_SUBDIVISIONS := by decide
theorem curve_locate_std_cap : py_curve_helpers_LOCATE_STD_CAP = f90_curve_LOCATE_STD_CAP := by decide +kernel
theorem triangle_locate_subdivisions : py_triangle_intersection_MAX_LOCATE_SUBDIVISIONS = f90_triangle_intersection_MAX_LOCATE_SUBDIVISIONS := by decide
theorem triangle_locate_eps : py_triangle_intersection_LOCATE_EPS = f90_triangle_intersection_LOCATE_EPS := by decide +kernel
/-- the values the theorems' non-vacuity examples and the comparator's resolution argument use -/
theorem curve_locate_values : py_curve_helpers_MAX_LOCATE_SUBDIVISIONS = 20 ∧ py_curve_helpers_LOCATE_STD_CAP = (1 : Rat) / 2 ^ 20 := by
  decide +kernel

end BezierVerif.Tables.C10
