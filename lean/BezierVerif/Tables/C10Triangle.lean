import BezierVerif.Generated.Data

/-! # Tables/C10Triangle — the values of the triangle-locate constants that the non-vacuity examples
of Props/C10Triangle use (`rounds = MAX_LOCATE_SUBDIVISIONS + 1 = 21`, `epsSq = LOCATE_EPS² = 2^-94`),
re-extracted every run (equality of the Python and Fortran constants: Tables/C10) -/

namespace BezierVerif.Tables.C10Triangle

open BezierVerif.Generated

theorem triangle_locate_values :
    py_triangle_intersection_MAX_LOCATE_SUBDIVISIONS + 1 = 21 ∧
    py_triangle_intersection_LOCATE_EPS * py_triangle_intersection_LOCATE_EPS = (1 : Rat) / 2 ^ 94 := by
  decide +kernel

theorem triangle_locate_values_f90 :
    f90_triangle_intersection_MAX_LOCATE_SUBDIVISIONS + 1 = 21 ∧
    f90_triangle_intersection_LOCATE_EPS * f90_triangle_intersection_LOCATE_EPS = (1 : Rat) / 2 ^ 94 := by
  decide +kernel

end BezierVerif.Tables.C10Triangle
