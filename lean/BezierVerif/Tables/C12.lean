import BezierVerif.Model.Area
import BezierVerif.Generated.Data

/-!
# Tables/C12 — the extracted shoelace tables (Python tuples + scale factors, Fortran closed forms)
are the model's `shoelaceTable`, and both implementations support exactly 2..5 nodes.
-/

namespace BezierVerif.Tables.C12

open BezierVerif.Model BezierVerif.Generated

/-- the model's table in the shape of the extracted data -/
def asData (nn : Nat) : Option (List (List Rat) × Rat) :=
  (shoelaceTable nn).map (fun p => (p.1.map (fun t => [((t.1 : Nat) : Rat), ((t.2.1 : Nat) : Rat), ((t.2.2 : Nat) : Rat)]),
                                     ((p.2 : Nat) : Rat)))

theorem py_2 : asData 2 = some (py_shoelace_2, py_shoelace_scale_2) := by decide +kernel
theorem py_3 : asData 3 = some (py_shoelace_3, py_shoelace_scale_3) := by decide +kernel
theorem py_4 : asData 4 = some (py_shoelace_4, py_shoelace_scale_4) := by decide +kernel
theorem py_5 : asData 5 = some (py_shoelace_5, py_shoelace_scale_5) := by decide +kernel
theorem f90_2 : asData 2 = some (f90_shoelace_2, f90_shoelace_scale_2) := by decide +kernel
theorem f90_3 : asData 3 = some (f90_shoelace_3, f90_shoelace_scale_3) := by decide +kernel
theorem f90_4 : asData 4 = some (f90_shoelace_4, f90_shoelace_scale_4) := by decide +kernel
theorem f90_5 : asData 5 = some (f90_shoelace_5, f90_shoelace_scale_5) := by decide +kernel

theorem py_supported : py_shoelace_supported = [2, 3, 4, 5] := by decide +kernel
theorem f90_supported : f90_shoelace_supported = [2, 3, 4, 5] := by decide +kernel

/-- and the model raises for every other size (here: the sizes up to 40) -/
theorem model_unsupported : ∀ nn ∈ List.range 41, nn ∉ [2, 3, 4, 5] → shoelaceTable nn = none := by
  decide +kernel

end BezierVerif.Tables.C12
