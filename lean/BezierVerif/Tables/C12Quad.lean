import BezierVerif.Model.Quadrature
import BezierVerif.Generated.Quadpack

/-!
# Tables/C12Quad — obligations on the extracted `dqk21` tables and the `compute_length` constants

`table` is the `QKTables` made of the decimal literals of quadpack.f90 as exact rationals
(harness/extract_quadpack.py), `tableB64` the same literals rounded to binary64 (what the compiled
routine holds).  The moment obligations are phrased through the MODEL: `kronrodMomentDefect T m`
is `(qk21 T (t ↦ t^m) (-1) 1).result − 2/(m+1)`, `gaussMomentDefect` the same with `resg`.
They are the hypotheses `kronrodMomentsOK T 32 ε`, `gaussMomentsOK T 20 ε` of Props/C12Quad.
-/

namespace BezierVerif.Tables.C12Quad

open BezierVerif.Model BezierVerif.Model.Quad BezierVerif.Generated

/-- the literal tables of `dqk21`, exact decimal values -/
def table : QKTables Rat := { wg := qp_wg, wgk := qp_wgk, xgk := qp_xgk }

/-- the literal tables of `dqk21`, rounded to binary64 -/
def tableB64 : QKTables Rat := { wg := qp_wg_b64, wgk := qp_wgk_b64, xgk := qp_xgk_b64 }

/-- `10^-33` -/
def eps33 : Rat := 1 / 1000000000000000000000000000000000

/-- `2^-54` -/
def eps54 : Rat := 1 / 18014398509481984

/-! ## shape, signs, order -/

/-- 5 Gauss weights, 11 Kronrod weights, 11 abscissae -/
theorem shape : shapeOK table = true := by decide +kernel
/-- all 5 + 11 weights are positive -/
theorem weights_positive : weightsPositive table = true := by decide +kernel
/-- abscissae strictly decreasing, `xgk(1..10)` in `(0,1)`, `xgk(11) = 0` -/
theorem nodes_ok : nodesOK table = true := by decide +kernel

theorem shape_b64 : shapeOK tableB64 = true := by decide +kernel
theorem weights_positive_b64 : weightsPositive tableB64 = true := by decide +kernel
theorem nodes_ok_b64 : nodesOK tableB64 = true := by decide +kernel

/-- with the symmetric extension the 21 Kronrod weights and the 10 Gauss weights sum to 2 within `10^-33` resp. `2·10^-33`
    (directly on the lists, independent of the model) -/
theorem kronrod_weight_sum :
    qabs (((qp_wgk.take 10).foldl (fun acc w => acc + 2 * w) 0 + seq qp_wgk 10) - 2) ≤ eps33 := by decide +kernel
theorem gauss_weight_sum : qabs ((qp_wg.foldl (fun acc w => acc + 2 * w) 0) - 2) ≤ 2 * eps33 := by decide +kernel

/-! ## moments (the hypotheses of Props/C12Quad) -/

/-- **21-point Kronrod rule: every even moment `m ≤ 30` is `2/(m+1)` within `10^-33`** -/
theorem kronrod_moments : kronrodMomentsOK table 32 eps33 = true := by decide +kernel
/-- **embedded 10-point Gauss rule: every even moment `m ≤ 18` is `2/(m+1)` within `2·10^-33`** -/
theorem gauss_moments : gaussMomentsOK table 20 (2 * eps33) = true := by decide +kernel

/-- sharpness: the bounds cannot be halved, and the degrees of exactness are exactly 31 resp. 19
    (moment 32 of the Kronrod rule is off by > `10^-12`, moment 20 of the Gauss rule by > `10^-6`) -/
theorem kronrod_moments_sharp : kronrodMomentsOK table 32 (eps33 / 2) = false := by decide +kernel
theorem gauss_moments_sharp : gaussMomentsOK table 20 eps33 = false := by decide +kernel
theorem kronrod_degree_sharp : kronrodMomentsOK table 34 (1 / 1000000000000) = false := by decide +kernel
theorem gauss_degree_sharp : gaussMomentsOK table 22 (1 / 1000000) = false := by decide +kernel

/-- the binary64-rounded tables: moments within `2^-54` -/
theorem kronrod_moments_b64 : kronrodMomentsOK tableB64 32 eps54 = true := by decide +kernel
theorem gauss_moments_b64 : gaussMomentsOK tableB64 20 eps54 = true := by decide +kernel

/-- every binary64 entry is within relative `2^-53` of its decimal literal -/
def roundedClose (d b : List Rat) : Bool :=
  d.length == b.length && (List.zipWith (fun x y => decide (qabs (y - x) * 9007199254740992 ≤ qabs x)) d b).all id

theorem rounded_wg : roundedClose qp_wg qp_wg_b64 = true := by decide +kernel
theorem rounded_wgk : roundedClose qp_wgk qp_wgk_b64 = true := by decide +kernel
theorem rounded_xgk : roundedClose qp_xgk qp_xgk_b64 = true := by decide +kernel

/-! ## constants and statement shapes of `dqk21`, `dqagse` (first step), `compute_length` -/

/-- `0.5D+00` in `centr`, `hlgth`, `reskh` is the model's `1/(1+1)` -/
theorem half_factors : qp_k21_centr_factor = 1 / (1 + 1) ∧ qp_k21_hlgth_factor = 1 / (1 + 1)
    ∧ qp_k21_reskh_factor = 1 / (1 + 1) ∧ qp_k21_resg_init = 0 := by decide +kernel

/-- loops `j = 1..5`, `1..5`, `1..10`, centre weight `wgk(11)`, work arrays of size 10, and the
    statements of the three loop bodies are token for token the transcribed ones -/
theorem loops : qp_k21_gauss_loop = 5 ∧ qp_k21_kronrod_loop = 5 ∧ qp_k21_asc_loop = 10
    ∧ qp_k21_centre_index = 11 ∧ qp_k21_asc_centre_index = 11 ∧ qp_k21_fv1_size = 10 ∧ qp_k21_fv2_size = 10
    ∧ qp_k21_loop_bodies_as_modelled = 1 := by decide +kernel

/-- the error heuristic: `resasc*min(1, (200*abserr/resasc)**1.5)`, floor `50*epmach*resabs`
    guarded by `resabs > uflow/(50*epmach)` -/
theorem heuristic_constants : qp_k21_err_cap = 1 ∧ qp_k21_err_scale = ((200 : Nat) : Rat) ∧ qp_k21_err_power = 3 / 2
    ∧ qp_k21_floor_factor = ((50 : Nat) : Rat) ∧ qp_k21_floor_guard_factor = ((50 : Nat) : Rat) := by decide +kernel

/-- `epmach`, `uflow` are the intrinsics `epsilon`, `tiny` of `real(kind=8)` (binary64: `2^-52`, `2^-1022`) -/
theorem machine_constants : qp_k21_epmach_source = "epsilon" ∧ qp_k21_uflow_source = "tiny"
    ∧ qp_epmach = 1 / 2 ^ 52 ∧ qp_uflow = 1 / 2 ^ 1022 := by decide +kernel

/-- `dqagse`: argument order of its first `dqk21` call (`defabs` ← resabs, `resabs` ← resasc),
    round-off test `abserr ≤ 100*epmach*defabs → ier = 2`, `ier = 6` guard, `neval = 42*last − 21` -/
theorem agse_first_step : qp_agse_first_k21_args = "f,a,b,result,abserr,defabs,resabs"
    ∧ qp_agse_roundoff_factor = ((100 : Nat) : Rat) ∧ qp_agse_roundoff_ier = 2
    ∧ qp_agse_guard_epsabs = 0 ∧ qp_agse_guard_epmach_factor = ((50 : Nat) : Rat)
    ∧ qp_agse_guard_epsrel_floor = 1 / (2 * 10 ^ 28)
    ∧ qp_agse_neval_per_interval = 42 ∧ qp_agse_neval_offset = 21 := by decide +kernel

/-- `compute_length`: `dqagse(vec_size, 0, 1, SQRT_PREC, SQRT_PREC, 50, length, …, error_val, …)`
    with `SQRT_PREC = 2^-26`, work arrays of size 50, the integrand closure as transcribed;
    the Python version integrates over the same interval with SciPy's defaults -/
theorem compute_length_call : qp_length_integrand = "vec_size" ∧ qp_length_a = 0 ∧ qp_length_b = 1
    ∧ qp_length_epsabs = 1 / 2 ^ 26 ∧ qp_length_epsrel = 1 / 2 ^ 26 ∧ qp_length_limit = 50
    ∧ qp_length_workspace = 50 ∧ qp_length_result_arg = "length" ∧ qp_length_ier_arg = "error_val"
    ∧ qp_length_integrand_as_modelled = 1
    ∧ py_length_a = 0 ∧ py_length_b = 1 ∧ py_length_quad_keywords = "" := by decide +kernel

/-- the literals carry 33 decimals -/
theorem literal_decimals : qp_k21_literal_decimals_min = 33 := by decide +kernel

end BezierVerif.Tables.C12Quad
