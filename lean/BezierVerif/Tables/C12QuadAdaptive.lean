import BezierVerif.Model.QuadratureAdaptive
import BezierVerif.Generated.Quadpack
import BezierVerif.Generated.QuadpackAdaptive

/-!
# Tables/C12QuadAdaptive — the extracted literals of `dqagse`, `dqelg`, `dqpsrt` are the ones the model uses

harness/extract_quadpack_adaptive.py matches every executable statement of the three routines against the
transcribed sequence (`qpa_*_statements_as_modelled = 1`) and emits the numeric literals.  Here they are tied,
by kernel evaluation, to `AgseConsts.default` (the record Props/C12QuadAdaptive and the driver instantiate
`Model.Quad.dqagse` with) and to the integer codes written out in the model (`ier` values, `ierro = 3`,
the `ier > 2` shift).
-/

namespace BezierVerif.Tables.C12QuadAdaptive

open BezierVerif.Model BezierVerif.Model.Quad BezierVerif.Generated

/-- `AgseConsts.default` at `K := Rat` -/
def consts : AgseConsts Rat := AgseConsts.default

/-- every statement of the three routines is, token for token, the transcribed one -/
theorem statements_as_modelled : qpa_dqagse_statements_as_modelled = 1 ∧ qpa_dqelg_statements_as_modelled = 1
    ∧ qpa_dqpsrt_statements_as_modelled = 1
    ∧ qpa_dqagse_statement_count = 154 ∧ qpa_dqelg_statement_count = 77 ∧ qpa_dqpsrt_statement_count = 40 := by
  decide +kernel

/-- real literals of `dqagse` -/
theorem agse_reals : qpa_zero = 0 ∧ qpa_half_bisect = consts.half ∧ qpa_half_small = consts.half
    ∧ qpa_c50_guard = consts.c50 ∧ qpa_c50_ksgn = consts.c50 ∧ qpa_floor28 = consts.floor28
    ∧ qpa_c100 = consts.c100 ∧ qpa_one_ksgn = consts.one ∧ qpa_one_bad = consts.one
    ∧ qpa_roff_rel = consts.roffRel ∧ qpa_roff_shrink = consts.roffShrink
    ∧ qpa_bad_eps = consts.badEps ∧ qpa_bad_uflow = consts.badUflow ∧ qpa_small_factor = consts.smallFactor
    ∧ qpa_ktmin_factor = consts.ktminFactor ∧ qpa_div_lo = consts.divLo ∧ qpa_div_hi = consts.divHi := by
  decide +kernel

/-- integer thresholds of `dqagse` -/
theorem agse_thresholds : qpa_iroff3_from = consts.iroff3From ∧ qpa_iroff12_max = consts.iroff12Max
    ∧ qpa_iroff3_max = consts.iroff3Max ∧ qpa_iroff2_max = consts.iroff2Max ∧ qpa_ktmin_max = consts.ktminMax
    ∧ qpa_neval_mul = consts.nevalMul ∧ qpa_neval_off = consts.nevalOff := by
  decide +kernel

/-- the `ier` / `ierro` codes written out in `agseBisect`, `agseExtrapolate`, `agseFinal`, `agseReturn`, `dqagse` -/
theorem agse_codes : qpa_ier_invalid = 6 ∧ qpa_ier_roundoff_first = 2 ∧ qpa_ier_limit_first = 1
    ∧ qpa_ier_roundoff = 2 ∧ qpa_ierro_value = 3 ∧ qpa_ier_limit = 1 ∧ qpa_ier_bad = 4 ∧ qpa_ier_divergent = 5
    ∧ qpa_ier_from_ierro = 3 ∧ qpa_ier_div = 6 ∧ qpa_ier_shift_from = 2 := by
  decide +kernel

/-- literals of `dqelg`; the epsilon table has `limexp + 2` entries, `res3la` three -/
theorem elg_constants : qpa_limexp = consts.limexp ∧ qpa_elg_irregular = consts.elgIrregular
    ∧ qpa_elg_floor = consts.elgFloor ∧ qpa_elg_one = consts.elgOne ∧ qpa_elg_nmin = consts.elgNmin
    ∧ qpa_elg_nres = consts.elgNres ∧ qpa_elg_epstab_size = consts.limexp + 2 ∧ qpa_agse_rlist2_size = 52
    ∧ qpa_elg_res3la_size = 3 ∧ qpa_agse_res3la_size = 3 := by
  decide +kernel

/-- machine constants: binary64 `epsilon`, `tiny`, `huge`; consistent with the first-step extraction -/
theorem machine_constants : qpa_epmach = 1 / 2 ^ 52 ∧ qpa_uflow = 1 / 2 ^ 1022
    ∧ qpa_oflow = (2 - 1 / 2 ^ 52) * 2 ^ 1023 ∧ qpa_epmach = qp_epmach ∧ qpa_uflow = qp_uflow := by
  decide +kernel

/-- consistent with the first-step extraction of harness/extract_quadpack.py (same source lines) and with the
    constants `agseFirstStep` has built in (`50`, `100`) -/
theorem first_step_consistent : qpa_c50_guard = qp_agse_guard_epmach_factor ∧ qpa_floor28 = qp_agse_guard_epsrel_floor
    ∧ qpa_c100 = qp_agse_roundoff_factor ∧ qpa_neval_mul = qp_agse_neval_per_interval
    ∧ qpa_neval_off = qp_agse_neval_offset ∧ consts.c50 = ((50 : Nat) : Rat) ∧ consts.c100 = ((100 : Nat) : Rat)
    ∧ qp_length_limit = 50 := by
  decide +kernel

end BezierVerif.Tables.C12QuadAdaptive
