import BezierVerif.Model.Valid
import BezierVerif.Generated.Data

/-!
# Tables/C13 — the Jacobian helper tables and the change-of-basis tables of `is_valid` are what the
model derives: `(B_s, B_t)` at the lattice nodes as linear maps of the net, and the inverse
Bernstein–Vandermonde matrix (times the documented factor 36 for the quartic one).
-/

namespace BezierVerif.Tables.C13

open BezierVerif.Model BezierVerif.Generated

def scaleMat (c : Rat) (m : List (List Rat)) : List (List Rat) := m.map (fun r => r.map (fun x => c * x))

theorem quadratic_helper : py_triangle_helpers_QUADRATIC_JACOBIAN_HELPER = jacobianHelper 55 2 2 := by decide +kernel
theorem cubic_helper : py_triangle_helpers_CUBIC_JACOBIAN_HELPER = jacobianHelper 55 3 4 := by decide +kernel
theorem quadratic_to_bernstein : some py_triangle_helpers_QUADRATIC_TO_BERNSTEIN = toBernstein 55 2 := by decide +kernel
theorem quartic_to_bernstein :
    some py_triangle_helpers_QUARTIC_TO_BERNSTEIN =
      (toBernstein 55 4).map (scaleMat py_triangle_helpers_QUARTIC_BERNSTEIN_FACTOR) := by decide +kernel
theorem bernstein_factor : py_triangle_helpers_QUARTIC_BERNSTEIN_FACTOR = 36 := by decide +kernel
theorem max_poly_subdivisions : py_triangle_helpers_MAX_POLY_SUBDIVISIONS = 5 := by decide

/-- the derived change of basis really inverts the Bernstein–Vandermonde matrix (degree 2 and 4) -/
theorem to_bernstein_inverts_2 :
    (toBernstein (K := Rat) 55 2).map (fun t => matMul (transpose (bernsteinVandermonde 55 2)) t) = some (identity 6) := by
  decide +kernel
theorem to_bernstein_inverts_4 :
    (toBernstein (K := Rat) 55 4).map (fun t => matMul (transpose (bernsteinVandermonde 55 4)) t) = some (identity 15) := by
  decide +kernel

end BezierVerif.Tables.C13
