import BezierVerif.Model.Protocol
import BezierVerif.Generated.Data

/-!
# Tables/C14 — the status words of the wrappers are the extracted ones, and every one of them is mapped

Every statement mentions data re-extracted from /repo's working tree on this run (`Generated.f90_status_*`,
`Generated.f90_curve_intersection_MAX_CANDIDATES`) and is decided by the kernel.
-/

namespace BezierVerif.Tables.C14

open BezierVerif.Model BezierVerif.Model.Protocol BezierVerif.Generated

/-- the enum of `status.f90` as extracted on this run, in the model's order -/
def extractedStatusCodes : List Int :=
  [f90_status_Status_SUCCESS, f90_status_Status_BAD_MULTIPLICITY, f90_status_Status_NO_CONVERGE,
   f90_status_Status_INSUFFICIENT_SPACE, f90_status_Status_SAME_CURVATURE, f90_status_Status_BAD_INTERIOR,
   f90_status_Status_EDGE_END, f90_status_Status_SINGULAR, f90_status_Status_UNKNOWN]

/-- the model's symbolic status words are the values in `status.f90` -/
theorem status_codes : extractedStatusCodes = allStatusCodes := by decide +kernel

/-- the status words are pairwise distinct (a status word names one branch) -/
theorem status_codes_nodup : extractedStatusCodes.Nodup := by decide +kernel

/-- `status_map`, triangle wrapper: every extracted status word except `SINGULAR` (only produced by
`newton_refine_intersect`, never by `triangles_intersect`) has its own `elif` branch -/
theorem status_map_triangle :
    ∀ c ∈ extractedStatusCodes, c ≠ f90_status_Status_SINGULAR → (triangleTable.lookup c).isSome = true := by
  decide +kernel

/-- `status_map`, curve wrapper: the four status words `all_intersections_abi` documents have their own branch -/
theorem status_map_curve :
    ∀ c ∈ [f90_status_Status_SUCCESS, f90_status_Status_NO_CONVERGE, f90_status_Status_INSUFFICIENT_SPACE,
           f90_status_Status_BAD_MULTIPLICITY], (curveTable.lookup c).isSome = true := by
  decide +kernel

/-- `status_map`, totality with the images written out: what each wrapper does on each extracted status word
(words without a branch of their own fall into the `else:` = `NotImplementedError`) -/
theorem status_map_images :
    extractedStatusCodes.map curveAction =
      [.ret, .raise .notImplemented, .raise .valueError, .resize, .raise .notImplemented,
       .raise .notImplemented, .raise .notImplemented, .raise .notImplemented, .raise .notImplemented] ∧
    extractedStatusCodes.map triangleAction =
      [.ret, .raise .notImplemented, .raise .valueError, .resize, .raise .notImplemented,
       .raise .runtimeError, .raise .valueError, .raise .notImplemented, .raise .runtimeError] := by
  decide +kernel

/-- only `SUCCESS` returns and only `INSUFFICIENT_SPACE` resizes, in both wrappers -/
theorem status_map_ret_resize :
    ∀ c ∈ extractedStatusCodes,
      (curveAction c = .ret ↔ c = f90_status_Status_SUCCESS) ∧
      (curveAction c = .resize ↔ c = f90_status_Status_INSUFFICIENT_SPACE) ∧
      (triangleAction c = .ret ↔ c = f90_status_Status_SUCCESS) ∧
      (triangleAction c = .resize ↔ c = f90_status_Status_INSUFFICIENT_SPACE) := by
  decide +kernel

/-- the status word doubles as a candidate count (`status = num_candidates`, `else:` branch = TOO_MANY): a
count is reported only above `MAX_CANDIDATES` and a round at most quadruples `≤ MAX_CANDIDATES` candidates, so
it can be confused with no enum value: all but `UNKNOWN` are `≤ MAX_CANDIDATES`, `UNKNOWN` is `> 4·MAX_CANDIDATES` -/
theorem status_word_unambiguous :
    (∀ c ∈ extractedStatusCodes, c ≠ f90_status_Status_UNKNOWN → c ≤ f90_curve_intersection_MAX_CANDIDATES) ∧
    4 * f90_curve_intersection_MAX_CANDIDATES < f90_status_Status_UNKNOWN := by
  decide +kernel

end BezierVerif.Tables.C14
