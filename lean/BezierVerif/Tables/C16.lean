import BezierVerif.Model.Helpers
import BezierVerif.Generated.Data

/-!
# Tables/C16 — extracted thresholds / enum values of the pruning predicates

Every statement mentions data re-extracted from /repo's working tree on this run
(`Generated.*`) and is decided by the kernel.

Not (yet) extracted, hence no obligation here: the Python default argument `wiggle=0.5**44` of
`wiggle_interval`, the Python `BoxIntersectionType` (a plain class, not an `enum.Enum`), and the
Fortran literal `0.125_dp` of `linearization_error`.  `harness/extract_c16.diff` adds them to
`harness/extract.py` (names `py_helpers_wiggle_default`, `py_geometric_intersection_BoxIntersectionType_*`,
`f90_linearization_factor`); once applied, append

    theorem wiggle_same : py_helpers_wiggle_default = f90_helpers_WIGGLE := by decide +kernel
    theorem box_enum_same :
        py_geometric_intersection_BoxIntersectionType_INTERSECTION = f90_curve_intersection_BoxIntersectionType_INTERSECTION ∧
        py_geometric_intersection_BoxIntersectionType_TANGENT = f90_curve_intersection_BoxIntersectionType_TANGENT ∧
        py_geometric_intersection_BoxIntersectionType_DISJOINT = f90_curve_intersection_BoxIntersectionType_DISJOINT := by decide
    theorem linearization_factor_f90 : f90_linearization_factor = 1 / 8 := by decide +kernel

Until then their agreement is exercised at run time by the correspondence script (`inspect` of the
default argument, the enum values, boundary values of `wiggle_interval` at `±WIGGLE`, `1 ± WIGGLE`
and one ulp around, `linearization_error²` against the model's `(1/8)²`).
-/

namespace BezierVerif.Tables.C16

open BezierVerif.Model BezierVerif.Generated

/-! ### `vector_close`: the default threshold is the same in both implementations -/
theorem vector_close_eps_same : py_helpers_EPS = f90_helpers_VECTOR_CLOSE_EPS := by decide +kernel

/-- … and is `2^-40` (the script squares it for `vectorCloseSq`) -/
theorem vector_close_eps_value : py_helpers_EPS = 1 / 2 ^ 40 := by decide +kernel

/-! ### `wiggle_interval`: the Fortran parameter is `2^-44`, strictly between `0` and `1/2`
(the hypotheses of `C16.wiggle_spec`, `C16.wiggle_none_iff`) -/
theorem wiggle_f90_value : f90_helpers_WIGGLE = 1 / 2 ^ 44 := by decide +kernel

theorem wiggle_f90_admissible : 0 < f90_helpers_WIGGLE ∧ f90_helpers_WIGGLE < 1 / 2 := by
  decide +kernel

/-! ### `BoxIntersectionType`: the Fortran integers are the model's `BoxType.toNat` -/
theorem box_enum_f90_intersection :
    f90_curve_intersection_BoxIntersectionType_INTERSECTION = (BoxType.intersection.toNat : Int) := by
  decide

theorem box_enum_f90_tangent :
    f90_curve_intersection_BoxIntersectionType_TANGENT = (BoxType.tangent.toNat : Int) := by decide

theorem box_enum_f90_disjoint :
    f90_curve_intersection_BoxIntersectionType_DISJOINT = (BoxType.disjoint.toNat : Int) := by decide

/-! ### `linearization_error`: the multiplier `0.125 * degree * (degree - 1)` of the Python routine is
the `q 1 8` of `Model.linearizationErrorSq` -/
theorem linearization_factor_py : py_linearization_factor = 1 / 8 := by decide +kernel

/-! ### clipping: the "unset" markers used by `clipRange` -/
theorem clipping_defaults : py_clipping_DEFAULT_S_MIN = 1 ∧ py_clipping_DEFAULT_S_MAX = 0 := by
  decide +kernel

/-! ### items extracted since `harness/extract_c16.diff` was applied -/
theorem wiggle_same : py_helpers_wiggle_default = f90_helpers_WIGGLE := by decide +kernel
theorem box_enum_same :
    py_geometric_intersection_BoxIntersectionType_INTERSECTION = f90_curve_intersection_BoxIntersectionType_INTERSECTION ∧
    py_geometric_intersection_BoxIntersectionType_TANGENT = f90_curve_intersection_BoxIntersectionType_TANGENT ∧
    py_geometric_intersection_BoxIntersectionType_DISJOINT = f90_curve_intersection_BoxIntersectionType_DISJOINT := by decide
theorem linearization_factor_f90 : f90_linearization_factor = 1 / 8 := by decide +kernel

end BezierVerif.Tables.C16
