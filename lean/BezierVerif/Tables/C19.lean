import BezierVerif.Model.Algebraic
import BezierVerif.Generated.Data
import BezierVerif.Generated.Algebraic

/-!
# Tables/C19 — extracted literals of `algebraic_intersection.py` equal what the model derives

Every statement mentions data re-extracted from /repo's working tree on this run
(`Generated.*`: module constants by `extract.py`, literals inside function bodies by
`extract_algebraic.py`) and is decided by the kernel.
-/

namespace BezierVerif.Tables.C19

open BezierVerif.Model BezierVerif.Model.Alg BezierVerif.Generated

/-! ### sample parameters and hand-inverted matrices are the ones of the model's transcription -/
theorem pb11_nodes : alg_pb11_nodes = pbNodes11 := by decide +kernel
theorem pb12_nodes : alg_pb12_nodes = pbNodes12 := by decide +kernel
theorem pb13_nodes : alg_pb13_nodes = pbNodes13 := by decide +kernel
theorem pb4_nodes : alg_pb4_nodes = pbNodes4 := by decide +kernel
theorem pb11_matrix : alg_pb11_matrix = pbMatrix11 := by decide +kernel
theorem pb12_matrix : alg_pb12_matrix = pbMatrix12 := by decide +kernel
theorem pb13_matrix : alg_pb13_matrix = pbMatrix13 := by decide +kernel
theorem pb4_matrix : alg_pb4_matrix = pbMatrix4 := by decide +kernel

/-- the transcribed return expressions are multiplication by the extracted matrices (checked
    on every unit vector; both sides are linear) -/
theorem pb_combine_is_matrix :
    (List.range 2).map (fun i => pbCombine11 (unitVec 2 i)) = transpose alg_pb11_matrix ∧
    (List.range 3).map (fun i => pbCombine12 (unitVec 3 i)) = transpose alg_pb12_matrix ∧
    (List.range 4).map (fun i => pbCombine13 (unitVec 4 i)) = transpose alg_pb13_matrix ∧
    (List.range 5).map (fun i => pbCombine4 (unitVec 5 i)) = transpose alg_pb4_matrix := by
  decide +kernel

/-! ### each hand-inverted matrix is `c ×` the inverse Vandermonde matrix the model derives at
the sample parameters the code uses (Lagrange basis), `c = 1, 1, 3, 3` -/
theorem pb11_inverse : alg_pb11_matrix = scaleMat 1 (invVandermonde alg_pb11_nodes) := by decide +kernel
theorem pb12_inverse : alg_pb12_matrix = scaleMat 1 (invVandermonde alg_pb12_nodes) := by decide +kernel
theorem pb13_inverse : alg_pb13_matrix = scaleMat 3 (invVandermonde alg_pb13_nodes) := by decide +kernel
theorem pb4_inverse : alg_pb4_matrix = scaleMat 3 (invVandermonde alg_pb4_nodes) := by decide +kernel

/-! ### … and times the Vandermonde matrix at those parameters it is `c · I`: for every
polynomial of degree `≤ m` the returned vector is `c ×` its coefficients -/
theorem pb11_vandermonde :
    matMul alg_pb11_matrix (vandermonde alg_pb11_nodes) = scaleMat 1 (identity 2) := by decide +kernel
theorem pb12_vandermonde :
    matMul alg_pb12_matrix (vandermonde alg_pb12_nodes) = scaleMat 1 (identity 3) := by decide +kernel
theorem pb13_vandermonde :
    matMul alg_pb13_matrix (vandermonde alg_pb13_nodes) = scaleMat 3 (identity 4) := by decide +kernel
theorem pb4_vandermonde :
    matMul alg_pb4_matrix (vandermonde alg_pb4_nodes) = scaleMat 3 (identity 5) := by decide +kernel

/-! ### the `polyfit` helpers: which abscissae, which degree; the Chebyshev abscissae are
pairwise distinct, inside `(0, 1)`, and as many as coefficients are fitted (so the least-squares
fit is interpolation and the model's exact interpolation inverts their Vandermonde matrix) -/
theorem pb23_uses : alg_pb23_nodes_name = "CHEB7" ∧ alg_pb23_fit_degree = 6 := by decide
theorem pb8_uses : alg_pb8_nodes_name = "CHEB9" ∧ alg_pb8_fit_degree = 8 := by decide
theorem pb33_uses : alg_pb33_nodes_name = "CHEB10" ∧ alg_pb33_fit_degree = 9 := by decide

theorem cheb7_count : py_algebraic_intersection_CHEB7.length = alg_pb23_fit_degree + 1 := by decide +kernel
theorem cheb9_count : py_algebraic_intersection_CHEB9.length = alg_pb8_fit_degree + 1 := by decide +kernel
theorem cheb10_count : py_algebraic_intersection_CHEB10.length = alg_pb33_fit_degree + 1 := by decide +kernel

theorem cheb7_distinct : py_algebraic_intersection_CHEB7.Nodup := by decide +kernel
theorem cheb9_distinct : py_algebraic_intersection_CHEB9.Nodup := by decide +kernel
theorem cheb10_distinct : py_algebraic_intersection_CHEB10.Nodup := by decide +kernel

def inOpenUnit (l : List Rat) : Bool := l.all (fun t => decide (0 < t) && decide (t < 1))

theorem cheb_in_unit :
    inOpenUnit py_algebraic_intersection_CHEB7 = true ∧ inOpenUnit py_algebraic_intersection_CHEB9 = true ∧
      inOpenUnit py_algebraic_intersection_CHEB10 = true := by decide +kernel

theorem cheb7_interpolation :
    matMul (invVandermonde py_algebraic_intersection_CHEB7) (vandermonde py_algebraic_intersection_CHEB7)
      = identity 7 := by decide +kernel
theorem cheb9_interpolation :
    matMul (invVandermonde py_algebraic_intersection_CHEB9) (vandermonde py_algebraic_intersection_CHEB9)
      = identity 9 := by decide +kernel
theorem cheb10_interpolation :
    matMul (invVandermonde py_algebraic_intersection_CHEB10) (vandermonde py_algebraic_intersection_CHEB10)
      = identity 10 := by decide +kernel

/-! ### the dispatch table of `to_power_basis` -/
def lookup (t : List (Nat × Nat × Nat)) (a b : Nat) : Option Nat :=
  (t.find? (fun e => e.1 == a && e.2.1 == b)).map (fun e => e.2.2)

theorem dispatch_table :
    (List.range 9).all (fun a => (List.range 9).all (fun b =>
      (pbKind a b).map PBKind.code == lookup alg_pb_dispatch a b)) = true := by decide +kernel

theorem dispatch_keys_distinct : (alg_pb_dispatch.map (fun e => (e.1, e.2.1))).Nodup := by decide +kernel

/-! ### `poly_to_power_basis`: the coded branches are the model's (every unit vector) -/
def okOr (r : Except Err (List Rat)) : List Rat :=
  match r with
  | .ok l => l
  | .error _ => []

theorem p2pb_sizes : alg_p2pb_sizes = [1, 2, 3, 4] := by decide
theorem p2pb_matrix_2 :
    (List.range 2).map (fun i => okOr (polyToPowerBasis (unitVec 2 i))) = transpose alg_p2pb_matrix_2 := by
  decide +kernel
theorem p2pb_matrix_3 :
    (List.range 3).map (fun i => okOr (polyToPowerBasis (unitVec 3 i))) = transpose alg_p2pb_matrix_3 := by
  decide +kernel
theorem p2pb_matrix_4 :
    (List.range 4).map (fun i => okOr (polyToPowerBasis (unitVec 4 i))) = transpose alg_p2pb_matrix_4 := by
  decide +kernel

/-! ### `evaluate` / `_evaluate3`: supported node counts, scale factors, block layout -/
theorem evaluate_sizes : alg_evaluate_sizes = [1, 2, 3, 4] := by decide
theorem evaluate2_factors : alg_evaluate2_factors = [nat 2, nat 2] := by decide +kernel

/-- the 6×6 matrix assembled from the extracted slices -/
def buildSylvester (nodes : List (List Rat)) (x y : Rat) : List (List Rat) :=
  let delta : List (List Rat) := (List.zipWith (fun row v => row.map (fun a => a - v)) nodes [x, y]).map
    (fun row => (List.range row.length).map (fun j =>
      if alg_evaluate3_scale_from ≤ j ∧ j < alg_evaluate3_scale_to then seq row j * alg_evaluate3_scale
      else seq row j))
  (List.range alg_evaluate3_size).map (fun r => (List.range alg_evaluate3_size).map (fun c =>
    alg_evaluate3_blocks.foldl (fun (cur : Rat) b =>
      if b.1 ≤ r ∧ r < b.2.1 ∧ b.2.2.1 ≤ c ∧ c < b.2.2.2 then seq (delta.getD (r - b.1) []) (c - b.2.2.1)
      else cur) 0))

/-- the layout is the model's on all eight unit nets and on one generic net with a generic point
    (both sides are affine in the eleven numbers) -/
theorem evaluate3_layout :
    ((List.range 4).all (fun i =>
      buildSylvester [unitVec 4 i, [0, 0, 0, 0]] 0 0 == sylvester3 (unitVec 4 i) [0, 0, 0, 0] 0 0 &&
      buildSylvester [[0, 0, 0, 0], unitVec 4 i] 0 0 == sylvester3 [0, 0, 0, 0] (unitVec 4 i) 0 0) &&
     buildSylvester [[2, 3, 5, 7], [11, 13, 17, 19]] 23 29 == sylvester3 [2, 3, 5, 7] [11, 13, 17, 19] 23 29)
      = true := by decide +kernel

/-! ### thresholds as used by the model's callers (powers of two of the documentation) -/
theorem thresholds :
    py_algebraic_intersection_IMAGINARY_WIGGLE = 1 / 2 ^ 13 ∧
    py_algebraic_intersection_UNIT_INTERVAL_WIGGLE_START = -(1 / 2 ^ 13) ∧
    py_algebraic_intersection_UNIT_INTERVAL_WIGGLE_END = 1 + 1 / 2 ^ 13 ∧
    py_algebraic_intersection_SIGMA_THRESHOLD = 1 / 2 ^ 20 ∧
    py_algebraic_intersection_SINGULAR_EPS = 1 / 2 ^ 52 ∧
    py_algebraic_intersection_L2_THRESHOLD = 1 / 2 ^ 40 ∧
    py_algebraic_intersection_ZERO_THRESHOLD = 1 / 2 ^ 38 ∧
    py_algebraic_intersection_COEFFICIENT_THRESHOLD = 1 / 2 ^ 26 ∧
    py_algebraic_intersection_NON_SIMPLE_THRESHOLD = 1 / 2 ^ 48 := by decide +kernel

/-- the box gate of `all_intersections` compares with the same enum value as the Fortran `BoxIntersectionType` -/
theorem disjoint_enum :
    py_algebraic_intersection_DISJOINT = f90_curve_intersection_BoxIntersectionType_DISJOINT := by
  decide +kernel

end BezierVerif.Tables.C19
