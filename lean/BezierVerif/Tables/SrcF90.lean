import BezierVerif.Generated.SrcF90
import Mathlib.Algebra.Order.Field.Basic

/-!
# Tables/SrcF90 — the Fortran source text of the planar predicates MEANS what the model says

`harness/translate_f90.py` re-reads `src/fortran/helpers.f90` and `src/fortran/curve_intersection.f90` of the
current working tree on every run and translates the listed routines, statement by statement, into the
definitions of `Generated/SrcF90.lean` (namespace `BezierVerif.Generated.SrcF90`).  Here the kernel proves,
for ALL inputs, that each generated definition equals the hand-written model definition
(`Model/Helpers.lean`, `Model/Solve2x2.lean`).  A semantic edit of the source changes the generated
definition and breaks the corresponding theorem; a statement the translator does not understand removes the
definition (EXTRACT-PROBLEM), which breaks it as well.

Form of the statements

* *syntactic* equalities hold for every number type `K` carrying the model's notation classes
  (section `Generic`): no algebraic law is used, hence they also hold for binary64 with IEEE comparisons
  on non-NaN data;
* the Fortran calling convention returns a flag plus values that are left UNASSIGNED on some paths where the
  model returns `Option` / `none`.  The generated definitions take the content of an unassigned variable as
  an explicit argument `undef : K`; the theorems hold for every `undef`, and the theorems about callers
  (`line_line_collide_eq`, `bbox_line_intersect_eq`) show that their result does not depend on it;
* `Except.error` of the model (empty rows: Fortran `minval` of a zero-size array is `HUGE`; a degenerate first
  segment in `parallel_lines_parameters`: Fortran divides `0/0`) has no counterpart in `K`; those theorems are
  stated on the inputs where the model answers `.ok`, which is exactly the routine's contract;
* a `2 × N` array of the source is the model's list of points through `rowsOf` (`polygon(:, j)` is `getP pts (j-1)`);
  a `do i = 2, n` loop is a left fold over `List.range' 2 (n + 1 - 2)` (`is_separating`, `polygon_collide`);
* three places need algebra (an ordered field, section `Field`):
  `-s_val0 / (s_val1 - s_val0)` is `-(a / b)` in Fortran and `(-a) / b` in Python / the model (`neg_div`);
  `vector_close` and `linearization_error` use `norm2` where the model compares / returns squares (`norm2` is an
  abstract function with `0 ≤ norm2 v`, `norm2 v * norm2 v = normSq v`); `linearization_error` writes `2.0_dp`
  where the model writes `1 + 1` and converts `num_nodes - 1` from integer to real.

| routine (file)                          | theorem(s)                                             | model definition                         |
|-----------------------------------------|--------------------------------------------------------|------------------------------------------|
| in_interval (helpers)                   | `in_interval_eq`                                       | `inInterval`                             |
| cross_product (helpers)                 | `cross_product_eq`, `cross_product_eq_list`            | `cross`, `crossProduct`                  |
| wiggle_interval (helpers)               | `wiggle_interval_eq`, `wiggle_value`                   | `wiggleInterval WIGGLE`                  |
| vector_close (helpers)                  | `vector_close_eq` (field, norm spec, `0 ≤ eps`)        | `vectorCloseSq · · eps²`                 |
| bbox (helpers)                          | `bbox_eq_cons`, `bbox_eq`                              | `bbox`                                   |
| contains_nd (helpers)                   | `contains_nd_masks`, `contains_nd_eq`                  | `F90.containsND`                         |
| solve2x2 (helpers)                      | `solve2x2_eq`, `solve2x2_eq_at`                        | `solve2x2`                               |
| is_separating (helpers)                 | `is_separating_eq`, `is_separating_model`              | `paramRange` / `sepRanges`, `F90.isSeparating` |
| polygon_collide (helpers)               | `polygon_collide_eq`, `polygon_collide_model`          | `polygonEdgeDirs`, `F90.polygonCollide`  |
| bbox_intersect (curve_intersection)     | `bbox_intersect_eq`, `bbox_intersect_model`            | `boxRelation`, `bboxIntersect`           |
| segment_intersection                    | `segment_intersection_eq`                              | `segmentIntersection`                    |
| parallel_lines_parameters               | `parallel_lines_parameters_generic`, `parallel_disjoint_flag`, `parallel_lines_parameters_eq` (field) | `parallelParams`, `parallelLinesParameters` |
| line_line_collide                       | `line_line_collide_eq`                                 | `lineLineCollide`                        |
| bbox_line_intersect                     | `bbox_line_intersect_eq`                               | `bboxLineIntersect`                      |
| linearization_error                     | `linearization_error_eq` (field, norm spec, rectangular) | `linearizationErrorSq`                 |
-/

set_option linter.unusedSectionVars false
set_option linter.unusedVariables false

namespace BezierVerif.SrcF90

open BezierVerif.Model BezierVerif.Generated

section Generic
variable {K : Type} [Add K] [Sub K] [Mul K] [Div K] [Neg K] [OfNat K 0] [OfNat K 1] [NatCast K]
  [LT K] [DecidableLT K] [LE K] [DecidableLE K] [DecidableEq K]

/-! ## helpers.f90 -/

/-- `in_interval` is `Model.inInterval` -/
theorem in_interval_eq (value start end_ : K) :
    SrcF90.in_interval value start end_ = inInterval value start end_ := by rfl

/-- `cross_product` is `Model.cross` (a `v(2)` array is a point) -/
theorem cross_product_eq (vec0 vec1 : Pt K) : SrcF90.cross_product vec0 vec1 = cross vec0 vec1 := by rfl

/-- … and `Model.crossProduct` on rank-1 lists -/
theorem cross_product_eq_list (vec0 vec1 : List K) :
    SrcF90.cross_product (ptOf vec0) (ptOf vec1) = crossProduct vec0 vec1 := by rfl

/-- `wiggle_interval`: `(result_, success)`; on failure `result_` is left unassigned.
    The model takes the threshold as an argument: it is the module parameter `WIGGLE`. -/
theorem wiggle_interval_eq (undef value : K) :
    SrcF90.wiggle_interval undef value =
      match wiggleInterval (SrcF90.WIGGLE : K) value with
      | some r => (r, true)
      | none => (undef, false) := by
  unfold SrcF90.wiggle_interval wiggleInterval
  grind

/-- the constant expression `0.5_dp**44` -/
theorem wiggle_value : (SrcF90.WIGGLE : Rat) = 1 / 2 ^ 44 ∧ SrcF90.WIGGLE_rat = 1 / 2 ^ 44 := by decide +kernel

/-- `bbox` on an array with two non-empty rows is the model's answer -/
theorem bbox_eq_cons (x : K) (xs : List K) (y : K) (ys : List K) :
    Model.bbox [x :: xs, y :: ys] = .ok (SrcF90.bbox [x :: xs, y :: ys]) := by rfl

/-- `bbox`: wherever the model answers (two rows, at least one node) the source computes that box -/
theorem bbox_eq (nodes : List (List K)) (b : K × K × K × K) (h : Model.bbox nodes = .ok b) :
    SrcF90.bbox nodes = b := by
  unfold Model.bbox at h
  split at h
  · cases h; rfl
  all_goals cases h

/-- `contains_nd`: the two `any(...)` masks as one Boolean (every input) -/
theorem contains_nd_masks (nodes : List (List K)) (point : List K) :
    SrcF90.contains_nd nodes point =
      (!(SrcF90.anyB (List.zipWith (fun a b => decide (a < b)) point (nodes.map SrcF90.minval)))
        && !(SrcF90.anyB (List.zipWith (fun a b => decide (a < b)) (nodes.map SrcF90.maxval) point))) := by
  unfold SrcF90.contains_nd
  grind

/-- `contains_nd` is `Model.F90.containsND` wherever the model answers (any dimension, non-empty rows, as many
    coordinates as rows) -/
theorem contains_nd_eq (nodes : List (List K)) (point : List K) (b : Bool)
    (h : F90.containsND nodes point = .ok b) : SrcF90.contains_nd nodes point = b := by
  rw [contains_nd_masks]
  induction nodes generalizing point b with
  | nil =>
    cases point with
    | nil => simp [F90.containsND] at h; simp [SrcF90.anyB, ← h]
    | cons p ps => simp [F90.containsND] at h
  | cons r rows ih =>
    cases point with
    | nil => cases r <;> simp [F90.containsND] at h
    | cons p ps =>
      cases r with
      | nil => simp [F90.containsND] at h
      | cons x xs =>
        unfold F90.containsND at h
        split at h
        · cases h
        · rename_i rest hrest
          have := ih ps rest hrest
          cases h
          simp only [SrcF90.anyB, List.map_cons, List.zipWith_cons_cons, List.any_cons, id] at this ⊢
          rw [← this]
          simp only [SrcF90.minval, SrcF90.maxval, seq, List.getD_cons_zero, List.drop_succ_cons, List.drop_zero]
          cases decide (p < minOf x xs) <;> cases decide (maxOf x xs < p) <;> simp

/-- `solve2x2`: `(singular, x_val, y_val)`; `x_val`, `y_val` are left unassigned when `singular`.
    `lhs = [[A, B], [C, D]]` (rows), `rhs = (E, F)`. -/
theorem solve2x2_eq (undef A B C D E F : K) :
    SrcF90.solve2x2 undef [[A, B], [C, D]] (E, F) =
      match Model.solve2x2 A B C D E F with
      | some (x, y) => (false, x, y)
      | none => (true, undef, undef) := by
  unfold SrcF90.solve2x2 Model.solve2x2
  simp only [SrcF90.at2, SrcF90.row, seq, List.getD_cons_zero, List.getD_cons_succ]
  grind

/-- the same for an arbitrary `lhs` (only the four referenced entries matter) -/
theorem solve2x2_eq_at (undef : K) (lhs : List (List K)) (rhs : Pt K) :
    SrcF90.solve2x2 undef lhs rhs =
      match Model.solve2x2 (SrcF90.at2 lhs 0 0) (SrcF90.at2 lhs 0 1) (SrcF90.at2 lhs 1 0) (SrcF90.at2 lhs 1 1)
          rhs.1 rhs.2 with
      | some (x, y) => (false, x, y)
      | none => (true, undef, undef) := by
  unfold SrcF90.solve2x2 Model.solve2x2
  grind

/-! ## loops: `is_separating`, `polygon_collide` (helpers.f90)

A `2 × N` array of the source is the model's list of points through `rowsOf`: `polygon(:, j)` is `getP pts (j-1)`.
A `do i = 2, n` loop is a left fold over `List.range' 2 (n + 1 - 2)`; its state holds exactly the variables that carry a
value between iterations or out of the loop (here `(min_param, max_param)`, resp. `(returned?, collision)`). -/

theorem ncols_rowsOf (pts : List (Pt K)) : ncols (rowsOf pts) = pts.length := by
  simp [ncols, rowsOf]

theorem colPt_rowsOf (pts : List (Pt K)) (j : Nat) : SrcF90.colPt (rowsOf pts) j = getP pts j := by
  induction pts generalizing j with
  | nil => simp [SrcF90.colPt, SrcF90.at2, SrcF90.row, rowsOf, seq, getP]
  | cons p ps ih =>
    cases j with
    | zero => rfl
    | succ j =>
      have := ih j
      simpa [SrcF90.colPt, SrcF90.at2, SrcF90.row, rowsOf, seq, getP] using this

theorem map_range'_getP (pts : List (Pt K)) (k : Nat) :
    (List.range' (k + 1) (pts.length - k)).map (fun i => getP pts (i - 1)) = pts.drop k := by
  apply List.ext_getElem
  · simp
  · intro n h1 h2
    simp at h1
    simp [getP, List.getD_eq_getElem?_getD]
    rw [List.getElem?_eq_getElem (by omega)]
    rfl

theorem foldl_range'_drop {σ : Type} (F : σ → Nat → σ) (G : σ → Pt K → σ) (pts : List (Pt K))
    (h : ∀ st i, F st i = G st (getP pts (i - 1))) (s : σ) :
    List.foldl F s (List.range' 2 (pts.length + 1 - 2)) = List.foldl G s (pts.drop 1) := by
  have hF : F = fun st i => G st (getP pts (i - 1)) := by funext st i; exact h st i
  rw [hF, ← map_range'_getP pts 1, List.foldl_map]
  congr 2

/-- `is_separating` on non-empty polygons: the two running `(min, max)` of `cross(direction, vertex) / norm_squared`
    and the final comparison are `Model.paramRange` / `Model.sepRanges` (every `K`; no hypothesis on the direction) -/
theorem is_separating_eq (d v1 : Pt K) (vs1 : List (Pt K)) (v2 : Pt K) (vs2 : List (Pt K)) :
    SrcF90.is_separating d (rowsOf (v1 :: vs1)) (rowsOf (v2 :: vs2)) =
      sepRanges (paramRange d (dot2 d d) (v1 :: vs1)) (paramRange d (dot2 d d) (v2 :: vs2)) := by
  unfold SrcF90.is_separating
  simp only [colPt_rowsOf, ncols_rowsOf]
  rw [foldl_range'_drop (G := fun acc w => (minK acc.1 (cross d w / dot2 d d), maxK acc.2 (cross d w / dot2 d d)))
        (pts := v1 :: vs1),
      foldl_range'_drop (G := fun acc w => (minK acc.1 (cross d w / dot2 d d), maxK acc.2 (cross d w / dot2 d d)))
        (pts := v2 :: vs2)]
  · rfl
  · intro st i; rfl
  · intro st i; rfl

/-- … hence `Model.F90.isSeparating` for a non-zero direction (a zero direction divides `0 / 0`: NaN in binary64, where
    the compiled code answers `.FALSE.`; no counterpart in `K`) -/
theorem is_separating_model (d : Pt K) (p1 p2 : List (Pt K)) (h1 : p1 ≠ []) (h2 : p2 ≠ []) (hd : dot2 d d ≠ 0) :
    F90.isSeparating d p1 p2 = .ok (SrcF90.is_separating d (rowsOf p1) (rowsOf p2)) := by
  obtain ⟨v1, vs1, rfl⟩ := List.exists_cons_of_ne_nil h1
  obtain ⟨v2, vs2, rfl⟩ := List.exists_cons_of_ne_nil h2
  rw [is_separating_eq]
  simp [F90.isSeparating, F90.isSeparatingCore, hd]

/-- a loop with early `return`: the state is `(returned value?, collision)` -/
theorem foldl_exit_any {ι : Type} (F : Option Bool × Bool → ι → Option Bool × Bool) (P : ι → Bool)
    (h : ∀ st i, F st i = match st.1 with
      | some _ => st
      | none => if P i = true then (some false, false) else (none, st.2))
    (l : List ι) (c : Bool) :
    List.foldl F (none, c) l = (if l.any P = true then some false else none, if l.any P = true then false else c) := by
  have stay : ∀ (l : List ι) (x y : Bool), List.foldl F (some x, y) l = (some x, y) := by
    intro l
    induction l with
    | nil => intros; rfl
    | cons i l ih => intro x y; rw [List.foldl_cons, h]; exact ih x y
  induction l with
  | nil => rfl
  | cons i l ih =>
    rw [List.foldl_cons, h]
    cases hP : P i
    · simp [hP, ih]
    · simp [hP, stay]

/-- the edge directions visited by the loop `do i = 2, n`: `polygon(:, i) - polygon(:, i - 1)` -/
theorem map_range'_edges (v : Pt K) (vs : List (Pt K)) :
    (List.range' 2 ((v :: vs).length + 1 - 2)).map (fun i => psub (getP (v :: vs) (i - 1)) (getP (v :: vs) (i - 1 - 1)))
      = List.zipWith psub vs (v :: vs) := by
  apply List.ext_getElem
  · simp
  · intro n h1 h2
    have hn : n < vs.length := by simpa using h2
    have e1 : 2 + 1 * n - 1 = n + 1 := by omega
    rw [List.getElem_map, List.getElem_range', List.getElem_zipWith, e1, Nat.add_sub_cancel]
    simp only [getP, List.getD_eq_getElem?_getD]
    rw [List.getElem?_eq_getElem (by simpa using hn), List.getElem?_eq_getElem (by simp; omega)]
    rfl

theorem getP_last (v : Pt K) (vs : List (Pt K)) :
    getP (v :: vs) ((v :: vs).length - 1) = (v :: vs).getLastD (0, 0) := by
  simp only [getP, List.length_cons, Nat.add_sub_cancel, List.getD_eq_getElem?_getD, List.getLastD_eq_getLast?,
    List.getLast?_eq_getElem?]

/-- `polygon_collide` on non-empty polygons: wrap-around edge first, then the others, polygon 1 then polygon 2, first
    separating direction returns `.FALSE.` – the model's `any` over `polygonEdgeDirs` (every `K`) -/
theorem polygon_collide_eq (v1 : Pt K) (vs1 : List (Pt K)) (v2 : Pt K) (vs2 : List (Pt K)) :
    SrcF90.polygon_collide (rowsOf (v1 :: vs1)) (rowsOf (v2 :: vs2)) =
      !((polygonEdgeDirs (v1 :: vs1) ++ polygonEdgeDirs (v2 :: vs2)).any
          (fun d => SrcF90.is_separating d (rowsOf (v1 :: vs1)) (rowsOf (v2 :: vs2)))) := by
  unfold SrcF90.polygon_collide
  simp only [colPt_rowsOf, ncols_rowsOf, getP_last]
  rw [foldl_exit_any (P := fun i => SrcF90.is_separating (psub (getP (v1 :: vs1) (i - 1)) (getP (v1 :: vs1) (i - 1 - 1)))
        (rowsOf (v1 :: vs1)) (rowsOf (v2 :: vs2))),
      foldl_exit_any (P := fun i => SrcF90.is_separating (psub (getP (v2 :: vs2) (i - 1)) (getP (v2 :: vs2) (i - 1 - 1)))
        (rowsOf (v1 :: vs1)) (rowsOf (v2 :: vs2)))]
  · have m1 := map_range'_edges v1 vs1
    have m2 := map_range'_edges v2 vs2
    simp only [polygonEdgeDirs, List.zipWith_cons_cons, List.any_append, List.any_cons, ← m1, ← m2, List.any_map,
      Function.comp_def, getP, List.getD_cons_zero]
    rcases Bool.eq_false_or_eq_true (SrcF90.is_separating (psub v1 ((v1 :: vs1).getLastD (0, 0))) (rowsOf (v1 :: vs1))
        (rowsOf (v2 :: vs2))) with hA1 | hA1 <;>
    rcases Bool.eq_false_or_eq_true (SrcF90.is_separating (psub v2 ((v2 :: vs2).getLastD (0, 0))) (rowsOf (v1 :: vs1))
        (rowsOf (v2 :: vs2))) with hA2 | hA2 <;>
    rcases Bool.eq_false_or_eq_true ((List.range' 2 ((v1 :: vs1).length + 1 - 2)).any fun i =>
        SrcF90.is_separating (psub ((v1 :: vs1).getD (i - 1) (0, 0)) ((v1 :: vs1).getD (i - 1 - 1) (0, 0)))
          (rowsOf (v1 :: vs1)) (rowsOf (v2 :: vs2))) with hB1 | hB1 <;>
    rcases Bool.eq_false_or_eq_true ((List.range' 2 ((v2 :: vs2).length + 1 - 2)).any fun i =>
        SrcF90.is_separating (psub ((v2 :: vs2).getD (i - 1) (0, 0)) ((v2 :: vs2).getD (i - 1 - 1) (0, 0)))
          (rowsOf (v1 :: vs1)) (rowsOf (v2 :: vs2))) with hB2 | hB2 <;>
    simp only [hA1, hA2, hB1, hB2] <;> rfl
  · intro st i; rfl
  · intro st i; rfl

theorem any_congr_mem {α : Type} (l : List α) (f g : α → Bool) (h : ∀ a ∈ l, f a = g a) : l.any f = l.any g := by
  induction l with
  | nil => rfl
  | cons a l ih =>
    simp only [List.any_cons, h a (List.mem_cons_self ..), ih (fun b hb => h b (List.mem_cons_of_mem _ hb))]

/-- … hence `Model.F90.polygonCollide` when no edge direction is zero -/
theorem polygon_collide_model (p1 p2 : List (Pt K)) (h1 : p1 ≠ []) (h2 : p2 ≠ [])
    (hz : ∀ d ∈ polygonEdgeDirs p1 ++ polygonEdgeDirs p2, dot2 d d ≠ 0) :
    F90.polygonCollide p1 p2 = .ok (SrcF90.polygon_collide (rowsOf p1) (rowsOf p2)) := by
  obtain ⟨v1, vs1, rfl⟩ := List.exists_cons_of_ne_nil h1
  obtain ⟨v2, vs2, rfl⟩ := List.exists_cons_of_ne_nil h2
  rw [polygon_collide_eq]
  simp only [F90.polygonCollide, List.isEmpty_cons, Bool.or_self, Bool.false_eq_true, if_false]
  congr 2
  apply any_congr_mem
  intro d hd
  rw [is_separating_eq]
  simp [F90.isSeparatingCore, hz d hd]

/-! ## curve_intersection.f90 -/

/-- `bbox_intersect`: the comparison cascade is `Model.boxRelation` on the two boxes (every input) -/
theorem bbox_intersect_eq (nodes1 nodes2 : List (List K)) :
    SrcF90.bbox_intersect nodes1 nodes2 = boxRelation (SrcF90.bbox nodes1) (SrcF90.bbox nodes2) := by
  unfold SrcF90.bbox_intersect boxRelation
  grind

/-- `bbox_intersect` is `Model.bboxIntersect` wherever the model answers; the enum integers are the model's
    constructors (`BoxType.toNat`, re-checked inside Generated/SrcF90.lean against the values in the source) -/
theorem bbox_intersect_model (nodes1 nodes2 : List (List K)) (t : BoxType)
    (h : Model.bboxIntersect nodes1 nodes2 = .ok t) : SrcF90.bbox_intersect nodes1 nodes2 = t := by
  unfold Model.bboxIntersect at h
  split at h
  · rename_i b1 b2 h1 h2
    rw [bbox_intersect_eq, bbox_eq _ _ h1, bbox_eq _ _ h2]; cases h; rfl
  all_goals cases h

/-- `segment_intersection`: `(s, t, success)`; `s`, `t` are left unassigned when `success = .FALSE.` -/
theorem segment_intersection_eq (undef : K) (start0 end0 start1 end1 : Pt K) :
    SrcF90.segment_intersection undef start0 end0 start1 end1 =
      match Model.segmentIntersection start0 end0 start1 end1 with
      | some (s, t) => (s, t, true)
      | none => (undef, undef, false) := by
  unfold SrcF90.segment_intersection Model.segmentIntersection SrcF90.cross_product cross
  grind

/-- `Model.parallelParams` with Fortran's reading of `-s_val0 / (s_val1 - s_val0)`: unary minus has the precedence
    of binary minus, so the source computes `-(a / b)`; Python (and the model) compute `(-a) / b`.  Everything else
    is literally the model's definition. -/
def parallelParamsF90 (s0 s1 : K) : Option (K × K × K × K) :=
  if s0 ≤ s1 then
    if 1 < s0 then none
    else
      let (startS, startT) := if s0 < 0 then ((0 : K), -(s0 / (s1 - s0))) else (s0, (0 : K))
      if s1 < 0 then none
      else
        let (endS, endT) := if 1 < s1 then ((1 : K), (1 - s0) / (s1 - s0)) else (s1, (1 : K))
        some (startS, endS, startT, endT)
  else
    if s0 < 0 then none
    else
      let (startS, startT) := if 1 < s0 then ((1 : K), (s0 - 1) / (s0 - s1)) else (s0, (0 : K))
      if 1 < s1 then none
      else
        let (endS, endT) := if s1 < 0 then ((0 : K), s0 / (s0 - s1)) else (s1, (1 : K))
        some (startS, endS, startT, endT)

/-- `parallel_lines_parameters`, syntactic part (every `K`): the collinearity test, the two projections and the
    twelve leaves.  `disjoint = .TRUE.` ⇔ `none`; otherwise `parameters = [[start_s, end_s], [start_t, end_t]]`
    (when `disjoint` the entries of `parameters` assigned so far / never assigned are not specified). -/
theorem parallel_lines_parameters_generic (undef : K) (start0 end0 start1 end1 : Pt K) :
    let src := SrcF90.parallel_lines_parameters undef start0 end0 start1 end1
    let delta0 := psub end0 start0
    if cross start0 delta0 ≠ cross start1 delta0 then src.1 = true
    else
      match parallelParamsF90 (dot2 (psub start1 start0) delta0 / dot2 delta0 delta0)
          (dot2 (psub end1 start0) delta0 / dot2 delta0 delta0) with
      | none => src.1 = true
      | some (startS, endS, startT, endT) => src = (false, [[startS, endS], [startT, endT]]) := by
  unfold SrcF90.parallel_lines_parameters SrcF90.cross_product parallelParamsF90
  simp only [cross, SrcF90.set2, SrcF90.row, List.getD_cons_zero, List.getD_cons_succ, List.set_cons_zero,
    List.set_cons_succ]
  grind

/-- the `disjoint` flag of `parallel_lines_parameters` is `none` of the model (every `K`; the flag involves no
    quotient `-a / b`) -/
theorem parallel_disjoint_flag (undef : K) (start0 end0 start1 end1 : Pt K) (r : Option (K × K × K × K))
    (h : Model.parallelLinesParameters start0 end0 start1 end1 = .ok r) :
    (SrcF90.parallel_lines_parameters undef start0 end0 start1 end1).1 = r.isNone := by
  unfold Model.parallelLinesParameters parallelParams at h
  unfold SrcF90.parallel_lines_parameters SrcF90.cross_product
  simp only [cross] at *
  grind

/-- `line_line_collide` on the columns of the two `2 × 2` arrays is `Model.lineLineCollide` wherever the model
    answers; the result does not depend on the unassigned `s`, `t` / `unused_parameters` -/
theorem line_line_collide_eq (undef : K) (line1 line2 : List (List K)) (c : Bool)
    (h : Model.lineLineCollide (SrcF90.colPt line1 0) (SrcF90.colPt line1 1) (SrcF90.colPt line2 0)
      (SrcF90.colPt line2 1) = .ok c) :
    SrcF90.line_line_collide undef line1 line2 = c := by
  unfold SrcF90.line_line_collide
  unfold Model.lineLineCollide at h
  rw [segment_intersection_eq]
  split at h
  · rename_i s t hs
    rw [hs]; cases h; rfl
  · rename_i hs
    rw [hs]
    split at h
    · cases h
    · rename_i hp; cases h
      simp [parallel_disjoint_flag undef _ _ _ _ _ hp]
    · rename_i hp; cases h
      simp [parallel_disjoint_flag undef _ _ _ _ _ hp]

/-- `bbox_line_intersect` is `Model.bboxLineIntersect` wherever the model answers: the two end point tests, then the
    bottom, right and top edge in this order (the left edge is skipped); independent of the unassigned `s_curr`,
    `t_curr` of a failed `segment_intersection` -/
theorem bbox_line_intersect_eq (undef : K) (nodes : List (List K)) (lineStart lineEnd : Pt K) (t : BoxType)
    (h : Model.bboxLineIntersect nodes lineStart lineEnd = .ok t) :
    SrcF90.bbox_line_intersect undef nodes lineStart lineEnd = t := by
  unfold Model.bboxLineIntersect at h
  unfold SrcF90.bbox_line_intersect
  split at h
  · cases h
  · rename_i left right bottom top hb
    rw [bbox_eq _ _ hb]
    simp only [segment_intersection_eq, SrcF90.in_interval]
    simp only [inInterval] at h
    grind

end Generic

/-! ## the two places where algebra is needed -/

section Field
variable {K : Type} [Field K] [LinearOrder K]

/-- `-(a / b) = (-a) / b` in a field: Fortran's and Python's reading of the quotient agree -/
theorem parallelParamsF90_eq (s0 s1 : K) : parallelParamsF90 s0 s1 = parallelParams s0 s1 := by
  unfold parallelParamsF90 parallelParams
  simp only [neg_div]

/-- `parallel_lines_parameters` against `Model.parallelLinesParameters` (ordered field):
    `.ok none` ⇔ `disjoint = .TRUE.`, `.ok (some p)` ⇔ `disjoint = .FALSE.` with `parameters = [[start_s, end_s],
    [start_t, end_t]]`.  `.error` of the model is a degenerate first segment that passes the collinearity test: the
    source divides `0 / 0` (NaN in binary64, which has no counterpart here) – nothing is claimed. -/
theorem parallel_lines_parameters_eq (undef : K) (start0 end0 start1 end1 : Pt K) :
    match Model.parallelLinesParameters start0 end0 start1 end1 with
    | .ok none => (SrcF90.parallel_lines_parameters undef start0 end0 start1 end1).1 = true
    | .ok (some (startS, endS, startT, endT)) =>
        SrcF90.parallel_lines_parameters undef start0 end0 start1 end1 = (false, [[startS, endS], [startT, endT]])
    | .error _ => True := by
  have h := parallel_lines_parameters_generic undef start0 end0 start1 end1
  simp only [parallelParamsF90_eq] at h
  unfold Model.parallelLinesParameters
  simp only
  by_cases hc : cross start0 (psub end0 start0) ≠ cross start1 (psub end0 start0)
  · rw [if_pos hc] at h ⊢; exact h
  · rw [if_neg hc] at h ⊢
    by_cases hn : dot2 (psub end0 start0) (psub end0 start0) = 0
    · rw [if_pos hn]; trivial
    · rw [if_neg hn]
      split at h
      · rename_i hr; rw [hr]; exact h
      · rename_i hr; rw [hr]; exact h

variable [IsStrictOrderedRing K]

/-- `vector_close` against `Model.vectorCloseSq` (ordered field).  `norm2` is external to the translated subset; for
    ANY function `nrm` with `0 ≤ nrm v` and `nrm v * nrm v = normSq v` (an exact Euclidean norm) and `0 ≤ eps`, the
    source decides what the squared model decides with `eps²`: the three branches, `==`, `<=` and `min` included. -/
theorem vector_close_eq (nrm : List K → K) (h0 : ∀ v, 0 ≤ nrm v) (hsq : ∀ v, nrm v * nrm v = normSq v)
    (vec1 vec2 : List K) (eps : K) (heps : 0 ≤ eps) :
    SrcF90.vector_close nrm vec1 vec2 eps = vectorCloseSq vec1 vec2 (eps * eps) := by
  have hz : ∀ v, nrm v = 0 ↔ normSq v = 0 := fun v => by rw [← hsq v]; exact mul_self_eq_zero.symm
  have hle : ∀ v c, 0 ≤ c → (nrm v ≤ c ↔ normSq v ≤ c * c) := fun v c hc => by
    rw [← hsq v]; exact (mul_self_le_mul_self_iff (h0 v) hc)
  have hmin : ∀ a b, minK (nrm a) (nrm b) * minK (nrm a) (nrm b) = minK (normSq a) (normSq b) := fun a b => by
    unfold minK
    rw [← hsq a, ← hsq b]
    by_cases h : nrm b < nrm a
    · rw [if_pos h, if_pos (mul_self_lt_mul_self (h0 b) h)]
    · rw [if_neg h, if_neg (fun h' => h ((mul_self_lt_mul_self_iff (h0 b) (h0 a)).mpr h'))]
  have hmin0 : ∀ a b, 0 ≤ minK (nrm a) (nrm b) := fun a b => by unfold minK; split <;> exact h0 _
  unfold SrcF90.vector_close vectorCloseSq
  simp only [hz]
  by_cases h1 : normSq vec1 = 0
  · simp only [h1, if_true, hle vec2 eps heps]
  · by_cases h2 : normSq vec2 = 0
    · simp only [h1, h2, if_true, if_false, hle vec1 eps heps]
    · simp only [h1, h2, if_false]
      simp only [hle _ _ (mul_nonneg heps (hmin0 _ _)), mul_mul_mul_comm, hmin]

/-! ### `linearization_error` (curve_intersection.f90): integer → real conversion, array sections, `maxval(abs(·), 2)` -/

/-- integer → real conversion of a natural number -/
theorem ofInt_natCast (m : Nat) : (SrcF90.ofInt (m : Int) : K) = (m : K) := by
  unfold SrcF90.ofInt
  rw [if_neg (Int.not_lt.mpr (Int.natCast_nonneg m)), Int.natAbs_natCast]

/-- one row of `nodes(:, :n-2) - 2 * nodes(:, 2:n-1) + nodes(:, 3:)` is `Model.secondDiffs` -/
theorem secondDiffs_sections : ∀ r : List K,
    addRow (subRow ((r.drop (1 - 1)).take (r.length - 2 + 1 - 1))
        (scaleRow (((2 : Nat) : K)) ((r.drop (2 - 1)).take (r.length - 1 + 1 - 2))))
      ((r.drop (3 - 1)).take (r.length + 1 - 3)) = secondDiffs r
  | [] => by simp [addRow, subRow, scaleRow, secondDiffs]
  | [_] => by simp [addRow, subRow, scaleRow, secondDiffs]
  | [_, _] => by simp [addRow, subRow, scaleRow, secondDiffs]
  | x :: y :: z :: rest => by
    have ih := secondDiffs_sections (y :: z :: rest)
    simp only [List.length_cons, Nat.sub_self, List.drop_zero, Nat.add_sub_cancel, Nat.reduceSubDiff, List.drop_succ_cons,
      addRow, subRow, scaleRow] at ih ⊢
    rw [secondDiffs]
    simp only [List.take_succ_cons, List.map_cons, List.zipWith_cons_cons]
    rw [← ih]
    congr 1
    rw [show ((2 : Nat) : K) = 1 + 1 by rw [Nat.cast_ofNat]; exact one_add_one_eq_two.symm]

/-- the whole array: `second_deriv` is `secondDiffs` of every row (rows of the common length `ncols nodes`) -/
theorem second_deriv_rows (nodes : List (List K)) (n : Nat) (hrect : ∀ r ∈ nodes, r.length = n) :
    SrcF90.matAdd (SrcF90.matSub (SrcF90.colRange nodes 1 (n - 2))
        (SrcF90.matScale ((2 : Nat) : K) (SrcF90.colRange nodes 2 (n - 1)))) (SrcF90.colRange nodes 3 n)
      = nodes.map secondDiffs := by
  induction nodes with
  | nil => rfl
  | cons r rows ih =>
    have hr : r.length = n := hrect r (List.mem_cons_self ..)
    have := ih (fun r' h' => hrect r' (List.mem_cons_of_mem _ h'))
    simp only [SrcF90.matAdd, SrcF90.matSub, SrcF90.matScale, SrcF90.colRange, List.map_cons, List.zipWith_cons_cons] at this ⊢
    rw [this, ← secondDiffs_sections r, hr]

/-- `maxval(abs(second_deriv), 2)` is the model's `mapM maxAbs?` -/
theorem worst_case_rows (rows : List (List K)) (worst : List K) (h : rows.mapM maxAbs? = some worst) :
    List.map SrcF90.maxval (SrcF90.matAbs rows) = worst := by
  induction rows generalizing worst with
  | nil => simp at h; subst h; rfl
  | cons r rows ih =>
    cases r with
    | nil => simp [maxAbs?] at h
    | cons x xs =>
      simp only [List.mapM_cons, maxAbs?, Option.pure_def, Option.bind_eq_bind, Option.bind_some] at h
      cases hm : rows.mapM maxAbs? with
      | none => simp [hm] at h
      | some w =>
        simp [hm] at h
        subst h
        simp only [SrcF90.matAbs, List.map_cons] at ih ⊢
        rw [ih w hm]
        rfl


theorem mapM_map_option {α β γ : Type} (f : α → β) (g : β → Option γ) (l : List α) :
    (l.map f).mapM g = l.mapM (fun a => g (f a)) := by
  induction l with
  | nil => rfl
  | cons a l ih => simp only [List.map_cons, List.mapM_cons, ih]

theorem q_nonneg (a b : Nat) : (0 : K) ≤ q (a : Int) b := by
  unfold q
  rw [if_neg (Int.not_lt.mpr (Int.natCast_nonneg a)), Int.natAbs_natCast]
  exact div_nonneg (Nat.cast_nonneg _) (Nat.cast_nonneg _)

/-- `linearization_error` against `Model.linearizationErrorSq` (ordered field, `nrm` an exact Euclidean norm, a
    rectangular array): wherever the model answers `e`, the source returns the non-negative number whose square is `e`
    (the model returns the SQUARE of the error).  `0.125_dp`, `(num_nodes - 1) * (num_nodes - 2)` with the integer →
    real conversion, the three sections and `maxval(abs(...), 2)` included. -/
theorem linearization_error_eq (nrm : List K → K) (h0 : ∀ v, 0 ≤ nrm v) (hsq : ∀ v, nrm v * nrm v = normSq v)
    (nodes : List (List K)) (hrect : ∀ r ∈ nodes, r.length = ncols nodes) (e : K)
    (h : linearizationErrorSq nodes = .ok e) :
    0 ≤ SrcF90.linearization_error nrm nodes ∧
      SrcF90.linearization_error nrm nodes * SrcF90.linearization_error nrm nodes = e := by
  unfold linearizationErrorSq at h
  unfold SrcF90.linearization_error
  simp only at h ⊢
  by_cases h2 : ncols nodes = 2
  · rw [if_pos h2] at h ⊢
    cases h
    exact ⟨le_refl _, mul_zero _⟩
  · rw [if_neg h2] at h ⊢
    by_cases h3 : ncols nodes < 3
    · rw [if_pos h3] at h; cases h
    · rw [if_neg h3] at h
      rw [second_deriv_rows nodes _ hrect]
      rw [← mapM_map_option secondDiffs maxAbs? nodes] at h
      cases hm : (nodes.map secondDiffs).mapM maxAbs? with
      | none => rw [hm] at h; cases h
      | some worst =>
        rw [hm] at h
        cases h
        rw [worst_case_rows _ _ hm]
        have e1 : ((ncols nodes : Nat) : Int) - 1 = ((ncols nodes - 1 : Nat) : Int) := by omega
        have e2 : ((ncols nodes : Nat) : Int) - 2 = ((ncols nodes - 1 - 1 : Nat) : Int) := by omega
        rw [e1, e2, ofInt_natCast, ofInt_natCast]
        have hq : (0 : K) ≤ q 1 8 := q_nonneg 1 8
        have hm0 : (0 : K) ≤ q 1 8 * ((ncols nodes - 1 : Nat) : K) * ((ncols nodes - 1 - 1 : Nat) : K) :=
          mul_nonneg (mul_nonneg hq (Nat.cast_nonneg _)) (Nat.cast_nonneg _)
        refine ⟨mul_nonneg hm0 (h0 _), ?_⟩
        rw [mul_mul_mul_comm, hsq]

end Field

end BezierVerif.SrcF90
