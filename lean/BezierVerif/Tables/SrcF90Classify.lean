import BezierVerif.Generated.SrcF90
import BezierVerif.Tables.SrcF90Kernels
import BezierVerif.Model.Classify
import BezierVerif.Model.ClassifyF90
import BezierVerif.Lemmas.ClassifyF90
import BezierVerif.Model.Walk
import Mathlib.Algebra.Order.Field.Basic
import Mathlib.Tactic.Ring
import Mathlib.Tactic.NormNum
import Mathlib.Tactic.Linarith
import Mathlib.Tactic.Positivity
import Mathlib.Tactic.LinearCombination
import Mathlib.Algebra.Order.AbsoluteValue.Basic

/-!
# Tables/SrcF90Classify — the Fortran source text of the triangle–triangle DECISION routines means what the model says

Phase 4 of the source-to-Lean tie (`harness/translate_f90.py`, ROUTINES entries under `# phase 4 (f90classify)`):
routines of `triangle_intersection.f90` that work on the derived types `Intersection` / `CurveData`.  A derived type is
translated to a structure generated from its `type :: … end type` definition (`SrcF90.IntersectionRec`,
`SrcF90.CurveDataRec`; integers are `Int`, 1-based as in the source, the classification is the integer code of the
source).  The theorems relate the generated definitions to `Model/Classify.lean` / `Model/Walk.lean` (0-based edge
indices, `Option` fields, `Cls` constructors) through the explicit encodings below (`edgesOf`, `vec`, `Cls.code`).

| routine (triangle_intersection.f90) | theorem(s) | model definition | K |
|---|---|---|---|
| ignored_edge_corner   | `ignored_edge_corner_eq`   | `Classify.ignoredEdgeCorner`   | field |
| ignored_double_corner | `ignored_double_corner_eq`, `prev_index`, `prevNodes_model` | `Classify.ignoredDoubleCorner` | field |
| ignored_corner        | `ignored_corner_eq`        | `Classify.ignoredCorner`       | field |
| classify_tangent_intersection | `classify_tangent_intersection_eq` | `Classify.F90.classifyTangentK` (Model/ClassifyF90) | every K |
| classify_intersection | `classify_intersection_eq`, `classify_intersection_model` | `F90.classifyWithTangentsK`, `Classify.classifyIntersection 55` | field / ordered field |
| is_first, is_second   | `is_first_eq`, `is_second_eq`, `is_first_iff`, `is_second_iff` | `Classify.isFirst`, `isSecond` | every K |
| should_keep           | `should_keep_eq`, `should_keep_unset` | `Classify.shouldUse` | every K |
| find_corner_unused    | `find_corner_unused_eq`    | `Walk.F90.findCornerUnused`    | every K |
| remove_node           | `remove_node_spec`, `remove_node_erase` | `List.erase` (`Walk.consume`) | integers |
| to_front              | `to_front_spec`            | closed form with `Classify.findIdx?` (shape of `Walk.toFrontNode`) | every K |
| get_next              | `get_next_spec`            | closed form with `alongF` (shape of `Walk.getNextCore` / `F90.getNext`) | every K |

FINDING recorded by `classify_intersection_model` / `ClassifyF90.fortran_python_differ_at_zero_curvature`: Fortran uses the
two-valued `sign(1.0_dp, curvature)`, Python (and `Classify.classifyTangent`) the three-valued `np.sign`; for opposite tangents
and `κ₁ = 0 ≤ κ₂` Fortran answers `OPPOSED`, Python `TANGENT_BOTH` (a quadratic triangle with a straight edge touched from
outside by a curved edge: the compiled `Triangle.intersect` returns `[]`, the pure-Python one raises `ValueError`).

NOT tied: `update_edge_end_unused` (translated, no theorem yet); `add_st_vals`, `add_segment`, `finalize_segment`,
`check_contained`, `interior_combine`, `triangles_intersection_points` (allocatable dummies / `move_alloc`, `cycle` / `exit`,
`do while`: outside the accepted subset).
-/

set_option linter.unusedSectionVars false
set_option linter.unusedVariables false
set_option linter.unusedSimpArgs false

namespace BezierVerif.SrcF90Classify

open BezierVerif.Model BezierVerif.Generated BezierVerif.SrcF90Kernels BezierVerif.Model.Classify BezierVerif.ClassifyF90

/-! ## encodings -/

section Generic
variable {K : Type} [Add K] [Sub K] [Mul K] [Div K] [Neg K] [OfNat K 0] [OfNat K 1] [NatCast K]
  [LT K] [DecidableLT K] [LE K] [DecidableLE K] [DecidableEq K]

/-- a `v(2)` array as the model's list -/
def vec (p : Pt K) : List K := [p.1, p.2]

/-- `edges(1:3)%nodes`: the model's list of the three node arrays -/
def edgesOf (es : List (SrcF90.CurveDataRec K)) : List (List (List K)) := es.map (·.nodes)

/-- the nodes of the edge BEFORE the 1-based edge `i` in the source's arithmetic `1 + modulo(i - 2, 3)` -/
def prevNodes (es : List (SrcF90.CurveDataRec K)) (i : Int) : List (List K) :=
  (SrcF90.CurveDataRec.elem es (Int.toNat (1 + (i - 2) % 3 - 1))).nodes

/-- the nodes of the 1-based edge `i` -/
def edgeNodes (es : List (SrcF90.CurveDataRec K)) (i : Int) : List (List K) :=
  (SrcF90.CurveDataRec.elem es (Int.toNat (i - 1))).nodes

/-- the source's `1 + modulo(i - 2, 3)` on the 1-based indices `1, 2, 3` is the model's `(i + 2) % 3` on `0, 1, 2` -/
theorem prev_index (i : Nat) (hi : i < 3) :
    Int.toNat (1 + (((i : Int) + 1) - 2) % 3 - 1) = (i + 2) % 3 := by
  have h : i = 0 ∨ i = 1 ∨ i = 2 := by omega
  rcases h with rfl | rfl | rfl <;> decide

/-- the source's `1 + modulo(i, 3)` on `1, 2, 3` is the model's `(i + 1) % 3` on `0, 1, 2` -/
theorem next_index (i : Nat) (hi : i < 3) :
    Int.toNat (1 + (((i : Int) + 1)) % 3 - 1) = (i + 1) % 3 := by
  have h : i = 0 ∨ i = 1 ∨ i = 2 := by omega
  rcases h with rfl | rfl | rfl <;> decide

theorem elem_nodes (es : List (SrcF90.CurveDataRec K)) (i : Nat) (hi : i < es.length) :
    (SrcF90.CurveDataRec.elem es i).nodes = (edgesOf es).getD i [] := by
  unfold SrcF90.CurveDataRec.elem edgesOf
  simp [List.getD_eq_getElem?_getD, List.getElem?_map, hi]

/-- `prevNodes` is the model's `edges.getD ((index + 2) % 3) []` (three edges, 1-based index `i + 1`) -/
theorem prevNodes_model (es : List (SrcF90.CurveDataRec K)) (hes : es.length = 3) (i : Nat) (hi : i < 3) :
    prevNodes es ((i : Int) + 1) = (edgesOf es).getD ((i + 2) % 3) [] := by
  unfold prevNodes
  rw [prev_index i hi]
  exact elem_nodes es _ (by rw [hes]; exact Nat.mod_lt _ (by decide))

theorem edgeNodes_model (es : List (SrcF90.CurveDataRec K)) (i : Nat) (hi : i < es.length) :
    edgeNodes es ((i : Int) + 1) = (edgesOf es).getD i [] := by
  unfold edgeNodes
  have : Int.toNat ((i : Int) + 1 - 1) = i := by simp
  rw [this]
  exact elem_nodes es i hi


/-! ## `classify_tangent_intersection` (every `K`) -/

/-- `classify_tangent_intersection` is `F90.classifyTangentK` on the dot product of the tangents and the two values
    returned by `get_curvature` for the edges `index_first`, `index_second` (1-based) at `s`, `t`; the result is encoded
    as `(enum_, status)`: the integer codes `OPPOSED = 2`, `TANGENT_BOTH = 6`, `TANGENT_FIRST = 3`, `TANGENT_SECOND = 4`,
    `Status_SUCCESS = 0`, `Status_SAME_CURVATURE = 4` of the source are pinned here -/
theorem classify_tangent_intersection_eq (undefI : Int) (nrm : List K → K) (e1 e2 : List (SrcF90.CurveDataRec K))
    (x : SrcF90.IntersectionRec K) (ts tt : Pt K) :
    SrcF90.classify_tangent_intersection undefI nrm e1 e2 x ts tt =
      F90.encode undefI (F90.classifyTangentK (dot2 ts tt)
        (SrcF90.get_curvature nrm (edgeNodes e1 x.index_first) ts x.s)
        (SrcF90.get_curvature nrm (edgeNodes e2 x.index_second) tt x.t)) := by
  have hs : ∀ a b : K, SrcF90.signK a b = F90.fsign a b := fun _ _ => rfl
  unfold SrcF90.classify_tangent_intersection F90.classifyTangentK
  simp only [hs, edgeNodes, gt_iff_lt]
  split_ifs <;> simp_all [F90.encode, F90.statusOf, Cls.code]

/-! ## `is_first`, `is_second`, `should_keep` (every `K`) -/

/-- the model's `Intersection` of a record of the source: 1-based edge indices become 0-based, the integer
    classification becomes the constructor with that code (`none` for `UNSET = -99` and any other integer) -/
def toModel (x : SrcF90.IntersectionRec K) : Classify.Intersection K :=
  { indexFirst := some (x.index_first - 1).toNat, s := some x.s,
    indexSecond := some (x.index_second - 1).toNat, t := some x.t,
    interior := if 0 ≤ x.interior_curve then Cls.ofCode x.interior_curve.toNat else none }

theorem ofCode_code (c : Cls) : Cls.ofCode c.code = some c := by cases c <;> rfl

theorem toModel_interior (x : SrcF90.IntersectionRec K) (c : Cls) (hc : x.interior_curve = (c.code : Nat)) :
    (toModel x).interior = some c := by
  simp only [toModel, hc]
  rw [if_pos (Int.natCast_nonneg _), Int.toNat_natCast, ofCode_code]

/-- `is_first` on the integer codes: `FIRST = 0`, `TANGENT_FIRST = 3` -/
theorem is_first_eq (c : Cls) : SrcF90.is_first ((c.code : Nat) : Int) = isFirst (some c) := by
  cases c <;> rfl

theorem is_second_eq (c : Cls) : SrcF90.is_second ((c.code : Nat) : Int) = isSecond (some c) := by
  cases c <;> rfl

/-- an integer that is no classification code (`UNSET`) is neither -/
theorem is_first_iff (e : Int) : SrcF90.is_first e = true ↔ e = 0 ∨ e = 3 := by
  simp [SrcF90.is_first]

theorem is_second_iff (e : Int) : SrcF90.is_second e = true ↔ e = 1 ∨ e = 4 := by
  simp [SrcF90.is_second]

/-- `should_keep` is the model's `shouldUse` (codes `FIRST = 0`, `SECOND = 1`, `COINCIDENT = 7`, `TANGENT_FIRST = 3`,
    `TANGENT_SECOND = 4`) -/
theorem should_keep_eq (x : SrcF90.IntersectionRec K) (c : Cls) (hc : x.interior_curve = (c.code : Nat)) :
    SrcF90.should_keep x = shouldUse (toModel x) := by
  have hi := toModel_interior x c hc
  unfold SrcF90.should_keep shouldUse
  rw [hi, hc]
  cases c <;> simp [Cls.code, toModel]

/-- … and refuses a record whose classification is still `UNSET` (any negative integer) -/
theorem should_keep_unset (x : SrcF90.IntersectionRec K) (h : x.interior_curve < 0) : SrcF90.should_keep x = false := by
  unfold SrcF90.should_keep
  simp only
  split_ifs with h1 h2 <;> first | rfl | omega

/-! ## `find_corner_unused` (every `K`) -/

/-- a search loop with `return`: the state is `(returned value, found)` -/
theorem search_loop (P : Nat → Prop) [DecidablePred P] (l : List Nat) :
    ∀ (st : Option Bool × Bool),
      (let r := List.foldl (fun (st : Option Bool × Bool) (i : Nat) =>
          match st.1 with
          | some _ => st
          | none => if P i then (some true, true) else (none, st.2)) st l
       match r.1 with
       | some v => v
       | none => r.2) =
      (match st.1 with
       | some v => v
       | none => l.any (fun i => decide (P i)) || st.2) := by
  induction l with
  | nil => intro st; rcases st with ⟨_ | v, b⟩ <;> simp
  | cons i rest ih =>
    intro st
    rw [List.foldl_cons]
    rcases st with ⟨_ | v, b⟩
    · by_cases hp : P i
      · have := ih (some true, true)
        simp only [if_pos hp] at this ⊢
        rw [this]; simp [hp]
      · have := ih (none, b)
        simp only [if_neg hp] at this ⊢
        rw [this]; simp [hp]
    · have := ih (some v, b)
      simpa using this

/-- the elements `l(a+1), …` of an array visited with the 1-based subscripts `a + 1, …, a + n` -/
theorem any_range'_elem {α : Type} (d : α) (p : α → Bool) : ∀ (l pre : List α),
    (List.range' (pre.length + 1) l.length).any (fun i => p ((pre ++ l).getD (i - 1) d)) = l.any p := by
  intro l
  induction l with
  | nil => intro pre; simp
  | cons x xs ih =>
    intro pre
    have h := ih (pre ++ [x])
    simp only [List.length_append, List.length_cons, List.length_nil, List.append_assoc, List.cons_append,
      List.nil_append] at h
    simp only [List.length_cons, List.range'_succ, List.any_cons, Nat.add_sub_cancel, List.getD_eq_getElem?_getD] at h ⊢
    rw [h]
    simp

/-- `find_corner_unused` (with `num_intersections` = the number of records given; 1-based edge indices `i1 + 1`,
    `i2 + 1`; every record has edge indices `>= 1`) is `F90.findCornerUnused` on the model's records;
    `COINCIDENT_UNUSED = 8` -/
theorem find_corner_unused_eq (s : K) (i1 i2 : Nat) (ints : List (SrcF90.IntersectionRec K))
    (hidx : ∀ x ∈ ints, 1 ≤ x.index_first ∧ 1 ≤ x.index_second) :
    SrcF90.find_corner_unused s ((i1 : Int) + 1) ((i2 : Int) + 1) ints (ints.length : Int) =
      Walk.F90.findCornerUnused s i1 i2 (ints.map toModel) := by
  have hn : Int.toNat ((ints.length : Int) + 1 - 1) = ints.length := by simp
  have key : ∀ (q : SrcF90.IntersectionRec K → Prop) [DecidablePred q] (qm : Classify.Intersection K → Bool),
      (∀ x ∈ ints, decide (q x) = qm (toModel x)) →
      (List.range' 1 ints.length).any (fun i => decide (q (SrcF90.IntersectionRec.elem ints (i - 1)))) =
        (ints.map toModel).any qm := by
    intro q _ qm hq
    have h := any_range'_elem (SrcF90.IntersectionRec.dflt : SrcF90.IntersectionRec K) (fun x => decide (q x)) ints []
    simp only [List.length_nil, Nat.zero_add, List.nil_append] at h
    unfold SrcF90.IntersectionRec.elem
    rw [h, List.any_map]
    have gen : ∀ l : List (SrcF90.IntersectionRec K), (∀ x ∈ l, decide (q x) = qm (toModel x)) →
        l.any (fun x => decide (q x)) = l.any (qm ∘ toModel) := by
      intro l
      induction l with
      | nil => intro _; rfl
      | cons a t ih =>
        intro hl
        simp only [List.any_cons, Function.comp]
        rw [hl a (by simp), ih (fun x hx => hl x (by simp [hx]))]
    exact gen ints hq
  have enc : ∀ x ∈ ints, ∀ (j : Nat) , ((j : Int) + 1 = x.index_first ↔ some j = (toModel x).indexFirst) ∧
      ((j : Int) + 1 = x.index_second ↔ some j = (toModel x).indexSecond) := by
    intro x hx j
    have := hidx x hx
    simp only [toModel, Option.some.injEq]
    omega
  have hint : ∀ x : SrcF90.IntersectionRec K, (x.interior_curve = 8 ↔ (toModel x).interior = some .coincidentUnused) := by
    intro x
    simp only [toModel]
    by_cases h0 : 0 ≤ x.interior_curve
    · rw [if_pos h0]
      constructor
      · intro h; rw [h]; rfl
      · intro h
        have : ∀ n : Nat, Cls.ofCode n = some .coincidentUnused → n = 8 := by
          intro n hn
          match n, hn with
          | 8, _ => rfl
        have := this _ h
        omega
    · rw [if_neg h0]; constructor
      · intro h; omega
      · intro h; cases h
  unfold SrcF90.find_corner_unused Walk.F90.findCornerUnused
  simp only [hn]
  split_ifs with hs
  · have := search_loop (fun i => (SrcF90.IntersectionRec.elem ints (i - 1)).interior_curve = 8 ∧
        (i1 : Int) + 1 = (SrcF90.IntersectionRec.elem ints (i - 1)).index_first ∧
        (i2 : Int) + 1 = (SrcF90.IntersectionRec.elem ints (i - 1)).index_second ∧
        (SrcF90.IntersectionRec.elem ints (i - 1)).s = 0) (List.range' 1 ints.length) (none, false)
    simp only [Bool.or_false] at this
    refine Eq.trans this ?_
    apply key (fun x => x.interior_curve = 8 ∧ (i1 : Int) + 1 = x.index_first ∧ (i2 : Int) + 1 = x.index_second ∧ x.s = 0)
    intro x hx
    have e := enc x hx
    simp only [Bool.decide_and, hint x, (e i1).1, (e i2).2, Bool.and_assoc]
    simp [toModel]
  · have := search_loop (fun i => (SrcF90.IntersectionRec.elem ints (i - 1)).interior_curve = 8 ∧
        (i1 : Int) + 1 = (SrcF90.IntersectionRec.elem ints (i - 1)).index_first ∧
        (i2 : Int) + 1 = (SrcF90.IntersectionRec.elem ints (i - 1)).index_second ∧
        (SrcF90.IntersectionRec.elem ints (i - 1)).t = 0) (List.range' 1 ints.length) (none, false)
    simp only [Bool.or_false] at this
    refine Eq.trans this ?_
    apply key (fun x => x.interior_curve = 8 ∧ (i1 : Int) + 1 = x.index_first ∧ (i2 : Int) + 1 = x.index_second ∧ x.t = 0)
    intro x hx
    have e := enc x hx
    simp only [Bool.decide_and, hint x, (e i1).1, (e i2).2, Bool.and_assoc]
    simp [toModel]

/-! ## `to_front` (every `K`) -/

/-- a search loop with `return` (the state is only changed together with the `return`): the fold stops at the FIRST
    subscript with `P` -/
theorem first_match_loop' {R S : Type} (P : S → Nat → Prop) [∀ s, DecidablePred (P s)] (F : Option R × S → Nat → Option R × S)
    (f : Nat → S → R) (g : Nat → S → S)
    (hsome : ∀ r s i, F (some r, s) i = (some r, s))
    (hpos : ∀ s i, P s i → F (none, s) i = (some (f i s), g i s))
    (hneg : ∀ s i, ¬ P s i → F (none, s) i = (none, s)) (s0 : S) (l : List Nat) :
    List.foldl F (none, s0) l =
      match l.find? (fun i => decide (P s0 i)) with
      | some i => (some (f i s0), g i s0)
      | none => (none, s0) := by
  have stuck : ∀ (l : List Nat) r s, List.foldl F (some r, s) l = (some r, s) := by
    intro l
    induction l with
    | nil => intro r s; rfl
    | cons i rest ih => intro r s; rw [List.foldl_cons, hsome, ih]
  induction l with
  | nil => rfl
  | cons i rest ih =>
    rw [List.foldl_cons]
    by_cases hp : P s0 i
    · rw [hpos s0 i hp, stuck]
      simp [List.find?_cons, hp]
    · rw [hneg s0 i hp, ih]
      simp [List.find?_cons, hp]

/-- … the special case of a test that does not read the loop state -/
theorem first_match_loop {R S : Type} (P : Nat → Prop) [DecidablePred P] (F : Option R × S → Nat → Option R × S)
    (f : Nat → S → R) (g : Nat → S → S)
    (hsome : ∀ r s i, F (some r, s) i = (some r, s))
    (hpos : ∀ s i, P i → F (none, s) i = (some (f i s), g i s))
    (hneg : ∀ s i, ¬ P i → F (none, s) i = (none, s)) (s0 : S) (l : List Nat) :
    List.foldl F (none, s0) l =
      match l.find? (fun i => decide (P i)) with
      | some i => (some (f i s0), g i s0)
      | none => (none, s0) :=
  first_match_loop' (fun _ i => P i) F f g hsome hpos hneg s0 l

/-- the first 1-based subscript in `a + 1, …, a + n` whose element satisfies `p` is the model's `findIdx?` -/
theorem find_range'_elem {α : Type} (d : α) (p : α → Bool) : ∀ (l pre : List α),
    (List.range' (pre.length + 1) l.length).find? (fun i => p ((pre ++ l).getD (i - 1) d)) =
      (Classify.findIdx? p l).map (fun k => k + pre.length + 1) := by
  intro l
  induction l with
  | nil => intro pre; simp [Classify.findIdx?]
  | cons x xs ih =>
    intro pre
    have h := ih (pre ++ [x])
    simp only [List.length_append, List.length_cons, List.length_nil, List.append_assoc, List.cons_append,
      List.nil_append] at h
    simp only [List.length_cons, List.range'_succ, List.find?_cons, Nat.add_sub_cancel, List.getD_eq_getElem?_getD,
      Classify.findIdx?] at h ⊢
    have hx : (pre ++ x :: xs)[pre.length]?.getD d = x := by simp
    rw [hx]
    by_cases hp : p x
    · simp [hp]
    · simp only [hp, Bool.false_eq_true, if_false]
      rw [h]
      cases Classify.findIdx? p xs <;> simp
      omega

/-- the artificial node created by `to_front` on the first triangle: the default-initialised record
    (`index_second = -1`, `t = -1`: not set) with `s = 0`, the NEXT edge `1 + modulo(index_first, 3)`, `FIRST = 0` -/
def frontFirst (x : SrcF90.IntersectionRec K) : SrcF90.IntersectionRec K :=
  { s := 0, t := -1, index_first := 1 + x.index_first % 3, index_second := -1, interior_curve := 0 }

/-- … on the second triangle (`SECOND = 1`) -/
def frontSecond (x : SrcF90.IntersectionRec K) : SrcF90.IntersectionRec K :=
  { s := -1, t := 0, index_first := -1, index_second := 1 + x.index_second % 3, interior_curve := 1 }

/-- `to_front`, closed form (every `K`).  Same shape as `Walk.toFrontNode`: the FIRST intersection (`findIdx?`) at the
    start (`s = 0` resp. `t = 0`) of the next edge is returned and removed from `unused` (`remove_node` with its
    1-based position), `at_start` tells whether it is the start node; without a match an artificial node is created
    from the default-initialised record; a node that is not at the end of an edge is returned unchanged. -/
theorem to_front_spec (ints : List (SrcF90.IntersectionRec K)) (unused : List Int) (remaining start : Int)
    (x : SrcF90.IntersectionRec K) :
    SrcF90.to_front ints unused remaining start x =
      if x.s = 1 then
        match Classify.findIdx? (fun o => decide (o.s = 0) && decide (o.index_first = 1 + x.index_first % 3)) ints with
        | some k => ((SrcF90.remove_node ((k : Int) + 1) unused remaining).1, (SrcF90.remove_node ((k : Int) + 1) unused remaining).2,
                     SrcF90.IntersectionRec.elem ints k, decide ((k : Int) + 1 = start))
        | none => (unused, remaining, frontFirst x, false)
      else if x.t = 1 then
        match Classify.findIdx? (fun o => decide (o.t = 0) && decide (o.index_second = 1 + x.index_second % 3)) ints with
        | some k => ((SrcF90.remove_node ((k : Int) + 1) unused remaining).1, (SrcF90.remove_node ((k : Int) + 1) unused remaining).2,
                     SrcF90.IntersectionRec.elem ints k, decide ((k : Int) + 1 = start))
        | none => (unused, remaining, frontSecond x, false)
      else (unused, remaining, x, false) := by
  have hn : ints.length + 1 - 1 = ints.length := by omega
  have hand : ∀ (a b : Prop) [Decidable a] [Decidable b] (h : Decidable (a ∧ b)),
      @decide (a ∧ b) h = (decide a && decide b) := by
    intro a b _ _ h; by_cases ha : a <;> by_cases hb : b <;> simp [ha, hb]
  unfold SrcF90.to_front
  simp only [hn]
  split_ifs with hs ht
  · have hf := find_range'_elem (SrcF90.IntersectionRec.dflt : SrcF90.IntersectionRec K)
      (fun o => decide (o.s = 0) && decide (o.index_first = 1 + x.index_first % 3)) ints []
    simp only [List.length_nil, Nat.zero_add, List.nil_append] at hf
    rw [first_match_loop
      (fun i => (SrcF90.IntersectionRec.elem ints (i - 1)).s = 0 ∧
        (SrcF90.IntersectionRec.elem ints (i - 1)).index_first = 1 + x.index_first % 3) _
      (fun i (st : List Int × Int × SrcF90.IntersectionRec K × Bool) =>
        ((SrcF90.remove_node ((i : Nat) : Int) st.1 st.2.1).1, (SrcF90.remove_node ((i : Nat) : Int) st.1 st.2.1).2,
          SrcF90.IntersectionRec.elem ints (i - 1), decide (((i : Nat) : Int) = start)))
      (fun i (st : List Int × Int × SrcF90.IntersectionRec K × Bool) =>
        ((SrcF90.remove_node ((i : Nat) : Int) st.1 st.2.1).1, (SrcF90.remove_node ((i : Nat) : Int) st.1 st.2.1).2,
          SrcF90.IntersectionRec.elem ints (i - 1), decide (((i : Nat) : Int) = start)))
      ]
    · have hf' : List.find? (fun i => decide ((SrcF90.IntersectionRec.elem ints (i - 1)).s = 0) &&
          decide ((SrcF90.IntersectionRec.elem ints (i - 1)).index_first = 1 + x.index_first % 3)) (List.range' 1 ints.length) =
          Option.map (fun k => k + 0 + 1)
            (Classify.findIdx? (fun o => decide (o.s = 0) && decide (o.index_first = 1 + x.index_first % 3)) ints) := hf
      simp only [hand]
      rw [hf']
      cases Classify.findIdx? (fun o => decide (o.s = 0) && decide (o.index_first = 1 + x.index_first % 3)) ints with
      | none => rfl
      | some k => simp
    · intro r s i; rfl
    · intro s i hp; simp only [hp, and_self, if_true]
    · intro s i hp; simp only [hp, if_false]
  · have hf := find_range'_elem (SrcF90.IntersectionRec.dflt : SrcF90.IntersectionRec K)
      (fun o => decide (o.t = 0) && decide (o.index_second = 1 + x.index_second % 3)) ints []
    simp only [List.length_nil, Nat.zero_add, List.nil_append] at hf
    rw [first_match_loop
      (fun i => (SrcF90.IntersectionRec.elem ints (i - 1)).t = 0 ∧
        (SrcF90.IntersectionRec.elem ints (i - 1)).index_second = 1 + x.index_second % 3) _
      (fun i (st : List Int × Int × SrcF90.IntersectionRec K × Bool) =>
        ((SrcF90.remove_node ((i : Nat) : Int) st.1 st.2.1).1, (SrcF90.remove_node ((i : Nat) : Int) st.1 st.2.1).2,
          SrcF90.IntersectionRec.elem ints (i - 1), decide (((i : Nat) : Int) = start)))
      (fun i (st : List Int × Int × SrcF90.IntersectionRec K × Bool) =>
        ((SrcF90.remove_node ((i : Nat) : Int) st.1 st.2.1).1, (SrcF90.remove_node ((i : Nat) : Int) st.1 st.2.1).2,
          SrcF90.IntersectionRec.elem ints (i - 1), decide (((i : Nat) : Int) = start)))
      ]
    · have hf' : List.find? (fun i => decide ((SrcF90.IntersectionRec.elem ints (i - 1)).t = 0) &&
          decide ((SrcF90.IntersectionRec.elem ints (i - 1)).index_second = 1 + x.index_second % 3)) (List.range' 1 ints.length) =
          Option.map (fun k => k + 0 + 1)
            (Classify.findIdx? (fun o => decide (o.t = 0) && decide (o.index_second = 1 + x.index_second % 3)) ints) := hf
      simp only [hand]
      rw [hf']
      cases Classify.findIdx? (fun o => decide (o.t = 0) && decide (o.index_second = 1 + x.index_second % 3)) ints with
      | none => rfl
      | some k => simp
    · intro r s i; rfl
    · intro s i hp; simp only [hp, and_self, if_true]
    · intro s i hp; simp only [hp, if_false]
  · rfl

/-! ## `remove_node` (every `K`; integers only) -/

theorem find_congr {α : Type} (p q : α → Bool) : ∀ l : List α, (∀ x ∈ l, p x = q x) → l.find? p = l.find? q := by
  intro l
  induction l with
  | nil => intro _; rfl
  | cons a t ih =>
    intro h
    simp only [List.find?_cons]
    rw [h a (by simp), ih (fun x hx => h x (by simp [hx]))]

/-- `remove_node`, closed form: with `remaining = n` and the first `n` entries of `values` in use, the FIRST position `k`
    (0-based, `findIdx?`) holding `node` is removed by shifting the entries `k + 2 .. n` (1-based) down by one and
    `remaining` becomes `n - 1`; without a match nothing changes -/
theorem remove_node_spec (node : Int) (values : List Int) (n : Nat) :
    SrcF90.remove_node node values (n : Int) =
      match Classify.findIdx? (fun v => decide (v = node)) (values.take n ++ List.replicate (n - values.length) 0) with
      | some k => (SrcF90.setSecI values (k + 1) (n - 1) (SrcF90.secI values (k + 2) n), (n : Int) - 1)
      | none => (values, (n : Int)) := by
  have hn : Int.toNat ((n : Int) + 1 - 1) = n := by simp
  unfold SrcF90.remove_node
  simp only [hn]
  rw [first_match_loop' (fun (st : List Int × Int) i => SrcF90.intAt st.1 (i - 1) = node) _
    (fun i (st : List Int × Int) =>
      (SrcF90.setSecI st.1 i (Int.toNat (st.2 - 1)) (SrcF90.secI st.1 (i + 1) (Int.toNat st.2)), st.2 - 1))
    (fun i (st : List Int × Int) =>
      (SrcF90.setSecI st.1 i (Int.toNat (st.2 - 1)) (SrcF90.secI st.1 (i + 1) (Int.toNat st.2)), st.2 - 1))]
  · have hf := find_range'_elem (0 : Int) (fun v => decide (v = node)) (values.take n ++ List.replicate (n - values.length) 0) []
    have hl : (values.take n ++ List.replicate (n - values.length) 0).length = n := by
      simp only [List.length_append, List.length_take, List.length_replicate]; omega
    simp only [List.length_nil, Nat.zero_add, List.nil_append, hl] at hf
    have hget : ∀ i, i ∈ List.range' 1 n →
        decide (SrcF90.intAt values (i - 1) = node) =
          decide ((values.take n ++ List.replicate (n - values.length) 0).getD (i - 1) 0 = node) := by
      intro i hi
      have hi' := List.mem_range'_1.mp hi
      congr 2
      unfold SrcF90.intAt
      simp only [List.getD_eq_getElem?_getD]
      by_cases hv : i - 1 < values.length
      · rw [List.getElem?_append_left (by simp only [List.length_take]; omega), List.getElem?_take_of_lt (by omega)]
      · rw [List.getElem?_eq_none (by omega)]
        rw [List.getElem?_append_right (by simp only [List.length_take]; omega)]
        simp only [List.length_take]
        rw [List.getElem?_replicate]
        split_ifs <;> rfl
    rw [find_congr _ _ _ hget, hf]
    cases Classify.findIdx? (fun v => decide (v = node)) (values.take n ++ List.replicate (n - values.length) 0) with
    | none => rfl
    | some k =>
      simp only [Option.map_some, Int.toNat_natCast]
      have e1 : Int.toNat ((n : Int) - 1) = n - 1 := by omega
      rw [e1]
  · intro r s i; rfl
  · intro s i hp; simp only [hp, if_true]
  · intro s i hp; simp only [hp, if_false]

/-- the used prefix after `remove_node` is the used prefix with the first occurrence of `node` erased
    (`Walk.consume`: `unused.erase i`), for `n <= size(values)` -/
theorem remove_node_erase (node : Int) (values : List Int) (n : Nat) (hn : n ≤ values.length) :
    ((SrcF90.remove_node node values (n : Int)).1.take (Int.toNat (SrcF90.remove_node node values (n : Int)).2)) =
      (values.take n).erase node := by
  rw [remove_node_spec]
  have h0 : n - values.length = 0 := by omega
  simp only [h0, List.replicate_zero, List.append_nil]
  have key : ∀ (u : List Int) (k : Nat), Classify.findIdx? (fun v => decide (v = node)) u = some k →
      u.erase node = u.take k ++ u.drop (k + 1) ∧ k < u.length := by
    intro u
    induction u with
    | nil => intro k h; simp [Classify.findIdx?] at h
    | cons a t ih =>
      intro k h
      simp only [Classify.findIdx?] at h
      by_cases ha : a = node
      · simp only [ha, decide_true, if_true, Option.some.injEq] at h
        subst h
        simp [ha]
      · simp only [ha, decide_false, Bool.false_eq_true, if_false, Option.map_eq_some_iff] at h
        obtain ⟨j, hj, rfl⟩ := h
        obtain ⟨e, hl⟩ := ih j hj
        constructor
        · rw [List.erase_cons_tail (by simpa using ha), e]; simp
        · simp; omega
  have none_key : ∀ (u : List Int), Classify.findIdx? (fun v => decide (v = node)) u = none → u.erase node = u := by
    intro u
    induction u with
    | nil => intro _; rfl
    | cons a t ih =>
      intro h
      simp only [Classify.findIdx?] at h
      by_cases ha : a = node
      · simp [ha] at h
      · simp only [ha, decide_false, Bool.false_eq_true, if_false, Option.map_eq_none_iff] at h
        rw [List.erase_cons_tail (by simpa using ha), ih h]
  cases hfi : Classify.findIdx? (fun v => decide (v = node)) (values.take n) with
  | none =>
    simp only [Int.toNat_natCast]
    rw [none_key _ hfi]
  | some k =>
    obtain ⟨e, hk⟩ := key _ k hfi
    simp only [List.length_take] at hk
    have hkn : k < n := by omega
    have e2 : Int.toNat ((n : Int) - 1) = n - 1 := by omega
    simp only [e2]
    rw [e]
    unfold SrcF90.setSecI SrcF90.secI
    apply List.ext_getElem?
    intro j
    simp only [List.getElem?_take, List.getElem?_append, List.length_take, List.length_drop, List.getElem?_drop,
      List.length_append]
    split_ifs <;> first | rfl | omega | (congr 1; omega)

/-! ## `get_next` (every `K`) -/

/-- a `do i = 1, n` loop over the elements of an array as a recursion over the list with the running 1-based subscript -/
def walk {σ α : Type} (G : σ → Nat → α → σ) : List α → Nat → σ → σ
  | [], _, st => st
  | o :: rest, i, st => walk G rest (i + 1) (G st i o)

theorem fold_range'_walk {σ α : Type} (d : α) (G : σ → Nat → α → σ) : ∀ (l pre : List α) (st : σ),
    List.foldl (fun st i => G st i ((pre ++ l).getD (i - 1) d)) st (List.range' (pre.length + 1) l.length) =
      walk G l (pre.length + 1) st := by
  intro l
  induction l with
  | nil => intro pre st; rfl
  | cons x xs ih =>
    intro pre st
    have h := ih (pre ++ [x]) (G st (pre.length + 1) x)
    simp only [List.length_append, List.length_cons, List.length_nil, List.append_assoc, List.cons_append,
      List.nil_append] at h
    simp only [List.length_cons, List.range'_succ, List.foldl_cons, walk, Nat.add_sub_cancel]
    have hx : (pre ++ x :: xs).getD pre.length d = x := by simp
    rw [hx, h]

/-- one pass of the search loops of `get_next`: state `(edge_param, intersection_index)`; `idx` / `par` select
    `index_first` / `s` or `index_second` / `t`; `-1` means "nothing found yet" (the model's `alongLoop` keeps an `Option`) -/
def alongStep (idx : SrcF90.IntersectionRec K → Int) (par : SrcF90.IntersectionRec K → K) (index : Int) (p : K)
    (st : K × Int) (i : Nat) (o : SrcF90.IntersectionRec K) : K × Int :=
  if idx o = index ∧ p < par o then
    if st.2 = -1 then (par o, (i : Int))
    else if par o < st.1 then (par o, (i : Int)) else st
  else st

/-- the whole loop -/
def alongF (idx : SrcF90.IntersectionRec K → Int) (par : SrcF90.IntersectionRec K → K) (index : Int) (p : K)
    (ints : List (SrcF90.IntersectionRec K)) (st : K × Int) : K × Int :=
  walk (alongStep idx par index p) ints 1 st

/-- what `get_next` returns when the search found the 1-based position `k` -/
def foundAt (ints : List (SrcF90.IntersectionRec K)) (unused : List Int) (remaining start k : Int) :
    List Int × Int × SrcF90.IntersectionRec K × Bool :=
  ((SrcF90.remove_node k unused remaining).1, (SrcF90.remove_node k unused remaining).2,
    SrcF90.IntersectionRec.elem ints (Int.toNat (k - 1)), decide (k = start))

/-- `get_next`, closed form (every `K`).  Same shape as `Walk.getNextCore` / `F90.getNext`: along the first edge
    (`is_first`), along the second (`is_second`), otherwise first then second (the source "assumes but does not check"
    COINCIDENT).  The search is the smallest parameter beyond the current one on the same edge (`alongF`, the model's
    `alongLoop`); the artificial end nodes are the default-initialised record with `s = 1` / `t = 1` and the codes
    `FIRST = 0`, `SECOND = 1`, `COINCIDENT = 7`; `edge_param` starts undefined (`undef`) and is only read after it was set. -/
theorem get_next_spec (undef : K) (ints : List (SrcF90.IntersectionRec K)) (unused : List Int) (remaining start : Int)
    (x : SrcF90.IntersectionRec K) :
    SrcF90.get_next undef ints unused remaining start x =
      if SrcF90.is_first x.interior_curve = true then
        let a := alongF (·.index_first) (·.s) x.index_first x.s ints (undef, -1)
        if a.2 = -1 then
          (unused, remaining, { s := 1, t := -1, index_first := x.index_first, index_second := -1, interior_curve := 0 }, false)
        else foundAt ints unused remaining start a.2
      else if SrcF90.is_second x.interior_curve = true then
        let a := alongF (·.index_second) (·.t) x.index_second x.t ints (undef, -1)
        if a.2 = -1 then
          (unused, remaining, { s := -1, t := 1, index_first := -1, index_second := x.index_second, interior_curve := 1 }, false)
        else foundAt ints unused remaining start a.2
      else
        let a := alongF (·.index_first) (·.s) x.index_first x.s ints (undef, -1)
        if a.2 ≠ -1 then foundAt ints unused remaining start a.2
        else
          let b := alongF (·.index_second) (·.t) x.index_second x.t ints a
          if b.2 ≠ -1 then foundAt ints unused remaining start b.2
          else (unused, remaining,
            { s := 1, t := 1, index_first := x.index_first, index_second := x.index_second, interior_curve := 7 }, false) := by
  have hn : ints.length + 1 - 1 = ints.length := by omega
  have loopF : ∀ (idx : SrcF90.IntersectionRec K → Int) (par : SrcF90.IntersectionRec K → K) (index : Int) (p : K)
      (st : K × Int),
      List.foldl (fun st i => alongStep idx par index p st i (SrcF90.IntersectionRec.elem ints (i - 1))) st
        (List.range' 1 ints.length) = alongF idx par index p ints st := by
    intro idx par index p st
    have h := fold_range'_walk (SrcF90.IntersectionRec.dflt : SrcF90.IntersectionRec K) (alongStep idx par index p) ints [] st
    simpa [alongF, SrcF90.IntersectionRec.elem] using h
  unfold SrcF90.get_next foundAt
  simp only [hn, ← loopF]
  rfl

end Generic

section Field
variable {K : Type} [Field K] [LinearOrder K]

/-! ## corners (`ignored_edge_corner`, `ignored_double_corner`, `ignored_corner`) -/

theorem seq_negVec (l : List K) (i : Nat) : seq (negVec l) i = -(seq l i) := by
  unfold seq negVec
  simp only [List.getD_eq_getElem?_getD, List.getElem?_map]
  cases l[i]? <;> simp

theorem cp_eq (u v : Pt K) : SrcF90.cross_product u v = cross u v := rfl

theorem cross_vec (u v : Pt K) : cross u v = cross2 (vec u) (vec v) := by
  simp [cross, cross2, vec, seq]

theorem cross_ptOf (u : Pt K) (v : List K) : cross u (ptOf v) = cross2 (vec u) v := by
  simp [cross, cross2, vec, seq, ptOf]

theorem cross_ptOf_ptOf (u v : List K) : cross (ptOf u) (ptOf v) = cross2 u v := by
  simp [cross, cross2, seq, ptOf]

theorem cross_pneg_ptOf (u : Pt K) (v : List K) : cross u (SrcF90.pneg (ptOf v)) = cross2 (vec u) (negVec v) := by
  simp only [cross, cross2, vec, SrcF90.pneg, ptOf, seq_negVec]
  simp [seq]

theorem cross_ptOf_pneg_ptOf (u v : List K) : cross (ptOf u) (SrcF90.pneg (ptOf v)) = cross2 u (negVec v) := by
  simp only [cross, cross2, SrcF90.pneg, ptOf, seq_negVec]

/-- `ignored_edge_corner`: the Fortran `-alt_corner_tangent` is the model's `vec *= -1.0` over a field; the tangent
    arriving at the corner is `evaluate_hodograph(1.0, previous_edge_nodes)` -/
theorem ignored_edge_corner_eq (et ct : Pt K) (prev : List (List K)) :
    SrcF90.ignored_edge_corner et ct prev = ignoredEdgeCorner (vec et) (vec ct) (hodograph 55 prev 1) := by
  unfold SrcF90.ignored_edge_corner ignoredEdgeCorner
  simp only [SrcF90Kernels.evaluate_hodograph_rows, cp_eq, cross_vec et ct, cross_pneg_ptOf, gt_iff_lt]

theorem cross_ptOf_left (u : List K) (v : Pt K) : cross (ptOf u) v = cross2 u (vec v) := by
  simp [cross, cross2, vec, seq, ptOf]

theorem cross2_vec_ptOf (u w : List K) : cross2 (vec (ptOf u)) w = cross2 u w := by
  simp [cross2, vec, seq, ptOf]

/-- `ignored_double_corner`: the two arriving tangents are `evaluate_hodograph(1.0, ·)` of the edges
    `1 + modulo(index - 2, 3)` of either triangle (`prevNodes`); the nested `if`s of the source (the second cross
    product is only computed when needed) are the model's conjunctions -/
theorem ignored_double_corner_eq (e1 e2 : List (SrcF90.CurveDataRec K)) (x : SrcF90.IntersectionRec K) (ts tt : Pt K) :
    SrcF90.ignored_double_corner e1 e2 x ts tt =
      ignoredDoubleCorner (vec ts) (vec tt) (hodograph 55 (prevNodes e1 x.index_first) 1)
        (hodograph 55 (prevNodes e2 x.index_second) 1) := by
  unfold SrcF90.ignored_double_corner ignoredDoubleCorner
  simp only [SrcF90Kernels.evaluate_hodograph_rows, cp_eq, cross_vec ts tt, cross_pneg_ptOf, cross_ptOf_left,
    cross_ptOf_pneg_ptOf, cross2_vec_ptOf, prevNodes, gt_iff_lt, ite_and]
  split_ifs <;> first | rfl | (exfalso; linarith)

/-- `ignored_corner` -/
theorem ignored_corner_eq (e1 e2 : List (SrcF90.CurveDataRec K)) (x : SrcF90.IntersectionRec K) (ts tt : Pt K) :
    SrcF90.ignored_corner e1 e2 x ts tt =
      ignoredCorner x.s x.t (vec ts) (vec tt) (hodograph 55 (prevNodes e1 x.index_first) 1)
        (hodograph 55 (prevNodes e2 x.index_second) 1) := by
  unfold SrcF90.ignored_corner ignoredCorner
  simp only [ignored_double_corner_eq, ignored_edge_corner_eq, prevNodes]

/-! ## `classify_intersection` -/

theorem vec_ptOf (l : List K) (h : l.length = 2) : vec (ptOf l) = l := by
  match l, h with
  | [a, b], _ => rfl

theorem dot2_ptOf (u v : List K) (hu : u.length = 2) (hv : v.length = 2) : dot2 (ptOf u) (ptOf v) = dot u v := by
  match u, v, hu, hv with
  | [a, b], [c, d], _, _ => simp [dot2, ptOf, seq, dot]

theorem hodograph_length (nodes : List (List K)) (s : K) : (hodograph 55 nodes s).length = nodes.length := by
  simp [hodograph]

/-- the module parameter of the source is the model's threshold -/
theorem almost_tangent_eq : (SrcF90.ALMOST_TANGENT : K) = almostTangent := rfl

theorem classify_shape (u : Int) (s t : K) (ic : Bool) (c a : K) (r : Except Err Cls) :
    (if s = 1 ∨ t = 1 then (u, (6 : Int)) else if ic = true then ((5 : Int), (0 : Int)) else if c < -a then (0, 0)
      else if a < c then (1, 0) else ((F90.encode u r).1, (F90.encode u r).2)) =
    F90.encode u (if s = 1 ∨ t = 1 then .error .valueError else if ic = true then .ok .ignoredCorner
      else if c < -a then .ok .first else if a < c then .ok .second else r) := by
  split_ifs <;> rfl

/-- `classify_intersection` (planar edges: the two `%nodes` arrays read have 2 rows, as the source assumes) is
    `F90.classifyWithTangentsK`: `Status_EDGE_END = 6`, `IGNORED_CORNER = 5`, `FIRST = 0`, `SECOND = 1`, the threshold
    `ALMOST_TANGENT`, the tangents `evaluate_hodograph(s | t, edge)` and the curvature values of `get_curvature` -/
theorem classify_intersection_eq (undefI : Int) (nrm : List K → K) (e1 e2 : List (SrcF90.CurveDataRec K))
    (x : SrcF90.IntersectionRec K) (h1 : (edgeNodes e1 x.index_first).length = 2)
    (h2 : (edgeNodes e2 x.index_second).length = 2) :
    SrcF90.classify_intersection undefI nrm e1 e2 x =
      F90.encode undefI (F90.classifyWithTangentsK x.s x.t
        (hodograph 55 (edgeNodes e1 x.index_first) x.s) (hodograph 55 (edgeNodes e2 x.index_second) x.t)
        (hodograph 55 (prevNodes e1 x.index_first) 1) (hodograph 55 (prevNodes e2 x.index_second) 1)
        (SrcF90.get_curvature nrm (edgeNodes e1 x.index_first) (ptOf (hodograph 55 (edgeNodes e1 x.index_first) x.s)) x.s)
        (SrcF90.get_curvature nrm (edgeNodes e2 x.index_second) (ptOf (hodograph 55 (edgeNodes e2 x.index_second) x.t)) x.t)) := by
  have l1 := hodograph_length (edgeNodes e1 x.index_first) x.s
  have l2 := hodograph_length (edgeNodes e2 x.index_second) x.t
  rw [h1] at l1; rw [h2] at l2
  unfold SrcF90.classify_intersection F90.classifyWithTangentsK
  simp only [SrcF90Kernels.evaluate_hodograph_rows, classify_tangent_intersection_eq, ignored_corner_eq, cp_eq,
    cross_ptOf_ptOf, almost_tangent_eq, gt_iff_lt]
  simp only [edgeNodes] at *
  rw [vec_ptOf _ l1, vec_ptOf _ l2, dot2_ptOf _ _ l1 l2]
  exact classify_shape _ _ _ _ _ _ _

end Field

section Ordered
variable {K : Type} [Field K] [LinearOrder K] [IsStrictOrderedRing K]

theorem curvatureParts_snd (nodes : List (List K)) (T : List K) (s : K) : (curvatureParts 55 nodes T s).2 = dot T T := by
  unfold curvatureParts; split_ifs <;> rfl

/-- **`classify_intersection` of the Fortran source = the model's `classifyIntersection`** (the definition the C06
    theorems are about), for an intersection of edge `i` of the first with edge `j` of the second triangle (0-based; the
    source's 1-based `index_first = i + 1`, `index_second = j + 1`), three planar edges per triangle with at least two
    nodes, `norm2` a positive square root of `<T, T>` on the two tangents (they do not vanish), outside the
    configuration `κ₁ = 0 ≤ κ₂` with opposite tangents where Fortran and Python differ.
    Result: `(enum_, status)` = `(code of the classification, 0)` or `(undefined, Status_SAME_CURVATURE | Status_EDGE_END)`. -/
theorem classify_intersection_model (undefI : Int) (nrm : List K → K) (e1 e2 : List (SrcF90.CurveDataRec K))
    (i j : Nat) (s t : K) (ic : Int) (he1 : e1.length = 3) (he2 : e2.length = 3) (hi : i < 3) (hj : j < 3)
    (r1 r2 q1 q2 : List K) (hn1 : (edgesOf e1).getD i [] = [r1, r2]) (hl1 : r2.length = r1.length) (hm1 : 2 ≤ r1.length)
    (hn2 : (edgesOf e2).getD j [] = [q1, q2]) (hl2 : q2.length = q1.length) (hm2 : 2 ≤ q1.length)
    (hN1 : 0 < nrm (hodograph 55 [r1, r2] s) ∧
      nrm (hodograph 55 [r1, r2] s) * nrm (hodograph 55 [r1, r2] s) = dot (hodograph 55 [r1, r2] s) (hodograph 55 [r1, r2] s))
    (hN2 : 0 < nrm (hodograph 55 [q1, q2] t) ∧
      nrm (hodograph 55 [q1, q2] t) * nrm (hodograph 55 [q1, q2] t) = dot (hodograph 55 [q1, q2] t) (hodograph 55 [q1, q2] t))
    (hz : ¬ (dot (hodograph 55 [r1, r2] s) (hodograph 55 [q1, q2] t) < 0 ∧
      (curvatureParts 55 [r1, r2] (hodograph 55 [r1, r2] s) s).1 = 0 ∧
      0 ≤ (curvatureParts 55 [q1, q2] (hodograph 55 [q1, q2] t) t).1)) :
    SrcF90.classify_intersection undefI nrm e1 e2
        { s := s, t := t, index_first := (i : Int) + 1, index_second := (j : Int) + 1, interior_curve := ic } =
      F90.encode undefI (classifyIntersection 55 i s j t (edgesOf e1) (edgesOf e2)) := by
  have en1 : edgeNodes e1 ((i : Int) + 1) = [r1, r2] := by rw [edgeNodes_model e1 i (by omega), hn1]
  have en2 : edgeNodes e2 ((j : Int) + 1) = [q1, q2] := by rw [edgeNodes_model e2 j (by omega), hn2]
  have pn1 := prevNodes_model e1 he1 i hi
  have pn2 := prevNodes_model e2 he2 j hj
  rw [classify_intersection_eq undefI nrm e1 e2 _ (by simp only [en1]; rfl) (by simp only [en2]; rfl)]
  simp only [en1, en2, pn1, pn2]
  have lT1 : (hodograph 55 [r1, r2] s).length = 2 := by simp [hodograph]
  have lT2 : (hodograph 55 [q1, q2] t).length = 2 := by simp [hodograph]
  rw [SrcF90Kernels.get_curvature_eq nrm r1 r2 _ s hl1 hm1, SrcF90Kernels.get_curvature_eq nrm q1 q2 _ t hl2 hm2]
  have v1 := vec_ptOf _ lT1
  have v2 := vec_ptOf _ lT2
  simp only [vec] at v1 v2
  rw [v1, v2]
  unfold classifyIntersection
  simp only [hn1, hn2, curvatureParts_snd, ← hN1.2, ← hN2.2]
  rw [classifyWithTangentsK_eq_model _ _ _ _ _ _ _ _ _ _ hN1.1 hN2.1 hz]

end Ordered

end BezierVerif.SrcF90Classify
