import BezierVerif.Generated.SrcF90
import BezierVerif.Generated.Data
import BezierVerif.Model.Triangle
import Mathlib.Algebra.Order.Field.Basic
import Mathlib.Tactic.Ring
import Mathlib.Tactic.NormNum
import Mathlib.Tactic.Linarith

/-!
# Tables/SrcF90Kernels — the Fortran source text of the numeric kernels MEANS what the model says

Continuation of Tables/SrcF90.lean for the routines of `curve.f90` (and `triangle.f90`) with `do` loops.
`harness/translate_f90.py` translates them under the UNIFORM AXES rule: every one of these routines acts identically
and independently on each row (`dimension_`) and on each parameter value (`num_vals`) – the translator checks that these
axes are only ever referenced by `:` or by the index of a `forall` over the whole axis – and the generated definition is the
action on ONE row / ONE value.  This is exactly the granularity of the model (`Model/Curve.lean` is written row-wise).

A `do i = a, b` loop is a left fold over `List.range' a (b + 1 - a)` whose state holds the loop-carried variables; the
theorems identify that state, iteration by iteration, with the running variables of the model's recursion
(`foldl_range'_rec`, `foldl_reverse_range'_inv`).  Integer quantities that the source converts to real
(`num_nodes - i + 1`) are `ofInt` of the exact Int expression; the model has the truncated Nat expression – equal on the
iteration range (`ofInt_of_eq`).

| routine                         | theorem(s)                                              | model definition                    | domain |
|---------------------------------|---------------------------------------------------------|-------------------------------------|--------|
| evaluate_curve_vs               | `evaluate_curve_vs_loop` (every K), `evaluate_curve_vs_eq` | `vsLoop` / `vsStep`, `evalVS`      | every row (field for the last product) |
| evaluate_curve_de_casteljau     | `evaluate_curve_de_casteljau_eq`                        | `evalDC`, `dcRound`                 | every K, ≥ 2 nodes |
| evaluate_curve_barycentric      | `evaluate_curve_barycentric_eq`, `vs_threshold_extracted` | `evalBary 55`                     | field |
| evaluate_multi                  | `evaluate_multi_eq`, `evaluate_multi_rows`              | `evalBary`, `evalMulti`             | field |
| evaluate_hodograph              | `evaluate_hodograph_eq`, `evaluate_hodograph_rows`      | `hodographRow`, `hodograph`         | field |
| elevate_nodes                   | `elevate_nodes_eq`                                      | `F90.elevateRow`                    | every K, ≥ 1 node |
| subdivide_nodes_generic         | `subdivide_nodes_generic_eq`                            | `F90.subdivideGenericRow` + the final copy `right(1) = left(n)` | field, ≥ 1 node |
| subdivide_nodes                 | `subdivide_nodes_two/three/four`, `subdivide_nodes_other` | `F90.subdivideRow`                | field |
| specialize_curve_quadratic      | `specialize_curve_quadratic_eq`                         | `F90.specializeRow` (3 nodes)       | field |
| specialize_curve                | `specialize_curve_two` (every K), `_three`, `_other`    | `F90.specializeRow`                 | generic routine = argument `gen` |
| newton_refine (curve)           | `newton_refine_eq`                                      | `newtonRefine`                      | field |
| get_curvature                   | `get_curvature_eq`                                      | `curvatureParts` (.1 / ‖t‖³)        | field, planar, ≥ 2 nodes |
| de_casteljau_one_round (triangle) | `de_casteljau_one_round_eq`                           | `dcRound3`                          | every K, output length = filled length |
| evaluate_barycentric_multi      | `evaluate_barycentric_multi_eq`, `tri_index_ok`, `evaluate_barycentric_multi_model` | `F90.evalBarycentricRowReal` | field, (d+1)(d+2) ≤ 2·len |
| evaluate_barycentric            | `evaluate_barycentric_eq_multi`                         | (wrapper)                           | every K |
| evaluate_cartesian_multi        | `evaluate_cartesian_multi_eq_barycentric`, `evaluate_cartesian_multi_model` | `cartesian`, `F90.evalBarycentricRowReal` | field |

NOT translated: `specialize_curve_generic` (rank-3 workspace updated column by column: interface only, passed to
`specialize_curve` as the argument `gen`), `reduce_pseudo_inverse` / `can_reduce` / `full_reduce` (Frobenius `norm2` of a
matrix, integer status codes, sections as output arguments), `locate_point`, `compute_length` (derived types, QUADPACK);
triangle: `jacobian_both` / `jacobian_det` (the `2 * dimension_` axis is not uniform), `compute_edge_nodes`,
`specialize_triangle`, `subdivide_nodes` (triangle; tied by the extracted closed-form tables of Tables/C08), `shoelace_for_area`
(tied by the extracted tables of Tables/C12).

FINDING recorded by `subdivide_nodes_generic_eq`: the current source ends with `right_nodes(:, 1) = left_nodes(:, num_nodes)`;
`Model.F90.subdivideGenericRow` does not transcribe this statement (equal in exact arithmetic, not bit-for-bit).

"every K": any type with the model's notation classes, no algebraic law used.  "field": `[Field K] [LinearOrder K]`,
needed where the source multiplies in another order than the model (`lambda2_pow * lambda2` vs `l2 * pow`).
-/

set_option linter.unusedSectionVars false
set_option linter.unusedVariables false
set_option linter.unusedSimpArgs false

namespace BezierVerif.SrcF90Kernels

open BezierVerif.Model BezierVerif.Generated

section Generic
variable {K : Type} [Add K] [Sub K] [Mul K] [Div K] [Neg K] [OfNat K 0] [OfNat K 1] [NatCast K]
  [LT K] [DecidableLT K] [LE K] [DecidableLE K] [DecidableEq K]

/-! ## loop principles -/

/-- a `do i = a, …` loop (fold over `List.range' a m`) computes `g m` if it starts from `g 0` and one iteration takes
    `g j` to `g (j+1)` -/
theorem foldl_range'_rec {σ : Type} (F : σ → Nat → σ) (a : Nat) (g : Nat → σ) (m : Nat) (init : σ) (h0 : g 0 = init)
    (hstep : ∀ j, j < m → F (g j) (a + j) = g (j + 1)) : List.foldl F init (List.range' a m) = g m := by
  subst h0
  induction m with
  | zero => rfl
  | succ m ih =>
    rw [List.range'_concat, List.foldl_append, ih (fun j hj => hstep j (Nat.lt_succ_of_lt hj))]
    simp only [List.foldl_cons, List.foldl_nil, Nat.one_mul]
    exact hstep m (Nat.lt_succ_self m)

/-- integer → real conversion of a non-negative integer -/
theorem ofInt_of_eq (z : Int) (m : Nat) (h : z = (m : Int)) : (SrcF90.ofInt z : K) = ((m : Nat) : K) := by
  subst h
  unfold SrcF90.ofInt
  rw [if_neg (Int.not_lt.mpr (Int.natCast_nonneg m)), Int.natAbs_natCast]

/-- a descending loop `do i = a + m - 1, a, -1` (fold over the reversed range) maintains an invariant indexed by the
    number of completed iterations -/
theorem foldl_reverse_range'_inv {σ : Type} (F : σ → Nat → σ) (a m : Nat) (P : Nat → σ → Prop) (init : σ)
    (h0 : P 0 init) (hstep : ∀ j, j < m → ∀ s, P j s → P (j + 1) (F s (a + (m - 1 - j)))) :
    P m (List.foldl F init (List.reverse (List.range' a m))) := by
  induction m generalizing P init with
  | zero => exact h0
  | succ m ih =>
    rw [List.range'_concat, List.reverse_append]
    simp only [List.reverse_cons, List.reverse_nil, List.nil_append, List.cons_append, List.foldl_cons, Nat.one_mul]
    apply ih (P := fun j s => P (j + 1) s)
    · have := hstep 0 (Nat.succ_pos m) init h0
      simpa using this
    · intro j hj s hs
      have := hstep (j + 1) (Nat.succ_lt_succ hj) s hs
      have e : m + 1 - 1 - (j + 1) = m - 1 - j := by omega
      rw [e] at this
      exact this

/-! ## `evaluate_curve_vs` -/

/-- the state of the VS loop as the tuple `(evaluated, lambda2_pow, binom_val)` of the source -/
def vsTuple (st : VSState K) : K × K × K := (st.result, st.pow, st.binom)

/-- `evaluate_curve_vs` (one row, one parameter pair): the loop `do i = 2, num_nodes - 1` is `Model.vsLoop`; the last
    term is added as `lambda2_pow * lambda2 * nodes(:, num_nodes)` -/
theorem evaluate_curve_vs_loop (row : List K) (l1 l2 : K) :
    SrcF90.evaluate_curve_vs row l1 l2 =
      (let st := vsLoop (row.length - 1) l1 l2 (seq row) (row.length - 1 - 1)
       st.result + st.pow * l2 * seq row (row.length - 1)) := by
  unfold SrcF90.evaluate_curve_vs
  have hm : (row.length - 1) + 1 - 2 = row.length - 1 - 1 := by omega
  simp only [hm]
  rw [foldl_range'_rec (a := 2) (g := fun j => vsTuple (vsLoop (row.length - 1) l1 l2 (seq row) j))]
  · rfl
  · rfl
  · intro j hj
    have e1 : row.length - (2 + j) + 1 = row.length - 1 - (j + 1) + 1 := by omega
    have e2 : 2 + j - 1 = j + 1 := by omega
    simp only [vsTuple, vsLoop, vsStep, e1, e2]
/-! ## `evaluate_curve_de_casteljau` -/

/-- `lambda1 * v(:n-1) + lambda2 * v(2:)` is one de Casteljau round -/
theorem dcRound_sections (a b : K) : ∀ l : List K,
    addRow (scaleRow a (l.take (l.length - 1))) (scaleRow b (l.drop 1)) = dcRound a b l
  | [] => rfl
  | [_] => rfl
  | x :: y :: rest => by
    have ih := dcRound_sections a b (y :: rest)
    simp only [addRow, scaleRow, List.length_cons, Nat.add_sub_cancel, List.take_succ_cons, List.map_cons,
      List.drop_succ_cons, List.drop_zero, List.zipWith_cons_cons, dcRound] at ih ⊢
    rw [ih]

theorem mulRow_replicate (a : K) : ∀ (xs : List K) (k : Nat), xs.length ≤ k →
    SrcF90.mulRow (List.replicate k a) xs = scaleRow a xs
  | [], k, _ => by simp [SrcF90.mulRow, scaleRow]
  | x :: xs, 0, h => by simp at h
  | x :: xs, k + 1, h => by
    have ih := mulRow_replicate a xs k (by simpa using h)
    simp only [SrcF90.mulRow, scaleRow, List.replicate_succ, List.zipWith_cons_cons, List.map_cons] at ih ⊢
    rw [ih]

theorem dcRound_length (a b : K) : ∀ l : List K, (dcRound a b l).length = l.length - 1
  | [] => rfl
  | [_] => rfl
  | x :: y :: rest => by
    have ih := dcRound_length a b (y :: rest)
    simp only [dcRound, List.length_cons] at ih ⊢
    omega

/-- one pass `workspace(:i) = lambda1_wide(:i) * workspace(:i) + lambda2_wide(:i) * workspace(2:i+1)` -/
theorem dc_pass (a b : K) (w : List K) (L i : Nat) (hL : w.length = L) (hi : i + 1 ≤ L) :
    let w' := SrcF90.setSec w 1 i (addRow (SrcF90.mulRow (SrcF90.secRow (List.replicate L a) 1 i) (SrcF90.secRow w 1 i))
      (SrcF90.mulRow (SrcF90.secRow (List.replicate L b) 1 i) (SrcF90.secRow w 2 (i + 1))))
    w'.length = L ∧ w'.take i = dcRound a b (w.take (i + 1)) := by
  have h1 : SrcF90.secRow w 1 i = w.take i := by simp [SrcF90.secRow]
  have h2 : SrcF90.secRow w 2 (i + 1) = (w.drop 1).take i := by simp [SrcF90.secRow]
  have h3 : ∀ c : K, SrcF90.secRow (List.replicate L c) 1 i = List.replicate i c := by
    intro c; simp [SrcF90.secRow, List.take_replicate]; omega
  have hv : addRow (SrcF90.mulRow (List.replicate i a) (w.take i)) (SrcF90.mulRow (List.replicate i b) ((w.drop 1).take i))
      = dcRound a b (w.take (i + 1)) := by
    rw [mulRow_replicate a _ i (by simp), mulRow_replicate b _ i (by simp), ← dcRound_sections]
    have e1 : (w.take (i + 1)).length - 1 = i := by simp; omega
    rw [e1, List.take_take, List.drop_take]
    simp
  simp only [h1, h2, h3, hv]
  have hlen : (dcRound a b (w.take (i + 1))).length = i := by rw [dcRound_length]; simp; omega
  constructor
  · simp [SrcF90.setSec, hlen, hL]; omega
  · simp [SrcF90.setSec, hlen]
    exact List.take_of_length_le (Nat.le_of_eq hlen)

theorem evalDC_iter (a b : K) : ∀ (k : Nat) (l : List K), evalDC a b k l = (iter (dcRound a b) k l).headD 0
  | 0, l => rfl
  | k + 1, l => by simp only [evalDC, iter]; exact evalDC_iter a b k _

theorem iter_succ' {α : Type} (f : α → α) : ∀ (k : Nat) (x : α), iter f (k + 1) x = f (iter f k x)
  | 0, x => rfl
  | k + 1, x => by simp only [iter] at *; exact iter_succ' f k (f x)

theorem iter_dcRound_length (a b : K) (l : List K) : ∀ k, (iter (dcRound a b) k l).length = l.length - k
  | 0 => rfl
  | k + 1 => by rw [iter_succ', dcRound_length, iter_dcRound_length a b l k]; omega

/-- `evaluate_curve_de_casteljau` (one row, one parameter pair, at least two nodes) is `Model.evalDC` with
    `num_nodes - 1` rounds -/
theorem evaluate_curve_de_casteljau_eq (row : List K) (l1 l2 : K) (hn : 2 ≤ row.length) :
    SrcF90.evaluate_curve_de_casteljau row l1 l2 = evalDC l1 l2 (row.length - 1) row := by
  unfold SrcF90.evaluate_curve_de_casteljau
  simp only
  have hw0 : addRow (scaleRow l1 (SrcF90.secRow row 1 (row.length - 1))) (scaleRow l2 (SrcF90.secRow row 2 row.length))
      = dcRound l1 l2 row := by
    rw [← dcRound_sections]
    simp [SrcF90.secRow]
    rw [List.take_of_length_le (l := row.tail) (by simp)]
  rw [hw0]
  have hm : (row.length - 2) + 1 - 1 = row.length - 2 := by omega
  rw [hm]
  have inv := foldl_reverse_range'_inv
    (fun (st : List K) (i : Nat) =>
      SrcF90.setSec st 1 i (addRow (SrcF90.mulRow (SrcF90.secRow (List.replicate (row.length - 1) l1) 1 i) (SrcF90.secRow st 1 i))
        (SrcF90.mulRow (SrcF90.secRow (List.replicate (row.length - 1) l2) 1 i) (SrcF90.secRow st 2 (i + 1)))))
    1 (row.length - 2)
    (fun j w => w.length = row.length - 1 ∧ w.take (row.length - 1 - j) = iter (dcRound l1 l2) (1 + j) row)
    (dcRound l1 l2 row)
    (by
      refine ⟨dcRound_length _ _ _, ?_⟩
      simp only [Nat.sub_zero, Nat.add_zero, iter]
      rw [List.take_of_length_le]; rw [dcRound_length])
    (by
      intro j hj w ⟨hlen, htake⟩
      have hi : 1 + (row.length - 2 - 1 - j) + 1 ≤ row.length - 1 := by omega
      have := dc_pass l1 l2 w (row.length - 1) (1 + (row.length - 2 - 1 - j)) hlen hi
      simp only at this
      refine ⟨this.1, ?_⟩
      have e1 : row.length - 1 - (j + 1) = 1 + (row.length - 2 - 1 - j) := by omega
      have e2 : 1 + (row.length - 2 - 1 - j) + 1 = row.length - 1 - j := by omega
      rw [e1, this.2, e2, htake, show 1 + (j + 1) = (1 + j) + 1 by omega, iter_succ'])
  obtain ⟨hlen, htake⟩ := inv
  rw [evalDC_iter]
  have e3 : row.length - 1 - (row.length - 2) = 1 := by omega
  have e4 : 1 + (row.length - 2) = row.length - 1 := by omega
  rw [e3, e4] at htake
  rw [← htake]
  simp only [seq]
  cases h : List.foldl _ _ _ with
  | nil => rw [h] at hlen; simp at hlen; omega
  | cons x xs => rfl
/-! ## `elevate_nodes` -/

/-- an array described entry by entry: one element assignment -/
theorem map_range_set {α : Type} (m i : Nat) (g : Nat → α) (x : α) :
    ((List.range m).map g).set i x = (List.range m).map (fun k => if k = i then x else g k) := by
  apply List.ext_getElem
  · simp
  · intro k h1 h2
    simp only [List.getElem_set, List.getElem_map, List.getElem_range]
    by_cases h : i = k
    · subst h; simp
    · have h' : ¬ k = i := fun e => h e.symm
      simp [h, h']

theorem replicate_eq_map_range {α : Type} (m : Nat) (x : α) : List.replicate m x = (List.range m).map (fun _ => x) := by
  apply List.ext_getElem <;> simp

/-- `elevate_nodes` (one row with at least one node) is `Model.F90.elevateRow`; every entry of `elevated` is assigned
    (the result does not depend on `undef`) -/
theorem elevate_nodes_eq (undef : K) (row : List K) (hn : 1 ≤ row.length) :
    SrcF90.elevate_nodes undef row = F90.elevateRow row := by
  unfold SrcF90.elevate_nodes F90.elevateRow
  simp only
  have hm : (row.length - 1) + 1 - 1 = row.length - 1 := by omega
  rw [hm, replicate_eq_map_range, map_range_set]
  rw [foldl_range'_rec (a := 1) (g := fun j => (List.range (row.length + 1)).map (fun k =>
      if k = 0 then seq row 0
      else if k ≤ j then (((k : Nat) : K) * seq row (k - 1) + ((row.length - k : Nat) : K) * seq row k) / ((row.length : Nat) : K)
      else undef))]
  · rw [map_range_set]
    apply List.map_congr_left
    intro k hk
    have hk' : k < row.length + 1 := List.mem_range.mp hk
    by_cases h0 : k = 0
    · have : ¬ k = row.length + 1 - 1 := by omega
      simp [h0]
      intro h; omega
    · by_cases hl : k = row.length
      · simp [hl]
        intro h; simp [h] at hn
      · have h1 : ¬ k = row.length + 1 - 1 := by omega
        have h2 : k ≤ row.length - 1 := by omega
        simp [h0, hl, h1, h2]
  · apply List.map_congr_left
    intro k hk
    by_cases h0 : k = 0
    · simp [h0]
    · have : ¬ k ≤ 0 := by omega
      simp [h0, this]
  · intro j hj
    rw [map_range_set]
    apply List.map_congr_left
    intro k hk
    have e1 : 1 + j + 1 - 1 = 1 + j := by omega
    have e2 : 1 + j - 1 = j := by omega
    by_cases hk1 : k = 1 + j
    · subst hk1
      simp [e1, e2]
      intro h; omega
    · have : ¬ k = 1 + j + 1 - 1 := by omega
      by_cases h0 : k = 0
      · simp [h0]
        intro h; omega
      · by_cases hle : k ≤ j
        · have : k ≤ j + 1 := by omega
          simp [h0, hle, *]
        · have : ¬ k ≤ j + 1 := by omega
          simp [h0, hle, *]
/-! ## `subdivide_nodes_generic`: inner loop -/

theorem reverse_map_range {α : Type} (n : Nat) (f : Nat → α) :
    ((List.range n).map f).reverse = (List.range n).map (fun k => f (n - 1 - k)) := by
  apply List.ext_getElem
  · simp
  · intro k h1 h2
    simp at h1 h2
    simp [List.getElem_reverse]

/-- partial sums accumulated by the inner loop of `subdivide_nodes_generic` (the model's folds) -/
def sumL (p row : List K) (t : Nat) : K := (List.range t).foldl (fun acc pi => acc + seq p pi * seq row pi) 0
def sumR (p row : List K) (n t : Nat) : K := (List.range t).foldl (fun acc pi => acc + seq p pi * seq row (n - 1 - pi)) 0

theorem sumL_succ (p row : List K) (t : Nat) : sumL p row (t + 1) = sumL p row t + seq p t * seq row t := by
  simp [sumL, List.range_succ, List.foldl_append]

theorem sumR_succ (p row : List K) (n t : Nat) : sumR p row n (t + 1) = sumR p row n t + seq p t * seq row (n - 1 - t) := by
  simp [sumR, List.range_succ, List.foldl_append]

theorem seq_set_self (l : List K) (i : Nat) (x : K) (h : i < l.length) : seq (l.set i x) i = x := by
  simp [seq, List.getD_eq_getElem?_getD, h]

/-- the inner loop `do pascal_index = 1, elt_index`: two running sums kept in `left_nodes(e)`, `right_nodes(n+1-e)` -/
theorem inner_loop (F : List K × List K → Nat → List K × List K) (Lb Rb p row : List K) (n i1 i2 e : Nat)
    (h1 : i1 < Lb.length) (h2 : i2 < Rb.length)
    (hF : ∀ st pi, F st pi = (List.set st.1 i1 (seq st.1 i1 + seq p (pi - 1) * seq row (pi - 1)),
      List.set st.2 i2 (seq st.2 i2 + seq p (pi - 1) * seq row (n + 1 - pi - 1)))) :
    List.foldl F (Lb.set i1 0, Rb.set i2 0) (List.range' 1 e) =
      (Lb.set i1 (sumL p row e), Rb.set i2 (sumR p row n e)) := by
  rw [foldl_range'_rec (a := 1) (g := fun t => (Lb.set i1 (sumL p row t), Rb.set i2 (sumR p row n t)))]
  · rfl
  · intro t ht
    have e1 : 1 + t - 1 = t := by omega
    have e2 : n + 1 - (1 + t) - 1 = n - 1 - t := by omega
    rw [hF]
    simp only [List.set_set, seq_set_self _ _ _ h1, seq_set_self _ _ _ h2, e1, e2, sumL_succ, sumR_succ]
/-! ## `specialize_curve`: linear case and hand-over to the generic routine -/

/-- `specialize_curve`, linear case (every K; the generic routine is not involved) -/
theorem specialize_curve_two (undef : K) (gen : List K → K → K → List K) (x y a b : K) :
    SrcF90.specialize_curve undef gen [x, y] a b = F90.specializeRow [x, y] a b := by
  simp [SrcF90.specialize_curve, F90.specializeRow, seq]

/-- `specialize_curve` with more than three (or fewer than two) nodes hands over to `specialize_curve_generic`, which is
    outside the translated subset (rank-3 workspace): the argument `gen`; so does the model -/
theorem specialize_curve_other (undef : K) (gen : List K → K → K → List K) (row : List K) (a b : K)
    (h : row.length ≠ 2 ∧ row.length ≠ 3) :
    SrcF90.specialize_curve undef gen row a b = gen row a b ∧
      F90.specializeRow row a b = F90.specializeGenericRow row a b := by
  constructor
  · unfold SrcF90.specialize_curve
    rw [if_neg h.1, if_neg h.2]
  · unfold F90.specializeRow
    split <;> first | rfl | (simp at h)
/-! ## triangle.f90: `evaluate_barycentric`, `evaluate_cartesian_multi` (wrappers), `de_casteljau_one_round`

Integer variables of the source (`index_`, `parent_i1`, …) are Int-valued in the generated definitions and used as
subscripts through `Int.toNat (· - 1)`; the theorems identify them with the model's 0-based natural-number indices `+ 1`. -/

/-- a descending loop computes `g m` if it starts from `g 0` and the iteration with index `a + (m - 1 - j)` takes `g j` to
    `g (j + 1)` -/
theorem foldl_reverse_range'_rec {σ : Type} (F : σ → Nat → σ) (a m : Nat) (g : Nat → σ) (init : σ) (h0 : g 0 = init)
    (hstep : ∀ j, j < m → F (g j) (a + (m - 1 - j)) = g (j + 1)) :
    List.foldl F init (List.reverse (List.range' a m)) = g m := by
  have := foldl_reverse_range'_inv F a m (fun j s => s = g j) init h0.symm
    (fun j hj s hs => by rw [hs]; exact hstep j hj)
  exact this

/-- `evaluate_cartesian_multi` is `evaluate_barycentric_multi` with `lambda1 = 1 - s - t` (the source repeats the loop) -/
theorem evaluate_cartesian_multi_eq_barycentric (row : List K) (d : Int) (s t : K) :
    SrcF90.evaluate_cartesian_multi row d (s, t) = SrcF90.evaluate_barycentric_multi row d [1 - s - t, s, t] := by
  rfl

/-- `evaluate_barycentric` passes `(lambda1, lambda2, lambda3)` on -/
theorem evaluate_barycentric_eq_multi (undef : K) (row : List K) (d : Int) (l1 l2 l3 : K) :
    SrcF90.evaluate_barycentric undef row d l1 l2 l3 = SrcF90.evaluate_barycentric_multi row d [l1, l2, l3] := by
  rfl
/-- the state of the loops of `de_casteljau_one_round`: the output filled up to `done`, the 1-based running indices -/
def dc3State (undef : K) (done : List K) (r p1 p2 p3 : Nat) : List K × Int × Int × Int × Int :=
  (done ++ List.replicate r undef, ((done.length : Nat) : Int) + 1, ((p1 : Nat) : Int) + 1, ((p2 : Nat) : Int) + 1,
    ((p3 : Nat) : Int) + 1)

theorem set_append_replicate (undef x : K) (done : List K) (r : Nat) :
    (done ++ List.replicate (r + 1) undef).set done.length x = (done ++ [x]) ++ List.replicate r undef := by
  simp [List.set_append, List.replicate_succ]

/-- inner loop `do j = 0, degree - k - 1` (the body does not use `j`): `cnt` iterations append `Model.dcInner3` -/
theorem dc3_inner (undef : K) (w : Bary K) (row : List K)
    (F : List K × Int × Int × Int × Int → Nat → List K × Int × Int × Int × Int)
    (hF : ∀ st j, F st j = (List.set st.1 (Int.toNat (st.2.1 - 1))
        (w.l1 * seq row (Int.toNat (st.2.2.1 - 1)) + w.l2 * seq row (Int.toNat (st.2.2.2.1 - 1))
          + w.l3 * seq row (Int.toNat (st.2.2.2.2 - 1))),
        st.2.1 + 1, st.2.2.1 + 1, st.2.2.2.1 + 1, st.2.2.2.2 + 1)) :
    ∀ (l : List Nat) (done : List K) (r p1 p2 p3 : Nat), l.length ≤ r →
      List.foldl F (dc3State undef done r p1 p2 p3) l =
        dc3State undef (done ++ dcInner3 w (seq row) l.length p1 p2 p3) (r - l.length) (p1 + l.length) (p2 + l.length)
          (p3 + l.length) := by
  intro l
  induction l with
  | nil => intro done r p1 p2 p3 _; simp [dcInner3]
  | cons j l ih =>
    intro done r p1 p2 p3 hr
    obtain ⟨r', rfl⟩ : ∃ r', r = r' + 1 := ⟨r - 1, by simp at hr; omega⟩
    rw [List.foldl_cons, hF]
    have e0 : Int.toNat (((done.length : Nat) : Int) + 1 - 1) = done.length := by omega
    have e1 : ∀ p : Nat, Int.toNat (((p : Nat) : Int) + 1 - 1) = p := by intro p; omega
    simp only [dc3State, e0, e1, set_append_replicate]
    have := ih (done ++ [w.l1 * seq row p1 + w.l2 * seq row p2 + w.l3 * seq row p3]) r' (p1 + 1) (p2 + 1) (p3 + 1)
      (by simp at hr; omega)
    simp only [dc3State, List.length_append, List.length_cons, List.length_nil] at this
    have c1 : ((done.length : Nat) : Int) + 1 + 1 = ((done.length + (0 + 1) : Nat) : Int) + 1 := by omega
    have c2 : ∀ p : Nat, ((p : Nat) : Int) + 1 + 1 = ((p + 1 : Nat) : Int) + 1 := by intro p; omega
    rw [c1, c2, c2, c2, this]
    simp only [dcInner3, List.length_cons, List.append_assoc, List.cons_append, List.nil_append]
    have d1 : r' + 1 - (l.length + 1) = r' - l.length := by omega
    have d2 : ∀ p : Nat, p + 1 + l.length = p + (l.length + 1) := by intro p; omega
    simp only [d1, d2, List.length_append, List.length_cons]
    congr 3
    omega

theorem dcInner3_length (w : Bary K) (v : Nat → K) : ∀ cnt p1 p2 p3, (dcInner3 w v cnt p1 p2 p3).length = cnt
  | 0, _, _, _ => rfl
  | cnt + 1, p1, p2, p3 => by simp [dcInner3, dcInner3_length w v cnt]

/-- outer loop `do k = 0, degree - 1`: `Model.dcOuter3` -/
theorem dc3_outer (undef : K) (w : Bary K) (row : List K) (d : Nat)
    (Fin Fout : List K × Int × Int × Int × Int → Nat → List K × Int × Int × Int × Int)
    (hFin : ∀ st j, Fin st j = (List.set st.1 (Int.toNat (st.2.1 - 1))
        (w.l1 * seq row (Int.toNat (st.2.2.1 - 1)) + w.l2 * seq row (Int.toNat (st.2.2.2.1 - 1))
          + w.l3 * seq row (Int.toNat (st.2.2.2.2 - 1))),
        st.2.1 + 1, st.2.2.1 + 1, st.2.2.2.1 + 1, st.2.2.2.2 + 1))
    (hFout : ∀ st k, Fout st k =
      ((List.foldl Fin st (List.range' 0 (Int.toNat (((d : Nat) : Int) - ((k : Nat) : Int) - 1 + 1 - 0)))).1,
       (List.foldl Fin st (List.range' 0 (Int.toNat (((d : Nat) : Int) - ((k : Nat) : Int) - 1 + 1 - 0)))).2.1,
       (List.foldl Fin st (List.range' 0 (Int.toNat (((d : Nat) : Int) - ((k : Nat) : Int) - 1 + 1 - 0)))).2.2.1 + 1,
       (List.foldl Fin st (List.range' 0 (Int.toNat (((d : Nat) : Int) - ((k : Nat) : Int) - 1 + 1 - 0)))).2.2.2.1 + 1,
       (List.foldl Fin st (List.range' 0 (Int.toNat (((d : Nat) : Int) - ((k : Nat) : Int) - 1 + 1 - 0)))).2.2.2.2)) :
    ∀ (fuel k : Nat) (done : List K) (r p1 p2 p3 : Nat),
      (dcOuter3 w (seq row) d fuel k p1 p2 p3).length ≤ r →
      (List.foldl Fout (dc3State undef done r p1 p2 p3) (List.range' k fuel)).1 =
        done ++ dcOuter3 w (seq row) d fuel k p1 p2 p3
          ++ List.replicate (r - (dcOuter3 w (seq row) d fuel k p1 p2 p3).length) undef := by
  intro fuel
  induction fuel with
  | zero => intro k done r p1 p2 p3 _; simp [dcOuter3, dc3State]
  | succ fuel ih =>
    intro k done r p1 p2 p3 hr
    have hcnt : Int.toNat (((d : Nat) : Int) - ((k : Nat) : Int) - 1 + 1 - 0) = d - k := by omega
    simp only [dcOuter3, List.length_append, dcInner3_length] at hr
    rw [List.range'_succ, List.foldl_cons, hFout, hcnt]
    have hin := dc3_inner undef w row Fin hFin (List.range' 0 (d - k)) done r p1 p2 p3 (by simp; omega)
    simp only [List.length_range'] at hin
    rw [hin]
    simp only [dc3State]
    have c2 : ∀ p : Nat, ((p : Nat) : Int) + 1 + 1 = ((p + 1 : Nat) : Int) + 1 := by intro p; omega
    rw [c2, c2]
    have := ih (k + 1) (done ++ dcInner3 w (seq row) (d - k) p1 p2 p3) (r - (d - k)) (p1 + (d - k) + 1) (p2 + (d - k) + 1)
      (p3 + (d - k)) (by omega)
    simp only [dc3State] at this
    rw [this]
    simp only [dcOuter3, List.append_assoc, List.length_append, dcInner3_length]
    congr 4
    omega

/-- `de_casteljau_one_round` (triangle, one row): `Model.dcRound3`, provided the output has exactly the
    `degree (degree + 1) / 2` entries the loops fill (`num_nodes - degree - 1` for a triangular array) -/
theorem de_casteljau_one_round_eq (undef : K) (row : List K) (d : Nat) (l1 l2 l3 : K)
    (hL : (dcRound3 d ⟨l1, l2, l3⟩ row).length = Int.toNat (((row.length : Nat) : Int) - (d : Int) - 1)) :
    SrcF90.de_casteljau_one_round undef row (d : Int) l1 l2 l3 = dcRound3 d ⟨l1, l2, l3⟩ row := by
  unfold SrcF90.de_casteljau_one_round
  simp only
  have hd : Int.toNat (((d : Nat) : Int) - 1 + 1 - 0) = d := by omega
  rw [hd, ← hL]
  have h0 : ((List.replicate (dcRound3 d ⟨l1, l2, l3⟩ row).length undef, (1 : Int), (1 : Int), (2 : Int), ((d : Nat) : Int) + 2)
      : List K × Int × Int × Int × Int) = dc3State undef [] (dcRound3 d ⟨l1, l2, l3⟩ row).length 0 1 (d + 1) := by
    simp only [dc3State, List.nil_append, List.length_nil]
    refine Prod.ext rfl (Prod.ext ?_ (Prod.ext ?_ (Prod.ext ?_ ?_))) <;> simp <;> omega
  rw [h0]
  rw [dc3_outer undef ⟨l1, l2, l3⟩ row d _ _ (fun st j => rfl) (fun st k => rfl) d 0 [] _ 0 1 (d + 1) (by unfold dcRound3; exact Nat.le_refl _)]
  unfold dcRound3
  simp
end Generic

section Field
variable {K : Type} [Field K] [LinearOrder K]

/-- `evaluate_curve_vs` is `Model.evalVS` (the last term is `lambda2_pow * lambda2 * v` in the source, `l2 * pow * v` in the
    model: commutativity) -/
theorem evaluate_curve_vs_eq (row : List K) (l1 l2 : K) :
    SrcF90.evaluate_curve_vs row l1 l2 = evalVS (row.length - 1) l1 l2 (seq row) := by
  rw [evaluate_curve_vs_loop]
  simp only [evalVS, mul_comm]

/-! ## `evaluate_curve_barycentric`, `evaluate_multi`, `evaluate_hodograph` -/

/-- the switch `num_nodes > 55` is the threshold extracted by harness/extract.py -/
theorem vs_threshold_extracted : f90_curve_vs_threshold = 55 := by decide

/-- `evaluate_curve_barycentric` is `Model.evalBary` with the threshold 55 (rows with at least one node; above the
    threshold de Casteljau, below VS) -/
theorem evaluate_curve_barycentric_eq (row : List K) (l1 l2 : K) :
    SrcF90.evaluate_curve_barycentric row l1 l2 = evalBary 55 row l1 l2 := by
  unfold SrcF90.evaluate_curve_barycentric evalBary
  by_cases h : 55 < row.length
  · rw [if_pos h, if_pos h]
    exact evaluate_curve_de_casteljau_eq row l1 l2 (by omega)
  · rw [if_neg h, if_neg h]
    exact evaluate_curve_vs_eq row l1 l2

/-- `evaluate_multi` (one row, one parameter): `one_less = 1 - s` -/
theorem evaluate_multi_eq (row : List K) (s : K) :
    SrcF90.evaluate_multi row s = evalBary 55 row (1 - s) s := by
  unfold SrcF90.evaluate_multi
  exact evaluate_curve_barycentric_eq row (1 - s) s

/-- … hence the model's `evalMulti` on every row and every parameter -/
theorem evaluate_multi_rows (nodes : List (List K)) (ss : List K) :
    nodes.map (fun row => ss.map (fun s => SrcF90.evaluate_multi row s)) = evalMulti 55 nodes ss := by
  simp only [evalMulti, evalMultiBary, List.map_map, evaluate_multi_eq]
  rfl

/-- `nodes(:, 2:) - nodes(:, :num_nodes - 1)` on one row is `Model.diffs` -/
theorem diffs_sections : ∀ row : List K,
    subRow (SrcF90.secRow row 2 row.length) (SrcF90.secRow row 1 (row.length - 1)) = diffs row
  | [] => rfl
  | [_] => rfl
  | x :: y :: rest => by
    have ih := diffs_sections (y :: rest)
    simp only [subRow, SrcF90.secRow, List.length_cons, Nat.add_sub_cancel, List.drop_succ_cons, List.drop_zero,
      Nat.sub_self, Nat.reduceSubDiff, diffs] at ih ⊢
    rw [← ih]
    simp [List.take_succ_cons]

/-- `evaluate_hodograph` (one row) is `Model.hodographRow`: `(num_nodes - 1) * evaluate_multi(first_deriv, s)` -/
theorem evaluate_hodograph_eq (row : List K) (s : K) :
    SrcF90.evaluate_hodograph s row = hodographRow 55 row s := by
  unfold SrcF90.evaluate_hodograph hodographRow
  simp only [diffs_sections, evaluate_multi_eq]

/-- … hence `Model.hodograph` on every row -/
theorem evaluate_hodograph_rows (nodes : List (List K)) (s : K) :
    nodes.map (fun row => SrcF90.evaluate_hodograph s row) = hodograph 55 nodes s := by
  simp only [hodograph, evaluate_hodograph_eq]

/-! ## `subdivide_nodes_generic`, `subdivide_nodes` -/

theorem q_one_two : (q 1 2 : K) = 1 / (1 + 1) := by
  unfold q; norm_num

/-- `p(:e) = 0.5 * (p(:e) + p(e:1:-1))` is `Model.f90PascalStep` -/
theorem pascal_step (p : List K) (e : Nat) (he : e ≤ p.length) :
    SrcF90.setSec p 1 e (scaleRow (q 1 2) (addRow (SrcF90.secRow p 1 e) (List.reverse (SrcF90.secRow p 1 e))))
      = f90PascalStep p e := by
  have h1 : SrcF90.secRow p 1 e = p.take e := by simp [SrcF90.secRow]
  rw [h1, q_one_two]
  unfold f90PascalStep SrcF90.setSec scaleRow addRow
  simp only [Nat.sub_self, List.take_zero, List.nil_append, Nat.add_sub_cancel, List.map_zipWith]
  rw [List.take_of_length_le (by simp)]

/-- the state of the outer loop of `subdivide_nodes_generic` after `j` iterations -/
def subdivState (undef : K) (row : List K) (j : Nat) : List K × List K × List K :=
  ((List.range row.length).map (fun k => if k < j then sumL (f90PascalRow row.length (k + 1)) row (k + 1) else undef),
   (List.range row.length).map (fun k => if row.length - 1 - k < j
      then sumR (f90PascalRow row.length (row.length - 1 - k + 1)) row row.length (row.length - 1 - k + 1) else undef),
   f90PascalRow row.length j)

theorem f90PascalRow_length' (nn : Nat) (hnn : 1 ≤ nn) : ∀ e, e ≤ nn → (f90PascalRow (K := K) nn e).length = nn
  | 0, _ => by simp [f90PascalRow]; omega
  | 1, _ => by simp [f90PascalRow]; omega
  | e + 2, h => by
    have ih := f90PascalRow_length' nn hnn (e + 1) (by omega)
    show (f90PascalStep (f90PascalRow nn (e + 1)) (e + 2)).length = nn
    simp [f90PascalStep, ih]; omega

/-- `subdivide_nodes_generic` (one row, at least one node) is `Model.F90.subdivideGenericRow` FOLLOWED BY the statement
    `right_nodes(:, 1) = left_nodes(:, num_nodes)` of the current source, which the model does not transcribe (both are
    `B(1/2)`; equal in exact arithmetic by the symmetry of the Pascal row, bit-for-bit only through the copy).
    Every entry of both outputs is assigned. -/
theorem subdivide_nodes_generic_eq (undef : K) (row : List K) (hn : 1 ≤ row.length) :
    SrcF90.subdivide_nodes_generic undef row =
      ((F90.subdivideGenericRow row).1,
       (F90.subdivideGenericRow row).2.set 0 (seq (F90.subdivideGenericRow row).1 (row.length - 1))) := by
  unfold SrcF90.subdivide_nodes_generic
  simp only [Nat.add_sub_cancel]
  rw [foldl_range'_rec (a := 1) (g := subdivState undef row)]
  · -- after the loop: every entry is assigned
    unfold subdivState F90.subdivideGenericRow
    simp only
    have hL : (List.range row.length).map (fun k => if k < row.length
          then sumL (f90PascalRow row.length (k + 1)) row (k + 1) else undef)
        = (List.range row.length).map (fun e0 => (List.range (e0 + 1)).foldl
            (fun acc pi => acc + seq (f90PascalRow (K := K) row.length (e0 + 1)) pi * seq row pi) 0) := by
      apply List.map_congr_left
      intro k hk
      rw [if_pos (List.mem_range.mp hk)]; rfl
    have hR : (List.range row.length).map (fun k => if row.length - 1 - k < row.length
          then sumR (f90PascalRow row.length (row.length - 1 - k + 1)) row row.length (row.length - 1 - k + 1) else undef)
        = ((List.range row.length).map (fun e0 => (List.range (e0 + 1)).foldl
            (fun acc pi => acc + seq (f90PascalRow (K := K) row.length (e0 + 1)) pi * seq row (row.length - 1 - pi)) 0)).reverse := by
      rw [reverse_map_range]
      apply List.map_congr_left
      intro k hk
      rw [if_pos (by omega)]; rfl
    rw [hL, hR]
  · -- before the loop
    unfold subdivState
    simp only [Nat.not_lt_zero, if_false, ← replicate_eq_map_range]
    congr 2
    obtain ⟨m, hm⟩ : ∃ m, row.length = m + 1 := ⟨row.length - 1, by omega⟩
    rw [hm]; simp [f90PascalRow, List.replicate_succ]
  · intro j hj
    have hlenP : (f90PascalRow (K := K) row.length j).length = row.length := f90PascalRow_length' _ hn j (by omega)
    have hp : (if 1 < 1 + j then
          SrcF90.setSec (subdivState undef row j).2.2 1 (1 + j)
            (scaleRow (q 1 2) (addRow (SrcF90.secRow (subdivState undef row j).2.2 1 (1 + j))
              (SrcF90.secRow (subdivState undef row j).2.2 1 (1 + j)).reverse))
        else (subdivState undef row j).2.2) = f90PascalRow row.length (j + 1) := by
      cases j with
      | zero => rfl
      | succ j' =>
        rw [if_pos (by omega)]
        have hs : (subdivState undef row (j' + 1)).2.2 = f90PascalRow row.length (j' + 1) := rfl
        rw [hs, pascal_step _ _ (by omega), show 1 + (j' + 1) = j' + 2 by omega]
        rfl
    simp only [hp]
    have hl1 : (subdivState undef row j).1.length = row.length := by simp [subdivState]
    have hl2 : (subdivState undef row j).2.1.length = row.length := by simp [subdivState]
    rw [inner_loop (p := f90PascalRow row.length (j + 1)) (row := row) (n := row.length)
      (h1 := by rw [hl1]; omega) (h2 := by rw [hl2]; omega) (hF := fun st pi => rfl)]
    unfold subdivState
    simp only [map_range_set]
    have e1 : 1 + j - 1 = j := by omega
    refine Prod.ext ?_ (Prod.ext ?_ rfl)
    · apply List.map_congr_left
      intro k hk
      by_cases hkj : k = j
      · subst hkj; simp [show 1 + k = k + 1 by omega]
      · by_cases hlt : k < j
        · simp [hkj, hlt, show k < j + 1 by omega]
        · simp [hkj, hlt, show ¬ k < j + 1 by omega]
    · apply List.map_congr_left
      intro k hk
      have hk' : k < row.length := List.mem_range.mp hk
      by_cases hkj : k = row.length + 1 - (1 + j) - 1
      · have e2 : row.length - 1 - k = j := by omega
        have e3 : row.length - 1 - (row.length - j - 1) = j := by omega
        simp [hkj, e2, e3, show 1 + j = j + 1 by omega]
      · by_cases hlt : row.length - 1 - k < j
        · simp [hkj, hlt, show row.length - 1 - k < j + 1 by omega]
        · simp [hkj, hlt, show ¬ row.length - 1 - k < j + 1 by omega]

/-- the same, against the model definition that transcribes the junction copy (`Model.F90.subdivideGenericRowJ`, added when this
    translation showed that the hand-written model had not followed the repair e1b4310) -/
theorem subdivide_nodes_generic_eq_model (undef : K) (row : List K) (hn : 1 ≤ row.length) :
    SrcF90.subdivide_nodes_generic undef row = F90.subdivideGenericRowJ row := by
  rw [subdivide_nodes_generic_eq undef row hn]
  have hlen : (F90.subdivideGenericRow row).1.length = row.length := by
    simp [F90.subdivideGenericRow]
  simp [F90.subdivideGenericRowJ, withJunction, hlen]

theorem q_nat (a b : Nat) : (q (a : Int) b : K) = (a : K) / (b : K) := by
  unfold q
  rw [if_neg (Int.not_lt.mpr (Int.natCast_nonneg a)), Int.natAbs_natCast]

theorem subdivide_nodes_two (undef a b : K) : SrcF90.subdivide_nodes undef [a, b] = F90.subdivideRow [a, b] := by
  simp [SrcF90.subdivide_nodes, F90.subdivideRow, seq, q]
  norm_num

theorem subdivide_nodes_three (undef a b c : K) :
    SrcF90.subdivide_nodes undef [a, b, c] = F90.subdivideRow [a, b, c] := by
  simp [SrcF90.subdivide_nodes, F90.subdivideRow, seq, q]
  norm_num

theorem subdivide_nodes_four (undef a b c d : K) :
    SrcF90.subdivide_nodes undef [a, b, c, d] = F90.subdivideRow [a, b, c, d] := by
  simp [SrcF90.subdivide_nodes, F90.subdivideRow, seq, q]
  norm_num

theorem subdivide_nodes_other (undef : K) (row : List K) (h : row.length ≠ 2 ∧ row.length ≠ 3 ∧ row.length ≠ 4) :
    SrcF90.subdivide_nodes undef row = SrcF90.subdivide_nodes_generic undef row ∧
      F90.subdivideRow row = F90.subdivideGenericRow row := by
  constructor
  · unfold SrcF90.subdivide_nodes
    rw [if_neg h.1, if_neg h.2.1, if_neg h.2.2]
  · unfold F90.subdivideRow
    split <;> first | rfl | (simp at h)

/-! ## `specialize_curve_quadratic`, `newton_refine`, `get_curvature` -/

/-- `specialize_curve_quadratic` is the quadratic closed form of `Model.F90.specializeRow` (`2.0_dp` vs `1 + 1`) -/
theorem specialize_curve_quadratic_eq (undef x y z a b : K) :
    SrcF90.specialize_curve_quadratic undef [x, y, z] a b = F90.specializeRow [x, y, z] a b := by
  simp [SrcF90.specialize_curve_quadratic, F90.specializeRow, seq]
  norm_num

theorem specialize_curve_three (undef : K) (gen : List K → K → K → List K) (x y z a b : K) :
    SrcF90.specialize_curve undef gen [x, y, z] a b = F90.specializeRow [x, y, z] a b := by
  rw [← specialize_curve_quadratic_eq undef]
  simp [SrcF90.specialize_curve]

/-- `newton_refine` (curve) is `Model.newtonRefine`: the two calls are maps over the rows of `nodes` -/
theorem newton_refine_eq (nodes : List (List K)) (point : List K) (s : K) :
    SrcF90.newton_refine nodes point s = newtonRefine 55 nodes point s := by
  unfold SrcF90.newton_refine newtonRefine
  simp only [evaluate_multi_eq, evaluate_hodograph_rows, evalPoint]

theorem diffs_length : ∀ row : List K, (diffs row).length = row.length - 1
  | [] => rfl
  | [_] => rfl
  | x :: y :: rest => by
    have ih := diffs_length (y :: rest)
    simp only [diffs, List.length_cons] at ih ⊢
    omega

/-- one row of `work`: first differences, then the second differences written over the first `n - 2` entries;
    `work(:, :num_nodes - 2)` is `diffs (diffs row)` -/
theorem second_diff_row (row : List K) (n : Nat) (hlen : row.length = n) (hn : 2 ≤ n) :
    SrcF90.secRow (SrcF90.setSec (subRow (SrcF90.secRow row 2 n) (SrcF90.secRow row 1 (n - 1))) 1 (n - 2)
      (subRow (SrcF90.secRow (subRow (SrcF90.secRow row 2 n) (SrcF90.secRow row 1 (n - 1))) 2 (n - 1))
        (SrcF90.secRow (subRow (SrcF90.secRow row 2 n) (SrcF90.secRow row 1 (n - 1))) 1 (n - 2)))) 1 (n - 2)
      = diffs (diffs row) := by
  subst hlen
  rw [diffs_sections]
  have h1 : (diffs row).length = row.length - 1 := diffs_length row
  have h2 := diffs_sections (diffs row)
  rw [h1, show row.length - 1 - 1 = row.length - 2 by omega] at h2
  rw [h2]
  have h3 : (diffs (diffs row)).length = row.length - 2 := by rw [diffs_length, h1]; omega
  simp [SrcF90.secRow, SrcF90.setSec, h3]
  exact List.take_of_length_le (Nat.le_of_eq h3)

theorem ofInt_sub (n c : Nat) (h : c ≤ n) : (SrcF90.ofInt (((n : Nat) : Int) - (c : Int)) : K) = ((n - c : Nat) : K) :=
  ofInt_of_eq _ _ (by omega)

/-- `get_curvature` (planar nodes `[r1, r2]`, at least two nodes): the source divides the model's first component
    (tangent × concavity) by `‖tangent‖³`; `norm2` is the abstract Euclidean norm.  The model's second component
    `‖tangent‖²` is what the proofs about the model use instead of the cube of the norm. -/
theorem get_curvature_eq (nrm : List K → K) (r1 r2 : List K) (t : Pt K) (s : K) (hlen : r2.length = r1.length)
    (hn : 2 ≤ r1.length) :
    SrcF90.get_curvature nrm [r1, r2] t s =
      (curvatureParts 55 [r1, r2] [t.1, t.2] s).1 / (nrm [t.1, t.2] * nrm [t.1, t.2] * nrm [t.1, t.2]) := by
  unfold SrcF90.get_curvature curvatureParts
  have hnc : ncols [r1, r2] = r1.length := rfl
  simp only [hnc]
  by_cases h2 : r1.length = 2
  · simp [h2]
  · rw [if_neg h2, if_neg h2]
    simp only [SrcF90.matSub, SrcF90.colRange, SrcF90.setColRange, List.map_cons, List.map_nil, List.zipWith_cons_cons,
      List.zipWith_nil_right, SrcF90.vecOfPt]
    have s1 := second_diff_row r1 r1.length rfl hn
    have s2 := second_diff_row r2 r1.length hlen hn
    simp only [SrcF90.secRow] at s1 s2
    rw [s1, s2]
    have e1 : (SrcF90.ofInt (((r1.length : Nat) : Int) - 1) : K) = ((r1.length - 1 : Nat) : K) := ofInt_sub r1.length 1 (by omega)
    have e2 : (SrcF90.ofInt (((r1.length : Nat) : Int) - 2) : K) = ((r1.length - 2 : Nat) : K) := ofInt_sub r1.length 2 (by omega)
    simp only [e1, e2, evaluate_multi_eq, SrcF90.cross_product, SrcF90.pscale, ptOf, seq, cross2, concavityRow,
      List.getD_cons_zero, List.getD_cons_succ, hlen]
    congr 1
    ring

/-! ## triangle.f90: `evaluate_barycentric_multi` -/

/-- `evaluate_barycentric_multi` (triangle, one row, one parameter triple) is `Model.F90.evalBarycentricRowReal`, as long as
    the index arithmetic of the model (natural numbers) does not truncate – `tri_index_ok` below: it does not when the
    row has at least `numNodes degree` entries. -/
theorem evaluate_barycentric_multi_eq (row : List K) (d : Nat) (l1 l2 l3 : K)
    (hidx : ∀ t, t < d → 1 ≤ (F90.triLoopReal 55 d row ⟨l1, l2, l3⟩ t).index ∧
      d ≤ (F90.triLoopReal 55 d row ⟨l1, l2, l3⟩ t).index - 1 + (d - 1 - t)) :
    SrcF90.evaluate_barycentric_multi row (d : Int) [l1, l2, l3] = F90.evalBarycentricRowReal 55 d row ⟨l1, l2, l3⟩ := by
  unfold SrcF90.evaluate_barycentric_multi F90.evalBarycentricRowReal
  simp only
  by_cases hd : d = 0
  · subst hd
    simp [F90.triLoopReal]
  · have hd' : ¬ ((d : Nat) : Int) = 0 := by omega
    rw [if_neg hd']
    have hm : Int.toNat (((d : Nat) : Int) - 1 + 1 - 0) = d := by omega
    rw [hm]
    rw [foldl_reverse_range'_rec (a := 0) (g := fun t =>
      ((F90.triLoopReal 55 d row ⟨l1, l2, l3⟩ t).result,
       (((F90.triLoopReal 55 d row ⟨l1, l2, l3⟩ t).index : Nat) : Int) + 1,
       (F90.triLoopReal 55 d row ⟨l1, l2, l3⟩ t).binom))]
    · simp only [F90.triLoopReal]
      have hlen := (hidx 0 (Nat.pos_of_ne_zero hd)).1
      simp only [F90.triLoopReal] at hlen
      have ea : (((row.length : Nat) : Int) - 1).toNat = row.length - 1 := by omega
      have eb : (((row.length - 1 : Nat) : Int) + 1) = ((row.length : Nat) : Int) := by omega
      rw [ea, eb]
    · intro t ht
      obtain ⟨h1, h2⟩ := hidx t ht
      simp only [F90.triLoopReal, F90.triStepReal, Nat.zero_add]
      generalize F90.triLoopReal 55 d row ⟨l1, l2, l3⟩ t = st at h1 h2 ⊢
      have ek : (((d : Nat) : Int) - ((d - 1 - t : Nat) : Int)) = ((d - (d - 1 - t) : Nat) : Int) := by omega
      have e1 : Int.toNat ((st.index : Int) + 1 - 1 - (d : Int) + ((d - 1 - t : Nat) : Int)) = st.index - 1 + (d - 1 - t) - d + 1 := by omega
      have e2 : Int.toNat ((st.index : Int) + 1 - 1) = st.index - 1 + 1 := by omega
      have e3 : Int.toNat ((d : Int) - ((d - 1 - t : Nat) : Int) + 1) = st.index - 1 + 1 + 1 - (st.index - 1 + (d - 1 - t) - d + 1) := by omega
      have e4 : ((st.index : Int) + 1 - 1 - (d : Int) + ((d - 1 - t : Nat) : Int)) = ((st.index - 1 + (d - 1 - t) - d : Nat) : Int) + 1 := by omega
      have e6 : (((st.index - 1 + (d - 1 - t) - d : Nat) : Int) + 1).toNat = st.index - 1 + (d - 1 - t) - d + 1 := by omega
      simp only [e2, e3, e4, e6, evaluate_curve_barycentric_eq, seq, List.getD_cons_zero, List.getD_cons_succ,
        SrcF90.secRow, triSlice, Nat.add_sub_cancel]
      rw [ofInt_of_eq _ _ ek]
      rw [List.take_of_length_le (by
        rw [List.length_take]; exact Nat.min_le_left _ _)]
      have e5 : st.index - 1 + 1 + 1 - (st.index - 1 + (d - 1 - t) - d + 1) = st.index - 1 + 1 - (st.index - 1 + (d - 1 - t) - d) := by omega
      rw [e5]

theorem triLoopReal_index_succ (d : Nat) (row : List K) (w : Bary K) (t : Nat) :
    (F90.triLoopReal 55 d row w (t + 1)).index = (F90.triLoopReal 55 d row w t).index - 1 + (d - 1 - t) - d := rfl

/-- with at least `(d+1)(d+2)/2` entries in the row the index arithmetic of the triangle evaluation never truncates -/
theorem tri_index_ok (d : Nat) (row : List K) (w : Bary K) (hlen : (d + 1) * (d + 2) ≤ 2 * row.length) :
    ∀ t, t < d → 1 ≤ (F90.triLoopReal 55 d row w t).index ∧
      d ≤ (F90.triLoopReal 55 d row w t).index - 1 + (d - 1 - t) := by
  have key : ∀ t, t ≤ d → 2 * (F90.triLoopReal 55 d row w t).index + t * (t + 3) = 2 * (row.length - 1) := by
    intro t
    induction t with
    | zero => intro _; simp [F90.triLoopReal]
    | succ t ih =>
      intro ht
      have h := ih (by omega)
      rw [triLoopReal_index_succ]
      have h3 : (t + 1) * (t + 4) ≤ d * (d + 3) := by nlinarith
      have h4 : d * (d + 3) + 2 ≤ 2 * row.length := by nlinarith
      have h3' : (t + 1) * (t + 4) = t * (t + 3) + 2 * t + 4 := by ring
      have h5 : t + 2 ≤ (F90.triLoopReal 55 d row w t).index := by omega
      have h6 : (F90.triLoopReal 55 d row w t).index - 1 + (d - 1 - t) - d = (F90.triLoopReal 55 d row w t).index - (t + 2) := by omega
      rw [h6]
      have h7 : 2 * ((F90.triLoopReal 55 d row w t).index - (t + 2)) = 2 * (F90.triLoopReal 55 d row w t).index - 2 * (t + 2) := by omega
      rw [h7]
      have : (t + 1) * (t + 1 + 3) = t * (t + 3) + 2 * (t + 2) := by ring
      omega
  intro t ht
  have h := key t (by omega)
  have h3 : (t + 1) * (t + 4) ≤ d * (d + 3) := by nlinarith
  have h4 : d * (d + 3) + 2 ≤ 2 * row.length := by nlinarith
  have h3' : (t + 1) * (t + 4) = t * (t + 3) + 2 * t + 4 := by ring
  have h5 : t + 2 ≤ (F90.triLoopReal 55 d row w t).index := by omega
  omega

/-- `evaluate_barycentric_multi` on a row with at least `(d+1)(d+2)/2` entries -/
theorem evaluate_barycentric_multi_model (row : List K) (d : Nat) (l1 l2 l3 : K) (hlen : (d + 1) * (d + 2) ≤ 2 * row.length) :
    SrcF90.evaluate_barycentric_multi row (d : Int) [l1, l2, l3] = F90.evalBarycentricRowReal 55 d row ⟨l1, l2, l3⟩ :=
  evaluate_barycentric_multi_eq row d l1 l2 l3 (tri_index_ok d row ⟨l1, l2, l3⟩ hlen)

/-- `evaluate_cartesian_multi`: the model's `cartesian s t = (1 - s - t, s, t)` -/
theorem evaluate_cartesian_multi_model (row : List K) (d : Nat) (s t : K) (hlen : (d + 1) * (d + 2) ≤ 2 * row.length) :
    SrcF90.evaluate_cartesian_multi row (d : Int) (s, t) = F90.evalBarycentricRowReal 55 d row (cartesian s t) := by
  rw [evaluate_cartesian_multi_eq_barycentric]
  exact evaluate_barycentric_multi_model row d (1 - s - t) s t hlen

end Field

end BezierVerif.SrcF90Kernels
