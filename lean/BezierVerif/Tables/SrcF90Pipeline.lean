import BezierVerif.Generated.SrcF90
import BezierVerif.Tables.SrcF90Kernels
import BezierVerif.Model.Newton
import BezierVerif.Model.TriDeriv
import BezierVerif.Model.Triangle
import Mathlib.Tactic.Ring

/-!
# Tables/SrcF90Pipeline — the Fortran source text of the intersection-pipeline routines MEANS what the model says

Continuation of Tables/SrcF90.lean / Tables/SrcF90Kernels.lean (same translator, `harness/translate_f90.py`) for
routines of `curve_intersection.f90`, `triangle.f90` and `triangle_intersection.f90` that sit between the kernels and
the pipeline: the Newton systems of the curve–curve intersection, the Jacobian nets of a triangle.

Planar arrays `nodes(2, n)` are lists of two rows; a call of a row-wise kernel (`evaluate_multi`) is the map over the
two rows (LIFTED CALL); `func_val(2, 1)` is a point.  Outputs that the source leaves unassigned on a path are `undef`.
-/

set_option linter.unusedSectionVars false
set_option linter.unusedVariables false
set_option linter.unusedSimpArgs false

namespace BezierVerif.SrcF90Pipeline

open BezierVerif.Model BezierVerif.Generated BezierVerif.SrcF90Kernels

section Generic
variable {K : Type} [Add K] [Sub K] [Mul K] [Div K] [Neg K] [OfNat K 0] [OfNat K 1] [NatCast K]
  [LT K] [DecidableLT K] [LE K] [DecidableLE K] [DecidableEq K]

/-! ## `compute_edge_nodes` (triangle.f90; every K) -/

theorem set_append_replicate' (undef x : K) (done : List K) (r i : Nat) (hi : i = done.length) :
    (done ++ List.replicate (r + 1) undef).set i x = (done ++ [x]) ++ List.replicate r undef := by
  subst hi; simp [List.set_append, List.replicate_succ]

/-- the loop of `compute_edge_nodes`: `fuel` iterations from `index1 = i + 1` append `Model.edgeLoop` to the three outputs -/
theorem edge_loop (undef : K) (row : List K) (d : Nat)
    (F : List K × List K × List K × Int × Int → Nat → List K × List K × List K × Int × Int)
    (hF : ∀ st k, F st k = (List.set st.1 (k - 1) (seq row (k - 1)),
        List.set st.2.1 (k - 1) (seq row (Int.toNat (st.2.2.2.1 - 1))),
        List.set st.2.2.1 (k - 1) (seq row (Int.toNat (st.2.2.2.2 - 1))),
        st.2.2.2.1 - ((k : Nat) : Int) + (d : Int) + 1, st.2.2.2.2 - ((k : Nat) : Int) - 1)) :
    ∀ (fuel i curr2 back : Nat) (d1 d2 d3 : List K) (r : Nat), fuel ≤ r → i + fuel = d + 1 →
      d1.length = i → d2.length = i → d3.length = i →
      let res := List.foldl F (d1 ++ List.replicate r undef, d2 ++ List.replicate r undef, d3 ++ List.replicate r undef,
        ((curr2 : Nat) : Int) + 1, ((row.length : Nat) : Int) - ((back : Nat) : Int) + 1) (List.range' (i + 1) fuel)
      (res.1, res.2.1, res.2.2.1) =
        (d1 ++ (edgeLoop (seq row) row.length d fuel i curr2 back).1 ++ List.replicate (r - fuel) undef,
         d2 ++ (edgeLoop (seq row) row.length d fuel i curr2 back).2.1 ++ List.replicate (r - fuel) undef,
         d3 ++ (edgeLoop (seq row) row.length d fuel i curr2 back).2.2 ++ List.replicate (r - fuel) undef) := by
  intro fuel
  induction fuel with
  | zero => intro i curr2 back d1 d2 d3 r _ _ _ _ _; simp [edgeLoop]
  | succ fuel ih =>
    intro i curr2 back d1 d2 d3 r hr hi h1 h2 h3
    obtain ⟨r', rfl⟩ : ∃ r', r = r' + 1 := ⟨r - 1, by omega⟩
    simp only [List.range'_succ, List.foldl_cons]
    rw [hF]
    have e0 : i + 1 - 1 = i := by omega
    have e2 : Int.toNat (((curr2 : Nat) : Int) + 1 - 1) = curr2 := by omega
    have e3 : Int.toNat (((row.length : Nat) : Int) - ((back : Nat) : Int) + 1 - 1) = row.length - back := by omega
    have c2 : ((curr2 : Nat) : Int) + 1 - ((i + 1 : Nat) : Int) + (d : Int) + 1 = ((curr2 + (d - i) : Nat) : Int) + 1 := by omega
    have c3 : ((row.length : Nat) : Int) - ((back : Nat) : Int) + 1 - ((i + 1 : Nat) : Int) - 1
        = ((row.length : Nat) : Int) - ((back + (i + 2) : Nat) : Int) + 1 := by omega
    simp only [e0, e2, e3, c2, c3, set_append_replicate' _ _ _ _ _ h1.symm, set_append_replicate' _ _ _ _ _ h2.symm,
      set_append_replicate' _ _ _ _ _ h3.symm]
    have := ih (i + 1) (curr2 + (d - i)) (back + (i + 2)) (d1 ++ [seq row i]) (d2 ++ [seq row curr2])
      (d3 ++ [seq row (row.length - back)]) r' (by omega) (by omega) (by simp [h1]) (by simp [h2]) (by simp [h3])
    simp only at this
    rw [this]
    simp only [edgeLoop, List.append_assoc, List.cons_append, List.nil_append, Nat.add_sub_add_right]

/-- `compute_edge_nodes` (one row) is `Model.computeEdgeNodesRow`; all `degree + 1` entries of the three outputs are assigned -/
theorem compute_edge_nodes_eq (undef : K) (row : List K) (d : Nat) :
    SrcF90.compute_edge_nodes undef row (d : Int) = computeEdgeNodesRow d row := by
  unfold SrcF90.compute_edge_nodes computeEdgeNodesRow
  simp only
  have e1 : Int.toNat (((d : Nat) : Int) + 1) = d + 1 := by omega
  have e2 : Int.toNat (((d : Nat) : Int) + 1 + 1 - 1) = d + 1 := by omega
  rw [e1, e2]
  have := edge_loop undef row d _ (fun st k => rfl) (d + 1) 0 d 1 [] [] [] (d + 1) (Nat.le_refl _) (by omega) rfl rfl rfl
  simp only [List.nil_append, Nat.sub_self, List.replicate_zero, List.append_nil, Nat.zero_add] at this
  have c : ((row.length : Nat) : Int) = ((row.length : Nat) : Int) - ((1 : Nat) : Int) + 1 := by omega
  rw [c]
  exact this
/-! ## `jacobian_both` (triangle.f90; every K) -/

/-- `cnt` consecutive index pairs starting at `(i, j)` -/
def pairsFrom : Nat → Nat → Nat → List (Nat × Nat)
  | 0, _, _ => []
  | cnt + 1, i, j => (i, j) :: pairsFrom cnt (i + 1) (j + 1)

theorem pairsFrom_eq : ∀ cnt i j, pairsFrom cnt i j = (List.range cnt).map (fun t => (i + t, j + t))
  | 0, _, _ => rfl
  | cnt + 1, i, j => by
    rw [pairsFrom, pairsFrom_eq cnt, List.range_succ_eq_map]
    simp only [List.map_cons, List.map_map, Nat.add_zero, List.cons.injEq, true_and]
    apply List.map_congr_left
    intro t _
    simp only [Function.comp]
    congr 1 <;> omega

theorem pairsFrom_length : ∀ cnt i j, (pairsFrom cnt i j).length = cnt
  | 0, _, _ => rfl
  | cnt + 1, i, j => by simp [pairsFrom, pairsFrom_length cnt]

/-- state of the loops of `jacobian_both` (1-based Int indices, outputs filled up to `dS`, `dT`) -/
def jacState (undef : K) (dS dT : List K) (r i j : Nat) : Int × Int × Int × List K × List K :=
  (((dS.length : Nat) : Int) + 1, ((i : Nat) : Int) + 1, ((j : Nat) : Int) + 1, dS ++ List.replicate r undef,
    dT ++ List.replicate r undef)

theorem set_append_replicate'' (undef x : K) (done : List K) (r i : Nat) (hi : i = done.length) :
    (done ++ List.replicate (r + 1) undef).set i x = (done ++ [x]) ++ List.replicate r undef := by
  subst hi; simp [List.set_append, List.replicate_succ]

theorem jac_inner (undef : K) (row : List K)
    (F : Int × Int × Int × List K × List K → Nat → Int × Int × Int × List K × List K)
    (hF : ∀ st k, F st k = (st.1 + 1, st.2.1 + 1, st.2.2.1 + 1,
        List.set st.2.2.2.1 (Int.toNat (st.1 - 1)) (seq row (Int.toNat (st.2.1 + 1 - 1)) - seq row (Int.toNat (st.2.1 - 1))),
        List.set st.2.2.2.2 (Int.toNat (st.1 - 1)) (seq row (Int.toNat (st.2.2.1 - 1)) - seq row (Int.toNat (st.2.1 - 1))))) :
    ∀ (l : List Nat) (dS dT : List K) (r i j : Nat), l.length ≤ r → dT.length = dS.length →
      List.foldl F (jacState undef dS dT r i j) l =
        jacState undef (dS ++ (pairsFrom l.length i j).map (fun p => seq row (p.1 + 1) - seq row p.1))
          (dT ++ (pairsFrom l.length i j).map (fun p => seq row p.2 - seq row p.1)) (r - l.length) (i + l.length) (j + l.length) := by
  intro l
  induction l with
  | nil => intro dS dT r i j _ _; simp [pairsFrom]
  | cons k l ih =>
    intro dS dT r i j hr hlen
    obtain ⟨r', rfl⟩ : ∃ r', r = r' + 1 := ⟨r - 1, by simp at hr; omega⟩
    rw [List.foldl_cons, hF]
    have e0 : Int.toNat (((dS.length : Nat) : Int) + 1 - 1) = dS.length := by omega
    have e1 : ∀ p : Nat, Int.toNat (((p : Nat) : Int) + 1 - 1) = p := by intro p; omega
    have e2 : Int.toNat (((i : Nat) : Int) + 1 + 1 - 1) = i + 1 := by omega
    simp only [jacState, e0, e1, e2]
    rw [set_append_replicate'' undef _ dS r' dS.length rfl, set_append_replicate'' undef _ dT r' dS.length hlen.symm]
    have := ih (dS ++ [seq row (i + 1) - seq row i]) (dT ++ [seq row j - seq row i]) r' (i + 1) (j + 1)
      (by simp at hr; omega) (by simp [hlen])
    simp only [jacState, List.length_append, List.length_cons, List.length_nil] at this
    have c1 : ((dS.length : Nat) : Int) + 1 + 1 = ((dS.length + (0 + 1) : Nat) : Int) + 1 := by omega
    have c2 : ∀ p : Nat, ((p : Nat) : Int) + 1 + 1 = ((p + 1 : Nat) : Int) + 1 := by intro p; omega
    rw [c1, c2, c2, this]
    simp only [pairsFrom, List.map_cons, List.length_cons, List.append_assoc, List.cons_append, List.nil_append,
      List.length_append, List.length_map, pairsFrom_length]
    have d1 : r' + 1 - (l.length + 1) = r' - l.length := by omega
    have d2 : ∀ p : Nat, p + 1 + l.length = p + (l.length + 1) := by intro p; omega
    simp only [d1, d2]

/-- the index pairs of the model, by the same recursion as the source's outer loop -/
theorem jacIndexPairs_outer_succ (nv i j : Nat) :
    jacIndexPairs.outer (nv + 1) i j = pairsFrom (nv + 1) i j ++ jacIndexPairs.outer nv (i + nv + 1 + 1) (j + nv + 1) := by
  rw [jacIndexPairs.outer, pairsFrom_eq]

theorem jac_outer (undef : K) (row : List K)
    (Fin Fout : Int × Int × Int × List K × List K → Nat → Int × Int × Int × List K × List K)
    (hFin : ∀ st k, Fin st k = (st.1 + 1, st.2.1 + 1, st.2.2.1 + 1,
        List.set st.2.2.2.1 (Int.toNat (st.1 - 1)) (seq row (Int.toNat (st.2.1 + 1 - 1)) - seq row (Int.toNat (st.2.1 - 1))),
        List.set st.2.2.2.2 (Int.toNat (st.1 - 1)) (seq row (Int.toNat (st.2.2.1 - 1)) - seq row (Int.toNat (st.2.1 - 1)))))
    (hFout : ∀ st nv, Fout st nv =
      ((List.foldl Fin st (List.range' 0 ((nv - 1) + 1 - 0))).1,
       (List.foldl Fin st (List.range' 0 ((nv - 1) + 1 - 0))).2.1 + 1,
       (List.foldl Fin st (List.range' 0 ((nv - 1) + 1 - 0))).2.2.1,
       (List.foldl Fin st (List.range' 0 ((nv - 1) + 1 - 0))).2.2.2.1,
       (List.foldl Fin st (List.range' 0 ((nv - 1) + 1 - 0))).2.2.2.2)) :
    ∀ (nv : Nat) (dS dT : List K) (r i j : Nat), (jacIndexPairs.outer nv i j).length ≤ r → dT.length = dS.length →
      let res := List.foldl Fout (jacState undef dS dT r i j) (List.reverse (List.range' 1 nv))
      (res.2.2.2.1, res.2.2.2.2) =
        (dS ++ (jacIndexPairs.outer nv i j).map (fun p => seq row (p.1 + 1) - seq row p.1)
            ++ List.replicate (r - (jacIndexPairs.outer nv i j).length) undef,
         dT ++ (jacIndexPairs.outer nv i j).map (fun p => seq row p.2 - seq row p.1)
            ++ List.replicate (r - (jacIndexPairs.outer nv i j).length) undef) := by
  intro nv
  induction nv with
  | zero => intro dS dT r i j _ _; simp [jacIndexPairs.outer, jacState]
  | succ nv ih =>
    intro dS dT r i j hr hlen
    rw [jacIndexPairs_outer_succ] at hr ⊢
    simp only [List.length_append, pairsFrom_length] at hr
    rw [List.range'_concat, List.reverse_append]
    simp only [List.reverse_cons, List.reverse_nil, List.nil_append, List.cons_append, List.foldl_cons, Nat.one_mul]
    rw [hFout]
    have hc : (1 + nv - 1) + 1 - 0 = nv + 1 := by omega
    rw [hc]
    have hin := jac_inner undef row Fin hFin (List.range' 0 (nv + 1)) dS dT r i j (by simp; omega) hlen
    simp only [List.length_range'] at hin
    rw [hin]
    simp only [jacState]
    have c2 : ∀ p : Nat, ((p : Nat) : Int) + 1 + 1 = ((p + 1 : Nat) : Int) + 1 := by intro p; omega
    rw [c2]
    have := ih (dS ++ (pairsFrom (nv + 1) i j).map (fun p => seq row (p.1 + 1) - seq row p.1))
      (dT ++ (pairsFrom (nv + 1) i j).map (fun p => seq row p.2 - seq row p.1)) (r - (nv + 1)) (i + (nv + 1) + 1) (j + (nv + 1))
      (by rw [show i + (nv + 1) + 1 = i + nv + 1 + 1 by omega, show j + (nv + 1) = j + nv + 1 by omega]; omega)
      (by simp [hlen, pairsFrom_length])
    simp only [jacState] at this
    rw [this]
    simp only [List.map_append, List.append_assoc, List.length_append, pairsFrom_length,
      show i + (nv + 1) + 1 = i + nv + 1 + 1 by omega, show j + (nv + 1) = j + nv + 1 by omega]
    rw [Nat.sub_sub]

/-- `jacobian_both` (triangle, one row; the `2 * dimension_` rows of the output are the block of `B_s` rows followed by the
    block of `B_t` rows, translated as two outputs): `Model.jacobianSRow`, `Model.jacobianTRow`, provided the output has
    exactly the `degree (degree + 1) / 2` entries the loops fill -/
theorem jacobian_both_eq (undef : K) (row : List K) (d : Nat)
    (hL : (jacIndexPairs d).length = Int.toNat (((row.length : Nat) : Int) - (d : Int) - 1)) :
    SrcF90.jacobian_both undef row (d : Int) =
      (scaleRow (SrcF90.ofInt (d : Int)) ((jacIndexPairs d).map (fun p => seq row (p.1 + 1) - seq row p.1)),
       scaleRow (SrcF90.ofInt (d : Int)) ((jacIndexPairs d).map (fun p => seq row p.2 - seq row p.1))) := by
  unfold SrcF90.jacobian_both
  simp only
  have e1 : Int.toNat (((d : Nat) : Int) + 1 - 1) = d := by omega
  rw [e1, ← hL]
  have h0 : (((1 : Int), (1 : Int), ((d : Nat) : Int) + 2, List.replicate (jacIndexPairs d).length undef,
      List.replicate (jacIndexPairs d).length undef) : Int × Int × Int × List K × List K)
      = jacState undef [] [] (jacIndexPairs d).length 0 (d + 1) := by
    simp only [jacState, List.nil_append, List.length_nil]
    refine Prod.ext rfl (Prod.ext ?_ (Prod.ext ?_ rfl)) <;> simp <;> omega
  rw [h0]
  have := jac_outer undef row _ _ (fun st k => rfl) (fun st nv => rfl) d [] [] (jacIndexPairs d).length 0 (d + 1)
    (by unfold jacIndexPairs; exact Nat.le_refl _) rfl
  simp only at this
  have hp : jacIndexPairs d = jacIndexPairs.outer d 0 (d + 1) := rfl
  rw [← hp] at this
  simp only [List.nil_append, Nat.sub_self, List.replicate_zero, List.append_nil] at this
  rw [Prod.ext_iff] at this
  simp only at this
  rw [this.1, this.2]

/-- … which are the model's `jacobianSRow` / `jacobianTRow` (the final `new_nodes = degree * new_nodes`) -/
theorem jacobian_both_model (undef : K) (row : List K) (d : Nat)
    (hL : (jacIndexPairs d).length = Int.toNat (((row.length : Nat) : Int) - (d : Int) - 1)) :
    SrcF90.jacobian_both undef row (d : Int) = (jacobianSRow d row, jacobianTRow d row) := by
  rw [jacobian_both_eq undef row d hL, ofInt_of_eq _ d rfl]
  simp only [scaleRow, jacobianSRow, jacobianTRow, List.map_map, Function.comp_def]

end Generic

section Field
variable {K : Type} [Field K] [LinearOrder K]

/-! ## `newton_simple_root` (curve_intersection.f90) -/

/-- `newton_simple_root`: `F(s, t) = B1(s) - B2(t)` and, unless `F = 0`, the Jacobian `[B1'(s), -B2'(t)]` evaluated from the
    derivative nets the caller passes in.  With those nets being the model's `derivNet` of the rows (what
    `full_newton_nonzero` computes: `(num_nodes - 1) * (nodes(:, 2:) - nodes(:, :num_nodes - 1))`), the result is
    `Model.newtonSimple`: `none` ⇔ `F = 0` (the Jacobian is then left unassigned), else `jacobian = [[a, b], [c, d]]`. -/
theorem newton_simple_root_eq (undef s t : K) (x1 y1 x2 y2 : List K) :
    SrcF90.newton_simple_root undef s [x1, y1] [derivNet x1, derivNet y1] t [x2, y2] [derivNet x2, derivNet y2] =
      match newtonSimple 55 [x1, y1] [x2, y2] s t with
      | none => ([[undef, undef], [undef, undef]], (0, 0))
      | some ((a, b, c, d), (f0, f1)) => ([[a, b], [c, d]], (f0, f1)) := by
  unfold SrcF90.newton_simple_root newtonSimple
  simp only [List.map_cons, List.map_nil, evaluate_multi_eq, ptOf, seq, List.getD_cons_zero, List.getD_cons_succ, psub,
    evalRow, SrcF90.vecOfPt, SrcF90.allB, List.all_cons, List.all_nil, id, Bool.and_true, Bool.and_eq_true,
    decide_eq_true_eq]
  by_cases h : evalBary 55 x1 (1 - s) s - evalBary 55 x2 (1 - t) t = 0 ∧
      evalBary 55 y1 (1 - s) s - evalBary 55 y2 (1 - t) t = 0
  · rw [if_pos h, if_pos h, h.1, h.2]
  · rw [if_neg h, if_neg h]
    simp [SrcF90.setColPt, SrcF90.set2, SrcF90.row, SrcF90.colPt, SrcF90.at2, SrcF90.pneg, seq]

/-! ## `newton_double_root` (curve_intersection.f90) -/

theorem derivNet_length (row : List K) : (derivNet row).length = row.length - 1 := by
  simp [derivNet, diffs_length]

theorem second_isEmpty (row : List K) : (derivNet (derivNet row)).isEmpty = true ↔ ¬ 2 < row.length := by
  rw [List.isEmpty_iff, ← List.length_eq_zero_iff, derivNet_length, derivNet_length]; omega

theorem evalRowOrZero_of (row : List K) (s : K) (n : Nat) (hn : row.length = n) :
    evalRowOrZero 55 (derivNet (derivNet row)) s =
      if 2 < n then evalBary 55 (derivNet (derivNet row)) (1 - s) s else 0 := by
  unfold evalRowOrZero evalRow
  by_cases h : 2 < n
  · rw [if_pos h, if_neg]; rw [Bool.not_eq_true]; 
    have := (second_isEmpty row).not.mpr (by rw [hn]; simpa using h)
    simpa using this
  · rw [if_neg h, if_pos]; exact (second_isEmpty row).mpr (by rw [hn]; exact h)

/-- the Gauss–Newton normal equations `JᵀJ`, `JᵀG` of the 3 × 2 Jacobian assembled by `newton_double_root` -/
theorem normal_equations (u dx1 dy1 dx2 dy2 j20 j21 f0 f1 f2 : K) :
    let J := SrcF90.set2 (SrcF90.set2 (SrcF90.setColPt (SrcF90.setColPt [[u, u], [u, u], [u, u]] 0 (dx1, dy1)) 1
      (SrcF90.pneg (dx2, dy2))) 2 0 j20) 2 1 j21
    (matMul (transpose J) J, (SrcF90.matVec (transpose J) [f0, f1, f2]).getD 0 0,
      (SrcF90.matVec (transpose J) [f0, f1, f2]).getD 1 0) =
    ([[dx1 * dx1 + dy1 * dy1 + j20 * j20, dx1 * -dx2 + dy1 * -dy2 + j20 * j21],
      [dx1 * -dx2 + dy1 * -dy2 + j20 * j21, -dx2 * -dx2 + -dy2 * -dy2 + j21 * j21]],
     dx1 * f0 + dy1 * f1 + j20 * f2, -dx2 * f0 + -dy2 * f1 + j21 * f2) := by
  simp only [SrcF90.set2, SrcF90.setColPt, SrcF90.row, SrcF90.pneg, List.getD_cons_zero, List.getD_cons_succ,
    List.set_cons_zero, List.set_cons_succ]
  simp [matMul, transpose, ncols, col, rowMul, dot, SrcF90.matVec, List.range_succ]
  ring
/-- `newton_double_root`: `G = (B1(s) - B2(t), B1'(s) × B2'(t))`; unless `G = 0` (then `modified_rhs = 0` and `modified_lhs` is
    left unassigned) the Gauss–Newton normal equations `JᵀJ`, `JᵀG` of the 3 × 2 Jacobian, with `B''` taken as 0 for a
    curve with at most two nodes.  With the derivative nets the caller passes being the model's `derivNet`s this is
    `Model.newtonDouble` (rows of equal length). -/
theorem newton_double_root_eq (undef s t : K) (x1 y1 x2 y2 : List K) (h1 : y1.length = x1.length) (h2 : y2.length = x2.length) :
    SrcF90.newton_double_root undef s [x1, y1] [derivNet x1, derivNet y1] [derivNet (derivNet x1), derivNet (derivNet y1)]
        t [x2, y2] [derivNet x2, derivNet y2] [derivNet (derivNet x2), derivNet (derivNet y2)] =
      match newtonDouble 55 [x1, y1] [x2, y2] s t with
      | none => ([[undef, undef], [undef, undef]], (0, 0))
      | some ((a, b, c, d), (e, f)) => ([[a, b], [c, d]], (e, f)) := by
  unfold SrcF90.newton_double_root newtonDouble
  have hn1 : ncols [x1, y1] = x1.length := rfl
  have hn2 : ncols [x2, y2] = x2.length := rfl
  simp only [hn1, hn2, List.map_cons, List.map_nil, evaluate_multi_eq, ptOf, seq, List.getD_cons_zero, List.getD_cons_succ,
    evalRow, SrcF90.vecOfPt, SrcF90.setSec, SrcF90.secRow, SrcF90.cross_product,
    evalRowOrZero_of x1 s _ rfl, evalRowOrZero_of y1 s _ h1, evalRowOrZero_of x2 t _ rfl, evalRowOrZero_of y2 t _ h2]
  simp only [List.replicate, List.take, List.drop, List.append, subRow, List.zipWith, List.set, SrcF90.allB, List.map, List.all_cons,
    List.all_nil, id, Bool.and_true, Bool.and_eq_true, decide_eq_true_eq, Nat.sub_self, Nat.reduceAdd, Nat.reduceSub,
    List.nil_append, List.cons_append, List.getD_cons_zero, List.getD_cons_succ]
  generalize evalBary 55 x1 (1 - s) s - evalBary 55 x2 (1 - t) t = f0
  generalize evalBary 55 y1 (1 - s) s - evalBary 55 y2 (1 - t) t = f1
  generalize evalBary 55 (derivNet x1) (1 - s) s = dx1
  generalize evalBary 55 (derivNet y1) (1 - s) s = dy1
  generalize evalBary 55 (derivNet x2) (1 - t) t = dx2
  generalize evalBary 55 (derivNet y2) (1 - t) t = dy2
  generalize evalBary 55 (derivNet (derivNet x1)) (1 - s) s = ddx1
  generalize evalBary 55 (derivNet (derivNet y1)) (1 - s) s = ddy1
  generalize evalBary 55 (derivNet (derivNet x2)) (1 - t) t = ddx2
  generalize evalBary 55 (derivNet (derivNet y2)) (1 - t) t = ddy2
  by_cases hz : f0 = 0 ∧ f1 = 0 ∧ dx1 * dy2 - dy1 * dx2 = 0
  · rw [if_pos hz, if_pos hz]
  · rw [if_neg hz, if_neg hz]
    by_cases ha : 2 < x1.length <;> by_cases hb : 2 < x2.length <;>
      simp only [ha, hb, if_true, if_false, normal_equations, zero_mul, sub_self, mul_zero]

end Field

end BezierVerif.SrcF90Pipeline
