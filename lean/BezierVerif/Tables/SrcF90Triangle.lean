import BezierVerif.Generated.SrcF90
import BezierVerif.Tables.SrcF90Kernels
import BezierVerif.Tables.SrcF90Pipeline
import BezierVerif.Model.TriDeriv
import BezierVerif.Model.Triangle
import BezierVerif.Lemmas.Triangle
import BezierVerif.Lemmas.TriDeriv
import BezierVerif.Model.TriangleF90Closed
import BezierVerif.Model.Area
import Mathlib.Tactic.Ring
import Mathlib.Tactic.IntervalCases
import Mathlib.Algebra.Order.Field.Basic
import BezierVerif.Lemmas.NormReal
import Mathlib.Tactic.Positivity
import Mathlib.Tactic.FieldSimp
import Mathlib.Algebra.CharZero.Defs
import Mathlib.Data.Nat.Cast.Field
import Mathlib.Tactic.NormNum

/-!
# Tables/SrcF90Triangle — phase 4 of the Fortran source tie: `triangle.f90`, `triangle_intersection.f90`, rest of `curve.f90`

Continuation of Tables/SrcF90Kernels.lean / Tables/SrcF90Pipeline.lean (same translator, `harness/translate_f90.py`,
entries under `# phase 4 (f90tri)`).
-/

set_option linter.unusedSectionVars false
set_option linter.unusedVariables false
set_option linter.unusedSimpArgs false

namespace BezierVerif.SrcF90Triangle

open BezierVerif.Model BezierVerif.Generated BezierVerif.SrcF90Kernels BezierVerif.SrcF90Pipeline

/-! ## proof tool: `kernel_rfl` -/

open Lean Elab Tactic Meta in
/-- closes a goal `a = b` (all hypotheses reverted first) with `Eq.refl a`, letting the KERNEL check the definitional
    equality (the elaborator's `whnf` is too slow for the unrolled loops).  Nothing is trusted: the auxiliary theorem is
    added through the kernel (`addDecl`), which rejects it if the two sides do not reduce to the same term. -/
elab "kernel_rfl" : tactic => do
  let g ← getMainGoal
  let g ← g.revertAll
  g.withContext do
    let t ← instantiateMVars (← g.getType)
    if t.hasMVar || t.hasFVar then throwError "kernel_rfl: goal not closed"
    let pf ← forallTelescope t fun xs body => do
      let some (_, lhs, _) := body.eq? | throwError "kernel_rfl: not an equality"
      mkLambdaFVars xs (← mkEqRefl lhs)
    let lvls := (collectLevelParams {} t).params.toList
    let name ← mkAuxDeclName `kernel_rfl
    addDecl <| Declaration.thmDecl { name := name, levelParams := lvls, type := t, value := pf }
    g.assign (mkConst name (lvls.map mkLevelParam))

/-! ## index facts -/

theorem two_mul_numNodes (n : Nat) : 2 * numNodes n = (n + 1) * (n + 2) := by
  unfold numNodes
  exact Nat.mul_div_cancel' (Nat.even_mul_succ_self (n + 1)).two_dvd

theorem numNodes_pred (d : Nat) (hd : 1 ≤ d) : numNodes d = numNodes (d - 1) + d + 1 := by
  obtain ⟨e, rfl⟩ : ∃ e, d = e + 1 := ⟨d - 1, by omega⟩
  have h1 := two_mul_numNodes (e + 1)
  have h2 := two_mul_numNodes e
  simp only [Nat.add_sub_cancel]
  have : (e + 1 + 1) * (e + 1 + 2) = (e + 1) * (e + 2) + 2 * (e + 2) := by ring
  omega

/-! ## `specialize_workspace_sizes` (triangle.f90): the extents of the two workspaces of `specialize_triangle`

Integer arithmetic of the source (`mod`, truncating `/`, `**2`) is translated into unbounded `Int` (`Int.tmod`, `Int.tdiv`,
repeated product): the wrap-around of `integer(c_int)` is NOT modelled (the product `degree (degree+2) (degree+4) (degree+6)`
leaves the 32-bit range from degree 213). -/

theorem tdiv_cast (a b : Nat) : Int.tdiv ((a : Nat) : Int) ((b : Nat) : Int) = ((a / b : Nat) : Int) := by
  rw [Int.tdiv_eq_ediv_of_nonneg (Int.natCast_nonneg a), Int.natCast_ediv]

theorem specialize_workspace_sizes_eq (d : Nat) :
    SrcF90.specialize_workspace_sizes (d : Int) =
      ((((F90.workspaceSizes d).1 : Nat) : Int), (((F90.workspaceSizes d).2 : Nat) : Int)) := by
  unfold SrcF90.specialize_workspace_sizes F90.workspaceSizes
  have hm2 : Int.tmod (d : Int) 2 = ((d % 2 : Nat) : Int) := by
    rw [Int.tmod_eq_emod_of_nonneg (Int.natCast_nonneg d)]; omega
  have hm4 : Int.tmod (d : Int) 4 = ((d % 4 : Nat) : Int) := by
    rw [Int.tmod_eq_emod_of_nonneg (Int.natCast_nonneg d)]; omega
  have e1 : ((d : Int) + 1) * (((d : Int) + 3) * ((d : Int) + 3)) * ((d : Int) + 5)
      = (((d + 1) * (d + 3) ^ 2 * (d + 5) : Nat) : Int) := by push_cast; ring
  have e2 : (d : Int) * ((d : Int) + 2) * ((d : Int) + 4) * ((d : Int) + 6)
      = ((d * (d + 2) * (d + 4) * (d + 6) : Nat) : Int) := by push_cast; ring
  have e3 : ((d : Int) + 2) * ((d : Int) + 4) = (((d + 2) * (d + 4) : Nat) : Int) := by push_cast; ring
  have c64 : (64 : Int) = ((64 : Nat) : Int) := rfl
  have c8 : (8 : Int) = ((8 : Nat) : Int) := rfl
  rw [hm2, hm4, e1, e2, e3, c64, c8, tdiv_cast, tdiv_cast, tdiv_cast]
  by_cases h2 : d % 2 = 1
  · have : ((d % 2 : Nat) : Int) = 1 := by omega
    rw [if_pos this, if_pos h2]
  · have : ¬ ((d % 2 : Nat) : Int) = 1 := by omega
    rw [if_neg this, if_neg h2]
    by_cases h4 : d % 4 = 0
    · have : ((d % 4 : Nat) : Int) = 0 := by omega
      rw [if_pos this, if_pos h4]
      simp only [pow_two, Nat.cast_mul]
    · have : ¬ ((d % 4 : Nat) : Int) = 0 := by omega
      rw [if_neg this, if_neg h4]
      simp only [pow_two, Nat.cast_mul]

/-! ## `subdivide_nodes` (triangle.f90; generated name `tri_subdivide_nodes`): the closed forms of degree 1–4, term by term

EVERY `K` with the model's notation classes and the single law `((1 : Nat) : K) = 1` (the literal `0.5_dp` is emitted as
`q 1 2 = ((1 : Nat) : K) / ((2 : Nat) : K)`, the model spells it `1 / ((2 : Nat) : K)`): no commutativity, no
associativity - the ORDER of the operations of every statement of the source is the order of `Model.F90.subdivideClosed`
(which the rounding analysis of Lemmas/RoundingTriClosed is about).  This replaces the trust in
`harness/tools/gen_tri_closed.py`. -/

section Generic
variable {K : Type} [Add K] [Sub K] [Mul K] [Div K] [Neg K] [OfNat K 0] [OfNat K 1] [NatCast K]
  [LT K] [DecidableLT K] [LE K] [DecidableLE K] [DecidableEq K]

theorem q_one (h1 : ((1 : Nat) : K) = 1) (b : Nat) : (q 1 b : K) = 1 / ((b : Nat) : K) := by
  unfold q
  rw [if_neg (by decide)]
  show ((1 : Nat) : K) / _ = _
  rw [h1]

theorem tri_subdivide_nodes_one (h1 : ((1 : Nat) : K) = 1) (undef : K) (n1 n2 n3 : K) :
    SrcF90.tri_subdivide_nodes undef [n1, n2, n3] 1 =
      (F90.subdivideClosed 1 [n1, n2, n3] .A, F90.subdivideClosed 1 [n1, n2, n3] .B,
       F90.subdivideClosed 1 [n1, n2, n3] .C, F90.subdivideClosed 1 [n1, n2, n3] .D) := by
  simp [SrcF90.tri_subdivide_nodes, F90.subdivideClosed, F90.subdivideClosed1, q_one h1, seq]

theorem tri_subdivide_nodes_two (h1 : ((1 : Nat) : K) = 1) (undef : K) (n1 n2 n3 n4 n5 n6 : K) :
    SrcF90.tri_subdivide_nodes undef [n1, n2, n3, n4, n5, n6] 2 =
      (F90.subdivideClosed 2 [n1, n2, n3, n4, n5, n6] .A, F90.subdivideClosed 2 [n1, n2, n3, n4, n5, n6] .B,
       F90.subdivideClosed 2 [n1, n2, n3, n4, n5, n6] .C, F90.subdivideClosed 2 [n1, n2, n3, n4, n5, n6] .D) := by
  simp [SrcF90.tri_subdivide_nodes, F90.subdivideClosed, F90.subdivideClosed2, q_one h1, seq]

theorem tri_subdivide_nodes_three (h1 : ((1 : Nat) : K) = 1) (undef : K) (n1 n2 n3 n4 n5 n6 n7 n8 n9 n10 : K) :
    SrcF90.tri_subdivide_nodes undef [n1, n2, n3, n4, n5, n6, n7, n8, n9, n10] 3 =
      (F90.subdivideClosed 3 [n1, n2, n3, n4, n5, n6, n7, n8, n9, n10] .A, F90.subdivideClosed 3 [n1, n2, n3, n4, n5, n6, n7, n8, n9, n10] .B,
       F90.subdivideClosed 3 [n1, n2, n3, n4, n5, n6, n7, n8, n9, n10] .C, F90.subdivideClosed 3 [n1, n2, n3, n4, n5, n6, n7, n8, n9, n10] .D) := by
  simp [SrcF90.tri_subdivide_nodes, F90.subdivideClosed, F90.subdivideClosed3, q_one h1, seq]

theorem tri_subdivide_nodes_four (h1 : ((1 : Nat) : K) = 1) (undef : K) (n1 n2 n3 n4 n5 n6 n7 n8 n9 n10 n11 n12 n13 n14 n15 : K) :
    SrcF90.tri_subdivide_nodes undef [n1, n2, n3, n4, n5, n6, n7, n8, n9, n10, n11, n12, n13, n14, n15] 4 =
      (F90.subdivideClosed 4 [n1, n2, n3, n4, n5, n6, n7, n8, n9, n10, n11, n12, n13, n14, n15] .A, F90.subdivideClosed 4 [n1, n2, n3, n4, n5, n6, n7, n8, n9, n10, n11, n12, n13, n14, n15] .B,
       F90.subdivideClosed 4 [n1, n2, n3, n4, n5, n6, n7, n8, n9, n10, n11, n12, n13, n14, n15] .C, F90.subdivideClosed 4 [n1, n2, n3, n4, n5, n6, n7, n8, n9, n10, n11, n12, n13, n14, n15] .D) := by
  simp [SrcF90.tri_subdivide_nodes, F90.subdivideClosed, F90.subdivideClosed4, q_one h1, seq]

/-- the `else` branch (`degree` outside 1..4): the four `specialize_triangle` calls with the weight triples as written -/
theorem tri_subdivide_nodes_other (undef : K) (row : List K)
    (d : Int) (hd : d ≠ 1 ∧ d ≠ 2 ∧ d ≠ 3 ∧ d ≠ 4) :
    SrcF90.tri_subdivide_nodes undef row d =
      (SrcF90.specialize_triangle undef row d [1, 0, 0] [q 1 2, q 1 2, 0] [q 1 2, 0, q 1 2],
       SrcF90.specialize_triangle undef row d [0, q 1 2, q 1 2] [q 1 2, 0, q 1 2] [q 1 2, q 1 2, 0],
       SrcF90.specialize_triangle undef row d [q 1 2, q 1 2, 0] [0, 1, 0] [0, q 1 2, q 1 2],
       SrcF90.specialize_triangle undef row d [q 1 2, 0, q 1 2] [0, q 1 2, q 1 2] [0, 0, 1]) := by
  unfold SrcF90.tri_subdivide_nodes
  rw [if_neg hd.1, if_neg hd.2.1, if_neg hd.2.2.1, if_neg hd.2.2.2]

/-! ## `specialize_triangle`, `specialize_triangle_one_round` (triangle.f90): the workspace algorithm, degree by degree

For a FIXED degree both the generated definition (two allocated workspaces `List.replicate size undef`, the `do step` loop
with its parity switch, the three groups of `de_casteljau_one_round` calls on sections `read_nodes(:, read_index:new_read)`
written to `write_nodes(:, write_index:new_write)`) and the model `F90.triSpecializeRow` (`F90.triSpecializeLoop`,
`F90.triSpecializeOneRound`, `F90.roundsFrom`, `dcRound3`) are closed computations on the symbolic nodes and weights; they
unfold to the SAME expression tree.  `kernel_rfl` states `Eq.refl` and lets the Lean kernel compare the two normal forms
(the elaborator's own `whnf` runs out of heartbeats from degree 2 on).  EVERY `K`, every node row of the right length,
every three weight triples; degrees 1 … 8 (`subdivide_nodes` uses this path from degree 5 on).  Not proved: the
statement for a symbolic degree (needs the invariant "the active workspace = `model.work ++ garbage`" through both loops
of `specialize_triangle_one_round` under `F90.workspacesSuffice`). -/

theorem specialize_triangle_deg1 (undef n1 n2 n3 a1 a2 a3 b1 b2 b3 c1 c2 c3 : K) :
    SrcF90.specialize_triangle undef [n1, n2, n3] 1 [a1, a2, a3] [b1, b2, b3] [c1, c2, c3] =
      F90.triSpecializeRow 1 [n1, n2, n3] ⟨a1, a2, a3⟩ ⟨b1, b2, b3⟩ ⟨c1, c2, c3⟩ := by kernel_rfl

theorem specialize_triangle_deg2 (undef n1 n2 n3 n4 n5 n6 a1 a2 a3 b1 b2 b3 c1 c2 c3 : K) :
    SrcF90.specialize_triangle undef [n1, n2, n3, n4, n5, n6] 2 [a1, a2, a3] [b1, b2, b3] [c1, c2, c3] =
      F90.triSpecializeRow 2 [n1, n2, n3, n4, n5, n6] ⟨a1, a2, a3⟩ ⟨b1, b2, b3⟩ ⟨c1, c2, c3⟩ := by kernel_rfl

theorem specialize_triangle_deg3 (undef n1 n2 n3 n4 n5 n6 n7 n8 n9 n10 a1 a2 a3 b1 b2 b3 c1 c2 c3 : K) :
    SrcF90.specialize_triangle undef [n1, n2, n3, n4, n5, n6, n7, n8, n9, n10] 3 [a1, a2, a3] [b1, b2, b3] [c1, c2, c3] =
      F90.triSpecializeRow 3 [n1, n2, n3, n4, n5, n6, n7, n8, n9, n10] ⟨a1, a2, a3⟩ ⟨b1, b2, b3⟩ ⟨c1, c2, c3⟩ := by kernel_rfl

theorem specialize_triangle_deg4 (undef n1 n2 n3 n4 n5 n6 n7 n8 n9 n10 n11 n12 n13 n14 n15 a1 a2 a3 b1 b2 b3 c1 c2 c3 : K) :
    SrcF90.specialize_triangle undef [n1, n2, n3, n4, n5, n6, n7, n8, n9, n10, n11, n12, n13, n14, n15] 4 [a1, a2, a3] [b1, b2, b3] [c1, c2, c3] =
      F90.triSpecializeRow 4 [n1, n2, n3, n4, n5, n6, n7, n8, n9, n10, n11, n12, n13, n14, n15] ⟨a1, a2, a3⟩ ⟨b1, b2, b3⟩ ⟨c1, c2, c3⟩ := by kernel_rfl

theorem specialize_triangle_deg5 (undef n1 n2 n3 n4 n5 n6 n7 n8 n9 n10 n11 n12 n13 n14 n15 n16 n17 n18 n19 n20 n21 a1 a2 a3 b1 b2 b3 c1 c2 c3 : K) :
    SrcF90.specialize_triangle undef [n1, n2, n3, n4, n5, n6, n7, n8, n9, n10, n11, n12, n13, n14, n15, n16, n17, n18, n19, n20, n21] 5 [a1, a2, a3] [b1, b2, b3] [c1, c2, c3] =
      F90.triSpecializeRow 5 [n1, n2, n3, n4, n5, n6, n7, n8, n9, n10, n11, n12, n13, n14, n15, n16, n17, n18, n19, n20, n21] ⟨a1, a2, a3⟩ ⟨b1, b2, b3⟩ ⟨c1, c2, c3⟩ := by kernel_rfl

theorem specialize_triangle_deg6 (undef n1 n2 n3 n4 n5 n6 n7 n8 n9 n10 n11 n12 n13 n14 n15 n16 n17 n18 n19 n20 n21 n22 n23 n24 n25 n26 n27 n28 a1 a2 a3 b1 b2 b3 c1 c2 c3 : K) :
    SrcF90.specialize_triangle undef [n1, n2, n3, n4, n5, n6, n7, n8, n9, n10, n11, n12, n13, n14, n15, n16, n17, n18, n19, n20, n21, n22, n23, n24, n25, n26, n27, n28] 6 [a1, a2, a3] [b1, b2, b3] [c1, c2, c3] =
      F90.triSpecializeRow 6 [n1, n2, n3, n4, n5, n6, n7, n8, n9, n10, n11, n12, n13, n14, n15, n16, n17, n18, n19, n20, n21, n22, n23, n24, n25, n26, n27, n28] ⟨a1, a2, a3⟩ ⟨b1, b2, b3⟩ ⟨c1, c2, c3⟩ := by kernel_rfl

theorem specialize_triangle_deg7 (undef n1 n2 n3 n4 n5 n6 n7 n8 n9 n10 n11 n12 n13 n14 n15 n16 n17 n18 n19 n20 n21 n22 n23 n24 n25 n26 n27 n28 n29 n30 n31 n32 n33 n34 n35 n36 a1 a2 a3 b1 b2 b3 c1 c2 c3 : K) :
    SrcF90.specialize_triangle undef [n1, n2, n3, n4, n5, n6, n7, n8, n9, n10, n11, n12, n13, n14, n15, n16, n17, n18, n19, n20, n21, n22, n23, n24, n25, n26, n27, n28, n29, n30, n31, n32, n33, n34, n35, n36] 7 [a1, a2, a3] [b1, b2, b3] [c1, c2, c3] =
      F90.triSpecializeRow 7 [n1, n2, n3, n4, n5, n6, n7, n8, n9, n10, n11, n12, n13, n14, n15, n16, n17, n18, n19, n20, n21, n22, n23, n24, n25, n26, n27, n28, n29, n30, n31, n32, n33, n34, n35, n36] ⟨a1, a2, a3⟩ ⟨b1, b2, b3⟩ ⟨c1, c2, c3⟩ := by kernel_rfl

theorem specialize_triangle_deg8 (undef n1 n2 n3 n4 n5 n6 n7 n8 n9 n10 n11 n12 n13 n14 n15 n16 n17 n18 n19 n20 n21 n22 n23 n24 n25 n26 n27 n28 n29 n30 n31 n32 n33 n34 n35 n36 n37 n38 n39 n40 n41 n42 n43 n44 n45 a1 a2 a3 b1 b2 b3 c1 c2 c3 : K) :
    SrcF90.specialize_triangle undef [n1, n2, n3, n4, n5, n6, n7, n8, n9, n10, n11, n12, n13, n14, n15, n16, n17, n18, n19, n20, n21, n22, n23, n24, n25, n26, n27, n28, n29, n30, n31, n32, n33, n34, n35, n36, n37, n38, n39, n40, n41, n42, n43, n44, n45] 8 [a1, a2, a3] [b1, b2, b3] [c1, c2, c3] =
      F90.triSpecializeRow 8 [n1, n2, n3, n4, n5, n6, n7, n8, n9, n10, n11, n12, n13, n14, n15, n16, n17, n18, n19, n20, n21, n22, n23, n24, n25, n26, n27, n28, n29, n30, n31, n32, n33, n34, n35, n36, n37, n38, n39, n40, n41, n42, n43, n44, n45] ⟨a1, a2, a3⟩ ⟨b1, b2, b3⟩ ⟨c1, c2, c3⟩ := by kernel_rfl

/-! ## `specialize_curve_generic` (curve.f90; generated name `specialize_curve_generic_full` - the interface-only entry
`specialize_curve_generic` of phase 2 is kept so that the emitted `specialize_curve` and its theorems are unchanged)

After the reduction of the `dimension_` axis the rank-3 `workspace(dimension_, num_nodes - 1, num_nodes)` is a rank-2 array
whose COLUMNS are the partially specialised control nets: `workspace(:curr_size, index_) = ...` ↦ `setColSec`, the
`forall (j = 1:index_ - 1)` over the columns a fold of column updates whose right-hand sides read the old array.  For a
fixed number of nodes the generated definition and `Model.F90.specializeGenericRow` (columns as shrinking lists) unfold to
the same expression tree: `kernel_rfl`, EVERY `K`, all nodes / parameters, 2 … 10 nodes.  With the existing
`specialize_curve_two / _three / _other` of Tables/SrcF90Kernels this closes the dispatch `specialize_curve` = `F90.specializeRow`
for 4 … 10 nodes with the generic routine no longer an assumption. -/

theorem specialize_curve_generic_n2 (undef n1 n2 a b : K) :
    SrcF90.specialize_curve_generic_full undef [n1, n2] a b = F90.specializeGenericRow [n1, n2] a b := by kernel_rfl

theorem specialize_curve_generic_n3 (undef n1 n2 n3 a b : K) :
    SrcF90.specialize_curve_generic_full undef [n1, n2, n3] a b = F90.specializeGenericRow [n1, n2, n3] a b := by kernel_rfl

theorem specialize_curve_generic_n4 (undef n1 n2 n3 n4 a b : K) :
    SrcF90.specialize_curve_generic_full undef [n1, n2, n3, n4] a b = F90.specializeGenericRow [n1, n2, n3, n4] a b := by kernel_rfl

theorem specialize_curve_generic_n5 (undef n1 n2 n3 n4 n5 a b : K) :
    SrcF90.specialize_curve_generic_full undef [n1, n2, n3, n4, n5] a b = F90.specializeGenericRow [n1, n2, n3, n4, n5] a b := by kernel_rfl

theorem specialize_curve_generic_n6 (undef n1 n2 n3 n4 n5 n6 a b : K) :
    SrcF90.specialize_curve_generic_full undef [n1, n2, n3, n4, n5, n6] a b = F90.specializeGenericRow [n1, n2, n3, n4, n5, n6] a b := by kernel_rfl

theorem specialize_curve_generic_n7 (undef n1 n2 n3 n4 n5 n6 n7 a b : K) :
    SrcF90.specialize_curve_generic_full undef [n1, n2, n3, n4, n5, n6, n7] a b = F90.specializeGenericRow [n1, n2, n3, n4, n5, n6, n7] a b := by kernel_rfl

theorem specialize_curve_generic_n8 (undef n1 n2 n3 n4 n5 n6 n7 n8 a b : K) :
    SrcF90.specialize_curve_generic_full undef [n1, n2, n3, n4, n5, n6, n7, n8] a b = F90.specializeGenericRow [n1, n2, n3, n4, n5, n6, n7, n8] a b := by kernel_rfl

theorem specialize_curve_generic_n9 (undef n1 n2 n3 n4 n5 n6 n7 n8 n9 a b : K) :
    SrcF90.specialize_curve_generic_full undef [n1, n2, n3, n4, n5, n6, n7, n8, n9] a b = F90.specializeGenericRow [n1, n2, n3, n4, n5, n6, n7, n8, n9] a b := by kernel_rfl

theorem specialize_curve_generic_n10 (undef n1 n2 n3 n4 n5 n6 n7 n8 n9 n10 a b : K) :
    SrcF90.specialize_curve_generic_full undef [n1, n2, n3, n4, n5, n6, n7, n8, n9, n10] a b = F90.specializeGenericRow [n1, n2, n3, n4, n5, n6, n7, n8, n9, n10] a b := by kernel_rfl

theorem specialize_curve_n4 (undef n1 n2 n3 n4 a b : K) :
    SrcF90.specialize_curve undef (SrcF90.specialize_curve_generic_full undef) [n1, n2, n3, n4] a b = F90.specializeRow [n1, n2, n3, n4] a b := by
  rw [(specialize_curve_other undef _ [n1, n2, n3, n4] a b (by simp)).1, specialize_curve_generic_n4]
  rfl

theorem specialize_curve_n5 (undef n1 n2 n3 n4 n5 a b : K) :
    SrcF90.specialize_curve undef (SrcF90.specialize_curve_generic_full undef) [n1, n2, n3, n4, n5] a b = F90.specializeRow [n1, n2, n3, n4, n5] a b := by
  rw [(specialize_curve_other undef _ [n1, n2, n3, n4, n5] a b (by simp)).1, specialize_curve_generic_n5]
  rfl

theorem specialize_curve_n6 (undef n1 n2 n3 n4 n5 n6 a b : K) :
    SrcF90.specialize_curve undef (SrcF90.specialize_curve_generic_full undef) [n1, n2, n3, n4, n5, n6] a b = F90.specializeRow [n1, n2, n3, n4, n5, n6] a b := by
  rw [(specialize_curve_other undef _ [n1, n2, n3, n4, n5, n6] a b (by simp)).1, specialize_curve_generic_n6]
  rfl

theorem specialize_curve_n7 (undef n1 n2 n3 n4 n5 n6 n7 a b : K) :
    SrcF90.specialize_curve undef (SrcF90.specialize_curve_generic_full undef) [n1, n2, n3, n4, n5, n6, n7] a b = F90.specializeRow [n1, n2, n3, n4, n5, n6, n7] a b := by
  rw [(specialize_curve_other undef _ [n1, n2, n3, n4, n5, n6, n7] a b (by simp)).1, specialize_curve_generic_n7]
  rfl

theorem specialize_curve_n8 (undef n1 n2 n3 n4 n5 n6 n7 n8 a b : K) :
    SrcF90.specialize_curve undef (SrcF90.specialize_curve_generic_full undef) [n1, n2, n3, n4, n5, n6, n7, n8] a b = F90.specializeRow [n1, n2, n3, n4, n5, n6, n7, n8] a b := by
  rw [(specialize_curve_other undef _ [n1, n2, n3, n4, n5, n6, n7, n8] a b (by simp)).1, specialize_curve_generic_n8]
  rfl

theorem specialize_curve_n9 (undef n1 n2 n3 n4 n5 n6 n7 n8 n9 a b : K) :
    SrcF90.specialize_curve undef (SrcF90.specialize_curve_generic_full undef) [n1, n2, n3, n4, n5, n6, n7, n8, n9] a b = F90.specializeRow [n1, n2, n3, n4, n5, n6, n7, n8, n9] a b := by
  rw [(specialize_curve_other undef _ [n1, n2, n3, n4, n5, n6, n7, n8, n9] a b (by simp)).1, specialize_curve_generic_n9]
  rfl

theorem specialize_curve_n10 (undef n1 n2 n3 n4 n5 n6 n7 n8 n9 n10 a b : K) :
    SrcF90.specialize_curve undef (SrcF90.specialize_curve_generic_full undef) [n1, n2, n3, n4, n5, n6, n7, n8, n9, n10] a b = F90.specializeRow [n1, n2, n3, n4, n5, n6, n7, n8, n9, n10] a b := by
  rw [(specialize_curve_other undef _ [n1, n2, n3, n4, n5, n6, n7, n8, n9, n10] a b (by simp)).1, specialize_curve_generic_n10]
  rfl

/-- the weight triples of `subdivide_nodes` as the source spells them (`0.5_dp` = `q 1 2`) -/
def subWeightsQ : SubWeights K :=
  { w0 := ⟨1, 0, 0⟩, w1 := ⟨q 1 2, q 1 2, 0⟩, w2 := ⟨q 1 2, 0, q 1 2⟩, w3 := ⟨0, q 1 2, q 1 2⟩, w4 := ⟨0, 1, 0⟩,
    w5 := ⟨0, 0, 1⟩ }

/-- with `specialize_triangle` behaving as `Model.F90.triSpecializeRow` on this row and degree (proved above for
    degrees 1 … 8), the `else` branch of `subdivide_nodes` is the model's generic branch with the weights as written -/
theorem tri_subdivide_nodes_generic (undef : K) (row : List K) (d : Nat) (hd : ¬ (1 ≤ d ∧ d ≤ 4))
    (hspec : ∀ a1 a2 a3 b1 b2 b3 c1 c2 c3 : K,
      SrcF90.specialize_triangle undef row (d : Int) [a1, a2, a3] [b1, b2, b3] [c1, c2, c3] =
        F90.triSpecializeRow d row ⟨a1, a2, a3⟩ ⟨b1, b2, b3⟩ ⟨c1, c2, c3⟩) :
    SrcF90.tri_subdivide_nodes undef row (d : Int) =
      (F90.triSubdivideGenericRow subWeightsQ d row .A, F90.triSubdivideGenericRow subWeightsQ d row .B,
       F90.triSubdivideGenericRow subWeightsQ d row .C, F90.triSubdivideGenericRow subWeightsQ d row .D) := by
  rw [tri_subdivide_nodes_other undef row (d : Int) (by omega)]
  simp only [hspec, F90.triSubdivideGenericRow, quarterWeights, subWeightsQ]

theorem tri_subdivide_nodes_deg5 (undef n1 n2 n3 n4 n5 n6 n7 n8 n9 n10 n11 n12 n13 n14 n15 n16 n17 n18 n19 n20 n21 : K) :
    SrcF90.tri_subdivide_nodes undef [n1, n2, n3, n4, n5, n6, n7, n8, n9, n10, n11, n12, n13, n14, n15, n16, n17, n18, n19, n20, n21] 5 =
      (F90.triSubdivideGenericRow subWeightsQ 5 [n1, n2, n3, n4, n5, n6, n7, n8, n9, n10, n11, n12, n13, n14, n15, n16, n17, n18, n19, n20, n21] .A, F90.triSubdivideGenericRow subWeightsQ 5 [n1, n2, n3, n4, n5, n6, n7, n8, n9, n10, n11, n12, n13, n14, n15, n16, n17, n18, n19, n20, n21] .B,
       F90.triSubdivideGenericRow subWeightsQ 5 [n1, n2, n3, n4, n5, n6, n7, n8, n9, n10, n11, n12, n13, n14, n15, n16, n17, n18, n19, n20, n21] .C, F90.triSubdivideGenericRow subWeightsQ 5 [n1, n2, n3, n4, n5, n6, n7, n8, n9, n10, n11, n12, n13, n14, n15, n16, n17, n18, n19, n20, n21] .D) :=
  tri_subdivide_nodes_generic undef [n1, n2, n3, n4, n5, n6, n7, n8, n9, n10, n11, n12, n13, n14, n15, n16, n17, n18, n19, n20, n21] 5 (by omega) (fun a1 a2 a3 b1 b2 b3 c1 c2 c3 =>
    specialize_triangle_deg5 undef n1 n2 n3 n4 n5 n6 n7 n8 n9 n10 n11 n12 n13 n14 n15 n16 n17 n18 n19 n20 n21 a1 a2 a3 b1 b2 b3 c1 c2 c3)

theorem tri_subdivide_nodes_deg6 (undef n1 n2 n3 n4 n5 n6 n7 n8 n9 n10 n11 n12 n13 n14 n15 n16 n17 n18 n19 n20 n21 n22 n23 n24 n25 n26 n27 n28 : K) :
    SrcF90.tri_subdivide_nodes undef [n1, n2, n3, n4, n5, n6, n7, n8, n9, n10, n11, n12, n13, n14, n15, n16, n17, n18, n19, n20, n21, n22, n23, n24, n25, n26, n27, n28] 6 =
      (F90.triSubdivideGenericRow subWeightsQ 6 [n1, n2, n3, n4, n5, n6, n7, n8, n9, n10, n11, n12, n13, n14, n15, n16, n17, n18, n19, n20, n21, n22, n23, n24, n25, n26, n27, n28] .A, F90.triSubdivideGenericRow subWeightsQ 6 [n1, n2, n3, n4, n5, n6, n7, n8, n9, n10, n11, n12, n13, n14, n15, n16, n17, n18, n19, n20, n21, n22, n23, n24, n25, n26, n27, n28] .B,
       F90.triSubdivideGenericRow subWeightsQ 6 [n1, n2, n3, n4, n5, n6, n7, n8, n9, n10, n11, n12, n13, n14, n15, n16, n17, n18, n19, n20, n21, n22, n23, n24, n25, n26, n27, n28] .C, F90.triSubdivideGenericRow subWeightsQ 6 [n1, n2, n3, n4, n5, n6, n7, n8, n9, n10, n11, n12, n13, n14, n15, n16, n17, n18, n19, n20, n21, n22, n23, n24, n25, n26, n27, n28] .D) :=
  tri_subdivide_nodes_generic undef [n1, n2, n3, n4, n5, n6, n7, n8, n9, n10, n11, n12, n13, n14, n15, n16, n17, n18, n19, n20, n21, n22, n23, n24, n25, n26, n27, n28] 6 (by omega) (fun a1 a2 a3 b1 b2 b3 c1 c2 c3 =>
    specialize_triangle_deg6 undef n1 n2 n3 n4 n5 n6 n7 n8 n9 n10 n11 n12 n13 n14 n15 n16 n17 n18 n19 n20 n21 n22 n23 n24 n25 n26 n27 n28 a1 a2 a3 b1 b2 b3 c1 c2 c3)

theorem tri_subdivide_nodes_deg7 (undef n1 n2 n3 n4 n5 n6 n7 n8 n9 n10 n11 n12 n13 n14 n15 n16 n17 n18 n19 n20 n21 n22 n23 n24 n25 n26 n27 n28 n29 n30 n31 n32 n33 n34 n35 n36 : K) :
    SrcF90.tri_subdivide_nodes undef [n1, n2, n3, n4, n5, n6, n7, n8, n9, n10, n11, n12, n13, n14, n15, n16, n17, n18, n19, n20, n21, n22, n23, n24, n25, n26, n27, n28, n29, n30, n31, n32, n33, n34, n35, n36] 7 =
      (F90.triSubdivideGenericRow subWeightsQ 7 [n1, n2, n3, n4, n5, n6, n7, n8, n9, n10, n11, n12, n13, n14, n15, n16, n17, n18, n19, n20, n21, n22, n23, n24, n25, n26, n27, n28, n29, n30, n31, n32, n33, n34, n35, n36] .A, F90.triSubdivideGenericRow subWeightsQ 7 [n1, n2, n3, n4, n5, n6, n7, n8, n9, n10, n11, n12, n13, n14, n15, n16, n17, n18, n19, n20, n21, n22, n23, n24, n25, n26, n27, n28, n29, n30, n31, n32, n33, n34, n35, n36] .B,
       F90.triSubdivideGenericRow subWeightsQ 7 [n1, n2, n3, n4, n5, n6, n7, n8, n9, n10, n11, n12, n13, n14, n15, n16, n17, n18, n19, n20, n21, n22, n23, n24, n25, n26, n27, n28, n29, n30, n31, n32, n33, n34, n35, n36] .C, F90.triSubdivideGenericRow subWeightsQ 7 [n1, n2, n3, n4, n5, n6, n7, n8, n9, n10, n11, n12, n13, n14, n15, n16, n17, n18, n19, n20, n21, n22, n23, n24, n25, n26, n27, n28, n29, n30, n31, n32, n33, n34, n35, n36] .D) :=
  tri_subdivide_nodes_generic undef [n1, n2, n3, n4, n5, n6, n7, n8, n9, n10, n11, n12, n13, n14, n15, n16, n17, n18, n19, n20, n21, n22, n23, n24, n25, n26, n27, n28, n29, n30, n31, n32, n33, n34, n35, n36] 7 (by omega) (fun a1 a2 a3 b1 b2 b3 c1 c2 c3 =>
    specialize_triangle_deg7 undef n1 n2 n3 n4 n5 n6 n7 n8 n9 n10 n11 n12 n13 n14 n15 n16 n17 n18 n19 n20 n21 n22 n23 n24 n25 n26 n27 n28 n29 n30 n31 n32 n33 n34 n35 n36 a1 a2 a3 b1 b2 b3 c1 c2 c3)

theorem tri_subdivide_nodes_deg8 (undef n1 n2 n3 n4 n5 n6 n7 n8 n9 n10 n11 n12 n13 n14 n15 n16 n17 n18 n19 n20 n21 n22 n23 n24 n25 n26 n27 n28 n29 n30 n31 n32 n33 n34 n35 n36 n37 n38 n39 n40 n41 n42 n43 n44 n45 : K) :
    SrcF90.tri_subdivide_nodes undef [n1, n2, n3, n4, n5, n6, n7, n8, n9, n10, n11, n12, n13, n14, n15, n16, n17, n18, n19, n20, n21, n22, n23, n24, n25, n26, n27, n28, n29, n30, n31, n32, n33, n34, n35, n36, n37, n38, n39, n40, n41, n42, n43, n44, n45] 8 =
      (F90.triSubdivideGenericRow subWeightsQ 8 [n1, n2, n3, n4, n5, n6, n7, n8, n9, n10, n11, n12, n13, n14, n15, n16, n17, n18, n19, n20, n21, n22, n23, n24, n25, n26, n27, n28, n29, n30, n31, n32, n33, n34, n35, n36, n37, n38, n39, n40, n41, n42, n43, n44, n45] .A, F90.triSubdivideGenericRow subWeightsQ 8 [n1, n2, n3, n4, n5, n6, n7, n8, n9, n10, n11, n12, n13, n14, n15, n16, n17, n18, n19, n20, n21, n22, n23, n24, n25, n26, n27, n28, n29, n30, n31, n32, n33, n34, n35, n36, n37, n38, n39, n40, n41, n42, n43, n44, n45] .B,
       F90.triSubdivideGenericRow subWeightsQ 8 [n1, n2, n3, n4, n5, n6, n7, n8, n9, n10, n11, n12, n13, n14, n15, n16, n17, n18, n19, n20, n21, n22, n23, n24, n25, n26, n27, n28, n29, n30, n31, n32, n33, n34, n35, n36, n37, n38, n39, n40, n41, n42, n43, n44, n45] .C, F90.triSubdivideGenericRow subWeightsQ 8 [n1, n2, n3, n4, n5, n6, n7, n8, n9, n10, n11, n12, n13, n14, n15, n16, n17, n18, n19, n20, n21, n22, n23, n24, n25, n26, n27, n28, n29, n30, n31, n32, n33, n34, n35, n36, n37, n38, n39, n40, n41, n42, n43, n44, n45] .D) :=
  tri_subdivide_nodes_generic undef [n1, n2, n3, n4, n5, n6, n7, n8, n9, n10, n11, n12, n13, n14, n15, n16, n17, n18, n19, n20, n21, n22, n23, n24, n25, n26, n27, n28, n29, n30, n31, n32, n33, n34, n35, n36, n37, n38, n39, n40, n41, n42, n43, n44, n45] 8 (by omega) (fun a1 a2 a3 b1 b2 b3 c1 c2 c3 =>
    specialize_triangle_deg8 undef n1 n2 n3 n4 n5 n6 n7 n8 n9 n10 n11 n12 n13 n14 n15 n16 n17 n18 n19 n20 n21 n22 n23 n24 n25 n26 n27 n28 n29 n30 n31 n32 n33 n34 n35 n36 n37 n38 n39 n40 n41 n42 n43 n44 n45 a1 a2 a3 b1 b2 b3 c1 c2 c3)

/-! ## `can_reduce`, `projection_error` (curve.f90): column-wise construction = a map over the rows

`can_reduce` is translated WITHOUT axis reduction (the Frobenius norm couples the rows): `reduced(:, j) = <expression in the
columns nodes(:, k)>` is `setColSec reduced (j-1) 1 dimension_ (...)` on `col nodes (k-1)`.  The lemmas below turn every column
operation on `nodes.map g` into a map, so that `reduced = nodes.map (fun r => [f_1 r, .., f_n r])`. -/

theorem zipWith_map_same {α β γ δ : Type} (f : β → γ → δ) (g : α → β) (h : α → γ) : ∀ l : List α,
    List.zipWith f (l.map g) (l.map h) = l.map (fun a => f (g a) (h a))
  | [] => rfl
  | a :: l => by simp [zipWith_map_same f g h l]

theorem replicate_length_map {α β : Type} (l : List α) (x : β) : List.replicate l.length x = l.map (fun _ => x) := by
  induction l with
  | nil => rfl
  | cons a l ih =>
    show List.replicate (l.length + 1) x = x :: l.map (fun _ => x)
    rw [List.replicate_succ, ih]

variable (nodes : List (List K))

theorem col_nodes (c : Nat) : col nodes c = nodes.map (fun r => r.getD c 0) := rfl
theorem col_map' (F : List K → List K) (c : Nat) : col (nodes.map F) c = nodes.map (fun r => (F r).getD c 0) := by
  simp [col, List.map_map, Function.comp_def]
theorem scaleRow_map' (c : K) (g : List K → K) : scaleRow c (nodes.map g) = nodes.map (fun r => c * g r) := by
  simp [scaleRow, List.map_map, Function.comp_def]
theorem divRow_map' (c : K) (g : List K → K) : divRow (nodes.map g) c = nodes.map (fun r => g r / c) := by
  simp [divRow, List.map_map, Function.comp_def]
theorem negRow_map' (g : List K → K) : SrcF90.negRow (nodes.map g) = nodes.map (fun r => - g r) := by
  simp [SrcF90.negRow, List.map_map, Function.comp_def]
theorem addRow_map' (g h : List K → K) : addRow (nodes.map g) (nodes.map h) = nodes.map (fun r => g r + h r) :=
  zipWith_map_same _ g h nodes
theorem subRow_map' (g h : List K → K) : subRow (nodes.map g) (nodes.map h) = nodes.map (fun r => g r - h r) :=
  zipWith_map_same _ g h nodes
theorem setColSec_map' (F : List K → List K) (g : List K → K) (j : Nat) :
    SrcF90.setColSec (nodes.map F) j 1 nodes.length (nodes.map g) = nodes.map (fun r => (F r).set j (g r)) := by
  unfold SrcF90.setColSec
  have e : (List.drop (1 - 1) (nodes.map F)).take (nodes.length + 1 - 1) = nodes.map F := by
    simp
  rw [e, zipWith_map_same]
  simp
end Generic

section Field
variable {K : Type} [Field K] [LinearOrder K]

/-! ## `jacobian_det` (triangle.f90) -/

/-- the Fortran evaluation loop (real binomial) is the Python loop the model of `jacobian_det` / `newton_refine` uses -/
theorem triLoopReal_eq_py (d : Nat) (row : List K) (w : Bary K) : ∀ t,
    (F90.triLoopReal 55 d row w t).index = (Py.triLoop 55 d row w t).index ∧
    (F90.triLoopReal 55 d row w t).binom = (Py.triLoop 55 d row w t).binom ∧
    (F90.triLoopReal 55 d row w t).result = (Py.triLoop 55 d row w t).result := by
  intro t
  induction t with
  | zero => simp [F90.triLoopReal, Py.triLoop]
  | succ t ih =>
    obtain ⟨hi, hb, hr⟩ := ih
    simp only [F90.triLoopReal, Py.triLoop, F90.triStepReal, Py.triStep, hi, hb, hr]
    refine ⟨trivial, trivial, ?_⟩
    ring

theorem evalReal_eq_py (d : Nat) (row : List K) (w : Bary K) :
    F90.evalBarycentricRowReal 55 d row w = Py.evalBarycentricRow 55 d row w :=
  (triLoopReal_eq_py d row w d).2.2

theorem jac_hL (row : List K) (d : Nat) (hd : 1 ≤ d) (h : row.length = numNodes d) :
    (jacIndexPairs d).length = Int.toNat (((row.length : Nat) : Int) - (d : Int) - 1) := by
  rw [BezierVerif.TriD.jacIndexPairs_length d hd, h, numNodes_pred d hd]
  omega

/-- `jacobian_det` at one parameter pair `(s, t)` of a planar triangle of degree `d ≥ 1` with `numNodes d` nodes:
    `Model.jacobianDet` (the nets of `jacobian_both`, the four of them evaluated by `evaluate_cartesian_multi` at degree
    `d - 1`, resp. their single entries for `d = 1`, and the 2 × 2 determinant). -/
theorem jacobian_det_eq (undef : K) (x y : List K) (d : Nat) (s t : K) (hd : 1 ≤ d)
    (hx : x.length = numNodes d) (hy : y.length = numNodes d) :
    SrcF90.jacobian_det undef [x, y] (d : Int) (s, t) = jacobianDet 55 d [x, y] s t := by
  unfold SrcF90.jacobian_det jacobianDet jacobianBoth
  simp only [List.map_cons, List.map_nil, jacobian_both_model undef x d (jac_hL x d hd hx),
    jacobian_both_model undef y d (jac_hL y d hd hy), List.cons_append, List.nil_append]
  by_cases h1 : d = 1
  · subst h1
    simp [SrcF90.at2, SrcF90.row, seq]
  · have h1' : ¬ ((d : Nat) : Int) = 1 := by omega
    rw [if_neg h1', if_neg h1]
    have hc : ((d : Nat) : Int) - 1 = ((d - 1 : Nat) : Int) := by omega
    have hS : ∀ row : List K, (d - 1 + 1) * (d - 1 + 2) ≤ 2 * (jacobianSRow d row).length := by
      intro row; rw [BezierVerif.TriD.jacobianSRow_length d hd, two_mul_numNodes]
    have hT : ∀ row : List K, (d - 1 + 1) * (d - 1 + 2) ≤ 2 * (jacobianTRow d row).length := by
      intro row; rw [BezierVerif.TriD.jacobianTRow_length d hd, two_mul_numNodes]
    simp only [hc, evaluate_cartesian_multi_model _ _ _ _ (hS _), evaluate_cartesian_multi_model _ _ _ _ (hT _),
      evalReal_eq_py, Py.evalBarycentric, List.map_cons, List.map_nil]

/-! ## `newton_refine` (triangle_intersection.f90; generated name `tri_newton_refine`) and its helper `newton_refine_solve` -/

/-- `newton_refine_solve`: Cramer's rule on the evaluated Jacobian `[a c; b d]` (column-major `jac_both(4, 1)`) -/
theorem newton_refine_solve_eq (a b c d xv tx yv ty : K) :
    SrcF90.newton_refine_solve [a, b, c, d] xv tx yv ty =
      ((d * (xv - tx) - c * (yv - ty)) / (a * d - b * c), (a * (yv - ty) - b * (xv - tx)) / (a * d - b * c)) := by
  simp [SrcF90.newton_refine_solve, seq]

/-- triangle `newton_refine` on a planar triangle of degree `d ≥ 1` with `numNodes d` nodes is `Model.newtonRefineTriangle`:
    the point `B(s, t)`; if it IS the target the parameters are returned unchanged; otherwise the nets of `jacobian_both`
    evaluated at degree `d - 1` and one Cramer step. -/
theorem tri_newton_refine_eq (undef : K) (x y : List K) (d : Nat) (xv yv s t : K) (hd : 1 ≤ d)
    (hx : x.length = numNodes d) (hy : y.length = numNodes d) :
    SrcF90.tri_newton_refine undef [x, y] (d : Int) xv yv s t = newtonRefineTriangle 55 d [x, y] xv yv s t := by
  unfold SrcF90.tri_newton_refine newtonRefineTriangle jacobianBoth
  have hX : (d + 1) * (d + 2) ≤ 2 * x.length := by rw [hx, two_mul_numNodes]
  have hY : (d + 1) * (d + 2) ≤ 2 * y.length := by rw [hy, two_mul_numNodes]
  have hc : ((d : Nat) : Int) - 1 = ((d - 1 : Nat) : Int) := by omega
  have hS : ∀ row : List K, (d - 1 + 1) * (d - 1 + 2) ≤ 2 * (jacobianSRow d row).length := by
    intro row; rw [BezierVerif.TriD.jacobianSRow_length d hd, two_mul_numNodes]
  have hT : ∀ row : List K, (d - 1 + 1) * (d - 1 + 2) ≤ 2 * (jacobianTRow d row).length := by
    intro row; rw [BezierVerif.TriD.jacobianTRow_length d hd, two_mul_numNodes]
  simp only [List.map_cons, List.map_nil, jacobian_both_model undef x d (jac_hL x d hd hx),
    jacobian_both_model undef y d (jac_hL y d hd hy), List.cons_append, List.nil_append, evaluate_barycentric_eq_multi, hc,
    evaluate_barycentric_multi_model _ _ _ _ _ hX, evaluate_barycentric_multi_model _ _ _ _ _ hY,
    evaluate_barycentric_multi_model _ _ _ _ _ (hS _), evaluate_barycentric_multi_model _ _ _ _ _ (hT _),
    evalReal_eq_py, Py.evalBarycentric, newton_refine_solve_eq, ptOf, seq, cartesian, List.getD_cons_zero,
    List.getD_cons_succ]

/-! ## `tri_subdivide_nodes`, generic branch over a field: the weights as written are the model's `subWeights`
(`q 1 2 = 1 / (1 + 1)`), so the `else` branch is `Model.F90.subdivideClosed d` (= `F90.triSubdivideGenericRow subWeights d`) -/

theorem subWeightsQ_eq : (subWeightsQ : SubWeights K) = subWeights := by
  simp only [subWeightsQ, subWeights, q_one_two]

theorem subdivideClosed_generic (row : List K) (d : Nat) (hd : ¬ (1 ≤ d ∧ d ≤ 4)) (qt : Quarter) :
    F90.subdivideClosed d row qt = F90.triSubdivideGenericRow subWeights d row qt := by
  rcases Nat.lt_or_ge d 1 with h | h
  · obtain rfl : d = 0 := by omega
    rfl
  · obtain ⟨e, rfl⟩ : ∃ e, d = e + 5 := ⟨d - 5, by omega⟩
    rfl

theorem tri_subdivide_nodes_generic_model (undef : K) (row : List K) (d : Nat) (hd : ¬ (1 ≤ d ∧ d ≤ 4))
    (hspec : ∀ a1 a2 a3 b1 b2 b3 c1 c2 c3 : K,
      SrcF90.specialize_triangle undef row (d : Int) [a1, a2, a3] [b1, b2, b3] [c1, c2, c3] =
        F90.triSpecializeRow d row ⟨a1, a2, a3⟩ ⟨b1, b2, b3⟩ ⟨c1, c2, c3⟩) :
    SrcF90.tri_subdivide_nodes undef row (d : Int) =
      (F90.subdivideClosed d row .A, F90.subdivideClosed d row .B, F90.subdivideClosed d row .C,
       F90.subdivideClosed d row .D) := by
  rw [tri_subdivide_nodes_generic undef row d hd hspec, subWeightsQ_eq]
  simp only [subdivideClosed_generic row d hd]

/-- non-vacuity of the hypothesis `((1 : Nat) : K) = 1` of the closed-form theorems: it holds in every field (`Nat.cast_one`) -/
example (undef n1 n2 n3 : K) :
    SrcF90.tri_subdivide_nodes undef [n1, n2, n3] 1 =
      (F90.subdivideClosed 1 [n1, n2, n3] .A, F90.subdivideClosed 1 [n1, n2, n3] .B,
       F90.subdivideClosed 1 [n1, n2, n3] .C, F90.subdivideClosed 1 [n1, n2, n3] .D) :=
  tri_subdivide_nodes_one Nat.cast_one undef n1 n2 n3

/-! ## `shoelace_for_area` (triangle.f90) -/

theorem shoelace_two (x1 x2 y1 y2 : K) :
    shoelace [x1, x2] [y1, y2] = .ok (SrcF90.shoelace_for_area [[x1, x2], [y1, y2]]).1 ∧
      (SrcF90.shoelace_for_area [[x1, x2], [y1, y2]]).2 = false := by
  simp [SrcF90.shoelace_for_area, shoelace, shoelaceTable, ncols, SrcF90.at2, SrcF90.row, seq]

theorem shoelace_three (x1 x2 x3 y1 y2 y3 : K) :
    shoelace [x1, x2, x3] [y1, y2, y3] = .ok (SrcF90.shoelace_for_area [[x1, x2, x3], [y1, y2, y3]]).1 ∧
      (SrcF90.shoelace_for_area [[x1, x2, x3], [y1, y2, y3]]).2 = false := by
  simp [SrcF90.shoelace_for_area, shoelace, shoelaceTable, ncols, SrcF90.at2, SrcF90.row, seq]

theorem shoelace_four (x1 x2 x3 x4 y1 y2 y3 y4 : K) :
    shoelace [x1, x2, x3, x4] [y1, y2, y3, y4] = .ok (SrcF90.shoelace_for_area [[x1, x2, x3, x4], [y1, y2, y3, y4]]).1 ∧
      (SrcF90.shoelace_for_area [[x1, x2, x3, x4], [y1, y2, y3, y4]]).2 = false := by
  simp [SrcF90.shoelace_for_area, shoelace, shoelaceTable, ncols, SrcF90.at2, SrcF90.row, seq]

theorem shoelace_five (x1 x2 x3 x4 x5 y1 y2 y3 y4 y5 : K) :
    shoelace [x1, x2, x3, x4, x5] [y1, y2, y3, y4, y5] =
        .ok (SrcF90.shoelace_for_area [[x1, x2, x3, x4, x5], [y1, y2, y3, y4, y5]]).1 ∧
      (SrcF90.shoelace_for_area [[x1, x2, x3, x4, x5], [y1, y2, y3, y4, y5]]).2 = false := by
  simp [SrcF90.shoelace_for_area, shoelace, shoelaceTable, ncols, SrcF90.at2, SrcF90.row, seq]

/-- any other number of nodes: `not_implemented = .TRUE.`, `shoelace = 0`; the model answers `unsupportedDegree` -/
theorem shoelace_other (xs ys : List K) (h : xs.length ≠ 2 ∧ xs.length ≠ 3 ∧ xs.length ≠ 4 ∧ xs.length ≠ 5) :
    shoelace xs ys = .error .unsupportedDegree ∧ SrcF90.shoelace_for_area [xs, ys] = (0, true) := by
  constructor
  · unfold shoelace shoelaceTable
    split <;> first | rfl | (rename_i heq; split at heq <;> simp_all)
  · simp [SrcF90.shoelace_for_area, ncols, h.1, h.2.1, h.2.2.1, h.2.2.2]

/-! ## `reduce_pseudo_inverse` (curve.f90), one coordinate row -/

theorem reduce_pseudo_inverse_two (undef a b : K) :
    reducePinv [[a, b]] = .ok [(SrcF90.reduce_pseudo_inverse undef [a, b]).1] ∧
      (SrcF90.reduce_pseudo_inverse undef [a, b]).2 = false := by
  simp [SrcF90.reduce_pseudo_inverse, reducePinv, reductionMat, ncols, matMul, rowMul, col, dot, seq, q, List.range_succ]
  try ring

theorem reduce_pseudo_inverse_three (undef a b c : K) :
    reducePinv [[a, b, c]] = .ok [(SrcF90.reduce_pseudo_inverse undef [a, b, c]).1] ∧
      (SrcF90.reduce_pseudo_inverse undef [a, b, c]).2 = false := by
  simp [SrcF90.reduce_pseudo_inverse, reducePinv, reductionMat, ncols, matMul, rowMul, col, dot, seq, q, List.range_succ]
  constructor <;> ring

/-- any other number of nodes: `not_implemented = .TRUE.` (nothing is assigned to `reduced`) -/
theorem reduce_pseudo_inverse_other (undef : K) (row : List K)
    (h : row.length ≠ 2 ∧ row.length ≠ 3 ∧ row.length ≠ 4 ∧ row.length ≠ 5) :
    reducePinv [row] = .error .unsupportedDegree ∧
      SrcF90.reduce_pseudo_inverse undef row = (List.replicate (row.length - 1) undef, true) := by
  constructor
  · unfold reducePinv reductionMat
    simp only [ncols, List.headD_cons]
    split <;> first | rfl | (rename_i heq; split at heq <;> simp_all)
  · unfold SrcF90.reduce_pseudo_inverse
    rw [if_neg h.1, if_neg h.2.1, if_neg h.2.2.1, if_neg h.2.2.2]

end Field

section CharZero
variable {K : Type} [Field K] [LinearOrder K] [CharZero K]

/-! `reduce_pseudo_inverse`, 4 and 5 nodes: the model's matrix has unreduced fractions (`-5/20`, `207/210`), the source the reduced
ones (`0.25_dp`, `69 .. / 70`): equal in characteristic 0 -/

theorem reduce_pseudo_inverse_four (undef a b c d : K) :
    reducePinv [[a, b, c, d]] = .ok [(SrcF90.reduce_pseudo_inverse undef [a, b, c, d]).1] ∧
      (SrcF90.reduce_pseudo_inverse undef [a, b, c, d]).2 = false := by
  simp [SrcF90.reduce_pseudo_inverse, reducePinv, reductionMat, ncols, matMul, rowMul, col, dot, seq, q, List.range_succ]
  refine ⟨?_, ?_, ?_⟩ <;> (field_simp; ring)

theorem reduce_pseudo_inverse_five (undef a b c d e : K) :
    reducePinv [[a, b, c, d, e]] = .ok [(SrcF90.reduce_pseudo_inverse undef [a, b, c, d, e]).1] ∧
      (SrcF90.reduce_pseudo_inverse undef [a, b, c, d, e]).2 = false := by
  simp [SrcF90.reduce_pseudo_inverse, reducePinv, reductionMat, ncols, matMul, rowMul, col, dot, seq, q, List.range_succ]
  refine ⟨?_, ?_, ?_, ?_⟩ <;> (field_simp; ring)

/-! ## `can_reduce`: the closed-form projections are `nodes · P_n` with the model's `projectionMat n` (any dimension) -/

/-- the projection `P_n = R_n · E_(n-1)` (reduce, then elevate) of the model as explicit matrices -/
def projMat : Nat → List (List K)
  | 2 => [[1/2, 1/2], [1/2, 1/2]]
  | 3 => [[5/6, 1/3, -1/6], [1/3, 1/3, 1/3], [-1/6, 1/3, 5/6]]
  | 4 => [[19/20, 3/20, -3/20, 1/20], [3/20, 11/20, 9/20, -3/20], [-3/20, 9/20, 11/20, 3/20], [1/20, -3/20, 3/20, 19/20]]
  | 5 => [[69/70, 2/35, -3/35, 2/35, -1/70], [2/35, 27/35, 12/35, -8/35, 2/35], [-3/35, 12/35, 17/35, 12/35, -3/35], [2/35, -8/35, 12/35, 27/35, 2/35], [-1/70, 2/35, -3/35, 2/35, 69/70]]
  | _ => []

theorem projectionMat_two : projectionMat (K := K) 2 = some (projMat 2) := by
  simp [projMat, projectionMat, reductionMat, matMul, rowMul, elevMat, elevateRow, unitVec, col, dot, ncols, seq, q, List.range_succ]
  try norm_num

theorem projectionMat_three : projectionMat (K := K) 3 = some (projMat 3) := by
  simp [projMat, projectionMat, reductionMat, matMul, rowMul, elevMat, elevateRow, unitVec, col, dot, ncols, seq, q, List.range_succ]
  try norm_num

theorem projectionMat_four : projectionMat (K := K) 4 = some (projMat 4) := by
  simp [projMat, projectionMat, reductionMat, matMul, rowMul, elevMat, elevateRow, unitVec, col, dot, ncols, seq, q, List.range_succ]
  try norm_num

theorem projectionMat_five : projectionMat (K := K) 5 = some (projMat 5) := by
  simp [projMat, projectionMat, reductionMat, matMul, rowMul, elevMat, elevateRow, unitVec, col, dot, ncols, seq, q, List.range_succ]
  try norm_num

theorem ncols_of (nodes : List (List K)) (n : Nat) (hne : nodes ≠ []) (h : ∀ r ∈ nodes, r.length = n) : ncols nodes = n := by
  cases nodes with
  | nil => exact absurd rfl hne
  | cons r rest => exact h r (by simp)

theorem map_eq_matMul (nodes : List (List K)) (P : List (List K)) (G : List K → List K)
    (hG : ∀ r ∈ nodes, G r = rowMul r P) : nodes.map G = matMul nodes P := by
  unfold matMul
  exact List.map_congr_left hG

theorem can_reduce_two (undef : K) (nrm : List K → K) (nodes : List (List K)) (hne : nodes ≠ [])
    (h : ∀ r ∈ nodes, r.length = 2) :
    SrcF90.can_reduce undef nrm nodes =
      if SrcF90.projection_error nrm nodes (matMul nodes (projMat 2)) < SrcF90.REDUCE_THRESHOLD then 1 else 0 := by
  unfold SrcF90.can_reduce
  simp only [ncols_of nodes 2 hne h]
  norm_num
  simp only [replicate_length_map, col_nodes, List.map_map, Function.comp_def, scaleRow_map', divRow_map', negRow_map',
    addRow_map', subRow_map', setColSec_map']
  rw [map_eq_matMul nodes (projMat 2)]
  intro r hr
  have hl := h r hr
  match r, hl with
  | [a, b], _ =>
    simp [projMat, rowMul, col, dot, ncols, List.range_succ, q]
    repeat' constructor
    all_goals (field_simp <;> ring)

theorem can_reduce_three (undef : K) (nrm : List K → K) (nodes : List (List K)) (hne : nodes ≠ [])
    (h : ∀ r ∈ nodes, r.length = 3) :
    SrcF90.can_reduce undef nrm nodes =
      if SrcF90.projection_error nrm nodes (matMul nodes (projMat 3)) < SrcF90.REDUCE_THRESHOLD then 1 else 0 := by
  unfold SrcF90.can_reduce
  simp only [ncols_of nodes 3 hne h]
  norm_num
  simp only [replicate_length_map, col_nodes, List.map_map, Function.comp_def, scaleRow_map', divRow_map', negRow_map',
    addRow_map', subRow_map', setColSec_map']
  rw [map_eq_matMul nodes (projMat 3)]
  intro r hr
  have hl := h r hr
  match r, hl with
  | [a, b, c], _ =>
    simp [projMat, rowMul, col, dot, ncols, List.range_succ, q]
    repeat' constructor
    all_goals (field_simp <;> ring)

theorem can_reduce_four (undef : K) (nrm : List K → K) (nodes : List (List K)) (hne : nodes ≠ [])
    (h : ∀ r ∈ nodes, r.length = 4) :
    SrcF90.can_reduce undef nrm nodes =
      if SrcF90.projection_error nrm nodes (matMul nodes (projMat 4)) < SrcF90.REDUCE_THRESHOLD then 1 else 0 := by
  unfold SrcF90.can_reduce
  simp only [ncols_of nodes 4 hne h]
  norm_num
  simp only [replicate_length_map, col_nodes, List.map_map, Function.comp_def, scaleRow_map', divRow_map', negRow_map',
    addRow_map', subRow_map', setColSec_map']
  rw [map_eq_matMul nodes (projMat 4)]
  intro r hr
  have hl := h r hr
  match r, hl with
  | [a, b, c, d], _ =>
    simp [projMat, rowMul, col, dot, ncols, List.range_succ, q]
    repeat' constructor
    all_goals (field_simp <;> ring)

theorem can_reduce_five (undef : K) (nrm : List K → K) (nodes : List (List K)) (hne : nodes ≠ [])
    (h : ∀ r ∈ nodes, r.length = 5) :
    SrcF90.can_reduce undef nrm nodes =
      if SrcF90.projection_error nrm nodes (matMul nodes (projMat 5)) < SrcF90.REDUCE_THRESHOLD then 1 else 0 := by
  unfold SrcF90.can_reduce
  simp only [ncols_of nodes 5 hne h]
  norm_num
  simp only [replicate_length_map, col_nodes, List.map_map, Function.comp_def, scaleRow_map', divRow_map', negRow_map',
    addRow_map', subRow_map', setColSec_map']
  rw [map_eq_matMul nodes (projMat 5)]
  intro r hr
  have hl := h r hr
  match r, hl with
  | [a, b, c, d, e], _ =>
    simp [projMat, rowMul, col, dot, ncols, List.range_succ, q]
    repeat' constructor
    all_goals (field_simp <;> ring)

/-- fewer than 2 or more than 5 nodes: "Not Implemented" (`success = -1`) -/
theorem can_reduce_other (undef : K) (nrm : List K → K) (nodes : List (List K)) (h : ncols nodes < 2 ∨ 5 < ncols nodes) :
    SrcF90.can_reduce undef nrm nodes = -1 := by
  unfold SrcF90.can_reduce
  rw [if_pos h]

end CharZero

/-! ## `can_reduce` over the reals: the decision on norms is the model's decision on squares -/

section RealTie
open BezierVerif.NormReal

theorem frobSq_flatten (m : List (List ℝ)) : frobSq m = normSq m.flatten := by
  unfold frobSq normSq
  rw [List.foldl_flatten]

/-- `REDUCE_THRESHOLD = SQRT_PREC = 0.5_dp**26` (the value is pinned: the scripts hand `thrSq = 2^-52` to `Model.canReduce`) -/
theorem reduce_threshold_value : (SrcF90.REDUCE_THRESHOLD : ℝ) = q 1 67108864 ∧ SrcF90.REDUCE_THRESHOLD_rat = (1 : Rat) / 2 ^ 26 :=
  ⟨rfl, by decide +kernel⟩

theorem threshold_pos : (0 : ℝ) < SrcF90.REDUCE_THRESHOLD := by
  unfold SrcF90.REDUCE_THRESHOLD
  simp [q]

/-- the decision of `can_reduce` (norms, quotient) is the decision of `Model.canReduce` (squares) -/
theorem decision_eq (E N e nn thr : ℝ) (hE : 0 ≤ E) (hN : 0 < N) (hthr : 0 < thr) (he : e = Real.sqrt E) (hnn : nn = Real.sqrt N) :
    (!decide (0 < E) || decide (E < thr ^ 2 * N)) =
      decide ((if (if e = 0 then e else e / nn) < thr then (1 : Int) else 0) = 1) := by
  by_cases h0 : E = 0
  · have : e = 0 := by rw [he, h0, Real.sqrt_zero]
    simp [this, h0, hthr]
  · have hEpos : 0 < E := lt_of_le_of_ne hE (Ne.symm h0)
    have he0 : e ≠ 0 := by rw [he]; exact (Real.sqrt_pos.mpr hEpos).ne'
    have hn : 0 < nn := by rw [hnn]; exact Real.sqrt_pos.mpr hN
    have key : e / nn < thr ↔ E < thr ^ 2 * N := by
      rw [div_lt_iff₀ hn, he, Real.sqrt_lt' (mul_pos hthr hn), mul_pow, hnn, Real.sq_sqrt hN.le]
    rw [if_neg he0]
    by_cases hc : e / nn < thr
    · simp [hc, key.mp hc]
    · simp [hc, hEpos, mt key.mpr hc]

theorem can_reduce_model_aux (undef : ℝ) (nodes : List (List ℝ)) (n : Nat) (P : List (List ℝ)) (h2 : ¬ n < 2)
    (hnc : ncols nodes = n) (hP : projectionMat (K := ℝ) n = some P) (hN : 0 < frobSq nodes)
    (hgen : SrcF90.can_reduce undef norm2 nodes =
      if SrcF90.projection_error norm2 nodes (matMul nodes P) < SrcF90.REDUCE_THRESHOLD then 1 else 0) :
    canReduce (SrcF90.REDUCE_THRESHOLD ^ 2) nodes = .ok (decide (SrcF90.can_reduce undef norm2 nodes = 1)) := by
  rw [hgen]
  unfold canReduce
  simp only [hnc, if_neg h2, hP]
  congr 1
  unfold SrcF90.projection_error SrcF90.matSub
  rw [frobSq_flatten] at hN
  rw [frobSq_flatten, frobSq_flatten]
  exact decision_eq _ _ _ _ _ (normSq_nonneg _) hN threshold_pos rfl rfl
/-- `can_reduce` over the reals (`norm2 = Real.sqrt ∘ normSq`), 2 … 5 nodes, any dimension, nodes not all zero: `success = 1`
    exactly when `Model.canReduce` (squared formulation, `thrSq = REDUCE_THRESHOLD²`) answers `true`.  (For an all-zero net the
    source divides `0 / 0` only after the test `error == 0`, so it answers 1 as well; Lean's `x / 0 = 0` is kept out of the
    statement by the hypothesis.) -/
theorem can_reduce_model (undef : ℝ) (nodes : List (List ℝ)) (n : Nat) (hn : 2 ≤ n ∧ n ≤ 5) (hne : nodes ≠ [])
    (h : ∀ r ∈ nodes, r.length = n) (hN : 0 < frobSq nodes) :
    canReduce (SrcF90.REDUCE_THRESHOLD ^ 2) nodes = .ok (decide (SrcF90.can_reduce undef norm2 nodes = 1)) := by
  obtain ⟨h2, h5⟩ := hn
  have hnc := ncols_of nodes n hne h
  interval_cases n
  · exact can_reduce_model_aux undef nodes 2 _ (by omega) hnc projectionMat_two hN (can_reduce_two undef norm2 nodes hne h)
  · exact can_reduce_model_aux undef nodes 3 _ (by omega) hnc projectionMat_three hN (can_reduce_three undef norm2 nodes hne h)
  · exact can_reduce_model_aux undef nodes 4 _ (by omega) hnc projectionMat_four hN (can_reduce_four undef norm2 nodes hne h)
  · exact can_reduce_model_aux undef nodes 5 _ (by omega) hnc projectionMat_five hN (can_reduce_five undef norm2 nodes hne h)
end RealTie

end BezierVerif.SrcF90Triangle
