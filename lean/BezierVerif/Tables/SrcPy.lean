import BezierVerif.Generated.SrcPy
import BezierVerif.Generated.Data

/-!
# Tables/SrcPy — the translated Python source equals the hand-written model

`Generated/SrcPy.lean` is rewritten on every run by `harness/translate_py.py` from the CURRENT text
of `src/python/bezier/hazmat/{helpers,geometric_intersection,clipping,triangle_helpers}.py`
(namespace `BezierVerif.Src.Py`, one definition per function, statement by statement).  Every theorem
below states, for every number type `K` carrying the model's notation classes (no algebraic law is
used anywhere: the equalities hold by unfolding and case analysis on the `if`s), that the translated
function IS the model definition of `Model/Helpers.lean` / `Model/Solve2x2.lean` on all inputs.
Where the two differ in the *form* of the result (the code returns a tuple with a success flag and
`None`s, the model an `Option`; the code returns the integer of `BoxIntersectionType`, the model a
`BoxType`) the re-encoding is the explicit function `enc…` defined next to the theorem.

A semantic change of the source changes the generated term and breaks the theorem about it.
-/

set_option linter.unusedSectionVars false

namespace BezierVerif.SrcPy

open BezierVerif BezierVerif.Model

variable {K : Type} [Add K] [Sub K] [Mul K] [Div K] [Neg K] [OfNat K 0] [OfNat K 1] [NatCast K]
  [LT K] [DecidableLT K] [LE K] [DecidableLE K] [DecidableEq K]

/-- case analysis on every `if` / `match` of both sides; each leaf is closed syntactically or by
    contradicting hypotheses (no algebra: `K` carries notation only) -/
macro "src_cases" : tactic =>
  `(tactic| ((try dsimp only) <;>
      (try simp only [↓reduceIte, Src.Py.Rt.bind_ok, Src.Py.Rt.bind_error, Bool.not_true, Bool.not_false,
        Bool.false_eq_true, Bool.true_and, Bool.false_and, Bool.and_true, Bool.and_false, Bool.true_or,
        Bool.false_or, Bool.or_true, Bool.or_false]) <;>
      (repeat' (split <;> try simp only [*, ↓reduceIte, Src.Py.Rt.bind_ok, Src.Py.Rt.bind_error, Bool.not_true,
        Bool.not_false, Bool.false_eq_true, Bool.true_and, Bool.false_and, Bool.and_true, Bool.and_false,
        Bool.true_or, Bool.false_or, Bool.or_true, Bool.or_false])) <;>
      (first | rfl | contradiction | (simp_all; done))))

/-! ## `hazmat/helpers.py` -/

/-- `in_interval` -/
theorem in_interval_src :
    (Src.Py.in_interval : K → K → K → Bool) = fun value start end_ => Model.inInterval value start end_ := by rfl

/-- `cross_product` on 2-entry arrays is the model's `cross` … -/
theorem cross_product_src : (Src.Py.cross_product : Pt K → Pt K → K) = Model.cross := by rfl

/-- … and `Model.crossProduct` (on lists) is it on the first two entries -/
theorem cross_product_list_src (vec0 vec1 : List K) :
    Model.crossProduct vec0 vec1 = Src.Py.cross_product (ptOf vec0) (ptOf vec1) := by rfl

/-- `cross_product_compare` -/
theorem cross_product_compare_src :
    (Src.Py.cross_product_compare : Pt K → Pt K → Pt K → K) = Model.crossProductCompare := by rfl

/-- the code returns `(result, success)` with `(nan, False)` for failure; the model `Option` -/
def encWiggle : Option K → Option K × Bool
  | some x => (some x, true)
  | none => (none, false)

/-- `wiggle_interval` (the model takes `wiggle` first) -/
theorem wiggle_interval_src (value wiggle : K) :
    Src.Py.wiggle_interval value wiggle = encWiggle (Model.wiggleInterval wiggle value) := by
  unfold Src.Py.wiggle_interval Model.wiggleInterval
  src_cases

/-- the default `wiggle = 0.5 ** 44` is the Fortran parameter `WIGGLE`, `2^-44`, and admissible for
    `C16.wiggle_spec` (`0 < wiggle < 1/2`) -/
theorem wiggle_interval_default_src :
    Src.Py.wiggle_interval_default_wiggle = Generated.f90_helpers_WIGGLE ∧
      Src.Py.wiggle_interval_default_wiggle = 1 / 2 ^ 44 ∧
      0 < Src.Py.wiggle_interval_default_wiggle ∧ Src.Py.wiggle_interval_default_wiggle < 1 / 2 := by
  decide +kernel

/-- the default `eps = _EPS` of `vector_close` is the Fortran `VECTOR_CLOSE_EPS`, `2^-40` (`≥ 0`, as
    `vector_close_src` of Tables/SrcPyReal requires) -/
theorem vector_close_default_src :
    Src.Py.vector_close_default_eps = Generated.f90_helpers_VECTOR_CLOSE_EPS ∧
      Src.Py.vector_close_default_eps = 1 / 2 ^ 40 ∧ 0 ≤ Src.Py.vector_close_default_eps := by
  decide +kernel

/-- the code returns `(singular, x, y)` with `(True, None, None)`; the model `Option` -/
def encSolve : Option (K × K) → Bool × Option K × Option K
  | some (x, y) => (false, some x, some y)
  | none => (true, none, none)

/-- `solve2x2(lhs, rhs)` on `lhs = [[A, B], [C, D]]`, `rhs = [E, F]` -/
theorem solve2x2_src (A B C D E F : K) :
    Src.Py.solve2x2 [[A, B], [C, D]] (E, F) = .ok (encSolve (Model.solve2x2 A B C D E F)) := by
  unfold Src.Py.solve2x2 Model.solve2x2
  src_cases

/-- `bbox`: equal on every input (wrong number of rows: `badInput`; an empty row: `ValueError` of `np.min`) -/
theorem bbox_src : (Src.Py.bbox : List (List K) → _) = Model.bbox := by
  funext nodes
  unfold Src.Py.bbox Model.bbox
  rcases nodes with _ | ⟨r0, _ | ⟨r1, _ | ⟨r2, rest⟩⟩⟩
  · rfl
  · cases r0 <;> rfl
  · cases r0 <;> cases r1 <;> rfl
  · cases r0 <;> cases r1 <;> rfl

/-! ### `contains_nd` (`d × N` array, point with `d` entries) -/

theorem mapM_cons_rt {α : Type} (f : List K → Except Err α) (r : List K) (rows : List (List K)) :
    List.mapM f (r :: rows) =
      Src.Py.Rt.bind (f r) fun a => Src.Py.Rt.bind (List.mapM f rows) fun as => .ok (a :: as) := by
  rw [List.mapM_cons]
  cases f r <;> cases List.mapM f rows <;> rfl

/-- `np.min(axis=1)` and `np.max(axis=1)` fail together (on an empty row, `ValueError`) -/
theorem min_max_rows (rows : List (List K)) :
    (∃ mins maxs, List.mapM Src.Py.Rt.npMin rows = .ok mins ∧ List.mapM Src.Py.Rt.npMax rows = .ok maxs ∧
        mins.length = rows.length ∧ maxs.length = rows.length) ∨
    (List.mapM Src.Py.Rt.npMin rows = .error .valueError ∧ List.mapM Src.Py.Rt.npMax rows = .error .valueError) := by
  induction rows with
  | nil => exact Or.inl ⟨[], [], rfl, rfl, rfl, rfl⟩
  | cons r rows ih =>
    rw [mapM_cons_rt, mapM_cons_rt]
    cases r with
    | nil => exact Or.inr ⟨rfl, rfl⟩
    | cons x xs =>
      rcases ih with ⟨mins, maxs, h1, h2, h3, h4⟩ | ⟨h1, h2⟩
      · rw [h1, h2]
        exact Or.inl ⟨minOf x xs :: mins, maxOf x xs :: maxs, rfl, rfl, by simp [h3], by simp [h4]⟩
      · rw [h1, h2]
        exact Or.inr ⟨rfl, rfl⟩

/-- elementwise operation on arrays of equal length (no broadcasting involved) -/
theorem vzip_eq {β : Type} (f : K → K → β) (a b : List K) (h : a.length = b.length) :
    Src.Py.Rt.vzip f a b = .ok (List.zipWith f a b) := by
  unfold Src.Py.Rt.vzip
  simp only [h, ↓reduceIte]

/-- the code tests all lower bounds, then all upper bounds; the model interleaves them -/
theorem contains_nd_bools (a b c d : Bool) :
    (if (!(a && c)) = true then Except.ok false
      else if (!(b && d)) = true then Except.ok false else Except.ok true) =
    match (if (!c) = true then Except.ok false
           else if (!d) = true then Except.ok false else Except.ok true : Except Err Bool) with
    | Except.error e => Except.error e
    | Except.ok rest => Except.ok (a && b && rest) := by
  cases a <;> cases b <;> cases c <;> cases d <;> rfl

/-- `contains_nd`: equal whenever the point has as many entries as the array has rows (otherwise
    NumPy broadcasts a length-1 operand or raises `ValueError`; the model answers `badInput`) -/
theorem contains_nd_src (nodes : List (List K)) (point : List K) (h : nodes.length = point.length) :
    Src.Py.contains_nd nodes point = Model.Py.containsND nodes point := by
  induction nodes generalizing point with
  | nil =>
    cases point with
    | nil => rfl
    | cons p ps => simp at h
  | cons r rows ih =>
    cases point with
    | nil => simp at h
    | cons p ps =>
      have hl : rows.length = ps.length := by simpa using h
      have ih' := ih ps hl
      unfold Src.Py.contains_nd at ih' ⊢
      unfold Model.Py.containsND
      rw [mapM_cons_rt, mapM_cons_rt]
      cases r with
      | nil => rfl
      | cons x xs =>
        dsimp only
        rw [← ih']
        rcases min_max_rows rows with ⟨mins, maxs, h1, h2, h3, h4⟩ | ⟨h1, h2⟩
        · rw [h1, h2]
          simp only [Src.Py.Rt.npMin, Src.Py.Rt.npMax, Src.Py.Rt.bind_ok]
          rw [vzip_eq _ (minOf x xs :: mins) (p :: ps) (by simp [h3, hl]), vzip_eq _ mins ps (by simp [h3, hl]),
            vzip_eq _ (p :: ps) (maxOf x xs :: maxs) (by simp [h4, hl]), vzip_eq _ ps maxs (by simp [h4, hl])]
          simp only [Src.Py.Rt.bind_ok, List.zipWith_cons_cons, List.all_cons, id]
          exact contains_nd_bools _ _ _ _
        · rw [h1]
          rfl

/-! ## `hazmat/geometric_intersection.py` -/

/-- the code returns the integer of `BoxIntersectionType`, the model a `BoxType` -/
def encBox : Except Err BoxType → Except Err Nat
  | .ok b => .ok b.toNat
  | .error e => .error e

/-- `bbox_intersect` -/
theorem bbox_intersect_src (nodes1 nodes2 : List (List K)) :
    Src.Py.bbox_intersect nodes1 nodes2 = encBox (Model.bboxIntersect nodes1 nodes2) := by
  unfold Src.Py.bbox_intersect Model.bboxIntersect
  rw [bbox_src]
  cases Model.bbox nodes1 with
  | error e => rfl
  | ok b1 =>
    cases Model.bbox nodes2 with
    | error e => rfl
    | ok b2 =>
      obtain ⟨l1, r1, bo1, t1⟩ := b1
      obtain ⟨l2, r2, bo2, t2⟩ := b2
      unfold Model.boxRelation
      src_cases

/-- the code returns `(s, t, success)` with `(None, None, False)`; the model `Option` -/
def encSeg : Option (K × K) → Option K × Option K × Bool
  | some (s, t) => (some s, some t, true)
  | none => (none, none, false)

/-- `segment_intersection` -/
theorem segment_intersection_src (start0 end0 start1 end1 : Pt K) :
    Src.Py.segment_intersection start0 end0 start1 end1 =
      encSeg (Model.segmentIntersection start0 end0 start1 end1) := by
  unfold Src.Py.segment_intersection Model.segmentIntersection
  rw [cross_product_src]
  src_cases

/-- the code returns `(disjoint, parameters)` with `(True, None)`; the model `Option` of the four entries -/
def encPar : Option (K × K × K × K) → Bool × Option (List (List K))
  | some (startS, endS, startT, endT) => (false, some [[startS, endS], [startT, endT]])
  | none => (true, none)

/-- `parallel_lines_parameters`: the collinearity test, the two projections and the twelve leaves
    (`Model.parallelParams`) -/
theorem parallel_lines_parameters_src (start0 end0 start1 end1 : Pt K) :
    Src.Py.parallel_lines_parameters start0 end0 start1 end1 =
      let delta0 := psub end0 start0
      if cross start0 delta0 ≠ cross start1 delta0 then (true, none)
      else encPar (parallelParams (dot2 (psub start1 start0) delta0 / dot2 delta0 delta0)
                                  (dot2 (psub end1 start0) delta0 / dot2 delta0 delta0)) := by
  unfold Src.Py.parallel_lines_parameters Model.parallelParams
  rw [cross_product_src]
  src_cases

/-- the one input class on which the code leaves the exact semantics: collinear segments with a
    degenerate first segment divide `0/0` (NaN parameters, `disjoint = False`); the model returns
    `Err.badInput` there -/
def Degenerate (start0 end0 start1 : Pt K) : Prop :=
  cross start0 (psub end0 start0) = cross start1 (psub end0 start0) ∧
    dot2 (psub end0 start0) (psub end0 start0) = 0

instance (start0 end0 start1 : Pt K) : Decidable (Degenerate start0 end0 start1) := by
  unfold Degenerate; infer_instance

def encParE : Except Err (Option (K × K × K × K)) → Except Err (Bool × Option (List (List K)))
  | .ok r => .ok (encPar r)
  | .error e => .error e

/-- `parallel_lines_parameters` against `Model.parallelLinesParameters`: equal except in the NaN case -/
theorem parallel_lines_parameters_model (start0 end0 start1 end1 : Pt K) :
    encParE (Model.parallelLinesParameters start0 end0 start1 end1) =
      if Degenerate start0 end0 start1 then .error .badInput
      else .ok (Src.Py.parallel_lines_parameters start0 end0 start1 end1) := by
  rw [parallel_lines_parameters_src]
  unfold Model.parallelLinesParameters Degenerate
  src_cases

/-- `line_line_collide` on the `2 × 2` arrays with columns `a0 a1` resp. `b0 b1`: equal except in the NaN case -/
theorem line_line_collide_src (a0 a1 b0 b1 : Pt K) :
    Model.lineLineCollide a0 a1 b0 b1 =
      if cross (psub a1 a0) (psub b1 b0) = 0 ∧ Degenerate a0 a1 b0 then .error .badInput
      else Src.Py.line_line_collide [[a0.1, a1.1], [a0.2, a1.2]] [[b0.1, b1.1], [b0.2, b1.2]] := by
  unfold Src.Py.line_line_collide Model.lineLineCollide
  dsimp only
  rw [segment_intersection_src]
  have hpar := parallel_lines_parameters_model a0 a1 b0 b1
  revert hpar
  unfold Model.segmentIntersection
  dsimp only
  by_cases hc : cross (psub a1 a0) (psub b1 b0) = 0
  · simp only [hc, ↓reduceIte, true_and, encSeg]
    cases Model.parallelLinesParameters a0 a1 b0 b1 with
    | error e =>
      intro hpar
      by_cases hd : Degenerate a0 a1 b0 <;> simp_all [encParE]
    | ok r =>
      intro hpar
      by_cases hd : Degenerate a0 a1 b0
      · simp_all [encParE]
      · simp only [hd, ↓reduceIte, encParE] at hpar
        injection hpar with hpar
        rw [← hpar]
        cases r <;> simp [encPar, hd]
  · intro _
    simp only [hc, ↓reduceIte, false_and, encSeg, Src.Py.Rt.unwrap, in_interval_src]
    src_cases

/-- `bbox_line_intersect` -/
theorem bbox_line_intersect_src (nodes : List (List K)) (lineStart lineEnd : Pt K) :
    Src.Py.bbox_line_intersect nodes lineStart lineEnd =
      encBox (Model.bboxLineIntersect nodes lineStart lineEnd) := by
  unfold Src.Py.bbox_line_intersect Model.bboxLineIntersect
  rw [bbox_src]
  cases Model.bbox nodes with
  | error e => rfl
  | ok b =>
    obtain ⟨left, right, bottom, top⟩ := b
    simp only [segment_intersection_src, in_interval_src, Src.Py.Rt.bind_ok]
    dsimp +instances only
    cases Model.segmentIntersection (left, bottom) (right, bottom) lineStart lineEnd <;>
    cases Model.segmentIntersection (right, bottom) (right, top) lineStart lineEnd <;>
    cases Model.segmentIntersection (right, top) (left, top) lineStart lineEnd <;>
    simp only [encSeg, Src.Py.Rt.unwrap] <;>
    src_cases

/-! ## `hazmat/clipping.py` -/

/-- `row[-1]` of a mapped non-empty list -/
theorem idxLast_map (f : Pt K → K) (first : Pt K) (rest : List (Pt K)) :
    Src.Py.Rt.idxLast ((first :: rest).map f) = .ok (f ((first :: rest).getLastD first)) := by
  unfold Src.Py.Rt.idxLast
  rw [List.getLast?_map, List.getLast?_cons, List.getLastD_cons, List.getLastD_eq_getLast?]
  rfl

/-- `compute_implicit_line` on the `2 × N` array with columns `pts` (`N = 0`: `IndexError` / `badInput`) -/
theorem compute_implicit_line_src (pts : List (Pt K)) :
    Src.Py.compute_implicit_line (rowsOf pts) = Model.computeImplicitLine pts := by
  unfold Src.Py.compute_implicit_line Model.computeImplicitLine rowsOf
  cases pts with
  | nil => rfl
  | cons first rest =>
    dsimp only
    rw [idxLast_map, idxLast_map]
    rfl

/-- the code returns the (possibly re-bound) pair; a re-bound entry is the maybe-`None` `s` -/
def encUpd : Except Err (K × K) → Except Err (Option K × Option K)
  | .ok (a, b) => .ok (some a, some b)
  | .error e => .error e

/-- `_update_parameters` (parallel segments: `NotImplementedError`) -/
theorem update_parameters_src (sMin sMax : K) (start0 end0 start1 end1 : Pt K) :
    Src.Py._update_parameters sMin sMax start0 end0 start1 end1 =
      encUpd (Model.updateParameters sMin sMax start0 end0 start1 end1) := by
  unfold Src.Py._update_parameters Model.updateParameters
  simp only [segment_intersection_src, in_interval_src]
  cases Model.segmentIntersection start0 end0 start1 end1 <;>
  simp only [encSeg, Src.Py.Rt.unwrap] <;>
  src_cases

/-! ## `hazmat/triangle_helpers.py` -/

/-- `two_by_two_det` -/
theorem two_by_two_det_src (a b c d : K) :
    Src.Py.two_by_two_det [[a, b], [c, d]] = .ok (a * d - b * c) := by rfl

end BezierVerif.SrcPy
