import BezierVerif.Generated.SrcPy
import BezierVerif.Tables.SrcPyKernels
import BezierVerif.Tables.SrcPyNewton
import BezierVerif.Model.AlgebraicAssembly
import BezierVerif.Model.AlgebraicValueCheck
import BezierVerif.Model.Algebraic
import Mathlib.Algebra.Field.Basic
import Mathlib.Order.Defs.LinearOrder

/-!
# Tables/SrcPyAlgebraic — translated routines of `hazmat/algebraic_intersection.py` equal the model (`Model/Algebraic*.lean`)

Phase 4 of the source-to-Lean tie (`harness/translate_py.py` → `Generated/SrcPy.lean`, namespace `BezierVerif.Src.Py`).
External numerics are explicit parameters of the generated definitions (`np_linalg_det`, `polyfit`, `sqrt`, `np_linalg_eigvals`,
`polyroots`, `dgecon`, and the untranslated `intersect_curves`); the theorems instantiate them with what the model uses
(`Alg.det 6` — the mathematical determinant —, `ext.fit`, `ext.sqrt` / `Real.sqrt`, `ext.eigvals`, `ext.polyroots`) or keep
them arbitrary.

| source function (hazmat/algebraic_intersection.py) | theorem(s)                           | model definition (`Model.Alg.…`)        | domain |
|----------------------------------------------------|--------------------------------------|------------------------------------------|--------|
| `_evaluate3`                                       | `evaluate3_matrix`, `evaluate3_src`  | `sylvester3`, `evaluate3`                | any `K`, any `det`; two rows of 4 entries |
| `evaluate`                                         | `evaluate_src`                       | `evaluate` (`evaluate1/2/3`, refusals)   | any `K`; two rows of equal length (any length: all refusals) |
| `eval_intersection_polynomial`                     | `eval_intersection_polynomial_src`   | `evalIntersectionPolynomial 55`          | any field; `nodes1`, `nodes2` 2-row arrays, `nodes2` with ≥ 1 column |
| `_to_power_basis11/12/13/_degree4`                 | `to_power_basis11_eq` … `to_power_basis_degree4_eq` | `pbApply … .pb11/.pb12/.pb13/.deg4` (`pbNodes*`, `pbCombine*`) | any `K`, any sampled function |
| `_to_power_basis23/_degree8/33`                    | `to_power_basis23_eq`, `to_power_basis_degree8_eq`, `to_power_basis33_eq` | `pbApply … .pb23/.deg8/.pb33` | any `K`; `par.cheb* =` the translated module constant |
| `_CHEB7`, `_CHEB9`, `_CHEB10`                      | `cheb7_pinned`, `cheb9_pinned`, `cheb10_pinned` | the exact binary64 values (hand-copied once) | `ℚ` |
| `to_power_basis`                                   | `to_power_basis_eq`, `to_power_basis_src` | `toPowerBasis` (`pbKind`: dispatch and refusals) | any `K` given the sampled function resp. any field; 2-row arrays of any widths |
| `polynomial_norm`                                  | `polynomial_norm_src`                | `sqrt (polynomialNormSq ·)`              | any `K`, any `sqrt`, all inputs |
| `normalize_polynomial`                             | `normalize_polynomial_src`, `normalize_polynomial_default` | `normalizePolynomial (thr²) …` | `ℝ`, `Real.sqrt`, `0 < threshold` (the model compares squares) |
| `poly_to_power_basis`                              | `poly_to_power_basis_src`            | `polyToPowerBasis`                       | any `K`, all inputs |
| `_get_sigma_coeffs`                                | `get_sigma_coeffs_src` (`search_loop`, `sigma_loop`) | `getSigmaCoeffs` (`effectiveDegree`, `sigmaScale`) | any `K`, all inputs |
| `bernstein_companion`                              | `bernstein_companion_src` (`companion_build`) | `bernsteinCompanion` (`companionOfSigma`) | any `K`, all inputs |
| `lu_companion`                                     | `lu_companion_src`                   | `luCompanion` (`luLoop`, `luStep`, `luMatrix`) | any `K`, all inputs |
| `bezier_roots`                                     | `bezier_roots_src`                   | `bezierRoots` (`bezierRootsFilter`, `cdiv`) | `ℝ`, `Real.sqrt`; `par.sigmaThrSq = (2^-20)²` |
| `roots_in_unit_interval`                           | `roots_in_unit_interval_src`         | `rootsInUnitInterval` (`unitIntervalFilter`) | any `K`; the three module constants as read from the source |
| `_strip_leading_zeros`                             | `strip_leading_zeros_src`, `strip_leading_zeros_default` | `stripLeadingZeros` (`stripRev`) | any `K`, all inputs |
| `_reciprocal_condition_number`                     | `reciprocal_condition_number_src`    | `reciprocalConditionNumber` (NEW: `Model/AlgebraicValueCheck.lean`) | any `K`, any `dgecon` |
| `bezier_value_check`                               | `bezier_value_check_src`             | `bezierValueCheck` (NEW)                 | any `K`, all inputs |
| `_resolve_and_add`                                 | `resolve_and_add_src`                | `resolveAndAdd 55 (2^-44)` (`Model/AlgebraicAssembly.lean`) | any field; planar curves with ≥ 2 nodes |
| `all_intersections`                                | `all_intersections_src`, `all_intersections_model` | `bboxDisjoint` gate, `algAllIntersections` | any `K`; 2-row arrays with ≥ 1 column; `intersect_curves` a parameter |

| `locate_point`                                     | `locate_point_src` (`locate_tail`)   | `locatePoint`                            | `ℝ`, `Real.sqrt`; 2-row array; `full_reduce`, `polyval` parameters assumed to be the model's; module constants as read |
| `_check_non_simple`                                | `check_non_simple_src`               | `checkNonSimple` (`polyAtMatrix`)        | any field, all inputs; `polyder`, `polycompanion` parameters assumed to be the model's `polyder`, `polyCompanionT`ᵀ |

Not translated (see the report of this phase): `intersect_curves` (the running lists may hold NaN = `Option`, which are then
stored into a float array; two list variables are exchanged), `_to_power_basis*`'s callers outside this file.
-/

set_option linter.unusedSectionVars false
set_option linter.unusedVariables false

namespace BezierVerif.SrcPyAlgebraic

open BezierVerif BezierVerif.Model BezierVerif.Model.Alg
open BezierVerif.Src.Py (Rt.bind Rt.bind_ok Rt.bind_error)

variable {K : Type} [Add K] [Sub K] [Mul K] [Div K] [Neg K] [OfNat K 0] [OfNat K 1] [NatCast K]
  [LT K] [DecidableLT K] [LE K] [DecidableLE K] [DecidableEq K]

/-! ## small list facts -/

theorem len2 {α : Type} (l : List α) (h : l.length = 2) : ∃ a b, l = [a, b] := by
  rcases l with _ | ⟨a, _ | ⟨b, _ | ⟨c, l⟩⟩⟩ <;> simp at h
  exact ⟨a, b, rfl⟩

theorem len3 {α : Type} (l : List α) (h : l.length = 3) : ∃ a b c, l = [a, b, c] := by
  rcases l with _ | ⟨a, _ | ⟨b, _ | ⟨c, _ | ⟨d, l⟩⟩⟩⟩ <;> simp at h
  exact ⟨a, b, c, rfl⟩

theorem len4 {α : Type} (l : List α) (h : l.length = 4) : ∃ a b c d, l = [a, b, c, d] := by
  rcases l with _ | ⟨a, _ | ⟨b, _ | ⟨c, _ | ⟨d, _ | ⟨e, l⟩⟩⟩⟩⟩ <;> simp at h
  exact ⟨a, b, c, d, rfl⟩

/-! ## `_evaluate3`, `evaluate` -/

/-- the 6 × 6 array that `_evaluate3` fills block by block IS the model's `sylvester3` (any `det`) -/
theorem evaluate3_matrix (det : List (List K) → K) (xs ys : List K) (hx : xs.length = 4) (hy : ys.length = 4) (x y : K) :
    Src.Py._evaluate3 det [xs, ys] x y = .ok (det (sylvester3 xs ys x y)) := by
  obtain ⟨a0, a1, a2, a3, rfl⟩ := len4 xs hx
  obtain ⟨b0, b1, b2, b3, rfl⟩ := len4 ys hy
  rfl

/-- `_evaluate3` with the mathematical determinant is the model's `evaluate3` -/
theorem evaluate3_src (xs ys : List K) (hx : xs.length = 4) (hy : ys.length = 4) (x y : K) :
    Src.Py._evaluate3 (Alg.det 6) [xs, ys] x y = .ok (evaluate3 xs ys x y) :=
  evaluate3_matrix _ xs ys hx hy x y

/-- `evaluate` on a 2-row array (rows of equal length, ANY length): the three closed forms and the two refusals -/
theorem evaluate_src (xs ys : List K) (h : xs.length = ys.length) (x y : K) :
    Src.Py.evaluate (Alg.det 6) [xs, ys] x y = Alg.evaluate [xs, ys] x y := by
  have hsh : Src.Py.Rt.shape2 xs ys = .ok xs.length := by simp [Src.Py.Rt.shape2, h]
  unfold Src.Py.evaluate
  simp only [hsh, Rt.bind_ok]
  by_cases h1 : xs.length = 1
  · simp [h1, Alg.evaluate, ncols]
  by_cases h2 : xs.length = 2
  · obtain ⟨a0, a1, rfl⟩ := len2 xs h2
    obtain ⟨b0, b1, rfl⟩ := len2 ys (h ▸ h2)
    rfl
  by_cases h3 : xs.length = 3
  · obtain ⟨a0, a1, a2, rfl⟩ := len3 xs h3
    obtain ⟨b0, b1, b2, rfl⟩ := len3 ys (h ▸ h3)
    rfl
  by_cases h4 : xs.length = 4
  · rw [if_neg h1, if_neg h2, if_neg h3, if_pos h4, evaluate3_src xs ys h4 (h ▸ h4)]
    simp [Alg.evaluate, ncols, h4]
  · rw [if_neg h1, if_neg h2, if_neg h3, if_neg h4]
    unfold Alg.evaluate
    simp only [ncols, List.headD_cons]

/-! ## the hand-inverted Vandermonde helpers and the `polyfit` helpers, for ANY sampled function -/

theorem mapE_nil' {α β : Type} (f : α → Except Err β) : mapE f [] = .ok [] := rfl

theorem mapE_cons' {α β : Type} (f : α → Except Err β) (a : α) (l : List α) :
    mapE f (a :: l) = Rt.bind (f a) fun b => Rt.bind (mapE f l) fun bs => .ok (b :: bs) := by
  rw [mapE]
  cases f a with
  | error e => rfl
  | ok b => cases mapE f l <;> rfl

theorem bind_assoc' {α β γ : Type} (m : Except Err α) (g : α → Except Err β) (h : β → Except Err γ) :
    Rt.bind (Rt.bind m g) h = Rt.bind m fun a => Rt.bind (g a) h := by
  cases m <;> rfl

/-- every arm of `pbApply` is "sample in order, then combine" -/
theorem pbApply_bind (ext : Externals K) (par : Params K) (f : K → Except Err K) (k : PBKind) :
    pbApply ext par f k = match k with
      | .pb11 => Rt.bind (mapE f pbNodes11) fun vals => .ok (pbCombine11 vals)
      | .pb12 => Rt.bind (mapE f pbNodes12) fun vals => .ok (pbCombine12 vals)
      | .pb13 => Rt.bind (mapE f pbNodes13) fun vals => .ok (pbCombine13 vals)
      | .deg4 => Rt.bind (mapE f pbNodes4) fun vals => .ok (pbCombine4 vals)
      | .pb23 => Rt.bind (mapE f par.cheb7) fun vals => .ok (ext.fit par.cheb7 vals 6)
      | .deg8 => Rt.bind (mapE f par.cheb9) fun vals => .ok (ext.fit par.cheb9 vals 8)
      | .pb33 => Rt.bind (mapE f par.cheb10) fun vals => .ok (ext.fit par.cheb10 vals 9) := by
  cases k <;> simp only [pbApply]
  · cases mapE f pbNodes11 <;> rfl
  · cases mapE f pbNodes12 <;> rfl
  · cases mapE f pbNodes13 <;> rfl
  · cases mapE f pbNodes4 <;> rfl
  · cases mapE f par.cheb7 <;> rfl
  · cases mapE f par.cheb9 <;> rfl
  · cases mapE f par.cheb10 <;> rfl

section helpers
variable (det : List (List K) → K) (ext : Externals K) (par : Params K) (n1 n2 : List (List K)) (f : K → Except Err K)
  (hf : ∀ t, Src.Py.eval_intersection_polynomial det n1 n2 t = f t)
include hf

/-- `_to_power_basis11` (as `to_power_basis` uses it: the 2-entry result as a 1-D array) -/
theorem to_power_basis11_eq :
    (Rt.bind (Src.Py._to_power_basis11 det n1 n2) fun p => .ok [p.1, p.2]) = pbApply ext par f .pb11 := by
  rw [pbApply_bind]
  simp only [Src.Py._to_power_basis11, hf, pbNodes11, mapE_cons', mapE_nil', bind_assoc', Rt.bind_ok, pbCombine11]

theorem to_power_basis12_eq : Src.Py._to_power_basis12 det n1 n2 = pbApply ext par f .pb12 := by
  rw [pbApply_bind]
  simp only [Src.Py._to_power_basis12, hf, pbNodes12, mapE_cons', mapE_nil', bind_assoc', Rt.bind_ok, pbCombine12, Alg.nat]

theorem to_power_basis13_eq : Src.Py._to_power_basis13 det n1 n2 = pbApply ext par f .pb13 := by
  rw [pbApply_bind]
  simp only [Src.Py._to_power_basis13, hf, pbNodes13, mapE_cons', mapE_nil', bind_assoc', Rt.bind_ok, pbCombine13, Alg.nat]

theorem to_power_basis_degree4_eq : Src.Py._to_power_basis_degree4 det n1 n2 = pbApply ext par f .deg4 := by
  rw [pbApply_bind]
  simp only [Src.Py._to_power_basis_degree4, hf, pbNodes4, mapE_cons', mapE_nil', bind_assoc', Rt.bind_ok, pbCombine4, Alg.nat]

theorem to_power_basis23_eq (hc : par.cheb7 = Src.Py.algebraic_intersection.CHEB7) :
    Src.Py._to_power_basis23 det ext.fit n1 n2 = pbApply ext par f .pb23 := by
  rw [pbApply_bind]
  simp only [hc, Src.Py._to_power_basis23, hf, Src.Py.algebraic_intersection.CHEB7, mapE_cons', mapE_nil', bind_assoc',
    Rt.bind_ok]

theorem to_power_basis_degree8_eq (hc : par.cheb9 = Src.Py.algebraic_intersection.CHEB9) :
    Src.Py._to_power_basis_degree8 det ext.fit n1 n2 = pbApply ext par f .deg8 := by
  rw [pbApply_bind]
  simp only [hc, Src.Py._to_power_basis_degree8, hf, Src.Py.algebraic_intersection.CHEB9, mapE_cons', mapE_nil', bind_assoc',
    Rt.bind_ok]

theorem to_power_basis33_eq (hc : par.cheb10 = Src.Py.algebraic_intersection.CHEB10) :
    Src.Py._to_power_basis33 det ext.fit n1 n2 = pbApply ext par f .pb33 := by
  rw [pbApply_bind]
  simp only [hc, Src.Py._to_power_basis33, hf, Src.Py.algebraic_intersection.CHEB10, mapE_cons', mapE_nil', bind_assoc',
    Rt.bind_ok]

end helpers

/-! ## `to_power_basis`: the dispatch on the pair of node counts and its refusals -/

theorem pbKind_ite (a b : Nat) : pbKind a b =
    if a = 2 then (if b = 2 then some .pb11 else if b = 3 then some .pb12 else if b = 4 then some .pb13
      else if b = 5 then some .deg4 else none)
    else if a = 3 then (if b = 3 then some .deg4 else if b = 4 then some .pb23 else if b = 5 then some .deg8 else none)
    else if a = 4 then (if b = 4 then some .pb33 else none)
    else none := by
  unfold pbKind
  split <;> simp_all <;> omega

/-- `to_power_basis` on 2-row arrays of ANY widths, for any `det`, given that the translated sampling routine is the
    function `f` the model samples: the `if / elif` chain is `pbKind`, every helper the corresponding arm of `pbApply`,
    every other pair of widths is refused with `NotImplementedError` -/
theorem to_power_basis_eq (det : List (List K) → K) (ext : Externals K) (par : Params K) (xs1 ys1 xs2 ys2 : List K)
    (f : K → Except Err K) (h1 : xs1.length = ys1.length) (h2 : xs2.length = ys2.length)
    (hf : ∀ t, Src.Py.eval_intersection_polynomial det [xs1, ys1] [xs2, ys2] t = f t)
    (hc7 : par.cheb7 = Src.Py.algebraic_intersection.CHEB7) (hc9 : par.cheb9 = Src.Py.algebraic_intersection.CHEB9)
    (hc10 : par.cheb10 = Src.Py.algebraic_intersection.CHEB10) :
    Src.Py.to_power_basis det ext.fit [xs1, ys1] [xs2, ys2] =
      match pbKind xs1.length xs2.length with
      | none => .error .notImplemented
      | some k => pbApply ext par f k := by
  have hsh1 : Src.Py.Rt.shape2 xs1 ys1 = .ok xs1.length := by simp [Src.Py.Rt.shape2, h1]
  have hsh2 : Src.Py.Rt.shape [xs2, ys2] = .ok (2, xs2.length) := by simp [Src.Py.Rt.shape, h2]
  unfold Src.Py.to_power_basis
  simp only [hsh1, hsh2, Rt.bind_ok, pbKind_ite]
  rw [to_power_basis11_eq det ext par _ _ f hf, to_power_basis12_eq det ext par _ _ f hf,
    to_power_basis13_eq det ext par _ _ f hf, to_power_basis_degree4_eq det ext par _ _ f hf,
    to_power_basis23_eq det ext par _ _ f hf hc7, to_power_basis_degree8_eq det ext par _ _ f hf hc9,
    to_power_basis33_eq det ext par _ _ f hf hc10]
  split_ifs <;> rfl

/-! ## `poly_to_power_basis` -/

/-- `poly_to_power_basis`: the four closed forms and the refusal (also of the empty array), all inputs -/
theorem poly_to_power_basis_src (c : List K) : Src.Py.poly_to_power_basis c = polyToPowerBasis c := by
  rcases c with _ | ⟨a, _ | ⟨b, _ | ⟨c, _ | ⟨d, _ | ⟨e, l⟩⟩⟩⟩⟩
  · rfl
  · rfl
  · rfl
  · rfl
  · rfl
  · simp [Src.Py.poly_to_power_basis, polyToPowerBasis]

/-! ## `polynomial_norm` -/

theorem idx_ok (l : List K) (i : Nat) (h : i < l.length) : Src.Py.Rt.idx l i = .ok (seq l i) := by
  simp [Src.Py.Rt.idx, seq, List.getD_eq_getElem?_getD, List.getElem?_eq_getElem h]

/-- a loop whose body never raises on the iterated values is the plain left fold -/
theorem foldM_ok {α σ : Type} (xs : List α) (F : σ → α → Except Err σ) (G : σ → α → σ)
    (h : ∀ s, ∀ x ∈ xs, F s x = .ok (G s x)) (init : σ) : Src.Py.Rt.foldM xs init F = .ok (xs.foldl G init) := by
  induction xs generalizing init with
  | nil => rfl
  | cons x xs ih =>
    rw [Src.Py.Rt.foldM, h init x (List.mem_cons_self ..), Rt.bind_ok, ih (fun s y hy => h s y (List.mem_cons_of_mem _ hy))]
    rfl

/-- `polynomial_norm`: the two nested loops with the running `result` are the model's `polynomialNormSq`, whose square
    root (any `sqrt`) is returned; all inputs, every `K` -/
theorem polynomial_norm_src (sqrt : K → K) (coeffs : List K) :
    Src.Py.polynomial_norm sqrt coeffs = .ok (sqrt (polynomialNormSq coeffs)) := by
  unfold Src.Py.polynomial_norm polynomialNormSq
  dsimp only
  rw [foldM_ok (List.range coeffs.length) _
    (fun result i =>
      (List.range (coeffs.length - (i + 1))).foldl (fun r dj =>
        r + (Alg.nat 2 * seq coeffs i * seq coeffs (i + 1 + dj)) / (Alg.nat (i + (i + 1 + dj)) + 1))
        (result + (seq coeffs i * seq coeffs i) / (Alg.nat 2 * Alg.nat i + 1)))]
  · rfl
  · intro s i hi
    have hi' : i < coeffs.length := List.mem_range.mp hi
    rw [idx_ok coeffs i hi', Rt.bind_ok]
    rw [foldM_ok (List.range' (i + 1) (coeffs.length - (i + 1))) _
      (fun r j => r + (Alg.nat 2 * seq coeffs i * seq coeffs j) / (Alg.nat (i + j) + 1))]
    · rw [Rt.bind_ok, List.range'_eq_map_range, List.foldl_map]
      rfl
    · intro r j hj
      have hj' : j < coeffs.length := by
        have := List.mem_range'_1.mp hj
        omega
      rw [idx_ok coeffs j hj', Rt.bind_ok]
      rfl

/-! ## over a field: the sampling routine (through `evaluate_multi`), hence `to_power_basis` itself -/

section field
variable {F : Type} [Field F] [LinearOrder F]

/-- `eval_intersection_polynomial`: the point of the second curve (`evaluate_multi` at ONE parameter value = the model's
    `evalPoint 55`) is unpacked and handed to `evaluate` of the first -/
theorem eval_intersection_polynomial_src (xs1 ys1 xs2 ys2 : List F) (h1 : xs1.length = ys1.length)
    (h2 : xs2.length = ys2.length) (hn : 1 ≤ xs2.length) (t : F) :
    Src.Py.eval_intersection_polynomial (Alg.det 6) [xs1, ys1] [xs2, ys2] t =
      evalIntersectionPolynomial 55 [xs1, ys1] [xs2, ys2] t := by
  unfold Src.Py.eval_intersection_polynomial
  rw [SrcPyKernels.evaluate_multi_src [xs2, ys2] xs2.length hn
    (by intro r hr; simp only [List.mem_cons, List.not_mem_nil, or_false] at hr; rcases hr with rfl | rfl
        · rfl
        · exact h2.symm) t]
  simp only [Rt.bind_ok, evalPoint, List.map, Src.Py.Rt.unpack2]
  exact evaluate_src xs1 ys1 h1 _ _

/-- `to_power_basis` on 2-row arrays of ANY widths is the model's `toPowerBasis` (the external `polyfit` is `ext.fit`,
    `np.linalg.det` the mathematical determinant, the module constants are the parameters of the model) -/
theorem to_power_basis_src (ext : Externals F) (par : Params F) (xs1 ys1 xs2 ys2 : List F)
    (h1 : xs1.length = ys1.length) (h2 : xs2.length = ys2.length) (hv : par.vsThr = 55)
    (hc7 : par.cheb7 = Src.Py.algebraic_intersection.CHEB7) (hc9 : par.cheb9 = Src.Py.algebraic_intersection.CHEB9)
    (hc10 : par.cheb10 = Src.Py.algebraic_intersection.CHEB10) :
    Src.Py.to_power_basis (Alg.det 6) ext.fit [xs1, ys1] [xs2, ys2] = toPowerBasis ext par [xs1, ys1] [xs2, ys2] := by
  by_cases hn : 1 ≤ xs2.length
  · rw [to_power_basis_eq (Alg.det 6) ext par xs1 ys1 xs2 ys2 _ h1 h2
      (fun t => eval_intersection_polynomial_src xs1 ys1 xs2 ys2 h1 h2 hn t) hc7 hc9 hc10]
    unfold toPowerBasis
    rw [hv]
    rfl
  · have h0 : xs2.length = 0 := by omega
    rw [to_power_basis_eq (Alg.det 6) ext par xs1 ys1 xs2 ys2 _ h1 h2 (fun t => rfl) hc7 hc9 hc10]
    unfold toPowerBasis
    simp [ncols, h0, pbKind_ite]

end field

/-! ## `normalize_polynomial` over the reals (`np.sqrt = Real.sqrt`; the model compares squares) -/

/-- the default threshold of `normalize_polynomial` is `_L2_THRESHOLD = 2^-40` -/
theorem normalize_polynomial_default : Src.Py.normalize_polynomial_default_threshold = 1 / 2 ^ 40 := by
  norm_num [Src.Py.normalize_polynomial_default_threshold]

/-- `normalize_polynomial` for a positive threshold: zeros when the norm is below it, else the division by the norm;
    `l2_norm < threshold` is the model's comparison of squares -/
theorem normalize_polynomial_src (coeffs : List ℝ) (thr : ℝ) (hthr : 0 < thr) :
    Src.Py.normalize_polynomial Real.sqrt coeffs thr =
      .ok (normalizePolynomial (thr ^ 2) (Real.sqrt (polynomialNormSq coeffs)) coeffs) := by
  unfold Src.Py.normalize_polynomial normalizePolynomial
  rw [polynomial_norm_src, Rt.bind_ok]
  by_cases h : Real.sqrt (polynomialNormSq coeffs) < thr
  · rw [if_pos h, if_pos ((Real.sqrt_lt' hthr).mp h), List.map_const']
  · rw [if_neg h, if_neg (fun h' => h ((Real.sqrt_lt' hthr).mpr h'))]
    rfl

/-! ## `_get_sigma_coeffs` -/

theorem ofInt_natCast (m : Nat) : (Src.Py.Rt.ofInt ((m : Nat) : Int) : K) = ((m : Nat) : K) := by
  unfold Src.Py.Rt.ofInt
  rw [if_neg (by omega)]
  simp

theorem effectiveDegree_lt (c : Nat → K) : ∀ n e, effectiveDegree c n = some e → e < n := by
  intro n
  induction n with
  | zero => intro e h; simp [effectiveDegree] at h
  | succ n ih =>
    intro e h
    unfold effectiveDegree at h
    split at h
    · cases h; omega
    · have := ih e h; omega

/-- the search `for index in range(degree, -1, -1): if coeffs[index] != 0.0: effective_degree = index; break` is the
    model's `effectiveDegree` -/
theorem search_loop (coeffs : List K) (step : Option Nat → Nat → Except Err (Option Nat ⊕ Option Nat))
    (hstep : ∀ ed i, step ed i = Rt.bind (Src.Py.Rt.idx coeffs i) fun t1 =>
      if t1 ≠ (0 : K) then .ok (Sum.inl (some i)) else .ok (Sum.inr ed)) :
    ∀ n, n ≤ coeffs.length →
      Src.Py.Rt.forBM (List.reverse (List.range n)) (none : Option Nat) step = .ok (effectiveDegree (seq coeffs) n) := by
  intro n
  induction n with
  | zero => intro _; rfl
  | succ n ih =>
    intro hn
    rw [List.range_succ, List.reverse_append, List.reverse_singleton, List.singleton_append]
    unfold Src.Py.Rt.forBM
    rw [hstep, idx_ok coeffs n (by omega)]
    simp only [Rt.bind_ok]
    unfold effectiveDegree
    by_cases h : seq coeffs n ≠ 0
    · rw [if_pos h, if_pos h]; rfl
    · rw [if_neg h, if_neg h]
      simp only [Rt.bind_ok]
      exact ih (by omega)

theorem sigmaScale_congr (d : Nat) (v w : Nat → K) :
    ∀ k a b, (∀ i, i < k → v i = w i) → sigmaScale d v k a b = sigmaScale d w k a b := by
  intro k
  induction k with
  | zero => intros; rfl
  | succ k ih =>
    intro a b h
    simp only [sigmaScale]
    rw [ih _ _ (fun i hi => h i (by omega)), h k (by omega)]

theorem updIdx_ok (f : K → K) (v : List K) (i : Nat) (h : i < v.length) :
    Src.Py.Rt.updIdx f v i = .ok (v.set i (f (seq v i))) := by
  simp [Src.Py.Rt.updIdx, seq, List.getD_eq_getElem?_getD, List.getElem?_eq_getElem h]

theorem drop_set_self {α : Type} (l : List α) (k : Nat) (x : α) (h : k < l.length) :
    (l.set k x).drop k = x :: l.drop (k + 1) := by
  induction l generalizing k with
  | nil => simp at h
  | cons a l ih =>
    cases k with
    | zero => rfl
    | succ k =>
      simp only [List.set_cons_succ, List.drop_succ_cons]
      exact ih k (by simpa using h)

theorem seq_set_self (l : List K) (k : Nat) (x : K) (h : k < l.length) : seq (l.set k x) k = x := by
  simp [seq, List.getD_eq_getElem?_getD, h]

theorem seq_set_ne (l : List K) (k i : Nat) (x : K) (h : i ≠ k) : seq (l.set k x) i = seq l i := by
  simp [seq, List.getD_eq_getElem?_getD, List.getElem?_set_ne (Ne.symm h)]

/-- the loop `for exponent in range(effective_degree - 1, -1, -1)` with its running integers is the model's `sigmaScale` -/
theorem sigma_loop (degree : Nat) (step : List K × Nat × Int → Nat → Except Err (List K × Nat × Int))
    (hstep : ∀ sc num den k, step (sc, num, den) k =
      Rt.bind (Src.Py.Rt.updIdx (fun x => x * ((num : Nat) : K)) sc k) fun sc1 =>
      Rt.bind (Src.Py.Rt.updIdx (fun x => x / Src.Py.Rt.ofInt den) sc1 k) fun sc2 =>
      .ok (sc2, num * k, den * ((((degree : Nat) : Int) - (k : Int)) + 1))) :
    ∀ k (sc : List K) (num denN : Nat), k ≤ sc.length → k ≤ degree →
      ∃ n' d', Src.Py.Rt.foldM (List.reverse (List.range k)) (sc, num, ((denN : Nat) : Int)) step =
        .ok (sigmaScale degree (seq sc) k num denN ++ sc.drop k, n', d') := by
  intro k
  induction k with
  | zero => intro sc num denN _ _; exact ⟨num, denN, rfl⟩
  | succ k ih =>
    intro sc num denN hk hkd
    have hlen : k < sc.length := by omega
    rw [List.range_succ, List.reverse_append, List.reverse_singleton, List.singleton_append, Src.Py.Rt.foldM, hstep,
      updIdx_ok _ sc k hlen, Rt.bind_ok, updIdx_ok _ _ k (by simpa using hlen), Rt.bind_ok, Rt.bind_ok, List.set_set,
      seq_set_self _ _ _ hlen, ofInt_natCast]
    have hden : ((denN : Nat) : Int) * ((((degree : Nat) : Int) - (k : Int)) + 1) = (((denN * (degree - k + 1) : Nat)) : Int) := by
      have h1 : (((degree - k + 1 : Nat)) : Int) = ((degree : Nat) : Int) - (k : Int) + 1 := by omega
      rw [← h1, Int.natCast_mul]
    rw [hden]
    obtain ⟨n', d', hih⟩ := ih (sc.set k ((seq sc k * ((num : Nat) : K)) / ((denN : Nat) : K))) (num * k)
      (denN * (degree - k + 1)) (by simpa using (by omega : k ≤ sc.length)) (by omega)
    refine ⟨n', d', ?_⟩
    rw [hih, drop_set_self _ _ _ hlen,
      sigmaScale_congr degree _ (seq sc) k _ _ (fun i hi => seq_set_ne sc k i _ (by omega))]
    simp only [sigmaScale, Alg.nat, List.append_assoc, List.singleton_append]

/-- the same loop followed by a continuation that only looks at the array -/
theorem sigma_loop_bind {β : Type} (degree : Nat) (step : List K × Nat × Int → Nat → Except Err (List K × Nat × Int))
    (cont : List K × Nat × Int → Except Err β) (g : List K → Except Err β) (k : Nat) (sc : List K) (num denN : Nat)
    (hk : k ≤ sc.length) (hkd : k ≤ degree)
    (hstep : ∀ sc num den k, step (sc, num, den) k =
      Rt.bind (Src.Py.Rt.updIdx (fun x => x * ((num : Nat) : K)) sc k) fun sc1 =>
      Rt.bind (Src.Py.Rt.updIdx (fun x => x / Src.Py.Rt.ofInt den) sc1 k) fun sc2 =>
      .ok (sc2, num * k, den * ((((degree : Nat) : Int) - (k : Int)) + 1)))
    (hcont : ∀ sc a b, cont (sc, a, b) = g sc) :
    Rt.bind (Src.Py.Rt.foldM (List.reverse (List.range k)) (sc, num, ((denN : Nat) : Int)) step) cont =
      g (sigmaScale degree (seq sc) k num denN ++ sc.drop k) := by
  obtain ⟨n', d', h⟩ := sigma_loop degree step hstep k sc num denN hk hkd
  rw [h, Rt.bind_ok, hcont]

/-- `_get_sigma_coeffs`, all inputs (also the empty array): the search for the effective degree, the two early
    returns, the division by the lead coefficient and the running binomial ratios are the model's `getSigmaCoeffs`
    (the "full degree" is a Python int: `len - 1`, which is the model's natural number whenever it matters) -/
theorem get_sigma_coeffs_src (coeffs : List K) :
    Src.Py._get_sigma_coeffs coeffs =
      .ok ((getSigmaCoeffs coeffs).1, (((getSigmaCoeffs coeffs).2.1 : Nat) : Int), (getSigmaCoeffs coeffs).2.2) := by
  unfold Src.Py._get_sigma_coeffs getSigmaCoeffs
  dsimp only
  have htn : Int.toNat ((((coeffs.length : Nat) : Int) - 1) + 1) = coeffs.length := by omega
  rw [htn, search_loop coeffs _ (fun _ _ => rfl) coeffs.length (le_refl _), Rt.bind_ok]
  cases hed : effectiveDegree (seq coeffs) coeffs.length with
  | none => rfl
  | some e =>
    have he := effectiveDegree_lt _ _ _ hed
    have hdeg : (((coeffs.length : Nat) : Int) - 1) = (((coeffs.length - 1 : Nat)) : Int) := by omega
    cases e with
    | zero =>
      dsimp only
      rw [if_pos rfl, hdeg]
      rfl
    | succ e =>
      dsimp only
      rw [if_neg (by omega), idx_ok coeffs (e + 1) he, Rt.bind_ok, hdeg,
        SrcPyKernels.slice_none_nat coeffs (e + 1)]
      have hte : Int.toNat (((((e + 1 : Nat)) : Int) - 1) + 1) = e + 1 := by omega
      have hd0 : ((((coeffs.length - 1 : Nat)) : Int) - (((e + 1 : Nat)) : Int)) + 1 =
          (((coeffs.length - 1 - (e + 1) + 1 : Nat)) : Int) := by omega
      rw [hte, hd0]
      refine Eq.trans (sigma_loop_bind (coeffs.length - 1) _ _
        (fun sc => Except.ok (some sc, (((coeffs.length - 1 : Nat)) : Int), e + 1)) (e + 1) _ (e + 1)
        (coeffs.length - 1 - (e + 1) + 1) ?_ ?_ ?_ ?_) ?_
      · simp; omega
      · omega
      · intro _ _ _ _; rfl
      · intro _ _ _; rfl
      · have hdrop : (List.map (fun x => x / seq coeffs (e + 1)) (coeffs.take (e + 1))).drop (e + 1) = [] := by
          apply List.drop_eq_nil_of_le
          simp
        rw [hdrop, List.append_nil,
          sigmaScale_congr (coeffs.length - 1) _ (fun i => seq coeffs i / seq coeffs (e + 1)) (e + 1) _ _ (fun i hi => by
            simp [seq, List.getD_eq_getElem?_getD, List.getElem?_map, List.getElem?_take, hi,
              List.getElem?_eq_getElem (by omega : i < coeffs.length)])]
        rfl

/-! ## `bernstein_companion` -/

theorem length_sigmaScale (d : Nat) (v : Nat → K) : ∀ k a b, (sigmaScale d v k a b).length = k := by
  intro k
  induction k with
  | zero => intros; rfl
  | succ k ih => intro a b; simp [sigmaScale, ih]

/-- row-major position `(i + 1) * e + j` of an `e × e` array is one of `e, e + (e + 1), e + 2 (e + 1), …` exactly on the
    sub-diagonal -/
theorem flat_mod (e i j : Nat) (hi : i < e) (hj : j < e) : ((i + 1) * e + j - e) % (e + 1) = 0 ↔ j = i := by
  have h0 : (i + 1) * e + j - e = i * e + j := by rw [Nat.add_mul, Nat.one_mul]; omega
  rw [h0]
  by_cases hji : i ≤ j
  · have h1 : i * e + j = (j - i) + i * (e + 1) := by rw [Nat.mul_add, Nat.mul_one]; omega
    rw [h1, Nat.add_mul_mod_self_right, Nat.mod_eq_of_lt (by omega)]
    omega
  · obtain ⟨i', rfl⟩ : ∃ i', i = i' + 1 := ⟨i - 1, by omega⟩
    have h1 : (i' + 1) * e + j = (e + 1 + j - (i' + 1)) + i' * (e + 1) := by
      rw [Nat.add_mul, Nat.one_mul, Nat.mul_add, Nat.mul_one]; omega
    rw [h1, Nat.add_mul_mod_self_right, Nat.mod_eq_of_lt (by omega)]
    omega

theorem companion_rows (e' : Nat) (f : Nat → List K → List K)
    (hf : ∀ i row, f i row = row.mapIdx fun j x =>
      if e' + 1 ≤ (i + 1) * (e' + 1) + j ∧ ((i + 1) * (e' + 1) + j - (e' + 1)) % (e' + 1 + 1) = 0 then (1 : K) else x) :
    List.mapIdx f (List.replicate e' (List.replicate (e' + 1) (0 : K))) =
      (List.range e').map (fun i => unitVec (e' + 1) i) := by
  apply List.ext_getElem
  · simp
  · intro i h1 h2
    have hi : i < e' := by simpa using h1
    simp only [List.getElem_mapIdx, List.getElem_replicate, List.getElem_map, List.getElem_range, unitVec, hf]
    apply List.ext_getElem
    · simp
    · intro j h3 h4
      have hj : j < e' + 1 := by simpa using h3
      simp only [List.getElem_mapIdx, List.getElem_replicate, List.getElem_map, List.getElem_range]
      have hmod := flat_mod (e' + 1) i j (by omega) hj
      have hle : e' + 1 ≤ (i + 1) * (e' + 1) + j := by rw [Nat.add_mul, Nat.one_mul]; omega
      by_cases hji : j = i
      · rw [if_pos ⟨hle, hmod.mpr hji⟩, if_pos hji]
      · rw [if_neg (fun h => hji (hmod.mp h.2)), if_neg hji]

/-- the `e × e` array that `bernstein_companion` fills (`np.zeros`, `flat[e::e+1] = 1.0`, first row) is the model's
    `companionOfSigma` -/
theorem companion_build (sc : List K) (e : Nat) (hl : sc.length = e + 1) :
    (Rt.bind (Src.Py.Rt.setFlat (Src.Py.Rt.mfill (e + 1) (e + 1) (0 : K)) (e + 1) (e + 1 + 1) 1) fun companion =>
      Src.Py.Rt.setRow companion 0 (List.map (fun x => -x) (List.reverse sc))) = .ok (companionOfSigma sc (e + 1)) := by
  have hm : Src.Py.Rt.mfill (e + 1) (e + 1) (0 : K) =
      List.replicate (e + 1) (0 : K) :: List.replicate e (List.replicate (e + 1) 0) := rfl
  unfold Src.Py.Rt.setFlat
  rw [if_neg (by omega), hm]
  simp only [List.headD_cons, List.length_replicate, List.mapIdx_cons, Rt.bind_ok]
  unfold Src.Py.Rt.setRow
  simp only [List.getElem?_cons_zero, List.length_mapIdx, List.length_replicate, List.length_map, List.length_reverse, hl,
    ↓reduceIte, List.set_cons_zero]
  rw [companion_rows e _ (fun _ _ => rfl)]
  rfl

/-- `bernstein_companion`, all inputs -/
theorem bernstein_companion_src (coeffs : List K) :
    Src.Py.bernstein_companion coeffs =
      .ok ((bernsteinCompanion coeffs).1, (((bernsteinCompanion coeffs).2.1 : Nat) : Int), (bernsteinCompanion coeffs).2.2) := by
  have hcases : (∃ d, getSigmaCoeffs coeffs = (none, d, 0)) ∨
      (∃ sc d e, getSigmaCoeffs coeffs = (some sc, d, e + 1) ∧ sc.length = e + 1) := by
    unfold getSigmaCoeffs
    dsimp only
    cases effectiveDegree (seq coeffs) coeffs.length with
    | none => exact Or.inl ⟨0, rfl⟩
    | some e =>
      cases e with
      | zero => exact Or.inl ⟨_, rfl⟩
      | succ e => exact Or.inr ⟨_, _, e, rfl, length_sigmaScale ..⟩
  unfold Src.Py.bernstein_companion bernsteinCompanion
  rw [get_sigma_coeffs_src, Rt.bind_ok]
  rcases hcases with ⟨d, h⟩ | ⟨sc, d, e, h, hl⟩
  · rw [h]
    rfl
  · rw [h]
    dsimp only
    rw [if_neg (by omega)]
    have hb := companion_build sc e hl
    cases hsf : Src.Py.Rt.setFlat (Src.Py.Rt.mfill (e + 1) (e + 1) (0 : K)) (e + 1) (e + 1 + 1) 1 with
    | error err => rw [hsf] at hb; cases hb
    | ok m =>
      rw [hsf, Rt.bind_ok] at hb
      simp only [Rt.bind_ok, Src.Py.Rt.unwrap, hb]
      rfl

/-! ## `_resolve_and_add` (any field; the two running lists may hold NaN in the code: `Option`) -/

section field2
variable {F : Type} [Field F] [LinearOrder F]

/-- `_resolve_and_add` on two planar curves with at least two nodes each: the Newton polish
    (`intersection_helpers.newton_refine`), `wiggle_interval` with its default `0.5 ** 44` on both parameters, and the
    two appends (only when both succeeded - hence never a NaN) are the model's `resolveAndAdd` -/
theorem resolve_and_add_src (s t : F) (x1 y1 x2 y2 fs ft : List F) (m1 m2 : Nat) (h1 : 2 ≤ m1) (h2 : 2 ≤ m2)
    (hx1 : x1.length = m1) (hy1 : y1.length = m1) (hx2 : x2.length = m2) (hy2 : y2.length = m2) :
    Src.Py._resolve_and_add [x1, y1] s (fs.map some) [x2, y2] t (ft.map some) =
      match resolveAndAdd 55 (q 1 17592186044416) [x1, y1] s fs [x2, y2] t ft with
      | .error e => .error e
      | .ok r => .ok (r.1.map some, r.2.map some) := by
  unfold Src.Py._resolve_and_add resolveAndAdd
  rw [SrcPyNewton.newton_refine_curves_src s t x1 y1 x2 y2 m1 m2 h1 h2 hx1 hy1 hx2 hy2]
  cases newtonRefineCurves 55 s [x1, y1] t [x2, y2] with
  | error e => rfl
  | ok p =>
    obtain ⟨s', t'⟩ := p
    simp only [Rt.bind_ok, SrcPy.wiggle_interval_src]
    cases wiggleInterval (q 1 17592186044416 : F) s' <;> cases wiggleInterval (q 1 17592186044416 : F) t' <;>
      simp [SrcPy.encWiggle]

end field2

/-! ## `lu_companion` -/

/-- the `d × d` array with entries `g r c` -/
def cellMat (d : Nat) (g : Nat → Nat → K) : List (List K) :=
  (List.range d).map fun r => (List.range d).map fun c => g r c

theorem cellMat_congr (d : Nat) (g1 g2 : Nat → Nat → K) (h : ∀ r c, r < d → c < d → g1 r c = g2 r c) :
    cellMat d g1 = cellMat d g2 := by
  unfold cellMat
  apply List.map_congr_left
  intro r hr
  apply List.map_congr_left
  intro c hc
  exact h r c (List.mem_range.mp hr) (List.mem_range.mp hc)

theorem mfill_cellMat (d : Nat) : Src.Py.Rt.mfill d d (0 : K) = cellMat d (fun _ _ => 0) := by
  unfold Src.Py.Rt.mfill cellMat
  apply List.ext_getElem
  · simp
  · intro i h1 h2
    simp only [List.getElem_replicate, List.getElem_map]
    apply List.ext_getElem
    · simp
    · intro j h3 h4
      simp

theorem pyIdx_nat (n r : Nat) (h : r < n) : Src.Py.Rt.pyIdx n ((r : Nat) : Int) = some r := by
  unfold Src.Py.Rt.pyIdx
  rw [if_pos (by omega)]
  simp [h]

theorem setCell_cellMat (d : Nat) (g : Nat → Nat → K) (r c : Nat) (hr : r < d) (hc : c < d) (v : K) :
    Src.Py.Rt.setCell (cellMat d g) ((r : Nat) : Int) ((c : Nat) : Int) v =
      .ok (cellMat d (fun r' c' => if r' = r ∧ c' = c then v else g r' c')) := by
  unfold Src.Py.Rt.setCell
  have h1 : (cellMat d g).length = d := by simp [cellMat]
  have h2 : (cellMat d g)[r]? = some ((List.range d).map fun c => g r c) := by simp [cellMat, hr]
  rw [h1, pyIdx_nat d r hr]
  dsimp only
  rw [h2]
  dsimp only
  rw [List.length_map, List.length_range, pyIdx_nat d c hc]
  dsimp only
  congr 1
  apply List.ext_getElem
  · simp [cellMat]
  · intro i hi1 hi2
    have hi : i < d := by simpa [cellMat] using hi2
    simp only [cellMat, List.getElem_set, List.getElem_map, List.getElem_range]
    by_cases hir : r = i
    · subst hir
      rw [if_pos rfl]
      apply List.ext_getElem
      · simp
      · intro j hj1 hj2
        simp only [List.getElem_set, List.getElem_map, List.getElem_range]
        by_cases hcj : c = j
        · subst hcj; simp
        · rw [if_neg hcj, if_neg (fun h => hcj h.2.symm)]
    · rw [if_neg hir]
      apply List.map_congr_left
      intro j _
      rw [if_neg (fun h => hir h.1.symm)]

theorem luLoop_succ (value aop : K) (top : Nat → K) (st0 : LUState K) (m : Nat) :
    luLoop value aop top st0 (m + 1) = luStep value aop top (luLoop value aop top st0 m) (m + 1) := by
  unfold luLoop
  rw [List.range_succ, List.foldl_append]
  rfl

theorem luLoop_hs_length (value aop : K) (top : Nat → K) (st0 : LUState K) (m : Nat) :
    (luLoop value aop top st0 m).hs.length = st0.hs.length + m := by
  induction m with
  | zero => rfl
  | succ m ih => rw [luLoop_succ]; simp [luStep, ih]; omega

theorem seq_append_lt (l : List K) (x : K) (c : Nat) (h : c < l.length) : seq (l ++ [x]) c = seq l c := by
  simp [seq, List.getD_eq_getElem?_getD, List.getElem?_append_left h]

theorem seq_append_eq (l : List K) (x : K) : seq (l ++ [x]) l.length = x := by
  simp [seq, List.getD_eq_getElem?_getD]

/-- entries of the array after the columns `0 .. i` are written (`hs` = the Horner values so far) -/
def luPartial (n : Nat) (value : K) (hs : List K) (i : Nat) : Nat → Nat → K := fun r c =>
  if c ≤ i then (if r = n + 1 then seq hs c else if r = c then 1 else if r + 1 = c then -value else 0) else 0

/-- `lu_companion`, all inputs: the `IndexError` on an empty `top_row`, the 1 × 1 case, and for `degree ≥ 2` the loop
    with its running Horner value and 1-norm (`luLoop` / `luStep`) writing the array entry by entry (`luMatrix`) -/
theorem lu_companion_src (top : List K) (value : K) :
    Src.Py.lu_companion top value = luCompanion top value := by
  rcases top with _ | ⟨a, _ | ⟨b, rest⟩⟩
  · rfl
  · rfl
  · -- degree = n + 2
    obtain ⟨n, hn⟩ : ∃ n, (a :: b :: rest).length = n + 2 := ⟨rest.length, rfl⟩
    generalize htop : a :: b :: rest = top at hn
    unfold Src.Py.lu_companion luCompanion
    dsimp only
    rw [hn, if_neg (by omega), if_neg (by omega), if_neg (by omega), idx_ok top 0 (by omega), Rt.bind_ok]
    have hlast : (((n + 2 : Nat)) : Int) - 1 = (((n + 1 : Nat)) : Int) := by omega
    have hz : (0 : Int) = ((0 : Nat) : Int) := rfl
    rw [hlast, mfill_cellMat, hz, setCell_cellMat (n + 2) _ 0 0 (by omega) (by omega), Rt.bind_ok,
      setCell_cellMat (n + 2) _ (n + 1) 0 (by omega) (by omega), Rt.bind_ok]
    have htn : Int.toNat (((n + 1 : Nat)) : Int) - 1 = n := by omega
    rw [htn]
    -- the loop
    obtain ⟨st, hst⟩ : ∃ st : Nat → LUState K, st = fun i => luLoop value (1 + Alg.absK value) (seq top)
        { horner := seq top 0 - value, oneNorm := 1 + Alg.absK (seq top 0 - value), hs := [seq top 0 - value] } i :=
      ⟨_, rfl⟩
    have hlen : ∀ i, (st i).hs.length = i + 1 := fun i => by
      rw [hst]
      have := luLoop_hs_length value (1 + Alg.absK value) (seq top)
        { horner := seq top 0 - value, oneNorm := 1 + Alg.absK (seq top 0 - value), hs := [seq top 0 - value] } i
      simpa [Nat.add_comm] using this
    have hsucc : ∀ i, st (i + 1) = luStep value (1 + Alg.absK value) (seq top) (st i) (i + 1) := fun i => by
      rw [hst]
      exact luLoop_succ ..
    have hs0 : (st 0).hs = [seq top 0 - value] := by rw [hst]; rfl
    have hinit : cellMat (n + 2) (fun r' c' => if r' = n + 1 ∧ c' = 0 then seq top 0 - value else
        if r' = 0 ∧ c' = 0 then (1 : K) else 0) = cellMat (n + 2) (luPartial n value (st 0).hs 0) := by
      apply cellMat_congr
      intro r c hr hc
      unfold luPartial
      rw [hs0]
      by_cases hc0 : c = 0
      · subst hc0
        have hseq : seq [seq top 0 - value] 0 = seq top 0 - value := rfl
        rw [hseq]
        split_ifs <;> first | rfl | (exfalso; omega)
      · split_ifs <;> first | rfl | (exfalso; omega)
    rw [hinit]
    have hloop := SrcPyKernels.foldM_range' n
      (fun i => (cellMat (n + 2) (luPartial n value (st i).hs i), (st i).horner, (st i).oneNorm))
      (fun (x : List (List K) × K × K) col =>
        Rt.bind (Src.Py.Rt.idx top col) fun curr_coeff =>
        Rt.bind (Src.Py.Rt.setCell x.1 ((col : Int) - 1) (col : Int) (-value)) fun lu_mat =>
        Rt.bind (Src.Py.Rt.setCell lu_mat (col : Int) (col : Int) 1) fun lu_mat =>
        Rt.bind (Src.Py.Rt.setCell lu_mat (((n + 1 : Nat)) : Int) (col : Int) (value * x.2.1 + curr_coeff)) fun lu_mat =>
        .ok (lu_mat, value * x.2.1 + curr_coeff, Model.maxK x.2.2 (1 + Model.absK value + Model.absK curr_coeff)))
      (by
        intro i hi
        have hcol : ((((i + 1 : Nat)) : Int) - 1) = ((i : Nat) : Int) := by omega
        dsimp only
        rw [idx_ok top (i + 1) (by omega), Rt.bind_ok, hcol,
          setCell_cellMat (n + 2) _ i (i + 1) (by omega) (by omega), Rt.bind_ok,
          setCell_cellMat (n + 2) _ (i + 1) (i + 1) (by omega) (by omega), Rt.bind_ok,
          setCell_cellMat (n + 2) _ (n + 1) (i + 1) (by omega) (by omega), Rt.bind_ok]
        congr 2
        · apply cellMat_congr
          intro r c hr hc
          rw [hsucc]
          unfold luPartial luStep
          dsimp only
          rcases Nat.lt_trichotomy c (i + 1) with hlt | heq | hgt
          · rw [seq_append_lt _ _ _ (by rw [hlen]; omega)]
            split_ifs <;> first | rfl | (exfalso; omega)
          · subst heq
            have hseq := seq_append_eq (st i).hs (value * (st i).horner + seq top (i + 1))
            rw [hlen] at hseq
            rw [hseq]
            split_ifs <;> first | rfl | (exfalso; omega)
          · split_ifs <;> first | rfl | (exfalso; omega)
        · rw [hsucc]
          rfl)
    -- apply it
    refine Eq.trans (congrArg (fun m => Rt.bind m _) (Eq.trans ?_ hloop)) ?_
    · rw [hst]
      rfl
    · rw [Rt.bind_ok]
      dsimp only
      have hidx : Src.Py.Rt.idxI top (((n + 1 : Nat)) : Int) = .ok (seq top (n + 1)) := by
        unfold Src.Py.Rt.idxI
        rw [if_pos (by omega)]
        simpa using idx_ok top (n + 1) (by omega)
      have hl1 : ((((n + 1 : Nat)) : Int) - 1) = ((n : Nat) : Int) := by omega
      rw [hidx, Rt.bind_ok, hl1, setCell_cellMat (n + 2) _ n (n + 1) (by omega) (by omega), Rt.bind_ok,
        setCell_cellMat (n + 2) _ (n + 1) (n + 1) (by omega) (by omega), Rt.bind_ok]
      have hd2 : n + 2 - 2 = n := by omega
      have hd1 : n + 2 - 1 = n + 1 := by omega
      rw [hd2, hd1]
      have hstn : luLoop value (1 + Alg.absK value) (seq top)
          { horner := seq top 0 - value, oneNorm := 1 + Alg.absK (seq top 0 - value), hs := [seq top 0 - value] } n = st n := by
        rw [hst]
      rw [hstn]
      congr 2
      unfold luMatrix
      rw [hd1]
      apply cellMat_congr
      intro r c hr hc
      unfold luPartial
      rcases Nat.lt_or_ge c (n + 1) with hlt | hge
      · rw [seq_append_lt _ _ _ (by rw [hlen]; omega)]
        split_ifs <;> first | rfl | (exfalso; omega)
      · have hcn : c = n + 1 := by omega
        subst hcn
        have hseq := seq_append_eq (st n).hs (value * (st n).horner + seq top (n + 1))
        rw [hlen] at hseq
        rw [hseq]
        split_ifs <;> first | rfl | (exfalso; omega)

/-! ## `all_intersections`: the bounding-box gate in front of `intersect_curves` (an explicit parameter) -/

theorem minRow_cons (x : K) (xs : List K) : minRow (x :: xs) = Model.minOf x xs := rfl
theorem maxRow_cons (x : K) (xs : List K) : maxRow (x :: xs) = Model.maxOf x xs := rfl

/-- `all_intersections` on two `2 × N` arrays with at least one column each: `bbox_intersect(..) == DISJOINT` is the
    model's `bboxDisjoint`, the disjoint answer is the empty `2 × 0` array, otherwise `intersect_curves` (untranslated: an
    explicit parameter, nothing assumed) is called on the SAME two arrays in the SAME order; the flag is `False` -/
theorem all_intersections_src (ic : List (List K) → List (List K) → Except Err (List (List K)))
    (x1 y1 x2 y2 : K) (xs1 ys1 xs2 ys2 : List K) :
    Src.Py.algebraic_intersection.all_intersections ic [x1 :: xs1, y1 :: ys1] [x2 :: xs2, y2 :: ys2] =
      if bboxDisjoint [x1 :: xs1, y1 :: ys1] [x2 :: xs2, y2 :: ys2] then .ok ([[], []], false)
      else match ic [x1 :: xs1, y1 :: ys1] [x2 :: xs2, y2 :: ys2] with
        | .error e => .error e
        | .ok r => .ok (r, false) := by
  unfold Src.Py.algebraic_intersection.all_intersections
  rw [SrcPy.bbox_intersect_src]
  simp only [Model.bboxIntersect, Model.bbox, SrcPy.encBox, Rt.bind_ok, bboxDisjoint, List.getD_cons_zero,
    List.getD_cons_succ, minRow_cons, maxRow_cons, Model.boxRelation, Bool.or_eq_true, decide_eq_true_eq]
  by_cases h : ((Model.maxOf x2 xs2 < Model.minOf x1 xs1 ∨ Model.maxOf x1 xs1 < Model.minOf x2 xs2) ∨
      Model.maxOf y2 ys2 < Model.minOf y1 ys1) ∨ Model.maxOf y1 ys1 < Model.minOf y2 ys2
  · have h' : Model.maxOf x2 xs2 < Model.minOf x1 xs1 ∨ Model.maxOf x1 xs1 < Model.minOf x2 xs2 ∨
        Model.maxOf y2 ys2 < Model.minOf y1 ys1 ∨ Model.maxOf y1 ys1 < Model.minOf y2 ys2 := by tauto
    rw [if_pos h, if_pos h']
    rfl
  · have h' : ¬(Model.maxOf x2 xs2 < Model.minOf x1 xs1 ∨ Model.maxOf x1 xs1 < Model.minOf x2 xs2 ∨
        Model.maxOf y2 ys2 < Model.minOf y1 ys1 ∨ Model.maxOf y1 ys1 < Model.minOf y2 ys2) := by tauto
    rw [if_neg h, if_neg h']
    split_ifs <;> first | (cases ic [x1 :: xs1, y1 :: ys1] [x2 :: xs2, y2 :: ys2] <;> rfl) | (exfalso; simp_all [Model.BoxType.toNat, Src.Py.BoxIntersectionType.DISJOINT])

/-- hence, when the parameter `intersect_curves` is the model's `algIntersectCurves` (the two rows of the `2 × N` result),
    `all_intersections` is the model's `algAllIntersections` -/
theorem all_intersections_model (ext : Externals K) (par : Params K) (w : K)
    (ic : List (List K) → List (List K) → Except Err (List (List K)))
    (x1 y1 x2 y2 : K) (xs1 ys1 xs2 ys2 : List K)
    (hic : ic [x1 :: xs1, y1 :: ys1] [x2 :: xs2, y2 :: ys2] =
      match algIntersectCurves ext par w [x1 :: xs1, y1 :: ys1] [x2 :: xs2, y2 :: ys2] with
      | .error e => .error e
      | .ok r => .ok [r.1, r.2]) :
    Src.Py.algebraic_intersection.all_intersections ic [x1 :: xs1, y1 :: ys1] [x2 :: xs2, y2 :: ys2] =
      match algAllIntersections ext par w [x1 :: xs1, y1 :: ys1] [x2 :: xs2, y2 :: ys2] with
      | .error e => .error e
      | .ok r => .ok ([r.1.1, r.1.2], r.2) := by
  rw [all_intersections_src, hic]
  unfold algAllIntersections
  by_cases hb : bboxDisjoint [x1 :: xs1, y1 :: ys1] [x2 :: xs2, y2 :: ys2] = true
  · rw [if_pos hb, if_pos hb]
  · rw [if_neg hb, if_neg hb]
    cases algIntersectCurves ext par w [x1 :: xs1, y1 :: ys1] [x2 :: xs2, y2 :: ys2] <;> rfl

/-! ## `roots_in_unit_interval` (the complex roots of the external `polyroots` as pairs `(re, im)`) -/

theorem band_map {α : Type} (l : List α) (f g : α → Bool) :
    Src.Py.Rt.band (l.map f) (l.map g) = .ok (l.map fun x => f x && g x) := by
  unfold Src.Py.Rt.band
  rw [if_pos (by simp)]
  congr 1
  induction l with
  | nil => rfl
  | cons a l ih => simp [ih]

theorem mask_map {α : Type} (l : List α) (p : α → Bool) : Src.Py.Rt.mask l (l.map p) = .ok (l.filter p) := by
  unfold Src.Py.Rt.mask
  rw [if_pos (by simp)]
  congr 1
  induction l with
  | nil => rfl
  | cons a l ih => cases h : p a <;> simp [h, List.filter_cons, ih]

/-- `roots_in_unit_interval`: the two boolean masks (real part strictly inside the widened interval, then imaginary part
    strictly below the wiggle) and the final `.real` are the model's `unitIntervalFilter` of the SAME `polyroots` output;
    the three module constants are read from the source (`-(2^-13)`, `1 + 2^-13`, `2^-13`) -/
theorem roots_in_unit_interval_src (ext : Externals K) (par : Params K) (coeffs : List K)
    (hs : par.wiggleStart = (-(q 1 8192 : K) : K)) (he : par.wiggleEnd = (q 8193 8192 : K))
    (hi : par.imagWiggle = (q 1 8192 : K)) :
    Src.Py.roots_in_unit_interval ext.polyroots coeffs = .ok (rootsInUnitInterval ext par coeffs) := by
  unfold Src.Py.roots_in_unit_interval rootsInUnitInterval unitIntervalFilter
  simp only [List.map_map, band_map, mask_map, Rt.bind_ok, hs, he, hi]
  rfl

/-! ## `_strip_leading_zeros` (a `while` loop: at most `len + 1` rounds) -/

theorem idxI_last (init : List K) (x : K) : Src.Py.Rt.idxI (init ++ [x]) (-1 : Int) = .ok x := by
  unfold Src.Py.Rt.idxI
  rw [if_neg (by omega), if_pos (by simp)]
  have h : (((init ++ [x]).length : Int) + -1).toNat = init.length := by simp
  rw [h]
  simp [Src.Py.Rt.idx]

theorem slice_dropLast (init : List K) (x : K) : Src.Py.Rt.slice (init ++ [x]) none (some (-1 : Int)) = init := by
  simp [Src.Py.Rt.slice, Src.Py.Rt.sliceIdx]

theorem strip_loop (thr : K) (test : List K → Except Err Bool) (step : List K → Except Err (List K))
    (htest : ∀ l, test l = Rt.bind (Src.Py.Rt.idxI l (-1 : Int)) fun t1 => .ok (decide (Model.absK t1 < thr)))
    (hstep : ∀ l, step l = .ok (Src.Py.Rt.slice l none (some (-1 : Int)))) :
    ∀ (n : Nat) (l : List K) (fuel : Nat), l.length = n → n + 1 ≤ fuel →
      Src.Py.Rt.whileA fuel l test step = stripLeadingZeros thr l := by
  intro n
  induction n with
  | zero =>
    intro l fuel hl hf
    obtain ⟨f, rfl⟩ : ∃ f, fuel = f + 1 := ⟨fuel - 1, by omega⟩
    have : l = [] := List.length_eq_zero_iff.mp hl
    subst this
    rw [Src.Py.Rt.whileA, htest]
    rfl
  | succ n ih =>
    intro l fuel hl hf
    obtain ⟨f, rfl⟩ : ∃ f, fuel = f + 1 := ⟨fuel - 1, by omega⟩
    rcases List.eq_nil_or_concat l with rfl | ⟨init, x, hcat⟩
    · simp at hl
    · rw [List.concat_eq_append] at hcat
      subst hcat
      have hinit : init.length = n := by simpa using hl
      rw [Src.Py.Rt.whileA, htest, idxI_last, Rt.bind_ok, Rt.bind_ok]
      unfold stripLeadingZeros
      rw [List.reverse_append, List.reverse_singleton, List.singleton_append, stripRev]
      by_cases hx : Model.absK x < thr
      · have hx' : Alg.absK x < thr := hx
        rw [decide_eq_true hx, if_pos rfl, hstep, slice_dropLast, Rt.bind_ok, if_pos hx', ih init f hinit (by omega)]
        rfl
      · have hx' : ¬ Alg.absK x < thr := hx
        rw [decide_eq_false hx, if_neg (by simp), if_neg hx']
        simp

/-- `_strip_leading_zeros`, all inputs (an array of "zeros" only ends with the `IndexError` of `coeffs[-1]`) -/
theorem strip_leading_zeros_src (coeffs : List K) (thr : K) :
    Src.Py._strip_leading_zeros coeffs thr = stripLeadingZeros thr coeffs := by
  unfold Src.Py._strip_leading_zeros
  rw [strip_loop thr _ _ (fun _ => rfl) (fun _ => rfl) coeffs.length coeffs _ rfl (le_refl _)]
  cases stripLeadingZeros thr coeffs <;> rfl

/-- the default threshold of `_strip_leading_zeros` is `_COEFFICIENT_THRESHOLD = 2^-26` -/
theorem strip_leading_zeros_default : Src.Py._strip_leading_zeros_default_threshold = 1 / 2 ^ 26 := by
  norm_num [Src.Py._strip_leading_zeros_default_threshold]

/-! ## the Chebyshev abscissae of the `polyfit` helpers are pinned (exact binary64 values, hand-copied once) -/

/-- the values of `_CHEB7` the framework was validated with (0x1.f994e02ac74b4p-1, 0x1.c8261ba82ef26p-1, 0x1.6f130135c6af0p-1, 0x1.0000000000000p-1, 0x1.21d9fd9472a20p-2, 0x1.becf22be886e0p-4, 0x1.9ac7f54e2d2c0p-7) -/
theorem cheb7_pinned : (Src.Py.algebraic_intersection.CHEB7 : List Rat) =
    [(2223571152346413 : Rat) / 2251799813685248,
     (4012327800240019 : Rat) / 4503599627370496,
     (403602392073903 : Rat) / 562949953421312,
     (1 : Rat) / 2,
     (159347561347409 : Rat) / 562949953421312,
     (245635913565239 : Rat) / 2251799813685248,
     (112914645355339 : Rat) / 9007199254740992] := by
  decide +kernel

/-- the values of `_CHEB9` the framework was validated with (0x1.fc1c5c6408e0cp-1, 0x1.ddb3d742c2656p-1, 0x1.a48dba91e0b0ep-1, 0x1.578ea1d2282fep-1, 0x1.0000000000000p-1, 0x1.50e2bc5bafa08p-2, 0x1.6dc915b87d3c6p-3, 0x1.126145e9ecd5cp-4, 0x1.f1d1cdfb8fa40p-8) -/
theorem cheb9_pinned : (Src.Py.algebraic_intersection.CHEB9 : List Rat) =
    [(2234694864216963 : Rat) / 2251799813685248,
     (4201915656573739 : Rat) / 4503599627370496,
     (3699228833416583 : Rat) / 4503599627370496,
     (3021960708702591 : Rat) / 4503599627370496,
     (1 : Rat) / 2,
     (740819459333953 : Rat) / 2251799813685248,
     (3217483175815651 : Rat) / 18014398509481984,
     (1206735883187031 : Rat) / 18014398509481984,
     (136839595746281 : Rat) / 18014398509481984] := by
  decide +kernel

/-- the values of `_CHEB10` the framework was validated with (0x1.fcd924a17f22ep-1, 0x1.e41900e9e9636p-1, 0x1.b504f333f9de6p-1, 0x1.7438b8ad13780p-1, 0x1.280c16cf50a6fp-1, 0x1.afe7d2615eb25p-2, 0x1.178e8ea5d9100p-2, 0x1.2bec333018868p-3, 0x1.be6ff16169ca0p-5, 0x1.936daf406e940p-8) -/
theorem cheb10_pinned : (Src.Py.algebraic_intersection.CHEB10 : List Rat) =
    [(4475876235016471 : Rat) / 4503599627370496,
     (4258168138844955 : Rat) / 4503599627370496,
     (3844062731816691 : Rat) / 4503599627370496,
     (51157742756463 : Rat) / 70368744177664,
     (5208117825833583 : Rat) / 9007199254740992,
     (7598162857814821 : Rat) / 18014398509481984,
     (19211001421201 : Rat) / 70368744177664,
     (659536895553805 : Rat) / 4503599627370496,
     (245431488525541 : Rat) / 4503599627370496,
     (110893569416101 : Rat) / 18014398509481984] := by
  decide +kernel

/-! ## `bezier_roots` over the reals (`np.abs` of a complex number through `Real.sqrt`; the model compares squares) -/

theorem czip_map (f : K × K → K × K → K × K) (l : List (K × K)) (g : K × K → K × K) :
    Src.Py.Rt.czip f l (l.map g) = .ok (l.map fun z => f z (g z)) := by
  unfold Src.Py.Rt.czip
  rw [if_pos (by simp)]
  congr 1
  induction l with
  | nil => rfl
  | cons a l ih => simp [ih]

/-- `bezier_roots`: the companion matrix of `bernstein_companion`, the external `eigvals` (only when the effective degree
    is not zero), the filter `|σ + 1| > _SIGMA_THRESHOLD = 2^-20`, the map `σ ↦ σ / (1 + σ)` and the `degree − effective
    degree` roots at `1` are the model's `bezierRoots` -/
theorem bezier_roots_src (ext : Externals ℝ) (par : Params ℝ) (coeffs : List ℝ)
    (hthr : par.sigmaThrSq = (q 1 1048576 : ℝ) ^ 2) :
    Src.Py.bezier_roots Real.sqrt ext.eigvals coeffs = .ok (bezierRoots ext par coeffs) := by
  have hq : (0 : ℝ) ≤ q 1 1048576 := by
    unfold Model.q
    norm_num
  unfold Src.Py.bezier_roots bezierRoots bezierRootsFilter
  rw [bernstein_companion_src, Rt.bind_ok]
  generalize bernsteinCompanion coeffs = r
  obtain ⟨comp, d, e⟩ := r
  dsimp only
  have hcast : (((e : Nat) : Int) ≠ ((d : Nat) : Int)) ↔ e ≠ d := by omega
  have hdelta : Int.toNat (((d : Nat) : Int) - ((e : Nat) : Int)) = d - e := by omega
  by_cases he : e ≠ 0
  · rw [if_pos he, if_pos he, if_pos he]
    simp only [List.map_map, mask_map, Rt.bind_ok, czip_map, hdelta, List.map_replicate]
    have hfilter : List.filter ((fun x => decide ((q 1 1048576 : ℝ) < x)) ∘ (fun z : ℝ × ℝ => Real.sqrt (z.1 * z.1 + z.2 * z.2)) ∘
          fun z : ℝ × ℝ => (z.1 + 1, z.2)) (ext.eigvals comp) =
        List.filter (fun z => decide (par.sigmaThrSq < (z.1 + 1) * (z.1 + 1) + z.2 * z.2)) (ext.eigvals comp) := by
      apply List.filter_congr
      intro z _
      simp only [Function.comp_apply, hthr, decide_eq_decide]
      exact Real.lt_sqrt hq
    rw [hfilter]
    by_cases hed : e ≠ d
    · rw [if_pos (hcast.mpr hed), if_pos hed]
      rfl
    · rw [if_neg (fun h => hed (hcast.mp h)), if_neg hed]
      rfl
  · rw [if_neg he, if_neg he]
    simp only [Rt.bind_ok, hdelta, List.map_replicate, List.map_nil]
    by_cases hed : e ≠ d
    · rw [if_pos (hcast.mpr hed), if_pos hed]
    · rw [if_neg (fun h => hed (hcast.mp h)), if_neg hed]

/-! ## `_reciprocal_condition_number`, `bezier_value_check` (model added with this tie: `Model/AlgebraicValueCheck.lean`) -/

/-- `_reciprocal_condition_number`: LAPACK's `dgecon` is an explicit parameter; `info != 0` raises `RuntimeError` -/
theorem reciprocal_condition_number_src (dgecon : List (List K) → K → K × Int) (lu : List (List K)) (oneNorm : K) :
    Src.Py._reciprocal_condition_number dgecon lu oneNorm = reciprocalConditionNumber dgecon lu oneNorm := by
  unfold Src.Py._reciprocal_condition_number reciprocalConditionNumber
  rfl

theorem idxI_neg1 (l : List K) : Src.Py.Rt.idxI l (-1 : Int) =
    match l.getLast? with
    | none => .error .badInput
    | some c => .ok c := by
  rcases List.eq_nil_or_concat l with rfl | ⟨init, x, h⟩
  · rfl
  · rw [List.concat_eq_append] at h
    subst h
    rw [idxI_last]
    simp

/-- `bezier_value_check`, all inputs: the `s = 1` shortcut, the shift by `rhs_val`, `_get_sigma_coeffs`, the constant case,
    `σ = s / (1 − s)`, `lu_companion` of the reversed negated σ-coefficients, `dgecon`, and the final comparison with
    `effective_degree * _SINGULAR_EPS` (`2^-52`) -/
theorem bezier_value_check_src (dgecon : List (List K) → K → K × Int) (coeffs : List K) (s rhs : K) :
    Src.Py.bezier_value_check dgecon coeffs s rhs =
      bezierValueCheck dgecon (q 1 4503599627370496) coeffs s rhs := by
  unfold Src.Py.bezier_value_check bezierValueCheck
  by_cases hs : s = 1
  · rw [if_pos hs, if_pos hs, idxI_neg1]
    cases coeffs.getLast? <;> rfl
  · rw [if_neg hs, if_neg hs]
    dsimp only
    rw [get_sigma_coeffs_src, Rt.bind_ok]
    generalize getSigmaCoeffs (List.map (fun x => x - rhs) coeffs) = r
    obtain ⟨o, d, e⟩ := r
    dsimp only
    by_cases he : e = 0
    · rw [if_pos he, if_pos he]
      cases List.map (fun x => x - rhs) coeffs <;> rfl
    · rw [if_neg he, if_neg he]
      cases o with
      | none => rfl
      | some sc =>
        simp only [Src.Py.Rt.unwrap, Rt.bind_ok, lu_companion_src, reciprocal_condition_number_src]
        cases luCompanion (List.map (fun x => -x) sc.reverse) (s / (1 - s)) with
        | error err => rfl
        | ok p =>
          obtain ⟨lu, oneNorm⟩ := p
          simp only [Rt.bind_ok]
          cases reciprocalConditionNumber dgecon lu oneNorm <;> rfl

/-! ## `locate_point` over the reals (`full_reduce`, `polyval` explicit parameters) -/

theorem argmin_fold_lt (rest : List K) (i : Nat) (m : K) (c : Nat) (hi : i < c) :
    (rest.foldl (fun (st : Nat × K × Nat) y =>
      if y < st.2.1 then (st.2.2, y, st.2.2 + 1) else (st.1, st.2.1, st.2.2 + 1)) (i, m, c)).1 < c + rest.length := by
  induction rest generalizing i m c with
  | nil => simpa using hi
  | cons y rest ih =>
    simp only [List.foldl_cons, List.length_cons]
    by_cases h : y < m
    · rw [if_pos h]
      have := ih c y (c + 1) (by omega)
      omega
    · rw [if_neg h]
      have := ih i m (c + 1) (by omega)
      omega

theorem argminIdx_lt (v : List K) (h : v ≠ []) : argminIdx v < v.length := by
  cases v with
  | nil => exact absurd rfl h
  | cons x rest =>
    unfold argminIdx
    have := argmin_fold_lt rest 0 x 1 (by omega)
    simp only [List.length_cons]
    omega

theorem argmin_eq (v : List K) (h : v ≠ []) : Src.Py.Rt.argmin v = .ok (argminIdx v) := by
  cases v with
  | nil => exact absurd rfl h
  | cons x rest => rfl

theorem fullReduce_go_rows (thrSq : K) : ∀ (fuel : Nat) (cur r : List (List K)),
    fullReduce.go thrSq fuel cur = .ok r → r.length = cur.length := by
  intro fuel
  induction fuel with
  | zero => intro cur r h; simp only [fullReduce.go] at h; cases h; rfl
  | succ fuel ih =>
    intro cur r h
    simp only [fullReduce.go] at h
    cases hc : canReduce thrSq cur with
    | error e => rw [hc] at h; cases h
    | ok b =>
      rw [hc] at h
      cases b with
      | false => cases h; rfl
      | true =>
        dsimp only at h
        cases hp : reducePinv cur with
        | error e => rw [hp] at h; cases h
        | ok r' =>
          rw [hp] at h
          have h1 := ih r' r h
          have h2 : r'.length = cur.length := by
            unfold reducePinv at hp
            cases hm : reductionMat (K := K) (ncols cur) with
            | none => rw [hm] at hp; cases hp
            | some m => rw [hm] at hp; cases hp; simp [matMul]
          omega

theorem fullReduce_rows (thrSq : K) (nodes r : List (List K)) (h : fullReduce thrSq nodes = .ok r) :
    r.length = nodes.length := by
  unfold fullReduce at h
  exact fullReduce_go_rows thrSq _ _ _ h

theorem len1 {α : Type} (l : List α) (h : l.length = 1) : ∃ a, l = [a] := by
  rcases l with _ | ⟨a, _ | ⟨b, l⟩⟩ <;> simp at h
  exact ⟨a, rfl⟩

theorem shape_one_row (row : List ℝ) : Src.Py.Rt.shape [row] = .ok (1, row.length) := by
  simp [Src.Py.Rt.shape]

/-- the part of `locate_point` after the two coordinate rows are fixed (`zero1[0, :]`, `zero2[0, :]`) -/
theorem locate_tail (ext : Externals ℝ) (par : Params ℝ) (pv : List ℝ → List ℝ → List ℝ) (z1 z2 : List ℝ)
    (hsqrt : ext.sqrt = Real.sqrt) (hpv : ∀ rs c, pv rs c = rs.map (fun r => polyval c r))
    (hl2 : par.l2ThrSq = (q 1 1099511627776 : ℝ) ^ 2) (hzero : par.zeroThr = (q 1 274877906944 : ℝ))
    (hs : par.wiggleStart = (-(q 1 8192 : ℝ) : ℝ)) (he : par.wiggleEnd = (q 8193 8192 : ℝ))
    (hi : par.imagWiggle = (q 1 8192 : ℝ)) :
    (Rt.bind (Src.Py.poly_to_power_basis z1) fun power_basis1 =>
      Rt.bind (Src.Py.roots_in_unit_interval ext.polyroots power_basis1) fun all_roots =>
      if all_roots.length = 0 then .ok none
      else
        Rt.bind (Src.Py.poly_to_power_basis z2) fun t10 =>
        Rt.bind (Src.Py.normalize_polynomial Real.sqrt t10 (q 1 1099511627776 : ℝ)) fun power_basis2 =>
        let near_zero := List.map Model.absK (pv all_roots power_basis2)
        Rt.bind (Src.Py.Rt.argmin near_zero) fun index =>
        Rt.bind (Src.Py.Rt.idx near_zero index) fun t13 =>
        if t13 < (q 1 274877906944 : ℝ) then
          Rt.bind (Src.Py.Rt.idx all_roots index) fun t14 => .ok (some t14)
        else .ok none) =
      (match polyToPowerBasis z1 with
      | .error e => .error e
      | .ok pb1 =>
        let roots := rootsInUnitInterval ext par pb1
        if roots.length = 0 then .ok none
        else
          match polyToPowerBasis z2 with
          | .error e => .error e
          | .ok pb2raw =>
            let pb2 := normalizePolynomial par.l2ThrSq (ext.sqrt (polynomialNormSq pb2raw)) pb2raw
            let nearZero := roots.map (fun r => Alg.absK (polyval pb2 r))
            let index := argminIdx nearZero
            if seq nearZero index < par.zeroThr then .ok (some (seq roots index)) else .ok none) := by
  have hq : (0 : ℝ) < q 1 1099511627776 := by
    unfold Model.q
    norm_num
  rw [poly_to_power_basis_src]
  cases polyToPowerBasis z1 with
  | error e => rfl
  | ok pb1 =>
    simp only [Rt.bind_ok, roots_in_unit_interval_src ext par pb1 hs he hi]
    by_cases hr : (rootsInUnitInterval ext par pb1).length = 0
    · rw [if_pos hr, if_pos hr]
    · rw [if_neg hr, if_neg hr, poly_to_power_basis_src]
      cases polyToPowerBasis z2 with
      | error e => rfl
      | ok pb2raw =>
        simp only [Rt.bind_ok, normalize_polynomial_src pb2raw _ hq, hpv, List.map_map, hsqrt, hl2, hzero]
        have hne : List.map (Model.absK ∘ fun r => polyval (normalizePolynomial ((q 1 1099511627776 : ℝ) ^ 2)
            (Real.sqrt (polynomialNormSq pb2raw)) pb2raw) r) (rootsInUnitInterval ext par pb1) ≠ [] := by
          intro h
          apply hr
          have := congrArg List.length h
          simpa using this
        have hlt := argminIdx_lt _ hne
        rw [argmin_eq _ hne, Rt.bind_ok, idx_ok _ _ hlt, Rt.bind_ok]
        have hlt' : argminIdx (List.map (Model.absK ∘ fun r => polyval (normalizePolynomial ((q 1 1099511627776 : ℝ) ^ 2)
            (Real.sqrt (polynomialNormSq pb2raw)) pb2raw) r) (rootsInUnitInterval ext par pb1)) <
            (rootsInUnitInterval ext par pb1).length := by simpa using hlt
        rw [idx_ok _ _ hlt', Rt.bind_ok]
        rfl

/-- `locate_point` on a 2-row array: the two `full_reduce` calls on the coordinate rows (first error wins), the subtraction
    of the point, the two swaps on the widths, and the tail above are the model's `locatePoint`; `full_reduce` and
    `polyval` are explicit parameters assumed to be the model's (`hfr`, `hpv`) -/
theorem locate_point_src (ext : Externals ℝ) (par : Params ℝ) (fr : List (List ℝ) → Except Err (List (List ℝ)))
    (pv : List ℝ → List ℝ → List ℝ) (xs ys : List ℝ) (x y : ℝ)
    (hsqrt : ext.sqrt = Real.sqrt) (hfr : ∀ m, fr m = fullReduce par.reduceThrSq m)
    (hpv : ∀ rs c, pv rs c = rs.map (fun r => polyval c r))
    (hl2 : par.l2ThrSq = (q 1 1099511627776 : ℝ) ^ 2) (hzero : par.zeroThr = (q 1 274877906944 : ℝ))
    (hs : par.wiggleStart = (-(q 1 8192 : ℝ) : ℝ)) (he : par.wiggleEnd = (q 8193 8192 : ℝ))
    (hi : par.imagWiggle = (q 1 8192 : ℝ)) :
    Src.Py.locate_point Real.sqrt fr ext.polyroots pv [xs, ys] x y = locatePoint ext par [xs, ys] x y := by
  unfold Src.Py.locate_point locatePoint
  simp only [hfr, List.getD_cons_zero, List.getD_cons_succ]
  cases h1 : fullReduce par.reduceThrSq [xs] with
  | error e => rfl
  | ok r1 =>
    obtain ⟨row1, rfl⟩ := len1 r1 (by simpa using fullReduce_rows _ _ _ h1)
    cases h2 : fullReduce par.reduceThrSq [ys] with
    | error e => rfl
    | ok r2 =>
      obtain ⟨row2, rfl⟩ := len1 r2 (by simpa using fullReduce_rows _ _ _ h2)
      simp only [Rt.bind_ok, Src.Py.Rt.mmap, List.map_cons, List.map_nil, shape_one_row, List.headD_cons, List.length_map]
      have tail12 := locate_tail ext par pv (List.map (fun v => v - x) row1) (List.map (fun v => v - y) row2)
        hsqrt hpv hl2 hzero hs he hi
      have tail21 := locate_tail ext par pv (List.map (fun v => v - y) row2) (List.map (fun v => v - x) row1)
        hsqrt hpv hl2 hzero hs he hi
      dsimp only at tail12 tail21
      by_cases hA : row2.length < row1.length
      · have hA' : row1.length > row2.length := hA
        simp only [hA, hA', ↓reduceIte, shape_one_row, Rt.bind_ok, List.length_map]
        by_cases hB : row2.length = 1
        · simp only [hB, ↓reduceIte, Src.Py.Rt.lidx, List.getElem?_cons_zero, Rt.bind_ok]
          rw [tail12]
          cases polyToPowerBasis (List.map (fun v => v - x) row1) with
          | error e => rfl
          | ok pb1 =>
            dsimp only
            split_ifs
            · rfl
            · cases polyToPowerBasis (List.map (fun v => v - y) row2) <;> rfl
        · simp only [hB, ↓reduceIte, Src.Py.Rt.lidx, List.getElem?_cons_zero, Rt.bind_ok]
          rw [tail21]
          cases polyToPowerBasis (List.map (fun v => v - y) row2) with
          | error e => rfl
          | ok pb1 =>
            dsimp only
            split_ifs
            · rfl
            · cases polyToPowerBasis (List.map (fun v => v - x) row1) <;> rfl
      · have hA' : ¬ row1.length > row2.length := hA
        simp only [hA, hA', ↓reduceIte, shape_one_row, Rt.bind_ok, List.length_map]
        by_cases hB : row1.length = 1
        · simp only [hB, ↓reduceIte, Src.Py.Rt.lidx, List.getElem?_cons_zero, Rt.bind_ok]
          rw [tail21]
          cases polyToPowerBasis (List.map (fun v => v - y) row2) with
          | error e => rfl
          | ok pb1 =>
            dsimp only
            split_ifs
            · rfl
            · cases polyToPowerBasis (List.map (fun v => v - x) row1) <;> rfl
        · simp only [hB, ↓reduceIte, Src.Py.Rt.lidx, List.getElem?_cons_zero, Rt.bind_ok]
          rw [tail12]
          cases polyToPowerBasis (List.map (fun v => v - x) row1) with
          | error e => rfl
          | ok pb1 =>
            dsimp only
            split_ifs
            · rfl
            · cases polyToPowerBasis (List.map (fun v => v - y) row2) <;> rfl

/-! ## `_check_non_simple` (any field; `polyder`, `polycompanion`, `matrix_rank` explicit parameters) -/

section field3
variable {F : Type} [Field F] [LinearOrder F]

/-- an `m × m` array -/
def Sq (m : Nat) (a : List (List F)) : Prop := a.length = m ∧ ∀ r ∈ a, r.length = m

theorem sq_cellMat (m : Nat) (g : Nat → Nat → F) : Sq m (cellMat m g) := by
  refine ⟨by simp [cellMat], ?_⟩
  intro r hr
  simp only [cellMat, List.mem_map, List.mem_range] at hr
  obtain ⟨i, _, rfl⟩ := hr
  simp

theorem sq_scale (m : Nat) (c : F) (a : List (List F)) (h : Sq m a) : Sq m (scaleMat c a) := by
  refine ⟨by simp [scaleMat, h.1], ?_⟩
  intro r hr
  simp only [scaleMat, List.mem_map] at hr
  obtain ⟨r', hr', rfl⟩ := hr
  simp [scaleRow, h.2 r' hr']

theorem sq_matMul (m : Nat) (hm : 1 ≤ m) (a b : List (List F)) (ha : Sq m a) (hb : Sq m b) : Sq m (matMul a b) := by
  refine ⟨by simp [matMul, ha.1], ?_⟩
  intro r hr
  simp only [matMul, List.mem_map] at hr
  obtain ⟨r', _, rfl⟩ := hr
  have hnc : ncols b = m := by
    obtain ⟨r0, rest, rfl⟩ := List.exists_cons_of_ne_nil (by intro h; have := hb.1; simp [h] at this; omega : b ≠ [])
    simpa [ncols] using hb.2 r0 (List.mem_cons_self ..)
  simp [rowMul, hnc]

theorem sq_addMat (m : Nat) (a b : List (List F)) (ha : Sq m a) (hb : Sq m b) : Sq m (addMat a b) := by
  refine ⟨by simp [addMat, ha.1, hb.1], ?_⟩
  intro r hr
  simp only [addMat] at hr
  obtain ⟨i, hi, rfl⟩ := List.getElem_of_mem hr
  simp only [List.length_zipWith] at hi
  rw [List.getElem_zipWith]
  simp [addRow, ha.2 _ (List.getElem_mem (by omega : i < a.length)), hb.2 _ (List.getElem_mem (by omega : i < b.length))]

theorem mzip_add_rows (k : Nat) : ∀ (a b : List (List F)), a.length = b.length → (∀ r ∈ a, r.length = k) →
    (∀ r ∈ b, r.length = k) → Src.Py.Rt.mzip (fun x y => x + y) a b = .ok (addMat a b) := by
  intro a
  induction a with
  | nil => intro b hl _ _; cases b with
    | nil => rfl
    | cons _ _ => simp at hl
  | cons ra a ih =>
    intro b hl ha hb
    cases b with
    | nil => simp at hl
    | cons rb b =>
      have h1 : ra.length = rb.length := by
        rw [ha ra (List.mem_cons_self ..), hb rb (List.mem_cons_self ..)]
      rw [Src.Py.Rt.mzip, if_pos h1, ih b (by simpa using hl) (fun r hr => ha r (List.mem_cons_of_mem _ hr))
        (fun r hr => hb r (List.mem_cons_of_mem _ hr)), Rt.bind_ok]
      rfl

theorem foldM_ok_inv {α σ : Type} (P : σ → Prop) (xs : List α) (Fs : σ → α → Except Err σ) (G : σ → α → σ)
    (h : ∀ s, ∀ x ∈ xs, P s → Fs s x = .ok (G s x) ∧ P (G s x)) (init : σ) (h0 : P init) :
    Src.Py.Rt.foldM xs init Fs = .ok (xs.foldl G init) ∧ P (xs.foldl G init) := by
  induction xs generalizing init with
  | nil => exact ⟨rfl, h0⟩
  | cons x xs ih =>
    obtain ⟨h1, h2⟩ := h init x (List.mem_cons_self ..) h0
    rw [Src.Py.Rt.foldM, h1, Rt.bind_ok]
    exact ih (fun s y hy hs => h s y (List.mem_cons_of_mem _ hy) hs) _ h2

theorem map_seq_range_init (init : List F) (x : F) :
    (List.range init.length).map (seq (init ++ [x])) = init := by
  apply List.ext_getElem
  · simp
  · intro i h1 h2
    simp [seq, List.getD_eq_getElem?_getD, List.getElem?_append_left h2, List.getElem?_eq_getElem h2]

/-- `_check_non_simple`: strip the leading (near-)zeros, return for fewer than three coefficients, evaluate `f` at the
    (transposed) companion matrix of `f'` by Horner's method (`polyAtMatrix`), take the rank (a threshold test in the
    1 × 1 case, the external `matrix_rank` otherwise) and raise `NotImplementedError` when it is deficient.  `polyder` and
    `polycompanion` are explicit parameters, assumed to be the model's `polyder` and (transposed) `polyCompanionT` -/
theorem check_non_simple_src (ext : Externals F) (par : Params F) (pd : List F → List F) (pc : List F → List (List F))
    (coeffs : List F) (hpd : ∀ c, pd c = polyder c) (hpc : ∀ c, transpose (pc c) = polyCompanionT c)
    (hthr : par.coeffThr = (q 1 67108864 : F)) (hns : par.nonSimpleThr = (q 1 281474976710656 : F)) :
    Src.Py._check_non_simple ext.rank pc pd coeffs = checkNonSimple ext par coeffs := by
  unfold Src.Py._check_non_simple checkNonSimple
  rw [strip_leading_zeros_src, hthr]
  cases stripLeadingZeros (q 1 67108864 : F) coeffs with
  | error e => rfl
  | ok cs =>
    simp only [Rt.bind_ok]
    by_cases h3 : cs.length < 3
    · rw [if_pos h3, if_pos h3]
    · rw [if_neg h3, if_neg h3]
      rcases List.eq_nil_or_concat cs with rfl | ⟨init, x, hcat⟩
      · simp at h3
      · rw [List.concat_eq_append] at hcat
        subst hcat
        have hinit : 2 ≤ init.length := by simp at h3; omega
        rw [hpd, hpc]
        -- the companion matrix is m × m, m = len - 2
        obtain ⟨m, hm⟩ : ∃ m, m = (polyder (init ++ [x])).length - 1 := ⟨_, rfl⟩
        have hm1 : 1 ≤ m := by simp [polyder] at hm; omega
        obtain ⟨g, hcomp⟩ : ∃ g, polyCompanionT (polyder (init ++ [x])) = cellMat m g := by
          rw [hm]; exact ⟨_, rfl⟩
        have hsqc : Sq m (cellMat m g) := sq_cellMat m g
        have hshape : Src.Py.Rt.shape (cellMat m g) = .ok (m, m) := by
          have := SrcPyKernels.shape_rect' (cellMat m g) m (by intro h; have := hsqc.1; simp [h] at this; omega) hsqc.2
          rw [this, hsqc.1]
        rw [hcomp, hshape]
        simp only [Rt.bind_ok, idxI_last, hsqc.1]
        have htn : Int.toNat ((((init ++ [x]).length : Int) - 2) + 1) = init.length := by simp; omega
        rw [htn]
        have hid : Sq m (identity (K := F) m) := sq_cellMat m _
        have hloop := foldM_ok_inv (Sq m) (List.reverse (List.range init.length))
          (fun evaluated index =>
            Rt.bind (Src.Py.Rt.idx (init ++ [x]) index) fun coeff =>
            Rt.bind (Src.Py.matrix_product evaluated (cellMat m g)) fun t5 =>
            Src.Py.Rt.mzip (fun x y => x + y) t5 (Src.Py.Rt.mmap (fun x => coeff * x) (identity m)))
          (fun ev index => addMat (matMul ev (cellMat m g)) (scaleMat (seq (init ++ [x]) index) (identity m)))
          (by
            intro ev i hi hev
            have hi' : i < (init ++ [x]).length := by
              have := List.mem_range.mp (List.mem_reverse.mp hi)
              simp; omega
            have hmp := SrcPyKernels.matrix_product_src ev (cellMat m g) m m
              (by intro h; have := hev.1; simp [h] at this; omega) hm1 hm1 hev.2 hsqc.1 hsqc.2
            have hsm := sq_matMul m hm1 ev (cellMat m g) hev hsqc
            have hss := sq_scale m (seq (init ++ [x]) i) _ hid
            refine ⟨?_, sq_addMat m _ _ hsm hss⟩
            rw [idx_ok _ _ hi', Rt.bind_ok, hmp, Rt.bind_ok]
            exact mzip_add_rows m _ _ (hsm.1.trans hss.1.symm) hsm.2 hss.2)
          (Src.Py.Rt.mmap (fun y => x * y) (identity m)) (sq_scale m x _ hid)
        obtain ⟨hl1, hl2⟩ := hloop
        rw [hl1, Rt.bind_ok]
        -- the model side
        have hpoly : polyAtMatrix (init ++ [x]) (cellMat m g) =
            List.foldl (fun ev index => addMat (matMul ev (cellMat m g)) (scaleMat (seq (init ++ [x]) index) (identity m)))
              (Src.Py.Rt.mmap (fun y => x * y) (identity m)) (List.reverse (List.range init.length)) := by
          unfold polyAtMatrix
          simp only [List.reverse_append, List.reverse_singleton, List.singleton_append, hsqc.1]
          rw [← map_seq_range_init init x, ← List.map_reverse, List.foldl_map, map_seq_range_init]
          rfl
        rw [hpoly]
        generalize List.foldl (fun ev index => addMat (matMul ev (cellMat m g)) (scaleMat (seq (init ++ [x]) index) (identity m)))
              (Src.Py.Rt.mmap (fun y => x * y) (identity m)) (List.reverse (List.range init.length)) = ev at hl2
        by_cases hm : m = 1
        · subst hm
          obtain ⟨r0, rfl⟩ := len1 ev hl2.1
          obtain ⟨a, rfl⟩ := len1 r0 (hl2.2 r0 (List.mem_cons_self ..))
          simp only [↓reduceIte, hns]
          rfl
        · simp only [hm, ↓reduceIte, Rt.bind_ok]

end field3

end BezierVerif.SrcPyAlgebraic
